(* Hand-written driver for the extracted model: converts integers between text
   and the extracted Z, groups lines into cases, prints observation lines.
   No model logic lives here. *)
open Model

let rec pos_of_int n =
  if n = 1 then XH
  else if n land 1 = 0 then XO (pos_of_int (n lsr 1))
  else XI (pos_of_int (n lsr 1))

let z_of_int n =
  if n = 0 then Z0 else if n > 0 then Zpos (pos_of_int n) else Zneg (pos_of_int (-n))

let rec int_of_pos = function
  | XH -> 1
  | XO p -> 2 * int_of_pos p
  | XI p -> 2 * int_of_pos p + 1

let int_of_z = function
  | Z0 -> 0
  | Zpos p -> int_of_pos p
  | Zneg p -> - (int_of_pos p)

let parse_line s =
  String.split_on_char ' ' s
  |> List.filter (fun x -> x <> "")
  |> List.map (fun x -> z_of_int (int_of_string x))

let print_rec buf r =
  let first = ref true in
  List.iter (fun z ->
    if not !first then Buffer.add_char buf ' ';
    first := false;
    Buffer.add_string buf (string_of_int (int_of_z z))) r;
  Buffer.add_char buf '\n'

let () =
  let buf = Buffer.create 65536 in
  let cur = ref [] in
  let cur_id = ref "" in
  let flush_case () =
    if !cur <> [] then begin
      Buffer.add_string buf ("# " ^ !cur_id ^ "\n");
      let obs = run_any (List.rev !cur) in
      List.iter (print_rec buf) obs;
      print_string (Buffer.contents buf);
      Buffer.clear buf;
      cur := []
    end in
  (try
    while true do
      let line = input_line stdin in
      if String.length line > 0 && line.[0] = '#' then begin
        flush_case ();
        cur_id := String.trim (String.sub line 1 (String.length line - 1))
      end else if String.trim line <> "" then
        cur := parse_line line :: !cur
    done
  with End_of_file -> ());
  flush_case ()
