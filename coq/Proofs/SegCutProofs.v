(* Why a read boundary at a grapheme-cluster boundary does not matter (C08, grapheme clause).
   After a cluster that ends at the end of the buffered bytes the reader continues with
   segmentation state -1, where an uncut read continues with the state uniseg.Step returned.
   Theorem [ustep_fresh_state]: that returned state is always the state a fresh start would
   compute for the next character, so both continue identically ([ustep_carried_is_fresh]).
   The three facts about the transition table are checked on the table generated from the
   library's source. *)
From Coq Require Import List ZArith Bool Lia.
From Termemu Require Import Base Parser BaseLemmas Gen_Uniseg Uniseg Grapheme.
Import ListNotations.
Open Scope Z_scope.

(* the grapheme state a fresh start (state -1) computes for a character of property p *)
Definition fresh (p : Z) : Z := fst (fst (trans_prop (-1) p)).

Lemma gr_lookup_In t : forall s p res, gr_lookup t s p = Some res -> In (s, p, res) t.
Proof.
  induction t as [|[[s0 p0] res0] t IH]; intros s p res H; [discriminate|].
  cbn [gr_lookup] in H. destruct (Z.eqb_spec s0 s) as [->|]; cbn [andb] in H.
  - destruct (Z.eqb_spec p0 p) as [->|]; [inversion H; subst; left; reflexivity|right; apply IH, H].
  - right; apply IH, H.
Qed.

Lemma gr_lookup_no_state t s : forallb (fun e => negb (fst (fst e) =? s)) t = true -> forall p, gr_lookup t s p = None.
Proof.
  induction t as [|[[s0 p0] res0] t IH]; intros H p; [reflexivity|].
  cbn [forallb fst] in H. apply andb_true_iff in H. destruct H as (H1 & H2).
  cbn [gr_lookup]. destruct (s0 =? s); [discriminate|]. cbn [andb]. apply IH, H2.
Qed.

(* T1: an entry that announces a boundary leads to the state of a fresh start on the same property *)
Definition t1_check (e : Z * Z * (Z * Z * Z)) : bool :=
  let '(_, p, (ns, b, _)) := e in negb (b =? u_grBoundary) || (ns =? fresh p).
Lemma T1 : forallb t1_check u_grTransitions = true.
Proof. vm_compute. reflexivity. Qed.
(* T2: no entry is for state -1 *)
Lemma T2 : forallb (fun e => negb (fst (fst e) =? -1)) u_grTransitions = true.
Proof. vm_compute. reflexivity. Qed.
(* T3: an any-property entry that announces a boundary leads to the initial state *)
Definition t3_check (e : Z * Z * (Z * Z * Z)) : bool :=
  let '(_, p, (ns, b, _)) := e in negb (p =? u_prAny) || negb (b =? u_grBoundary) || (ns =? u_grAny).
Lemma T3 : forallb t3_check u_grTransitions = true.
Proof. vm_compute. reflexivity. Qed.

Lemma trans_prop_prop s p : snd (fst (trans_prop s p)) = p.
Proof.
  unfold trans_prop. destruct (gr_trans s p) as [[[ns b] r]|]; [reflexivity|].
  destruct (gr_trans s u_prAny) as [[[a1 a2] a3]|]; destruct (gr_trans u_grAny p) as [[[b1 b2] b3]|]; reflexivity.
Qed.

Lemma fresh_spec p : fresh p = match gr_trans u_grAny p with Some (ass, _, _) => ass | None => u_grAny end.
Proof.
  unfold fresh, trans_prop, gr_trans.
  rewrite !(gr_lookup_no_state _ _ T2).
  fold (gr_trans u_grAny p). destruct (gr_trans u_grAny p) as [[[a b] c]|]; reflexivity.
Qed.

(* wherever the state machine announces a cluster boundary, its new state is the fresh state of the next character *)
Theorem trans_prop_fresh gs p ns p' : trans_prop gs p = (ns, p', true) -> ns = fresh p.
Proof.
  unfold trans_prop. destruct (gr_trans gs p) as [[[ns0 b0] r0]|] eqn:E.
  - intros H; inversion H; subst. apply gr_lookup_In in E.
    pose proof T1 as A. rewrite forallb_forall in A. specialize (A _ E). unfold t1_check in A.
    match goal with Hb : (b0 =? u_grBoundary) = true |- _ => rewrite Hb in A end. cbn [negb orb] in A. lia.
  - rewrite fresh_spec.
    destruct (gr_trans gs u_prAny) as [[[aps apb] apr]|] eqn:E1; destruct (gr_trans u_grAny p) as [[[ass asb] asr]|] eqn:E2.
    + intros H; inversion H; reflexivity.
    + intros H; inversion H; subst. apply gr_lookup_In in E1.
      pose proof T3 as A. rewrite forallb_forall in A. specialize (A _ E1). unfold t3_check in A.
      rewrite Z.eqb_refl in A.
      match goal with Hb : (apb =? u_grBoundary) = true |- _ => rewrite Hb in A end. cbn [negb orb] in A. lia.
    + intros H; inversion H; reflexivity.
    + intros H; inversion H; reflexivity.
Qed.

(* ---- the state uniseg.Step returns before a further character is the fresh state of that character ---- *)
Lemma ustep_loop_state : forall fuel buf gs fp w len c w' g p,
  ustep_loop fuel buf gs fp w len = (c, w', Some (g, p)) -> c < zlen buf ->
  p = prop_graphemes (fst (go_decode_rune (zskipn c buf))) /\ g = fresh p.
Proof.
  induction fuel as [|f IH]; intros buf gs fp w len c w' g p H Hc; cbn [ustep_loop] in H; [discriminate|].
  destruct (go_decode_rune (zskipn len buf)) as [r l] eqn:Ed.
  unfold trans_grapheme in H.
  pose proof (trans_prop_prop gs (prop_graphemes r)) as Hp.
  destruct (trans_prop gs (prop_graphemes r)) as [[gs' prop] boundary] eqn:Et. cbn [fst snd] in Hp. subst prop.
  destruct boundary.
  - inversion H; subst. rewrite Ed. cbn [fst]. split; [reflexivity|]. eapply trans_prop_fresh, Et.
  - destruct (zlen buf <=? len + l) eqn:El.
    + inversion H; subst. lia.
    + eapply IH; eassumption.
Qed.

Theorem ustep_fresh_state buf st c w g p : ustep buf st = (c, w, Some (g, p)) -> c < zlen buf ->
  p = prop_graphemes (fst (go_decode_rune (zskipn c buf))) /\ g = fresh p.
Proof.
  unfold ustep. destruct (go_decode_rune buf) as [r len].
  destruct (zlen buf <=? len).
  - intros H Hc; inversion H; subst. lia.
  - destruct st as [[g0 p0]|].
    + apply ustep_loop_state.
    + destruct (trans_grapheme (-1) r) as [[g0 p0] b0]. apply ustep_loop_state.
Qed.

(* continuing from that state is continuing from a fresh start *)
Theorem ustep_carried_is_fresh buf g p : p = prop_graphemes (fst (go_decode_rune buf)) -> g = fresh p ->
  ustep buf (Some (g, p)) = ustep buf None.
Proof.
  intros Hp Hg. unfold ustep. destruct (go_decode_rune buf) as [r len] eqn:Ed. cbn [fst] in Hp.
  destruct (zlen buf <=? len); [subst; reflexivity|].
  unfold trans_grapheme. pose proof (trans_prop_prop (-1) (prop_graphemes r)) as Hq.
  destruct (trans_prop (-1) (prop_graphemes r)) as [[g0 p0] b0] eqn:Et. cbn [fst snd] in Hq.
  assert (g0 = fresh (prop_graphemes r)) by (unfold fresh; rewrite Et; reflexivity).
  subst. reflexivity.
Qed.

(* the two together: the cluster after a boundary is the same whether the state is carried or reset *)
Corollary ustep_after_boundary buf st c w g p : ustep buf st = (c, w, Some (g, p)) -> c < zlen buf ->
  ustep (zskipn c buf) (Some (g, p)) = ustep (zskipn c buf) None.
Proof.
  intros H Hc. destruct (ustep_fresh_state _ _ _ _ _ _ H Hc) as (Hp & Hg).
  apply ustep_carried_is_fresh; assumption.
Qed.

(* for the reader: the next cluster, and hence the next token, does not depend on whether the segmentation state
   was carried over a cluster boundary or reset there *)
Corollary step_grapheme_after_boundary buf st c w g p : ustep buf st = (c, w, Some (g, p)) -> c < zlen buf ->
  step_grapheme_cluster (zskipn c buf) (Some (g, p)) = step_grapheme_cluster (zskipn c buf) None.
Proof.
  intros H Hc. unfold step_grapheme_cluster. rewrite (ustep_after_boundary _ _ _ _ _ _ H Hc). reflexivity.
Qed.

Corollary next_token_after_boundary buf st c w g p fm ri : ustep buf st = (c, w, Some (g, p)) -> c < zlen buf ->
  next_grapheme_token (zskipn c buf) (mkRs (Some (g, p)) fm ri) = next_grapheme_token (zskipn c buf) (mkRs None fm ri).
Proof.
  intros H Hc. unfold next_grapheme_token. cbn [rs_state rs_fm rs_ri].
  rewrite (step_grapheme_after_boundary _ _ _ _ _ _ H Hc). reflexivity.
Qed.

(* ---- prefix stability: the first cluster of x ++ b, when it ends inside x, is the first cluster of x ---- *)
From Termemu Require Import ParserProofs ParserMono.

(* x consists of whole UTF-8 decoding steps (valid characters or single invalid bytes): no character is cut at its end *)
Inductive aligned : list Z -> Prop :=
| al_nil : aligned []
| al_cons y r l v : decode_rune y = Some (r, l, v) -> aligned (zskipn l y) -> aligned y.

Lemma skipn_add {A} : forall b a (l : list A), skipn a (skipn b l) = skipn (a + b) l.
Proof.
  induction b as [|b IH]; intros a l; [rewrite Nat.add_0_r; reflexivity|].
  destruct l as [|x l]; [rewrite !skipn_nil; reflexivity|].
  rewrite Nat.add_succ_r. cbn [skipn]. apply IH.
Qed.

Lemma zskipn_zskipn {A} a b (l : list A) : 0 <= a -> 0 <= b -> zskipn a (zskipn b l) = zskipn (b + a) l.
Proof. intros Ha Hb. unfold zskipn. rewrite skipn_add. f_equal. lia. Qed.

Lemma zskipn_app_le {A} n (l m : list A) : 0 <= n <= zlen l -> zskipn n (l ++ m) = zskipn n l ++ m.
Proof.
  intros H. unfold zskipn, zlen in *. rewrite skipn_app.
  replace (Z.to_nat n - length l)%nat with O by lia. reflexivity.
Qed.

Lemma go_decode_aligned y b r l v : decode_rune y = Some (r, l, v) ->
  go_decode_rune (y ++ b) = (r, l) /\ go_decode_rune y = (r, l).
Proof.
  intros H. pose proof (decode_rune_mono y b _ H) as H2. unfold go_decode_rune.
  destruct y as [|y0 y']; [discriminate|]. cbn [app]. cbn [app] in H2. rewrite H2, H. split; reflexivity.
Qed.

Lemma go_decode_size buf : buf <> [] -> 1 <= snd (go_decode_rune buf) <= zlen buf.
Proof.
  intros H. unfold go_decode_rune. destruct buf as [|b0 r0]; [contradiction|].
  destruct (decode_rune (b0 :: r0)) as [[[r l] v]|] eqn:E; cbn [snd].
  - pose proof (decode_rune_size _ _ _ _ E). lia.
  - rewrite zlen_cons. pose proof (zlen_nonneg r0). lia.
Qed.

Lemma zskipn_nonempty {A} n (l : list A) : 0 <= n < zlen l -> zskipn n l <> [].
Proof.
  intros H E. pose proof (zlen_zskipn_le n l ltac:(lia)) as L. rewrite E, zlen_nil in L. lia.
Qed.

(* the loop returns a position not before where it started, and the starting width if it stops at once *)
Lemma ustep_loop_ge : forall fuel buf gs fp w len c w' ns, 0 <= len < zlen buf ->
  ustep_loop fuel buf gs fp w len = (c, w', ns) -> len <= c /\ (c = len -> w' = w).
Proof.
  induction fuel as [|f IH]; intros buf gs fp w len c w' ns Hl H; cbn [ustep_loop] in H.
  - inversion H; subst. split; [lia|reflexivity].
  - pose proof (go_decode_size (zskipn len buf) (zskipn_nonempty _ _ Hl)) as Hs.
    destruct (go_decode_rune (zskipn len buf)) as [r l]. cbn [snd] in Hs.
    destruct (trans_grapheme gs r) as [[gs' prop] boundary]. destruct boundary.
    + inversion H; subst. split; [lia|reflexivity].
    + destruct (zlen buf <=? len + l) eqn:El.
      * inversion H; subst. split; [lia|intros; lia].
      * apply Z.leb_gt in El. assert (Hl2 : 0 <= len + l < zlen buf) by lia.
        destruct (IH _ _ _ _ _ _ _ _ Hl2 H) as (A & _). split; [lia|intros; lia].
Qed.

Lemma ustep_loop_prefix : forall f1 f2 x b gs fp w len c w' ns,
  aligned (zskipn len x) -> 0 <= len < zlen x -> zlen x - len <= Z.of_nat f1 -> zlen x + zlen b - len <= Z.of_nat f2 ->
  ustep_loop f2 (x ++ b) gs fp w len = (c, w', ns) -> c <= zlen x ->
  (c < zlen x /\ ustep_loop f1 x gs fp w len = (c, w', ns) /\ aligned (zskipn c x)) \/
  (c = zlen x /\ exists p, ustep_loop f1 x gs fp w len = (zlen x, w', Some (u_grAny, p))).
Proof.
  induction f1 as [|f IH]; intros f2 x b gs fp w len c w' ns Hal Hl F1 F2 H Hc; [lia|].
  destruct f2 as [|f2]; [pose proof (zlen_nonneg b); lia|].
  cbn [ustep_loop] in *.
  inversion Hal as [E0|y r l v Hd Hrest E0]; [exfalso; eapply zskipn_nonempty; [exact Hl|symmetry; exact E0]|]. subst y.
  destruct (go_decode_aligned _ b _ _ _ Hd) as (D1 & D2).
  rewrite zskipn_app_le in H by lia. rewrite D1 in H. rewrite D2.
  pose proof (decode_rune_size _ _ _ _ Hd) as (Hl1 & Hl2). rewrite zlen_zskipn_le in Hl2 by lia.
  destruct (trans_grapheme gs r) as [[gs' prop] boundary]. destruct boundary.
  - inversion H; subst. left. split; [lia|split; [reflexivity|exact Hal]].
  - rewrite zlen_app in H.
    destruct (Z.leb_spec (zlen x) (len + l)) as [Hend|Hmore].
    + (* the cluster reaches the end of x *)
      assert (len + l = zlen x) by lia.
      destruct (Z.leb_spec (zlen x + zlen b) (len + l)) as [Hb|Hb].
      * inversion H; subst. right. split; [pose proof (zlen_nonneg b); lia|].
        exists prop. replace (zlen x + zlen b) with (zlen x) by (pose proof (zlen_nonneg b); lia). reflexivity.
      * assert (Hl' : 0 <= len + l < zlen (x ++ b)) by (rewrite zlen_app; lia).
        destruct (ustep_loop_ge _ _ _ _ _ _ _ _ _ Hl' H) as (G1 & G2).
        assert (c = len + l) by lia. subst c. rewrite (G2 eq_refl). right. split; [lia|]. exists prop. first [reflexivity | repeat f_equal; lia].
    + destruct (Z.leb_spec (zlen x + zlen b) (len + l)) as [Hb|Hb]; [pose proof (zlen_nonneg b); lia|].
      apply (IH f2 x b gs' fp _ (len + l)); try assumption; try lia.
      rewrite zskipn_zskipn in Hrest by lia. exact Hrest.
Qed.

Theorem ustep_prefix x b st c w ns : aligned x -> x <> [] -> ustep (x ++ b) st = (c, w, ns) -> c <= zlen x ->
  (c < zlen x /\ ustep x st = (c, w, ns) /\ aligned (zskipn c x)) \/
  (c = zlen x /\ exists p, ustep x st = (zlen x, w, Some (u_grAny, p))).
Proof.
  intros Hal Hne H Hc. unfold ustep in *.
  inversion Hal as [E0|y r l v Hd Hrest E0]; [congruence|]. subst y.
  destruct (go_decode_aligned _ b _ _ _ Hd) as (D1 & D2). rewrite D1 in H. rewrite D2.
  pose proof (decode_rune_size _ _ _ _ Hd) as (Hl1 & Hl2).
  rewrite zlen_app in H. pose proof (zlen_nonneg b) as Hbn.
  destruct (Z.leb_spec (zlen x + zlen b) l) as [Ha|Ha].
  - (* x is one character and b is empty *)
    assert (zlen b = 0) by lia. assert (l = zlen x) by lia.
    destruct (Z.leb_spec (zlen x) l); [|lia].
    inversion H; subst. right. split; [lia|]. eexists. replace (zlen x + zlen b) with (zlen x) by lia. reflexivity.
  - set (gp := match st with None => let '(g, p, _) := trans_grapheme (-1) r in (g, p) | Some (g, p) => (g, p) end) in *.
    assert (Hfp : snd gp = match st with None => prop_graphemes r | Some (_, p) => p end).
    { subst gp. destruct st as [[g p]|]; [reflexivity|]. unfold trans_grapheme.
      pose proof (trans_prop_prop (-1) (prop_graphemes r)) as Q.
      destruct (trans_prop (-1) (prop_graphemes r)) as [[g0 p0] b0]. exact Q. }
    destruct gp as [gs firstProp] eqn:Egp. cbn [snd] in Hfp.
    destruct (Z.leb_spec (zlen x) l) as [Hx|Hx].
    + (* x is one character, b follows *)
      assert (l = zlen x) by lia. subst l.
      assert (Hl' : 0 <= zlen x < zlen (x ++ b)) by (rewrite zlen_app; lia).
      destruct (ustep_loop_ge _ _ _ _ _ _ _ _ _ Hl' H) as (G1 & G2).
      assert (c = zlen x) by lia. subst c. rewrite (G2 eq_refl), Hfp. right. split; [reflexivity|]. eexists; reflexivity.
    + apply (ustep_loop_prefix (length x) (length (x ++ b)) x b gs firstProp _ l); try assumption; try lia.
      * unfold zlen. lia.
      * rewrite app_length. unfold zlen. lia.
Qed.

Lemma aligned_full x : aligned x -> x <> [] -> forall b, full_rune (x ++ b) = true /\ full_rune x = true.
Proof.
  intros Hal Hne b. inversion Hal as [E0|y r l v Hd _ E0]; [congruence|]. subst y.
  unfold full_rune. rewrite (decode_rune_mono _ b _ Hd), Hd. split; reflexivity.
Qed.

Lemma ustep_pos buf st c w ns : buf <> [] -> ustep buf st = (c, w, ns) -> 1 <= c.
Proof.
  intros Hne H. unfold ustep in H. pose proof (go_decode_size buf Hne) as Hs.
  destruct (go_decode_rune buf) as [r l]. cbn [snd] in Hs.
  destruct (Z.leb_spec (zlen buf) l).
  - inversion H; subst. lia.
  - assert (Hl : 0 <= l < zlen buf) by lia.
    destruct st as [[g p]|]; [|destruct (trans_grapheme (-1) r) as [[g p] b0]];
      destruct (ustep_loop_ge _ _ _ _ _ _ _ _ _ Hl H); lia.
Qed.

(* P1: a token of x ++ b that ends inside x is the token of x alone: same bytes, width, merge flag and merge state;
   the same segmentation state if it ends before the end of x, the reset state if it ends with x *)
Theorem token_prefix x b rs tk : aligned x -> x <> [] ->
  next_grapheme_token (x ++ b) rs = Some tk -> tt_len tk <= zlen x ->
  exists tk', next_grapheme_token x rs = Some tk' /\
    tt_len tk' = tt_len tk /\ tt_width tk' = tt_width tk /\ tt_merge tk' = tt_merge tk /\
    rs_fm (tt_rs tk') = rs_fm (tt_rs tk) /\ rs_ri (tt_rs tk') = rs_ri (tt_rs tk) /\
    (tt_len tk < zlen x -> rs_state (tt_rs tk') = rs_state (tt_rs tk) /\ aligned (zskipn (tt_len tk) x)) /\
    (tt_len tk = zlen x -> rs_state (tt_rs tk') = None).
Proof.
  intros Hal Hne H Hc. unfold next_grapheme_token, step_grapheme_cluster in *.
  destruct (aligned_full x Hal Hne b) as (F1 & F2). rewrite F1 in H. rewrite F2. cbn [negb] in *.
  destruct (ustep (x ++ b) (rs_state rs)) as [[c w] ns] eqn:Eu.
  assert (Hne2 : x ++ b <> []) by (destruct x; [congruence|discriminate]).
  pose proof (ustep_pos _ _ _ _ _ Hne2 Eu) as Hpos.
  destruct (merge_flags (zfirstn c (x ++ b)) (rs_fm rs) (rs_ri rs)) as [[m f] r] eqn:Em.
  assert (Hcx : c <= zlen x) by (inversion H; subst; exact Hc).
  rewrite (zfirstn_app_le c x b Hcx) in Em.
  destruct (ustep_prefix x b _ c w ns Hal Hne Eu Hcx) as [(Hlt & Ex & Hal')|(Heq & p & Ex)]; rewrite Ex.
  - (* ends strictly inside x *)
    rewrite Em.
    rewrite zskipn_app_le in H by lia.
    assert (Hne' : zskipn c x <> []) by (apply zskipn_nonempty; lia).
    destruct (aligned_full _ Hal' Hne' b) as (G1 & G2). rewrite G1 in H. rewrite G2.
    rewrite zlen_app in H. pose proof (zlen_nonneg b) as Hbn.
    destruct (Z.leb_spec (zlen x + zlen b) c); [lia|]. destruct (Z.leb_spec (zlen x) c); [lia|].
    cbn [orb negb] in *. exists tk. inversion H; subst. cbn [tt_len tt_width tt_merge tt_rs rs_fm rs_ri rs_state].
    repeat split; try reflexivity; try assumption; intros; exfalso; lia.
  - (* ends exactly with x *)
    subst c. rewrite Em. destruct (Z.leb_spec (zlen x) (zlen x)); [|lia]. cbn [orb].
    eexists. split; [reflexivity|]. inversion H; subst. cbn [tt_len tt_width tt_merge tt_rs rs_fm rs_ri rs_state].
    repeat split; try reflexivity; intros; exfalso; lia.
Qed.

(* ---- the whole clause for a run of text: a read boundary at a token boundary ---- *)

(* the tokens of a run of text from a reader state: (bytes, width, merge) each, then the reader state and the bytes
   left when the reader has to wait (nothing left, or an incomplete character) *)
Inductive toks : list Z -> rstate -> list (Z * Z * bool) -> rstate -> list Z -> Prop :=
| toks_stop buf rs : buf = [] \/ next_grapheme_token buf rs = None -> toks buf rs [] rs buf
| toks_step buf rs tk l rs' rest : buf <> [] -> next_grapheme_token buf rs = Some tk ->
    toks (zskipn (tt_len tk) buf) (tt_rs tk) l rs' rest ->
    toks buf rs ((tt_len tk, tt_width tk, tt_merge tk) :: l) rs' rest.

Fixpoint toks_len (l : list (Z * Z * bool)) : Z :=
  match l with [] => 0 | (n, _, _) :: r => n + toks_len r end.

(* a carried segmentation state describes the next character and is the fresh state for it *)
Definition rs_ok (rs : rstate) (buf : list Z) : Prop :=
  match rs_state rs with
  | None => True
  | Some (g, p) => full_rune buf = true /\ p = prop_graphemes (fst (go_decode_rune buf)) /\ g = fresh p
  end.

Definition rs_reset_state (rs : rstate) : rstate := mkRs None (rs_fm rs) (rs_ri rs).

Lemma token_state_ok buf rs tk : next_grapheme_token buf rs = Some tk -> rs_ok (tt_rs tk) (zskipn (tt_len tk) buf).
Proof.
  unfold next_grapheme_token, step_grapheme_cluster. destruct (negb (full_rune buf)); [discriminate|].
  destruct (ustep buf (rs_state rs)) as [[c w] ns] eqn:Eu.
  destruct (merge_flags _ _ _) as [[m f] r]. intros H; inversion H; subst. cbn [tt_rs tt_len]. unfold rs_ok. cbn [rs_state].
  destruct (Z.leb_spec (zlen buf) c); cbn [orb]; [exact I|].
  destruct (full_rune (zskipn c buf)) eqn:Ef; cbn [negb]; [|exact I].
  destruct ns as [[g p]|]; [|exact I].
  destruct (ustep_fresh_state _ _ _ _ _ _ Eu ltac:(lia)) as (A & B). auto.
Qed.

(* under rs_ok the next token does not depend on whether the state is carried or reset *)
Lemma token_reset buf rs : rs_ok rs buf -> next_grapheme_token buf rs = next_grapheme_token buf (rs_reset_state rs).
Proof.
  unfold rs_ok, rs_reset_state, next_grapheme_token, step_grapheme_cluster. cbn [rs_state rs_fm rs_ri].
  destruct (rs_state rs) as [[g p]|]; [|reflexivity].
  intros (_ & Hp & Hg). rewrite (ustep_carried_is_fresh buf g p Hp Hg). reflexivity.
Qed.

Lemma rs_eta rs : rs_state rs = None -> rs = rs_reset_state rs.
Proof. destruct rs as [s f r]. cbn. intros ->. reflexivity. Qed.

(* a run read from a carried state that is ok is the run read from the reset state *)
Lemma toks_reset b rs l rs' rest : rs_ok rs b -> b <> [] -> toks b rs l rs' rest -> toks b (rs_reset_state rs) l rs' rest.
Proof.
  intros Hok Hne H. inversion H as [buf rs0 Hstop|buf rs0 tk l0 rs0' rest0 Hn Ht Hrest]; subst.
  - destruct Hstop as [->|Hnone]; [congruence|].
    (* no token: the character is incomplete, so the state was not carried *)
    assert (Es : rs_state rs' = None).
    { unfold rs_ok in Hok. destruct (rs_state rs') as [[g p]|]; [|reflexivity]. destruct Hok as (Hf & _).
      unfold next_grapheme_token, step_grapheme_cluster in Hnone. rewrite Hf in Hnone. cbn [negb] in Hnone.
      destruct (ustep _ _) as [[c w] ns]. destruct (merge_flags _ _ _) as [[m f] r]. discriminate. }
    rewrite <- (rs_eta _ Es). exact H.
  - rewrite (token_reset _ _ Hok) in Ht. eapply toks_step; eassumption.
Qed.

Lemma token_len_pos buf rs tk : buf <> [] -> next_grapheme_token buf rs = Some tk -> 1 <= tt_len tk.
Proof.
  intros Hne. unfold next_grapheme_token, step_grapheme_cluster. destruct (negb (full_rune buf)); [discriminate|].
  destruct (ustep buf (rs_state rs)) as [[c w] ns] eqn:Eu. destruct (merge_flags _ _ _) as [[m f] r].
  intros H; inversion H; subst. cbn [tt_len]. eapply ustep_pos; eassumption.
Qed.

(* along a derivation every token takes at least one byte *)
Lemma toks_prefix_len : forall l1 buf rs l2 rs' rest, toks buf rs (l1 ++ l2) rs' rest ->
  0 <= toks_len l1 /\ (toks_len l1 = 0 -> l1 = []).
Proof.
  induction l1 as [|[[n w] m] l1 IH]; intros buf rs l2 rs' rest H; cbn [toks_len]; [split; [lia|reflexivity]|].
  cbn [app] in H. inversion H as [|b0 rs0 tk l0 rs0' rest0 Hn Ht Hrest]; subst.
  pose proof (token_len_pos _ _ _ Hn Ht). destruct (IH _ _ _ _ _ Hrest) as (A & _). split; [lia|intros; lia].
Qed.

Lemma zskipn_all {A} (l : list A) : zskipn (zlen l) l = [].
Proof. unfold zskipn, zlen. rewrite Nat2Z.id. apply skipn_all. Qed.

Lemma rs_ext r1 r2 : rs_state r1 = rs_state r2 -> rs_fm r1 = rs_fm r2 -> rs_ri r1 = rs_ri r2 -> r1 = r2.
Proof. destruct r1, r2. cbn. intros -> -> ->. reflexivity. Qed.

(* C08, grapheme clause, for a run of text: if the tokens of a ++ b, read in one piece from a state that is ok,
   have a boundary at |a| (the first tokens l1 take exactly the bytes of a), then a read alone yields exactly l1
   and leaves nothing behind, and b read afterwards - from the reset segmentation state, with the merge flags
   carried - yields exactly the remaining tokens, the same final reader state and the same bytes left. *)
Theorem toks_cut : forall l1 a b rs l2 rs' rest, aligned a -> b <> [] -> rs_ok rs (a ++ b) ->
  toks (a ++ b) rs (l1 ++ l2) rs' rest -> toks_len l1 = zlen a ->
  exists rs1, toks a rs l1 rs1 [] /\ toks b (rs_reset_state rs1) l2 rs' rest.
Proof.
  induction l1 as [|[[n w] m] l1 IH]; intros a b rs l2 rs' rest Hal Hb Hok H Hlen.
  - cbn [toks_len] in Hlen. assert (a = []) by (destruct a; [reflexivity|rewrite zlen_cons in Hlen; pose proof (zlen_nonneg a); lia]).
    subst a. cbn [app] in *. exists rs. split; [apply toks_stop; left; reflexivity|]. apply toks_reset; assumption.
  - cbn [app] in H. inversion H as [|buf rs0 tk l0 rs0' rest0 Hn Ht Hrest]; subst.
    cbn [toks_len] in Hlen. pose proof (zlen_nonneg a) as Han.
    destruct (toks_prefix_len _ _ _ _ _ _ Hrest) as (Hl1 & Hl0).
    pose proof (token_len_pos _ _ _ Hn Ht) as Hpos.
    assert (Hne : a <> []) by (intros ->; rewrite zlen_nil in Hlen; lia).
    destruct (token_prefix a b rs tk Hal Hne Ht ltac:(lia)) as (tk' & Ht' & E1 & E2 & E3 & E4 & E5 & Hin & Hend).
    pose proof (token_state_ok _ _ _ Ht) as Hok'.
    destruct (Z_lt_ge_dec (tt_len tk) (zlen a)) as [Hlt|Hge].
    + destruct (Hin Hlt) as (Es & Hal').
      assert (Ers : tt_rs tk' = tt_rs tk) by (apply rs_ext; assumption).
      rewrite zskipn_app_le in Hrest, Hok' by lia.
      destruct (IH (zskipn (tt_len tk) a) b (tt_rs tk) l2 rs' rest Hal' Hb Hok' Hrest) as (rs1 & T1 & T2).
      { rewrite zlen_zskipn_le by lia. lia. }
      exists rs1. split; [|exact T2].
      rewrite <- E1, <- E2, <- E3. eapply toks_step; [exact Hne|exact Ht'|]. rewrite E1, Ers. exact T1.
    + assert (Elen : tt_len tk = zlen a) by lia.
      assert (l1 = []) by (apply Hl0; lia). subst l1. cbn [app] in Hrest.
      exists (tt_rs tk'). split.
      * rewrite <- E1, <- E2, <- E3. eapply toks_step; [exact Hne|exact Ht'|].
        rewrite E1, Elen, zskipn_all. apply toks_stop. left; reflexivity.
      * rewrite Elen, zskipn_app_le, zskipn_all in Hrest, Hok' by lia. cbn [app] in Hrest, Hok'.
        replace (rs_reset_state (tt_rs tk')) with (rs_reset_state (tt_rs tk)) by (unfold rs_reset_state; rewrite E4, E5; reflexivity).
        apply toks_reset; assumption.
Qed.
