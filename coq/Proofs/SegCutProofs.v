(* Why a read boundary at a grapheme-cluster boundary does not matter (C08, grapheme clause).
   After a cluster that ends at the end of the buffered bytes the reader continues with
   segmentation state -1, where an uncut read continues with the state uniseg.Step returned.
   Theorem [ustep_fresh_state]: that returned state is always the state a fresh start would
   compute for the next character, so both continue identically ([ustep_carried_is_fresh]).
   The three facts about the transition table are checked on the table generated from the
   library's source. *)
From Coq Require Import List ZArith Bool Lia.
From Termemu Require Import Base Parser BaseLemmas Gen_Uniseg Uniseg Grapheme.
Import ListNotations.
Open Scope Z_scope.

(* the grapheme state a fresh start (state -1) computes for a character of property p *)
Definition fresh (p : Z) : Z := fst (fst (trans_prop (-1) p)).

Lemma gr_lookup_In t : forall s p res, gr_lookup t s p = Some res -> In (s, p, res) t.
Proof.
  induction t as [|[[s0 p0] res0] t IH]; intros s p res H; [discriminate|].
  cbn [gr_lookup] in H. destruct (Z.eqb_spec s0 s) as [->|]; cbn [andb] in H.
  - destruct (Z.eqb_spec p0 p) as [->|]; [inversion H; subst; left; reflexivity|right; apply IH, H].
  - right; apply IH, H.
Qed.

Lemma gr_lookup_no_state t s : forallb (fun e => negb (fst (fst e) =? s)) t = true -> forall p, gr_lookup t s p = None.
Proof.
  induction t as [|[[s0 p0] res0] t IH]; intros H p; [reflexivity|].
  cbn [forallb fst] in H. apply andb_true_iff in H. destruct H as (H1 & H2).
  cbn [gr_lookup]. destruct (s0 =? s); [discriminate|]. cbn [andb]. apply IH, H2.
Qed.

(* T1: an entry that announces a boundary leads to the state of a fresh start on the same property *)
Definition t1_check (e : Z * Z * (Z * Z * Z)) : bool :=
  let '(_, p, (ns, b, _)) := e in negb (b =? u_grBoundary) || (ns =? fresh p).
Lemma T1 : forallb t1_check u_grTransitions = true.
Proof. vm_compute. reflexivity. Qed.
(* T2: no entry is for state -1 *)
Lemma T2 : forallb (fun e => negb (fst (fst e) =? -1)) u_grTransitions = true.
Proof. vm_compute. reflexivity. Qed.
(* T3: an any-property entry that announces a boundary leads to the initial state *)
Definition t3_check (e : Z * Z * (Z * Z * Z)) : bool :=
  let '(_, p, (ns, b, _)) := e in negb (p =? u_prAny) || negb (b =? u_grBoundary) || (ns =? u_grAny).
Lemma T3 : forallb t3_check u_grTransitions = true.
Proof. vm_compute. reflexivity. Qed.

Lemma trans_prop_prop s p : snd (fst (trans_prop s p)) = p.
Proof.
  unfold trans_prop. destruct (gr_trans s p) as [[[ns b] r]|]; [reflexivity|].
  destruct (gr_trans s u_prAny) as [[[a1 a2] a3]|]; destruct (gr_trans u_grAny p) as [[[b1 b2] b3]|]; reflexivity.
Qed.

Lemma fresh_spec p : fresh p = match gr_trans u_grAny p with Some (ass, _, _) => ass | None => u_grAny end.
Proof.
  unfold fresh, trans_prop, gr_trans.
  rewrite !(gr_lookup_no_state _ _ T2).
  fold (gr_trans u_grAny p). destruct (gr_trans u_grAny p) as [[[a b] c]|]; reflexivity.
Qed.

(* wherever the state machine announces a cluster boundary, its new state is the fresh state of the next character *)
Theorem trans_prop_fresh gs p ns p' : trans_prop gs p = (ns, p', true) -> ns = fresh p.
Proof.
  unfold trans_prop. destruct (gr_trans gs p) as [[[ns0 b0] r0]|] eqn:E.
  - intros H; inversion H; subst. apply gr_lookup_In in E.
    pose proof T1 as A. rewrite forallb_forall in A. specialize (A _ E). unfold t1_check in A.
    match goal with Hb : (b0 =? u_grBoundary) = true |- _ => rewrite Hb in A end. cbn [negb orb] in A. lia.
  - rewrite fresh_spec.
    destruct (gr_trans gs u_prAny) as [[[aps apb] apr]|] eqn:E1; destruct (gr_trans u_grAny p) as [[[ass asb] asr]|] eqn:E2.
    + intros H; inversion H; reflexivity.
    + intros H; inversion H; subst. apply gr_lookup_In in E1.
      pose proof T3 as A. rewrite forallb_forall in A. specialize (A _ E1). unfold t3_check in A.
      rewrite Z.eqb_refl in A.
      match goal with Hb : (apb =? u_grBoundary) = true |- _ => rewrite Hb in A end. cbn [negb orb] in A. lia.
    + intros H; inversion H; reflexivity.
    + intros H; inversion H; reflexivity.
Qed.

(* ---- the state uniseg.Step returns before a further character is the fresh state of that character ---- *)
Lemma ustep_loop_state : forall fuel buf gs fp w len c w' g p,
  ustep_loop fuel buf gs fp w len = (c, w', Some (g, p)) -> c < zlen buf ->
  p = prop_graphemes (fst (go_decode_rune (zskipn c buf))) /\ g = fresh p.
Proof.
  induction fuel as [|f IH]; intros buf gs fp w len c w' g p H Hc; cbn [ustep_loop] in H; [discriminate|].
  destruct (go_decode_rune (zskipn len buf)) as [r l] eqn:Ed.
  unfold trans_grapheme in H.
  pose proof (trans_prop_prop gs (prop_graphemes r)) as Hp.
  destruct (trans_prop gs (prop_graphemes r)) as [[gs' prop] boundary] eqn:Et. cbn [fst snd] in Hp. subst prop.
  destruct boundary.
  - inversion H; subst. rewrite Ed. cbn [fst]. split; [reflexivity|]. eapply trans_prop_fresh, Et.
  - destruct (zlen buf <=? len + l) eqn:El.
    + inversion H; subst. lia.
    + eapply IH; eassumption.
Qed.

Theorem ustep_fresh_state buf st c w g p : ustep buf st = (c, w, Some (g, p)) -> c < zlen buf ->
  p = prop_graphemes (fst (go_decode_rune (zskipn c buf))) /\ g = fresh p.
Proof.
  unfold ustep. destruct (go_decode_rune buf) as [r len].
  destruct (zlen buf <=? len).
  - intros H Hc; inversion H; subst. lia.
  - destruct st as [[g0 p0]|].
    + apply ustep_loop_state.
    + destruct (trans_grapheme (-1) r) as [[g0 p0] b0]. apply ustep_loop_state.
Qed.

(* continuing from that state is continuing from a fresh start *)
Theorem ustep_carried_is_fresh buf g p : p = prop_graphemes (fst (go_decode_rune buf)) -> g = fresh p ->
  ustep buf (Some (g, p)) = ustep buf None.
Proof.
  intros Hp Hg. unfold ustep. destruct (go_decode_rune buf) as [r len] eqn:Ed. cbn [fst] in Hp.
  destruct (zlen buf <=? len); [subst; reflexivity|].
  unfold trans_grapheme. pose proof (trans_prop_prop (-1) (prop_graphemes r)) as Hq.
  destruct (trans_prop (-1) (prop_graphemes r)) as [[g0 p0] b0] eqn:Et. cbn [fst snd] in Hq.
  assert (g0 = fresh (prop_graphemes r)) by (unfold fresh; rewrite Et; reflexivity).
  subst. reflexivity.
Qed.

(* the two together: the cluster after a boundary is the same whether the state is carried or reset *)
Corollary ustep_after_boundary buf st c w g p : ustep buf st = (c, w, Some (g, p)) -> c < zlen buf ->
  ustep (zskipn c buf) (Some (g, p)) = ustep (zskipn c buf) None.
Proof.
  intros H Hc. destruct (ustep_fresh_state _ _ _ _ _ _ H Hc) as (Hp & Hg).
  apply ustep_carried_is_fresh; assumption.
Qed.

(* for the reader: the next cluster, and hence the next token, does not depend on whether the segmentation state
   was carried over a cluster boundary or reset there *)
Corollary step_grapheme_after_boundary buf st c w g p : ustep buf st = (c, w, Some (g, p)) -> c < zlen buf ->
  step_grapheme_cluster (zskipn c buf) (Some (g, p)) = step_grapheme_cluster (zskipn c buf) None.
Proof.
  intros H Hc. unfold step_grapheme_cluster. rewrite (ustep_after_boundary _ _ _ _ _ _ H Hc). reflexivity.
Qed.

Corollary next_token_after_boundary buf st c w g p fm ri : ustep buf st = (c, w, Some (g, p)) -> c < zlen buf ->
  next_grapheme_token (zskipn c buf) (mkRs (Some (g, p)) fm ri) = next_grapheme_token (zskipn c buf) (mkRs None fm ri).
Proof.
  intros H Hc. unfold next_grapheme_token. cbn [rs_state rs_fm rs_ri].
  rewrite (step_grapheme_after_boundary _ _ _ _ _ _ H Hc). reflexivity.
Qed.
