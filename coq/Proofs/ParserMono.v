(* Monotonicity of the tokenizer: a scan that has completed is not affected by
   bytes appended to the input (it returns the same token and the old rest
   followed by the new bytes), and conversely a scan that still blocks on the
   longer input blocks on the shorter one.  This is what makes the result of
   the terminal independent of how the byte stream is cut into reads (C08). *)
From Coq Require Import List ZArith Bool Lia.
From Termemu Require Import Base Parser BaseLemmas ParserProofs.
Import ListNotations.
Open Scope Z_scope.

(* ---- CSI ---- *)
Lemma scan_params_mono inp more : forall acc p ps sp r,
  scan_params inp acc p ps sp = Some r ->
  scan_params (inp ++ more) acc p ps sp = Some (fst r, snd r ++ more).
Proof.
  induction inp as [|c inp IH]; intros acc p ps sp r H; cbn [scan_params app] in *; [discriminate|].
  destruct (c =? 59); [apply IH, H|].
  destruct (is_digit c); [apply IH, H|].
  inversion H; subst. reflexivity.
Qed.

Lemma skip_to_final_mono inp more : forall r,
  skip_to_final inp = Some r -> skip_to_final (inp ++ more) = Some (r ++ more).
Proof.
  induction inp as [|c inp IH]; intros r H; cbn [skip_to_final app] in *; [discriminate|].
  destruct (is_final c); [inversion H; subst; reflexivity|apply IH, H].
Qed.

Lemma parse_csi_mono inp more k rest :
  parse_csi inp = PTok k rest -> parse_csi (inp ++ more) = PTok k (rest ++ more).
Proof.
  unfold parse_csi. destruct inp as [|b r]; [discriminate|]. cbn [app].
  destruct (is_private b).
  - destruct (scan_params r [] 0 false false) as [[[ps fb] r']|] eqn:E; [|discriminate].
    rewrite (scan_params_mono _ more _ _ _ _ _ E). cbn [fst snd].
    destruct (_ || _).
    + destruct (skip_to_final r') as [r''|] eqn:E2; [|discriminate].
      rewrite (skip_to_final_mono _ more _ E2). intros H; inversion H; subst. reflexivity.
    + intros H; inversion H; subst. reflexivity.
  - change (b :: r ++ more) with ((b :: r) ++ more).
    destruct (scan_params (b :: r) [] 0 false false) as [[[ps fb] r']|] eqn:E; [|discriminate].
    rewrite (scan_params_mono _ more _ _ _ _ _ E). cbn [fst snd].
    destruct (_ || _).
    + destruct (skip_to_final r') as [r''|] eqn:E2; [|discriminate].
      rewrite (skip_to_final_mono _ more _ E2). intros H; inversion H; subst. reflexivity.
    + intros H; inversion H; subst. reflexivity.
Qed.

(* ---- OSC ---- *)
Lemma scan_digits_mono inp more : forall acc r,
  scan_digits inp acc = Some r -> scan_digits (inp ++ more) acc = Some (fst r, snd r ++ more).
Proof.
  induction inp as [|c inp IH]; intros acc r H; cbn [scan_digits app] in *; [discriminate|].
  destruct (is_digit c); [apply IH, H|]. inversion H; subst. reflexivity.
Qed.

Lemma scan_osc_payload_mono inp more : forall acc r,
  scan_osc_payload inp acc = Some r -> scan_osc_payload (inp ++ more) acc = Some (fst r, snd r ++ more).
Proof.
  induction inp as [|c inp IH]; intros acc r H; cbn [scan_osc_payload app] in *; [discriminate|].
  destruct ((c =? 7) || (c =? 156)); [inversion H; subst; reflexivity|].
  destruct acc as [|a acc']; [apply IH, H|].
  destruct ((a =? 27) && (c =? 92)); [inversion H; subst; reflexivity|apply IH, H].
Qed.

Lemma scan_str_mono inp more : forall prev r,
  scan_str inp prev = Some r -> scan_str (inp ++ more) prev = Some (r ++ more).
Proof.
  induction inp as [|c inp IH]; intros prev r H; cbn [scan_str app] in *; [discriminate|].
  destruct ((c =? 7) || (c =? 156)); [inversion H; subst; reflexivity|].
  destruct ((prev =? 27) && (c =? 92)); [inversion H; subst; reflexivity|apply IH, H].
Qed.

Lemma parse_osc_mono inp more k rest :
  parse_osc inp = PTok k rest -> parse_osc (inp ++ more) = PTok k (rest ++ more).
Proof.
  unfold parse_osc.
  destruct (scan_digits inp 0) as [[[v b] r]|] eqn:E; [|discriminate].
  rewrite (scan_digits_mono _ more _ _ E). cbn [fst snd].
  destruct (b =? 59).
  - destruct (scan_osc_payload r []) as [[p r']|] eqn:E2; [|discriminate].
    rewrite (scan_osc_payload_mono _ more _ _ E2). cbn [fst snd].
    intros H; inversion H; subst. reflexivity.
  - destruct (_ || _); [intros H; inversion H; subst; reflexivity|].
    destruct (scan_str r b) as [r'|] eqn:E3; [|discriminate].
    rewrite (scan_str_mono _ more _ _ E3). intros H; inversion H; subst. reflexivity.
Qed.

(* ---- DCS, ESC ---- *)
Lemma scan_dcs_mono inp more : forall prev r,
  scan_dcs inp prev = Some r -> scan_dcs (inp ++ more) prev = Some (r ++ more).
Proof.
  induction inp as [|c inp IH]; intros prev r H; cbn [scan_dcs app] in *; [discriminate|].
  destruct (c =? 156); [inversion H; subst; reflexivity|].
  destruct ((prev =? 27) && (c =? 92)); [inversion H; subst; reflexivity|apply IH, H].
Qed.

Lemma skip_intermediates_mono inp more : forall r,
  skip_intermediates inp = Some r -> skip_intermediates (inp ++ more) = Some (r ++ more).
Proof.
  induction inp as [|c inp IH]; intros r H; cbn [skip_intermediates app] in *; [discriminate|].
  destruct ((32 <=? c) && (c <=? 47)); [apply IH, H|inversion H; subst; reflexivity].
Qed.

Lemma parse_esc_mono inp more k rest :
  parse_esc inp = PTok k rest -> parse_esc (inp ++ more) = PTok k (rest ++ more).
Proof.
  unfold parse_esc. destruct inp as [|b r]; [discriminate|]. cbn [app].
  destruct (b =? 91); [apply parse_csi_mono|].
  destruct (b =? 93); [apply parse_osc_mono|].
  destruct (b =? 80).
  { destruct (scan_dcs r 0) as [r'|] eqn:E; [|discriminate].
    rewrite (scan_dcs_mono _ more _ _ E). intros H; inversion H; subst. reflexivity. }
  destruct (_ || _).
  { destruct r as [|c r']; [discriminate|]. cbn [app]. intros H; inversion H; subst. reflexivity. }
  destruct (_ && _).
  { destruct (skip_intermediates r) as [r'|] eqn:E; [|discriminate].
    rewrite (skip_intermediates_mono _ more _ E). intros H; inversion H; subst. reflexivity. }
  intros H; inversion H; subst. reflexivity.
Qed.

(* ---- UTF-8 ---- *)
Lemma decode_rune_mono inp more x : decode_rune inp = Some x -> decode_rune (inp ++ more) = Some x.
Proof.
  unfold decode_rune. destruct inp as [|b0 r0]; [discriminate|]. cbn [app].
  destruct (utf8_first b0) as [[sz lo] hi].
  destruct (sz =? 1); [auto|]. destruct (sz =? 0); [auto|].
  destruct r0 as [|b1 r1]; [discriminate|]. cbn [app].
  destruct (_ || _); [auto|]. destruct (sz =? 2); [auto|].
  destruct r1 as [|b2 r2]; [discriminate|]. cbn [app].
  destruct (_ || _); [auto|]. destruct (sz =? 3); [auto|].
  destruct r2 as [|b3 r3]; [discriminate|]. cbn [app]. auto.
Qed.

Lemma zfirstn_app_le {A} n (l m : list A) : n <= zlen l -> zfirstn n (l ++ m) = zfirstn n l.
Proof.
  intros H. unfold zfirstn, zlen in *. rewrite firstn_app.
  replace (Z.to_nat n - length l)%nat with O by lia. cbn [firstn]. apply app_nil_r.
Qed.
Lemma zskipn_app_le {A} n (l m : list A) : n <= zlen l -> zskipn n (l ++ m) = zskipn n l ++ m.
Proof.
  intros H. unfold zskipn, zlen in *. rewrite skipn_app.
  replace (Z.to_nat n - length l)%nat with O by lia. reflexivity.
Qed.

Section WithOracle.
  Variable wc : Z -> Z.
  Variable grid : bool.

  (* a completed token is the same token whatever bytes follow *)
  Theorem parse_one_mono inp k rest :
    parse_one wc grid inp = PTok k rest -> forall more, parse_one wc grid (inp ++ more) = PTok k (rest ++ more).
  Proof.
    intros H more. unfold parse_one in *. destruct inp as [|b r]; [discriminate|]. cbn [app].
    destruct (is_printable b).
    - change (b :: r ++ more) with ((b :: r) ++ more).
      destruct (decode_rune (b :: r)) as [[[ru size] v]|] eqn:E; [|discriminate].
      rewrite (decode_rune_mono _ more _ E).
      apply decode_rune_size in E. destruct E as (E1 & E2).
      rewrite zfirstn_app_le, zskipn_app_le by lia.
      inversion H; subst. reflexivity.
    - destruct (b =? 27); [apply parse_esc_mono, H|]. inversion H; subst. reflexivity.
  Qed.

  (* if the parser still waits on the longer input, it waits on the shorter one *)
  Theorem parse_one_more_inv inp more :
    parse_one wc grid (inp ++ more) = PMore -> parse_one wc grid inp = PMore.
  Proof.
    intros H. destruct (parse_one wc grid inp) as [|k rest] eqn:E; [reflexivity|].
    rewrite (parse_one_mono _ _ _ E more) in H. discriminate.
  Qed.

  (* a prefix of a blocked input is blocked: no escape sequence or UTF-8
     character is acted on before its last byte has arrived *)
  Corollary parse_one_prefix_blocked inp n :
    parse_one wc grid inp = PMore -> parse_one wc grid (firstn n inp) = PMore.
  Proof. intros H. apply (parse_one_more_inv _ (skipn n inp)). rewrite firstn_skipn. exact H. Qed.
End WithOracle.

(* "ESC [ 1 ; 3" is blocked, and completing it with "1 H x" yields CUP 1;31 and leaves "x" *)
Example mono_example :
  parse_one (fun _ => 1) false [27; 91; 49; 59; 51] = PMore /\
  parse_one (fun _ => 1) false ([27; 91; 49; 59; 51] ++ [49; 72; 120]) = PTok (TCsi 0 [1; 31] 72) [120] /\
  parse_one (fun _ => 1) false ([27; 91; 49; 59; 51; 49; 72] ++ [120; 121]) = PTok (TCsi 0 [1; 31] 72) ([] ++ [120; 121]).
Proof. vm_compute. repeat split. Qed.
(* a 3-byte UTF-8 character cut after two bytes *)
Example mono_example_utf8 :
  parse_one (fun _ => 2) false [228; 184] = PMore /\
  parse_one (fun _ => 2) false ([228; 184; 173] ++ [65]) = PTok (TGlyph [228; 184; 173] 20013 2) [65].
Proof. vm_compute. split; reflexivity. Qed.
