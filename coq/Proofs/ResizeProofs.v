(* C18: what set_size / resize do to every cell, to the cursor, the saved
   cursor and the scroll region. *)
From Coq Require Import List ZArith Bool Lia.
From Termemu Require Import Base Style Screen Kbd Parser Term BaseLemmas ScreenInv TermInv ParserProofs HistProofs ScreenSpec RowLemmas EraseProofs.
Import ListNotations.
Open Scope Z_scope.

Lemma set_size_rows w h s : 1 <= w -> 1 <= h ->
  rows (set_size w h s) =
    map (fit_row (sty s) w) (zfirstn h (rows s))
    ++ zrepeat (blank_row w (sty s)) (h - zlen (zfirstn h (rows s))).
Proof.
  intros Hw Hh. unfold set_size.
  destruct (Z.leb_spec w 0); [lia|]. destruct (Z.leb_spec h 0); [lia|]. cbn [orb].
  destruct (_ <? top s); reflexivity.
Qed.

Lemma set_size_row w h s y : Inv s -> 1 <= w -> 1 <= h -> 0 <= y < h ->
  row_at (set_size w h s) y =
    if y <? sH s then fit_row (sty s) w (row_at s y) else blank_row w (sty s).
Proof.
  intros Hs Hw Hh Hy. unfold row_at. rewrite set_size_rows by assumption.
  pose proof (inv_rows s Hs) as HR. pose proof (inv_h s Hs) as HH.
  assert (Lk : zlen (zfirstn h (rows s)) = Z.min h (sH s)) by (rewrite zlen_zfirstn; lia).
  rewrite Lk.
  destruct (Z.ltb_spec y (sH s)) as [Hlt|Hge].
  - rewrite znth_app_l by (rewrite zlen_map; lia).
    rewrite znth_map with (d := []) by lia.
    rewrite znth_zfirstn by lia. reflexivity.
  - rewrite znth_app_r by (rewrite zlen_map; lia). rewrite zlen_map, Lk.
    apply znth_zrepeat. lia.
Qed.

Lemma set_size_cell w h s : Inv s -> 1 <= w -> 1 <= h -> resize_cells w h s (set_size w h s).
Proof.
  intros Hs Hw Hh x y Hx Hy. unfold cell_at. rewrite set_size_row by assumption.
  destruct (Z.ltb_spec y (sH s)) as [Hlt|Hge]; cbn [andb].
  - rewrite fit_row_znth by lia. rewrite (row_at_len s y Hs) by lia. reflexivity.
  - unfold blank_row. apply znth_zrepeat. lia.
Qed.

(* no glyph crosses the new right edge in row y: every cell of the overlap is kept *)
Lemma set_size_cell_keep w h s x y : Inv s -> 1 <= w -> 1 <= h ->
  0 <= x < w -> x < sW s -> 0 <= y < h -> y < sH s ->
  is_cont (cell_at s w y) = false ->
  cell_at (set_size w h s) x y = cell_at s x y.
Proof.
  intros Hs Hw Hh Hx Hx' Hy Hy' Hc. rewrite set_size_cell by assumption.
  zbool. unfold straddles. unfold cell_at in Hc. rewrite Hc. reflexivity.
Qed.

Lemma set_size_geometry w h s : 1 <= w -> 1 <= h -> resize_geometry w h s (set_size w h s).
Proof.
  intros Hw Hh. unfold set_size, resize_geometry, resize_margins, cursor_of.
  destruct (Z.leb_spec w 0); [lia|]. destruct (Z.leb_spec h 0); [lia|]. cbn [orb]. cbv zeta.
  destruct (_ <? top s); repeat split; reflexivity.
Qed.

Lemma set_size_evs w h s : 1 <= w -> 1 <= h -> evs (set_size w h s) = EStyle (sty s) :: evs s.
Proof.
  intros Hw Hh. unfold set_size.
  destruct (Z.leb_spec w 0); [lia|]. destruct (Z.leb_spec h 0); [lia|]. cbn [orb].
  destruct (_ <? top s); reflexivity.
Qed.

(* Terminal.Resize: both buffers are resized; nothing else changes; each buffer
   announces its (unchanged) style, then the cursor and the style of the screen
   that is shown are announced *)
Theorem resize_spec w h t : TInv t -> 1 <= w -> 1 <= h ->
  let t' := resize w h t in
  resize_cells w h (tmain t) (tmain t') /\ resize_geometry w h (tmain t) (tmain t')
  /\ resize_cells w h (talt t) (talt t') /\ resize_geometry w h (talt t) (talt t')
  /\ onalt t' = onalt t /\ vflags t' = vflags t /\ vints t' = vints t /\ vstrs t' = vstrs t
  /\ kbm t' = kbm t /\ kba t' = kba t /\ tout t' = tout t
  /\ tlog t' = EStyle (sty (active t')) :: ECursor (cx (active t')) (cy (active t'))
               :: EStyle (sty (talt t)) :: EStyle (sty (tmain t)) :: tlog t.
Proof.
  intros [Hm Ha _ _] Hw Hh. cbv zeta. unfold resize, log_ev, active. cbn [tmain talt onalt vflags vints vstrs kbm kba tout tlog].
  pose proof (proj1 (Inv_set_evs [] _) Hm) as Im. pose proof (proj1 (Inv_set_evs [] _) Ha) as Ia.
  split; [exact (set_size_cell w h _ Im Hw Hh)|].
  split; [exact (set_size_geometry w h (set_evs [] (tmain t)) Hw Hh)|].
  split; [exact (set_size_cell w h _ Ia Hw Hh)|].
  split; [exact (set_size_geometry w h (set_evs [] (talt t)) Hw Hh)|].
  repeat (split; [reflexivity|]).
  rewrite !set_size_evs by assumption. reflexivity.
Qed.

(* "at any moment": the terminal reached by any history of reads (arbitrary
   bytes, arbitrary chunking, possibly stopping in the middle of an escape
   sequence) and earlier resizes *)
Theorem resize_any_moment (wc : Z -> Z) (grid : bool) w0 h0 ops w h :
  1 <= w0 -> 1 <= h0 -> hist_ok ops -> 1 <= w -> 1 <= h ->
  let t := fst (run_hist wc grid (init_term w0 h0) ops) in
  let t' := resize w h t in
  resize_cells w h (tmain t) (tmain t') /\ resize_geometry w h (tmain t) (tmain t')
  /\ resize_cells w h (talt t) (talt t') /\ resize_geometry w h (talt t) (talt t')
  /\ onalt t' = onalt t /\ vflags t' = vflags t /\ vints t' = vints t /\ vstrs t' = vstrs t
  /\ kbm t' = kbm t /\ kba t' = kba t /\ tout t' = tout t
  /\ tlog t' = EStyle (sty (active t')) :: ECursor (cx (active t')) (cy (active t'))
               :: EStyle (sty (talt t)) :: EStyle (sty (tmain t)) :: tlog t.
Proof.
  intros Hw0 Hh0 Hops Hw Hh. cbv zeta. apply resize_spec; [|exact Hw|exact Hh].
  apply TInv_run_hist; assumption.
Qed.

(* ---------- examples: the 5x7 screen resized ---------- *)

(* narrower and shorter: 3x2 cuts the wide glyph of row 0 (its head at column 2
   becomes a blank in the glyph's style) and keeps the wide glyph of row 1 whole *)
Example resize_example_small :
  rows (resized 3 2) = [ [ch 97 stA; ch 98 stA; blank stB]; wide 22269 stA ++ [ch 100 stB] ]
  /\ cursor_of (resized 3 2) = (2, 1) /\ (svx (resized 3 2), svy (resized 3 2)) = (1, 1)
  /\ (top (resized 3 2), bot (resized 3 2)) = (0, 1) /\ (sW (resized 3 2), sH (resized 3 2)) = (3, 2).
Proof. vm_compute. repeat split. Qed.

(* 4 columns: row 1 = [国 ] d [日 ] loses the second half of its last glyph *)
Example resize_example_cut : row_at (resized 4 7) 1 = wide 22269 stA ++ [ch 100 stB; blank stC]
  /\ row_at (resized 4 7) 5 = wide 19968 stC ++ wide 20108 stA.
Proof. vm_compute. auto. Qed.

(* wider and taller (7x9): old cells kept, new cells blank in the current style stB;
   the bottom margin keeps its distance (1 row) from the bottom edge *)
Example resize_example_grow :
  row_at (resized 7 9) 1 = wide 22269 stA ++ [ch 100 stB] ++ wide 26085 stC ++ [blank stB; blank stB]
  /\ row_at (resized 7 9) 8 = blank_row 7 stB
  /\ cursor_of (resized 7 9) = (4, 1) /\ (top (resized 7 9), bot (resized 7 9)) = (1, 7)
  /\ tlog (resize 7 9 ex_term) = [EStyle stB; ECursor 4 1; EStyle default_style; EStyle stB].
Proof. vm_compute. repeat split. Qed.

(* the margin rule when the region no longer fits: 5x7 with region 1..5, resized to height 2 *)
Example resize_margins_example : resize_margins 2 ex_scr = (0, 1) /\ resize_margins 4 ex_scr = (1, 2)
  /\ resize_margins 3 ex_scr = (1, 1) /\ resize_margins 20 ex_scr = (1, 18).
Proof. vm_compute. auto. Qed.
