(* Lemmas about the Z-indexed list helpers of Model/Base.v.  Length lemmas are
   unconditional equations with Z.min/Z.max so that [lia] can finish. *)
From Coq Require Import List ZArith Bool Lia.
From Termemu Require Import Base.
Import ListNotations.
Open Scope Z_scope.

Lemma zlen_nonneg {A} (l : list A) : 0 <= zlen l.
Proof. unfold zlen; lia. Qed.
Lemma zlen_nil {A} : zlen (@nil A) = 0.
Proof. reflexivity. Qed.
Lemma zlen_cons {A} (a : A) l : zlen (a :: l) = 1 + zlen l.
Proof. unfold zlen; cbn [length]; lia. Qed.
Lemma zlen_app {A} (a b : list A) : zlen (a ++ b) = zlen a + zlen b.
Proof. unfold zlen; rewrite app_length; lia. Qed.
Lemma zlen_zfirstn {A} n (l : list A) : zlen (zfirstn n l) = Z.max 0 (Z.min n (zlen l)).
Proof. unfold zlen, zfirstn; rewrite firstn_length; lia. Qed.
Lemma zlen_zskipn {A} n (l : list A) : zlen (zskipn n l) = Z.max 0 (zlen l - Z.max 0 n).
Proof. unfold zlen, zskipn; rewrite skipn_length; lia. Qed.
Lemma zlen_zrepeat {A} (a : A) n : zlen (zrepeat a n) = Z.max 0 n.
Proof. unfold zlen, zrepeat; rewrite repeat_length; lia. Qed.
Lemma zlen_map {A B} (f : A -> B) l : zlen (map f l) = zlen l.
Proof. unfold zlen; rewrite map_length; reflexivity. Qed.
Lemma zlen_rev {A} (l : list A) : zlen (rev l) = zlen l.
Proof. unfold zlen; rewrite rev_length; reflexivity. Qed.

#[export] Hint Rewrite @zlen_nil @zlen_cons @zlen_app @zlen_zfirstn @zlen_zskipn @zlen_zrepeat @zlen_map @zlen_rev : zlen.

Ltac zl := autorewrite with zlen in *; try lia.

(* conditional forms: cheaper for lia than the min/max forms *)
Lemma zlen_zfirstn_le {A} n (l : list A) : 0 <= n <= zlen l -> zlen (zfirstn n l) = n.
Proof. intros H. rewrite zlen_zfirstn. lia. Qed.
Lemma zlen_zskipn_le {A} n (l : list A) : 0 <= n <= zlen l -> zlen (zskipn n l) = zlen l - n.
Proof. intros H. rewrite zlen_zskipn. lia. Qed.
Lemma zlen_zrepeat_nn {A} (a : A) n : 0 <= n -> zlen (zrepeat a n) = n.
Proof. intros H. rewrite zlen_zrepeat. lia. Qed.

(* innermost-first length computation with side conditions discharged by lia *)
Ltac zlen_step :=
  first [ rewrite zlen_app | rewrite zlen_map | rewrite zlen_cons | rewrite zlen_nil
        | rewrite zlen_zrepeat_nn by lia
        | rewrite zlen_zskipn_le by lia
        | rewrite zlen_zfirstn_le by lia
        | rewrite zlen_zfirstn_le by (rewrite ?zlen_zskipn_le by lia; lia) ].
Ltac zlens := repeat zlen_step; try lia.

Lemma zlen_zupd {A} i (a : A) l : zlen (zupd i a l) = zlen l.
Proof.
  unfold zupd. destruct (i <? 0) eqn:E1; [reflexivity|]. destruct (zlen l <=? i) eqn:E2; [reflexivity|].
  cbn [orb]. pose proof (zlen_nonneg l). zl.
Qed.
#[export] Hint Rewrite @zlen_zupd : zlen.

(* ---- znth ---- *)
Lemma znth_neg {A} n (l : list A) d : n < 0 -> znth n l d = d.
Proof. intros H. unfold znth. destruct (Z.ltb_spec n 0); [reflexivity|lia]. Qed.
Lemma znth_overflow {A} n (l : list A) d : zlen l <= n -> znth n l d = d.
Proof.
  intros H. unfold znth. destruct (Z.ltb_spec n 0); [reflexivity|].
  apply nth_overflow. unfold zlen in H. lia.
Qed.
Lemma znth_app_l {A} n (a b : list A) d : n < zlen a -> znth n (a ++ b) d = znth n a d.
Proof.
  intros H. unfold znth. destruct (Z.ltb_spec n 0); [reflexivity|].
  apply app_nth1. unfold zlen in H. lia.
Qed.
Lemma znth_app_r {A} n (a b : list A) d : zlen a <= n -> znth n (a ++ b) d = znth (n - zlen a) b d.
Proof.
  intros H. unfold znth. pose proof (zlen_nonneg a).
  destruct (Z.ltb_spec n 0); [lia|]. destruct (Z.ltb_spec (n - zlen a) 0); [lia|].
  rewrite app_nth2 by (unfold zlen in H; lia). f_equal. unfold zlen. lia.
Qed.
Lemma znth_zfirstn {A} n k (l : list A) d : n < k -> znth n (zfirstn k l) d = znth n l d.
Proof.
  intros H. unfold znth, zfirstn. destruct (Z.ltb_spec n 0); [reflexivity|].
  rewrite <- (firstn_skipn (Z.to_nat k) l) at 2.
  destruct (Nat.lt_ge_cases (Z.to_nat n) (length (firstn (Z.to_nat k) l))) as [Hl|Hl].
  - rewrite app_nth1 by exact Hl. reflexivity.
  - rewrite nth_overflow by exact Hl. rewrite firstn_length in Hl.
    assert (length l <= Z.to_nat n)%nat by lia.
    rewrite nth_overflow; [reflexivity|]. rewrite app_length, firstn_length, skipn_length. lia.
Qed.
Lemma nth_skipn_ {A} (l : list A) k n d : nth n (skipn k l) d = nth (n + k) l d.
Proof.
  revert l. induction k as [|k IH]; intros l; [rewrite Nat.add_0_r; reflexivity|].
  destruct l as [|x l]; [destruct n; reflexivity|].
  cbn [skipn]. rewrite IH. replace (n + S k)%nat with (S (n + k)) by lia. reflexivity.
Qed.
Lemma znth_zskipn {A} n k (l : list A) d : 0 <= n -> 0 <= k -> znth n (zskipn k l) d = znth (n + k) l d.
Proof.
  intros Hn Hk. unfold znth, zskipn. destruct (Z.ltb_spec n 0); [lia|]. destruct (Z.ltb_spec (n + k) 0); [lia|].
  rewrite nth_skipn_. f_equal. lia.
Qed.
Lemma nth_repeat_lt_ {A} (a : A) k n d : (n < k)%nat -> nth n (repeat a k) d = a.
Proof.
  revert n. induction k as [|k IH]; intros n H; [lia|].
  destruct n as [|n]; [reflexivity|]. cbn. apply IH. lia.
Qed.
Lemma znth_zrepeat {A} n k (a : A) d : 0 <= n < k -> znth n (zrepeat a k) d = a.
Proof.
  intros H. unfold znth, zrepeat. destruct (Z.ltb_spec n 0); [lia|].
  apply nth_repeat_lt_. lia.
Qed.
Lemma znth_cons_0 {A} (a : A) l d : znth 0 (a :: l) d = a.
Proof. reflexivity. Qed.
Lemma znth_cons_S {A} n (a : A) l d : 0 < n -> znth n (a :: l) d = znth (n - 1) l d.
Proof.
  intros H. unfold znth. destruct (Z.ltb_spec n 0); [lia|]. destruct (Z.ltb_spec (n - 1) 0); [lia|].
  replace (Z.to_nat n) with (S (Z.to_nat (n - 1))) by lia. reflexivity.
Qed.
Lemma znth_map {A B} (f : A -> B) n l d d' : 0 <= n < zlen l -> znth n (map f l) d' = f (znth n l d).
Proof.
  intros H. unfold znth. destruct (Z.ltb_spec n 0); [lia|].
  rewrite nth_indep with (d' := f d) by (rewrite map_length; unfold zlen in H; lia).
  apply map_nth.
Qed.

Lemma znth_zupd_same {A} i (a : A) l d : 0 <= i < zlen l -> znth i (zupd i a l) d = a.
Proof.
  intros H. unfold zupd. destruct (Z.ltb_spec i 0); [lia|]. destruct (Z.leb_spec (zlen l) i); [lia|]. cbn [orb].
  rewrite znth_app_r by zl. autorewrite with zlen. replace (i - Z.max 0 (Z.min i (zlen l))) with 0 by lia. reflexivity.
Qed.
Lemma znth_zupd_other {A} i j (a : A) l d : i <> j -> znth j (zupd i a l) d = znth j l d.
Proof.
  intros H. unfold zupd. destruct (Z.ltb_spec i 0); [reflexivity|]. destruct (Z.leb_spec (zlen l) i); [reflexivity|]. cbn [orb].
  destruct (Z.lt_ge_cases j 0) as [Hj|Hj]; [rewrite !znth_neg by lia; reflexivity|].
  destruct (Z.lt_ge_cases j i) as [Hji|Hji].
  - rewrite znth_app_l by zl. apply znth_zfirstn. lia.
  - rewrite znth_app_r by zl. autorewrite with zlen.
    replace (Z.max 0 (Z.min i (zlen l))) with i by lia.
    rewrite znth_cons_S by lia. rewrite znth_zskipn by lia. f_equal. lia.
Qed.

(* ---- Forall over the helpers ---- *)
Lemma Forall_zfirstn {A} (P : A -> Prop) n l : Forall P l -> Forall P (zfirstn n l).
Proof. intros H. unfold zfirstn. rewrite <- (firstn_skipn (Z.to_nat n) l) in H. apply Forall_app in H. tauto. Qed.
Lemma Forall_zskipn {A} (P : A -> Prop) n l : Forall P l -> Forall P (zskipn n l).
Proof. intros H. unfold zskipn. rewrite <- (firstn_skipn (Z.to_nat n) l) in H. apply Forall_app in H. tauto. Qed.
Lemma Forall_zrepeat {A} (P : A -> Prop) a n : P a -> Forall P (zrepeat a n).
Proof. intros H. unfold zrepeat. induction (Z.to_nat n); cbn; auto. Qed.
Lemma Forall_zupd {A} (P : A -> Prop) i a l : Forall P l -> P a -> Forall P (zupd i a l).
Proof.
  intros Hl Ha. unfold zupd. destruct ((i <? 0) || (zlen l <=? i)); [exact Hl|].
  apply Forall_app. split; [apply Forall_zfirstn; exact Hl|]. constructor; [exact Ha|apply Forall_zskipn; exact Hl].
Qed.
Lemma Forall_znth {A} (P : A -> Prop) n l d : Forall P l -> 0 <= n < zlen l -> P (znth n l d).
Proof.
  intros Hl Hn. unfold znth. destruct (Z.ltb_spec n 0); [lia|].
  rewrite Forall_forall in Hl. apply Hl, nth_In. unfold zlen in Hn. lia.
Qed.

(* ---- clamp ---- *)
Lemma clamp_range v lo hi : lo <= hi -> lo <= clamp v lo hi <= hi.
Proof. intros H. unfold clamp. destruct (v <? lo) eqn:E1; destruct (hi <? _) eqn:E2; lia. Qed.
Lemma clamp_id v lo hi : lo <= v <= hi -> clamp v lo hi = v.
Proof. intros H. unfold clamp. destruct (v <? lo) eqn:E1; [lia|]. destruct (hi <? v) eqn:E2; lia. Qed.
Lemma clamp_spec v lo hi : lo <= hi -> clamp v lo hi = Z.max lo (Z.min v hi).
Proof. intros H. unfold clamp. destruct (v <? lo) eqn:E1; destruct (hi <? _) eqn:E2; lia. Qed.
