(* Pointwise (per cell index) characterisations of the row operations of
   Model/Screen.v: overwrite, delete_cells, fit_row; facts about left_edge,
   cont_run and the [touched] interval. *)
From Coq Require Import List ZArith Bool Lia.
From Termemu Require Import Base Style Screen BaseLemmas ScreenInv ScreenSpec.
Import ListNotations.
Open Scope Z_scope.

(* decide integer comparisons in the goal by lia, one at a time *)
Ltac zbool :=
  repeat match goal with
  | |- context [?a <=? ?b] =>
      first [rewrite (proj2 (Z.leb_le a b)) by lia | rewrite (proj2 (Z.leb_gt a b)) by lia]
  | |- context [?a <? ?b] =>
      first [rewrite (proj2 (Z.ltb_lt a b)) by lia | rewrite (proj2 (Z.ltb_ge a b)) by lia]
  | |- context [?a =? ?b] =>
      first [rewrite (proj2 (Z.eqb_eq a b)) by lia | rewrite (proj2 (Z.eqb_neq a b)) by lia]
  end; cbn [andb orb negb].

Ltac zbool_in H :=
  repeat match type of H with
  | context [?a <=? ?b] =>
      first [rewrite (proj2 (Z.leb_le a b)) in H by lia | rewrite (proj2 (Z.leb_gt a b)) in H by lia]
  | context [?a <? ?b] =>
      first [rewrite (proj2 (Z.ltb_lt a b)) in H by lia | rewrite (proj2 (Z.ltb_ge a b)) in H by lia]
  | context [?a =? ?b] =>
      first [rewrite (proj2 (Z.eqb_eq a b)) in H by lia | rewrite (proj2 (Z.eqb_neq a b)) in H by lia]
  end; cbn [andb orb negb] in H.

(* ---------- left_edge / cont_run ---------- *)
Lemma left_edge_noncont row x : is_cont (znth x row dcell) = false -> left_edge row x = x.
Proof. intros H. unfold left_edge. rewrite H. reflexivity. Qed.

Lemma left_edge_0 row : left_edge row 0 = 0.
Proof. unfold left_edge. destruct (is_cont _); reflexivity. Qed.

Lemma cont_run_0 row k : 0 <= k -> is_cont (znth k row dcell) = false -> cont_run row k = 0.
Proof.
  intros Hk H. unfold cont_run, zskipn. unfold znth in H. destruct (Z.ltb_spec k 0); [lia|].
  destruct (skipn (Z.to_nat k) row) as [|c l] eqn:E; [reflexivity|].
  assert (Hc : nth (Z.to_nat k) row dcell = c).
  { pose proof (nth_skipn_ row (Z.to_nat k) 0 dcell) as P. rewrite E in P. cbn [nth Nat.add] in P. symmetry. exact P. }
  rewrite Hc in H. cbn [cont_prefix]. rewrite H. reflexivity.
Qed.

Lemma cont_run_end row k : 0 <= k -> zlen row <= k -> cont_run row k = 0.
Proof.
  intros Hk H. apply cont_run_0; [exact Hk|]. rewrite znth_overflow by exact H. reflexivity.
Qed.

Lemma touched_exact row x n : 0 <= x -> 0 <= n -> no_wide_cut row x n -> touched row x n = (x, x + n).
Proof.
  intros Hx Hn [H1 H2]. unfold touched. rewrite left_edge_noncont by exact H1.
  rewrite cont_run_0 by (lia || exact H2). f_equal. lia.
Qed.

Lemma in_touched_exact row x n i : 0 <= x -> 0 <= n -> no_wide_cut row x n ->
  in_touched row x n i = zin x (x + n) i.
Proof. intros Hx Hn H. unfold in_touched. rewrite touched_exact by assumption. reflexivity. Qed.

(* the touched interval always contains [x, x+n) and stays inside the row *)
Lemma touched_range row x n : 0 <= x -> 0 <= n -> x + n <= zlen row ->
  0 <= fst (touched row x n) <= x /\ x + n <= snd (touched row x n) <= zlen row.
Proof.
  intros Hx Hn Hl. unfold touched. cbn [fst snd].
  pose proof (left_edge_range row x Hx). pose proof (cont_run_range row (x + n) ltac:(lia)). lia.
Qed.

(* ---------- overwrite ---------- *)
Lemma overwrite_znth st x new row i d :
  0 <= x -> 0 < zlen new -> x + zlen new <= zlen row ->
  znth i (overwrite st x new row) d =
    if zin x (x + zlen new) i then znth (i - x) new d
    else if zin (left_edge row x) x i || zin (x + zlen new) (x + zlen new + cont_run row (x + zlen new)) i
         then blank st
         else znth i row d.
Proof.
  intros Hx Hn Hl. unfold overwrite, zin.
  destruct (Z.eqb_spec (zlen new) 0) as [E|_]; [lia|].
  pose proof (left_edge_range row x Hx) as Hb.
  pose proof (cont_run_range row (x + zlen new) ltac:(lia)) as Hr.
  set (n := zlen new) in *. set (b := left_edge row x) in *. set (r := cont_run row (x + n)) in *.
  assert (Hr' : 0 <= r <= zlen row - (x + n)) by lia. clear Hr.
  assert (L1 : zlen (zfirstn b row) = b) by zlens.
  assert (L2 : zlen (zrepeat (blank st) (x - b)) = x - b) by zlens.
  assert (L4 : zlen (zrepeat (blank st) r) = r) by zlens.
  destruct (Z.lt_ge_cases i 0) as [Hi|Hi].
  { rewrite !znth_neg by lia. zbool. reflexivity. }
  destruct (Z.lt_ge_cases i b) as [H1|H1].
  { rewrite znth_app_l by lia. rewrite znth_zfirstn by lia. zbool. reflexivity. }
  rewrite znth_app_r by lia. rewrite L1.
  destruct (Z.lt_ge_cases i x) as [H2|H2].
  { rewrite znth_app_l by lia. rewrite znth_zrepeat by lia. zbool. reflexivity. }
  rewrite znth_app_r by lia. rewrite L2.
  destruct (Z.lt_ge_cases i (x + n)) as [H3|H3].
  { rewrite znth_app_l by (fold n; lia). zbool. f_equal. lia. }
  rewrite znth_app_r by (fold n; lia). fold n.
  destruct (Z.lt_ge_cases i (x + n + r)) as [H4|H4].
  { rewrite znth_app_l by lia. rewrite znth_zrepeat by lia. zbool. reflexivity. }
  rewrite znth_app_r by lia. rewrite L4. rewrite znth_zskipn by lia. zbool. f_equal. lia.
Qed.

(* in terms of the touched interval, for an overwrite with blanks *)
Lemma overwrite_blank_znth st x n row i d :
  0 <= x -> 0 < n -> x + n <= zlen row ->
  znth i (overwrite st x (zrepeat (blank st) n) row) d =
    if in_touched row x n i then blank st else znth i row d.
Proof.
  intros Hx Hn Hl.
  assert (L : zlen (zrepeat (blank st) n) = n) by zlens.
  rewrite overwrite_znth by (rewrite ?L; lia). rewrite L.
  pose proof (left_edge_range row x Hx) as Hb.
  pose proof (cont_run_range row (x + n) ltac:(lia)) as Hr.
  unfold in_touched, touched, zin. cbn [fst snd].
  set (b := left_edge row x) in *. set (r := cont_run row (x + n)) in *.
  destruct (Z.lt_ge_cases i b); [zbool; reflexivity|].
  destruct (Z.lt_ge_cases i x); [zbool; reflexivity|].
  destruct (Z.lt_ge_cases i (x + n)); [zbool; apply znth_zrepeat; lia|].
  destruct (Z.lt_ge_cases i (x + n + r)); zbool; reflexivity.
Qed.

(* ---------- delete_cells ---------- *)
Lemma delete_cells_znth st x n row i d :
  0 <= x -> 0 <= n -> x + n <= zlen row -> 0 <= i < zlen row ->
  znth i (delete_cells st x n row) d =
    if i <? left_edge row x then znth i row d
    else if i <? x then unglyph (znth i row d)
    else if i <? x + cont_run row (x + n) then unglyph (znth (i + n) row d)
    else if i <? zlen row - n then znth (i + n) row d
    else blank st.
Proof.
  intros Hx Hn Hl Hi. unfold delete_cells.
  pose proof (left_edge_range row x Hx) as Hb.
  pose proof (cont_run_range row (x + n) ltac:(lia)) as Hr.
  set (b := left_edge row x) in *. set (r := cont_run row (x + n)) in *.
  assert (Hr' : 0 <= r <= zlen row - (x + n)) by lia. clear Hr.
  assert (L1 : zlen (zfirstn b row) = b) by zlens.
  assert (L2 : zlen (zfirstn (x - b) (zskipn b row)) = x - b) by zlens.
  assert (L3 : zlen (zfirstn r (zskipn (x + n) row)) = r) by zlens.
  assert (L4 : zlen (zskipn (x + n + r) row) = zlen row - (x + n + r)) by zlens.
  destruct (Z.lt_ge_cases i b) as [H1|H1].
  { rewrite znth_app_l by lia. rewrite znth_zfirstn by lia. zbool. reflexivity. }
  rewrite znth_app_r by lia. rewrite L1.
  destruct (Z.lt_ge_cases i x) as [H2|H2].
  { rewrite znth_app_l by (rewrite zlen_map; lia). rewrite znth_map with (d := d) by lia.
    rewrite znth_zfirstn by lia. rewrite znth_zskipn by lia. zbool. do 2 f_equal. lia. }
  rewrite znth_app_r by (rewrite zlen_map; lia). rewrite zlen_map, L2.
  destruct (Z.lt_ge_cases i (x + r)) as [H3|H3].
  { rewrite znth_app_l by (rewrite zlen_map; lia). rewrite znth_map with (d := d) by lia.
    rewrite znth_zfirstn by lia. rewrite znth_zskipn by lia. zbool. do 2 f_equal. lia. }
  rewrite znth_app_r by (rewrite zlen_map; lia). rewrite zlen_map, L3.
  destruct (Z.lt_ge_cases i (zlen row - n)) as [H4|H4].
  { rewrite znth_app_l by lia. rewrite znth_zskipn by lia. zbool. f_equal. lia. }
  rewrite znth_app_r by lia. rewrite L4. rewrite znth_zrepeat by lia. zbool. reflexivity.
Qed.

(* ---------- fit_row ---------- *)
Lemma fit_row_znth st w row i d : 1 <= w -> 0 <= i < w ->
  znth i (fit_row st w row) d =
    if i <? zlen row then
      if straddles row w i then unglyph (znth i row d) else znth i row d
    else blank st.
Proof.
  intros Hw Hi. unfold fit_row, straddles. pose proof (zlen_nonneg row) as Hl.
  destruct (Z.ltb_spec w (zlen row)) as [Hc|Hc].
  - destruct (is_cont (znth w row dcell)) eqn:E; cbn [andb].
    + pose proof (glyph_start_range row w ltac:(lia)) as Hb. set (b := glyph_start row w) in *.
      assert (L1 : zlen (zfirstn b row) = b) by zlens.
      destruct (Z.lt_ge_cases i b) as [H1|H1].
      * rewrite znth_app_l by lia. rewrite znth_zfirstn by lia. zbool. reflexivity.
      * rewrite znth_app_r by lia. rewrite L1.
        assert (L2 : zlen (zfirstn (w - b) (zskipn b row)) = w - b) by zlens.
        rewrite znth_map with (d := d) by lia.
        rewrite znth_zfirstn by lia. rewrite znth_zskipn by lia. zbool. do 2 f_equal. lia.
    + rewrite znth_zfirstn by lia. zbool. reflexivity.
  - rewrite (znth_overflow w row) by lia. cbn [is_cont dcell blank cwid Z.eqb andb].
    destruct (Z.lt_ge_cases i (zlen row)) as [H1|H1].
    + rewrite znth_app_l by lia. zbool. reflexivity.
    + rewrite znth_app_r by lia. rewrite znth_zrepeat by lia. zbool. reflexivity.
Qed.

(* ---------- examples ---------- *)
(* a b [W W] c : overwrite column 2 (the head of the wide glyph) with 'x':
   the orphaned continuation cell 3 becomes a blank in the writing style *)
Example overwrite_example :
  overwrite stC 2 [ch 120 stC] ([ch 97 stA; ch 98 stA] ++ wide 20013 stB ++ [ch 99 stA])
  = [ch 97 stA; ch 98 stA; ch 120 stC; blank stC; ch 99 stA]
  /\ touched ([ch 97 stA; ch 98 stA] ++ wide 20013 stB ++ [ch 99 stA]) 2 1 = (2, 4)
  /\ touched ([ch 97 stA; ch 98 stA] ++ wide 20013 stB ++ [ch 99 stA]) 3 1 = (2, 4).
Proof. vm_compute. auto. Qed.

(* delete one cell at the continuation cell of the wide glyph: the head that
   stays becomes a blank in its own style, the rest shifts left *)
Example delete_cells_example :
  delete_cells stC 3 1 ([ch 97 stA; ch 98 stA] ++ wide 20013 stB ++ [ch 99 stA])
  = [ch 97 stA; ch 98 stA; blank stB; ch 99 stA; blank stC].
Proof. vm_compute. reflexivity. Qed.

(* cut through the wide glyph / pad *)
Example fit_row_example :
  fit_row stC 3 ([ch 97 stA; ch 98 stA] ++ wide 20013 stB ++ [ch 99 stA]) = [ch 97 stA; ch 98 stA; blank stB]
  /\ fit_row stC 4 ([ch 97 stA; ch 98 stA] ++ wide 20013 stB ++ [ch 99 stA]) = [ch 97 stA; ch 98 stA] ++ wide 20013 stB
  /\ fit_row stC 6 ([ch 97 stA; ch 98 stA] ++ wide 20013 stB ++ [ch 99 stA])
     = [ch 97 stA; ch 98 stA] ++ wide 20013 stB ++ [ch 99 stA; blank stC].
Proof. vm_compute. auto. Qed.

(* why the screen-level statements carry the side condition "column range not
   empty": the touched interval of an EMPTY range starting on a continuation cell
   is not empty, but an empty overwrite changes nothing *)
Example touched_empty_range_example :
  let row := [ch 97 stA; ch 98 stA] ++ wide 20013 stB ++ [ch 99 stA] in
  touched row 3 0 = (2, 4) /\ overwrite stC 3 [] row = row.
Proof. vm_compute. auto. Qed.
