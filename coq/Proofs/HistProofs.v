(* Histories of backend reads and Resize calls: the invariant holds after every
   prefix, nothing crashes, and the fuel of the byte loop is always enough. *)
From Coq Require Import List ZArith Bool Lia.
From Termemu Require Import Base Style Screen Kbd Parser Term BaseLemmas ScreenInv TermInv ParserProofs.
Import ListNotations.
Open Scope Z_scope.

Definition hop_ok (o : hop) : Prop :=
  match o with HResize w h => 1 <= w /\ 1 <= h | HFeed _ => True end.
Definition hist_ok (ops : list hop) : Prop := Forall hop_ok ops.

Section Hist.
  Variable wc : Z -> Z.
  Variable grid : bool.

  Lemma TInv_hstep st o : TInv (fst st) -> hop_ok o -> TInv (fst (hstep wc grid st o)).
  Proof.
    intros Ht Ho. destruct o as [bs|w h]; cbn [hstep].
    - apply TInv_run_bytes, Ht.
    - rewrite (TInv_not_crashed _ Ht). cbn [fst]. destruct Ho. apply TInv_resize; assumption.
  Qed.

  Theorem TInv_fold ops : forall st, TInv (fst st) -> hist_ok ops -> TInv (fst (fold_left (hstep wc grid) ops st)).
  Proof.
    induction ops as [|o ops IH]; intros st Ht Hok; cbn [fold_left]; [exact Ht|].
    inversion Hok; subst. apply IH; [apply TInv_hstep; assumption|assumption].
  Qed.

  Theorem TInv_run_hist w h ops : 1 <= w -> 1 <= h -> hist_ok ops ->
    TInv (fst (run_hist wc grid (init_term w h) ops)).
  Proof. intros Hw Hh Hok. apply TInv_fold; [apply TInv_init; assumption|exact Hok]. Qed.

  (* the invariant holds after every prefix of the history, i.e. after every step *)
  Corollary TInv_every_prefix w h ops n : 1 <= w -> 1 <= h -> hist_ok ops ->
    TInv (fst (run_hist wc grid (init_term w h) (firstn n ops))).
  Proof.
    intros Hw Hh Hok. apply TInv_run_hist; try assumption.
    unfold hist_ok in *. rewrite <- (firstn_skipn n ops) in Hok. apply Forall_app in Hok. tauto.
  Qed.

  Theorem no_crash_hist w h ops : 1 <= w -> 1 <= h -> hist_ok ops ->
    crashed (fst (run_hist wc grid (init_term w h) ops)) = false.
  Proof. intros. apply TInv_not_crashed, TInv_run_hist; assumption. Qed.

  (* ---- termination of the byte loop: |inp| + 1 iterations always suffice ---- *)
  Lemma run_pending_more_fuel f : forall t inp k, (length inp < f)%nat ->
    run_pending wc grid (f + k) t inp = run_pending wc grid f t inp.
  Proof.
    induction f as [|f IH]; intros t inp k Hl; [lia|].
    cbn [run_pending Nat.add]. destruct (crashed t); [reflexivity|].
    destruct (parse_one wc grid inp) as [|tok rest] eqn:E; [reflexivity|].
    apply parse_one_suffix in E. apply ss_length in E. apply IH. lia.
  Qed.

  Theorem run_bytes_fuel_enough t inp k :
    run_pending wc grid (S (length inp) + k) t inp = run_bytes wc grid t inp.
  Proof. unfold run_bytes. apply run_pending_more_fuel. lia. Qed.

  (* when the loop stops it is because it crashed or the parser needs more bytes *)
  Lemma run_pending_stops f : forall t inp, (length inp < f)%nat ->
    let r := run_pending wc grid f t inp in
    crashed (fst r) = true \/ parse_one wc grid (snd r) = PMore.
  Proof.
    induction f as [|f IH]; intros t inp Hl; [lia|].
    cbn [run_pending]. destruct (crashed t) eqn:Ec; [left; exact Ec|].
    destruct (parse_one wc grid inp) as [|tok rest] eqn:E; [right; exact E|].
    apply parse_one_suffix in E. apply ss_length in E. apply IH. lia.
  Qed.

  Theorem run_bytes_stops t inp :
    crashed (fst (run_bytes wc grid t inp)) = true \/ parse_one wc grid (snd (run_bytes wc grid t inp)) = PMore.
  Proof. apply run_pending_stops. auto. Qed.

  (* what is left pending is a suffix of what was fed: bytes are consumed in order, none twice *)
  Lemma run_pending_suffix f : forall t inp, strict_suffix 0 (snd (run_pending wc grid f t inp)) inp.
  Proof.
    induction f as [|f IH]; intros t inp; cbn [run_pending]; [apply ss_refl|].
    destruct (crashed t); [apply ss_refl|].
    destruct (parse_one wc grid inp) as [|tok rest] eqn:E; [apply ss_refl|].
    apply parse_one_suffix in E. apply (ss_weaken (0 + 1)); [lia|]. eapply ss_trans; [apply IH|exact E].
  Qed.
End Hist.

Lemma Inv_meaning s : Inv s ->
  zlen (rows s) = sH s /\ Forall (fun r => zlen r = sW s) (rows s) /\
  0 <= cx s < sW s /\ 0 <= cy s < sH s /\ 0 <= svx s < sW s /\ 0 <= svy s < sH s /\
  0 <= top s <= bot s /\ bot s < sH s /\ crash s = 0.
Proof. intros []. repeat split; assumption || lia. Qed.

(* non-vacuity: a concrete history with wide glyphs, scrolling, margins and resizes *)
Example hist_example :
  let ops := [HFeed [228;184;173;27;91;50;59;51;114;10;10;10;97]; HResize 2 1; HFeed [240;159;144;185;27;91;53;83]; HResize 5 4] in
  hist_ok ops /\ sW (tmain (fst (run_hist (fun _ => 2) false (init_term 4 3) ops))) = 5.
Proof. split; [repeat constructor; cbn; lia|vm_compute; reflexivity]. Qed.
