(* C04: closed forms for the cursor-motion controls, with their frame conditions
   (content, margins, saved cursor, style untouched unless an index crosses the
   edge of the scroll region). *)
From Coq Require Import List ZArith Bool Lia.
From Termemu Require Import Base Style Screen Kbd Parser Term BaseLemmas ScreenInv TermInv.
Import ListNotations.
Open Scope Z_scope.

(* everything except cursor and callback log is the same *)
Definition same_but_cursor (s s' : screen) : Prop :=
  rows s' = rows s /\ sW s' = sW s /\ sH s' = sH s /\ svx s' = svx s /\ svy s' = svy s /\
  top s' = top s /\ bot s' = bot s /\ awrap s' = awrap s /\ sty s' = sty s /\ crash s' = crash s /\ trig s' = trig s.

Lemma same_but_cursor_refl s : same_but_cursor s s.
Proof. repeat split. Qed.

(* ---- plain moves: CUU CUD CUF CUB BS ---- *)
Lemma move_plain dx dy s :
  let s' := move_cursor dx dy false false s in
  cx s' = clamp (cx s + dx) 0 (sW s - 1) /\ cy s' = clamp (cy s + dy) 0 (sH s - 1) /\ same_but_cursor s s'.
Proof. unfold move_cursor. cbn [andb]. repeat split. Qed.

Lemma set_cursor_pos_spec x y s :
  let s' := set_cursor_pos x y s in
  cx s' = clamp x 0 (sW s - 1) /\ cy s' = clamp y 0 (sH s - 1) /\ same_but_cursor s s'.
Proof. unfold set_cursor_pos. repeat split. Qed.

Lemma save_restore_spec s :
  svx (save_cursor s) = cx s /\ svy (save_cursor s) = cy s /\ rows (save_cursor s) = rows s /\
  cx (save_cursor s) = cx s /\ cy (save_cursor s) = cy s /\
  cx (restore_cursor s) = svx s /\ cy (restore_cursor s) = svy s /\ same_but_cursor s (restore_cursor s).
Proof. unfold save_cursor, restore_cursor. repeat split. Qed.

(* ---- CR ---- *)
Lemma cr_spec s : Inv s ->
  let s' := move_cursor (- cx s) 0 true true s in
  cx s' = 0 /\ cy s' = cy s /\ same_but_cursor s s'.
Proof.
  intros Hs. pose proof (inv_w s Hs). pose proof (inv_cx s Hs). pose proof (inv_cy s Hs). pose proof (inv_h s Hs).
  unfold move_cursor. cbn [andb].
  replace (cx s + - cx s) with 0 by lia.
  assert (E0 : 0 mod sW s = 0) by (apply Z.mod_0_l; lia).
  assert (E1 : 0 / sW s = 0) by (apply Z.div_0_l; lia).
  assert (C0 : clamp 0 0 (sW s - 1) = 0) by (apply clamp_id; lia).
  assert (Cy : clamp (cy s) 0 (sH s - 1) = cy s) by (apply clamp_id; lia).
  destruct (awrap s); cbn [fst snd].
  - rewrite E0, E1, Z.add_0_r, Z.add_0_r.
    destruct ((top s <=? cy s) && (cy s <=? bot s)) eqn:E.
    + apply andb_true_iff in E. destruct E as [Ea Eb]. apply Z.leb_le in Ea, Eb.
      destruct (Z.ltb_spec (cy s) (top s)); [lia|]. destruct (Z.ltb_spec (bot s) (cy s)); [lia|].
      cbn. rewrite Cy. repeat split.
    + cbn. rewrite Cy. repeat split.
  - rewrite C0, Z.add_0_r.
    destruct ((top s <=? cy s) && (cy s <=? bot s)) eqn:E.
    + apply andb_true_iff in E. destruct E as [Ea Eb]. apply Z.leb_le in Ea, Eb.
      destruct (Z.ltb_spec (cy s) (top s)); [lia|]. destruct (Z.ltb_spec (bot s) (cy s)); [lia|].
      cbn. rewrite Cy. repeat split.
    + cbn. rewrite Cy. repeat split.
Qed.

(* ---- index (IND, FF; LF after its CR part) and reverse index ---- *)
Definition at_bottom_edge (s : screen) : bool := (top s <=? cy s) && (cy s =? bot s).
Definition at_top_edge (s : screen) : bool := (cy s =? top s) && (cy s <=? bot s).

Lemma index_down_spec s : Inv s ->
  let s' := move_cursor 0 1 false true s in
  cx s' = cx s /\
  (at_bottom_edge s = true ->
     cy s' = cy s /\ rows s' = rows (scroll (top s) (bot s) (-1) s) /\ top s' = top s /\ bot s' = bot s) /\
  (at_bottom_edge s = false ->
     cy s' = Z.min (cy s + 1) (sH s - 1) /\ same_but_cursor s s').
Proof.
  intros Hs. pose proof (inv_w s Hs). pose proof (inv_cx s Hs). pose proof (inv_cy s Hs). pose proof (inv_h s Hs).
  pose proof (inv_top s Hs). pose proof (inv_bot s Hs).
  unfold move_cursor, at_bottom_edge. cbn [andb].
  rewrite Z.add_0_r. assert (Cx : clamp (cx s) 0 (sW s - 1) = cx s) by (apply clamp_id; lia). rewrite Cx.
  destruct (Z.leb_spec (top s) (cy s)) as [Ht|Ht]; cbn [andb].
  - destruct (Z.leb_spec (cy s) (bot s)) as [Hb|Hb]; cbn [andb].
    + destruct (Z.ltb_spec (cy s + 1) (top s)); [lia|].
      destruct (Z.ltb_spec (bot s) (cy s + 1)).
      * assert (E : cy s = bot s) by lia. rewrite E, Z.eqb_refl.
        destruct (Pres_scroll (top s) (bot s) (bot s - (bot s + 1)) s Hs) as (I1 & W1 & Hh1).
        replace (bot s - (bot s + 1)) with (-1) in * by lia.
        split; [reflexivity|]. split; [|discriminate]. intros _.
        cbn [cy rows top bot emit set_cur set_evs]. rewrite clamp_id by lia.
        repeat split; unfold scroll; repeat match goal with |- context [if ?c then _ else _] => destruct c end; reflexivity.
      * destruct (Z.eqb_spec (cy s) (bot s)); [lia|].
        split; [reflexivity|]. split; [discriminate|]. intros _. cbn.
        rewrite clamp_id by lia. split; [lia|]. repeat split.
    + destruct (Z.eqb_spec (cy s) (bot s)); [lia|].
      split; [reflexivity|]. split; [discriminate|]. intros _. cbn.
      rewrite clamp_spec by lia. split; [lia|]. repeat split.
  - split; [reflexivity|]. split; [discriminate|]. intros _. cbn.
    rewrite clamp_spec by lia. split; [lia|]. repeat split.
Qed.

Lemma index_up_spec s : Inv s ->
  let s' := move_cursor 0 (-1) false true s in
  cx s' = cx s /\
  (at_top_edge s = true ->
     cy s' = cy s /\ rows s' = rows (scroll (top s) (bot s) 1 s) /\ top s' = top s /\ bot s' = bot s) /\
  (at_top_edge s = false ->
     cy s' = Z.max (cy s - 1) 0 /\ same_but_cursor s s').
Proof.
  intros Hs. pose proof (inv_w s Hs). pose proof (inv_cx s Hs). pose proof (inv_cy s Hs). pose proof (inv_h s Hs).
  pose proof (inv_top s Hs). pose proof (inv_bot s Hs).
  unfold move_cursor, at_top_edge. cbn [andb].
  rewrite Z.add_0_r. assert (Cx : clamp (cx s) 0 (sW s - 1) = cx s) by (apply clamp_id; lia). rewrite Cx.
  destruct (Z.leb_spec (top s) (cy s)) as [Ht|Ht]; cbn [andb].
  - destruct (Z.leb_spec (cy s) (bot s)) as [Hb|Hb]; cbn [andb].
    + destruct (Z.ltb_spec (cy s + -1) (top s)).
      * assert (E : cy s = top s) by lia. rewrite E, Z.eqb_refl. cbn [andb].
        destruct (Pres_scroll (top s) (bot s) (top s - (top s + -1)) s Hs) as (I1 & W1 & Hh1).
        replace (top s - (top s + -1)) with 1 in * by lia.
        split; [reflexivity|]. split; [|discriminate]. intros _.
        cbn [cy rows top bot emit set_cur set_evs]. rewrite clamp_id by lia.
        repeat split; unfold scroll; repeat match goal with |- context [if ?c then _ else _] => destruct c end; reflexivity.
      * destruct (Z.ltb_spec (bot s) (cy s + -1)); [lia|].
        destruct (Z.eqb_spec (cy s) (top s)); [lia|]. cbn [andb].
        split; [reflexivity|]. split; [discriminate|]. intros _. cbn.
        rewrite clamp_id by lia. split; [lia|]. repeat split.
    + rewrite andb_false_r.
      split; [reflexivity|]. split; [discriminate|]. intros _. cbn.
      rewrite clamp_spec by lia. split; [lia|]. repeat split.
  - destruct (Z.eqb_spec (cy s) (top s)); [lia|]. cbn [andb].
    split; [reflexivity|]. split; [discriminate|]. intros _. cbn.
    rewrite clamp_spec by lia. split; [lia|]. repeat split.
Qed.

(* scrolling keeps the rows outside [y1, y2] (used as the frame of the index cases) *)
(* ---- terminal level: the control only acts on the active buffer ---- *)
Definition inactive (t : term) : screen := if onalt t then tmain t else talt t.

Lemma on_screen_frame f t :
  inactive (on_screen f t) = inactive t /\ onalt (on_screen f t) = onalt t /\ vflags (on_screen f t) = vflags t /\
  vints (on_screen f t) = vints t /\ vstrs (on_screen f t) = vstrs t /\ kbm (on_screen f t) = kbm t /\
  kba (on_screen f t) = kba t /\ tout (on_screen f t) = tout t.
Proof. unfold on_screen, inactive, set_active, active. destruct (onalt t); cbn; repeat split. Qed.

Lemma on_screen_active f t :
  let s' := active (on_screen f t) in
  forall (P : screen -> Prop), (forall l, P (set_evs l (f (set_evs [] (active t))))) -> P s'.
Proof. intros s' P H. subst s'. unfold on_screen, active, set_active in *. destruct (onalt t); cbn; apply H. Qed.

(* the byte-level dispatch of the motion controls *)
Lemma c04_dispatch ps t :
  exec_c0 8 t = on_screen (move_cursor (-1) 0 false false) t /\
  exec_c0 9 t = on_screen (fun s => set_cursor_pos ((cx s / 8 + 1) * 8) (cy s) s) t /\
  exec_c0 13 t = on_screen (fun s => move_cursor (- cx s) 0 true true s) t /\
  exec_c0 10 t = on_screen (fun s => move_cursor 0 1 true true (set_cursor_pos 0 (cy s) s)) t /\
  exec_c0 12 t = on_screen (move_cursor 0 1 false true) t /\
  exec_esc 68 t = on_screen (move_cursor 0 1 false true) t /\
  exec_esc 77 t = on_screen (move_cursor 0 (-1) false true) t /\
  exec_csi 0 ps 65 t = on_screen (move_cursor 0 (- p0 ps 1) false false) t /\
  exec_csi 0 ps 66 t = on_screen (move_cursor 0 (p0 ps 1) false false) t /\
  exec_csi 0 ps 67 t = on_screen (move_cursor (p0 ps 1) 0 false false) t /\
  exec_csi 0 ps 68 t = on_screen (move_cursor (- p0 ps 1) 0 false false) t /\
  exec_csi 0 ps 71 t = on_screen (fun s => set_cursor_pos (p0 ps 1 - 1) (cy s) s) t /\
  exec_csi 0 ps 100 t = on_screen (fun s => set_cursor_pos (cx s) (p0 ps 1 - 1) s) t /\
  exec_csi 0 ps 72 t = on_screen (set_cursor_pos (p1 ps 1 - 1) (p0 ps 1 - 1)) t /\
  exec_csi 0 ps 102 t = on_screen (set_cursor_pos (p1 ps 1 - 1) (p0 ps 1 - 1)) t /\
  exec_csi 0 ps 115 t = on_screen save_cursor t /\
  exec_csi 0 ps 117 t = on_screen restore_cursor t.
Proof. repeat split; reflexivity. Qed.

(* HT: next multiple of eight, clamped to the last column *)
Lemma ht_spec s : Inv s ->
  let s' := set_cursor_pos ((cx s / 8 + 1) * 8) (cy s) s in
  cx s' = Z.min (sW s - 1) (8 * (cx s / 8 + 1)) /\ cy s' = cy s /\ same_but_cursor s s'.
Proof.
  intros Hs. pose proof (inv_w s Hs). pose proof (inv_cx s Hs). pose proof (inv_cy s Hs). pose proof (inv_h s Hs).
  destruct (set_cursor_pos_spec ((cx s / 8 + 1) * 8) (cy s) s) as (A & B & C).
  assert (0 <= cx s / 8) by (apply Z.div_pos; lia).
  rewrite clamp_spec in A by lia. rewrite clamp_id in B by lia.
  split; [rewrite A; lia|]. split; assumption.
Qed.

(* LF = carriage return to column 0 + index with wrap enabled (this emulator's line feed is a next-line) *)
Lemma lf_spec s : Inv s ->
  let s0 := set_cursor_pos 0 (cy s) s in
  let s' := move_cursor 0 1 true true s0 in
  cx s' = 0 /\
  (at_bottom_edge s = true ->
     cy s' = cy s /\ rows s' = rows (scroll (top s) (bot s) (-1) s) /\ top s' = top s /\ bot s' = bot s) /\
  (at_bottom_edge s = false ->
     cy s' = Z.min (cy s + 1) (sH s - 1) /\ same_but_cursor s s').
Proof.
  intros Hs s0 s'. pose proof (inv_w s Hs). pose proof (inv_cx s Hs). pose proof (inv_cy s Hs). pose proof (inv_h s Hs).
  assert (I0 : Inv s0) by (apply Pres_set_cursor_pos, Hs).
  assert (E0 : cx s0 = 0 /\ cy s0 = cy s /\ same_but_cursor s s0).
  { subst s0. destruct (set_cursor_pos_spec 0 (cy s) s) as (A & B & C). rewrite clamp_id in A by lia. rewrite clamp_id in B by lia. auto. }
  destruct E0 as (X0 & Y0 & (R0 & W0 & Hh0 & SX0 & SY0 & T0 & B0 & A0 & ST0 & C0 & TR0)).
  (* with dx = 0 the wrap branch and the clamp branch agree *)
  assert (Eq : move_cursor 0 1 true true s0 = move_cursor 0 1 false true s0).
  { unfold move_cursor. rewrite X0. cbn [andb]. destruct (awrap s0); [|reflexivity].
    replace (0 + 0) with 0 by lia. rewrite Z.mod_0_l, Z.div_0_l by (rewrite W0; lia).
    rewrite (clamp_id 0) by (rewrite W0; lia). rewrite Z.add_0_r. reflexivity. }
  subst s'. rewrite Eq.
  destruct (index_down_spec s0 I0) as (Cx & Hbot & Hnot).
  assert (Eb : at_bottom_edge s0 = at_bottom_edge s) by (unfold at_bottom_edge; rewrite T0, B0, Y0; reflexivity).
  rewrite Eb in *.
  split; [rewrite Cx; exact X0|]. split.
  - intros E. destruct (Hbot E) as (A & B & C & D). rewrite Y0 in A. rewrite T0, B0 in *.
    split; [exact A|]. split; [|split; assumption].
    rewrite B. unfold scroll. rewrite Hh0, R0, W0, ST0.
    repeat match goal with |- context [if ?c then _ else _] => destruct c end; reflexivity.
  - intros E. destruct (Hnot E) as (A & (R1 & W1 & Hh1 & SX1 & SY1 & T1 & B1 & A1 & ST1 & C1 & TR1)).
    rewrite Y0, Hh0 in A. split; [exact A|]. unfold same_but_cursor. repeat split; congruence.
Qed.
