From Coq Require Import List ZArith Bool Lia.
From Termemu Require Import Base Style Screen Kbd Parser Term.
Import ListNotations.
Open Scope Z_scope.

Lemma kbd_dispatch ps t :
  exec_csi 61 ps 117 t = on_kbd (kbd_update (p0 ps 0) (p1 ps 1)) t /\
  exec_csi 62 ps 117 t = on_kbd (kbd_push (p0 ps 0)) t /\
  exec_csi 60 ps 117 t = on_kbd (kbd_pop (p0 ps 1)) t /\
  exec_csi 63 ps 117 t = reply (kbd_query_reply (kflags (active_kbd t))) t.
Proof. repeat split; reflexivity. Qed.

Lemma kbd_separate f t :
  (onalt t = false -> kbm (on_kbd f t) = f (kbm t) /\ kba (on_kbd f t) = kba t) /\
  (onalt t = true -> kba (on_kbd f t) = f (kba t) /\ kbm (on_kbd f t) = kbm t).
Proof. unfold on_kbd; split; intros ->; cbn; auto. Qed.

Lemma kbd_query ps t :
  tout (exec_csi 63 ps 117 t) = tout t ++ [27; 91; 63] ++ itoa (kflags (active_kbd t)) ++ [117] /\
  kbm (exec_csi 63 ps 117 t) = kbm t /\ kba (exec_csi 63 ps 117 t) = kba t /\
  tmain (exec_csi 63 ps 117 t) = tmain t /\ talt (exec_csi 63 ps 117 t) = talt t.
Proof. repeat split; reflexivity. Qed.
