From Coq Require Import List ZArith Bool Lia.
From Termemu Require Import Base Kbd KbdSpec.
Import ListNotations.
Open Scope Z_scope.

Definition kbd_step (k : kbd) (o : kop) : kbd :=
  match o with
  | KSet f m => kbd_update f m k
  | KPush f => kbd_push f k
  | KPop n => kbd_pop n k
  end.

(* refinement relation: same flags, the slice is the history reversed, at most 32 entries *)
Definition R (k : kbd) (a : aks) : Prop :=
  kflags k = aflags a /\ kstack k = rev (ahist a) /\ (length (ahist a) <= 32)%nat.

Lemma R_init : R kbd0 aks0.
Proof. unfold R; simpl; repeat split; lia. Qed.

Lemma rev_removelast {A} (l : list A) : rev (removelast l) = tl (rev l).
Proof.
  induction l as [|x l IH]; [reflexivity|].
  destruct l as [|y l]; [reflexivity|].
  change (removelast (x :: y :: l)) with (x :: removelast (y :: l)).
  cbn [rev] in *. rewrite IH.
  destruct (rev l ++ [y]) as [|z r] eqn:E.
  - destruct (rev l); discriminate.
  - reflexivity.
Qed.

Lemma firstn_removelast {A} (l : list A) : firstn (length l - 1) l = removelast l.
Proof.
  induction l as [|x l IH]; [reflexivity|].
  destruct l as [|y l]; [reflexivity|].
  replace (length (x :: y :: l) - 1)%nat with (S (length (y :: l) - 1)) by (cbn [length]; lia).
  cbn [firstn]. rewrite IH. reflexivity.
Qed.

Lemma R_set k a f m : R k a -> R (kbd_update f m k) (spec_set f m a).
Proof.
  intros (Hf & Hs & Hl). unfold kbd_update, spec_set.
  assert (Hmax : (if f <? 0 then 0 else f) = Z.max 0 f).
  { destruct (Z.ltb_spec f 0); lia. }
  rewrite Hmax. set (m' := if m <=? 0 then 1 else m).
  destruct (m' =? 1); [unfold R; cbn; auto|].
  destruct (m' =? 2); [unfold R; cbn; rewrite Hf; auto|].
  destruct (m' =? 3); [unfold R; cbn; rewrite Hf; auto|].
  unfold R; auto.
Qed.

Lemma R_push k a f : R k a -> R (kbd_push f k) (spec_push f a).
Proof.
  intros (Hf & Hs & Hl). unfold kbd_push, spec_push, R, zlen, keyboardStackMax. cbn [kflags kstack aflags ahist].
  rewrite Hs, rev_length, Hf.
  destruct (Z.leb_spec 32 (Z.of_nat (length (ahist a)))) as [Hge|Hlt].
  - assert (Hlen : length (ahist a) = 32%nat) by lia.
    split; [reflexivity|]. split.
    + replace 32%nat with (S (length (ahist a) - 1)) by lia.
      rewrite firstn_cons. cbn [rev].
      rewrite firstn_removelast, rev_removelast. reflexivity.
    + rewrite firstn_length. lia.
  - split; [reflexivity|]. split.
    + rewrite firstn_all2 by (cbn [length]; lia). reflexivity.
    + rewrite firstn_length. cbn [length]. lia.
Qed.

Lemma kbd_pop_n_spec n : forall k a, R k a ->
  R (kbd_pop_n n k)
    (if (length (ahist a) <? n)%nat then mkAks 0 []
     else match n with O => a | S m => mkAks (nth m (ahist a) 0) (skipn n (ahist a)) end).
Proof.
  induction n as [|n IH]; intros k a HR.
  - cbn. exact HR.
  - destruct HR as (Hf & Hs & Hl). cbn [kbd_pop_n]. rewrite Hs, rev_involutive.
    destruct (ahist a) as [|h t] eqn:Eh.
    + cbn. unfold R; cbn; repeat split; lia.
    + assert (HR' : R (mkKbd h (rev t)) (mkAks h t)).
      { unfold R; cbn; repeat split; cbn in Hl; lia. }
      specialize (IH _ _ HR'). cbn [ahist] in IH.
      cbn [length]. 
      destruct (Nat.ltb_spec (length t) n) as [Hlt|Hge].
      * destruct (Nat.ltb_spec (S (length t)) (S n)); [exact IH|lia].
      * destruct (Nat.ltb_spec (S (length t)) (S n)); [lia|].
        destruct n as [|m]; [exact IH|].
        cbn [nth skipn]. exact IH.
Qed.

Lemma R_pop k a n : R k a -> R (kbd_pop n k) (spec_pop n a).
Proof.
  intros HR. unfold kbd_pop, spec_pop.
  set (c := if n <=? 0 then 1 else n).
  assert (Hc : (0 < Z.to_nat c)%nat) by (subst c; destruct (Z.leb_spec n 0); lia).
  pose proof (kbd_pop_n_spec (Z.to_nat c) k a HR) as H.
  destruct (Z.to_nat c) as [|m] eqn:E; [lia|].
  replace (S m - 1)%nat with m by lia. exact H.
Qed.

Lemma R_step k a o : R k a -> R (kbd_step k o) (spec_step a o).
Proof. destruct o; cbn; auto using R_set, R_push, R_pop. Qed.

(* every operation history: the Go slice model refines the abstract stack *)
Theorem kbd_refines ops : R (fold_left kbd_step ops kbd0) (fold_left spec_step ops aks0).
Proof.
  assert (G : forall k a, R k a -> R (fold_left kbd_step ops k) (fold_left spec_step ops a)).
  { induction ops as [|o ops IH]; intros k a HR; cbn; [exact HR|]. apply IH, R_step, HR. }
  apply G, R_init.
Qed.

Corollary kbd_stack_bounded ops : (length (kstack (fold_left kbd_step ops kbd0)) <= 32)%nat.
Proof.
  destruct (kbd_refines ops) as (_ & Hs & Hl). rewrite Hs, rev_length. exact Hl.
Qed.

(* closed forms for pop, on the abstract stack *)
Lemma spec_pop_within a n :
  1 <= n -> (Z.to_nat n <= length (ahist a))%nat ->
  aflags (spec_pop n a) = nth (Z.to_nat n - 1) (ahist a) 0 /\
  length (ahist (spec_pop n a)) = (length (ahist a) - Z.to_nat n)%nat.
Proof.
  intros Hn Hd. unfold spec_pop.
  destruct (Z.leb_spec n 0); [lia|].
  destruct (Nat.ltb_spec (length (ahist a)) (Z.to_nat n)); [lia|].
  cbn. split; [reflexivity|]. apply skipn_length.
Qed.

Lemma spec_pop_beyond a n :
  (length (ahist a) < Z.to_nat n)%nat -> spec_pop n a = mkAks 0 [].
Proof.
  intros Hd. unfold spec_pop.
  destruct (Z.leb_spec n 0); [lia|].
  destruct (Nat.ltb_spec (length (ahist a)) (Z.to_nat n)); [reflexivity|lia].
Qed.

Lemma spec_push_evicts a f :
  (length (ahist a) = 32)%nat ->
  ahist (spec_push f a) = aflags a :: removelast (ahist a).
Proof.
  intros H. unfold spec_push. cbn [ahist].
  replace 32%nat with (S (length (ahist a) - 1)) by lia.
  rewrite firstn_cons, firstn_removelast. reflexivity.
Qed.

(* non-vacuity: a concrete history that overflows the stack and pops past empty *)
Example kbd_example :
  let ops := map KPush (map Z.of_nat (seq 1 40)) ++ [KPop 3; KSet 5 2; KPop 100] in
  kflags (fold_left kbd_step ops kbd0) = 0 /\ kstack (fold_left kbd_step ops kbd0) = [].
Proof. vm_compute. split; reflexivity. Qed.
