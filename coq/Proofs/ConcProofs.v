(* Proofs/ConcProofs.v -- soundness of the lock-discipline checker of
   Model/Conc.v and the interleaving lemmas used by property C15. *)

From Coq Require Import List Bool Arith String Lia.
From Termemu Require Import Conc.
Import ListNotations.

(* ------------------------------------------------------------------------- *)
(** * Held sets *)

Lemma mutex_eqb_eq : forall a b, mutex_eqb a b = true <-> a = b.
Proof. destruct a, b; simpl; split; intro H; try reflexivity; discriminate. Qed.

Lemma held_eqb_eq : forall a b, held_eqb a b = true <-> a = b.
Proof.
  intros [a1 a2 a3] [b1 b2 b3]; unfold held_eqb; simpl.
  rewrite !andb_true_iff, !eqb_true_iff. split.
  - intros [[-> ->] ->]. reflexivity.
  - intros H. inversion H. auto.
Qed.

Lemma holds_acq : forall h m m', holds (acq h m) m' = mutex_eqb m m' || holds h m'.
Proof. intros [a b c] m m'; destruct m, m'; reflexivity. Qed.

Lemma holds_rel : forall h m m', holds (rel h m) m' = negb (mutex_eqb m m') && holds h m'.
Proof. intros [a b c] m m'; destruct m, m'; reflexivity. Qed.

Lemma rel_acq : forall h m, holds h m = false -> rel (acq h m) m = h.
Proof. intros [a b c] m; destruct m; simpl; intros ->; reflexivity. Qed.

Lemma lock_ok_spec : forall h m,
  lock_ok h m = true <-> (forall m', holds h m' = true -> mrank m' < mrank m).
Proof.
  intros h m. unfold lock_ok. rewrite forallb_forall. split.
  - intros H m' Hm'. specialize (H m').
    assert (In m' all_mutexes) by (destruct m'; simpl; auto).
    apply H in H0. rewrite Hm' in H0. simpl in H0. apply Nat.ltb_lt. exact H0.
  - intros H m' _. destruct (holds h m') eqn:E; simpl; [| reflexivity].
    apply Nat.ltb_lt. auto.
Qed.

Lemma lock_ok_not_held : forall h m, lock_ok h m = true -> holds h m = false.
Proof.
  intros h m H. destruct (holds h m) eqn:E; [| reflexivity].
  rewrite lock_ok_spec in H. apply H in E. lia.
Qed.

Lemma mutexes_eqb_eq : forall a b, mutexes_eqb a b = true <-> a = b.
Proof.
  induction a as [| x a IH]; destruct b as [| y b]; simpl; split; intro H;
    try reflexivity; try discriminate.
  - apply andb_true_iff in H. destruct H as [H1 H2].
    apply mutex_eqb_eq in H1. apply IH in H2. congruence.
  - inversion H; subst. apply andb_true_iff. split.
    + apply mutex_eqb_eq; reflexivity.
    + apply IH; reflexivity.
Qed.

Lemma state_eqb_eq : forall a b : state, state_eqb a b = true <-> a = b.
Proof.
  intros [h d] [h' d']; unfold state_eqb; simpl.
  rewrite andb_true_iff, held_eqb_eq, mutexes_eqb_eq. split.
  - intros [-> ->]; reflexivity.
  - intros H; inversion H; auto.
Qed.

Lemma ostate_is_eq : forall o st, ostate_is o st = true -> o = Some st.
Proof.
  intros [s |] st; simpl; intro H; [| discriminate].
  apply state_eqb_eq in H. congruence.
Qed.

Lemma key_eqb_eq : forall a b : key, key_eqb a b = true <-> a = b.
Proof.
  intros [[f h] x] [[g k] y]; unfold key_eqb.
  rewrite !andb_true_iff, Nat.eqb_eq, held_eqb_eq, eqb_true_iff. split.
  - intros [[-> ->] ->]; reflexivity.
  - intros H; inversion H; auto.
Qed.

Lemma key_mem_In : forall k T, key_mem k T = true -> In k T.
Proof.
  intros k T H. unfold key_mem in H. apply existsb_exists in H.
  destruct H as [k' [Hin He]]. apply key_eqb_eq in He. subst. exact Hin.
Qed.

Lemma entry_mem_In : forall e l, entry_mem e l = true -> In e l.
Proof.
  intros [f h] l H. unfold entry_mem in H. apply existsb_exists in H.
  destruct H as [[g k] [Hin He]]. simpl in He. apply andb_true_iff in He.
  destruct He as [H1 H2]. apply Nat.eqb_eq in H1. apply held_eqb_eq in H2. subst. exact Hin.
Qed.

(* ------------------------------------------------------------------------- *)
(** * Soundness of the checker for one thread *)

Section Soundness.
Variable cg : callgraph.
Variable T : list key.
Variable exc : list (fid * fid).
Variable entries : list (fid * held).
Hypothesis Hval : validate T exc entries cg = true.

Notation safe := (safe_obs exc entries).

Lemma table_entry : forall f h ex,
  In (f, h, ex) T ->
  exists body, nth_error cg f = Some body /\ chk_frame T exc entries f ex h body = true.
Proof.
  intros f h ex Hin. unfold validate in Hval. rewrite forallb_forall in Hval.
  specialize (Hval _ Hin). simpl in Hval.
  destruct (nth_error cg f) as [body |]; [| discriminate].
  exists body. auto.
Qed.

Lemma run_defers_ok : forall stk d h entry tr h',
  defers_ok h d entry = true ->
  run_defers stk h d = (tr, h') ->
  Forall safe tr /\ h' = entry.
Proof.
  induction d as [| m d IH]; simpl; intros h entry tr h' Hok Hrun.
  - inversion Hrun; subst. split; [constructor |]. apply held_eqb_eq. exact Hok.
  - apply andb_true_iff in Hok. destruct Hok as [Hm Hok].
    destruct (run_defers stk (rel h m) d) as [tr0 h0] eqn:E.
    inversion Hrun; subst. destruct (IH _ _ _ _ Hok E) as [Hs He].
    split; [| exact He]. constructor; [| exact Hs].
    unfold safe_obs, safe_obsb. simpl. exact Hm.
Qed.

(* What the checker promises about an outcome. *)
Definition out_ok (cx : cctx) (res : state) (o : outcome) : Prop :=
  match o with
  | ONorm st => st = res
  | OExit KRet (h, d) => defers_ok h d (c_entry cx) = true
  | OExit KBrk st => c_brk cx = Some st
  | OExit KCont st => c_cont cx = Some st
  | OCut => True
  end.

Definition P_ev (stk : list fid) (h : held) (d : list mutex) (e : ev) (tr : list obs) (o : outcome) : Prop :=
  forall cur rest cx res,
    stk = cur :: rest ->
    chk_ev T exc entries cur (stk_excepted exc stk) cx (h, d) e = Some res ->
    Forall safe tr /\ out_ok cx res o.

Definition P_list (stk : list fid) (h : held) (d : list mutex) (es : list ev) (tr : list obs) (o : outcome) : Prop :=
  forall cur rest cx res,
    stk = cur :: rest ->
    chk_list T exc entries cur (stk_excepted exc stk) cx (h, d) es = Some res ->
    Forall safe tr /\ out_ok cx res o.

Definition P_frame (stk : list fid) (h : held) (body : list ev) (tr : list obs) (r : option held) : Prop :=
  forall cur rest,
    stk = cur :: rest ->
    chk_frame T exc entries cur (stk_excepted exc stk) h body = true ->
    Forall safe tr /\ (forall h2, r = Some h2 -> h2 = h).

Lemma safe1 : forall o, safe_obsb exc entries o = true -> Forall safe [o].
Proof. intros o H. constructor; [exact H | constructor]. Qed.

Ltac inv_chk H :=
  match type of H with
  | (if ?c then _ else _) = Some _ =>
      let E := fresh "E" in destruct c eqn:E; [| discriminate H]; injection H as H;
      match type of H with _ = ?r => subst r end
  end.

Lemma neutral_chk : forall cur ex cx st body,
  ostate_is (fold_opt (fun s e' => chk_ev T exc entries cur ex cx s e') st body) st = true ->
  chk_list T exc entries cur ex cx st body = Some st.
Proof. intros. unfold chk_list. apply ostate_is_eq in H. exact H. Qed.

Theorem exec_sound :
  (forall stk h d e tr o, exec_ev cg stk h d e tr o -> P_ev stk h d e tr o) /\
  (forall stk h d es tr o, exec_list cg stk h d es tr o -> P_list stk h d es tr o) /\
  (forall stk h body tr r, exec_frame cg stk h body tr r -> P_frame stk h body tr r).
Proof.
  apply exec_mutind; unfold P_ev, P_list, P_frame.
  - (* Lock *)
    intros stk h d m cur rest cx res Hs Hc. simpl in Hc. inv_chk Hc.
    split; [apply safe1; exact E | reflexivity].
  - (* Unlock *)
    intros stk h d m cur rest cx res Hs Hc. simpl in Hc. inv_chk Hc.
    split; [apply safe1; exact E | reflexivity].
  - (* DeferUnlock *)
    intros stk h d m cur rest cx res Hs Hc. simpl in Hc. inversion Hc; subst.
    split; [constructor | reflexivity].
  - (* WithLock, completed *)
    intros stk h d m body tr h1 _ IH cur rest cx res Hs Hc. simpl in Hc. inv_chk Hc.
    apply andb_true_iff in E. destruct E as [Hlk Hbody].
    destruct (IH cur rest Hs) as [Hsafe Hh1].
    { unfold chk_frame, chk_list. exact Hbody. }
    specialize (Hh1 _ eq_refl). subst h1.
    split.
    + constructor; [exact Hlk |]. apply Forall_app. split; [exact Hsafe |].
      apply safe1. unfold safe_obsb; simpl. rewrite holds_acq.
      replace (mutex_eqb m m) with true by (symmetry; apply mutex_eqb_eq; reflexivity). reflexivity.
    + simpl. rewrite rel_acq by (apply lock_ok_not_held; exact Hlk). reflexivity.
  - (* WithLock, cut *)
    intros stk h d m body tr _ IH cur rest cx res Hs Hc. simpl in Hc. inv_chk Hc.
    apply andb_true_iff in E. destruct E as [Hlk Hbody].
    destruct (IH cur rest Hs) as [Hsafe _].
    { unfold chk_frame, chk_list. exact Hbody. }
    split; [| exact I]. constructor; [exact Hlk | exact Hsafe].
  - (* Call *)
    intros stk h d f body tr r Hnth _ IH cur rest cx res Hs Hc. simpl in Hc. inv_chk Hc.
    unfold call_ok in E. apply key_mem_In in E.
    destruct (table_entry _ _ _ E) as [body' [Hnth' Hfr]].
    rewrite Hnth in Hnth'. inversion Hnth'; subst body'. subst stk.
    destruct (IH f (cur :: rest)) as [Hsafe Hret].
    { reflexivity. }
    { simpl. exact Hfr. }
    split; [exact Hsafe |].
    destruct r as [h2 |]; simpl; [| exact I].
    rewrite (Hret _ eq_refl). reflexivity.
  - (* Call of an unknown function *)
    intros stk h d f Hnth cur rest cx res Hs Hc. simpl in Hc. inv_chk Hc.
    unfold call_ok in E. apply key_mem_In in E.
    destruct (table_entry _ _ _ E) as [body' [Hnth' _]]. congruence.
  - (* CallIface, external implementer *)
    intros stk h d meth impls cur rest cx res Hs Hc. simpl in Hc. inv_chk Hc.
    split; [constructor | reflexivity].
  - (* CallIface, in-package implementer *)
    intros stk h d meth impls f tr o Hin _ IH cur rest cx res Hs Hc. simpl in Hc. inv_chk Hc.
    rewrite forallb_forall in E. specialize (E _ Hin).
    apply (IH cur rest cx (h, d) Hs). simpl. rewrite E. reflexivity.
  - (* CallParam *)
    intros stk h d n cur rest cx res Hs Hc. simpl in Hc. inversion Hc; subst.
    split; [apply safe1; reflexivity | reflexivity].
  - (* Cb *)
    intros stk h d n cur rest cx res Hs Hc. simpl in Hc. inv_chk Hc.
    split; [apply safe1; exact E | reflexivity].
  - (* Block *)
    intros stk h d w cur rest cx res Hs Hc. simpl in Hc. inv_chk Hc.
    split; [apply safe1; exact E | reflexivity].
  - (* Access *)
    intros stk h d g fld w cur rest cx res Hs Hc. simpl in Hc. inv_chk Hc.
    split; [apply safe1; exact E | reflexivity].
  - (* Spawn *)
    intros stk h d f cur rest cx res Hs Hc. simpl in Hc. inv_chk Hc.
    split; [apply safe1; exact E | reflexivity].
  - (* Branch, left *)
    intros stk h d a b tr o _ IH cur rest cx res Hs Hc. simpl in Hc. inv_chk Hc.
    apply andb_true_iff in E. destruct E as [Ea _].
    apply (IH cur rest cx (h, d) Hs). apply neutral_chk. exact Ea.
  - (* Branch, right *)
    intros stk h d a b tr o _ IH cur rest cx res Hs Hc. simpl in Hc. inv_chk Hc.
    apply andb_true_iff in E. destruct E as [_ Eb].
    apply (IH cur rest cx (h, d) Hs). apply neutral_chk. exact Eb.
  - (* Loop, exit *)
    intros stk h d body cur rest cx res Hs Hc. simpl in Hc. inv_chk Hc.
    split; [constructor | reflexivity].
  - (* Loop, one more iteration *)
    intros stk h d body tr1 o1 h1 d1 tr2 o2 _ IH1 Ho1 _ IH2 cur rest cx res Hs Hc.
    pose proof Hc as Hc'. simpl in Hc. inv_chk Hc.
    apply neutral_chk in E.
    destruct (IH1 cur rest _ _ Hs E) as [Hs1 Hout1].
    assert (Hst : (h1, d1) = (h, d)).
    { destruct Ho1 as [-> | ->]; simpl in Hout1; [exact Hout1 | congruence]. }
    inversion Hst; subst h1 d1.
    destruct (IH2 cur rest cx (h, d) Hs Hc') as [Hs2 Hout2].
    split; [apply Forall_app; split; assumption | exact Hout2].
  - (* Loop, break *)
    intros stk h d body tr st _ IH cur rest cx res Hs Hc. simpl in Hc. inv_chk Hc.
    apply neutral_chk in E. destruct (IH cur rest _ _ Hs E) as [Hs1 Hout1].
    simpl in Hout1. split; [exact Hs1 |]. simpl. congruence.
  - (* Loop, return *)
    intros stk h d body tr st _ IH cur rest cx res Hs Hc. simpl in Hc. inv_chk Hc.
    apply neutral_chk in E. destruct (IH cur rest _ _ Hs E) as [Hs1 Hout1].
    split; [exact Hs1 |]. destruct st as [h' d']. exact Hout1.
  - (* Loop, cut *)
    intros stk h d body tr _ IH cur rest cx res Hs Hc. simpl in Hc. inv_chk Hc.
    apply neutral_chk in E. destruct (IH cur rest _ _ Hs E) as [Hs1 _].
    split; [exact Hs1 | exact I].
  - (* Scope *)
    intros stk h d body tr o _ IH cur rest cx res Hs Hc. simpl in Hc. inv_chk Hc.
    apply neutral_chk in E. destruct (IH cur rest _ _ Hs E) as [Hs1 Hout1].
    split; [exact Hs1 |].
    destruct o as [st | k st |]; simpl in *; [exact Hout1 | | exact I].
    destruct k; simpl in *.
    + destruct st; exact Hout1.
    + congruence.
    + exact Hout1.
  - (* Return *)
    intros stk h d cur rest cx res Hs Hc. simpl in Hc. inv_chk Hc.
    split; [constructor | exact E].
  - (* Break *)
    intros stk h d cur rest cx res Hs Hc. simpl in Hc. inv_chk Hc.
    split; [constructor |]. simpl. apply ostate_is_eq. exact E.
  - (* Continue *)
    intros stk h d cur rest cx res Hs Hc. simpl in Hc. inv_chk Hc.
    split; [constructor |]. simpl. apply ostate_is_eq. exact E.
  - (* Panic *)
    intros stk h d cur rest cx res Hs Hc. split; [constructor | exact I].
  - (* Unsupported *)
    intros stk h d msg cur rest cx res Hs Hc. simpl in Hc. discriminate.
  - (* list: nil *)
    intros stk h d cur rest cx res Hs Hc. unfold chk_list in Hc. simpl in Hc. inversion Hc; subst.
    split; [constructor | reflexivity].
  - (* list: cut *)
    intros stk h d es cur rest cx res Hs Hc. split; [constructor | exact I].
  - (* list: cons *)
    intros stk h d e es tr1 h1 d1 tr2 o _ IH1 _ IH2 cur rest cx res Hs Hc.
    unfold chk_list in Hc. simpl in Hc.
    destruct (chk_ev T exc entries cur (stk_excepted exc stk) cx (h, d) e) as [st' |] eqn:E; [| discriminate].
    destruct (IH1 cur rest cx st' Hs E) as [Hs1 Hout1]. simpl in Hout1. subst st'.
    destruct (IH2 cur rest cx res Hs Hc) as [Hs2 Hout2].
    split; [apply Forall_app; split; assumption | exact Hout2].
  - (* list: head exits *)
    intros stk h d e es tr k st _ IH cur rest cx res Hs Hc.
    unfold chk_list in Hc. simpl in Hc.
    destruct (chk_ev T exc entries cur (stk_excepted exc stk) cx (h, d) e) as [st' |] eqn:E; [| discriminate].
    destruct (IH cur rest cx st' Hs E) as [Hs1 Hout1].
    split; [exact Hs1 |]. destruct k; exact Hout1.
  - (* list: head cut *)
    intros stk h d e es tr _ IH cur rest cx res Hs Hc.
    unfold chk_list in Hc. simpl in Hc.
    destruct (chk_ev T exc entries cur (stk_excepted exc stk) cx (h, d) e) as [st' |] eqn:E; [| discriminate].
    destruct (IH cur rest cx st' Hs E) as [Hs1 _]. split; [exact Hs1 | exact I].
  - (* frame: done *)
    intros stk h body tr o h1 d1 tr2 h2 _ IH Ho Hrun cur rest Hs Hc.
    unfold chk_frame in Hc.
    destruct (chk_list T exc entries cur (stk_excepted exc stk) (mkCtx h None None) (h, []) body)
      as [[hr dr] |] eqn:E; [| discriminate].
    destruct (IH cur rest _ _ Hs E) as [Hs1 Hout1].
    assert (Hd : defers_ok h1 d1 h = true).
    { destruct Ho as [-> | ->]; simpl in Hout1.
      - inversion Hout1; subst. exact Hc.
      - exact Hout1. }
    destruct (run_defers_ok _ _ _ _ _ _ Hd Hrun) as [Hs2 Hh2].
    split; [apply Forall_app; split; assumption |].
    intros h2' Heq. inversion Heq; subst. reflexivity.
  - (* frame: cut *)
    intros stk h body tr _ IH cur rest Hs Hc.
    unfold chk_frame in Hc.
    destruct (chk_list T exc entries cur (stk_excepted exc stk) (mkCtx h None None) (h, []) body)
      as [[hr dr] |] eqn:E; [| discriminate].
    destruct (IH cur rest _ _ Hs E) as [Hs1 _].
    split; [exact Hs1 |]. intros h2 Heq. discriminate.
Qed.

End Soundness.

(* A checked entry: all observations of all its local traces are safe, and if
   it returns, it holds exactly what it held at entry. *)
Theorem check_ids_sound : forall cg exc entries,
  check_ids cg exc entries = true ->
  forall f h, In (f, h) entries ->
  exists body, nth_error cg f = Some body /\
  forall tr r, exec_frame cg [f] h body tr r ->
    Forall (safe_obs exc entries) tr /\ (forall h2, r = Some h2 -> h2 = h).
Proof.
  intros cg exc entries Hchk f h Hin. unfold check_ids in Hchk.
  destruct (compute_table cg exc entries) as [T |]; [| discriminate].
  apply andb_true_iff in Hchk. destruct Hchk as [Hval Hent].
  unfold entries_in_table in Hent. rewrite forallb_forall in Hent.
  specialize (Hent _ Hin). simpl in Hent. apply key_mem_In in Hent.
  destruct (table_entry cg T exc entries Hval _ _ _ Hent) as [body [Hnth Hfr]].
  exists body. split; [exact Hnth |].
  intros tr r Hex.
  destruct (exec_sound cg T exc entries Hval) as [_ [_ Hframe]].
  apply (Hframe _ _ _ _ _ Hex f []); [reflexivity | exact Hfr].
Qed.

Corollary check_ids_trace_safe : forall cg exc entries,
  check_ids cg exc entries = true ->
  forall f h tr, In (f, h) entries -> thread_trace cg f h tr ->
  Forall (safe_obs exc entries) tr.
Proof.
  intros cg exc entries Hchk f h tr Hin [body [r [Hnth Hex]]].
  destruct (check_ids_sound _ _ _ Hchk _ _ Hin) as [body' [Hnth' H]].
  rewrite Hnth in Hnth'. inversion Hnth'; subst. apply (H _ _ Hex).
Qed.

(* ------------------------------------------------------------------------- *)
(** * The four readings of [safe_obs] *)

Section Readings.
Variable exc : list (fid * fid).
Variable entries : list (fid * held).

Lemma safe_cb : forall o n, safe_obs exc entries o -> o_act o = ACb n -> holds (o_held o) MTerm = true.
Proof. intros o n H E. unfold safe_obs, safe_obsb in H. rewrite E in H. exact H. Qed.

Lemma safe_access : forall o g fld w,
  safe_obs exc entries o -> o_act o = AAccess g fld w -> holds (o_held o) g = true.
Proof. intros o g fld w H E. unfold safe_obs, safe_obsb in H. rewrite E in H. exact H. Qed.

Lemma safe_lock : forall o m,
  safe_obs exc entries o -> o_act o = ALock m ->
  holds (o_held o) m = false /\ (forall m', holds (o_held o) m' = true -> mrank m' < mrank m).
Proof.
  intros o m H E. unfold safe_obs, safe_obsb in H. rewrite E in H.
  split; [apply lock_ok_not_held; exact H | apply lock_ok_spec; exact H].
Qed.

Lemma safe_unlock : forall o m, safe_obs exc entries o -> o_act o = AUnlock m -> holds (o_held o) m = true.
Proof. intros o m H E. unfold safe_obs, safe_obsb in H. rewrite E in H. exact H. Qed.

Lemma safe_block : forall o w,
  safe_obs exc entries o -> o_act o = ABlock w ->
  holds (o_held o) MTerm = false \/ stk_excepted exc (o_stk o) = true.
Proof.
  intros o w H E. unfold safe_obs, safe_obsb in H. rewrite E in H.
  apply orb_true_iff in H. destruct H as [H | H]; [left | right; exact H].
  apply negb_true_iff. exact H.
Qed.

Lemma safe_not_bad : forall o msg, safe_obs exc entries o -> o_act o <> ABad msg.
Proof. intros o msg H E. unfold safe_obs, safe_obsb in H. rewrite E in H. discriminate. Qed.

Lemma safe_spawn : forall o f, safe_obs exc entries o -> o_act o = ASpawn f -> In (f, no_locks) entries.
Proof.
  intros o f H E. unfold safe_obs, safe_obsb in H. rewrite E in H. apply entry_mem_In. exact H.
Qed.

End Readings.

(* ------------------------------------------------------------------------- *)
(** * Local traces record the true held sets *)

Lemma after_app : forall tr1 tr2 h, after h (tr1 ++ tr2) = after (after h tr1) tr2.
Proof. intros. unfold after. apply fold_left_app. Qed.

Lemma consistent_app : forall tr1 tr2 h,
  consistent h tr1 -> consistent (after h tr1) tr2 -> consistent h (tr1 ++ tr2).
Proof.
  induction tr1 as [| o tr1 IH]; simpl; intros tr2 h H1 H2; [exact H2 |].
  destruct H1 as [Ho H1]. split; [exact Ho |]. apply IH; assumption.
Qed.

Lemma consistent_app_inv : forall tr1 tr2 h,
  consistent h (tr1 ++ tr2) -> consistent h tr1 /\ consistent (after h tr1) tr2.
Proof.
  induction tr1 as [| o tr1 IH]; simpl; intros tr2 h H; [split; [exact I | exact H] |].
  destruct H as [Ho H]. destruct (IH _ _ H) as [H1 H2]. repeat split; assumption.
Qed.

Lemma run_defers_consistent : forall stk d h tr h',
  run_defers stk h d = (tr, h') -> consistent h tr /\ after h tr = h'.
Proof.
  induction d as [| m d IH]; simpl; intros h tr h' H.
  - inversion H; subst. split; [exact I | reflexivity].
  - destruct (run_defers stk (rel h m) d) as [tr0 h0] eqn:E. inversion H; subst.
    destruct (IH _ _ _ E) as [Hc Ha]. simpl. repeat split; assumption.
Qed.

Definition out_held (h : held) (tr : list obs) (o : outcome) : Prop :=
  match o with
  | ONorm (h', _) | OExit _ (h', _) => after h tr = h'
  | OCut => True
  end.

Section Consistency.
Variable cg : callgraph.

Theorem exec_consistent :
  (forall stk h d e tr o, exec_ev cg stk h d e tr o -> consistent h tr /\ out_held h tr o) /\
  (forall stk h d es tr o, exec_list cg stk h d es tr o -> consistent h tr /\ out_held h tr o) /\
  (forall stk h body tr r, exec_frame cg stk h body tr r ->
     consistent h tr /\ (forall h2, r = Some h2 -> after h tr = h2)).
Proof.
  apply exec_mutind.
  - (* Lock *) intros; simpl; auto.
  - (* Unlock *) intros; simpl; auto.
  - (* Defer *) intros; simpl; auto.
  - (* WithLock *)
    intros stk h d m body tr h1 _ [Hc Ha]. specialize (Ha _ eq_refl).
    split.
    + simpl. split; [reflexivity |]. apply consistent_app; [exact Hc |]. rewrite Ha. simpl. auto.
    + simpl. change (after (acq h m) (tr ++ [mkObs stk h1 (AUnlock m)]) = rel h1 m).
      rewrite after_app, Ha. reflexivity.
  - (* WithLock cut *)
    intros stk h d m body tr _ [Hc _]. split; [simpl; split; [reflexivity | exact Hc] | exact I].
  - (* Call *)
    intros stk h d f body tr r _ _ [Hc Ha]. split; [exact Hc |].
    destruct r as [h2 |]; simpl; [apply Ha; reflexivity | exact I].
  - (* Call unknown *) intros; simpl; auto.
  - (* Iface ext *) intros; simpl; auto.
  - (* Iface *) intros stk h d meth impls f tr o _ _ IH. exact IH.
  - (* CallParam *) intros; simpl; auto.
  - (* Cb *) intros; simpl; auto.
  - (* Block *) intros; simpl; auto.
  - (* Access *) intros; simpl; auto.
  - (* Spawn *) intros; simpl; auto.
  - (* Branch l *) intros stk h d a b tr o _ IH. exact IH.
  - (* Branch r *) intros stk h d a b tr o _ IH. exact IH.
  - (* Loop exit *) intros; simpl; auto.
  - (* Loop iter *)
    intros stk h d body tr1 o1 h1 d1 tr2 o2 _ [Hc1 Ha1] Ho1 _ [Hc2 Ha2].
    assert (E : after h tr1 = h1) by (destruct Ho1 as [-> | ->]; exact Ha1).
    split.
    + apply consistent_app; [exact Hc1 | rewrite E; exact Hc2].
    + destruct o2 as [[h' d'] | k [h' d'] |]; simpl in *; try exact I;
        rewrite after_app, E; exact Ha2.
  - (* Loop brk *)
    intros stk h d body tr st _ [Hc Ha]. split; [exact Hc |]. destruct st; exact Ha.
  - (* Loop ret *)
    intros stk h d body tr st _ [Hc Ha]. split; [exact Hc |]. destruct st; exact Ha.
  - (* Loop cut *)
    intros stk h d body tr _ [Hc _]. split; [exact Hc | exact I].
  - (* Scope *)
    intros stk h d body tr o _ [Hc Ha]. split; [exact Hc |].
    destruct o as [[h' d'] | k [h' d'] |]; simpl in *; try exact I; try exact Ha.
    destruct k; exact Ha.
  - (* Return *) intros; simpl; auto.
  - (* Break *) intros; simpl; auto.
  - (* Continue *) intros; simpl; auto.
  - (* Panic *) intros; simpl; auto.
  - (* Unsupported *) intros; simpl; auto.
  - (* nil *) intros; simpl; auto.
  - (* cut *) intros; simpl; auto.
  - (* cons *)
    intros stk h d e es tr1 h1 d1 tr2 o _ [Hc1 Ha1] _ [Hc2 Ha2]. simpl in Ha1.
    split.
    + apply consistent_app; [exact Hc1 | rewrite Ha1; exact Hc2].
    + destruct o as [[h' d'] | k [h' d'] |]; simpl in *; try exact I;
        rewrite after_app, Ha1; exact Ha2.
  - (* stop exit *) intros stk h d e es tr k st _ IH. exact IH.
  - (* stop cut *) intros stk h d e es tr _ IH. exact IH.
  - (* frame done *)
    intros stk h body tr o h1 d1 tr2 h2 _ [Hc Ha] Ho Hrun.
    assert (E : after h tr = h1) by (destruct Ho as [-> | ->]; exact Ha).
    destruct (run_defers_consistent _ _ _ _ _ Hrun) as [Hc2 Ha2].
    split.
    + apply consistent_app; [exact Hc | rewrite E; exact Hc2].
    + intros h2' Heq. injection Heq as <-. rewrite after_app, E. exact Ha2.
  - (* frame cut *)
    intros stk h body tr _ [Hc _]. split; [exact Hc |]. intros; discriminate.
Qed.

Corollary thread_trace_consistent : forall f h tr, thread_trace cg f h tr -> consistent h tr.
Proof.
  intros f h tr [body [r [_ Hex]]].
  destruct exec_consistent as [_ [_ H]]. apply (H _ _ _ _ _ Hex).
Qed.

(* Every entry has the empty trace (nothing observed yet). *)
Lemma thread_trace_nil : forall f h body, nth_error cg f = Some body -> thread_trace cg f h [].
Proof.
  intros f h body Hnth. exists body, None. split; [exact Hnth |].
  apply XF_cut. apply XL_cut.
Qed.

End Consistency.

(* ------------------------------------------------------------------------- *)
(** * Interleavings: mutual exclusion and absence of wait cycles *)

Definition excl (s : gstate) : Prop :=
  forall i j m, i <> j ->
    holds (cur_held (s i)) m = true -> holds (cur_held (s j)) m = true -> False.

Lemma cur_held_step : forall th o rest,
  cur_held (mkThread (t_init th) (t_done th ++ [o]) rest) = step_held (cur_held th) (o_act o).
Proof. intros. unfold cur_held. simpl. rewrite after_app. reflexivity. Qed.

Lemma holds_step_held : forall h a m,
  holds (step_held h a) m = true -> holds h m = true \/ a = ALock m.
Proof.
  intros h a m H. destruct a; simpl in H; auto.
  - rewrite holds_acq in H. apply orb_true_iff in H. destruct H as [H | H]; [| auto].
    apply mutex_eqb_eq in H. subst. auto.
  - rewrite holds_rel in H. apply andb_true_iff in H. destruct H; auto.
Qed.

Lemma gstep_excl : forall s s', excl s -> gstep s s' -> excl s'.
Proof.
  intros s s' Hex [i0 [o [rest [Htodo [Hfree [Hi0 Hoth]]]]]] i j m Hij Hi Hj.
  destruct (Nat.eq_dec i i0) as [-> | Hi'].
  - rewrite Hi0, cur_held_step in Hi. rewrite (Hoth j) in Hj by congruence.
    apply holds_step_held in Hi. destruct Hi as [Hi | Ha].
    + exact (Hex i0 j m Hij Hi Hj).
    + rewrite (Hfree m Ha j) in Hj by congruence. discriminate.
  - rewrite (Hoth i Hi') in Hi.
    destruct (Nat.eq_dec j i0) as [-> | Hj'].
    + rewrite Hi0, cur_held_step in Hj. apply holds_step_held in Hj. destruct Hj as [Hj | Ha].
      * exact (Hex i i0 m Hij Hi Hj).
      * rewrite (Hfree m Ha i Hi') in Hi. discriminate.
    + rewrite (Hoth j Hj') in Hj. exact (Hex i j m Hij Hi Hj).
Qed.

Lemma ginit_excl : forall s, ginit s -> excl s.
Proof.
  intros s [Hd Hdis] i j m Hij Hi Hj. unfold cur_held in *. rewrite Hd in *. simpl in *.
  exact (Hdis i j m Hij Hi Hj).
Qed.

Lemma greach_excl : forall s0 s, ginit s0 -> greach s0 s -> excl s.
Proof.
  intros s0 s Hinit Hr. induction Hr; [apply ginit_excl; exact Hinit |].
  eapply gstep_excl; eassumption.
Qed.

Lemma gstep_threads_ok : forall exc entries s s',
  threads_ok exc entries s -> gstep s s' -> threads_ok exc entries s'.
Proof.
  intros exc entries s s' Hok [i0 [o [rest [Htodo [_ [Hi0 Hoth]]]]]] i.
  destruct (Nat.eq_dec i i0) as [-> | Hi'].
  - rewrite Hi0. simpl. rewrite <- app_assoc. simpl. rewrite <- Htodo. apply Hok.
  - rewrite (Hoth i Hi'). apply Hok.
Qed.

Lemma greach_threads_ok : forall exc entries s0 s,
  threads_ok exc entries s0 -> greach s0 s -> threads_ok exc entries s.
Proof.
  intros exc entries s0 s H0 Hr. induction Hr; [exact H0 |].
  eapply gstep_threads_ok; eassumption.
Qed.

(* The next observation of a thread records its current held set and is safe. *)
Lemma next_obs : forall exc entries s i o rest,
  threads_ok exc entries s -> t_todo (s i) = o :: rest ->
  o_held o = cur_held (s i) /\ safe_obs exc entries o.
Proof.
  intros exc entries s i o rest Hok Htodo. destruct (Hok i) as [Hc Hs].
  rewrite Htodo in Hc, Hs. split.
  - apply consistent_app_inv in Hc. destruct Hc as [_ Hc]. simpl in Hc. destruct Hc as [Hc _]. exact Hc.
  - apply Forall_app in Hs. destruct Hs as [_ Hs]. inversion Hs; assumption.
Qed.

(* (ii) A thread that is about to access state guarded by [g] holds [g], and no
   other thread holds [g] at that moment. *)
Theorem access_exclusive : forall exc entries s0 s i o rest g fld w,
  ginit s0 -> threads_ok exc entries s0 -> greach s0 s ->
  t_todo (s i) = o :: rest -> o_act o = AAccess g fld w ->
  holds (cur_held (s i)) g = true /\ forall j, j <> i -> holds (cur_held (s j)) g = false.
Proof.
  intros exc entries s0 s i o rest g fld w Hinit Hok Hr Htodo Hact.
  pose proof (greach_threads_ok _ _ _ _ Hok Hr) as Hok'.
  destruct (next_obs _ _ _ _ _ _ Hok' Htodo) as [Hh Hs].
  pose proof (safe_access _ _ _ _ _ _ Hs Hact) as Hg. rewrite Hh in Hg.
  split; [exact Hg |]. intros j Hj.
  destruct (holds (cur_held (s j)) g) eqn:E; [| reflexivity].
  exfalso. eapply (greach_excl _ _ Hinit Hr i j g); eauto.
Qed.

(* Two different threads are never both at accesses guarded by the same mutex. *)
Corollary mutual_exclusion : forall exc entries s0 s i j oi resti oj restj g f1 w1 f2 w2,
  ginit s0 -> threads_ok exc entries s0 -> greach s0 s -> i <> j ->
  t_todo (s i) = oi :: resti -> o_act oi = AAccess g f1 w1 ->
  t_todo (s j) = oj :: restj -> o_act oj = AAccess g f2 w2 ->
  False.
Proof.
  intros exc entries s0 s i j oi resti oj restj g f1 w1 f2 w2 Hinit Hok Hr Hij Hti Hai Htj Haj.
  destruct (access_exclusive _ _ _ _ _ _ _ _ _ _ Hinit Hok Hr Hti Hai) as [_ Hno].
  destruct (access_exclusive _ _ _ _ _ _ _ _ _ _ Hinit Hok Hr Htj Haj) as [Hj _].
  rewrite (Hno j) in Hj by congruence. discriminate.
Qed.

(* A callback runs with MTerm held by the calling thread and by nobody else. *)
Theorem callback_exclusive : forall exc entries s0 s i o rest n,
  ginit s0 -> threads_ok exc entries s0 -> greach s0 s ->
  t_todo (s i) = o :: rest -> o_act o = ACb n ->
  holds (cur_held (s i)) MTerm = true /\ forall j, j <> i -> holds (cur_held (s j)) MTerm = false.
Proof.
  intros exc entries s0 s i o rest n Hinit Hok Hr Htodo Hact.
  pose proof (greach_threads_ok _ _ _ _ Hok Hr) as Hok'.
  destruct (next_obs _ _ _ _ _ _ Hok' Htodo) as [Hh Hs].
  pose proof (safe_cb _ _ _ _ Hs Hact) as Hg. rewrite Hh in Hg.
  split; [exact Hg |]. intros j Hj.
  destruct (holds (cur_held (s j)) MTerm) eqn:E; [| reflexivity].
  exfalso. eapply (greach_excl _ _ Hinit Hr i j MTerm); eauto.
Qed.

(* (iii) Lock order: no cycle of threads each waiting for a mutex held by the next. *)
Definition wants (s : gstate) (i : nat) (m : mutex) : Prop :=
  exists o rest, t_todo (s i) = o :: rest /\ o_act o = ALock m.

Lemma wants_fun : forall s i m m', wants s i m -> wants s i m' -> m = m'.
Proof.
  intros s i m m' [o [r [H1 H2]]] [o' [r' [H1' H2']]]. rewrite H1 in H1'. inversion H1'; subst.
  congruence.
Qed.

Lemma waits_rank : forall exc entries s i j mj,
  threads_ok exc entries s -> waits_for s i j -> wants s j mj ->
  forall mi, wants s i mi -> mrank mi < mrank mj.
Proof.
  intros exc entries s i j mj Hok [o [rest [m [Htodo [Hact Hheld]]]]] [oj [restj [Htj Haj]]] mi Hwi.
  assert (mi = m) by (eapply wants_fun; [exact Hwi | exists o, rest; auto]). subst mi.
  destruct (next_obs _ _ _ _ _ _ Hok Htj) as [Hh Hs].
  destruct (safe_lock _ _ _ _ Hs Haj) as [_ Hord]. apply Hord. rewrite Hh. exact Hheld.
Qed.

Lemma wait_chain_wants : forall s i k, wait_chain s i k -> exists m, wants s i m.
Proof.
  intros s i k H. destruct H as [i j [o [rest [m [H1 [H2 _]]]]] | i j k [o [rest [m [H1 [H2 _]]]]] _];
    exists m, o, rest; auto.
Qed.

Lemma wait_chain_rank : forall exc entries s i k,
  threads_ok exc entries s -> wait_chain s i k ->
  forall mi mk, wants s i mi -> wants s k mk -> mrank mi < mrank mk.
Proof.
  intros exc entries s i k Hok H. induction H as [i j Hw | i j k Hw Hc IH]; intros mi mk Hi Hk.
  - eapply waits_rank; eassumption.
  - destruct (wait_chain_wants _ _ _ Hc) as [mj Hj].
    pose proof (waits_rank _ _ _ _ _ _ Hok Hw Hj _ Hi). pose proof (IH _ _ Hj Hk). lia.
Qed.

Theorem no_wait_cycle : forall exc entries s0 s i,
  threads_ok exc entries s0 -> greach s0 s -> ~ wait_chain s i i.
Proof.
  intros exc entries s0 s i Hok Hr Hc.
  pose proof (greach_threads_ok _ _ _ _ Hok Hr) as Hok'.
  destruct (wait_chain_wants _ _ _ Hc) as [m Hm].
  pose proof (wait_chain_rank _ _ _ _ _ Hok' Hc _ _ Hm Hm). lia.
Qed.

(* In particular a thread never waits for itself. *)
Corollary no_self_deadlock : forall exc entries s0 s i,
  threads_ok exc entries s0 -> greach s0 s -> ~ waits_for s i i.
Proof.
  intros exc entries s0 s i Hok Hr Hw. eapply no_wait_cycle; [exact Hok | exact Hr |].
  apply WC_one. exact Hw.
Qed.

(* (iv) A thread parked at a blocking read does not hold MTerm unless its stack
   is excepted; so any other thread that wants MTerm is not waiting for it. *)
Theorem block_releases_lock : forall exc entries s0 s i o rest w,
  threads_ok exc entries s0 -> greach s0 s ->
  t_todo (s i) = o :: rest -> o_act o = ABlock w ->
  holds (cur_held (s i)) MTerm = false \/ stk_excepted exc (o_stk o) = true.
Proof.
  intros exc entries s0 s i o rest w Hok Hr Htodo Hact.
  pose proof (greach_threads_ok _ _ _ _ Hok Hr) as Hok'.
  destruct (next_obs _ _ _ _ _ _ Hok' Htodo) as [Hh Hs].
  rewrite <- Hh. eapply safe_block; eassumption.
Qed.

(* ------------------------------------------------------------------------- *)
(** * Threads that run checked entries *)

(* Every thread identifier runs (a prefix of a local trace of) a checked entry,
   starting with that entry's initial held set; nothing has been executed. *)
Definition runs_entries (cg : callgraph) (entries : list (fid * held)) (s : gstate) : Prop :=
  forall i, t_done (s i) = [] /\
            exists f, In (f, t_init (s i)) entries /\ thread_trace cg f (t_init (s i)) (t_todo (s i)).

Theorem checked_threads_ok : forall cg exc entries s,
  check_ids cg exc entries = true -> runs_entries cg entries s -> threads_ok exc entries s.
Proof.
  intros cg exc entries s Hchk Hrun i. destruct (Hrun i) as [Hd [f [Hin Htr]]].
  rewrite Hd. simpl. split.
  - eapply thread_trace_consistent; exact Htr.
  - eapply check_ids_trace_safe; eassumption.
Qed.

(* ------------------------------------------------------------------------- *)
(** * The checker on names *)

Lemma index_of_nth : forall s l n k, index_of s l n = Some k -> n <= k /\ nth_error l (k - n) = Some s.
Proof.
  induction l as [| x l IH]; simpl; intros n k H; [discriminate |].
  destruct (String.eqb s x) eqn:E.
  - inversion H; subst. apply String.eqb_eq in E. subst. rewrite Nat.sub_diag. auto.
  - apply IH in H. destruct H as [Hle Hn]. split; [lia |].
    replace (k - n) with (S (k - S n)) by lia. exact Hn.
Qed.

Lemma resolve_nth : forall names s f, resolve names s = Some f -> nth_error names f = Some s.
Proof.
  intros names s f H. unfold resolve in H. apply index_of_nth in H. destruct H as [_ H].
  rewrite Nat.sub_0_r in H. exact H.
Qed.

Lemma resolve_entries_In : forall names spec entries s h,
  resolve_entries names spec = Some entries -> In (s, h) spec ->
  exists f, resolve names s = Some f /\ In (f, h) entries.
Proof.
  induction spec as [| [s0 h0] spec IH]; simpl; intros entries s h Hr Hin; [contradiction |].
  destruct (resolve names s0) as [f0 |] eqn:E0; [| discriminate].
  destruct (resolve_entries names spec) as [l |] eqn:El; [| discriminate].
  inversion Hr; subst. destruct Hin as [Heq | Hin].
  - inversion Heq; subst. exists f0. simpl. auto.
  - destruct (IH _ _ _ eq_refl Hin) as [f [Hf Hl]]. exists f. simpl. auto.
Qed.

(* [checker_sound]: what [check p exc_spec entry_spec = true] gives for every
   named entry. *)
Theorem checker_sound : forall p exc_spec entry_spec,
  check p exc_spec entry_spec = true ->
  exists exc entries,
    resolve_pairs (p_names p) exc_spec = Some exc /\
    resolve_entries (p_names p) entry_spec = Some entries /\
    check_ids (p_cg p) exc entries = true /\
    forall name h, In (name, h) entry_spec ->
      exists f body,
        resolve (p_names p) name = Some f /\ In (f, h) entries /\ nth_error (p_cg p) f = Some body /\
        forall tr r, exec_frame (p_cg p) [f] h body tr r ->
          (* every observation is safe: (i) callbacks under MTerm, (ii) guarded
             accesses under their mutex, (iii) acquisitions in order and never
             re-entrant, unlocks of held mutexes only, (iv) no blocking read
             under MTerm outside the excepted call edges, no unsupported shape
             reached, spawned functions are checked entries *)
          Forall (safe_obs exc entries) tr /\
          (* the trace records the true held sets *)
          consistent h tr /\
          (* and if the entry returns it holds what it held at entry *)
          (forall h2, r = Some h2 -> h2 = h).
Proof.
  intros p exc_spec entry_spec H. unfold check in H.
  destruct (resolve_pairs (p_names p) exc_spec) as [exc |] eqn:Ex; [| discriminate].
  destruct (resolve_entries (p_names p) entry_spec) as [entries |] eqn:Een; [| discriminate].
  exists exc, entries. repeat split; try assumption.
  intros name h Hin.
  destruct (resolve_entries_In _ _ _ _ _ Een Hin) as [f [Hf Hfin]].
  destruct (check_ids_sound _ _ _ H _ _ Hfin) as [body [Hnth Hall]].
  exists f, body. repeat split; try assumption.
  - apply (Hall _ _ H0).
  - destruct (exec_consistent (p_cg p)) as [_ [_ Hc]]. apply (Hc _ _ _ _ _ H0).
  - apply (Hall _ _ H0).
Qed.

(* ------------------------------------------------------------------------- *)
(** * Readings of [checker_sound] per observation, and the interleaving
      theorems for threads that run checked entries *)

Section PerObservation.
Variables (p : program) (exc_spec : list (string * string)) (entry_spec : list (string * held)).
Hypothesis Hcheck : check p exc_spec entry_spec = true.

Lemma checked_obs : forall name h f body tr r o,
  In (name, h) entry_spec -> resolve (p_names p) name = Some f -> nth_error (p_cg p) f = Some body ->
  exec_frame (p_cg p) [f] h body tr r -> In o tr ->
  exists exc entries,
    resolve_pairs (p_names p) exc_spec = Some exc /\
    resolve_entries (p_names p) entry_spec = Some entries /\
    safe_obs exc entries o.
Proof.
  intros name h f body tr r o Hin Hres Hnth Hex Ho.
  destruct (checker_sound _ _ _ Hcheck) as [exc [entries [Hx [He [_ Hall]]]]].
  destruct (Hall _ _ Hin) as [f' [body' [Hres' [_ [Hnth' Htr]]]]].
  rewrite Hres in Hres'. inversion Hres'; subst f'.
  rewrite Hnth in Hnth'. inversion Hnth'; subst body'.
  destruct (Htr _ _ Hex) as [Hsafe _].
  exists exc, entries. repeat split; try assumption.
  rewrite Forall_forall in Hsafe. apply Hsafe. exact Ho.
Qed.

(* (i) *)
Theorem callbacks_under_lock : forall name h f body tr r o n,
  In (name, h) entry_spec -> resolve (p_names p) name = Some f -> nth_error (p_cg p) f = Some body ->
  exec_frame (p_cg p) [f] h body tr r -> In o tr -> o_act o = ACb n ->
  holds (o_held o) MTerm = true.
Proof.
  intros. destruct (checked_obs _ _ _ _ _ _ _ H H0 H1 H2 H3) as [exc [entries [_ [_ Hs]]]].
  eapply safe_cb; eassumption.
Qed.

(* (ii) *)
Theorem accesses_guarded : forall name h f body tr r o g fld w,
  In (name, h) entry_spec -> resolve (p_names p) name = Some f -> nth_error (p_cg p) f = Some body ->
  exec_frame (p_cg p) [f] h body tr r -> In o tr -> o_act o = AAccess g fld w ->
  holds (o_held o) g = true.
Proof.
  intros. destruct (checked_obs _ _ _ _ _ _ _ H H0 H1 H2 H3) as [exc [entries [_ [_ Hs]]]].
  eapply safe_access; eassumption.
Qed.

(* (iii) *)
Theorem acquisitions_ordered : forall name h f body tr r o m,
  In (name, h) entry_spec -> resolve (p_names p) name = Some f -> nth_error (p_cg p) f = Some body ->
  exec_frame (p_cg p) [f] h body tr r -> In o tr -> o_act o = ALock m ->
  holds (o_held o) m = false /\ (forall m', holds (o_held o) m' = true -> mrank m' < mrank m).
Proof.
  intros. destruct (checked_obs _ _ _ _ _ _ _ H H0 H1 H2 H3) as [exc [entries [_ [_ Hs]]]].
  eapply safe_lock; eassumption.
Qed.

(* (iv) *)
Theorem no_block_under_lock : forall name h f body tr r o w,
  In (name, h) entry_spec -> resolve (p_names p) name = Some f -> nth_error (p_cg p) f = Some body ->
  exec_frame (p_cg p) [f] h body tr r -> In o tr -> o_act o = ABlock w ->
  exists exc, resolve_pairs (p_names p) exc_spec = Some exc /\
              (holds (o_held o) MTerm = false \/ stk_excepted exc (o_stk o) = true).
Proof.
  intros. destruct (checked_obs _ _ _ _ _ _ _ H H0 H1 H2 H3) as [exc [entries [Hx [_ Hs]]]].
  exists exc. split; [exact Hx |]. eapply safe_block; eassumption.
Qed.

(* no unsupported shape and no unknown function is reachable *)
Theorem no_unsupported_reached : forall name h f body tr r o msg,
  In (name, h) entry_spec -> resolve (p_names p) name = Some f -> nth_error (p_cg p) f = Some body ->
  exec_frame (p_cg p) [f] h body tr r -> In o tr -> o_act o <> ABad msg.
Proof.
  intros. destruct (checked_obs _ _ _ _ _ _ _ H H0 H1 H2 H3) as [exc [entries [_ [_ Hs]]]].
  eapply safe_not_bad; eassumption.
Qed.

(* (v) entries are balanced *)
Theorem entries_balanced : forall name h f body tr h2,
  In (name, h) entry_spec -> resolve (p_names p) name = Some f -> nth_error (p_cg p) f = Some body ->
  exec_frame (p_cg p) [f] h body tr (Some h2) -> h2 = h.
Proof.
  intros name h f body tr h2 Hin Hres Hnth Hex.
  destruct (checker_sound _ _ _ Hcheck) as [exc [entries [Hx [He [_ Hall]]]]].
  destruct (Hall _ _ Hin) as [f' [body' [Hres' [_ [Hnth' Htr]]]]].
  rewrite Hres in Hres'. inversion Hres'; subst f'.
  rewrite Hnth in Hnth'. inversion Hnth'; subst body'.
  destruct (Htr _ _ Hex) as [_ [_ Hb]]. apply Hb. reflexivity.
Qed.

End PerObservation.

Section Interleaved.
Variables (cg : callgraph) (exc : list (fid * fid)) (entries : list (fid * held)).
Hypothesis Hcheck : check_ids cg exc entries = true.
Variables s0 s : gstate.
Hypothesis Hinit : ginit s0.
Hypothesis Hruns : runs_entries cg entries s0.
Hypothesis Hreach : greach s0 s.

Theorem interleaved_access_exclusive : forall i o rest g fld w,
  t_todo (s i) = o :: rest -> o_act o = AAccess g fld w ->
  holds (cur_held (s i)) g = true /\ forall j, j <> i -> holds (cur_held (s j)) g = false.
Proof.
  intros. eapply access_exclusive; eauto. eapply checked_threads_ok; eassumption.
Qed.

Theorem interleaved_mutual_exclusion : forall i j oi resti oj restj g f1 w1 f2 w2,
  i <> j ->
  t_todo (s i) = oi :: resti -> o_act oi = AAccess g f1 w1 ->
  t_todo (s j) = oj :: restj -> o_act oj = AAccess g f2 w2 ->
  False.
Proof.
  intros. eapply mutual_exclusion with (s0 := s0) (s := s) (i := i) (j := j); eauto.
  eapply checked_threads_ok; eassumption.
Qed.

Theorem interleaved_callback_exclusive : forall i o rest n,
  t_todo (s i) = o :: rest -> o_act o = ACb n ->
  holds (cur_held (s i)) MTerm = true /\ forall j, j <> i -> holds (cur_held (s j)) MTerm = false.
Proof.
  intros. eapply callback_exclusive; eauto. eapply checked_threads_ok; eassumption.
Qed.

Theorem interleaved_no_wait_cycle : forall i, ~ wait_chain s i i.
Proof.
  intros. eapply no_wait_cycle; eauto. eapply checked_threads_ok; eassumption.
Qed.

Theorem interleaved_block_releases_lock : forall i o rest w,
  t_todo (s i) = o :: rest -> o_act o = ABlock w ->
  holds (cur_held (s i)) MTerm = false \/ stk_excepted exc (o_stk o) = true.
Proof.
  intros. eapply block_releases_lock; eauto. eapply checked_threads_ok; eassumption.
Qed.

End Interleaved.
