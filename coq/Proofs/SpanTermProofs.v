(* The terminal over span screens simulates the terminal over cell screens:
   token by token for everything but text, run by run for text, then along
   operation histories. *)
From Coq Require Import List ZArith Bool Lia.
From Termemu Require Import Base Style Screen Kbd Parser Term BaseLemmas ScreenInv TermInv ParserProofs HistProofs SegProofs
  Span SpanText SpanRows SpanProofs SpanRefine SpanScreen SpanTail TrigMono SpanScreenProofs RunWrite SpanRunProofs.
Import ListNotations.
Open Scope Z_scope.

Section WithOracle.
  Variable wc : Z -> Z.
  Hypothesis Hmb : wc_multibyte wc.
  Notation abs := (abs_sscreen wc).
  Notation abst := (abs_sterm wc).
  Notation SInv := (SInv wc).
  Notation Sim := (Sim wc).
  Notation SimU := (SimU wc).

  (* ---------- the terminal invariant ---------- *)
  Definition STInv (t : sterm) : Prop :=
    SInv (smain t) /\ SInv (salt t) /\ zW (smain t) = zW (salt t) /\ zH (smain t) = zH (salt t).

  Lemma STInv_TInv t : STInv t -> TInv (abst t).
  Proof. intros (A & B & C & D). constructor; cbn [tmain talt abs_sterm sW sH abs_sscreen]; [apply A|apply B|exact C|exact D]. Qed.

  Lemma SInv_set_evs l s : SInv s -> SInv (z_set_evs l s).
  Proof. intros [I L]. split; [|exact L]. change (Inv (set_evs l (abs s))). apply Inv_set_evs, I. Qed.

  Lemma abs_active t : active (abst t) = abs (s_active t).
  Proof. unfold active, s_active. cbn [onalt tmain talt abs_sterm]. destruct (sonalt t); reflexivity. Qed.

  (* ---------- a screen operation on the active buffer ---------- *)
  Lemma on_screen_sim sf f t : Sim sf f -> Pres f -> STInv t -> tz (on_screen f (abst t)) ->
    STInv (s_on_screen sf t) /\ abst (s_on_screen sf t) = on_screen f (abst t).
  Proof.
    intros Hsim Hpres (Im & Ia & EW & EH) Htz.
    unfold s_on_screen, on_screen, s_active, active, s_set_active, set_active in *. cbn [onalt tmain talt abs_sterm] in *.
    destruct (sonalt t) eqn:Eo; cbn [smain salt sonalt svflags svints svstrs skbm skba sout slog tmain talt] in *.
    - set (s0 := z_set_evs [] (salt t)) in *.
      change (set_evs [] (abs (salt t))) with (abs s0) in *.
      assert (I0 : SInv s0) by (apply SInv_set_evs, Ia).
      destruct Htz as [_ Htz]. cbn [talt] in Htz. rewrite trig_set_evs in Htz.
      destruct (Hsim s0 I0 Htz) as (I1 & E1). destruct (Hpres (abs s0) (proj1 I0)) as (_ & W1 & H1).
      rewrite <- E1 in W1, H1. cbn [sW sH abs_sscreen] in W1, H1.
      split.
      + split; [exact Im|]. split; [apply SInv_set_evs, I1|].
        cbn [smain salt]. change (zW (z_set_evs [] (sf s0))) with (zW (sf s0)). change (zH (z_set_evs [] (sf s0))) with (zH (sf s0)).
        change (zW s0) with (zW (salt t)) in W1. change (zH s0) with (zH (salt t)) in H1. split; congruence.
      + unfold abs_sterm. cbn [smain salt sonalt svflags svints svstrs skbm skba sout slog].
        change (abs (z_set_evs [] (sf s0))) with (set_evs [] (abs (sf s0))). rewrite E1.
        change (zevs (sf s0)) with (evs (abs (sf s0))). rewrite E1. reflexivity.
    - set (s0 := z_set_evs [] (smain t)) in *.
      change (set_evs [] (abs (smain t))) with (abs s0) in *.
      assert (I0 : SInv s0) by (apply SInv_set_evs, Im).
      destruct Htz as [Htz _]. cbn [tmain] in Htz. rewrite trig_set_evs in Htz.
      destruct (Hsim s0 I0 Htz) as (I1 & E1). destruct (Hpres (abs s0) (proj1 I0)) as (_ & W1 & H1).
      rewrite <- E1 in W1, H1. cbn [sW sH abs_sscreen] in W1, H1.
      split.
      + split; [apply SInv_set_evs, I1|]. split; [exact Ia|].
        cbn [smain salt]. change (zW (z_set_evs [] (sf s0))) with (zW (sf s0)). change (zH (z_set_evs [] (sf s0))) with (zH (sf s0)).
        change (zW s0) with (zW (smain t)) in W1. change (zH s0) with (zH (smain t)) in H1. split; congruence.
      + unfold abs_sterm. cbn [smain salt sonalt svflags svints svstrs skbm skba sout slog].
        change (abs (z_set_evs [] (sf s0))) with (set_evs [] (abs (sf s0))). rewrite E1.
        change (zevs (sf s0)) with (evs (abs (sf s0))). rewrite E1. reflexivity.
  Qed.

  (* what one token does on both sides *)
  Definition TokSim (sf : sterm -> sterm) (f : term -> term) : Prop :=
    forall t, STInv t -> tz (f (abst t)) -> STInv (sf t) /\ abst (sf t) = f (abst t).

  Lemma TokSim_id : TokSim (fun t => t) (fun t => t).
  Proof. intros t Ht _. auto. Qed.
  Lemma TokSim_on_screen sf f : Sim sf f -> Pres f -> TokSim (s_on_screen sf) (on_screen f).
  Proof. intros A B t Ht Hz. apply on_screen_sim; assumption. Qed.

  Ltac stinv_same :=
    let t := fresh "t" in let Ht := fresh "Ht" in
    intros t Ht _; split; [destruct Ht as (A & B & C & D); repeat split; cbn [smain salt]; try apply A; try apply B; assumption|reflexivity].

  Lemma TokSim_log_ev e : TokSim (s_log_ev e) (log_ev e).
  Proof. stinv_same. Qed.
  Lemma TokSim_reply b : TokSim (s_reply b) (reply b).
  Proof. stinv_same. Qed.
  Lemma TokSim_set_vflag i v : TokSim (s_set_vflag i v) (set_vflag i v).
  Proof. stinv_same. Qed.
  Lemma TokSim_set_vint i v : TokSim (s_set_vint i v) (set_vint i v).
  Proof. stinv_same. Qed.
  Lemma TokSim_set_vstr i v : TokSim (s_set_vstr i v) (set_vstr i v).
  Proof. stinv_same. Qed.
  Lemma TokSim_on_kbd f : TokSim (s_on_kbd f) (on_kbd f).
  Proof.
    intros t Ht _. unfold s_on_kbd, on_kbd. cbn [onalt abs_sterm]. destruct (sonalt t); (split; [exact Ht|reflexivity]).
  Qed.
  Lemma TokSim_switch : TokSim s_switch_screen switch_screen.
  Proof.
    intros t Ht _. split; [exact Ht|]. unfold s_switch_screen, switch_screen, s_active, active. cbn [onalt tmain talt abs_sterm sonalt smain salt].
    destruct (negb (sonalt t)); reflexivity.
  Qed.

  (* ---------- leaves of the dispatch: compositions of primitives under state-dependent ifs ---------- *)
  Ltac sim_leaf Hs Ht :=
    first
    [ exact (conj Hs eq_refl)
    | apply (SimU_move_cursor wc); exact Hs
    | apply (SimU_set_cursor_pos wc); exact Hs
    | apply (SimU_set_style wc); exact Hs
    | apply (SimU_save_cursor wc); exact Hs
    | apply (SimU_restore_cursor wc); exact Hs
    | apply (SimU_set_awrap wc); exact Hs
    | apply (SimU_set_scroll_margins wc); exact Hs
    | apply (SimU_scroll wc); exact Hs
    | apply (Sim_erase_region wc Hmb); [exact Hs|exact Ht]
    | apply (Sim_delete_chars wc Hmb); [exact Hs|exact Ht] ].
  Ltac sim_solve :=
    let s := fresh "s" in let Hs := fresh "Hs" in let Ht := fresh "Ht" in
    intros s Hs Ht; cbv beta zeta in Ht |- *;
    cbn [cx cy sW sH top bot sty awrap abs_sscreen] in Ht |- *;
    repeat match goal with |- context [if ?c then _ else _] => destruct c end;
    sim_leaf Hs Ht.

  Lemma Sim_then sf f sg g s :
    Sim sf f -> Sim sg g -> TrigMono g -> SInv s -> trig (g (f (abs s))) = 0 ->
    SInv (sg (sf s)) /\ abs (sg (sf s)) = g (f (abs s)).
  Proof. intros A B C Hs Ht. exact (Sim_comp wc sf f sg g A B C s Hs Ht). Qed.

  Lemma Sim_lf : Sim (fun s => s_move_cursor 0 1 true true (s_set_cursor_pos 0 (zcy s) s))
                     (fun s => move_cursor 0 1 true true (set_cursor_pos 0 (cy s) s)).
  Proof.
    intros s Hs Ht. cbv beta in *. cbn [cy abs_sscreen] in *.
    apply (Sim_then (s_set_cursor_pos 0 (zcy s)) (set_cursor_pos 0 (zcy s)) (s_move_cursor 0 1 true true) (move_cursor 0 1 true true));
      auto using (Sim_set_cursor_pos wc), (Sim_move_cursor wc). apply TrigMono_eq, trig_move_cursor.
  Qed.
  Lemma Sim_ed0 : Sim (fun s => let s1 := s_erase_region wc (zcx s) (zcy s) (zW s) (zcy s + 1) s in
                                 if zcy s + 1 <? zH s then s_erase_region wc 0 (zcy s + 1) (zW s) (zH s) s1 else s1)
                      (fun s => let s1 := erase_region (cx s) (cy s) (sW s) (cy s + 1) s in
                                 if cy s + 1 <? sH s then erase_region 0 (cy s + 1) (sW s) (sH s) s1 else s1).
  Proof.
    intros s Hs Ht. cbv beta zeta in *. cbn [cx cy sW sH abs_sscreen] in *.
    destruct (zcy s + 1 <? zH s).
    - apply (Sim_then (s_erase_region wc (zcx s) (zcy s) (zW s) (zcy s + 1)) (erase_region (zcx s) (zcy s) (zW s) (zcy s + 1))
               (s_erase_region wc 0 (zcy s + 1) (zW s) (zH s)) (erase_region 0 (zcy s + 1) (zW s) (zH s)));
        auto using (Sim_erase_region wc Hmb), TrigMono_erase_region.
    - apply (Sim_erase_region wc Hmb); assumption.
  Qed.
  Lemma Sim_ed1 : Sim (fun s => let s1 := if 0 <? zcy s then s_erase_region wc 0 0 (zW s) (zcy s) s else s in
                                 s_erase_region wc 0 (zcy s) (zcx s + 1) (zcy s + 1) s1)
                      (fun s => let s1 := if 0 <? cy s then erase_region 0 0 (sW s) (cy s) s else s in
                                 erase_region 0 (cy s) (cx s + 1) (cy s + 1) s1).
  Proof.
    intros s Hs Ht. cbv beta zeta in *. cbn [cx cy sW sH abs_sscreen] in *.
    destruct (0 <? zcy s).
    - apply (Sim_then (s_erase_region wc 0 0 (zW s) (zcy s)) (erase_region 0 0 (zW s) (zcy s))
               (s_erase_region wc 0 (zcy s) (zcx s + 1) (zcy s + 1)) (erase_region 0 (zcy s) (zcx s + 1) (zcy s + 1)));
        auto using (Sim_erase_region wc Hmb), TrigMono_erase_region.
    - apply (Sim_erase_region wc Hmb); assumption.
  Qed.
  Lemma Sim_ed2 : Sim (fun s => s_set_cursor_pos 0 0 (s_erase_region wc 0 0 (zW s) (zH s) s))
                      (fun s => set_cursor_pos 0 0 (erase_region 0 0 (sW s) (sH s) s)).
  Proof.
    intros s Hs Ht. cbv beta in *. cbn [sW sH abs_sscreen] in *.
    apply (Sim_then (s_erase_region wc 0 0 (zW s) (zH s)) (erase_region 0 0 (zW s) (zH s)) (s_set_cursor_pos 0 0) (set_cursor_pos 0 0));
      auto using (Sim_erase_region wc Hmb), (Sim_set_cursor_pos wc). apply TrigMono_eq, trig_set_cursor_pos.
  Qed.

  (* ---------- the dispatch ---------- *)
  Ltac tok_leaf :=
    first
    [ apply TokSim_id | apply TokSim_log_ev | apply TokSim_reply | apply TokSim_set_vflag | apply TokSim_set_vint
    | apply TokSim_set_vstr | apply TokSim_on_kbd | apply TokSim_switch
    | apply TokSim_on_screen; [first [apply Sim_lf | apply Sim_ed0 | apply Sim_ed1 | apply Sim_ed2 | sim_solve]|pres_solve] ].
  Ltac tok_ifs := repeat match goal with |- TokSim (fun _ => if ?c then _ else _) _ => destruct c end.

  Ltac disp_leaf t Ht Hz :=
    first
    [ exact (conj Ht eq_refl)
    | apply TokSim_log_ev; [exact Ht|exact Hz] | apply TokSim_reply; [exact Ht|exact Hz]
    | apply TokSim_set_vflag; [exact Ht|exact Hz] | apply TokSim_set_vint; [exact Ht|exact Hz]
    | apply TokSim_set_vstr; [exact Ht|exact Hz] | apply TokSim_on_kbd; [exact Ht|exact Hz]
    | apply TokSim_switch; [exact Ht|exact Hz]
    | apply on_screen_sim;
        [first [apply Sim_lf | apply Sim_ed0 | apply Sim_ed1 | apply Sim_ed2 | sim_solve]|pres_solve|exact Ht|exact Hz] ].
  Ltac disp t Ht Hz :=
    revert Hz; repeat match goal with |- context [if ?c then _ else _] => destruct c end; intros Hz; disp_leaf t Ht Hz.

  Lemma TokSim_exec_c0 b : TokSim (s_exec_c0 b) (exec_c0 b).
  Proof. intros t Ht Hz. unfold s_exec_c0, exec_c0 in *. disp t Ht Hz. Qed.
  Lemma TokSim_exec_esc b : TokSim (s_exec_esc b) (exec_esc b).
  Proof. intros t Ht Hz. unfold s_exec_esc, exec_esc in *. disp t Ht Hz. Qed.
  Lemma TokSim_dec_mode v p : TokSim (s_dec_mode v p) (dec_mode v p).
  Proof. intros t Ht Hz. unfold s_dec_mode, dec_mode in *. cbn [onalt abs_sterm] in *. disp t Ht Hz. Qed.
  Lemma TokSim_dec_modes v ps : TokSim (fun t => fold_left (fun t p => s_dec_mode v p t) ps t)
                                        (fun t => fold_left (fun t p => dec_mode v p t) ps t).
  Proof.
    induction ps as [|p ps IH]; intros t Ht Hz; cbn [fold_left] in *; [auto|].
    destruct (TokSim_dec_mode v p t Ht (tz_dec_modes v ps _ Hz)) as (I1 & E1).
    rewrite <- E1 in Hz |- *. apply IH; assumption.
  Qed.
  Lemma TokSim_exec_csi_plain ps f : TokSim (s_exec_csi_plain wc ps f) (exec_csi_plain ps f).
  Proof.
    intros t Ht Hz. unfold s_exec_csi_plain, exec_csi_plain in *. cbv zeta in *. rewrite abs_active in *.
    cbn [cx cy abs_sscreen] in *. disp t Ht Hz.
  Qed.
  Lemma TokSim_exec_csi prefix ps f : TokSim (s_exec_csi wc prefix ps f) (exec_csi prefix ps f).
  Proof.
    intros t Ht Hz. unfold s_exec_csi, exec_csi in *. cbv zeta in *.
    unfold active_kbd, s_active_kbd in *. cbn [onalt kba kbm abs_sterm] in *.
    revert Hz; repeat match goal with |- context [if ?c then _ else _] => destruct c end; intros Hz;
      first [ apply TokSim_exec_csi_plain; assumption
            | apply (TokSim_dec_modes true ps); assumption | apply (TokSim_dec_modes false ps); assumption
            | disp_leaf t Ht Hz ].
  Qed.
  Lemma TokSim_exec_osc n payload : TokSim (s_exec_osc n payload) (exec_osc n payload).
  Proof. intros t Ht Hz. unfold s_exec_osc, exec_osc in *. disp t Ht Hz. Qed.

  (* every token but printable text *)
  Definition is_glyph (k : tok) : bool := match k with TGlyph _ _ _ => true | _ => false end.
  Theorem TokSim_exec_tok k : is_glyph k = false -> TokSim (s_exec_tok wc k) (exec_tok k).
  Proof.
    intros Hk t Ht Hz. destruct k; try discriminate; cbn [s_exec_tok exec_tok] in *.
    - apply TokSim_exec_c0; assumption.
    - apply TokSim_exec_esc; assumption.
    - auto.
    - apply TokSim_exec_csi; assumption.
    - apply TokSim_exec_osc; assumption.
  Qed.
End WithOracle.
