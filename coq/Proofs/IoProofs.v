(* Proofs for Model/Io.v (property C16): the reader refines a byte queue, the
   read loop interprets the delivered stream once and in order and stops at
   the first error without data, tee / resize / winsize / write clauses. *)
From Coq Require Import List ZArith Bool Lia.
From Termemu Require Import Base Style Screen Kbd Parser Term Mouse Io
  BaseLemmas ScreenInv TermInv ParserProofs HistProofs MouseProofs.
Import ListNotations.
Open Scope Z_scope.

(* ================= slices ================= *)
Lemma zfirstn_all {A} n (l : list A) : zlen l <= n -> zfirstn n l = l.
Proof. intro H. unfold zfirstn, zlen in *. apply firstn_all2. lia. Qed.
Lemma zfirstn_neg {A} n (l : list A) : n <= 0 -> zfirstn n l = [].
Proof. intro H. unfold zfirstn. replace (Z.to_nat n) with 0%nat by lia. reflexivity. Qed.
Lemma zskipn_0 {A} (l : list A) : zskipn 0 l = l.
Proof. reflexivity. Qed.
Lemma zskipn_neg {A} n (l : list A) : n <= 0 -> zskipn n l = l.
Proof. intro H. unfold zskipn. replace (Z.to_nat n) with 0%nat by lia. reflexivity. Qed.
Lemma zskipn_all {A} n (l : list A) : zlen l <= n -> zskipn n l = [].
Proof. intro H. unfold zskipn, zlen in *. apply skipn_all2. lia. Qed.
Lemma zfirstn_app_exact {A} n (a b : list A) : zlen a = n -> zfirstn n (a ++ b) = a.
Proof.
  intro H. unfold zfirstn, zlen in *. rewrite firstn_app.
  replace (Z.to_nat n - length a)%nat with 0%nat by lia. cbn [firstn]. rewrite app_nil_r.
  apply firstn_all2. lia.
Qed.
Lemma zfirstn_app_l {A} n (a b : list A) : n <= zlen a -> zfirstn n (a ++ b) = zfirstn n a.
Proof.
  intro H. unfold zfirstn, zlen in *. rewrite firstn_app.
  replace (Z.to_nat n - length a)%nat with 0%nat by lia. cbn [firstn]. apply app_nil_r.
Qed.
Lemma zfirstn_app_r {A} n (a b : list A) : zlen a <= n -> zfirstn n (a ++ b) = a ++ zfirstn (n - zlen a) b.
Proof.
  intro H. unfold zfirstn, zlen in *. rewrite firstn_app. f_equal.
  - apply firstn_all2. lia.
  - f_equal. lia.
Qed.
Lemma zskipn_app_exact {A} n (a b : list A) : zlen a = n -> zskipn n (a ++ b) = b.
Proof.
  intro H. unfold zskipn, zlen in *. rewrite skipn_app.
  replace (Z.to_nat n - length a)%nat with 0%nat by lia. cbn [skipn].
  rewrite skipn_all2 by lia. reflexivity.
Qed.
Lemma zskipn_app_l {A} n (a b : list A) : n <= zlen a -> zskipn n (a ++ b) = zskipn n a ++ b.
Proof.
  intro H. unfold zskipn, zlen in *. rewrite skipn_app.
  replace (Z.to_nat n - length a)%nat with 0%nat by lia. reflexivity.
Qed.
Lemma zskipn_zfirstn {A} s e (d : list A) : 0 <= s <= e -> zskipn s (zfirstn e d) = zfirstn (e - s) (zskipn s d).
Proof.
  intro H. unfold zskipn, zfirstn. rewrite skipn_firstn_comm. f_equal. lia.
Qed.
Lemma skipn_skipn_ {A} (x y : nat) : forall l : list A, skipn x (skipn y l) = skipn (y + x) l.
Proof.
  induction y as [|y IH]; intros l; [reflexivity|]. destruct l as [|a l]; [destruct x; reflexivity|].
  cbn [skipn Nat.add]. apply IH.
Qed.
Lemma zskipn_zskipn {A} a b (l : list A) : 0 <= a -> 0 <= b -> zskipn a (zskipn b l) = zskipn (a + b) l.
Proof.
  intros Ha Hb. unfold zskipn. rewrite skipn_skipn_. f_equal. lia.
Qed.
Lemma zfirstn_zskipn_id {A} n (l : list A) : zfirstn n l ++ zskipn n l = l.
Proof. unfold zfirstn, zskipn. apply firstn_skipn. Qed.
Lemma zlen_zfirstn_le' {A} n (l : list A) : zlen (zfirstn n l) <= zlen l.
Proof. rewrite zlen_zfirstn. pose proof (zlen_nonneg l). lia. Qed.

(* ================= the reader refines a byte queue ================= *)
Definition rinv (r : reader) : Prop := 0 <= rstart r /\ rstart r <= rend r /\ rend r <= zlen (data r).

Lemma rinv0 : rinv reader0.
Proof. unfold rinv, reader0. cbn. lia. Qed.

Lemma zlen_pending r : rinv r -> zlen (pending r) = buffered r.
Proof.
  intros (H1 & H2 & H3). unfold pending, buffered. rewrite zlen_zfirstn_le; [reflexivity|].
  rewrite zlen_zskipn_le by lia. lia.
Qed.

Lemma copy_into_short dst src : zlen src <= zlen dst -> copy_into dst src = src ++ zskipn (zlen src) dst.
Proof. intro H. unfold copy_into. rewrite zfirstn_all by lia. reflexivity. Qed.
Lemma zlen_copy_into dst src : zlen src <= zlen dst -> zlen (copy_into dst src) = zlen dst.
Proof.
  intro H. rewrite copy_into_short by exact H. pose proof (zlen_nonneg src).
  rewrite zlen_app, zlen_zskipn_le by lia. lia.
Qed.

Section ReaderProofs.
  Variable cap0 bsz : Z.
  Hypothesis cap0_pos : 0 < cap0.

  Lemma alloc_ok r : rinv r ->
    rinv (alloc cap0 r) /\ pending (alloc cap0 r) = pending r /\ 0 < zlen (data (alloc cap0 r)) /\
    rstart (alloc cap0 r) = rstart r /\ rend (alloc cap0 r) = rend r.
  Proof.
    intros (H1 & H2 & H3). unfold alloc. destruct (data r) as [|d0 dl] eqn:E.
    - change (zlen (@nil Z)) with 0 in H3. assert (rstart r = 0) by lia. assert (rend r = 0) by lia.
      unfold rinv, pending. cbn [data rstart rend]. rewrite E, zlen_zrepeat_nn by lia.
      rewrite H, H0. repeat split; try lia.
    - unfold rinv. rewrite E. repeat split; try lia; try (rewrite zlen_cons; pose proof (zlen_nonneg dl); lia).
  Qed.

  Lemma compact_ok r : rinv r ->
    rinv (compact r) /\ pending (compact r) = pending r /\ zlen (data (compact r)) = zlen (data r) /\
    rstart (compact r) = 0 /\ rend (compact r) = rend r - rstart r.
  Proof.
    intros Hr. pose proof (zlen_pending r Hr) as Hp. destruct Hr as (H1 & H2 & H3). unfold compact.
    destruct (Z.ltb_spec 0 (rstart r)).
    - destruct (Z.eqb_spec (rstart r) (rend r)) as [E|E].
      + unfold rinv, pending. cbn [data rstart rend]. rewrite E, Z.sub_diag.
        rewrite !zfirstn_neg by lia. repeat split; lia.
      + unfold buffered in Hp.
        assert (Hl : zlen (pending r) <= zlen (data r)) by lia.
        unfold rinv. cbn [data rstart rend]. rewrite zlen_copy_into by exact Hl.
        repeat split; try lia.
        unfold pending at 1. cbn [data rstart rend]. rewrite zskipn_0, Z.sub_0_r.
        rewrite copy_into_short by exact Hl. apply zfirstn_app_exact. exact Hp.
    - assert (rstart r = 0) by lia. repeat split; try lia; try (unfold rinv; lia).
  Qed.

  Lemma grow_ok r : rinv r -> 0 < zlen (data r) ->
    rinv (grow r) /\ pending (grow r) = pending r /\ rend (grow r) < zlen (data (grow r)) /\
    rstart (grow r) = rstart r /\ rend (grow r) = rend r /\
    (zlen (data (grow r)) = zlen (data r) \/ (rend r = zlen (data r) /\ zlen (data (grow r)) = 2 * zlen (data r))).
  Proof.
    intros (H1 & H2 & H3) Hpos. unfold grow. destruct (Z.eqb_spec (rend r) (zlen (data r))) as [E|E].
    - set (n := zlen (data r)) in *.
      assert (Hd : copy_into (zrepeat 0 (2 * n)) (zfirstn (rend r) (data r)) = data r ++ zrepeat 0 n).
      { rewrite zfirstn_all by lia. rewrite copy_into_short by (rewrite zlen_zrepeat_nn; lia).
        f_equal. unfold zskipn, zrepeat. fold n.
        replace (Z.to_nat (2 * n)) with (Z.to_nat n + Z.to_nat n)%nat by lia.
        rewrite repeat_app. rewrite skipn_app, repeat_length, Nat.sub_diag.
        rewrite skipn_all2 by (rewrite repeat_length; lia). reflexivity. }
      unfold rinv, pending. cbn [data rstart rend]. rewrite Hd, zlen_app, zlen_zrepeat_nn by lia. fold n.
      repeat split; try lia.
      rewrite zskipn_app_l by (fold n; lia). apply zfirstn_app_l.
      rewrite zlen_zskipn_le by (fold n; lia). fold n. lia.
    - unfold rinv. repeat split; try lia.
  Qed.

  Lemma prep_ok r : rinv r ->
    rinv (prep cap0 r) /\ pending (prep cap0 r) = pending r /\ 1 <= space (prep cap0 r) /\
    rstart (prep cap0 r) = 0 /\ rend (prep cap0 r) = buffered r.
  Proof.
    intro Hr. unfold prep.
    destruct (alloc_ok r Hr) as (Ha & Pa & La & Sa & Ea).
    destruct (compact_ok _ Ha) as (Hc & Pc & Lc & Sc & Ec).
    destruct (grow_ok _ Hc ltac:(lia)) as (Hg & Pg & Lg & Sg & Eg & _).
    split; [exact Hg|]. split; [congruence|]. split; [unfold space; lia|].
    split; [lia|unfold buffered; lia].
  Qed.

  Lemma store_ok r bs : rinv r -> zlen bs <= space r ->
    rinv (store r bs) /\ pending (store r bs) = pending r ++ bs /\
    zlen (data (store r bs)) = zlen (data r) /\ rstart (store r bs) = rstart r.
  Proof.
    intros (H1 & H2 & H3) Hs. unfold space in Hs. pose proof (zlen_nonneg bs) as Hb.
    assert (Hd : data (store r bs) = zfirstn (rend r) (data r) ++ bs ++ zskipn (zlen bs) (zskipn (rend r) (data r))).
    { unfold store. cbn [data]. rewrite copy_into_short by (rewrite zlen_zskipn_le; lia). reflexivity. }
    assert (Hl : zlen (data (store r bs)) = zlen (data r)).
    { rewrite Hd. rewrite !zlen_app. rewrite zlen_zfirstn_le by lia.
      rewrite zlen_zskipn_le by (rewrite zlen_zskipn_le; lia). rewrite zlen_zskipn_le by lia. lia. }
    split; [|split; [|split]]; try exact Hl.
    - unfold rinv. rewrite Hl. unfold store. cbn [rstart rend]. lia.
    - unfold pending. rewrite Hd. unfold store. cbn [rstart rend].
      rewrite zskipn_app_l by (rewrite zlen_zfirstn_le; lia).
      rewrite zskipn_zfirstn by lia.
      rewrite app_assoc. rewrite zfirstn_app_l.
      2:{ rewrite zlen_app, zlen_zfirstn_le by (rewrite zlen_zskipn_le; lia). lia. }
      apply zfirstn_all. rewrite zlen_app, zlen_zfirstn_le by (rewrite zlen_zskipn_le; lia). lia.
    - reflexivity.
  Qed.

  (* C16_queue: fill appends exactly the bytes read, whatever the indices, the
     capacity and the read result *)
  Theorem fill_with_queue r res : rinv r -> zlen (fst res) <= space (prep cap0 r) ->
    pending (fill_with cap0 r res) = pending r ++ fst res /\ rinv (fill_with cap0 r res) /\
    rstart (fill_with cap0 r res) = 0 /\ rend (fill_with cap0 r res) = buffered r + zlen (fst res).
  Proof.
    intros Hr Hs. destruct (prep_ok r Hr) as (Hp & Pp & Sp & S0 & E0).
    destruct (store_ok _ (fst res) Hp Hs) as (Hst & Pst & Lst & Sst). unfold fill_with.
    repeat split; try apply Hst.
    - rewrite Pst, Pp. reflexivity.
    - lia.
    - unfold store. cbn [rend]. lia.
  Qed.

  (* capacity: allocated at the first fill, afterwards unchanged or doubled, and
     doubled only when the bytes still pending fill the whole buffer *)
  Theorem fill_with_cap r res : rinv r ->
    let c := rcap (fill_with cap0 r res) in
    0 < c /\
    (data r = [] -> c = cap0 \/ (buffered r = cap0 /\ c = 2 * cap0)) /\
    (data r <> [] -> c = rcap r \/ (buffered r = rcap r /\ c = 2 * rcap r)).
  Proof.
    intros Hr. cbv zeta. unfold fill_with, rcap, prep.
    destruct (alloc_ok r Hr) as (Ha & Pa & La & Sa & Ea).
    destruct (compact_ok _ Ha) as (Hc & Pc & Lc & Sc & Ec).
    destruct (grow_ok _ Hc ltac:(lia)) as (Hg & Pg & Lg & Sg & Eg & Cg).
    assert (Hl : zlen (data (store (grow (compact (alloc cap0 r))) (fst res))) = zlen (data (grow (compact (alloc cap0 r))))).
    { unfold store. cbn [data]. destruct Hg as (G1 & G2 & G3).
      pose proof (zlen_nonneg (fst res)).
      rewrite zlen_app, zlen_zfirstn_le by lia.
      unfold copy_into. rewrite zlen_app.
      rewrite zlen_zfirstn, !BaseLemmas.zlen_zskipn. lia. }
    rewrite Hl. split; [lia|]. unfold buffered. split.
    - intro E. assert (Hcap : zlen (data (alloc cap0 r)) = cap0).
      { unfold alloc. rewrite E. cbn [data]. apply zlen_zrepeat_nn. lia. }
      destruct Cg as [C|[C1 C2]]; [left; lia|right; split; lia].
    - intro E. assert (Hcap : data (alloc cap0 r) = data r).
      { unfold alloc. destruct (data r) eqn:Ed; [congruence|destruct r; cbn in *; congruence]. }
      rewrite Hcap in *. destruct Cg as [C|[C1 C2]]; [left; lia|right; split; lia].
  Qed.

  Lemma pending_advance r k : rinv r -> 0 <= k <= buffered r ->
    pending (advance r k) = zskipn k (pending r) /\ rinv (advance r k) /\ buffered (advance r k) = buffered r - k.
  Proof.
    intros (H1 & H2 & H3) Hk. unfold buffered in *. unfold pending, advance, rinv. cbn [data rstart rend].
    repeat split; try lia.
    rewrite zskipn_zfirstn by lia. rewrite zskipn_zskipn by lia.
    f_equal; [lia|f_equal; lia].
  Qed.
End ReaderProofs.

(* ================= the sources ================= *)
Lemma script_bytes_cons bs e s : script_bytes ((bs, e) :: s) = bs ++ script_bytes s.
Proof. reflexivity. Qed.

Lemma script_measure_cons bs e s : script_measure ((bs, e) :: s) = 1 + zlen bs + script_measure s.
Proof. reflexivity. Qed.
Lemma script_measure_nil : script_measure [] = 0.
Proof. reflexivity. Qed.

Lemma script_measure_nonneg s : 0 <= script_measure s.
Proof.
  induction s as [|[bs e] s IH]; [rewrite script_measure_nil; lia|].
  rewrite script_measure_cons. pose proof (zlen_nonneg bs). lia.
Qed.

Definition b2z (b : bool) : Z := if b then 1 else 0.

Lemma script_read_spec space s : 0 <= space ->
  let res := fst (script_read space s) in let s' := snd (script_read space s) in
  zlen (fst res) <= space /\ script_bytes s = fst res ++ script_bytes s' /\
  (is_stop res = true \/ (1 <= space -> script_measure s' + 1 <= script_measure s)) /\
  (fst res <> [] -> script_measure s' + zlen (fst res) + b2z (snd res) <= script_measure s).
Proof.
  intro Hs. destruct s as [|[bs e] rest]; cbn [script_read].
  - cbn [fst snd]. change (zlen (@nil Z)) with 0.
    split; [lia|]. split; [reflexivity|]. split; [left; reflexivity|congruence].
  - pose proof (zlen_nonneg bs) as Hb. pose proof (script_measure_nonneg rest) as Hm.
    destruct (Z.leb_spec (zlen bs) space); cbn [fst snd].
    + rewrite script_measure_cons.
      split; [lia|]. split; [reflexivity|]. split; [right; intros _; lia|].
      intros _. unfold b2z. destruct e; lia.
    + rewrite !script_bytes_cons, app_assoc, zfirstn_zskipn_id.
      rewrite !script_measure_cons.
      rewrite zlen_zfirstn_le by lia. rewrite zlen_zskipn_le by lia. unfold b2z.
      split; [lia|]. split; [reflexivity|]. split; [right; intros H1; lia|]. intros _. lia.
Qed.

Lemma src_measure_nonneg src : 0 <= src_measure src.
Proof.
  destruct src as [s|b]; cbn; [apply script_measure_nonneg|].
  pose proof (script_measure_nonneg (under b)). pose proof (zlen_nonneg (bbuf b)). destruct (berr b); lia.
Qed.

Lemma src_read_spec bsz space src : 1 <= space -> 1 <= bsz ->
  let res := fst (fst (src_read bsz space src)) in let src' := snd (fst (src_read bsz space src)) in
  zlen (fst res) <= space /\ src_rest src = fst res ++ src_rest src' /\
  (is_stop res = true \/ src_measure src' + 1 <= src_measure src).
Proof.
  intros Hs Hb. destruct src as [s|b]; cbn [src_read].
  - pose proof (script_read_spec space s ltac:(lia)) as HR. destruct (script_read space s) as [res s'].
    cbn [fst snd] in *. destruct HR as (H1 & H2 & H3 & _).
    split; [exact H1|]. split; [exact H2|].
    destruct H3 as [H3|H3]; [left; exact H3|right; cbn [src_measure]; apply H3; lia].
  - unfold bufio_read. destruct (bbuf b) as [|c bb] eqn:Eb.
    + destruct (berr b) eqn:Ee.
      * cbn [fst snd]. change (zlen (@nil Z)) with 0. split; [lia|]. split; [|left; reflexivity].
        cbn [src_rest bbuf under]. rewrite Eb. reflexivity.
      * destruct (Z.leb_spec bsz space).
        -- pose proof (script_read_spec space (under b) ltac:(lia)) as HR.
           destruct (script_read space (under b)) as [res s']. cbn [fst snd src_rest src_measure bbuf under berr] in *.
           destruct HR as (H1 & H2 & H3 & _). rewrite Eb, Ee. cbn [app].
           split; [exact H1|]. split; [exact H2|].
           destruct H3 as [H3|H3]; [left; exact H3|right]. change (zlen (@nil Z)) with 0. specialize (H3 ltac:(lia)). lia.
        -- pose proof (script_read_spec bsz (under b) ltac:(lia)) as HR.
           destruct (script_read bsz (under b)) as [res s']. cbn [fst snd] in *.
           destruct HR as (H1 & H2 & H3 & H4).
           destruct (fst res) as [|c0 l0] eqn:Er; cbn [fst snd src_rest src_measure bbuf under berr].
           ++ rewrite Eb, Ee. cbn [app] in *. rewrite Er. change (zlen (@nil Z)) with 0.
              split; [lia|]. split; [exact H2|].
              destruct H3 as [H3|H3]; [left; exact H3|right]. specialize (H3 ltac:(lia)). lia.
           ++ rewrite Eb, Ee. cbn [app]. rewrite H2. rewrite app_assoc, zfirstn_zskipn_id.
              pose proof (zlen_nonneg l0) as Hl0.
              assert (Hl : 1 <= zlen (c0 :: l0)) by (rewrite zlen_cons; lia).
              split; [rewrite zlen_zfirstn; lia|]. split; [reflexivity|].
              right. change (zlen (@nil Z)) with 0. rewrite BaseLemmas.zlen_zskipn.
              specialize (H4 ltac:(congruence)). unfold b2z in H4. destruct (snd res); lia.
    + pose proof (zlen_nonneg bb) as Hbb. cbn [fst snd src_rest src_measure bbuf under berr].
      rewrite Eb. rewrite app_assoc, zfirstn_zskipn_id.
      split; [rewrite zlen_zfirstn; rewrite zlen_cons; lia|]. split; [reflexivity|].
      right. rewrite BaseLemmas.zlen_zskipn, zlen_cons. destruct (berr b); lia.
Qed.

(* ================= the read loop ================= *)
Lemma zskipn_app_r {A} n (a b : list A) : zlen a <= n -> zskipn n (a ++ b) = zskipn (n - zlen a) b.
Proof.
  intro H. unfold zskipn, zlen in *. rewrite skipn_app. rewrite skipn_all2 by lia. cbn [app].
  f_equal. lia.
Qed.
Lemma zskipn_app_last {A} (a b : list A) k : 0 <= k <= zlen b ->
  zskipn (zlen (a ++ b) - k) (a ++ b) = zskipn (zlen b - k) b.
Proof. intro H. rewrite zlen_app. rewrite zskipn_app_r by lia. f_equal. lia. Qed.

Lemma clamp_bounds v hi : 0 <= hi -> 0 <= clamp v 0 hi <= hi.
Proof. exact (MouseProofs.clamp_range v hi). Qed.

Lemma is_stop_nil_data res : is_stop res = true -> fst res = [].
Proof.
  unfold is_stop. intro H. apply andb_true_iff in H. destruct H as [_ H].
  apply Z.eqb_eq in H. destruct (fst res); [reflexivity|]. rewrite zlen_cons in H. pose proof (zlen_nonneg l). lia.
Qed.

Section LoopProofs.
  Variable cap0 bsz : Z.
  Hypothesis cap0_pos : 0 < cap0.
  Hypothesis bsz_pos : 1 <= bsz.
  Variable St : Type.
  Variable consume : St -> list Z -> St * list Z.
  Variable hold : list Z -> Z.
  Variable zero_eof : bool.
  Hypothesis consume_suffix : forall t inp, exists pre, inp = pre ++ snd (consume t inp).

  Lemma fill_spec r src : rinv r ->
    let f := fill cap0 bsz r src in
    let r' := fst (fst (fst f)) in let src' := snd (fst (fst f)) in let res := snd (fst f) in
    pending r' = pending r ++ fst res /\ rinv r' /\ src_rest src = fst res ++ src_rest src' /\
    (is_stop res = true \/ src_measure src' + 1 <= src_measure src) /\
    rstart r' = 0 /\ rend r' = buffered r + zlen (fst res) /\ r' = fill_with cap0 r res.
  Proof.
    intro Hr. unfold fill. destruct (prep_ok cap0 cap0_pos r Hr) as (Hp & Pp & Sp & S0 & E0).
    pose proof (src_read_spec bsz (space (prep cap0 r)) src Sp bsz_pos) as HS.
    destruct (src_read bsz (space (prep cap0 r)) src) as [[res src'] asked]. cbn [fst snd] in *.
    destruct HS as (H1 & H2 & H3).
    destruct (fill_with_queue cap0 cap0_pos r res Hr H1) as (Q1 & Q2 & Q3 & Q4).
    unfold fill_with in *. repeat (split; [assumption|]). reflexivity.
  Qed.

  Definition lstep' := lstep cap0 bsz St consume hold zero_eof.
  Definition read_loop' := read_loop cap0 bsz St consume hold zero_eof.

  Lemma lstep_spec s : rinv (lr St s) ->
    let o := fst (fst (lstep' s)) in let s' := snd (fst (lstep' s)) in let ev := snd (lstep' s) in
    ev_used ev ++ logical_pending St s' = logical_pending St s ++ fst (ev_res ev) /\
    rinv (lr St s') /\
    src_rest (lsrc St s) = fst (ev_res ev) ++ src_rest (lsrc St s') /\
    (is_stop (ev_res ev) = true \/ src_measure (lsrc St s') + 1 <= src_measure (lsrc St s)) /\
    (o = StopErr <-> is_stop (ev_res ev) = true) /\
    (o = StopZeroRead -> zero_eof = true /\ ev_res ev = ([], false)) /\
    o <> OutOfFuel /\
    (lt St s' = fst (consume (lt St s) (logical_pending St s)) /\
     logical_pending St s' = snd (consume (lt St s) (logical_pending St s)) ++ fst (ev_res ev)) /\
    ev_cap ev = rcap (lr St s').
  Proof.
    intro Hr. unfold lstep', lstep.
    destruct (consume_suffix (lt St s) (logical_pending St s)) as (pre & Hpre).
    destruct (consume (lt St s) (logical_pending St s)) as [t' rest] eqn:Ec. cbn [snd] in Hpre.
    set (inp := logical_pending St s) in *.
    pose proof (zlen_pending _ Hr) as Hlp.
    pose proof (zlen_nonneg rest) as Hrest. pose proof (zlen_nonneg (pending (lr St s))) as Hpn.
    set (k := clamp (hold rest) 0 (zmin (zlen rest) (buffered (lr St s)))).
    assert (Hk : 0 <= k <= zlen rest /\ k <= buffered (lr St s)).
    { subst k. unfold zmin. destruct (zlen rest <? buffered (lr St s)) eqn:E.
      - pose proof (clamp_bounds (hold rest) (zlen rest) ltac:(lia)). lia.
      - pose proof (clamp_bounds (hold rest) (buffered (lr St s)) ltac:(lia)). lia. }
    destruct (pending_advance (lr St s) (buffered (lr St s) - k) Hr ltac:(lia)) as (Pa & Ra & Ba).
    set (r1 := advance (lr St s) (buffered (lr St s) - k)) in *.
    pose proof (fill_spec r1 (lsrc St s) Ra) as HF.
    destruct (fill cap0 bsz r1 (lsrc St s)) as [[[r2 src'] res] asked]. cbn [fst snd] in HF.
    destruct HF as (F1 & F2 & F3 & F4 & F5 & F6 & F7).
    cbn [fst snd ev_used ev_res ev_cap lt infl lr lsrc logical_pending].
    assert (Hused : zfirstn (zlen inp - zlen rest) inp = pre).
    { rewrite Hpre at 2. apply zfirstn_app_exact. rewrite Hpre, zlen_app. lia. }
    assert (Hsplit : zfirstn (zlen rest - k) rest ++ pending r1 = rest).
    { rewrite Pa. rewrite <- (zfirstn_zskipn_id (zlen rest - k) rest) at 3. f_equal.
      replace (buffered (lr St s) - k) with (zlen (pending (lr St s)) - k) by lia.
      rewrite <- (zskipn_app_last (infl St s) (pending (lr St s)) k) by lia.
      rewrite <- (zskipn_app_last pre rest k) by lia.
      unfold inp, logical_pending in Hpre. rewrite <- Hpre. reflexivity. }
    split.
    { unfold logical_pending at 1. cbn [infl lr]. rewrite Hused, F1.
      rewrite (app_assoc (zfirstn _ rest)), Hsplit. rewrite app_assoc. rewrite <- Hpre. reflexivity. }
    split; [exact F2|]. split; [exact F3|]. split; [exact F4|].
    split.
    { unfold is_stop. destruct (snd res && (zlen (fst res) =? 0)); [split; reflexivity|].
      destruct (zero_eof && (zlen (fst res) =? 0) && (0 <? k)); split; discriminate. }
    split.
    { destruct (snd res && (zlen (fst res) =? 0)) eqn:E1; [discriminate|].
      destruct (zero_eof && (zlen (fst res) =? 0) && (0 <? k)) eqn:E2; [|discriminate].
      intros _. apply andb_true_iff in E2. destruct E2 as [E2 _]. apply andb_true_iff in E2. destruct E2 as [E2 E3].
      split; [exact E2|]. apply Z.eqb_eq in E3. rewrite E3 in E1. destruct res as [rb re]. cbn [fst snd] in *.
      rewrite andb_true_r in E1. subst re. f_equal.
      destruct rb; [reflexivity|]. rewrite zlen_cons in E3. pose proof (zlen_nonneg rb). lia. }
    split.
    { destruct (snd res && (zlen (fst res) =? 0)); [discriminate|].
      destruct (zero_eof && (zlen (fst res) =? 0) && (0 <? k)); discriminate. }
    split; [|reflexivity].
    split; [reflexivity|]. unfold logical_pending. cbn [infl lr]. rewrite F1, app_assoc, Hsplit. reflexivity.
  Qed.

  (* C16_interpreted: bytes interpreted ++ bytes pending = bytes pending before ++ bytes delivered;
     the delivered bytes are a prefix of what the source holds; the reader stays well formed *)
  Theorem read_loop_spec fuel : forall s o s' tr, read_loop' fuel s = (o, s', tr) -> rinv (lr St s) ->
    consumed_of tr ++ logical_pending St s' = logical_pending St s ++ delivered_of tr /\
    src_rest (lsrc St s) = delivered_of tr ++ src_rest (lsrc St s') /\
    rinv (lr St s').
  Proof.
    unfold read_loop'. induction fuel as [|f IH]; intros s o s' tr H Hr; cbn [read_loop] in H.
    - inversion H; subst. unfold consumed_of, delivered_of. cbn. rewrite app_nil_r. auto.
    - pose proof (lstep_spec s Hr) as HS. unfold lstep' in HS.
      destruct (lstep cap0 bsz St consume hold zero_eof s) as [[o1 s1] ev]. cbn [fst snd] in HS.
      destruct HS as (S1 & S2 & S3 & _).
      assert (Hone : consumed_of [ev] ++ logical_pending St s1 = logical_pending St s ++ delivered_of [ev] /\
                     src_rest (lsrc St s) = delivered_of [ev] ++ src_rest (lsrc St s1) /\ rinv (lr St s1)).
      { unfold consumed_of, delivered_of. cbn [map concat]. rewrite !app_nil_r. auto. }
      destruct o1; try (inversion H; subst; exact Hone).
      destruct (read_loop cap0 bsz St consume hold zero_eof f s1) as [[o2 s2] evs] eqn:E.
      inversion H; subst. destruct (IH _ _ _ _ E S2) as (I1 & I2 & I3).
      unfold consumed_of, delivered_of in *. cbn [map concat].
      split; [|split; [|exact I3]].
      + rewrite <- app_assoc, I1. rewrite app_assoc, S1. rewrite <- app_assoc. reflexivity.
      + rewrite S3, I2. rewrite app_assoc. reflexivity.
  Qed.

  (* the loop stops exactly at the first read that returns an error and no data *)
  Theorem read_loop_stops fuel : forall s o s' tr, read_loop' fuel s = (o, s', tr) -> rinv (lr St s) ->
    o <> Running /\
    (o = StopErr -> exists tr0 ev, tr = tr0 ++ [ev] /\ is_stop (ev_res ev) = true /\
                     Forall (fun e => is_stop (ev_res e) = false) tr0) /\
    (o = StopZeroRead -> zero_eof = true /\ exists tr0 ev, tr = tr0 ++ [ev] /\ ev_res ev = ([], false)) /\
    (o = OutOfFuel -> Forall (fun e => is_stop (ev_res e) = false) tr).
  Proof.
    unfold read_loop'. induction fuel as [|f IH]; intros s o s' tr H Hr; cbn [read_loop] in H.
    - inversion H; subst. repeat split; try discriminate. constructor.
    - pose proof (lstep_spec s Hr) as HS. unfold lstep' in HS.
      destruct (lstep cap0 bsz St consume hold zero_eof s) as [[o1 s1] ev]. cbn [fst snd] in HS.
      destruct HS as (_ & S2 & _ & _ & S5 & S6 & S7 & _).
      destruct o1.
      + destruct (read_loop cap0 bsz St consume hold zero_eof f s1) as [[o2 s2] evs] eqn:E.
        inversion H; subst. destruct (IH _ _ _ _ E S2) as (I0 & I1 & I2 & I3).
        assert (Hns : is_stop (ev_res ev) = false).
        { destruct (is_stop (ev_res ev)) eqn:Es; [|reflexivity]. destruct S5 as [_ S5]. discriminate (S5 eq_refl). }
        split; [exact I0|]. split; [|split].
        * intro Ho. destruct (I1 Ho) as (tr0 & e & -> & He & Hf). exists (ev :: tr0), e.
          split; [reflexivity|]. split; [exact He|]. constructor; assumption.
        * intro Ho. destruct (I2 Ho) as (Hz & tr0 & e & -> & He). split; [exact Hz|]. exists (ev :: tr0), e. auto.
        * intro Ho. constructor; [exact Hns|apply I3, Ho].
      + inversion H; subst. split; [discriminate|]. split; [|split; discriminate].
        intros _. exists [], ev. split; [reflexivity|]. split; [apply S5; reflexivity|constructor].
      + inversion H; subst. split; [discriminate|]. split; [discriminate|]. split; [|discriminate].
        intros _. destruct (S6 eq_refl) as (Hz & He). split; [exact Hz|]. exists [], ev. auto.
      + exfalso. apply S7. reflexivity.
  Qed.

  (* fuel: one iteration per script entry and per byte is enough *)
  Theorem read_loop_fuel fuel : forall s o s' tr, read_loop' fuel s = (o, s', tr) -> rinv (lr St s) ->
    src_measure (lsrc St s) < Z.of_nat fuel -> o <> OutOfFuel.
  Proof.
    unfold read_loop'. induction fuel as [|f IH]; intros s o s' tr H Hr Hm; cbn [read_loop] in H.
    - pose proof (src_measure_nonneg (lsrc St s)). lia.
    - pose proof (lstep_spec s Hr) as HS. unfold lstep' in HS.
      destruct (lstep cap0 bsz St consume hold zero_eof s) as [[o1 s1] ev]. cbn [fst snd] in HS.
      destruct HS as (_ & S2 & _ & S4 & S5 & _ & S7 & _).
      destruct o1; try (inversion H; subst; discriminate); [|exfalso; apply S7; reflexivity].
      destruct (read_loop cap0 bsz St consume hold zero_eof f s1) as [[o2 s2] evs] eqn:E.
      inversion H; subst. apply (IH _ _ _ _ E S2).
      destruct S4 as [S4|S4]; [destruct S5 as [_ S5]; discriminate (S5 S4)|]. lia.
  Qed.

  (* what is left when the loop stops on an error is what the parser blocked on *)
  Variable P : St -> list Z -> Prop.
  Hypothesis consume_blocked : forall t inp, P (fst (consume t inp)) (snd (consume t inp)).

  Theorem read_loop_final fuel : forall s o s' tr, read_loop' fuel s = (o, s', tr) -> rinv (lr St s) ->
    o = StopErr \/ o = StopZeroRead -> P (lt St s') (logical_pending St s').
  Proof.
    unfold read_loop'. induction fuel as [|f IH]; intros s o s' tr H Hr Ho; cbn [read_loop] in H.
    - inversion H; subst. destruct Ho; discriminate.
    - pose proof (lstep_spec s Hr) as HS. unfold lstep' in HS.
      destruct (lstep cap0 bsz St consume hold zero_eof s) as [[o1 s1] ev]. cbn [fst snd] in HS.
      destruct HS as (_ & S2 & _ & _ & S5 & S6 & S7 & S8 & _).
      destruct o1.
      + destruct (read_loop cap0 bsz St consume hold zero_eof f s1) as [[o2 s2] evs] eqn:E.
        inversion H; subst. apply (IH _ _ _ _ E S2 Ho).
      + inversion H; subst. destruct S8 as (-> & ->).
        rewrite (is_stop_nil_data _ (proj1 S5 eq_refl)), app_nil_r. apply consume_blocked.
      + inversion H; subst. destruct (S6 eq_refl) as (_ & He). destruct S8 as (-> & ->).
        rewrite He. cbn [fst]. rewrite app_nil_r. apply consume_blocked.
      + exfalso. apply S7. reflexivity.
  Qed.
End LoopProofs.

(* ================= the terminal model as the consumer ================= *)
Lemma run_bytes_suffix wc grid t inp : exists pre, inp = pre ++ snd (run_bytes wc grid t inp).
Proof. destruct (run_pending_suffix wc grid (S (length inp)) t inp) as (pre & H & _). exists pre. exact H. Qed.

(* the parser is blocked: it crashed (excluded by C01) or it needs more bytes for the next token *)
Definition blocked (wc : Z -> Z) (grid : bool) (t : term) (rest : list Z) : Prop :=
  crashed t = true \/ parse_one wc grid rest = PMore.
Lemma run_bytes_blocked wc grid t inp :
  blocked wc grid (fst (run_bytes wc grid t inp)) (snd (run_bytes wc grid t inp)).
Proof. apply run_bytes_stops. Qed.

Lemma run_bytes_consumer wc grid t inp :
  (exists pre, inp = pre ++ snd (run_bytes wc grid t inp)) /\
  (crashed (fst (run_bytes wc grid t inp)) = true \/ parse_one wc grid (snd (run_bytes wc grid t inp)) = PMore).
Proof. split; [apply run_bytes_suffix|apply run_bytes_blocked]. Qed.

(* one iteration of the loop is one HFeed step of Term.run_hist on the logical
   pending bytes, followed by the arrival of the bytes just read *)
Theorem term_lstep_is_hstep cap0 bsz wc grid hold ze s : 0 < cap0 -> 1 <= bsz -> rinv (lr term s) ->
  let x := lstep cap0 bsz term (run_bytes wc grid) hold ze s in
  let st := hstep wc grid (lt term s, logical_pending term s) (HFeed []) in
  lt term (snd (fst x)) = fst st /\
  logical_pending term (snd (fst x)) = snd st ++ fst (ev_res (snd x)).
Proof.
  intros Hc Hb Hr. cbv zeta.
  pose proof (lstep_spec cap0 bsz Hc Hb term (run_bytes wc grid) hold ze (run_bytes_suffix wc grid) s Hr) as H.
  unfold lstep' in H. cbv zeta in H. destruct H as (_ & _ & _ & _ & _ & _ & _ & H & _).
  cbn [hstep fst snd]. rewrite app_nil_r. exact H.
Qed.

(* ================= TeeBackend ================= *)
Theorem tee_run_spec rs : forall tee,
  fst (tee_run rs tee) = rs /\ snd (tee_run rs tee) = tee ++ concat (map fst rs).
Proof.
  induction rs as [|res rs IH]; intros tee; cbn [tee_run map concat]; [rewrite app_nil_r; auto|].
  unfold tee_read. specialize (IH (if 0 <? zlen (fst res) then tee ++ fst res else tee)).
  destruct (tee_run rs _) as [out tee2]. cbn [fst snd] in *. destruct IH as [-> ->].
  split; [reflexivity|]. destruct (Z.ltb_spec 0 (zlen (fst res))).
  - rewrite app_assoc. reflexivity.
  - destruct (fst res) as [|c l]; [reflexivity|]. rewrite zlen_cons in H. pose proof (zlen_nonneg l). lia.
Qed.
Theorem tee_read_zero res tee : fst res = [] -> tee_read res tee = (res, tee).
Proof. intro H. unfold tee_read. rewrite H. reflexivity. Qed.
Theorem tee_read_data res tee : fst res <> [] -> tee_read res tee = (res, tee ++ fst res).
Proof.
  intro H. unfold tee_read. destruct (fst res) as [|c l]; [congruence|].
  rewrite zlen_cons. pose proof (zlen_nonneg l). destruct (Z.ltb_spec 0 (1 + zlen l)); [reflexivity|lia].
Qed.

(* ================= Resize ================= *)
Theorem resize_forward_spec w h t calls : TInv t -> 1 <= w -> 1 <= h ->
  let x := resize_forward w h t calls in
  snd x = calls ++ [(w, h)] /\ fst x = resize w h t /\
  sW (tmain (fst x)) = w /\ sH (tmain (fst x)) = h /\ sW (talt (fst x)) = w /\ sH (talt (fst x)) = h /\
  TInv (fst x).
Proof.
  intros Ht Hw Hh. cbv zeta. unfold resize_forward. cbn [fst snd].
  split; [reflexivity|]. split; [reflexivity|].
  pose proof (TInv_resize w h t Ht Hw Hh) as Hr.
  destruct Ht as [Hm Ha _ _].
  destruct (set_size_ok w h (set_evs [] (tmain t)) (proj1 (Inv_set_evs _ _) Hm) Hw Hh) as (_ & W1 & H1).
  destruct (set_size_ok w h (set_evs [] (talt t)) (proj1 (Inv_set_evs _ _) Ha) Hw Hh) as (_ & W2 & H2).
  unfold resize in *. cbn [tmain talt]. unfold set_evs in *. cbn [sW sH] in *.
  repeat (split; [assumption|]). exact Hr.
Qed.

(* ================= PTY winsize ================= *)
Theorem pty_winsize_exact w h : 0 <= w <= 65535 -> 0 <= h <= 65535 ->
  ws_rows (pty_winsize w h) = h /\ ws_cols (pty_winsize w h) = w.
Proof.
  intros Hw Hh. unfold pty_winsize, ws_rows, ws_cols, u16. cbn [fst snd].
  rewrite !Z.mod_small by lia. auto.
Qed.
Theorem pty_winsize_trunc w h :
  ws_rows (pty_winsize w h) = h mod 65536 /\ ws_cols (pty_winsize w h) = w mod 65536 /\
  0 <= ws_rows (pty_winsize w h) < 65536 /\ 0 <= ws_cols (pty_winsize w h) < 65536.
Proof.
  unfold pty_winsize, ws_rows, ws_cols, u16. cbn [fst snd].
  pose proof (Z.mod_pos_bound h 65536 ltac:(lia)). pose proof (Z.mod_pos_bound w 65536 ltac:(lia)). auto.
Qed.

(* ================= Write: the error kind and the count ================= *)
Lemma write_status_err s : forall b, (write_status b s = 0 <-> snd (write_loop b s) = false) /\
  (write_status b s = 0 \/ write_status b s = 1 \/ write_status b s = 2).
Proof.
  induction s as [|[n e] rest IH]; intros [|z b]; cbn [write_status write_loop snd]; try (split; [tauto|auto]).
  set (n' := clamp n 0 (zlen (z :: b))). destruct e; [cbn; split; [split; discriminate|auto]|].
  destruct (n' =? 0); [cbn; split; [split; discriminate|auto]|].
  specialize (IH (zskipn n' (z :: b))). destruct (write_loop (zskipn n' (z :: b)) rest) as [d e']. exact IH.
Qed.
Theorem write_count_le s b : 0 <= write_count b s <= zlen b.
Proof.
  unfold write_count. destruct (write_loop_prefix s b) as (suf & H).
  pose proof (zlen_nonneg (fst (write_loop b s))). pose proof (zlen_nonneg suf).
  assert (E : zlen b = zlen (fst (write_loop b s)) + zlen suf) by (rewrite H at 1; apply zlen_app). lia.
Qed.
Theorem write_count_all s b : snd (write_loop b s) = false -> write_count b s = zlen b.
Proof. intro H. unfold write_count. rewrite (write_loop_ok s b H). reflexivity. Qed.

(* ================= the loop from its initial state ================= *)
Theorem read_loop_initial cap0 bsz St consume hold ze (t : St) src :
  0 < cap0 -> 1 <= bsz -> (forall t inp, exists pre, inp = pre ++ snd (consume t inp)) ->
  let x := read_loop cap0 bsz St consume hold ze (loop_fuel src) (mkL St t [] reader0 src) in
  let o := fst (fst x) in let s' := snd (fst x) in let tr := snd x in
  o <> OutOfFuel /\ o <> Running /\
  consumed_of tr ++ logical_pending St s' = delivered_of tr /\
  src_rest src = delivered_of tr ++ src_rest (lsrc St s') /\
  rinv (lr St s').
Proof.
  intros Hc Hb Hs. cbv zeta.
  destruct (read_loop cap0 bsz St consume hold ze (loop_fuel src) (mkL St t [] reader0 src)) as [[o s'] tr] eqn:E.
  cbn [fst snd].
  pose proof (read_loop_spec cap0 bsz Hc Hb St consume hold ze Hs _ _ _ _ _ E rinv0) as (A1 & A2 & A3).
  pose proof (read_loop_stops cap0 bsz Hc Hb St consume hold ze Hs _ _ _ _ _ E rinv0) as (B0 & _).
  pose proof (read_loop_fuel cap0 bsz Hc Hb St consume hold ze Hs _ _ _ _ _ E rinv0) as C.
  split.
  { apply C. cbn [lsrc]. unfold loop_fuel. pose proof (src_measure_nonneg src). lia. }
  split; [exact B0|]. split; [exact A1|]. split; [exact A2|exact A3].
Qed.

(* ================= examples (non-vacuity) ================= *)
(* compaction: data[1:4] moves to the front, the byte read lands behind it *)
Example fill_compacts :
  let r := fill_with 4 (mkReader [1; 2; 3; 4] 1 4) ([9], false) in
  data r = [2; 3; 4; 9] /\ rstart r = 0 /\ rend r = 4 /\ pending r = [2; 3; 4; 9].
Proof. vm_compute. auto. Qed.
(* doubling: a full buffer with start = 0; data together with an error is stored *)
Example fill_doubles :
  let r := fill_with 4 (mkReader [1; 2; 3; 4] 0 4) ([5; 6], true) in
  data r = [1; 2; 3; 4; 5; 6; 0; 0] /\ pending r = [1; 2; 3; 4; 5; 6] /\ rcap r = 8.
Proof. vm_compute. auto. Qed.
(* a fresh reader allocates cap0 bytes; a result larger than the space is cut by the source *)
Example fill_fresh :
  let '(r, src, res, asked) := fill 4 4 reader0 (Direct [([1; 2; 3; 4; 5; 6], true)]) in
  pending r = [1; 2; 3; 4] /\ res = ([1; 2; 3; 4], false) /\ src = Direct [([5; 6], true)] /\ asked = [4].
Proof. vm_compute. auto. Qed.
(* bufio: a short read request goes through bufio's buffer, the error is delivered after the data *)
Example bufio_delays_error :
  let '(res1, b1, _) := bufio_read 8 2 (mkBufio [([1; 2; 3], true); ([4], false)] [] false) in
  let '(res2, b2, _) := bufio_read 8 2 b1 in
  let '(res3, b3, a3) := bufio_read 8 2 b2 in
  res1 = ([1; 2], false) /\ res2 = ([3], false) /\ res3 = ([], true) /\ a3 = [] /\ under b3 = [([4], false)].
Proof. vm_compute. auto. Qed.
(* ... but a request of at least bufio's buffer size bypasses it: data and error arrive together *)
Example bufio_bypass :
  fst (fst (bufio_read 8 8 (mkBufio [([1; 2; 3], true)] [] false))) = ([1; 2; 3], true).
Proof. vm_compute. reflexivity. Qed.
Example read_byte_example :
  let '(o, r, src) := read_byte 4 4 5 reader0 (Direct [([], false); ([7; 8], true)]) in
  o = RbByte 7 /\ pending r = [8] /\ src = Direct [].
Proof. vm_compute. auto. Qed.
Example tee_example :
  tee_run [([1; 2], false); ([], false); ([3], true); ([], true)] [] =
    ([([1; 2], false); ([], false); ([3], true); ([], true)], [1; 2; 3]) /\
  tee_writes [([1; 2], false); ([], false); ([3], true); ([], true)] = 2.
Proof. vm_compute. auto. Qed.
Example winsize_example :
  pty_winsize 80 24 = (24, 80, 640, 384) /\ pty_winsize 65536 65537 = (1, 0, 0, 16) /\ pty_winsize (-1) 70000 = (4464, 65535, 65528, 5888).
Proof. vm_compute. auto. Qed.
Example write_example :
  write_loop [1; 2; 3; 4; 5] [(2, false); (1, false); (5, false)] = ([1; 2; 3; 4; 5], false) /\
  write_status [1; 2; 3; 4; 5] [(2, false); (0, false)] = 2 /\ write_count [1; 2; 3; 4; 5] [(2, false); (0, false)] = 2 /\
  write_status [1; 2; 3; 4; 5] [(2, false); (2, true)] = 1 /\ write_count [1; 2; 3; 4; 5] [(2, false); (2, true)] = 4.
Proof. vm_compute. auto. Qed.

(* the loop on the terminal model: "ab" + the first two bytes of a three-byte
   character, a zero-length read, the rest.  As found (zero_eof = true) the loop
   ends although no read reported an error, with three bytes never read; with
   the repaired reader everything is interpreted and the loop ends at EOF. *)
Definition d50_script : script := [([97; 98; 228; 184], false); ([], false); ([173; 99; 100], false)].
Definition d50_run (ze : bool) :=
  read_loop 8 8 term (run_bytes (fun _ => 1) false) go_hold ze (loop_fuel (Direct d50_script))
    (mkL term (init_term 20 3) [] reader0 (Direct d50_script)).

Example zero_read_as_found :
  let '(o, s', tr) := d50_run true in
  o = StopZeroRead /\ Forall (fun e => snd e = false) d50_script /\
  src_rest (lsrc term s') = [173; 99; 100] /\ consumed_of tr = [97; 98] /\ logical_pending term s' = [228; 184].
Proof. vm_compute. repeat split; auto. Qed.

Example zero_read_repaired :
  let '(o, s', tr) := d50_run false in
  o = StopErr /\ src_rest (lsrc term s') = [] /\
  consumed_of tr = script_bytes d50_script /\ logical_pending term s' = [] /\
  map ev_cap tr = [8; 8; 8; 8] /\ asked_of tr = [8; 6; 6; 8].
Proof. vm_compute. repeat split; auto. Qed.

(* an unfinished escape sequence at EOF stays unconsumed: the parser is blocked on it *)
Example loop_incomplete_tail :
  let sc := [([97; 27; 91], false); ([51], true)] in
  let '(o, s', tr) := read_loop 8 8 term (run_bytes (fun _ => 1) false) go_hold false (loop_fuel (Direct sc))
                        (mkL term (init_term 20 3) [] reader0 (Direct sc)) in
  o = StopErr /\ consumed_of tr = [97] /\ infl term s' = [27; 91; 51] /\ pending (lr term s') = [] /\
  parse_one (fun _ => 1) false (logical_pending term s') = PMore.
Proof. vm_compute. repeat split; auto. Qed.


(* ---------- SetTee during a read ---------- *)
Lemma tee_sw_run_spec : forall rs cur a b,
  tee_sw_run rs cur a b = (a ++ tee_gets 1 (tee_in_force rs cur), b ++ tee_gets 2 (tee_in_force rs cur)).
Proof.
  induction rs as [|[res sw] rs IH]; intros cur a b; cbn [tee_sw_run tee_in_force tee_gets flat_map].
  - rewrite !app_nil_r. reflexivity.
  - fold (tee_gets 1 (tee_in_force rs (if sw =? 0 then cur else sw))).
    fold (tee_gets 2 (tee_in_force rs (if sw =? 0 then cur else sw))).
    cbn [fst snd]. set (c := if sw =? 0 then cur else sw).
    destruct (0 <? zlen (fst res)) eqn:El.
    + destruct (c =? 1) eqn:E1.
      * apply Z.eqb_eq in E1. rewrite IH. rewrite E1. cbn [Z.eqb Pos.eqb]. rewrite <- app_assoc. reflexivity.
      * destruct (c =? 2) eqn:E2; rewrite IH; [rewrite <- app_assoc|]; reflexivity.
    + apply Z.ltb_ge in El. assert (fst res = []) as ->.
      { destruct (fst res); [reflexivity|]. unfold zlen in El. cbn [length] in El. lia. }
      rewrite IH. destruct (c =? 1); destruct (c =? 2); reflexivity.
Qed.
