(* C11, TTY mirror, region repaint: the row part of renderRegionLocked interpreted
   by an OUTER terminal (the terminal model itself), and the whole repaint.

   The outer terminal is any well-formed terminal state ([TInv]) at least as large
   as the right/bottom edge of the clamped region.  The inner screen is any
   well-formed screen ([Inv]) whose rows are [renderable] (RenderInv.v: every
   reachable screen).  The frontend is the repaired one ([rp = true]).

   Hypotheses that restrict the statement (both are the recorded finding
   KF-C11-cut-glyph):
     - no vertical edge of the region cuts a double-width glyph of an inner row
       ([cut_glyph x (x2-x) row = false]); otherwise StyledLine draws the glyph
       across the edge or shifts the text (Model/TtyFrontend.v, header);
     - the outer cells at column x and at column x2 of the rows of the region are
       not second halves of a glyph; otherwise writing inside the region blanks
       the other half outside it.  (For the right edge the blanking is
       characterised exactly by TtyRegionRow.row_over: [covers].)
   Coordinates of the outer terminal are at most [maxCSIParam] (the CSI scanner
   clamps parameters there). *)
From Coq Require Import List ZArith Bool Lia.
From Termemu Require Import Base Style Screen Kbd Parser Term Render BaseLemmas ScreenInv TermInv ParserProofs HistProofs
  SgrSpec StyleProofs SgrProofs StampProofs EscapeProofs RenderProofs GlyphInv TtyFrontend TtyProofs TtyRegionRow.
Import ListNotations.
Open Scope Z_scope.

(* row y of the outer terminal after the repaint: the inner cells in [x, x2), the old cells elsewhere *)
Definition paint_row (x x2 : Z) (orow irow : list cell) : list cell :=
  zfirstn x orow ++ zfirstn (x2 - x) (zskipn x irow) ++ zskipn x2 orow.

Lemma paint_row_cells x x2 orow irow xx :
  0 <= x <= x2 -> x2 <= zlen orow -> x2 <= zlen irow ->
  znth xx (paint_row x x2 orow irow) dcell =
    if (x <=? xx) && (xx <? x2) then znth xx irow dcell else znth xx orow dcell.
Proof.
  intros Hx Ho Hi. unfold paint_row.
  assert (L1 : zlen (zfirstn x orow) = x) by (rewrite zlen_zfirstn_le; lia).
  assert (L2 : zlen (zfirstn (x2 - x) (zskipn x irow)) = x2 - x).
  { rewrite zlen_zfirstn_le; [reflexivity|]. rewrite zlen_zskipn_le by lia. lia. }
  destruct (Z.lt_ge_cases xx 0) as [Hn|Hn].
  { rewrite !znth_neg by lia. destruct ((x <=? xx) && (xx <? x2)); reflexivity. }
  destruct (Z.leb_spec x xx) as [H1|H1]; cbn [andb].
  - rewrite znth_app_r by lia. rewrite L1.
    destruct (Z.ltb_spec xx x2) as [H2|H2].
    + rewrite znth_app_l by lia. rewrite znth_zfirstn by lia. rewrite znth_zskipn by lia. f_equal. lia.
    + rewrite znth_app_r by lia. rewrite L2. rewrite znth_zskipn by lia. f_equal. lia.
  - rewrite znth_app_l by lia. apply znth_zfirstn. lia.
Qed.

Section Region.
  Variable wc : Z -> Z.
  Variable ogrid : bool.      (* text rule of the outer terminal's parser *)
  Variable grid : bool.       (* buffer kind of the inner terminal (StyledLine) *)

  (* what the row part leaves alone, besides the cells *)
  Definition reg_frame (t t' : term) : Prop :=
    onalt t' = onalt t /\ vflags t' = vflags t /\
    sW (active t') = sW (active t) /\ sH (active t') = sH (active t) /\
    svx (active t') = svx (active t) /\ svy (active t') = svy (active t).

  Lemma reg_frame_refl t : reg_frame t t.
  Proof. unfold reg_frame. repeat split; reflexivity. Qed.
  Lemma reg_frame_trans t1 t2 t3 : reg_frame t1 t2 -> reg_frame t2 t3 -> reg_frame t1 t3.
  Proof. unfold reg_frame. intros (A1 & A2 & A3 & A4 & A5 & A6) (B1 & B2 & B3 & B4 & B5 & B6). repeat split; congruence. Qed.
  Lemma ow_reg_frame t t' y : ow_frame t t' y -> reg_frame t t'.
  Proof. unfold ow_frame, reg_frame. tauto. Qed.

  (* ---- CUP ---- *)
  Lemma cup_step t x y rest :
    TInv t -> 0 <= x < sW (active t) -> 0 <= y < sH (active t) ->
    sW (active t) <= maxCSIParam -> sH (active t) <= maxCSIParam ->
    let t1 := on_screen (set_cursor_pos x y) t in
    run_bytes wc ogrid t (ansi_move_cursor x y ++ rest) = run_bytes wc ogrid t1 rest /\
    TInv t1 /\ cx (active t1) = x /\ cy (active t1) = y /\ rows (active t1) = rows (active t) /\
    awrap (active t1) = awrap (active t) /\ reg_frame t t1.
  Proof.
    intros Ht Hx Hy HW HH t1.
    split.
    { rewrite (run_bytes_step wc ogrid t _ _ _ (TInv_not_crashed t Ht)
                 (TtyProofs.parse_cup wc ogrid scan_itoa x y rest ltac:(lia) ltac:(lia))).
      rewrite TtyProofs.exec_cup. reflexivity. }
    split; [apply on_screen_ok; [apply Pres_set_cursor_pos|exact Ht]|].
    destruct (RenderProofs.active_on_screen (set_cursor_pos x y) t) as (EA & EO). fold t1 in EA, EO.
    pose proof (vflags_on_screen_ (set_cursor_pos x y) t) as EV. fold t1 in EV.
    rewrite EA. unfold set_cursor_pos, reg_frame. rewrite EA.
    cbn [emit set_evs set_cur rows awrap cx cy sW sH svx svy]. rewrite !clamp_id by lia.
    repeat split; assumption.
  Qed.

  Lemma rows_row_at s s' : rows s' = rows s -> forall y, row_at s' y = row_at s y.
  Proof. intros H y. unfold row_at. rewrite H. reflexivity. Qed.

  Lemma inner_row_renderable inner yy :
    Forall (renderable wc) (rows inner) -> renderable wc (row_at inner yy).
  Proof.
    intros R. unfold row_at, znth. destruct (yy <? 0); [constructor|].
    destruct (Nat.lt_ge_cases (Z.to_nat yy) (length (rows inner))) as [H|H].
    - rewrite Forall_forall in R. apply R, nth_In, H.
    - rewrite nth_overflow by exact H. constructor.
  Qed.

  (* ---- (2) the fold over the rows of the region ---- *)
  Section Rows.
    Variable inner : screen.
    Variables x x2 : Z.
    Hypothesis Iinner : Inv inner.
    Hypothesis Rinner : Forall (renderable wc) (rows inner).
    Hypothesis Hx : 0 <= x < x2.
    Hypothesis Hx2 : x2 <= sW inner.

    Definition row_bytes (yy : Z) : list Z :=
      ansi_move_cursor x yy ++ screen_line true grid inner x (x2 - x) yy.

    Lemma one_row t yy :
      TInv t -> awrap (active t) = false -> 0 <= yy < sH inner -> yy < sH (active t) ->
      x2 <= sW (active t) -> sW (active t) <= maxCSIParam -> sH (active t) <= maxCSIParam ->
      cut_glyph x (x2 - x) (row_at inner yy) = false ->
      is_cont (cell_at (active t) x yy) = false -> is_cont (cell_at (active t) x2 yy) = false ->
      exists t', (forall rest, run_bytes wc ogrid t (row_bytes yy ++ rest) = run_bytes wc ogrid t' rest) /\
        TInv t' /\ awrap (active t') = false /\ reg_frame t t' /\
        row_at (active t') yy = paint_row x x2 (row_at (active t) yy) (row_at inner yy) /\
        (forall y', y' <> yy -> row_at (active t') y' = row_at (active t) y').
    Proof.
      intros Ht A Hyy Hyo HW HmW HmH Hcut Hl Hr.
      destruct (cup_step t x yy (screen_line true grid inner x (x2 - x) yy) Ht ltac:(lia) ltac:(lia) HmW HmH)
        as (_ & Ht1 & X1 & Y1 & R1 & A1 & F1).
      set (t1 := on_screen (set_cursor_pos x yy) t) in *.
      pose proof (rows_row_at _ _ R1) as RA1.
      set (irow := row_at inner yy) in *.
      set (todo := zfirstn (x2 - x) (zskipn x irow)).
      assert (Li : zlen irow = sW inner) by (apply row_at_len; [exact Iinner|lia]).
      assert (Lt : zlen todo = x2 - x).
      { subst todo. rewrite zlen_zfirstn_le; [reflexivity|]. rewrite zlen_zskipn_le by lia. lia. }
      assert (Rr : renderable wc irow) by (apply inner_row_renderable, Rinner).
      assert (Rt : renderable wc todo) by (apply rrow_sub; [exact Rr|lia|exact Hcut]).
      assert (EB : screen_line true grid inner x (x2 - x) yy = render_line_ansi todo).
      { unfold screen_line. fold irow. apply (styled_line_bytes wc); [exact Rr|lia|exact Hcut]. }
      destruct F1 as (FO1 & FV1 & FW1 & FH1 & FSX1 & FSY1).
      destruct (row_over_exact wc ogrid todo t1 yy x Ht1 ltac:(congruence) Y1 X1 ltac:(rewrite Lt, FW1; lia)
                  ltac:(rewrite RA1; exact Hl) ltac:(rewrite RA1, Lt; replace (x + (x2 - x)) with x2 by lia; exact Hr) Rt)
        as (t2 & E2 & Ht2 & A2 & Cy2 & Row2 & F2).
      exists t2. split.
      { intros rest. unfold row_bytes. rewrite <- app_assoc.
        destruct (cup_step t x yy (screen_line true grid inner x (x2 - x) yy ++ rest) Ht ltac:(lia) ltac:(lia) HmW HmH)
          as (E1 & _). rewrite E1. fold t1. rewrite EB. apply E2. }
      split; [exact Ht2|]. split; [exact A2|].
      split; [eapply reg_frame_trans; [|eapply ow_reg_frame, F2]; unfold reg_frame; repeat split; assumption|].
      split.
      - rewrite Row2, RA1, Lt. replace (x + (x2 - x)) with x2 by lia. reflexivity.
      - intros y' N. destruct F2 as (_ & _ & _ & _ & _ & _ & Ro). rewrite Ro by exact N. apply RA1.
    Qed.

    Theorem rows_over n : forall y t,
      TInv t -> awrap (active t) = false -> 0 <= y ->
      y + Z.of_nat n <= sH inner -> y + Z.of_nat n <= sH (active t) ->
      x2 <= sW (active t) -> sW (active t) <= maxCSIParam -> sH (active t) <= maxCSIParam ->
      (forall yy, y <= yy < y + Z.of_nat n -> cut_glyph x (x2 - x) (row_at inner yy) = false) ->
      (forall yy, y <= yy < y + Z.of_nat n ->
         is_cont (cell_at (active t) x yy) = false /\ is_cont (cell_at (active t) x2 yy) = false) ->
      exists t',
        (forall rest, run_bytes wc ogrid t (flat_map row_bytes (zseq_nat y n) ++ rest) = run_bytes wc ogrid t' rest) /\
        TInv t' /\ awrap (active t') = false /\ reg_frame t t' /\
        (forall yy, y <= yy < y + Z.of_nat n ->
           row_at (active t') yy = paint_row x x2 (row_at (active t) yy) (row_at inner yy)) /\
        (forall yy, ~ (y <= yy < y + Z.of_nat n) -> row_at (active t') yy = row_at (active t) yy).
    Proof.
      induction n as [|n IH]; intros y t Ht A Hy Hyi Hyo HW HmW HmH Hcut Hout.
      - exists t. cbn [zseq_nat flat_map app]. split; [reflexivity|]. split; [exact Ht|]. split; [exact A|].
        split; [apply reg_frame_refl|]. split; [intros yy Hyy; lia|reflexivity].
      - rewrite Nat2Z.inj_succ in *.
        destruct (Hout y ltac:(lia)) as (Hl & Hr).
        destruct (one_row t y Ht A ltac:(lia) ltac:(lia) HW HmW HmH (Hcut y ltac:(lia)) Hl Hr)
          as (t1 & E1 & Ht1 & A1 & F1 & Row1 & Ro1).
        pose proof F1 as (FO1 & FV1 & FW1 & FH1 & FSX1 & FSY1).
        destruct (IH (y + 1) t1 Ht1 A1 ltac:(lia) ltac:(lia) ltac:(rewrite FH1; lia) ltac:(rewrite FW1; lia)
                    ltac:(rewrite FW1; lia) ltac:(rewrite FH1; lia)
                    ltac:(intros yy Hyy; apply Hcut; lia)
                    ltac:(intros yy Hyy; unfold cell_at; rewrite Ro1 by lia; apply Hout; lia))
          as (t2 & E2 & Ht2 & A2 & F2 & In2 & Out2).
        exists t2. split.
        { intros rest. cbn [zseq_nat flat_map]. rewrite <- app_assoc. rewrite E1. apply E2. }
        split; [exact Ht2|]. split; [exact A2|]. split; [eapply reg_frame_trans; eassumption|]. split.
        + intros yy Hyy. destruct (Z.eq_dec yy y) as [->|N].
          * rewrite Out2 by lia. exact Row1.
          * rewrite In2 by lia. rewrite Ro1 by exact N. reflexivity.
        + intros yy Hyy. rewrite Out2 by lia. apply Ro1. lia.
    Qed.
  End Rows.

  (* ---- the state after the prologue is well-formed ---- *)
  Lemma after_prologue_inv o : TInv o ->
    TInv (after_prologue o) /\ onalt (after_prologue o) = onalt o /\ vflags (after_prologue o) = vflags o /\
    sW (active (after_prologue o)) = sW (active o) /\ sH (active (after_prologue o)) = sH (active o).
  Proof.
    intros Ht. unfold after_prologue.
    split; [apply on_screen_ok; [apply Pres_set_awrap|apply on_screen_ok; [apply Pres_save_cursor|exact Ht]]|].
    destruct (RenderProofs.active_on_screen (set_awrap false) (on_screen save_cursor o)) as (E1 & O1).
    destruct (RenderProofs.active_on_screen save_cursor o) as (E2 & O2).
    rewrite O1, O2, !vflags_on_screen_, E1, E2. repeat split; reflexivity.
  Qed.

  Lemma clamp_region_range r w h x y x2 y2 : 0 <= w -> 0 <= h ->
    clamp_region r w h = (x, y, x2, y2) -> 0 <= x <= w /\ 0 <= y <= h /\ 0 <= x2 <= w /\ 0 <= y2 <= h.
  Proof.
    intros Hw Hh E. destruct r as [[[a b] c] d]. unfold clamp_region in E. inversion E; subst.
    pose proof (clamp_range a 0 w Hw). pose proof (clamp_range b 0 h Hh).
    pose proof (clamp_range c 0 w Hw). pose proof (clamp_range d 0 h Hh). lia.
  Qed.

  (* ---- the row part of one repaint, after ESC[s ESC[?7l ----
     (i) all bytes consumed; (ii) rows y..y2-1 of the outer terminal hold the inner
     cells in columns x..x2-1 and (iii) their old cells elsewhere, the other rows
     are unchanged; (iv) the saved cursor is the cursor o had, the terminal is
     well-formed (not crashed), same size, same screen, same flags, autowrap
     still off: nothing scrolled. *)
  Theorem region_rows_over o inner r x y x2 y2 :
    TInv o -> Inv inner -> Forall (renderable wc) (rows inner) ->
    clamp_region r (sW inner) (sH inner) = (x, y, x2, y2) -> rect_empty (x, y, x2, y2) = false ->
    x2 <= sW (active o) -> y2 <= sH (active o) -> sW (active o) <= maxCSIParam -> sH (active o) <= maxCSIParam ->
    (forall yy, y <= yy < y2 -> cut_glyph x (x2 - x) (row_at inner yy) = false) ->
    (forall yy, y <= yy < y2 ->
       is_cont (cell_at (active o) x yy) = false /\ is_cont (cell_at (active o) x2 yy) = false) ->
    exists o2,
      (forall rest, run_bytes wc ogrid (after_prologue o)
                      (render_rows (screen_line true grid inner) (x, y, x2, y2) ++ rest)
                    = run_bytes wc ogrid o2 rest) /\
      TInv o2 /\ awrap (active o2) = false /\
      svx (active o2) = cx (active o) /\ svy (active o2) = cy (active o) /\
      onalt o2 = onalt o /\ vflags o2 = vflags o /\
      sW (active o2) = sW (active o) /\ sH (active o2) = sH (active o) /\
      (forall yy, y <= yy < y2 ->
         row_at (active o2) yy = paint_row x x2 (row_at (active o) yy) (row_at inner yy)) /\
      (forall yy, ~ (y <= yy < y2) -> row_at (active o2) yy = row_at (active o) yy).
  Proof.
    intros Ho Ii Ri Ec Hne HW HH HmW HmH Hcut Hout.
    pose proof (inv_w _ Ii) as Wi. pose proof (inv_h _ Ii) as Hi.
    destruct (clamp_region_range r (sW inner) (sH inner) x y x2 y2 ltac:(lia) ltac:(lia) Ec) as (Cx & Cy & Cx2 & Cy2).
    unfold rect_empty in Hne. apply orb_false_iff in Hne. destruct Hne as (N1 & N2).
    apply Z.leb_gt in N1, N2.
    destruct (after_prologue_inv o Ho) as (Hp & Op & Vp & Wp & Hhp).
    destruct (after_prologue_facts o) as (P1 & P2 & P3 & P4 & _ & _).
    pose proof (rows_row_at _ _ P4) as RAp.
    destruct (rows_over inner x x2 Ii Ri ltac:(lia) ltac:(lia) (Z.to_nat (y2 - y)) y (after_prologue o) Hp P3
                ltac:(lia) ltac:(lia) ltac:(rewrite Hhp; lia) ltac:(rewrite Wp; lia)
                ltac:(rewrite Wp; lia) ltac:(rewrite Hhp; lia)
                ltac:(intros yy Hyy; apply Hcut; lia)
                ltac:(intros yy Hyy; unfold cell_at; rewrite RAp; apply Hout; lia))
      as (o2 & E & Ho2 & A2 & (FO & FV & FW & FH & FSX & FSY) & In2 & Out2).
    exists o2. split; [intros rest; unfold render_rows, zseq; apply E|].
    split; [exact Ho2|]. split; [exact A2|]. split; [congruence|]. split; [congruence|].
    split; [congruence|]. split; [congruence|]. split; [congruence|]. split; [congruence|]. split.
    - intros yy Hyy. rewrite In2 by lia. rewrite RAp. reflexivity.
    - intros yy Hyy. rewrite Out2 by lia. apply RAp.
  Qed.

  (* the same cell by cell *)
  Definition in_rect (x y x2 y2 xx yy : Z) : bool :=
    (x <=? xx) && (xx <? x2) && (y <=? yy) && (yy <? y2).

  Lemma painted_cells o o2 inner x y x2 y2 :
    TInv o -> Inv inner -> 0 <= x <= x2 -> x2 <= sW inner -> 0 <= y -> y2 <= sH inner ->
    x2 <= sW (active o) -> y2 <= sH (active o) ->
    (forall yy, y <= yy < y2 ->
       row_at o2 yy = paint_row x x2 (row_at (active o) yy) (row_at inner yy)) ->
    (forall yy, ~ (y <= yy < y2) -> row_at o2 yy = row_at (active o) yy) ->
    forall xx yy, cell_at o2 xx yy =
      if in_rect x y x2 y2 xx yy then cell_at inner xx yy else cell_at (active o) xx yy.
  Proof.
    intros Ho Ii Hx Hx2 Hy Hy2 HW HH In2 Out2 xx yy. unfold cell_at, in_rect.
    pose proof (TInv_active o Ho) as Ia.
    destruct (Z.leb_spec y yy) as [Y1|Y1]; [destruct (Z.ltb_spec yy y2) as [Y2|Y2]|].
    - rewrite In2 by lia. rewrite paint_row_cells; [|lia| |].
      + destruct ((x <=? xx) && (xx <? x2)); reflexivity.
      + rewrite (row_at_len _ _ Ia) by lia. lia.
      + rewrite (row_at_len _ _ Ii) by lia. lia.
    - rewrite Out2 by lia. rewrite !andb_false_r. reflexivity.
    - rewrite Out2 by lia. rewrite andb_false_r. reflexivity.
  Qed.

  (* ---- (3) the whole repaint ---- *)

  (* the hypotheses of TtyProofs.region_frame are met by the row part *)
  Theorem tty_region_repaint t o inner r x y x2 y2 tail :
    hasout t = true -> attached t = true ->
    TInv o -> Inv inner -> Forall (renderable wc) (rows inner) ->
    clamp_region r (sW inner) (sH inner) = (x, y, x2, y2) -> rect_empty (x, y, x2, y2) = false ->
    x2 <= sW (active o) -> y2 <= sH (active o) -> sW (active o) <= maxCSIParam -> sH (active o) <= maxCSIParam ->
    (forall yy, y <= yy < y2 -> cut_glyph x (x2 - x) (row_at inner yy) = false) ->
    (forall yy, y <= yy < y2 ->
       is_cont (cell_at (active o) x yy) = false /\ is_cont (cell_at (active o) x2 yy) = false) ->
    exists o3,
      run_bytes wc ogrid o (render_region_fx true grid t inner r ++ tail)
        = run_bytes wc ogrid o3 (render_cursor t ++ tail) /\
      (forall xx yy, cell_at (active o3) xx yy =
         if in_rect x y x2 y2 xx yy then cell_at inner xx yy else cell_at (active o) xx yy) /\
      cx (active o3) = cx (active o) /\ cy (active o3) = cy (active o) /\
      awrap (active o3) = true /\ sty (active o3) = default_style /\ crashed o3 = false.
  Proof.
    intros Hout Hatt Ho Ii Ri Ec Hne HW HH HmW HmH Hcut Hcells.
    destruct (region_rows_over o inner r x y x2 y2 Ho Ii Ri Ec Hne HW HH HmW HmH Hcut Hcells)
      as (o2 & E & Ho2 & A2 & SX & SY & O2 & V2 & W2 & H2 & In2 & Out2).
    destruct (region_frame wc ogrid o _ o2 (render_cursor t ++ tail) (TInv_not_crashed o Ho) E
                (TInv_not_crashed o2 Ho2) SX SY) as (o3 & E3 & X3 & Y3 & A3 & S3 & R3 & C3).
    exists o3. split.
    { rewrite render_region_shape by (rewrite ?Ec; assumption). rewrite Ec.
      rewrite <- !app_assoc. exact E3. }
    split; [|repeat split; assumption].
    pose proof (inv_w _ Ii) as Wi. pose proof (inv_h _ Ii) as Hi.
    destruct (clamp_region_range r (sW inner) (sH inner) x y x2 y2 ltac:(lia) ltac:(lia) Ec) as (Cx & Cy & Cx2 & Cy2).
    unfold rect_empty in Hne. apply orb_false_iff in Hne. destruct Hne as (N1 & N2).
    apply Z.leb_gt in N1, N2.
    intros xx yy.
    assert (EC : cell_at (active o3) xx yy = cell_at (active o2) xx yy) by (unfold cell_at, row_at; rewrite R3; reflexivity).
    rewrite EC.
    apply (painted_cells o (active o2) inner x y x2 y2 Ho Ii); try lia; assumption.
  Qed.

  (* ---- the whole repaint including the final cursor update ---- *)
  Lemma onalt_hide t0 : onalt (exec_tok (TCsi 63 [25] 108) t0) = onalt t0.
  Proof. reflexivity. Qed.

  Lemma after_epilogue_inv o2 : TInv o2 ->
    TInv (after_epilogue o2) /\ onalt (after_epilogue o2) = onalt o2 /\ vflags (after_epilogue o2) = vflags o2 /\
    sW (active (after_epilogue o2)) = sW (active o2) /\ sH (active (after_epilogue o2)) = sH (active o2) /\
    rows (active (after_epilogue o2)) = rows (active o2) /\
    cx (active (after_epilogue o2)) = svx (active o2) /\ cy (active (after_epilogue o2)) = svy (active o2) /\
    awrap (active (after_epilogue o2)) = true /\ sty (active (after_epilogue o2)) = default_style.
  Proof.
    intros Ht. unfold after_epilogue.
    set (f := fun s => set_style (sgr_apply [0] (sty s)) s).
    assert (Pf : Pres f) by (intros s Hs; apply Pres_set_style, Hs).
    split; [apply on_screen_ok; [apply Pres_restore_cursor|apply on_screen_ok; [apply Pres_set_awrap|apply on_screen_ok; [exact Pf|exact Ht]]]|].
    destruct (RenderProofs.active_on_screen restore_cursor (on_screen (set_awrap true) (on_screen f o2))) as (E1 & O1).
    destruct (RenderProofs.active_on_screen (set_awrap true) (on_screen f o2)) as (E2 & O2).
    destruct (RenderProofs.active_on_screen f o2) as (E3 & O3).
    rewrite O1, O2, O3, !vflags_on_screen_, E1, E2, E3. repeat split; reflexivity.
  Qed.

  (* RegionChanged / Attach as a whole: ESC[s ESC[?7l rows ESC[0m ESC[?7h ESC[u cursor.
     All bytes are consumed; inside the clamped region the outer cells are the
     inner cells, outside they are unchanged; autowrap is on, the style is the
     default style; the outer cursor sits on the inner cursor and is shown when
     the terminal shows its cursor, the frontend is focused and the cursor lies
     in the attach region, otherwise it is hidden and where the outer
     application left it. *)
  Theorem tty_region_repaint_cursor t o inner r x y x2 y2 :
    hasterm t = true -> hasout t = true -> attached t = true ->
    TInv o -> zlen (vflags o) = 6 -> Inv inner -> Forall (renderable wc) (rows inner) ->
    clamp_region r (sW inner) (sH inner) = (x, y, x2, y2) -> rect_empty (x, y, x2, y2) = false ->
    x2 <= sW (active o) -> y2 <= sH (active o) -> sW (active o) <= maxCSIParam -> sH (active o) <= maxCSIParam ->
    (forall yy, y <= yy < y2 -> cut_glyph x (x2 - x) (row_at inner yy) = false) ->
    (forall yy, y <= yy < y2 ->
       is_cont (cell_at (active o) x yy) = false /\ is_cont (cell_at (active o) x2 yy) = false) ->
    (cur_in_region t = true -> 0 <= curx t < sW (active o) /\ 0 <= cury t < sH (active o)) ->
    let res := run_bytes wc ogrid o (render_region_fx true grid t inner r) in
    let o' := fst res in
    snd res = [] /\
    (forall xx yy, cell_at (active o') xx yy =
       if in_rect x y x2 y2 xx yy then cell_at inner xx yy else cell_at (active o) xx yy) /\
    awrap (active o') = true /\ sty (active o') = default_style /\ onalt o' = onalt o /\
    if showcur t && focused t && cur_in_region t
    then cx (active o') = curx t /\ cy (active o') = cury t /\ show_flag o' = true
    else show_flag o' = false /\ cx (active o') = cx (active o) /\ cy (active o') = cy (active o).
  Proof.
    intros Hterm Hout Hatt Ho Hvf Ii Ri Ec Hne HW HH HmW HmH Hcut Hcells Hcur res o'.
    destruct (region_rows_over o inner r x y x2 y2 Ho Ii Ri Ec Hne HW HH HmW HmH Hcut Hcells)
      as (o2 & E & Ho2 & A2 & SX & SY & O2 & V2 & W2 & H2 & In2 & Out2).
    destruct (after_epilogue_inv o2 Ho2) as (Ho3 & O3 & V3 & W3 & H3 & R3 & X3 & Y3 & A3 & S3).
    set (o3 := after_epilogue o2) in *.
    assert (Erun : res = run_bytes wc ogrid o3 (render_cursor t)).
    { subst res. rewrite render_region_shape by (rewrite ?Ec; assumption). rewrite Ec.
      rewrite run_prologue by (apply TInv_not_crashed, Ho). rewrite E.
      rewrite run_epilogue by (apply TInv_not_crashed, Ho2). reflexivity. }
    pose proof (inv_w _ Ii) as Wi. pose proof (inv_h _ Ii) as Hi.
    destruct (clamp_region_range r (sW inner) (sH inner) x y x2 y2 ltac:(lia) ltac:(lia) Ec) as (Cx & Cy & Cx2 & Cy2).
    unfold rect_empty in Hne. apply orb_false_iff in Hne. destruct Hne as (N1 & N2).
    apply Z.leb_gt in N1, N2.
    assert (Cells3 : forall xx yy, cell_at (active o3) xx yy =
              if in_rect x y x2 y2 xx yy then cell_at inner xx yy else cell_at (active o) xx yy).
    { intros xx yy.
      assert (EC : cell_at (active o3) xx yy = cell_at (active o2) xx yy) by (unfold cell_at, row_at; rewrite R3; reflexivity).
      rewrite EC. apply (painted_cells o (active o2) inner x y x2 y2 Ho Ii); try lia; assumption. }
    assert (Ecur : render_cursor t =
              if showcur t && focused t && cur_in_region t then ansi_move_cursor (curx t) (cury t) ++ ansi_cursor_show
              else ansi_cursor_hide).
    { unfold render_cursor, render_cursor_gen. rewrite Hterm, Hout, Hatt. cbn [negb orb andb].
      destruct (showcur t), (focused t); cbn [negb orb andb]; try reflexivity.
      destruct (cur_in_region t); reflexivity. }
    subst o'. rewrite Erun, Ecur.
    destruct (showcur t && focused t && cur_in_region t) eqn:Eb.
    - apply andb_true_iff in Eb. destruct Eb as (_ & Eb). destruct (Hcur Eb) as (Hcx & Hcy).
      destruct (outer_cursor_shown wc ogrid scan_itoa o3 (curx t) (cury t) (TInv_not_crashed o3 Ho3)
                  ltac:(congruence) ltac:(rewrite W3, W2; exact Hcx) ltac:(rewrite H3, H2; exact Hcy)
                  ltac:(rewrite W3, W2; exact HmW) ltac:(rewrite H3, H2; exact HmH))
        as (Q1 & Q2 & Q3 & Q4 & Q5 & Q6 & Q7 & Q8).
      split; [exact Q1|]. split.
      { intros xx yy. rewrite <- Cells3. unfold cell_at, row_at. rewrite Q5. reflexivity. }
      split; [congruence|]. split; [congruence|]. split; [congruence|]. auto.
    - destruct (outer_cursor_hidden wc ogrid o3 (TInv_not_crashed o3 Ho3) ltac:(congruence)) as (Q1 & Q2 & Q3).
      split; [exact Q1|]. rewrite Q3. split; [exact Cells3|].
      split; [exact A3|]. split; [exact S3|]. split.
      { assert (Oh : onalt (fst (run_bytes wc ogrid o3 ansi_cursor_hide)) = onalt o3).
        { rewrite <- (app_nil_r ansi_cursor_hide).
          rewrite (run_bytes_step wc ogrid o3 _ _ _ (TInv_not_crashed o3 Ho3) (parse_hide wc ogrid [])).
          rewrite EscapeProofs.run_bytes_nil. cbn [fst]. apply onalt_hide. }
        rewrite Oh. congruence. }
      split; [exact Q2|]. split; congruence.
  Qed.

  (* ---- the two callers of renderRegionLocked ---- *)
  Lemma tty_attach_bytes t inner r : hasterm t = true ->
    snd (tty_attach grid t inner r) = render_region_fx true grid (fst (tty_attach grid t inner r)) inner r.
  Proof.
    intros H. destruct r as [[[a b] c] d]. unfold tty_attach, tty_attach_fx, tty_attach_gen. cbn [fst snd].
    rewrite H. reflexivity.
  Qed.

  (* RegionChanged(r): the repaint of the intersection of r with the attach region *)
  Theorem tty_region_changed_repaint t o inner r x y x2 y2 :
    hasterm t = true -> hasout t = true -> attached t = true ->
    TInv o -> zlen (vflags o) = 6 -> Inv inner -> Forall (renderable wc) (rows inner) ->
    clamp_region (intersect r (tty_region t)) (sW inner) (sH inner) = (x, y, x2, y2) -> rect_empty (x, y, x2, y2) = false ->
    x2 <= sW (active o) -> y2 <= sH (active o) -> sW (active o) <= maxCSIParam -> sH (active o) <= maxCSIParam ->
    (forall yy, y <= yy < y2 -> cut_glyph x (x2 - x) (row_at inner yy) = false) ->
    (forall yy, y <= yy < y2 ->
       is_cont (cell_at (active o) x yy) = false /\ is_cont (cell_at (active o) x2 yy) = false) ->
    (cur_in_region t = true -> 0 <= curx t < sW (active o) /\ 0 <= cury t < sH (active o)) ->
    let res := run_bytes wc ogrid o (snd (tty_region_changed grid t inner r)) in
    let o' := fst res in
    snd res = [] /\
    (forall xx yy, cell_at (active o') xx yy =
       if in_rect x y x2 y2 xx yy then cell_at inner xx yy else cell_at (active o) xx yy) /\
    awrap (active o') = true /\ sty (active o') = default_style /\ onalt o' = onalt o /\
    if showcur t && focused t && cur_in_region t
    then cx (active o') = curx t /\ cy (active o') = cury t /\ show_flag o' = true
    else show_flag o' = false /\ cx (active o') = cx (active o) /\ cy (active o') = cy (active o).
  Proof.
    intros Hterm Hout Hatt. unfold tty_region_changed.
    rewrite (tty_region_changed_intersect true grid t inner r Hatt Hterm Hout). cbn [snd].
    apply tty_region_repaint_cursor; assumption.
  Qed.

  (* Attach(r): the repaint of r by the frontend as Attach leaves it *)
  Theorem tty_attach_repaint t o inner r x y x2 y2 :
    hasterm t = true -> hasout t = true ->
    let t' := fst (tty_attach grid t inner r) in
    TInv o -> zlen (vflags o) = 6 -> Inv inner -> Forall (renderable wc) (rows inner) ->
    clamp_region r (sW inner) (sH inner) = (x, y, x2, y2) -> rect_empty (x, y, x2, y2) = false ->
    x2 <= sW (active o) -> y2 <= sH (active o) -> sW (active o) <= maxCSIParam -> sH (active o) <= maxCSIParam ->
    (forall yy, y <= yy < y2 -> cut_glyph x (x2 - x) (row_at inner yy) = false) ->
    (forall yy, y <= yy < y2 ->
       is_cont (cell_at (active o) x yy) = false /\ is_cont (cell_at (active o) x2 yy) = false) ->
    (cur_in_region t' = true -> 0 <= curx t' < sW (active o) /\ 0 <= cury t' < sH (active o)) ->
    let res := run_bytes wc ogrid o (snd (tty_attach grid t inner r)) in
    let o' := fst res in
    snd res = [] /\
    (forall xx yy, cell_at (active o') xx yy =
       if in_rect x y x2 y2 xx yy then cell_at inner xx yy else cell_at (active o) xx yy) /\
    awrap (active o') = true /\ sty (active o') = default_style /\ onalt o' = onalt o /\
    if showcur t' && focused t' && cur_in_region t'
    then cx (active o') = curx t' /\ cy (active o') = cury t' /\ show_flag o' = true
    else show_flag o' = false /\ cx (active o') = cx (active o) /\ cy (active o') = cy (active o).
  Proof.
    intros Hterm Hout t'. rewrite (tty_attach_bytes t inner r Hterm). fold t'.
    assert (E : hasterm t' = true /\ hasout t' = true /\ attached t' = true).
    { subst t'. destruct r as [[[a b] c] d]. unfold tty_attach, tty_attach_fx, tty_attach_gen. cbn [fst].
      unfold set_attach. cbn [hasterm hasout attached]. auto. }
    destruct E as (E1 & E2 & E3). apply tty_region_repaint_cursor; assumption.
  Qed.
End Region.

(* ================================================================== *)
(* non-vacuity: a computed instance                                     *)
(* ================================================================== *)
From Termemu Require RenderInv.
(* Width oracle: U+4E2D is two cells wide, everything else one.
   Inner 6x3 screen:  row 0  a [U+4E2D, bold red] b c _      row 1  x y [U+4E2D] z _ (blue background from column 2)
   Region (1,0)-(5,2): its left edge (column 1) and right edge (column 5) cut no glyph.
   Outer 8x4 terminal: dots, with wide glyphs at (2..3, 0) and (3..4, 1) INSIDE the region
   (they are overwritten half by half), and one at (5..6, 0) just right of it, whose
   head is at column 5 = x2 and must survive; cursor at (7,3), green, autowrap on. *)
Definition exr_wc : Z -> Z := RenderProofs.ex_wc.
Definition exr_inner_bytes : list Z :=
  [97; 27;91;49;59;51;49;109; 228;184;173; 27;91;48;109; 98; 99;
   27;91;50;59;49;72; 120; 121; 27;91;52;52;109; 228;184;173; 122].
Definition exr_inner_term : term := fst (run_hist exr_wc true (init_term 6 3) [HFeed exr_inner_bytes]).
Definition exr_inner : screen := tmain exr_inner_term.
Definition exr_outer_bytes : list Z :=
  [27;91;49;59;49;72; 46;46; 228;184;173; 46; 228;184;173; 46;
   27;91;50;59;49;72; 46;46;46; 228;184;173; 46;46;46;
   27;91;51;59;49;72] ++ repeat 46 8 ++ [27;91;52;59;49;72] ++ repeat 46 8
  ++ [27;91;51;50;109; 27;91;63;55;104; 27;91;52;59;56;72].
Definition exr_outer : term := fst (run_bytes exr_wc true (init_term 8 4) exr_outer_bytes).
Definition exr_r : rect := (1, 0, 5, 2).
Definition exr_tty : tty :=
  fst (tty_attach true (set_tcur (cx exr_inner) (cy exr_inner) (tty_new true)) exr_inner exr_r).

(* every hypothesis of tty_region_repaint_cursor holds for this instance *)
Example region_repaint_hyps :
  hasterm exr_tty = true /\ hasout exr_tty = true /\ attached exr_tty = true /\
  TInv exr_outer /\ zlen (vflags exr_outer) = 6 /\ Inv exr_inner /\ Forall (renderable exr_wc) (rows exr_inner) /\
  clamp_region exr_r (sW exr_inner) (sH exr_inner) = (1, 0, 5, 2) /\ rect_empty (1, 0, 5, 2) = false /\
  5 <= sW (active exr_outer) /\ 2 <= sH (active exr_outer) /\
  sW (active exr_outer) <= maxCSIParam /\ sH (active exr_outer) <= maxCSIParam /\
  (forall yy, 0 <= yy < 2 -> cut_glyph 1 (5 - 1) (row_at exr_inner yy) = false) /\
  (forall yy, 0 <= yy < 2 ->
     is_cont (cell_at (active exr_outer) 1 yy) = false /\ is_cont (cell_at (active exr_outer) 5 yy) = false) /\
  (cur_in_region exr_tty = true -> 0 <= curx exr_tty < sW (active exr_outer) /\ 0 <= cury exr_tty < sH (active exr_outer)).
Proof.
  assert (Ti : TInv exr_inner_term).
  { unfold exr_inner_term, run_hist. cbn [fold_left hstep fst snd app].
    apply TInv_run_bytes, TInv_init; lia. }
  split; [reflexivity|]. split; [reflexivity|]. split; [reflexivity|].
  split; [apply TInv_run_bytes, TInv_init; lia|]. split; [reflexivity|].
  split; [apply Ti|]. split.
  { apply (RenderInv.reachable_rows_renderable exr_wc RenderInv.ex_wc_space 2 RenderInv.ex_wc_max 6 3
             [HFeed exr_inner_bytes]); try lia. repeat constructor. }
  split; [vm_compute; reflexivity|]. split; [reflexivity|].
  split; [vm_compute; discriminate|]. split; [vm_compute; discriminate|].
  split; [vm_compute; discriminate|]. split; [vm_compute; discriminate|].
  split.
  { intros yy Hyy. assert (C : yy = 0 \/ yy = 1) by lia. destruct C as [->| ->]; vm_compute; reflexivity. }
  split.
  { intros yy Hyy. assert (C : yy = 0 \/ yy = 1) by lia. destruct C as [->| ->]; vm_compute; split; reflexivity. }
  intros _. vm_compute. repeat split; discriminate.
Qed.

(* what the instance looks like: wide glyphs and styles really are there *)
Example region_repaint_instance_shape :
  map cwid (row_at exr_inner 0) = [1; 2; 0; 1; 1; 1] /\ map cwid (row_at exr_inner 1) = [1; 1; 2; 0; 1; 1] /\
  cst (cell_at exr_inner 1 0) = mkStyle (CIdx 1) CDef 1 /\ cst (cell_at exr_inner 2 1) = mkStyle CDef (CIdx 4) 0 /\
  map cwid (row_at (active exr_outer) 0) = [1; 1; 2; 0; 1; 2; 0; 1] /\
  map cwid (row_at (active exr_outer) 1) = [1; 1; 1; 2; 0; 1; 1; 1] /\
  (cx (active exr_outer), cy (active exr_outer), awrap (active exr_outer)) = (7, 3, true) /\
  (cx exr_inner, cy exr_inner) = (5, 1).
Proof. vm_compute. repeat split; reflexivity. Qed.

(* the conclusion, computed independently of the theorem: inside the region the
   outer cells are the inner cells (text, width, style), outside nothing changed
   (the wide glyph at columns 5..6 of row 0 is intact); the inner cursor (5,1) is
   outside the attach region, so the outer cursor stays at (7,3), hidden *)
Example region_repaint_computed :
  let res := run_bytes exr_wc true exr_outer (render_region_fx true true exr_tty exr_inner exr_r) in
  let o' := fst res in
  snd res = [] /\
  cells_agree (active o') exr_inner 1 0 5 2 = true /\
  cells_agree (active o') (active exr_outer) 0 0 1 4 = true /\
  cells_agree (active o') (active exr_outer) 5 0 8 4 = true /\
  cells_agree (active o') (active exr_outer) 0 2 8 4 = true /\
  map cwid (row_at (active o') 0) = [1; 2; 0; 1; 1; 2; 0; 1] /\
  awrap (active o') = true /\ sty (active o') = default_style /\
  (cx (active o'), cy (active o')) = (7, 3) /\ show_flag o' = false.
Proof. vm_compute. repeat split; reflexivity. Qed.

(* the theorem applied to the instance *)
Example region_repaint_applied :
  let res := run_bytes exr_wc true exr_outer (render_region_fx true true exr_tty exr_inner exr_r) in
  snd res = [] /\
  (forall xx yy, cell_at (active (fst res)) xx yy =
     if in_rect 1 0 5 2 xx yy then cell_at exr_inner xx yy else cell_at (active exr_outer) xx yy).
Proof.
  destruct region_repaint_hyps as (H1 & H2 & H3 & H4 & H5 & H6 & H7 & H8 & H9 & H10 & H11 & H12 & H13 & H14 & H15 & H16).
  destruct (tty_region_repaint_cursor exr_wc true true exr_tty exr_outer exr_inner exr_r 1 0 5 2
              H1 H2 H3 H4 H5 H6 H7 H8 H9 H10 H11 H12 H13 H14 H15 H16) as (A & B & _).
  split; assumption.
Qed.

(* KF-C11-cut-glyph, outer side: without the hypothesis on the outer cell at x2 the
   statement is false.  Same inner screen, region (1,0)-(4,2): column 4 of outer
   row 1 is the second half of the glyph at 3..4, whose head (inside) is
   overwritten; the half outside the region becomes a blank instead of staying. *)
Example region_repaint_outer_cut :
  let r := (1, 0, 4, 2) in
  let t := fst (tty_attach true (tty_new true) exr_inner r) in
  let o' := fst (run_bytes exr_wc true exr_outer (render_region_fx true true t exr_inner r)) in
  cut_glyph 1 (4 - 1) (row_at exr_inner 0) = false /\ cut_glyph 1 (4 - 1) (row_at exr_inner 1) = false /\
  is_cont (cell_at (active exr_outer) 4 1) = true /\
  cell_at (active o') 4 1 <> cell_at (active exr_outer) 4 1 /\
  ctext (cell_at (active o') 4 1) = [32] /\ cwid (cell_at (active o') 4 1) = 1.
Proof. vm_compute. repeat split; try reflexivity. discriminate. Qed.

(* ... and on the left: region (4,0)-(6,2); column 4 of outer row 1 is the second
   half of the glyph at 3..4: writing at column 4 blanks its head at column 3,
   which lies outside the region *)
Example region_repaint_outer_cut_left :
  let r := (4, 0, 6, 2) in
  let t := fst (tty_attach true (tty_new true) exr_inner r) in
  let o' := fst (run_bytes exr_wc true exr_outer (render_region_fx true true t exr_inner r)) in
  cut_glyph 4 (6 - 4) (row_at exr_inner 0) = false /\ cut_glyph 4 (6 - 4) (row_at exr_inner 1) = false /\
  is_cont (cell_at (active exr_outer) 4 1) = true /\
  cwid (cell_at (active exr_outer) 3 1) = 2 /\
  ctext (cell_at (active o') 3 1) = [32] /\ cwid (cell_at (active o') 3 1) = 1.
Proof. vm_compute. repeat split; reflexivity. Qed.

(* KF-C11-cut-glyph, inner side: region (2,0)-(5,1); its left edge cuts the wide
   glyph at columns 1..2 of inner row 0 (the outer cells at the edges are fine).
   "b c" is drawn one column too far left and column 4 keeps its old dot: the
   outer cells of the region are NOT the inner cells *)
Example region_repaint_inner_cut :
  let r := (2, 0, 5, 1) in
  let t := fst (tty_attach true (tty_new true) exr_inner r) in
  let o' := fst (run_bytes exr_wc true exr_outer (render_region_fx true true t exr_inner r)) in
  cut_glyph 2 (5 - 2) (row_at exr_inner 0) = true /\
  is_cont (cell_at (active exr_outer) 2 0) = false /\ is_cont (cell_at (active exr_outer) 5 0) = false /\
  map ctext (zfirstn 3 (zskipn 2 (row_at exr_inner 0))) = [[]; [98]; [99]] /\
  map ctext (zfirstn 3 (zskipn 2 (row_at (active o') 0))) = [[98]; [99]; [46]] /\
  cells_agree (active o') exr_inner 2 0 5 1 = false.
Proof. vm_compute. repeat split; reflexivity. Qed.
