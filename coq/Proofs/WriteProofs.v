(* C03: where a printable glyph lands, how the cursor advances, wrap and pin at
   the right edge. *)
From Coq Require Import List ZArith Bool Lia.
From Termemu Require Import Base Style Screen BaseLemmas ScreenInv CursorProofs.
Import ListNotations.
Open Scope Z_scope.

(* width actually used: at least 1, at most the screen width *)
Definition gw (s : screen) (w0 : Z) : Z :=
  let w1 := if w0 <? 1 then 1 else w0 in if sW s <? w1 then sW s else w1.

Lemma gw_range s w0 : Inv s -> 1 <= gw s w0 <= sW s.
Proof.
  intros Hs. pose proof (inv_w s Hs). unfold gw.
  destruct (Z.ltb_spec w0 1).
  - destruct (Z.ltb_spec (sW s) 1); lia.
  - destruct (Z.ltb_spec (sW s) w0); lia.
Qed.

(* the write itself: one row changes, by an overwrite at the given column *)
Definition wrote (s s' : screen) (x : Z) (txt : list Z) (w : Z) : Prop :=
  rows s' = zupd (cy s) (overwrite (sty s) x (glyph_cells txt w (sty s)) (row_at s (cy s))) (rows s).

Definition frame_nocur (s s' : screen) : Prop :=
  sW s' = sW s /\ sH s' = sH s /\ svx s' = svx s /\ svy s' = svy s /\ top s' = top s /\ bot s' = bot s /\
  awrap s' = awrap s /\ sty s' = sty s /\ crash s' = 0.

(* a state that differs from s only in the trigger marks behaves like s for everything below *)
Lemma write_row_cells_rows reason x y new s : Inv s -> 0 <= y < sH s -> 0 <= x -> 0 < zlen new -> x + zlen new <= sW s ->
  let s' := write_row_cells reason x y new s in
  rows s' = zupd y (overwrite (sty s) x new (row_at s y)) (rows s) /\ cx s' = cx s /\ cy s' = cy s /\ frame_nocur s s'.
Proof.
  intros Hs Hy Hx Hn Hl. unfold write_row_cells.
  destruct (Z.leb_spec (zlen new) 0); [lia|].
  destruct (Z.ltb_spec y 0); [lia|]. destruct (Z.leb_spec (sH s) y); [lia|].
  destruct (Z.ltb_spec x 0); [lia|]. destruct (Z.ltb_spec (sW s) (x + zlen new)); [lia|]. cbn [orb].
  pose proof (inv_crash s Hs) as C.
  destruct (is_cont _); cbn; repeat split; auto.
Qed.

Lemma move_after_write w s : Inv s -> 0 <= w -> cx s + w < sW s ->
  let s' := move_cursor w 0 true true s in
  cx s' = cx s + w /\ cy s' = cy s /\ same_but_cursor s s'.
Proof.
  intros Hs Hw Hl. pose proof (inv_w s Hs). pose proof (inv_cx s Hs). pose proof (inv_cy s Hs). pose proof (inv_h s Hs).
  unfold move_cursor. cbn [andb].
  assert (M : (cx s + w) mod sW s = cx s + w) by (apply Z.mod_small; lia).
  assert (D : (cx s + w) / sW s = 0) by (apply Z.div_small; lia).
  assert (Cx : clamp (cx s + w) 0 (sW s - 1) = cx s + w) by (apply clamp_id; lia).
  assert (Cy : clamp (cy s) 0 (sH s - 1) = cy s) by (apply clamp_id; lia).
  destruct (awrap s); cbn [fst snd]; rewrite ?M, ?D, ?Cx, ?Z.add_0_r;
    (destruct ((top s <=? cy s) && (cy s <=? bot s)) eqn:E;
     [apply andb_true_iff in E; destruct E as [Ea Eb]; apply Z.leb_le in Ea, Eb;
      destruct (Z.ltb_spec (cy s) (top s)); [lia|]; destruct (Z.ltb_spec (bot s) (cy s)); [lia|]|]);
    cbn; rewrite Cy; repeat split.
Qed.

(* no wrap, no pin: the glyph fits strictly inside the row *)
Theorem write_glyph_inside txt w0 s : Inv s -> cx s + gw s w0 < sW s ->
  let s' := write_glyph txt w0 s in
  wrote s s' (cx s) txt (gw s w0) /\ cx s' = cx s + gw s w0 /\ cy s' = cy s /\ frame_nocur s s'.
Proof.
  intros Hs Hfit. pose proof (gw_range s w0 Hs) as Hw. unfold gw in *.
  pose proof (inv_cx s Hs) as Hcx. pose proof (inv_cy s Hs) as Hcy.
  unfold write_glyph. rewrite (inv_crash s Hs). cbn [Z.eqb negb].
  set (w1 := if w0 <? 1 then 1 else w0) in *.
  set (sa := if sW s <? w1 then add_trig trWideOnNarrow s else s).
  assert (Ea : Inv sa /\ rows sa = rows s /\ sW sa = sW s /\ sH sa = sH s /\ cx sa = cx s /\ cy sa = cy s /\ sty sa = sty s
               /\ svx sa = svx s /\ svy sa = svy s /\ top sa = top s /\ bot sa = bot s /\ awrap sa = awrap s).
  { subst sa. destruct (sW s <? w1); (split; [try apply Inv_add_trig; exact Hs|repeat split]). }
  destruct Ea as (Ia & Ra & Wa & Ha & Xa & Ya & Sa & SXa & SYa & Ta & Ba & Aa).
  rewrite Wa, Xa. set (w := if sW s <? w1 then sW s else w1) in *.
  destruct (Z.ltb_spec (sW s) (cx s + w)); [lia|].
  destruct (write_row_cells_rows crText (cx sa) (cy sa) (glyph_cells txt w (sty sa)) sa Ia
              ltac:(rewrite Ya, Ha; exact Hcy) ltac:(rewrite Xa; lia)
              ltac:(rewrite glyph_cells_len by lia; lia) ltac:(rewrite glyph_cells_len, Xa, Wa by lia; lia))
    as (R1 & X1 & Y1 & (W1 & H1 & SX1 & SY1 & T1 & B1 & A1 & S1 & C1)).
  set (s2 := write_row_cells crText (cx sa) (cy sa) (glyph_cells txt w (sty sa)) sa) in *.
  rewrite C1. cbn [Z.eqb negb].
  assert (I2 : Inv s2).
  { apply write_row_cells_ok; [exact Ia|rewrite Ya, Ha; exact Hcy|rewrite Xa; lia|rewrite glyph_cells_len, Xa, Wa by lia; lia]. }
  destruct (move_after_write w s2 I2 ltac:(lia) ltac:(rewrite X1, Xa, W1, Wa; lia)) as (X3 & Y3 & (R3 & W3 & H3 & SX3 & SY3 & T3 & B3 & A3 & S3 & C3 & TR3)).
  unfold wrote, frame_nocur. repeat split; try congruence.
  rewrite R3, R1, Xa, Ya, Sa, Ra. unfold row_at. rewrite Ra. reflexivity.
Qed.

(* ---- the visible part of a screen: everything but the callback log and the finding marks ---- *)
Definition vis (s : screen) :=
  (rows s, sW s, sH s, cx s, cy s, svx s, svy s, (top s, bot s, awrap s, sty s, crash s)).

Ltac vis_inj H :=
  unfold vis in H; injection H as ? ? ? ? ? ? ? ? ? ? ? ?.

Lemma vis_scroll a b y1 y2 dy : vis a = vis b -> vis (scroll y1 y2 dy a) = vis (scroll y1 y2 dy b).
Proof.
  intros H. destruct a, b. vis_inj H. cbn in *. subst.
  unfold scroll. cbn [sW sH rows sty]. 
  repeat match goal with |- context [if ?c then _ else _] => destruct c end; reflexivity.
Qed.

Lemma vis_set_cur a b x y : vis a = vis b -> vis (set_cur x y a) = vis (set_cur x y b).
Proof. intros H. destruct a, b. vis_inj H. cbn in *. subst. reflexivity. Qed.

Lemma vis_emit a b e e' : vis a = vis b -> vis (emit e a) = vis (emit e' b).
Proof. intros H. destruct a, b. vis_inj H. cbn in *. subst. reflexivity. Qed.

Lemma vis_add_trig a v : vis (add_trig v a) = vis a.
Proof. destruct a. reflexivity. Qed.

Lemma vis_move_cursor a b dx dy wrap scr : vis a = vis b ->
  vis (move_cursor dx dy wrap scr a) = vis (move_cursor dx dy wrap scr b).
Proof.
  intros H. pose proof H as H0. destruct a, b. vis_inj H. cbn in *. subst.
  unfold move_cursor. cbn [cx cy sW sH awrap top bot].
  destruct (if wrap && _ then _ else _) as [x1 y1].
  destruct (scr && _).
  - destruct (_ <? _).
    + apply vis_emit, vis_set_cur, vis_scroll, H0.
    + destruct (_ <? _); [apply vis_emit, vis_set_cur, vis_scroll, H0|apply vis_emit, vis_set_cur, H0].
  - apply vis_emit, vis_set_cur, H0.
Qed.

Lemma vis_write_row_cells a b reason x y new : vis a = vis b ->
  vis (write_row_cells reason x y new a) = vis (write_row_cells reason x y new b).
Proof.
  intros H. pose proof H as H0. destruct a, b. vis_inj H. cbn in *. subst.
  unfold write_row_cells. cbn [sW sH rows sty row_at].
  destruct (_ <=? 0); [exact H0|]. destruct (_ || _); [reflexivity|].
  unfold row_at. cbn [rows]. destruct (is_cont _); reflexivity.
Qed.

(* the algorithm of writeString / writeTokens for one glyph, without bookkeeping *)
Definition write_core (txt : list Z) (w : Z) (s : screen) : screen :=
  let s1 := if sW s <? cx s + w
            then (if awrap s then move_cursor (- cx s) 1 false true s else set_cur (sW s - w) (cy s) s)
            else s in
  move_cursor w 0 true true (write_row_cells crText (cx s1) (cy s1) (glyph_cells txt w (sty s1)) s1).

Theorem write_glyph_core txt w0 s : Inv s -> vis (write_glyph txt w0 s) = vis (write_core txt (gw s w0) s).
Proof.
  intros Hs. pose proof (gw_range s w0 Hs) as Hw. unfold gw in *.
  unfold write_glyph, write_core. rewrite (inv_crash s Hs). cbn [Z.eqb negb].
  set (w1 := if w0 <? 1 then 1 else w0) in *.
  set (sa := if sW s <? w1 then add_trig trWideOnNarrow s else s).
  assert (Va : vis sa = vis s) by (subst sa; destruct (sW s <? w1); [apply vis_add_trig|reflexivity]).
  assert (Ia : Inv sa) by (subst sa; destruct (sW s <? w1); [apply Inv_add_trig|]; exact Hs).
  assert (Ea : sW sa = sW s /\ cx sa = cx s /\ cy sa = cy s /\ awrap sa = awrap s /\ sty sa = sty s /\ sH sa = sH s).
  { subst sa. destruct (sW s <? w1); repeat split. }
  destruct Ea as (Wa & Xa & Ya & Aa & Sa & Hha). rewrite Wa, Xa, Ya, Aa.
  set (w := if sW s <? w1 then sW s else w1) in *.
  set (s1 := if sW s <? cx s + w then _ else sa).
  set (s1' := if sW s <? cx s + w then _ else s).
  assert (V1 : vis s1 = vis s1').
  { subst s1 s1'. destruct (sW s <? cx s + w); [|exact Va].
    destruct (awrap s); [apply vis_move_cursor, Va|apply vis_set_cur, Va]. }
  assert (I1 : Inv s1 /\ cx s1 + w <= sW s1).
  { subst s1. pose proof (inv_cx s Hs). pose proof (inv_cy s Hs). destruct (Z.ltb_spec (sW s) (cx s + w)).
    - destruct (awrap s).
      + destruct (Pres_move_cursor (- cx s) 1 false true sa Ia) as (I & W' & H').
        split; [exact I|]. rewrite W', Wa, move_cursor_cx. cbn [andb]. rewrite Xa, Wa.
        replace (cx s + - cx s) with 0 by lia. rewrite clamp_id by lia. lia.
      + split; [apply Inv_set_cur; [exact Ia|rewrite Wa; lia|rewrite Hha; lia]|cbn; rewrite Wa; lia].
    - split; [exact Ia|rewrite Xa, Wa; lia]. }
  destruct I1 as (I1 & F1).
  assert (E1 : cx s1 = cx s1' /\ cy s1 = cy s1' /\ sty s1 = sty s1').
  { pose proof V1 as V. unfold vis in V. injection V as ? ? ? ? ? ? ? ? ? ? ? ?. repeat split; assumption. }
  destruct E1 as (X1 & Y1 & S1). rewrite <- X1, <- Y1, <- S1.
  pose proof (inv_cx s1 I1). pose proof (inv_cy s1 I1).
  destruct (write_row_cells_ok crText (cx s1) (cy s1) (glyph_cells txt w (sty s1)) s1 I1 ltac:(lia) ltac:(lia)
              ltac:(rewrite glyph_cells_len by lia; lia)) as (I2 & _ & _).
  rewrite (inv_crash _ I2). cbn [Z.eqb negb].
  apply vis_move_cursor, vis_write_row_cells, V1.
Qed.

(* (d) autowrap on and the glyph does not fit on the rest of the row: index first (scrolling at the
   bottom edge of the region), then the glyph is written from column 0 of the new row *)
Theorem write_core_wraps_first txt w s : Inv s -> 1 <= w <= sW s -> awrap s = true -> sW s < cx s + w ->
  let s0 := move_cursor (- cx s) 1 false true s in
  cx s0 = 0 /\ write_core txt w s = write_core txt w s0.
Proof.
  intros Hs Hw Ha Hnf s0. pose proof (inv_cx s Hs). pose proof (inv_w s Hs).
  assert (X0 : cx s0 = 0).
  { subst s0. rewrite move_cursor_cx. cbn [andb]. replace (cx s + - cx s) with 0 by lia. apply clamp_id. lia. }
  split; [exact X0|].
  destruct (Pres_move_cursor (- cx s) 1 false true s Hs) as (I0 & W0 & Hh0). fold s0 in I0, W0, Hh0.
  unfold write_core at 1. destruct (Z.ltb_spec (sW s) (cx s + w)); [|lia]. rewrite Ha. fold s0.
  unfold write_core. rewrite W0. destruct (Z.ltb_spec (sW s) (cx s0 + w)); [rewrite X0 in *; lia|reflexivity].
Qed.

(* (b) autowrap off and the glyph reaches or passes the right edge: it is pinned so that it ends in
   the last column, and the cursor stays in the last column *)
Theorem write_core_pins txt w s : Inv s -> 1 <= w <= sW s -> awrap s = false -> sW s <= cx s + w ->
  let s' := write_core txt w s in
  wrote s s' (sW s - w) txt w /\ cx s' = sW s - 1 /\ cy s' = cy s /\ frame_nocur s s'.
Proof.
  intros Hs Hw Ha Hnf. pose proof (inv_cx s Hs) as Hcx. pose proof (inv_cy s Hs) as Hcy.
  pose proof (inv_w s Hs). pose proof (inv_h s Hs).
  unfold write_core. rewrite Ha.
  set (s1 := if sW s <? cx s + w then set_cur (sW s - w) (cy s) s else s).
  assert (E1 : Inv s1 /\ cx s1 = sW s - w /\ cy s1 = cy s /\ rows s1 = rows s /\ sty s1 = sty s /\ sW s1 = sW s /\ sH s1 = sH s
               /\ svx s1 = svx s /\ svy s1 = svy s /\ top s1 = top s /\ bot s1 = bot s /\ awrap s1 = false).
  { subst s1. destruct (Z.ltb_spec (sW s) (cx s + w)).
    - split; [apply Inv_set_cur; [exact Hs|lia|lia]|]. cbn. repeat split; auto.
    - split; [exact Hs|]. repeat split; auto. lia. }
  destruct E1 as (I1 & X1 & Y1 & R1 & S1 & W1 & Hh1 & SX1 & SY1 & T1 & B1 & A1).
  destruct (write_row_cells_rows crText (cx s1) (cy s1) (glyph_cells txt w (sty s1)) s1 I1
              ltac:(rewrite Y1, Hh1; exact Hcy) ltac:(rewrite X1; lia)
              ltac:(rewrite glyph_cells_len by lia; lia) ltac:(rewrite glyph_cells_len, X1, W1 by lia; lia))
    as (R2 & X2 & Y2 & (W2 & Hh2 & SX2 & SY2 & T2 & B2 & A2 & S2 & C2)).
  set (s2 := write_row_cells crText (cx s1) (cy s1) (glyph_cells txt w (sty s1)) s1) in *.
  (* advance with autowrap off: clamp to the last column, no scroll *)
  clearbody s2. unfold move_cursor. rewrite A2, A1. cbn [andb].
  rewrite X2, X1, W2, W1, Y2, Y1, Hh2, Hh1, T2, T1, B2, B1.
  replace (sW s - w + w) with (sW s) by lia.
  assert (Cx : clamp (sW s) 0 (sW s - 1) = sW s - 1) by (rewrite clamp_spec by lia; lia).
  assert (Cy : clamp (cy s) 0 (sH s - 1) = cy s) by (apply clamp_id; lia).
  rewrite Cx, Z.add_0_r.
  destruct ((top s <=? cy s) && (cy s <=? bot s)) eqn:E.
  - apply andb_true_iff in E. destruct E as [Ea Eb]. apply Z.leb_le in Ea, Eb.
    destruct (Z.ltb_spec (cy s) (top s)); [lia|]. destruct (Z.ltb_spec (bot s) (cy s)); [lia|].
    cbn. rewrite Cy. unfold wrote, frame_nocur. cbn. rewrite R2, X1, Y1, S1, R1. unfold row_at. rewrite R1.
    repeat split; congruence.
  - cbn. rewrite Cy. unfold wrote, frame_nocur. cbn. rewrite R2, X1, Y1, S1, R1. unfold row_at. rewrite R1.
    repeat split; congruence.
Qed.

(* (c) autowrap on and the glyph exactly fills the rest of the row: it is written in place, then the
   cursor wraps at once to column 0 of the next row; at the bottom edge of the scroll region that
   scrolls the region up by one (this emulator has no deferred-wrap state) *)
Theorem write_core_fills_and_wraps txt w s : Inv s -> 1 <= w <= sW s -> awrap s = true -> cx s + w = sW s ->
  let s' := write_core txt w s in
  let written := set_rows (zupd (cy s) (overwrite (sty s) (cx s) (glyph_cells txt w (sty s)) (row_at s (cy s))) (rows s)) s in
  cx s' = 0 /\
  (at_bottom_edge s = false -> wrote s s' (cx s) txt w /\ cy s' = Z.min (cy s + 1) (sH s - 1) /\ frame_nocur s s') /\
  (at_bottom_edge s = true -> cy s' = cy s /\ rows s' = rows (scroll (top s) (bot s) (-1) written) /\ frame_nocur s s').
Proof.
  intros Hs Hw Ha Hfill. pose proof (inv_cx s Hs) as Hcx. pose proof (inv_cy s Hs) as Hcy.
  pose proof (inv_w s Hs). pose proof (inv_h s Hs). pose proof (inv_top s Hs). pose proof (inv_bot s Hs).
  unfold write_core. destruct (Z.ltb_spec (sW s) (cx s + w)); [lia|].
  destruct (write_row_cells_rows crText (cx s) (cy s) (glyph_cells txt w (sty s)) s Hs Hcy ltac:(lia)
              ltac:(rewrite glyph_cells_len by lia; lia) ltac:(rewrite glyph_cells_len by lia; lia))
    as (R2 & X2 & Y2 & (W2 & Hh2 & SX2 & SY2 & T2 & B2 & A2 & S2 & C2)).
  set (s2 := write_row_cells crText (cx s) (cy s) (glyph_cells txt w (sty s)) s) in *.
  assert (V : vis s2 = vis (set_rows (zupd (cy s) (overwrite (sty s) (cx s) (glyph_cells txt w (sty s)) (row_at s (cy s))) (rows s)) s)).
  { unfold vis. cbn [rows sW sH cx cy svx svy top bot awrap sty crash set_rows]. rewrite R2, W2, Hh2, X2, Y2, SX2, SY2, T2, B2, A2, S2, C2.
    rewrite (inv_crash s Hs). reflexivity. }
  clearbody s2. unfold move_cursor, at_bottom_edge. rewrite A2, Ha. cbn [andb].
  rewrite X2, W2, Y2, Hh2, T2, B2. rewrite Hfill.
  rewrite Z.mod_same, Z.div_same by lia. rewrite Z.add_0_r.
  destruct (Z.leb_spec (top s) (cy s)) as [Ht|Ht]; cbn [andb].
  - destruct (Z.leb_spec (cy s) (bot s)) as [Hb|Hb]; cbn [andb].
    + destruct (Z.ltb_spec (cy s + 1) (top s)); [lia|].
      destruct (Z.ltb_spec (bot s) (cy s + 1)).
      * assert (E : cy s = bot s) by lia. rewrite E, Z.eqb_refl.
        replace (bot s - (bot s + 1)) with (-1) by lia.
        split; [reflexivity|]. split; [discriminate|]. intros _.
        cbn [cy cx rows emit set_cur set_evs]. rewrite clamp_id by lia.
        split; [reflexivity|]. split.
        { pose proof (vis_scroll _ _ (top s) (bot s) (-1) V) as Vs. unfold vis in Vs. injection Vs as Vr _. rewrite E in Vr. exact Vr. }
        { unfold frame_nocur, scroll. cbn [sW sH svx svy top bot awrap sty crash emit set_cur set_evs].
          repeat match goal with |- context [if ?c then _ else _] => destruct c end; cbn; repeat split; congruence. }
      * destruct (Z.eqb_spec (cy s) (bot s)); [lia|].
        split; [reflexivity|]. split; [|discriminate]. intros _. cbn [cx cy rows sW sH svx svy top bot awrap sty crash emit set_cur set_evs].
        rewrite clamp_id by lia. unfold wrote, frame_nocur. cbn [cx cy rows sW sH svx svy top bot awrap sty crash emit set_cur set_evs]. repeat split; try congruence; try lia.
    + destruct (Z.eqb_spec (cy s) (bot s)); [lia|].
      split; [reflexivity|]. split; [|discriminate]. intros _. cbn [cx cy rows sW sH svx svy top bot awrap sty crash emit set_cur set_evs].
      rewrite clamp_spec by lia. unfold wrote, frame_nocur. cbn [cx cy rows sW sH svx svy top bot awrap sty crash emit set_cur set_evs]. repeat split; try congruence; try lia.
  - split; [reflexivity|]. split; [|discriminate]. intros _. cbn [cx cy rows sW sH svx svy top bot awrap sty crash emit set_cur set_evs].
    rewrite clamp_spec by lia. unfold wrote, frame_nocur. cbn [cx cy rows sW sH svx svy top bot awrap sty crash emit set_cur set_evs]. repeat split; try congruence; try lia.
Qed.

From Termemu Require Import Kbd Parser Term.
Lemma glyph_dispatch txt r w t :
  exec_tok (TGlyph txt r w) t =
  on_screen (fun s => write_glyph txt (glyph_width w)
                        (if (r =? runeError) && negb (list_eqb Z.eqb txt utf8_replacement)
                         then add_trig trInvalidUtf8 s else s)) t.
Proof. reflexivity. Qed.
