(* C11, TTY mirror: the cursor/detach protocol of TTYFrontend, the frame facts,
   and the interpretation of the emitted bytes by an OUTER terminal, which is
   the terminal model itself ([run_bytes] of Model/Term.v).

   Hypotheses taken from other agents' work (Section hypotheses, they appear as
   premises of the theorems):
     [itoa_scan]  the CSI parameter scanner reads the decimal digits [itoa n]
                  back as n (n <= 65535);
     [style_rt]   feeding [ansi_escape s] to the terminal sets the current style
                  of the active screen to s and changes nothing else.
   Each is accompanied by computed instances (Examples) so that it is not vacuous. *)
From Coq Require Import List ZArith Bool Lia.
From Termemu Require Import Base Style Screen Kbd Parser Term BaseLemmas ScreenInv TermInv ParserProofs HistProofs TtyFrontend.
Import ListNotations.
Open Scope Z_scope.

(* ================================================================== *)
(* (a) detached: nothing but a show-cursor                              *)
(* ================================================================== *)

(* any call a detached frontend can receive *)
Inductive tty_call :=
| KRegion (r : rect) | KCursor (x y : Z) | KFlag (i : Z) (v : bool) | KFocus | KBlur | KDetach
| KBell | KScrollLines (y : Z) | KStyle (s : style) | KInt (i v : Z) | KStr (i : Z) (s : list Z).

Definition tty_do (rp grid : bool) (t : tty) (inner : screen) (c : tty_call) : tty * list Z :=
  match c with
  | KRegion r => tty_region_changed_fx rp grid t inner r
  | KCursor x y => tty_cursor_moved_fx rp t x y
  | KFlag i v => tty_view_flag_fx rp t i v
  | KFocus => tty_focus_fx rp t
  | KBlur => tty_blur_fx t
  | KDetach => tty_detach_fx t
  | KBell | KScrollLines _ | KStyle _ | KInt _ _ | KStr _ _ => tty_noop t
  end.

(* the calls of one history, each against the inner screen of its moment *)
Fixpoint tty_run (rp grid : bool) (t : tty) (cs : list (screen * tty_call)) : tty * list Z :=
  match cs with
  | [] => (t, [])
  | (inner, c) :: r =>
      let '(t1, o1) := tty_do rp grid t inner c in
      let '(t2, o2) := tty_run rp grid t1 r in (t2, o1 ++ o2)
  end.

Definition is_terminal_callback (c : tty_call) : bool :=
  match c with KFocus | KBlur | KDetach => false | _ => true end.

Lemma render_cursor_detached t : attached t = false -> render_cursor t = [].
Proof.
  intros H. unfold render_cursor, render_cursor_gen. rewrite H. cbn [negb andb].
  destruct (negb (hasterm t) || negb (hasout t)); reflexivity.
Qed.

Lemma tty_do_detached grid t inner c : attached t = false ->
  attached (fst (tty_do true grid t inner c)) = false /\
  (snd (tty_do true grid t inner c) = [] \/
   (snd (tty_do true grid t inner c) = ansi_cursor_show /\ (c = KBlur \/ c = KDetach))).
Proof.
  intros H. destruct c; cbn [tty_do].
  - unfold tty_region_changed_fx, tty_region_changed_gen. rewrite H. cbn. auto.
  - unfold tty_cursor_moved_fx. cbn [fst snd]. split; [exact H|left].
    apply render_cursor_detached. exact H.
  - unfold tty_view_flag_fx. destruct (i =? vfShowCursor); cbn [fst snd]; [|auto].
    split; [exact H|left]. apply render_cursor_detached. exact H.
  - unfold tty_focus_fx. cbn [fst snd]. split; [exact H|left]. apply render_cursor_detached. exact H.
  - unfold tty_blur_fx. cbn [fst snd]. split; [exact H|]. destruct (hasout t); auto.
  - unfold tty_detach_fx. cbn [fst snd]. split; [reflexivity|]. destruct (hasout t); auto.
  - cbn; auto. - cbn; auto. - cbn; auto. - cbn; auto. - cbn; auto.
Qed.

(* Detach writes exactly ESC[?25h; afterwards every callback of the terminal
   (and Focus) writes nothing, for all inner screens and all arguments *)
Theorem tty_detached_silent grid t :
  hasout t = true ->
  snd (tty_detach t) = ansi_cursor_show /\
  forall cs, Forall (fun p => is_terminal_callback (snd p) = true \/ snd p = KFocus) cs ->
    snd (tty_run true grid (fst (tty_detach t)) cs) = [].
Proof.
  intros Ho. split; [unfold tty_detach, tty_detach_fx; cbn [snd]; rewrite Ho; reflexivity|].
  assert (G : forall cs t0, attached t0 = false ->
             Forall (fun p => is_terminal_callback (snd p) = true \/ snd p = KFocus) cs ->
             snd (tty_run true grid t0 cs) = []).
  { induction cs as [|[inner c] cs IH]; intros t0 Ha Hcs; [reflexivity|].
    inversion Hcs as [|? ? Hc Hcs']; subst. cbn [tty_run].
    destruct (tty_do_detached grid t0 inner c Ha) as (Ha' & Ho').
    destruct (tty_do true grid t0 inner c) as [t1 o1] eqn:E. cbn [fst snd] in *.
    specialize (IH t1 Ha' Hcs'). destruct (tty_run true grid t1 cs) as [t2 o2]. cbn [snd] in *.
    destruct Ho' as [->|(-> & [->| ->])]; [subst; reflexivity| |];
      cbn [snd is_terminal_callback] in Hc; destruct Hc; discriminate. }
  intros cs Hcs. apply G; [reflexivity|exact Hcs].
Qed.

(* with Blur and Detach included: nothing but show-cursor sequences *)
Theorem tty_detached_only_show grid t cs :
  attached t = false ->
  exists n, snd (tty_run true grid t cs) = concat (repeat ansi_cursor_show n).
Proof.
  revert t. induction cs as [|[inner c] cs IH]; intros t Ha; [exists 0%nat; reflexivity|].
  cbn [tty_run]. destruct (tty_do_detached grid t inner c Ha) as (Ha' & Ho').
  destruct (tty_do true grid t inner c) as [t1 o1]. cbn [fst snd] in *.
  destruct (IH t1 Ha') as (n & Hn). destruct (tty_run true grid t1 cs) as [t2 o2]. cbn [snd] in *.
  destruct Ho' as [->|(-> & _)]; [exists n; exact Hn|exists (S n); cbn [repeat concat]; rewrite Hn; reflexivity].
Qed.

(* the code as it is: a cursor move after Detach writes hide-cursor *)
Theorem tty_detached_refuted :
  exists t x y, hasout t = true /\
    snd (tty_cursor_moved_fx false (fst (tty_detach t)) x y) = ansi_cursor_hide.
Proof. exists (tty_new true), 1, 1. split; reflexivity. Qed.

Theorem render_cursor_unrepaired_detached t :
  hasterm t = true -> hasout t = true -> attached t = false -> render_cursor_unrepaired t = ansi_cursor_hide.
Proof.
  intros H1 H2 H3. unfold render_cursor_unrepaired, render_cursor_gen. rewrite H1, H2, H3. reflexivity.
Qed.

Example detached_example :
  let t := fst (tty_attach true (tty_new true) (init_screen 4 2) (0, 0, 4, 2)) in
  let cs := [(init_screen 4 2, KCursor 1 1); (init_screen 4 2, KFlag 1 false); (init_screen 4 2, KRegion (0, 0, 4, 2));
             (init_screen 4 2, KFocus); (init_screen 4 2, KBell)] in
  snd (tty_detach t) = [27; 91; 63; 50; 53; 104] /\
  snd (tty_run true true (fst (tty_detach t)) cs) = [] /\
  snd (tty_run false true (fst (tty_detach t)) cs)
    = ansi_cursor_hide ++ ansi_cursor_hide ++ ansi_cursor_hide.
Proof. vm_compute. repeat split. Qed.

(* ================================================================== *)
(* (d) frame facts                                                      *)
(* ================================================================== *)

Theorem tty_noop_callbacks rp grid t inner :
  tty_event_fx rp grid t inner EBell = (t, []) /\
  (forall y, tty_event_fx rp grid t inner (EScrollLines y) = (t, [])) /\
  (forall s, tty_event_fx rp grid t inner (EStyle s) = (t, [])) /\
  (forall i v, tty_event_fx rp grid t inner (EInt i v) = (t, [])) /\
  (forall i b, tty_event_fx rp grid t inner (EStr i b) = (t, [])) /\
  (forall i v, i <> vfShowCursor -> tty_event_fx rp grid t inner (EFlag i v) = (t, [])).
Proof.
  repeat split; try reflexivity. intros i v Hi. cbn [tty_event_fx]. unfold tty_view_flag_fx.
  destruct (Z.eqb_spec i vfShowCursor); [contradiction|reflexivity].
Qed.

(* RegionChanged renders the intersection with the attach region, nothing else *)
Theorem tty_region_changed_intersect rp grid t inner r :
  attached t = true -> hasterm t = true -> hasout t = true ->
  tty_region_changed_fx rp grid t inner r
    = (t, render_region_fx rp grid t inner (intersect r (tty_region t))).
Proof.
  intros H1 H2 H3. unfold tty_region_changed_fx, tty_region_changed_gen. rewrite H1, H2, H3. reflexivity.
Qed.

Lemma clamp_region_empty_mono x y x2 y2 w h :
  rect_empty (x, y, x2, y2) = true -> rect_empty (clamp_region (x, y, x2, y2) w h) = true.
Proof.
  unfold rect_empty, clamp_region. intros H. apply orb_true_iff in H. apply orb_true_iff.
  unfold clamp. destruct H as [H|H]; [left|right]; apply Z.leb_le in H; apply Z.leb_le.
  - destruct (Z.ltb_spec x 0), (Z.ltb_spec x2 0);
      repeat match goal with |- context [?a <? ?b] => destruct (Z.ltb_spec a b) end; lia.
  - destruct (Z.ltb_spec y 0), (Z.ltb_spec y2 0);
      repeat match goal with |- context [?a <? ?b] => destruct (Z.ltb_spec a b) end; lia.
Qed.

(* a changed region that does not meet the attach region produces no output *)
Theorem tty_region_changed_disjoint rp grid t inner r :
  rect_empty (intersect r (tty_region t)) = true ->
  snd (tty_region_changed_fx rp grid t inner r) = [].
Proof.
  intros H. unfold tty_region_changed_fx, tty_region_changed_gen.
  destruct (negb (attached t) || negb (hasterm t) || negb (hasout t)); [reflexivity|].
  cbn [snd]. unfold render_region_gen.
  destruct (negb (hasout t) || negb (attached t)); [reflexivity|].
  destruct (intersect r (tty_region t)) as [[[x y] x2] y2].
  rewrite clamp_region_empty_mono by exact H. reflexivity.
Qed.

(* nothing is written when not attached, without a terminal, or without an output *)
Theorem tty_silent_when_off rp grid t inner e :
  (attached t = false /\ rp = true) \/ hasout t = false \/ (hasterm t = false) ->
  snd (tty_event_fx rp grid t inner e) = [].
Proof.
  intros H. destruct e; try reflexivity; cbn [tty_event_fx].
  - unfold tty_region_changed_fx, tty_region_changed_gen.
    destruct H as [(H & _)|[H|H]]; rewrite H; cbn [negb orb]; rewrite ?orb_true_r; reflexivity.
  - unfold tty_cursor_moved_fx, render_cursor_gen. cbn [snd hasterm hasout attached set_tcur].
    destruct H as [(H & ->)|[H|H]]; rewrite H; cbn [negb orb andb]; rewrite ?orb_true_r; try reflexivity.
    destruct (negb (hasterm t) || negb (hasout t)); reflexivity.
  - unfold tty_view_flag_fx. destruct (i =? vfShowCursor); [|reflexivity].
    unfold render_cursor_gen. cbn [snd hasterm hasout attached set_showcur].
    destruct H as [(H & ->)|[H|H]]; rewrite H; cbn [negb orb andb]; rewrite ?orb_true_r; try reflexivity.
    destruct (negb (hasterm t) || negb (hasout t)); reflexivity.
Qed.

(* RegionChanged is silent when not attached, in the code as it is too *)
Theorem tty_region_changed_unattached rp grid t inner r :
  attached t = false -> tty_region_changed_fx rp grid t inner r = (t, []).
Proof. intros H. unfold tty_region_changed_fx, tty_region_changed_gen. rewrite H. reflexivity. Qed.

(* shape of one repaint: save, wrap off, rows, SGR reset, wrap on, restore, cursor *)
Theorem render_region_shape rp grid t inner r :
  hasout t = true -> attached t = true -> rect_empty (clamp_region r (sW inner) (sH inner)) = false ->
  render_region_fx rp grid t inner r =
    ansi_save_cursor ++ ansi_wrap_disable
      ++ render_rows (screen_line rp grid inner) (clamp_region r (sW inner) (sH inner))
      ++ ansi_reset ++ ansi_wrap_enable ++ ansi_restore_cursor ++ render_cursor_gen rp t.
Proof.
  intros H1 H2 H3. unfold render_region_fx, render_region_gen. rewrite H1, H2, H3. reflexivity.
Qed.

(* ================================================================== *)
(* (b) cursor                                                           *)
(* ================================================================== *)

Theorem tty_cursor_bytes t x y :
  hasterm t = true -> hasout t = true -> attached t = true ->
  let inside := (rgx t <=? x) && (x <? rgx2 t) && (rgy t <=? y) && (y <? rgy2 t) in
  snd (tty_cursor_moved t x y) =
    if showcur t && focused t && inside then ansi_move_cursor x y ++ ansi_cursor_show else ansi_cursor_hide.
Proof.
  intros H1 H2 H3. unfold tty_cursor_moved, tty_cursor_moved_fx, render_cursor_gen, cur_in_region.
  cbn [snd hasterm hasout attached showcur focused set_tcur curx cury rgx rgy rgx2 rgy2].
  rewrite H1, H2, H3. cbn [negb orb andb].
  destruct (showcur t), (focused t); cbn [negb orb andb]; try reflexivity.
  destruct ((rgx t <=? x) && (x <? rgx2 t) && (rgy t <=? y) && (y <? rgy2 t)); reflexivity.
Qed.

Theorem tty_flag_bytes t v :
  hasterm t = true -> hasout t = true -> attached t = true ->
  snd (tty_view_flag t vfShowCursor v) =
    if v && focused t && cur_in_region t then ansi_move_cursor (curx t) (cury t) ++ ansi_cursor_show
    else ansi_cursor_hide.
Proof.
  intros H1 H2 H3. unfold tty_view_flag, tty_view_flag_fx, render_cursor_gen, cur_in_region.
  cbn [snd hasterm hasout attached showcur focused set_showcur curx cury rgx rgy rgx2 rgy2 Z.eqb vfShowCursor Pos.eqb].
  rewrite H1, H2, H3. cbn [negb orb andb].
  destruct v, (focused t); cbn [negb orb andb]; try reflexivity.
  destruct ((rgx t <=? curx t) && (curx t <? rgx2 t) && (rgy t <=? cury t) && (cury t <? rgy2 t)); reflexivity.
Qed.

Example cursor_example :
  let t := fst (tty_attach true (tty_new true) (init_screen 8 4) (2, 1, 6, 3)) in
  snd (tty_cursor_moved t 3 2) = [27; 91; 51; 59; 52; 72; 27; 91; 63; 50; 53; 104] /\   (* ESC[3;4H ESC[?25h *)
  snd (tty_cursor_moved t 6 2) = ansi_cursor_hide /\
  snd (tty_cursor_moved (fst (tty_blur t)) 3 2) = ansi_cursor_hide /\
  snd (tty_cursor_moved (fst (tty_view_flag t 1 false)) 3 2) = ansi_cursor_hide.
Proof. vm_compute. repeat split. Qed.

Lemma digit_not_private d : 48 <= d <= 57 -> is_private d = false.
Proof.
  intros H. unfold is_private.
  destruct (Z.eqb_spec d 63), (Z.eqb_spec d 62), (Z.eqb_spec d 60), (Z.eqb_spec d 61); try lia; reflexivity.
Qed.

Lemma itoa_fuel_S f n acc :
  itoa_fuel (S f) n acc = if n <? 10 then (48 + n mod 10) :: acc else itoa_fuel f (n / 10) ((48 + n mod 10) :: acc).
Proof. reflexivity. Qed.

Lemma itoa_fuel_head f : forall n acc, 0 <= n ->
  (exists d ds, acc = d :: ds /\ is_private d = false) ->
  exists d ds, itoa_fuel f n acc = d :: ds /\ is_private d = false.
Proof.
  induction f as [|f IH]; intros n acc Hn Hacc; [exact Hacc|].
  rewrite itoa_fuel_S.
  assert (He : is_private (48 + n mod 10) = false).
  { pose proof (Z.mod_pos_bound n 10 ltac:(lia)). apply digit_not_private. lia. }
  destruct (n <? 10); [eauto|]. apply IH; [apply Z.div_pos; lia|eauto].
Qed.

(* the first byte of a decimal number is a digit, not a private-mode prefix *)
Lemma itoa_head n : 0 <= n -> exists d ds, itoa n = d :: ds /\ is_private d = false.
Proof.
  intros Hn. unfold itoa. destruct (Z.ltb_spec n 0); [lia|].
  change 20%nat with (S 19). rewrite itoa_fuel_S.
  assert (He : is_private (48 + n mod 10) = false).
  { pose proof (Z.mod_pos_bound n 10 ltac:(lia)). apply digit_not_private. lia. }
  destruct (n <? 10); [eauto|]. apply itoa_fuel_head; [apply Z.div_pos; lia|eauto].
Qed.

(* ---- the outer terminal ---- *)
Section Outer.
  Variable wc : Z -> Z.
  Variable grid : bool.

  (* digits written by itoa are read back by the CSI parameter loop *)
  Hypothesis itoa_scan : forall n rest acc sawsep, 0 <= n <= maxCSIParam ->
    scan_params (itoa n ++ rest) acc 0 false sawsep = scan_params rest acc n true false.

  (* one token *)
  Lemma run_bytes_tok t inp k rest :
    crashed t = false -> parse_one wc grid inp = PTok k rest ->
    run_bytes wc grid t inp = run_bytes wc grid (exec_tok k t) rest.
  Proof.
    intros Hc Hp. unfold run_bytes at 1. cbn [run_pending]. rewrite Hc, Hp.
    pose proof (parse_one_suffix wc grid inp k rest Hp) as Hs. apply ss_length in Hs.
    replace (length inp) with (S (length rest) + (length inp - S (length rest)))%nat by lia.
    apply run_bytes_fuel_enough.
  Qed.

  Lemma run_bytes_nil t : run_bytes wc grid t [] = (t, []).
  Proof. unfold run_bytes. cbn. destruct (crashed t); reflexivity. Qed.

  Lemma parse_cup x y rest : 0 <= x < maxCSIParam -> 0 <= y < maxCSIParam ->
    parse_one wc grid (ansi_move_cursor x y ++ rest) = PTok (TCsi 0 [y + 1; x + 1] 72) rest.
  Proof.
    intros Hx Hy. unfold ansi_move_cursor. cbn [app parse_one is_printable].
    change (is_printable 27) with false. cbv iota. change (27 =? 27) with true. cbv iota.
    cbn [parse_esc]. change (91 =? 91) with true. cbv iota.
    unfold parse_csi.
    destruct (itoa_head (y + 1) ltac:(lia)) as (d & ds & Hd & Hp).
    rewrite <- !app_assoc. rewrite Hd. cbn [app]. rewrite Hp. rewrite app_comm_cons, <- Hd.
    rewrite itoa_scan by (unfold maxCSIParam in *; lia).
    cbn [app scan_params]. change (59 =? 59) with true. cbv iota.
    rewrite <- app_assoc. rewrite itoa_scan by (unfold maxCSIParam in *; lia).
    cbn [app scan_params]. change (72 =? 59) with false. change (is_digit 72) with false. cbv iota.
    cbn [orb]. change (store_param (store_param [] (y + 1)) (x + 1)) with [y + 1; x + 1].
    reflexivity.
  Qed.

  Lemma parse_show rest :
    parse_one wc grid (ansi_cursor_show ++ rest) = PTok (TCsi 63 [25] 104) rest.
  Proof. reflexivity. Qed.
  Lemma parse_hide rest :
    parse_one wc grid (ansi_cursor_hide ++ rest) = PTok (TCsi 63 [25] 108) rest.
  Proof. reflexivity. Qed.

  Lemma exec_cup x y t :
    exec_tok (TCsi 0 [y + 1; x + 1] 72) t = on_screen (set_cursor_pos x y) t.
  Proof.
    cbn [exec_tok]. unfold exec_csi. change (0 =? 0) with true. cbv iota.
    unfold exec_csi_plain. cbn [p0 p1].
    change (72 =? 65) with false. change (72 =? 66) with false. change (72 =? 67) with false.
    change (72 =? 68) with false. change (72 =? 71) with false. change (72 =? 99) with false.
    change (72 =? 100) with false. change (72 =? 102) with false. change (72 =? 72) with true.
    cbn [orb]. cbv iota. replace (x + 1 - 1) with x by lia. replace (y + 1 - 1) with y by lia. reflexivity.
  Qed.

  Definition show_flag (t : term) : bool := znth vfShowCursor (vflags t) false.

  Lemma active_on_screen f t : active (on_screen f t) = set_evs [] (f (set_evs [] (active t))).
  Proof. unfold on_screen, active, set_active. destruct (onalt t); reflexivity. Qed.

  Lemma vflags_show o1 : vflags (exec_tok (TCsi 63 [25] 104) o1) = zupd vfShowCursor true (vflags o1).
  Proof. reflexivity. Qed.
  Lemma vflags_hide o1 : vflags (exec_tok (TCsi 63 [25] 108) o1) = zupd vfShowCursor false (vflags o1).
  Proof. reflexivity. Qed.
  Lemma vflags_on_screen f t : vflags (on_screen f t) = vflags t.
  Proof. unfold on_screen, set_active. destruct (onalt t); reflexivity. Qed.

  (* CUP(y+1, x+1) ++ show-cursor: the outer cursor ends at (x, y) and is shown;
     no cell, no style, no mode of the outer terminal changes *)
  Theorem outer_cursor_shown o x y :
    crashed o = false -> zlen (vflags o) = 6 ->
    0 <= x < sW (active o) -> 0 <= y < sH (active o) -> sW (active o) <= maxCSIParam -> sH (active o) <= maxCSIParam ->
    let r := run_bytes wc grid o (ansi_move_cursor x y ++ ansi_cursor_show) in
    snd r = [] /\ cx (active (fst r)) = x /\ cy (active (fst r)) = y /\ show_flag (fst r) = true /\
    rows (active (fst r)) = rows (active o) /\ sty (active (fst r)) = sty (active o) /\
    awrap (active (fst r)) = awrap (active o) /\ onalt (fst r) = onalt o.
  Proof.
    intros Hc Hf Hx Hy HW HH r. subst r.
    rewrite (run_bytes_tok o _ _ _ Hc (parse_cup x y ansi_cursor_show ltac:(lia) ltac:(lia))).
    rewrite exec_cup.
    assert (Hc1 : crashed (on_screen (set_cursor_pos x y) o) = false).
    { unfold crashed, on_screen, set_active, active in *. destruct (onalt o); cbn in *; exact Hc. }
    rewrite <- (app_nil_r ansi_cursor_show).
    rewrite (run_bytes_tok _ _ _ _ Hc1 (parse_show [])).
    rewrite run_bytes_nil. cbn [fst snd].
    set (o1 := on_screen (set_cursor_pos x y) o).
    assert (Ha : active (exec_tok (TCsi 63 [25] 104) o1) = active o1) by reflexivity.
    rewrite Ha. unfold o1. rewrite active_on_screen.
    unfold set_cursor_pos. cbn [cx cy rows sty awrap set_evs emit set_cur sW sH].
    rewrite !clamp_id by lia.
    repeat split; try reflexivity.
    - unfold show_flag. rewrite vflags_show, vflags_on_screen.
      apply znth_zupd_same. unfold vfShowCursor; lia.
    - unfold on_screen, set_active. cbn. destruct (onalt o); reflexivity.
  Qed.

  (* hide-cursor: only the flag changes *)
  Theorem outer_cursor_hidden o :
    crashed o = false -> zlen (vflags o) = 6 ->
    let r := run_bytes wc grid o ansi_cursor_hide in
    snd r = [] /\ show_flag (fst r) = false /\ active (fst r) = active o.
  Proof.
    intros Hc Hf r. subst r. rewrite <- (app_nil_r ansi_cursor_hide).
    rewrite (run_bytes_tok _ _ _ _ Hc (parse_hide [])). rewrite run_bytes_nil. cbn [fst snd].
    repeat split.
    unfold show_flag. rewrite vflags_hide. apply znth_zupd_same. unfold vfShowCursor; lia.
  Qed.

  (* CursorMoved(x, y) on an attached, focused frontend whose terminal shows its
     cursor: an outer terminal at least as large as the inner one ends with its
     cursor on (x, y), shown, when (x, y) lies in the region, and hidden otherwise *)
  Theorem tty_cursor_outer t o x y :
    hasterm t = true -> hasout t = true -> attached t = true ->
    crashed o = false -> zlen (vflags o) = 6 ->
    0 <= x < sW (active o) -> 0 <= y < sH (active o) -> sW (active o) <= maxCSIParam -> sH (active o) <= maxCSIParam ->
    let inside := (rgx t <=? x) && (x <? rgx2 t) && (rgy t <=? y) && (y <? rgy2 t) in
    let o' := fst (run_bytes wc grid o (snd (tty_cursor_moved t x y))) in
    rows (active o') = rows (active o) /\
    if showcur t && focused t && inside
    then cx (active o') = x /\ cy (active o') = y /\ show_flag o' = true
    else show_flag o' = false /\ cx (active o') = cx (active o) /\ cy (active o') = cy (active o).
  Proof.
    intros H1 H2 H3 Hc Hf Hx Hy HW HH inside o'. subst o'.
    rewrite (tty_cursor_bytes t x y H1 H2 H3). fold inside.
    destruct (showcur t && focused t && inside).
    - destruct (outer_cursor_shown o x y Hc Hf Hx Hy HW HH) as (_ & A & B & C & D & _). auto.
    - destruct (outer_cursor_hidden o Hc Hf) as (_ & A & B). rewrite B. auto.
  Qed.
End Outer.

(* the hypothesis itoa_scan holds on computed instances *)
Example itoa_scan_instances :
  forallb (fun n => match scan_params (itoa n ++ [72; 1; 2]) [7] 0 false true, scan_params [72; 1; 2] [7] n true false with
                    | Some (a, b, c), Some (a', b', c') => list_eqb Z.eqb a a' && (b =? b') && list_eqb Z.eqb c c'
                    | _, _ => false end)
          [0; 1; 9; 10; 11; 99; 100; 255; 999; 1000; 4096; 9999; 10000; 65535] = true.
Proof. vm_compute. reflexivity. Qed.

Example outer_cursor_example :
  let o := fst (run_bytes (fun _ => 1) false (init_term 10 5) [97; 98; 99]) in
  let t := fst (tty_attach true (tty_new true) (init_screen 8 4) (2, 1, 6, 3)) in
  let o1 := fst (run_bytes (fun _ => 1) false o (snd (tty_cursor_moved t 3 2))) in
  let o2 := fst (run_bytes (fun _ => 1) false o1 (snd (tty_cursor_moved t 7 2))) in
  (cx (active o1), cy (active o1), znth 1 (vflags o1) false) = (3, 2, true) /\
  (cx (active o2), cy (active o2), znth 1 (vflags o2) false) = (3, 2, false) /\
  rows (active o2) = rows (active o).
Proof. vm_compute. repeat split. Qed.

(* ================================================================== *)
(* (c) region repaint — PARTIAL                                         *)
(* ================================================================== *)
(* Proved: the prologue/epilogue of one repaint on the outer terminal, for any
   row part that the outer terminal consumes completely ([mid_ok] below is the
   continuation-style specification a row-part lemma has to provide).  Not
   proved: that the row part rewrites exactly the cells of the region (tied by
   the correspondence check only; computed instances below). *)
Section Region.
  Variable wc : Z -> Z.
  Variable grid : bool.

  Lemma parse_save rest : parse_one wc grid (ansi_save_cursor ++ rest) = PTok (TCsi 0 [] 115) rest.
  Proof. reflexivity. Qed.
  Lemma parse_restore rest : parse_one wc grid (ansi_restore_cursor ++ rest) = PTok (TCsi 0 [] 117) rest.
  Proof. reflexivity. Qed.
  Lemma parse_wrap_off rest : parse_one wc grid (ansi_wrap_disable ++ rest) = PTok (TCsi 63 [7] 108) rest.
  Proof. reflexivity. Qed.
  Lemma parse_wrap_on rest : parse_one wc grid (ansi_wrap_enable ++ rest) = PTok (TCsi 63 [7] 104) rest.
  Proof. reflexivity. Qed.
  Lemma parse_reset rest : parse_one wc grid (ansi_reset ++ rest) = PTok (TCsi 0 [0] 109) rest.
  Proof. reflexivity. Qed.

  Lemma crashed_on_screen f t :
    crash (f (set_evs [] (active t))) = crash (active t) -> crashed (on_screen f t) = crashed t.
  Proof.
    unfold crashed, on_screen, set_active, active. destruct (onalt t); cbn; intros ->; reflexivity.
  Qed.

  (* the state after "ESC[s ESC[?7l": cursor saved, autowrap off, nothing else *)
  Definition after_prologue (o : term) : term :=
    on_screen (set_awrap false) (on_screen save_cursor o).

  Lemma run_prologue o rest : crashed o = false ->
    run_bytes wc grid o (ansi_save_cursor ++ ansi_wrap_disable ++ rest) = run_bytes wc grid (after_prologue o) rest.
  Proof.
    intros Hc. rewrite (run_bytes_tok wc grid o _ _ _ Hc (parse_save _)).
    assert (Hc1 : crashed (exec_tok (TCsi 0 [] 115) o) = false).
    { change (exec_tok (TCsi 0 [] 115) o) with (on_screen save_cursor o). rewrite crashed_on_screen; [exact Hc|reflexivity]. }
    rewrite (run_bytes_tok wc grid _ _ _ _ Hc1 (parse_wrap_off _)). reflexivity.
  Qed.

  Definition after_epilogue (o : term) : term :=
    on_screen restore_cursor (on_screen (set_awrap true) (on_screen (fun s => set_style (sgr_apply [0] (sty s)) s) o)).

  Lemma run_epilogue o rest : crashed o = false ->
    run_bytes wc grid o (ansi_reset ++ ansi_wrap_enable ++ ansi_restore_cursor ++ rest)
      = run_bytes wc grid (after_epilogue o) rest.
  Proof.
    intros Hc. rewrite (run_bytes_tok wc grid o _ _ _ Hc (parse_reset _)).
    change (exec_tok (TCsi 0 [0] 109) o) with (on_screen (fun s => set_style (sgr_apply [0] (sty s)) s) o).
    set (o1 := on_screen _ o).
    assert (Hc1 : crashed o1 = false) by (unfold o1; rewrite crashed_on_screen; [exact Hc|reflexivity]).
    rewrite (run_bytes_tok wc grid _ _ _ _ Hc1 (parse_wrap_on _)).
    change (exec_tok (TCsi 63 [7] 104) o1) with (on_screen (set_awrap true) o1).
    set (o2 := on_screen (set_awrap true) o1).
    assert (Hc2 : crashed o2 = false) by (unfold o2; rewrite crashed_on_screen; [exact Hc1|reflexivity]).
    rewrite (run_bytes_tok wc grid _ _ _ _ Hc2 (parse_restore _)). reflexivity.
  Qed.

  (* One repaint: if the outer terminal consumes the row part [mid] completely,
     reaching o2 without touching the saved cursor, then after the whole repaint
     (before the final cursor update) the outer cursor is where it was, autowrap
     is on, the style is the default style and the cells are those of o2. *)
  Theorem region_frame o mid o2 tail :
    crashed o = false ->
    (forall rest, run_bytes wc grid (after_prologue o) (mid ++ rest) = run_bytes wc grid o2 rest) ->
    crashed o2 = false ->
    svx (active o2) = cx (active o) -> svy (active o2) = cy (active o) ->
    exists o3,
      run_bytes wc grid o (ansi_save_cursor ++ ansi_wrap_disable ++ mid
                             ++ ansi_reset ++ ansi_wrap_enable ++ ansi_restore_cursor ++ tail)
        = run_bytes wc grid o3 tail /\
      cx (active o3) = cx (active o) /\ cy (active o3) = cy (active o) /\
      awrap (active o3) = true /\ sty (active o3) = default_style /\
      rows (active o3) = rows (active o2) /\ crashed o3 = false.
  Proof.
    intros Hc Hmid Hc2 Hsx Hsy. exists (after_epilogue o2).
    rewrite run_prologue by exact Hc. rewrite Hmid.
    rewrite run_epilogue by exact Hc2. split; [reflexivity|].
    assert (Hcr : crashed (after_epilogue o2) = false).
    { unfold after_epilogue. repeat (rewrite crashed_on_screen; [|reflexivity]). exact Hc2. }
    unfold after_epilogue. rewrite !active_on_screen.
    set (s2 := active o2) in *.
    repeat split; try exact Hcr;
      lazy beta iota delta [cx cy awrap sty rows svx svy restore_cursor set_awrap set_style set_sty emit set_evs set_cur];
      try assumption; reflexivity.
  Qed.

  (* the saved cursor and the wrap flag right after the prologue *)
  Lemma after_prologue_facts o :
    svx (active (after_prologue o)) = cx (active o) /\ svy (active (after_prologue o)) = cy (active o) /\
    awrap (active (after_prologue o)) = false /\ rows (active (after_prologue o)) = rows (active o) /\
    cx (active (after_prologue o)) = cx (active o) /\ cy (active (after_prologue o)) = cy (active o).
  Proof.
    unfold after_prologue. rewrite !active_on_screen. set (s := active o).
    repeat split;
      lazy beta iota delta [cx cy awrap rows svx svy save_cursor set_saved set_awrap set_evs]; reflexivity.
  Qed.
End Region.

(* computed instance of the whole property: an inner 6x3 screen with two styles,
   attach region (1,0)-(5,2); the outer 8x4 terminal holds dots, its cursor at (7,3).
   After the repaint: outer = inner inside the region, dots outside, cursor
   restored, autowrap on; then the inner cursor (inside the region) is shown. *)
Definition ex_wc (r : Z) : Z := 1.
Definition ex_inner : term :=
  fst (run_bytes ex_wc true (init_term 6 3)
         [97;98;27;91;51;49;109;99;100;101;27;91;50;59;50;72;27;91;49;59;52;52;109;120;121;27;91;48;109;122]).
Definition ex_outer : term :=
  fst (run_bytes ex_wc true (init_term 8 4)
         ([27;91;63;55;108;27;91;49;59;49;72] ++ repeat 46 8 ++ [27;91;50;59;49;72] ++ repeat 46 8
          ++ [27;91;51;59;49;72] ++ repeat 46 8 ++ [27;91;52;59;49;72] ++ repeat 46 8 ++ [27;91;63;55;104;27;91;52;59;56;72])).
Definition ex_tty : tty := set_tcur (cx (active ex_inner)) (cy (active ex_inner)) (tty_new true).

Definition cells_agree (a b : screen) (x y x2 y2 : Z) : bool :=
  forallb (fun yy => forallb (fun xx =>
    let ca := cell_at a xx yy in let cb := cell_at b xx yy in
    list_eqb Z.eqb (ctext ca) (ctext cb) && (cwid ca =? cwid cb) && style_eqb (cst ca) (cst cb))
    (zseq x x2)) (zseq y y2).

Example region_example :
  let '(t1, bytes) := tty_attach true ex_tty (active ex_inner) (1, 0, 5, 2) in
  let r := run_bytes ex_wc true ex_outer bytes in
  let o' := fst r in
  snd r = [] /\
  cells_agree (active o') (active ex_inner) 1 0 5 2 = true /\            (* inside: outer = inner *)
  cells_agree (active o') (active ex_outer) 0 0 1 4 = true /\            (* left of the region: untouched *)
  cells_agree (active o') (active ex_outer) 5 0 8 4 = true /\            (* right of it *)
  cells_agree (active o') (active ex_outer) 0 2 8 4 = true /\            (* below it *)
  awrap (active o') = true /\
  (cx (active o'), cy (active o')) = (cx (active ex_inner), cy (active ex_inner)) /\   (* inner cursor (4,1) is inside *)
  znth 1 (vflags o') false = true.
Proof. vm_compute. repeat split. Qed.

(* the same repaint with the inner cursor outside the region: the outer cursor
   stays where the outer application left it, hidden *)
Example region_example_cursor_outside :
  let '(t1, bytes) := tty_attach true ex_tty (active ex_inner) (0, 0, 3, 1) in
  let o' := fst (run_bytes ex_wc true ex_outer bytes) in
  cells_agree (active o') (active ex_inner) 0 0 3 1 = true /\
  cells_agree (active o') (active ex_outer) 3 0 8 1 = true /\
  cells_agree (active o') (active ex_outer) 0 1 8 4 = true /\
  (cx (active o'), cy (active o')) = (7, 3) /\ znth 1 (vflags o') false = false.
Proof. vm_compute. repeat split. Qed.
