(* No cell of a reachable screen holds an ESC byte in its text, whatever was fed, however the
   terminal was resized, for both text rules (grid: an invalid byte becomes U+FFFD; span: the raw
   byte is kept - it is >= 0x80, never ESC).  With the style invariant (StyleInv) this makes every
   cell of every reachable row [strippable], the hypothesis of "ANSILine(y) without its SGR
   sequences is Line(y)" (RenderProofs.strip_render_line).  No side condition at all: no mark
   condition, no width condition, any oracle.

   The invariant is proved for an arbitrary cell predicate [Q] that holds of blanks and of
   continuation cells: every cell a screen operation creates is one of those or a cell of the
   glyph being written. *)
From Coq Require Import List ZArith Bool Lia.
From Termemu Require Import Base Style Screen Kbd Parser Term Render BaseLemmas ScreenInv TermInv HistProofs
  ParserProofs SgrSpec StyleProofs SgrProofs StampProofs StyleInv GlyphInv RenderProofs RenderInv.
Import ListNotations.
Open Scope Z_scope.

Section CellPred.
  Variable Q : cell -> Prop.
  Hypothesis Qblank : forall st, Q (blank st).
  Hypothesis Qcont : forall st, Q (contc st).

  Notation qrow := (Forall Q).

  (* ---- rows ---- *)
  Lemma qrow_blanks st n : qrow (zrepeat (blank st) n).
  Proof. apply Forall_zrepeat, Qblank. Qed.

  Lemma qrow_unglyph l : qrow (map unglyph l).
  Proof. induction l as [|c l IH]; cbn [map]; constructor; [apply (Qblank (cst c))|exact IH]. Qed.

  Lemma qrow_glyph_cells txt w st : Q (mkCell txt w st) -> qrow (glyph_cells txt w st).
  Proof. intros H. unfold glyph_cells. constructor; [exact H|apply Forall_zrepeat, Qcont]. Qed.

  Lemma overwrite_qrow st x new row : qrow row -> qrow new -> qrow (overwrite st x new row).
  Proof.
    intros Hr Hn. unfold overwrite. destruct (zlen new =? 0); [exact Hr|].
    repeat (apply Forall_app; split); auto using Forall_zfirstn, Forall_zskipn, qrow_blanks.
  Qed.

  Lemma delete_cells_qrow st x n row : qrow row -> qrow (delete_cells st x n row).
  Proof.
    intros Hr. unfold delete_cells.
    repeat (apply Forall_app; split); auto using Forall_zfirstn, Forall_zskipn, qrow_blanks, qrow_unglyph.
  Qed.

  Lemma fit_row_qrow st w row : qrow row -> qrow (fit_row st w row).
  Proof.
    intros Hr. unfold fit_row. destruct (w <? zlen row).
    - destruct (is_cont _); [apply Forall_app; split|]; auto using Forall_zfirstn, qrow_unglyph.
    - apply Forall_app; split; auto using qrow_blanks.
  Qed.

  Lemma blank_row_qrow w st : qrow (blank_row w st).
  Proof. apply qrow_blanks. Qed.

  (* ---- screens ---- *)
  Definition RowsQ (s : screen) : Prop := Forall qrow (rows s).

  Lemma RowsQ_rows s s' : rows s' = rows s -> RowsQ s -> RowsQ s'.
  Proof. unfold RowsQ. intros ->. exact (fun H => H). Qed.

  Lemma RowsQ_set_evs l s : RowsQ s -> RowsQ (set_evs l s).
  Proof. exact (fun H => H). Qed.
  Lemma RowsQ_add_trig v s : RowsQ s -> RowsQ (add_trig v s).
  Proof. exact (fun H => H). Qed.
  Lemma RowsQ_set_awrap v s : RowsQ s -> RowsQ (set_awrap v s).
  Proof. exact (fun H => H). Qed.
  Lemma RowsQ_set_cursor_pos x y s : RowsQ s -> RowsQ (set_cursor_pos x y s).
  Proof. exact (fun H => H). Qed.
  Lemma RowsQ_save_cursor s : RowsQ s -> RowsQ (save_cursor s).
  Proof. exact (fun H => H). Qed.
  Lemma RowsQ_restore_cursor s : RowsQ s -> RowsQ (restore_cursor s).
  Proof. exact (fun H => H). Qed.
  Lemma RowsQ_set_style st s : RowsQ s -> RowsQ (set_style st s).
  Proof. exact (fun H => H). Qed.
  Lemma RowsQ_sgr ps s : RowsQ s -> RowsQ (set_style (sgr_apply ps (sty s)) s).
  Proof. exact (fun H => H). Qed.
  Lemma RowsQ_set_scroll_margins t b s : RowsQ s -> RowsQ (set_scroll_margins t b s).
  Proof. unfold set_scroll_margins. destruct (b <? t); exact (fun H => H). Qed.

  Lemma RowsQ_scroll y1 y2 dy s : RowsQ s -> RowsQ (scroll y1 y2 dy s).
  Proof.
    intros R. unfold scroll, RowsQ in *.
    destruct (_ <? _); [exact R|].
    destruct (0 <? _); cbn [rows emit set_rows set_evs];
      repeat (apply Forall_app; split); auto using Forall_zfirstn, Forall_zskipn, Forall_zrepeat, blank_row_qrow.
  Qed.

  Lemma RowsQ_move_cursor dx dy wrap scr s : RowsQ s -> RowsQ (move_cursor dx dy wrap scr s).
  Proof.
    intros R. unfold move_cursor.
    destruct (if wrap && awrap s then _ else _) as [x1 y1].
    unfold RowsQ.
    destruct (scr && _); [destruct (_ <? top s); [|destruct (bot s <? _)]|];
      cbn [rows emit set_cur set_evs]; try exact R; apply RowsQ_scroll, R.
  Qed.

  Lemma row_at_qrow s y : RowsQ s -> qrow (row_at s y).
  Proof.
    intros R. unfold row_at, znth. destruct (y <? 0); [constructor|].
    destruct (Nat.lt_ge_cases (Z.to_nat y) (length (rows s))) as [H|H].
    - unfold RowsQ in R. rewrite Forall_forall in R. apply R, nth_In, H.
    - rewrite nth_overflow by exact H. constructor.
  Qed.

  Lemma RowsQ_write_row_cells reason x y new s : RowsQ s -> qrow new -> RowsQ (write_row_cells reason x y new s).
  Proof.
    intros R Hn. unfold write_row_cells.
    destruct (zlen new <=? 0); [exact R|]. destruct (_ || _); [exact R|].
    set (s' := if is_cont _ then add_trig trSecondHalf s else s).
    assert (E : rows s' = rows s) by (subst s'; destruct (is_cont _); reflexivity).
    unfold RowsQ. cbn [rows emit set_rows set_evs]. rewrite E.
    apply Forall_zupd; [exact R|]. apply overwrite_qrow; auto using row_at_qrow.
  Qed.

  Lemma RowsQ_erase_rows reason x x2 ys : forall s, RowsQ s -> RowsQ (erase_rows reason x x2 ys s).
  Proof.
    induction ys as [|y ys IH]; intros s R; cbn [erase_rows]; [exact R|].
    apply IH. apply RowsQ_write_row_cells; auto using qrow_blanks.
  Qed.

  Lemma RowsQ_erase_region x y x2 y2 s : RowsQ s -> RowsQ (erase_region x y x2 y2 s).
  Proof. unfold erase_region. apply RowsQ_erase_rows. Qed.

  Lemma RowsQ_delete_chars x y n s : RowsQ s -> RowsQ (delete_chars x y n s).
  Proof.
    intros R. unfold delete_chars. destruct (_ || _ || _); [exact R|]. cbv zeta.
    destruct (_ || _); [exact R|].
    set (s' := if is_cont _ then add_trig trSecondHalf s else s).
    assert (E : rows s' = rows s) by (subst s'; destruct (is_cont _); reflexivity).
    unfold RowsQ. cbn [rows emit set_rows set_evs]. rewrite E.
    apply Forall_zupd; [exact R|]. apply delete_cells_qrow, row_at_qrow, R.
  Qed.

  (* one glyph: the head cell must satisfy Q, in any width and style *)
  Lemma RowsQ_write_glyph txt w0 s : (forall w st, Q (mkCell txt w st)) -> RowsQ s -> RowsQ (write_glyph txt w0 s).
  Proof.
    intros Ht R. unfold write_glyph. destruct (negb _); [exact R|].
    set (w1 := if w0 <? 1 then 1 else w0).
    set (sa := if sW s <? w1 then add_trig trWideOnNarrow s else s).
    assert (Ra : RowsQ sa) by (subst sa; destruct (sW s <? w1); exact R).
    clearbody sa.
    set (w := if sW sa <? w1 then sW sa else w1). clearbody w.
    set (s1 := if sW sa <? cx sa + w then _ else sa).
    assert (R1 : RowsQ s1).
    { subst s1. destruct (sW sa <? cx sa + w); [|exact Ra]. destruct (awrap sa); [apply RowsQ_move_cursor, Ra|exact Ra]. }
    clearbody s1.
    assert (R2 : RowsQ (write_row_cells crText (cx s1) (cy s1) (glyph_cells txt w (sty s1)) s1)).
    { apply RowsQ_write_row_cells; [exact R1|apply qrow_glyph_cells, Ht]. }
    destruct (negb _); [exact R2|apply RowsQ_move_cursor, R2].
  Qed.

  Lemma RowsQ_set_size w h s : RowsQ s -> RowsQ (set_size w h s).
  Proof.
    intros R. unfold set_size. destruct (_ || _); [exact R|].
    destruct (if _ <? top s then _ else _) as [t' b'].
    unfold RowsQ, set_style. cbn [rows emit set_sty set_margins set_saved set_cur set_dims set_evs].
    apply Forall_app. split.
    - apply Forall_forall. intros r Hr. apply in_map_iff in Hr. destruct Hr as (r0 & <- & Hin).
      apply fit_row_qrow. unfold RowsQ in R. rewrite Forall_forall in R. apply R.
      unfold zfirstn in Hin. eapply In_firstn_, Hin.
    - apply Forall_zrepeat, blank_row_qrow.
  Qed.

  Lemma RowsQ_init w h : RowsQ (init_screen w h).
  Proof. unfold RowsQ. cbn [init_screen rows]. apply Forall_zrepeat, blank_row_qrow. Qed.

  Hint Resolve RowsQ_set_evs RowsQ_add_trig RowsQ_set_awrap RowsQ_set_cursor_pos RowsQ_save_cursor RowsQ_restore_cursor
    RowsQ_set_style RowsQ_sgr RowsQ_set_scroll_margins RowsQ_scroll RowsQ_move_cursor RowsQ_erase_region
    RowsQ_delete_chars : rowsq.

  Definition QPres (f : screen -> screen) : Prop := forall s, RowsQ s -> RowsQ (f s).

  Ltac rowsq_solve :=
    let s := fresh "s" in let Hs := fresh "Hs" in
    intros s Hs; cbv beta zeta;
    repeat match goal with |- context [if ?c then _ else _] => destruct c end;
    auto 8 with rowsq.

  (* ---- terminal ---- *)
  Definition TQ (t : term) : Prop := RowsQ (tmain t) /\ RowsQ (talt t).

  Lemma TQ_init w h : TQ (init_term w h).
  Proof. split; apply RowsQ_init. Qed.

  Lemma TQ_on_screen f t : QPres f -> TQ t -> TQ (on_screen f t).
  Proof.
    intros Hf (Hm & Ha). unfold on_screen, active, set_active.
    destruct (onalt t); cbn [tmain talt onalt]; split; try assumption;
      apply RowsQ_set_evs, Hf, RowsQ_set_evs; assumption.
  Qed.

  Ltac tq_same := intros []; split; cbn [tmain talt]; assumption.
  Lemma TQ_log_ev e t : TQ t -> TQ (log_ev e t).
  Proof. tq_same. Qed.
  Lemma TQ_reply b t : TQ t -> TQ (reply b t).
  Proof. tq_same. Qed.
  Lemma TQ_set_vflag i v t : TQ t -> TQ (set_vflag i v t).
  Proof. tq_same. Qed.
  Lemma TQ_set_vint i v t : TQ t -> TQ (set_vint i v t).
  Proof. tq_same. Qed.
  Lemma TQ_set_vstr i v t : TQ t -> TQ (set_vstr i v t).
  Proof. tq_same. Qed.
  Lemma TQ_on_kbd f t : TQ t -> TQ (on_kbd f t).
  Proof. intros []; unfold on_kbd; destruct (onalt t); split; cbn [tmain talt]; assumption. Qed.
  Lemma TQ_switch t : TQ t -> TQ (switch_screen t).
  Proof. tq_same. Qed.
  Hint Resolve TQ_log_ev TQ_reply TQ_set_vflag TQ_set_vint TQ_set_vstr TQ_on_kbd TQ_switch : tq.

  Lemma TQ_exec_c0 b t : TQ t -> TQ (exec_c0 b t).
  Proof.
    intros Ht. unfold exec_c0.
    repeat match goal with |- context [if ?c then _ else _] => destruct c end;
      auto with tq; apply TQ_on_screen; auto; rowsq_solve.
  Qed.
  Lemma TQ_exec_esc b t : TQ t -> TQ (exec_esc b t).
  Proof.
    intros Ht. unfold exec_esc.
    repeat match goal with |- context [if ?c then _ else _] => destruct c end;
      auto with tq; apply TQ_on_screen; auto; rowsq_solve.
  Qed.
  Lemma TQ_dec_mode v p t : TQ t -> TQ (dec_mode v p t).
  Proof.
    intros Ht. unfold dec_mode.
    repeat match goal with |- context [if ?c then _ else _] => destruct c end;
      auto with tq; apply TQ_on_screen; auto; rowsq_solve.
  Qed.
  Lemma TQ_dec_modes v ps : forall t, TQ t -> TQ (fold_left (fun t p => dec_mode v p t) ps t).
  Proof. induction ps as [|p ps IH]; intros t Ht; cbn [fold_left]; auto using TQ_dec_mode. Qed.
  Lemma TQ_exec_csi_plain ps f t : TQ t -> TQ (exec_csi_plain ps f t).
  Proof.
    intros Ht. unfold exec_csi_plain. cbv zeta.
    repeat match goal with |- TQ (if ?c then _ else _) => destruct c end;
      auto with tq; apply TQ_on_screen; auto; rowsq_solve.
  Qed.
  Lemma TQ_exec_csi prefix ps f t : TQ t -> TQ (exec_csi prefix ps f t).
  Proof.
    intros Ht. unfold exec_csi. cbv zeta.
    repeat match goal with |- TQ (if ?c then _ else _) => destruct c end;
      auto using TQ_exec_csi_plain, TQ_dec_modes with tq.
  Qed.
  Lemma TQ_exec_osc n p t : TQ t -> TQ (exec_osc n p t).
  Proof.
    intros Ht. unfold exec_osc.
    repeat match goal with |- TQ (if ?c then _ else _) => destruct c end; auto with tq.
  Qed.

  (* tokens whose glyph text makes a Q cell *)
  Definition tok_q (k : tok) : Prop :=
    match k with TGlyph txt _ _ => forall w st, Q (mkCell txt w st) | _ => True end.

  Theorem TQ_exec_tok k t : tok_q k -> TQ t -> TQ (exec_tok k t).
  Proof.
    intros Hk Ht. destruct k; cbn [exec_tok];
      auto using TQ_exec_c0, TQ_exec_esc, TQ_exec_csi, TQ_exec_osc.
    cbn [tok_q] in Hk. apply TQ_on_screen; auto. intros s Hs. cbv beta.
    apply RowsQ_write_glyph; [exact Hk|]. destruct (_ && _); [apply RowsQ_add_trig|]; exact Hs.
  Qed.

  Theorem TQ_resize w h t : TQ t -> TQ (resize w h t).
  Proof.
    intros (Hm & Ha). unfold resize. split; cbn [tmain talt]; apply RowsQ_set_evs, RowsQ_set_size, RowsQ_set_evs; assumption.
  Qed.

  Section Run.
    Variable wc : Z -> Z.
    Variable grid : bool.
    (* every token the parser produces under this text rule is fine *)
    Hypothesis Hparse : forall inp k rest, parse_one wc grid inp = PTok k rest -> tok_q k.

    Theorem TQ_run_pending fuel : forall t inp, TQ t -> TQ (fst (run_pending wc grid fuel t inp)).
    Proof.
      induction fuel as [|f IH]; intros t inp Ht; cbn [run_pending]; [exact Ht|].
      destruct (crashed t); [exact Ht|].
      destruct (parse_one wc grid inp) as [|k rest] eqn:E; [exact Ht|].
      apply IH, TQ_exec_tok; [eapply Hparse, E|exact Ht].
    Qed.

    Lemma TQ_hstep st o : TQ (fst st) -> TQ (fst (hstep wc grid st o)).
    Proof.
      intros Ht. destruct o as [bs|w h]; cbn [hstep].
      - apply TQ_run_pending, Ht.
      - destruct (crashed (fst st)); [exact Ht|]. cbn [fst]. apply TQ_resize, Ht.
    Qed.

    Theorem TQ_run_hist w h ops : TQ (fst (run_hist wc grid (init_term w h) ops)).
    Proof.
      unfold run_hist. assert (G : forall st, TQ (fst st) -> TQ (fst (fold_left (hstep wc grid) ops st))).
      { induction ops as [|o ops IH]; intros st Ht; cbn [fold_left]; [exact Ht|]. apply IH, TQ_hstep, Ht. }
      apply G. apply TQ_init.
    Qed.
  End Run.
End CellPred.

(* ---------- the instance: no ESC byte in a cell's text ---------- *)
Definition noesc (c : cell) : Prop := ~ In 27 (ctext c).

Lemma noesc_blank st : noesc (blank st).
Proof. unfold noesc, blank. cbn [ctext]. intros [H|[]]. discriminate H. Qed.
Lemma noesc_cont st : noesc (contc st).
Proof. unfold noesc, contc. cbn [ctext]. exact (fun H => H). Qed.

(* the second byte of a multi-byte sequence is at least 0x80 *)
Lemma utf8_first_lo b sz lo hi : utf8_first b = (sz, lo, hi) -> sz = 1 \/ sz = 0 \/ 128 <= lo.
Proof.
  unfold utf8_first.
  repeat match goal with |- context [if ?c then _ else _] => destruct c end; intros H; inversion H; lia.
Qed.

(* the text of a glyph (one valid printable UTF-8 rune) has no ESC byte *)
Lemma glyph_text_no_esc txt r : glyph_text txt r -> ~ In 27 txt.
Proof.
  intros (Hd & b & l & E & Hp) Hin. subst txt.
  unfold is_printable in Hp. apply andb_true_iff in Hp. destruct Hp as [Hp _]. apply Z.leb_le in Hp.
  unfold decode_rune in Hd. destruct (utf8_first b) as [[sz lo] hi] eqn:U.
  pose proof (utf8_first_lo _ _ _ _ U) as Hlo.
  assert (L : forall (x : Z) (t : list Z), zlen (x :: t) = 1 + zlen t) by (intros; unfold zlen; cbn [length]; lia).
  assert (N : forall t : list Z, zlen t = 0 -> t = []).
  { intros t Ht. destruct t; [reflexivity|]. unfold zlen in Ht. cbn [length] in Ht. lia. }
  destruct (Z.eqb_spec sz 1) as [S1|S1].
  { assert (Hz : 1 = zlen (b :: l)) by congruence. rewrite L in Hz. rewrite (N l) in Hin by lia. destruct Hin as [Hin|[]]. lia. }
  destruct (Z.eqb_spec sz 0) as [S0|S0]; [discriminate Hd|].
  destruct Hlo as [Hlo|[Hlo|Hlo]]; [lia|lia|].
  destruct l as [|b1 l1]; [discriminate Hd|].
  destruct ((b1 <? lo) || (hi <? b1)) eqn:C1; [discriminate Hd|].
  apply orb_false_iff in C1. destruct C1 as [C1 _]. apply Z.ltb_ge in C1.
  destruct (sz =? 2).
  { assert (Hz : 2 = zlen (b :: b1 :: l1)) by congruence. rewrite !L in Hz. rewrite (N l1) in Hin by lia.
    destruct Hin as [Hin|[Hin|[]]]; lia. }
  destruct l1 as [|b2 l2]; [discriminate Hd|].
  destruct ((b2 <? 128) || (191 <? b2)) eqn:C2; [discriminate Hd|].
  apply orb_false_iff in C2. destruct C2 as [C2 _]. apply Z.ltb_ge in C2.
  destruct (sz =? 3).
  { assert (Hz : 3 = zlen (b :: b1 :: b2 :: l2)) by congruence. rewrite !L in Hz. rewrite (N l2) in Hin by lia.
    destruct Hin as [Hin|[Hin|[Hin|[]]]]; lia. }
  destruct l2 as [|b3 l3]; [discriminate Hd|].
  destruct ((b3 <? 128) || (191 <? b3)) eqn:C3; [discriminate Hd|].
  apply orb_false_iff in C3. destruct C3 as [C3 _]. apply Z.ltb_ge in C3.
  assert (Hz : 4 = zlen (b :: b1 :: b2 :: b3 :: l3)) by congruence. rewrite !L in Hz. rewrite (N l3) in Hin by lia.
  destruct Hin as [Hin|[Hin|[Hin|[Hin|[]]]]]; lia.
Qed.

(* whatever the parser makes a glyph of - a valid rune, U+FFFD for an invalid byte (grid rule),
   or the raw invalid byte (span rule) - holds no ESC byte *)
Lemma parse_one_noesc wc grid inp k rest : parse_one wc grid inp = PTok k rest -> tok_q noesc k.
Proof.
  unfold parse_one. destruct inp as [|b l]; [discriminate|].
  destruct (is_printable b) eqn:Pb.
  - destruct (decode_rune (b :: l)) as [[[r size] valid]|] eqn:D; [|discriminate].
    intros H; inversion H; subst; clear H. cbn [tok_q]. intros w st. unfold noesc. cbn [ctext].
    destruct valid; cbn [negb andb].
    + apply (glyph_text_no_esc _ r). split; [apply decode_valid_prefix, D|].
      destruct (decode_rune_size _ _ _ _ D) as (S1 & _).
      destruct (Z.to_nat size) as [|n] eqn:En; [lia|].
      exists b, (firstn n l). split; [unfold zfirstn; rewrite En; reflexivity|exact Pb].
    + destruct grid.
      * unfold utf8_replacement. intros [H|[H|[H|[]]]]; discriminate H.
      * assert (Hs : size = 1).
        { clear -D. unfold decode_rune in D. destruct (utf8_first b) as [[sz lo] hi].
          repeat (first [ match type of D with context [if ?c then _ else _] => destruct c end
                        | match type of D with context [match ?x with [] => _ | _ :: _ => _ end] => destruct x end ]);
            try discriminate D; inversion D; reflexivity. }
        subst size. change (zfirstn 1 (b :: l)) with [b]. intros [H|[]].
        unfold is_printable in Pb. apply andb_true_iff in Pb. destruct Pb as [Pb _]. apply Z.leb_le in Pb. lia.
  - destruct (b =? 27).
    + intros H. apply parse_esc_not_glyph in H. destruct k; try exact I. discriminate.
    + intros H; inversion H; exact I.
Qed.

(* ---------- every reachable row ---------- *)
Lemma strippable_of c : wf_style (cst c) -> noesc c -> strippable c.
Proof. intros A B. split; assumption. Qed.

(* After every history of reads and resizes, for either text rule and any oracle, every cell of
   every row of both buffers is strippable ... *)
Theorem reachable_rows_strippable wc grid w h ops :
  let t := fst (run_hist wc grid (init_term w h) ops) in
  Forall (Forall strippable) (rows (tmain t)) /\ Forall (Forall strippable) (rows (talt t)).
Proof.
  intros t.
  destruct (TQ_run_hist noesc noesc_blank noesc_cont wc grid (parse_one_noesc wc grid) w h ops) as (Qm & Qa).
  destruct (TSInv_run_hist wc grid w h ops) as ((_ & Sm) & (_ & Sa)). fold t in Qm, Qa, Sm, Sa.
  assert (G : forall s, RowsQ noesc s -> (forall c, cell_in c s -> wf_style (cst c)) -> Forall (Forall strippable) (rows s)).
  { intros s Hq Hs. unfold RowsQ in Hq. rewrite Forall_forall in Hq. apply Forall_forall. intros r Hr.
    specialize (Hq r Hr). rewrite Forall_forall in Hq. apply Forall_forall. intros c Hc.
    apply strippable_of; [apply Hs; exists r; auto|apply Hq, Hc]. }
  split; apply G; assumption.
Qed.

(* ... hence ANSILine(y) without its SGR sequences is the text of the row's cells *)
Theorem reachable_rows_strip wc grid w h ops :
  let t := fst (run_hist wc grid (init_term w h) ops) in
  forall s, s = tmain t \/ s = talt t -> forall row, In row (rows s) ->
    strip_sgr (render_line_ansi row) = line_text row.
Proof.
  intros t s Hs row Hin. destruct (reachable_rows_strippable wc grid w h ops) as (A & B). fold t in A, B.
  apply strip_render_line. destruct Hs as [-> | ->]; [rewrite Forall_forall in A; apply A, Hin|rewrite Forall_forall in B; apply B, Hin].
Qed.
