(* C07: the SGR interpreter of the model computes the abstract left-to-right
   fold of Spec/SgrSpec.v; what each code does; the frontend is told. *)
From Coq Require Import List ZArith Bool Lia.
From Termemu Require Import Base Style Screen Kbd Parser Term SgrSpec StyleProofs.
Import ListNotations.
Open Scope Z_scope.

(* ---------- induction on lists by length ---------- *)
Lemma list_len_ind {A} (P : list A -> Prop) :
  (forall l, (forall l', (length l' < length l)%nat -> P l') -> P l) -> forall l, P l.
Proof.
  intros H l. assert (G : forall n l, (length l < n)%nat -> P l).
  { induction n as [|n IH]; intros l0 Hl; [lia|]. apply H. intros l' Hl'. apply IH. lia. }
  apply (G (S (length l))). lia.
Qed.

(* ---------- aeq ---------- *)
Lemma aeq_refl a : aeq a a.
Proof. repeat split. Qed.
Lemma aeq_sym a b : aeq a b -> aeq b a.
Proof. intros (H1 & H2 & H3). repeat split; auto. Qed.
Lemma aeq_trans a b c : aeq a b -> aeq b c -> aeq a c.
Proof. intros (H1 & H2 & H3) (G1 & G2 & G3). split; [congruence|]. split; [congruence|]. intros i. rewrite H3. apply G3. Qed.

(* deciding [aeq (abs (model ops s)) (spec ops a)] from [aeq (abs s) a] *)
Ltac aeq_solve H :=
  let H1 := fresh in let H2 := fresh in let H3 := fresh in
  destruct H as (H1 & H2 & H3); cbn [abs afg abg amode] in H1, H2, H3;
  unfold aeq, abs, a_set, a_reset, a_fg, a_bg, a_default, a_comp, set_comp;
  cbn [afg abg amode];
  split; [try reflexivity; try exact H1|split; [try reflexivity; try exact H2|]];
  intros j;
  repeat first [ rewrite test_set_mode by lia | rewrite test_reset_mode by lia ];
  try rewrite <- H3;
  repeat match goal with |- context [?a =? j] => destruct (a =? j) end;
  try reflexivity.

Lemma abs_set_mode i s a : 0 <= i -> aeq (abs s) a -> aeq (abs (set_mode i s)) (a_set i a).
Proof. intros Hi H. aeq_solve H. Qed.
Lemma abs_reset_mode i s a : 0 <= i -> aeq (abs s) a -> aeq (abs (reset_mode i s)) (a_reset i a).
Proof. intros Hi H. aeq_solve H. Qed.
Lemma abs_set_fg c s a : aeq (abs s) a -> aeq (abs (set_fg c s)) (a_fg c a).
Proof. intros H. aeq_solve H. Qed.
Lemma abs_set_bg c s a : aeq (abs s) a -> aeq (abs (set_bg c s)) (a_bg c a).
Proof. intros H. aeq_solve H. Qed.
Lemma abs_set_comp b c s a : aeq (abs s) a -> aeq (abs (set_comp b c s)) (a_comp b c a).
Proof. intros H. destruct b; [apply abs_set_bg|apply abs_set_fg]; exact H. Qed.
Lemma abs_default : aeq (abs default_style) a_default.
Proof. split; [reflexivity|]. split; [reflexivity|]. intros i. cbn [abs amode a_default]. unfold test_mode. cbn [smodes default_style]. apply Z.testbit_0_l. Qed.

(* ---------- one plain code ---------- *)
Definition sgr_step (p : Z) (s : style) : style :=
  match sgr_simple p s with Some s' => s' | None => s end.

Lemma In_zseq_nat n : forall a p, a <= p < a + Z.of_nat n -> In p (zseq_nat a n).
Proof.
  induction n as [|n IH]; intros a p H; [lia|]. cbn [zseq_nat].
  destruct (Z.eq_dec a p); [left; assumption|right; apply IH; lia].
Qed.
Lemma In_zseq a b p : a <= p < b -> In p (zseq a b).
Proof. intros H. unfold zseq. apply In_zseq_nat. lia. Qed.

Lemma not_in_effective p : ~ In p effective_codes -> existsb (Z.eqb p) effective_codes = false.
Proof.
  intros H. destruct (existsb (Z.eqb p) effective_codes) eqn:E; [|reflexivity].
  exfalso. apply H. apply existsb_exists in E. destruct E as (x & Hx & E). apply Z.eqb_eq in E. subst. exact Hx.
Qed.

Ltac split_tests p :=
  repeat match goal with
  | |- context [p =? ?k] => destruct (Z.eqb_spec p k); [exfalso; lia|]
  | |- context [?k <=? p] => destruct (Z.leb_spec k p)
  | |- context [p <=? ?k] => destruct (Z.leb_spec p k)
  end; cbn [andb]; try reflexivity; exfalso; lia.

Lemma simple_out p s : p < 0 \/ 107 < p -> sgr_simple p s = None.
Proof. intros H. unfold sgr_simple. split_tests p. Qed.
Lemma spec_out p a : p < 0 \/ 107 < p -> sgr_plain_spec p a = a.
Proof. intros H. unfold sgr_plain_spec, between. cbn [assoc set_codes reset_codes]. split_tests p. Qed.

Lemma simple_in : Forall (fun k => existsb (Z.eqb k) effective_codes = false -> forall s, sgr_simple k s = None) (zseq 0 108).
Proof.
  repeat (constructor; [intros H s; first [vm_compute in H; discriminate H | reflexivity]|]). constructor.
Qed.
Lemma spec_in : Forall (fun k => existsb (Z.eqb k) effective_codes = false -> forall a, sgr_plain_spec k a = a) (zseq 0 108).
Proof.
  repeat (constructor; [intros H s; first [vm_compute in H; discriminate H | reflexivity]|]). constructor.
Qed.

Lemma not_effective_simple p s : ~ In p effective_codes -> sgr_simple p s = None.
Proof.
  intros H. destruct (Z_lt_le_dec p 0); [apply simple_out; lia|]. destruct (Z_lt_le_dec 107 p); [apply simple_out; lia|].
  pose proof simple_in as F. rewrite Forall_forall in F. apply F; [apply In_zseq; lia|apply not_in_effective, H].
Qed.

Lemma not_effective_spec p a : ~ In p effective_codes -> sgr_plain_spec p a = a.
Proof.
  intros H. destruct (Z_lt_le_dec p 0); [apply spec_out; lia|]. destruct (Z_lt_le_dec 107 p); [apply spec_out; lia|].
  pose proof spec_in as F. rewrite Forall_forall in F. apply F; [apply In_zseq; lia|apply not_in_effective, H].
Qed.

Lemma effective_sim p s a : In p effective_codes -> aeq (abs s) a ->
  aeq (abs (sgr_step p s)) (sgr_plain_spec p a).
Proof.
  intros Hp H. cbn [In effective_codes] in Hp.
  repeat (destruct Hp as [<-|Hp]; [
    cbv -[set_mode reset_mode set_fg set_bg default_style abs aeq a_set a_reset a_fg a_bg a_default];
    repeat first [ exact H | apply abs_default | apply abs_set_fg | apply abs_set_bg
                 | apply abs_set_mode; [discriminate|] ];
    aeq_solve H |]).
  destruct Hp.
Qed.

Theorem plain_sim p s a : aeq (abs s) a -> aeq (abs (sgr_step p s)) (sgr_plain_spec p a).
Proof.
  intros H. destruct (in_dec Z.eq_dec p effective_codes) as [Hp|Hp].
  - apply effective_sim; assumption.
  - unfold sgr_step. rewrite not_effective_simple, not_effective_spec by exact Hp. exact H.
Qed.

Lemma ext_not_effective p : (p =? 38) || (p =? 48) = true -> ~ In p effective_codes.
Proof.
  intros E H. cbn [In effective_codes] in H.
  destruct (Z.eqb_spec p 38); [lia|]. destruct (Z.eqb_spec p 48); [lia|]. discriminate.
Qed.

(* ---------- the fold ---------- *)
Theorem sgr_fold_sim ps : forall s a, aeq (abs s) a ->
  aeq (abs (sgr_fold ps s)) (fold_left sgr1_spec (group ps) a).
Proof.
  induction ps as [ps IH] using list_len_ind. intros s a H.
  destruct ps as [|p rest]; [exact H|]. cbn [sgr_fold group].
  assert (Plain : forall s a, aeq (abs s) a ->
            aeq (abs (sgr_fold rest (sgr_step p s))) (fold_left sgr1_spec (IPlain p :: group rest) a)).
  { intros s0 a0 H0. cbn [fold_left sgr1_spec]. apply IH; [cbn [length]; lia|]. apply plain_sim, H0. }
  destruct ((p =? 38) || (p =? 48)) eqn:E.
  - assert (Skip : aeq (abs (sgr_fold rest s)) (fold_left sgr1_spec (IPlain p :: group rest) a)).
    { specialize (Plain s a H). unfold sgr_step in Plain.
      rewrite not_effective_simple in Plain by (apply ext_not_effective, E). exact Plain. }
    destruct rest as [|m [|v rest2]]; try exact Skip.
    destruct (m =? 5).
    { cbn [fold_left sgr1_spec]. apply IH; [cbn [length]; lia|]. apply abs_set_comp, H. }
    destruct (m =? 2); [|exact Skip].
    destruct rest2 as [|g [|b rest3]]; try exact Skip.
    cbn [fold_left sgr1_spec]. apply IH; [cbn [length]; lia|]. apply abs_set_comp, H.
  - specialize (Plain s a H). unfold sgr_step in Plain.
    destruct (sgr_simple p s); exact Plain.
Qed.

Theorem sgr_fold_spec ps s : aeq (abs (sgr_fold ps s)) (sgr_spec ps (abs s)).
Proof. apply sgr_fold_sim, aeq_refl. Qed.

Theorem sgr_apply_nil s : sgr_apply [] s = sgr_fold [0] s.
Proof. reflexivity. Qed.
Theorem sgr_apply_spec ps s :
  aeq (abs (sgr_apply ps s)) (sgr_spec (match ps with [] => [0] | _ => ps end) (abs s)).
Proof. destruct ps; apply sgr_fold_spec. Qed.

(* a well-formed style is determined by its abstract view: the spec fixes the result *)
Lemma testbit_inj_modes m1 m2 : 0 <= m1 -> 0 <= m2 ->
  (forall i, Z.testbit m1 i = Z.testbit m2 i) -> m1 = m2.
Proof. intros _ _ H. apply Z.bits_inj'. intros n _. apply H. Qed.

Theorem abs_injective s1 s2 : aeq (abs s1) (abs s2) -> s1 = s2.
Proof.
  intros (H1 & H2 & H3). destruct s1 as [f1 b1 m1], s2 as [f2 b2 m2].
  cbn [abs afg abg amode] in *. unfold test_mode in H3. cbn [smodes] in H3.
  f_equal; try assumption. apply Z.bits_inj'. intros n _. apply H3.
Qed.

Theorem sgr_fold_unique ps s s' : aeq (abs s') (sgr_spec ps (abs s)) -> sgr_fold ps s = s'.
Proof.
  intros H. apply abs_injective. eapply aeq_trans; [apply sgr_fold_spec|apply aeq_sym, H].
Qed.

(* ---------- group, as a relation ---------- *)
Lemma ext_iff p : (p =? 38) || (p =? 48) = true <-> is_ext p.
Proof. unfold is_ext. rewrite orb_true_iff, !Z.eqb_eq. tauto. Qed.

Theorem group_grouped ps : grouped ps (group ps).
Proof.
  induction ps as [ps IH] using list_len_ind.
  destruct ps as [|p rest]; [constructor|]. cbn [group].
  assert (R : grouped rest (group rest)) by (apply IH; cbn [length]; lia).
  destruct ((p =? 38) || (p =? 48)) eqn:E.
  - apply ext_iff in E.
    destruct rest as [|m [|v rest2]].
    + apply G_trunc; [exact E|intros C; inversion C|exact R].
    + apply G_trunc; [exact E|intros C; inversion C|exact R].
    + destruct (Z.eqb_spec m 5) as [->|N5].
      { apply G_idx; [exact E|]. apply IH. cbn [length]. lia. }
      destruct (Z.eqb_spec m 2) as [->|N2].
      * destruct rest2 as [|g [|b rest3]].
        -- apply G_trunc; [exact E|intros C; inversion C|exact R].
        -- apply G_trunc; [exact E|intros C; inversion C|exact R].
        -- apply G_rgb; [exact E|]. apply IH. cbn [length]. lia.
      * apply G_trunc; [exact E|intros C; inversion C; congruence|exact R].
  - apply G_plain; [|exact R]. rewrite <- ext_iff. congruence.
Qed.

Theorem grouped_group ps its : grouped ps its -> its = group ps.
Proof.
  induction 1 as [|p rest its N _ IH|p n rest its E _ IH|p r g b rest its E _ IH|p rest its E C _ IH].
  - reflexivity.
  - cbn [group]. destruct ((p =? 38) || (p =? 48)) eqn:X; [apply ext_iff in X; contradiction|]. rewrite IH. reflexivity.
  - apply ext_iff in E. cbn [group]. rewrite E. cbn [Z.eqb Pos.eqb]. rewrite IH. reflexivity.
  - apply ext_iff in E. cbn [group]. rewrite E. cbn [Z.eqb Pos.eqb]. rewrite IH. reflexivity.
  - apply ext_iff in E. subst its. cbn [group]. rewrite E.
    destruct rest as [|m [|v rest2]]; try reflexivity.
    destruct (Z.eqb_spec m 5) as [->|N5]; [exfalso; apply C; constructor|].
    destruct (Z.eqb_spec m 2) as [->|N2]; [|reflexivity].
    destruct rest2 as [|g [|b rest3]]; try reflexivity.
    exfalso; apply C; constructor.
Qed.

(* truncated and unknown extended-colour forms: 38 / 48 is dropped, the rest is read as plain codes *)
Theorem group_truncated p : is_ext p ->
  group [p] = [IPlain p] /\
  group [p; 5] = [IPlain p; IPlain 5] /\
  (forall r, group [p; 2; r] = [IPlain p; IPlain 2; IPlain r]) /\
  (forall r g, ~ is_ext r -> ~ is_ext g -> group [p; 2; r; g] = [IPlain p; IPlain 2; IPlain r; IPlain g]) /\
  (forall m rest, m <> 5 -> m <> 2 -> group (p :: m :: rest) = IPlain p :: group (m :: rest)).
Proof.
  intros E. apply ext_iff in E. cbn [group]. rewrite E. cbn [Z.eqb Pos.eqb orb].
  split; [reflexivity|]. split; [reflexivity|]. split.
  { intros r. destruct ((r =? 38) || (r =? 48)); reflexivity. }
  split.
  { intros r g Nr Ng. rewrite <- ext_iff in Nr, Ng.
    destruct ((r =? 38) || (r =? 48)); [congruence|]. destruct ((g =? 38) || (g =? 48)); [congruence|]. reflexivity. }
  intros m rest N5 N2. destruct rest as [|v rest2]; [reflexivity|].
  destruct (Z.eqb_spec m 5); [contradiction|]. destruct (Z.eqb_spec m 2); [contradiction|]. reflexivity.
Qed.

(* ---------- what the codes do ---------- *)

(* a code read on its own that is not in the list changes nothing (this includes
   10-20, 26, 38, 48, 50, 56-89, 98, 99 and everything above 107) *)
Theorem sgr_other_codes p s : ~ In p effective_codes -> sgr_fold [p] s = s.
Proof.
  intros H. cbn [sgr_fold]. rewrite (not_effective_simple p s H).
  destruct ((p =? 38) || (p =? 48)); reflexivity.
Qed.

Definition effective_b (p : Z) : bool := existsb (Z.eqb p) effective_codes.
Lemma effective_b_iff p : effective_b p = true <-> In p effective_codes.
Proof.
  unfold effective_b. rewrite existsb_exists. split.
  - intros (x & Hx & E). apply Z.eqb_eq in E. subst. exact Hx.
  - intros H. exists p. split; [exact H|apply Z.eqb_refl].
Qed.

Theorem sgr_code_table : forall p s, 0 <= p <= 255 -> effective_b p = false -> sgr_fold [p] s = s.
Proof.
  intros p s _ H. apply sgr_other_codes. rewrite <- effective_b_iff. congruence.
Qed.

Theorem sgr_reset_all ps s : sgr_fold (0 :: ps) s = sgr_fold ps default_style.
Proof. reflexivity. Qed.

Theorem sgr_zero_modes s i : test_mode i (sgr_fold [0] s) = false /\ sfg (sgr_fold [0] s) = CDef /\ sbg (sgr_fold [0] s) = CDef.
Proof. cbn [sgr_fold]. unfold test_mode. cbn. rewrite Z.testbit_0_l. auto. Qed.

(* the paired resets *)
Theorem sgr_pair_resets s j :
  test_mode j (sgr_fold [22] s) = negb (j =? mBold) && negb (j =? mDim) && test_mode j s /\
  test_mode j (sgr_fold [24] s) = negb (j =? mUnderline) && negb (j =? mDUnderline) && test_mode j s /\
  test_mode j (sgr_fold [25] s) = negb (j =? mBlink) && negb (j =? mRapid) && test_mode j s /\
  test_mode j (sgr_fold [54] s) = negb (j =? mFramed) && negb (j =? mEncircled) && test_mode j s.
Proof.
  unfold mBold, mDim, mUnderline, mDUnderline, mBlink, mRapid, mFramed, mEncircled.
  change (sgr_fold [22] s) with (reset_mode 1 (reset_mode 0 s)).
  change (sgr_fold [24] s) with (reset_mode 9 (reset_mode 3 s)).
  change (sgr_fold [25] s) with (reset_mode 12 (reset_mode 4 s)).
  change (sgr_fold [54] s) with (reset_mode 11 (reset_mode 10 s)).
  rewrite !test_reset_mode by lia.
  repeat split;
    repeat match goal with |- context [?a =? j] => rewrite (Z.eqb_sym a j) end;
    repeat match goal with |- context [j =? ?a] => destruct (j =? a) end; reflexivity.
Qed.

(* every set code sets exactly its mode; every reset code clears exactly its modes;
   colours are untouched by mode codes and modes by colour codes *)
Theorem sgr_set_codes p i s : assoc p set_codes = Some i ->
  sgr_fold [p] s = set_mode i s.
Proof.
  cbn [assoc set_codes].
  repeat match goal with |- context [p =? ?k] => destruct (Z.eqb_spec p k); [subst p; intros E; inversion E; reflexivity|] end.
  discriminate.
Qed.

Theorem sgr_reset_codes p l s : assoc p reset_codes = Some l ->
  sgr_fold [p] s = fold_left (fun s i => reset_mode i s) l s.
Proof.
  cbn [assoc reset_codes].
  repeat match goal with |- context [p =? ?k] => destruct (Z.eqb_spec p k); [subst p; intros E; inversion E; reflexivity|] end.
  discriminate.
Qed.

Theorem sgr_color_codes n s : 0 <= n <= 7 ->
  sgr_fold [30 + n] s = set_fg (CIdx n) s /\ sgr_fold [40 + n] s = set_bg (CIdx n) s /\
  sgr_fold [90 + n] s = set_fg (CBright n) s /\ sgr_fold [100 + n] s = set_bg (CBright n) s /\
  sgr_fold [39] s = set_fg CDef s /\ sgr_fold [49] s = set_bg CDef s.
Proof.
  intros H. assert (C : n = 0 \/ n = 1 \/ n = 2 \/ n = 3 \/ n = 4 \/ n = 5 \/ n = 6 \/ n = 7) by lia.
  repeat (destruct C as [->|C]; [repeat split; reflexivity|]). subst n. repeat split; reflexivity.
Qed.

Theorem sgr_ext_codes (bgp : bool) n r g b s rest :
  let p := if bgp then 48 else 38 in
  sgr_fold (p :: 5 :: n :: rest) s = sgr_fold rest (set_comp bgp (CIdx (n mod 256)) s) /\
  sgr_fold (p :: 2 :: r :: g :: b :: rest) s = sgr_fold rest (set_comp bgp (CRgb (rgb_of r g b)) s).
Proof. destruct bgp; split; reflexivity. Qed.

(* ---------- the frontend is told ---------- *)
Theorem sgr_dispatch ps t :
  exec_tok (TCsi 0 ps 109) t = on_screen (fun s => set_style (sgr_apply ps (sty s)) s) t.
Proof. reflexivity. Qed.

Theorem sgr_told ps t :
  let st := sgr_apply ps (sty (active t)) in
  let t' := exec_csi_plain ps 109 t in
  let s := active t in let s' := active t' in
  tlog t' = EStyle st :: tlog t /\ sty s' = st /\
  rows s' = rows s /\ sW s' = sW s /\ sH s' = sH s /\ cx s' = cx s /\ cy s' = cy s /\
  svx s' = svx s /\ svy s' = svy s /\ top s' = top s /\ bot s' = bot s /\ awrap s' = awrap s /\
  crash s' = crash s /\ trig s' = trig s /\
  (if onalt t then tmain t' = tmain t else talt t' = talt t) /\
  onalt t' = onalt t /\ vflags t' = vflags t /\ vints t' = vints t /\ vstrs t' = vstrs t /\
  kbm t' = kbm t /\ kba t' = kba t /\ tout t' = tout t.
Proof.
  destruct t as [m a o vf vi vs km ka out lg]. destruct o; cbn; repeat split; reflexivity.
Qed.

(* the private-prefix forms CSI ? m, CSI > m, CSI < m, CSI = m never change a style *)
Theorem sgr_private_no_style prefix ps t : prefix <> 0 ->
  sty (tmain (exec_csi prefix ps 109 t)) = sty (tmain t) /\ sty (talt (exec_csi prefix ps 109 t)) = sty (talt t).
Proof.
  intros N. unfold exec_csi. destruct (Z.eqb_spec prefix 0); [contradiction|].
  destruct (prefix =? 63); [cbn; auto|].
  destruct (prefix =? 62); [cbn [Z.eqb Pos.eqb]; destruct (0 <=? _); cbn; auto|].
  destruct (prefix =? 60); [cbn; auto|]. destruct (prefix =? 61); cbn; auto.
Qed.

(* ---------- examples ---------- *)
Example group_example :
  group [1; 38; 5; 200; 48; 2; 1; 2; 3; 38; 9; 4; 48; 2; 7; 8] =
  [IPlain 1; IIdx false 200; IRgb true 1 2 3; IPlain 38; IPlain 9; IPlain 4;
   IPlain 48; IPlain 2; IPlain 7; IPlain 8].
Proof. vm_compute. reflexivity. Qed.

(* a complete group is taken even when its values look like codes: 38;5;38 *)
Example group_example2 : group [38; 5; 38; 2; 7] = [IIdx false 38; IPlain 2; IPlain 7].
Proof. vm_compute. reflexivity. Qed.

Example fold_example :
  sgr_fold [1; 2; 38; 5; 200; 22; 48; 2; 1; 2; 3; 38; 9; 4; 48; 2; 7; 8] default_style
  = mkStyle (CIdx 200) (CRgb 66051)
      (Z.shiftl 1 mStrike + Z.shiftl 1 mUnderline + Z.shiftl 1 mDim + Z.shiftl 1 mReverse + Z.shiftl 1 mInvisible).
Proof. vm_compute. reflexivity. Qed.

Example told_example :
  let t := exec_csi_plain [4; 91; 48; 5; 17] 109 (init_term 3 2) in
  tlog t = [EStyle (mkStyle (CBright 1) (CIdx 17) 8)] /\ sty (tmain t) = mkStyle (CBright 1) (CIdx 17) 8.
Proof. vm_compute. split; reflexivity. Qed.
