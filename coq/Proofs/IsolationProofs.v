(* C17: main/alternate isolation, level-triggered DEC private modes, reports.
   C20 (model side): the two buffer kinds run the same model except for the text
   stored for an invalid UTF-8 byte. *)
From Coq Require Import List ZArith Bool Lia.
From Termemu Require Import Base Style Screen Kbd Parser Term BaseLemmas ScreenInv TermInv CursorProofs.
Import ListNotations.
Open Scope Z_scope.

Definition inactive_kbd (t : term) : kbd := if onalt t then kbm t else kba t.

(* what a token may not touch unless it switches screens *)
Definition keeps_inactive (t t' : term) : Prop :=
  onalt t' = onalt t /\ inactive t' = inactive t /\ inactive_kbd t' = inactive_kbd t.

Lemma keeps_refl t : keeps_inactive t t.
Proof. repeat split. Qed.
Lemma keeps_trans a b c : keeps_inactive a b -> keeps_inactive b c -> keeps_inactive a c.
Proof.
  unfold keeps_inactive, inactive, inactive_kbd. intros (A1 & A2 & A3) (B1 & B2 & B3).
  rewrite B1 in *. rewrite A1 in *. repeat split; congruence.
Qed.

Lemma keeps_on_screen f t : keeps_inactive t (on_screen f t).
Proof. unfold keeps_inactive, on_screen, inactive, inactive_kbd, set_active, active. destruct (onalt t); cbn; repeat split. Qed.
Lemma keeps_on_kbd f t : keeps_inactive t (on_kbd f t).
Proof. unfold keeps_inactive, on_kbd, inactive, inactive_kbd. destruct (onalt t); cbn; repeat split. Qed.
Lemma keeps_log_ev e t : keeps_inactive t (log_ev e t).
Proof. repeat split. Qed.
Lemma keeps_reply b t : keeps_inactive t (reply b t).
Proof. repeat split. Qed.
Lemma keeps_set_vflag i v t : keeps_inactive t (set_vflag i v t).
Proof. repeat split. Qed.
Lemma keeps_set_vint i v t : keeps_inactive t (set_vint i v t).
Proof. repeat split. Qed.
Lemma keeps_set_vstr i v t : keeps_inactive t (set_vstr i v t).
Proof. repeat split. Qed.
#[export] Hint Resolve keeps_refl keeps_on_screen keeps_on_kbd keeps_log_ev keeps_reply keeps_set_vflag keeps_set_vint keeps_set_vstr : keeps.

Lemma keeps_exec_c0 b t : keeps_inactive t (exec_c0 b t).
Proof. unfold exec_c0. repeat match goal with |- context [if ?c then _ else _] => destruct c end; auto with keeps. Qed.
Lemma keeps_exec_esc b t : keeps_inactive t (exec_esc b t).
Proof. unfold exec_esc. repeat match goal with |- context [if ?c then _ else _] => destruct c end; auto with keeps. Qed.
Lemma keeps_exec_osc n p t : keeps_inactive t (exec_osc n p t).
Proof. unfold exec_osc. repeat match goal with |- context [if ?c then _ else _] => destruct c end; auto with keeps. Qed.
Lemma keeps_exec_csi_plain ps f t : keeps_inactive t (exec_csi_plain ps f t).
Proof.
  unfold exec_csi_plain. cbv zeta.
  repeat match goal with |- keeps_inactive _ (if ?c then _ else _) => destruct c end; auto with keeps.
Qed.

Lemma keeps_dec_mode v p t : p <> 1049 -> keeps_inactive t (dec_mode v p t).
Proof.
  intros Hp. unfold dec_mode.
  repeat match goal with |- keeps_inactive _ (if ?c then _ else _) => destruct c eqn:? end; auto with keeps.
  match goal with H : (p =? 1049) = true |- _ => apply Z.eqb_eq in H; contradiction end.
Qed.

Lemma keeps_dec_modes v ps : forall t, ~ In 1049 ps -> keeps_inactive t (fold_left (fun t p => dec_mode v p t) ps t).
Proof.
  induction ps as [|p ps IH]; intros t Hn; cbn [fold_left]; [apply keeps_refl|].
  apply (keeps_trans t (dec_mode v p t)); [apply keeps_dec_mode; intros E; apply Hn; left; exact E|].
  apply IH. intros H; apply Hn; right; exact H.
Qed.

(* a token that can switch buffers: CSI ? ... h / l with 1049 among the parameters *)
Definition is_switch (k : tok) : Prop :=
  match k with
  | TCsi 63 ps f => (f = 104 \/ f = 108) /\ In 1049 ps
  | _ => False
  end.

Theorem keeps_exec_tok k t : ~ is_switch k -> keeps_inactive t (exec_tok k t).
Proof.
  intros Hn. destruct k as [txt r w|b|b| |prefix ps f|n p]; cbn [exec_tok].
  - apply keeps_on_screen.
  - apply keeps_exec_c0.
  - apply keeps_exec_esc.
  - apply keeps_refl.
  - unfold exec_csi.
    destruct (prefix =? 0); [apply keeps_exec_csi_plain|].
    destruct (prefix =? 63) eqn:E63.
    + apply Z.eqb_eq in E63. subst prefix. cbn [is_switch] in Hn.
      destruct (f =? 117); [auto with keeps|].
      destruct (f =? 104) eqn:Eh.
      * apply Z.eqb_eq in Eh. apply keeps_dec_modes. intros H. apply Hn. split; [left; exact Eh|exact H].
      * destruct (f =? 108) eqn:El; [|apply keeps_refl].
        apply Z.eqb_eq in El. apply keeps_dec_modes. intros H. apply Hn. split; [right; exact El|exact H].
    + repeat match goal with |- keeps_inactive _ (if ?c then _ else _) => destruct c end; auto with keeps.
  - apply keeps_exec_osc.
Qed.

Theorem keeps_exec_toks ks : forall t, Forall (fun k => ~ is_switch k) ks ->
  keeps_inactive t (fold_left (fun t k => exec_tok k t) ks t).
Proof.
  induction ks as [|k ks IH]; intros t Hf; cbn [fold_left]; [apply keeps_refl|].
  inversion Hf; subst. apply (keeps_trans t (exec_tok k t)); [apply keeps_exec_tok; assumption|apply IH; assumption].
Qed.

(* the switch itself changes no buffer content, cursor, margins or keyboard state *)
Lemma switch_screen_spec t :
  tmain (switch_screen t) = tmain t /\ talt (switch_screen t) = talt t /\ onalt (switch_screen t) = negb (onalt t) /\
  kbm (switch_screen t) = kbm t /\ kba (switch_screen t) = kba t /\ vflags (switch_screen t) = vflags t /\
  vints (switch_screen t) = vints t /\ tout (switch_screen t) = tout t.
Proof. repeat split. Qed.

(* ---- level-triggered modes ---- *)
(* equality of everything but the callback log *)
Definition same_state (a b : term) : Prop :=
  tmain a = tmain b /\ talt a = talt b /\ onalt a = onalt b /\ vflags a = vflags b /\ vints a = vints b /\
  vstrs a = vstrs b /\ kbm a = kbm b /\ kba a = kba b /\ tout a = tout b.

Lemma alt_1049_idem v t : dec_mode v 1049 (dec_mode v 1049 t) = dec_mode v 1049 t.
Proof.
  unfold dec_mode. cbn [Z.eqb Pos.eqb].
  destruct (Bool.eqb (onalt t) v) eqn:E.
  - rewrite E. reflexivity.
  - assert (E' : Bool.eqb (onalt (switch_screen t)) v = true).
    { cbn [switch_screen onalt log_ev]. destruct (onalt t), v; cbn in *; congruence. }
    rewrite E'. reflexivity.
Qed.

Lemma alt_1049_level v t : onalt (dec_mode v 1049 t) = v.
Proof.
  unfold dec_mode. cbn [Z.eqb Pos.eqb]. destruct (Bool.eqb (onalt t) v) eqn:E.
  - apply Bool.eqb_prop in E. exact E.
  - cbn. destruct (onalt t), v; cbn in *; congruence.
Qed.

Lemma zupd_zupd {A} i (a b : A) l : zupd i a (zupd i b l) = zupd i a l.
Proof.
  unfold zupd at 1 3. rewrite zlen_zupd.
  destruct ((i <? 0) || (zlen l <=? i)) eqn:E.
  - unfold zupd. rewrite E. reflexivity.
  - apply orb_false_iff in E. destruct E as [E1 E2]. apply Z.ltb_ge in E1. apply Z.leb_gt in E2.
    unfold zupd. destruct (Z.ltb_spec i 0); [lia|]. destruct (Z.leb_spec (zlen l) i); [lia|]. cbn [orb].
    unfold zfirstn, zskipn.
    rewrite firstn_app, firstn_firstn. rewrite firstn_length.
    replace (Nat.min (Z.to_nat i) (Z.to_nat i)) with (Z.to_nat i) by lia.
    assert (Hl : (Z.to_nat i < length l)%nat) by (unfold zlen in *; lia).
    replace (Z.to_nat i - Nat.min (Z.to_nat i) (length l))%nat with 0%nat by lia.
    cbn [firstn]. rewrite app_nil_r. f_equal. f_equal.
    replace (Z.to_nat (i + 1)) with (length (firstn (Z.to_nat i) l) + 1)%nat by (rewrite firstn_length; lia).
    rewrite skipn_app. rewrite skipn_all2 by lia.
    replace (length (firstn (Z.to_nat i) l) + 1 - length (firstn (Z.to_nat i) l))%nat with 1%nat by lia.
    cbn [skipn app]. rewrite firstn_length. replace (Nat.min (Z.to_nat i) (length l) + 1)%nat with (S (Z.to_nat i)) by lia.
    reflexivity.
Qed.

Lemma set_vflag_idem i v t : same_state (set_vflag i v (set_vflag i v t)) (set_vflag i v t).
Proof. unfold same_state, set_vflag, log_ev. cbn. rewrite zupd_zupd. repeat split. Qed.
Lemma set_vint_idem i v t : same_state (set_vint i v (set_vint i v t)) (set_vint i v t).
Proof. unfold same_state, set_vint, log_ev. cbn. rewrite zupd_zupd. repeat split. Qed.

Lemma on_screen_awrap_idem v t :
  same_state (on_screen (set_awrap v) (on_screen (set_awrap v) t)) (on_screen (set_awrap v) t).
Proof. unfold same_state, on_screen, active, set_active. destruct (onalt t); cbn; repeat split. Qed.

Lemma same_state_refl t : same_state t t.
Proof. repeat split. Qed.

(* setting (or resetting) any DEC private mode twice leaves the same state as doing it once *)
Theorem dec_mode_idem v p t : same_state (dec_mode v p (dec_mode v p t)) (dec_mode v p t).
Proof.
  destruct (Z.eq_dec p 1049) as [->|Hp]; [rewrite alt_1049_idem; apply same_state_refl|].
  unfold dec_mode.
  repeat match goal with |- same_state (if ?c then _ else _) _ => destruct c eqn:? end;
    try apply set_vflag_idem; try apply set_vint_idem; try apply on_screen_awrap_idem; try apply same_state_refl.
  match goal with H : (p =? 1049) = true |- _ => apply Z.eqb_eq in H; contradiction end.
Qed.

(* each set/reset of a mode that has a view register is reported once, with the value now in force *)
Definition mode_flag (p : Z) : option Z :=
  if p =? 1 then Some vfAppCursorKeys else if p =? 12 then Some vfBlinkCursor else if p =? 25 then Some vfShowCursor
  else if p =? 1004 then Some vfReportFocus else if p =? 2004 then Some vfBracketedPaste else None.

Theorem dec_mode_reports_flag v p i t : mode_flag p = Some i ->
  tlog (dec_mode v p t) = EFlag i v :: tlog t /\ znth i (vflags (dec_mode v p t)) false = (if (0 <=? i) && (i <? zlen (vflags t)) then v else znth i (vflags t) false).
Proof.
  unfold mode_flag. intros H.
  repeat match type of H with (if ?c then _ else _) = _ => destruct c eqn:? end; inversion H; subst; clear H;
    match goal with E : (p =? _) = true |- _ => apply Z.eqb_eq in E; subst p end;
    unfold dec_mode; cbn [Z.eqb Pos.eqb]; (split; [reflexivity|]); cbn [vflags set_vflag log_ev];
    match goal with |- znth ?i (zupd ?i ?v ?l) _ = _ =>
      destruct (Z.leb_spec 0 i); destruct (Z.ltb_spec i (zlen l)); cbn [andb];
      first [ apply znth_zupd_same; lia
            | unfold zupd; destruct (Z.ltb_spec i 0); destruct (Z.leb_spec (zlen l) i); cbn [orb]; try reflexivity; lia ] end.
Qed.

(* ---- C20, model side ---- *)
(* the only place where the buffer kind enters the model is the text stored for an invalid UTF-8 byte *)
Section Kinds.
  Variable wc : Z -> Z.

  Definition valid_head (inp : list Z) : bool :=
    match inp with
    | [] => true
    | b :: _ => if is_printable b then match decode_rune inp with Some (_, _, v) => v | None => true end else true
    end.

  Lemma parse_one_kind inp : valid_head inp = true -> parse_one wc false inp = parse_one wc true inp.
  Proof.
    unfold valid_head, parse_one. destruct inp as [|b r]; [reflexivity|].
    destruct (is_printable b); [|reflexivity].
    destruct (decode_rune (b :: r)) as [[[ru sz] v]|]; [|reflexivity].
    intros ->. reflexivity.
  Qed.

  (* every glyph the loop meets is valid UTF-8 *)
  Fixpoint all_valid (fuel : nat) (inp : list Z) : bool :=
    match fuel with
    | O => true
    | S f => valid_head inp && match parse_one wc false inp with PTok _ rest => all_valid f rest | PMore => true end
    end.

  Theorem run_pending_kind fuel : forall t inp, all_valid fuel inp = true ->
    run_pending wc false fuel t inp = run_pending wc true fuel t inp.
  Proof.
    induction fuel as [|f IH]; intros t inp Hv; [reflexivity|].
    cbn [all_valid] in Hv. apply andb_true_iff in Hv. destruct Hv as [Hh Hr].
    cbn [run_pending]. rewrite <- (parse_one_kind inp Hh).
    destruct (crashed t); [reflexivity|].
    destruct (parse_one wc false inp) as [|k rest]; [reflexivity|]. apply IH, Hr.
  Qed.
End Kinds.

(* a compound "CSI ? a ; b ; ... h/l" is the sequence of its parts: each parameter acts on the state
   (and on the active buffer) the previous one left *)
Lemma csi_modes_sequential (v : bool) ps1 ps2 t :
  let f := if v then 104 else 108 in
  exec_csi 63 (ps1 ++ ps2) f t = exec_csi 63 ps2 f (exec_csi 63 ps1 f t).
Proof. cbv zeta. unfold exec_csi. destruct v; cbn [Z.eqb Pos.eqb]; apply fold_left_app. Qed.

Lemma csi_mode_single (v : bool) p t :
  exec_csi 63 [p] (if v then 104 else 108) t = dec_mode v p t.
Proof. unfold exec_csi. destruct v; reflexivity. Qed.
