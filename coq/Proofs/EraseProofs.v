(* C05: what write_row_cells / erase_region / delete_chars do to every cell, and
   the EL / ED / ECH / DCH commands built from them. *)
From Coq Require Import List ZArith Bool Lia.
From Termemu Require Import Base Style Screen Kbd Parser Term BaseLemmas ScreenInv TermInv ScreenSpec RowLemmas.
Import ListNotations.
Open Scope Z_scope.

(* ---------- frames ---------- *)
Lemma scr_frame_refl s : scr_frame s s.
Proof. constructor; reflexivity. Qed.
Lemma scr_frame_trans a b c : scr_frame a b -> scr_frame b c -> scr_frame a c.
Proof. intros [] []; constructor; congruence. Qed.
Lemma scr_frame_evs l l' s s' : scr_frame (set_evs l s) s' -> scr_frame s (set_evs l' s').
Proof. intros []; constructor; assumption. Qed.
Lemma scr_frame_nocur_of s s' : scr_frame s s' -> scr_frame_nocur s s'.
Proof. intros []; constructor; assumption. Qed.
Lemma scr_frame_nocur_evs l l' s s' : scr_frame_nocur (set_evs l s) s' -> scr_frame_nocur s (set_evs l' s').
Proof. intros []; constructor; assumption. Qed.

Lemma on_screen_active_eq f t : active (on_screen f t) = set_evs [] (f (set_evs [] (active t))).
Proof. unfold on_screen, active, set_active. destruct (onalt t) eqn:E; cbn [onalt tmain talt]; rewrite ?E; reflexivity. Qed.

Lemma on_screen_term_frame f t : term_frame t (on_screen f t).
Proof.
  unfold on_screen, set_active.
  destruct (onalt t) eqn:E; constructor; unfold inactive_buf;
    cbn [onalt tmain talt vflags vints vstrs kbm kba tout]; rewrite ?E; reflexivity.
Qed.

Lemma term_frame_refl t : term_frame t t.
Proof. constructor; reflexivity. Qed.

Lemma Inv_active t : TInv t -> Inv (active t).
Proof. intros []. unfold active. destruct (onalt t); assumption. Qed.
Lemma Inv_active0 t : TInv t -> Inv (set_evs [] (active t)).
Proof. intros H. apply Inv_set_evs, Inv_active, H. Qed.

(* ---------- write_row_cells ---------- *)
Lemma write_row_cells_row reason x y new s y' :
  Inv s -> 0 <= y < sH s -> 0 <= x -> 0 < zlen new -> x + zlen new <= sW s ->
  row_at (write_row_cells reason x y new s) y' =
    if y' =? y then overwrite (sty s) x new (row_at s y) else row_at s y'.
Proof.
  intros Hs Hy Hx Hn Hl. unfold write_row_cells.
  destruct (Z.leb_spec (zlen new) 0); [lia|].
  destruct (Z.ltb_spec y 0); [lia|]. destruct (Z.leb_spec (sH s) y); [lia|].
  destruct (Z.ltb_spec x 0); [lia|]. destruct (Z.ltb_spec (sW s) (x + zlen new)); [lia|]. cbn [orb].
  pose proof (inv_rows s Hs) as HR.
  destruct (is_cont _); ss; unfold row_at; cbn [rows];
    (destruct (Z.eqb_spec y' y) as [->|Hne]; [apply znth_zupd_same; lia|apply znth_zupd_other; lia]).
Qed.

Lemma write_row_cells_frame reason x y new s :
  0 <= y < sH s -> 0 <= x -> x + zlen new <= sW s ->
  scr_frame s (write_row_cells reason x y new s).
Proof.
  intros Hy Hx Hl. unfold write_row_cells.
  destruct (zlen new <=? 0); [apply scr_frame_refl|].
  destruct (Z.ltb_spec y 0); [lia|]. destruct (Z.leb_spec (sH s) y); [lia|].
  destruct (Z.ltb_spec x 0); [lia|]. destruct (Z.ltb_spec (sW s) (x + zlen new)); [lia|]. cbn [orb].
  destruct (is_cont _); constructor; reflexivity.
Qed.

(* ---------- erase_rows over a run of rows ---------- *)
Lemma erase_rows_empty reason x x2 ys : forall s, x2 <= x -> erase_rows reason x x2 ys s = s.
Proof.
  induction ys as [|y ys IH]; intros s H; cbn [erase_rows]; [reflexivity|].
  assert (E : write_row_cells reason x y (zrepeat (blank (sty s)) (x2 - x)) s = s).
  { unfold write_row_cells. rewrite zlen_zrepeat. destruct (Z.leb_spec (Z.max 0 (x2 - x)) 0); [reflexivity|lia]. }
  rewrite E. apply IH, H.
Qed.

Lemma erase_rows_seq reason x x2 n : forall a s,
  Inv s -> 0 <= x < x2 -> x2 <= sW s -> 0 <= a -> a + Z.of_nat n <= sH s ->
  scr_frame s (erase_rows reason x x2 (zseq_nat a n) s) /\
  forall y', row_at (erase_rows reason x x2 (zseq_nat a n) s) y' =
    if zin a (a + Z.of_nat n) y' then overwrite (sty s) x (zrepeat (blank (sty s)) (x2 - x)) (row_at s y')
    else row_at s y'.
Proof.
  induction n as [|n IH]; intros a s Hs Hx Hx2 Ha Hn; cbn [zseq_nat erase_rows].
  - split; [apply scr_frame_refl|]. intros y'. unfold zin.
    destruct (Z.leb_spec a y'); destruct (Z.ltb_spec y' (a + Z.of_nat 0)); cbn [andb]; try reflexivity. lia.
  - set (new := zrepeat (blank (sty s)) (x2 - x)).
    assert (Ln : zlen new = x2 - x) by (subst new; zlens).
    assert (Hy : 0 <= a < sH s) by lia.
    destruct (write_row_cells_ok reason x a new s Hs Hy ltac:(lia) ltac:(lia)) as (I1 & W1 & H1).
    pose proof (write_row_cells_frame reason x a new s Hy ltac:(lia) ltac:(lia)) as F1.
    pose proof (fun y' => write_row_cells_row reason x a new s y' Hs Hy ltac:(lia) ltac:(lia) ltac:(lia)) as R1.
    set (s1 := write_row_cells reason x a new s) in *.
    destruct (IH (a + 1) s1 I1 Hx ltac:(lia) ltac:(lia) ltac:(lia)) as (F2 & R2).
    split; [eapply scr_frame_trans; eassumption|].
    intros y'. rewrite R2, R1. rewrite (sf_sty _ _ F1). fold new. unfold zin.
    destruct (Z.eqb_spec y' a) as [->|Hne].
    + zbool. reflexivity.
    + destruct (Z.lt_ge_cases y' a); [zbool; reflexivity|].
      destruct (Z.lt_ge_cases y' (a + 1 + Z.of_nat n)); zbool; reflexivity.
Qed.

(* ---------- erase_region ---------- *)
Section EraseRegion.
  Variables (x y x2 y2 : Z) (s : screen).
  Hypothesis Hs : Inv s.
  Let xc := clamp x 0 (sW s).
  Let yc := clamp y 0 (sH s).
  Let x2c := clamp x2 xc (sW s).
  Let y2c := clamp y2 yc (sH s).

  Lemma erase_region_clamps : 0 <= xc <= x2c /\ x2c <= sW s /\ 0 <= yc <= y2c /\ y2c <= sH s.
  Proof.
    pose proof (inv_w s Hs). pose proof (inv_h s Hs).
    pose proof (clamp_range x 0 (sW s) ltac:(lia)) as A. fold xc in A.
    pose proof (clamp_range y 0 (sH s) ltac:(lia)) as B. fold yc in B.
    pose proof (clamp_range x2 xc (sW s) ltac:(lia)) as C. fold x2c in C.
    pose proof (clamp_range y2 yc (sH s) ltac:(lia)) as D. fold y2c in D. lia.
  Qed.

  Lemma erase_region_frame : scr_frame s (erase_region x y x2 y2 s).
  Proof.
    pose proof erase_region_clamps as C. unfold erase_region. fold xc yc x2c y2c.
    destruct (Z.lt_ge_cases xc x2c) as [Hlt|Hge].
    - unfold zseq. apply erase_rows_seq; try lia; exact Hs.
    - rewrite erase_rows_empty by lia. apply scr_frame_refl.
  Qed.

  Lemma erase_region_row y' :
    row_at (erase_region x y x2 y2 s) y' =
      if zin yc y2c y' && (xc <? x2c)
      then overwrite (sty s) xc (zrepeat (blank (sty s)) (x2c - xc)) (row_at s y')
      else row_at s y'.
  Proof.
    pose proof erase_region_clamps as C. unfold erase_region. fold xc yc x2c y2c.
    destruct (Z.ltb_spec xc x2c) as [Hlt|Hge].
    - rewrite andb_true_r. unfold zseq.
      destruct (erase_rows_seq crClear xc x2c (Z.to_nat (y2c - yc)) yc s Hs ltac:(lia) ltac:(lia) ltac:(lia) ltac:(lia)) as (_ & R).
      rewrite R. replace (yc + Z.of_nat (Z.to_nat (y2c - yc))) with y2c by lia. reflexivity.
    - rewrite andb_false_r. rewrite erase_rows_empty by lia. reflexivity.
  Qed.

  Lemma erase_region_cell x' y' :
    cell_at (erase_region x y x2 y2 s) x' y' =
      if zin yc y2c y' && (xc <? x2c) && in_touched (row_at s y') xc (x2c - xc) x'
      then blank (sty s) else cell_at s x' y'.
  Proof.
    pose proof erase_region_clamps as C. unfold cell_at. rewrite erase_region_row.
    destruct (zin yc y2c y') eqn:Ey; cbn [andb]; [|reflexivity].
    destruct (Z.ltb_spec xc x2c) as [Hlt|Hge]; cbn [andb]; [|reflexivity].
    unfold zin in Ey. apply andb_true_iff in Ey. destruct Ey as [E1 E2].
    apply Z.leb_le in E1. apply Z.ltb_lt in E2.
    pose proof (row_at_len s y' Hs ltac:(lia)) as Hl.
    rewrite overwrite_blank_znth by lia. reflexivity.
  Qed.
End EraseRegion.

(* arguments already inside the screen: no clamping *)
Lemma erase_region_cell_in x y x2 y2 s : Inv s ->
  0 <= x <= x2 -> x2 <= sW s -> 0 <= y <= y2 -> y2 <= sH s -> forall x' y',
  cell_at (erase_region x y x2 y2 s) x' y' =
    if zin y y2 y' && (x <? x2) && in_touched (row_at s y') x (x2 - x) x'
    then blank (sty s) else cell_at s x' y'.
Proof.
  intros Hs Hx Hx2 Hy Hy2 x' y'. rewrite erase_region_cell by exact Hs.
  rewrite (clamp_id x) by lia. rewrite (clamp_id y) by lia.
  rewrite (clamp_id x2) by lia. rewrite (clamp_id y2) by lia. reflexivity.
Qed.

Lemma erase_region_row_in x y x2 y2 s : Inv s ->
  0 <= x <= x2 -> x2 <= sW s -> 0 <= y <= y2 -> y2 <= sH s -> forall y',
  row_at (erase_region x y x2 y2 s) y' =
    if zin y y2 y' && (x <? x2) then overwrite (sty s) x (zrepeat (blank (sty s)) (x2 - x)) (row_at s y')
    else row_at s y'.
Proof.
  intros Hs Hx Hx2 Hy Hy2 y'. rewrite erase_region_row by exact Hs.
  rewrite (clamp_id x) by lia. rewrite (clamp_id y) by lia.
  rewrite (clamp_id x2) by lia. rewrite (clamp_id y2) by lia. reflexivity.
Qed.

Lemma in_touched_full row w i : 0 <= w -> zlen row = w -> in_touched row 0 w i = zin 0 w i.
Proof.
  intros Hw Hl. unfold in_touched, touched. cbn [fst snd]. rewrite left_edge_0.
  rewrite cont_run_end by lia. f_equal. lia.
Qed.

(* erasing whole rows [y, y2) *)
Lemma erase_rows_full_cell y y2 s : Inv s -> 0 <= y <= y2 -> y2 <= sH s -> forall x' y',
  0 <= x' < sW s ->
  cell_at (erase_region 0 y (sW s) y2 s) x' y' = if zin y y2 y' then blank (sty s) else cell_at s x' y'.
Proof.
  intros Hs Hy Hy2 x' y' Hx'. pose proof (inv_w s Hs).
  rewrite erase_region_cell_in by (exact Hs || lia).
  destruct (zin y y2 y') eqn:Ey; cbn [andb]; [|reflexivity].
  unfold zin in Ey. apply andb_true_iff in Ey. destruct Ey as [E1 E2].
  apply Z.leb_le in E1. apply Z.ltb_lt in E2.
  rewrite Z.sub_0_r. rewrite in_touched_full by (lia || (apply row_at_len; [exact Hs|lia])).
  unfold zin. zbool. reflexivity.
Qed.

Lemma in_rectb_spec x y x1 y1 x2 y2 : in_rectb x y x1 y1 x2 y2 = true <-> in_rect x y x1 y1 x2 y2.
Proof.
  unfold in_rectb, in_rect, zin. rewrite !andb_true_iff, !Z.leb_le, !Z.ltb_lt. tauto.
Qed.

(* a rectangle that cuts no wide glyph: exactly the cells of the rectangle are blanked *)
Lemma erase_region_rect x y x2 y2 s : Inv s ->
  0 <= x <= x2 -> x2 <= sW s -> 0 <= y <= y2 -> y2 <= sH s ->
  (forall y', y <= y' < y2 -> no_wide_cut (row_at s y') x (x2 - x)) ->
  forall x' y',
  cell_at (erase_region x y x2 y2 s) x' y' =
    if in_rectb x' y' x y x2 y2 then blank (sty s) else cell_at s x' y'.
Proof.
  intros Hs Hx Hx2 Hy Hy2 Hnc x' y'. rewrite erase_region_cell_in by assumption.
  unfold in_rectb. destruct (zin y y2 y') eqn:Ey; cbn [andb]; [|rewrite andb_false_r; reflexivity].
  unfold zin in Ey. apply andb_true_iff in Ey. destruct Ey as [E1 E2].
  apply Z.leb_le in E1. apply Z.ltb_lt in E2.
  rewrite in_touched_exact by (lia || (apply Hnc; lia)).
  replace (x + (x2 - x)) with x2 by lia. rewrite andb_true_r.
  unfold zin. destruct (Z.ltb_spec x x2); cbn [andb]; [reflexivity|].
  destruct (Z.lt_ge_cases x' x); zbool; reflexivity.
Qed.

(* ---------- the screen functions behind EL / ED / ECH ---------- *)
Section Commands.
  Variable s : screen.
  Hypothesis Hs : Inv s.
  Let row := row_at s (cy s).

  Lemma row_len : zlen row = sW s.
  Proof. apply row_at_len; [exact Hs|apply Hs]. Qed.

  (* EL 0 *)
  Lemma el0_cell x' y' : 0 <= x' < sW s -> 0 <= y' < sH s ->
    cell_at (erase_region (cx s) (cy s) (sW s) (cy s + 1) s) x' y' =
      if (y' =? cy s) && (left_edge row (cx s) <=? x') then blank (sty s) else cell_at s x' y'.
  Proof.
    intros Hx' Hy'. pose proof (inv_cx s Hs). pose proof (inv_cy s Hs). pose proof row_len as Hl.
    rewrite erase_region_cell_in by (exact Hs || lia).
    unfold zin. destruct (Z.eqb_spec y' (cy s)) as [->|Hne].
    - zbool. fold row. unfold in_touched, touched, zin. cbn [fst snd].
      replace (cx s + (sW s - cx s)) with (sW s) by lia.
      rewrite cont_run_end by lia. replace (x' <? sW s + 0) with true by (symmetry; apply Z.ltb_lt; lia).
      rewrite andb_true_r. reflexivity.
    - destruct (Z.lt_ge_cases y' (cy s)); zbool; reflexivity.
  Qed.

  (* EL 1 *)
  Lemma el1_cell x' y' : 0 <= x' < sW s -> 0 <= y' < sH s ->
    cell_at (erase_region 0 (cy s) (cx s + 1) (cy s + 1) s) x' y' =
      if (y' =? cy s) && (x' <? cx s + 1 + cont_run row (cx s + 1)) then blank (sty s) else cell_at s x' y'.
  Proof.
    intros Hx' Hy'. pose proof (inv_cx s Hs). pose proof (inv_cy s Hs).
    rewrite erase_region_cell_in by (exact Hs || lia).
    unfold zin. destruct (Z.eqb_spec y' (cy s)) as [->|Hne].
    - zbool. fold row. unfold in_touched, touched, zin. cbn [fst snd]. rewrite left_edge_0.
      replace (0 + (cx s + 1 - 0)) with (cx s + 1) by lia. zbool. reflexivity.
    - destruct (Z.lt_ge_cases y' (cy s)); zbool; reflexivity.
  Qed.

  (* EL 2 *)
  Lemma el2_cell x' y' : 0 <= x' < sW s -> 0 <= y' < sH s ->
    cell_at (erase_region 0 (cy s) (sW s) (cy s + 1) s) x' y' =
      if y' =? cy s then blank (sty s) else cell_at s x' y'.
  Proof.
    intros Hx' Hy'. pose proof (inv_cy s Hs).
    rewrite erase_rows_full_cell by (exact Hs || lia). unfold zin.
    destruct (Z.eqb_spec y' (cy s)) as [->|Hne]; [zbool; reflexivity|].
    destruct (Z.lt_ge_cases y' (cy s)); zbool; reflexivity.
  Qed.

  (* ED 0 *)
  Definition ed0_fun (s : screen) : screen :=
    let s1 := erase_region (cx s) (cy s) (sW s) (cy s + 1) s in
    if cy s + 1 <? sH s then erase_region 0 (cy s + 1) (sW s) (sH s) s1 else s1.

  Lemma ed0_frame : scr_frame s (ed0_fun s).
  Proof.
    unfold ed0_fun. cbv zeta.
    pose proof (erase_region_frame (cx s) (cy s) (sW s) (cy s + 1) s Hs) as F1.
    destruct (cy s + 1 <? sH s); [|exact F1].
    eapply scr_frame_trans; [exact F1|]. rewrite <- (sf_w _ _ F1), <- (sf_h _ _ F1).
    apply erase_region_frame. apply Pres_erase_region, Hs.
  Qed.

  Lemma ed0_cell x' y' : 0 <= x' < sW s -> 0 <= y' < sH s ->
    cell_at (ed0_fun s) x' y' =
      if ((y' =? cy s) && (left_edge row (cx s) <=? x')) || (cy s <? y') then blank (sty s) else cell_at s x' y'.
  Proof.
    intros Hx' Hy'. pose proof (inv_cy s Hs). unfold ed0_fun. cbv zeta.
    pose proof (erase_region_frame (cx s) (cy s) (sW s) (cy s + 1) s Hs) as F1.
    destruct (Pres_erase_region (cx s) (cy s) (sW s) (cy s + 1) s Hs) as (I1 & W1 & H1).
    pose proof (el0_cell x' y' Hx' Hy') as C1.
    set (s1 := erase_region (cx s) (cy s) (sW s) (cy s + 1) s) in *.
    destruct (Z.ltb_spec (cy s + 1) (sH s)) as [Hlt|Hge].
    - rewrite <- W1, <- H1. rewrite erase_rows_full_cell by (exact I1 || lia).
      rewrite (sf_sty _ _ F1). rewrite C1. unfold zin.
      destruct (Z.eqb_spec y' (cy s)) as [->|Hne]; [zbool; rewrite orb_false_r; reflexivity|].
      destruct (Z.lt_ge_cases y' (cy s)); zbool; reflexivity.
    - rewrite C1. destruct (Z.eqb_spec y' (cy s)) as [->|Hne]; [zbool; rewrite orb_false_r; reflexivity|].
      zbool. reflexivity.
  Qed.

  (* ED 1 *)
  Definition ed1_fun (s : screen) : screen :=
    let s1 := if 0 <? cy s then erase_region 0 0 (sW s) (cy s) s else s in
    erase_region 0 (cy s) (cx s + 1) (cy s + 1) s1.

  Lemma ed1_pre :
    let s1 := if 0 <? cy s then erase_region 0 0 (sW s) (cy s) s else s in
    Inv s1 /\ scr_frame s s1 /\ row_at s1 (cy s) = row /\
    forall x' y', 0 <= x' < sW s -> 0 <= y' < sH s ->
      cell_at s1 x' y' = if y' <? cy s then blank (sty s) else cell_at s x' y'.
  Proof.
    cbv zeta. pose proof (inv_cy s Hs). destruct (Z.ltb_spec 0 (cy s)) as [Hlt|Hge].
    - split; [apply Pres_erase_region, Hs|]. split; [apply erase_region_frame, Hs|]. split.
      + pose proof (inv_w s Hs). rewrite erase_region_row_in by (exact Hs || lia).
        unfold zin. zbool. reflexivity.
      + intros x' y' Hx' Hy'. rewrite erase_rows_full_cell by (exact Hs || lia). unfold zin.
        destruct (Z.lt_ge_cases y' (cy s)); zbool; reflexivity.
    - split; [exact Hs|]. split; [apply scr_frame_refl|]. split; [reflexivity|].
      intros x' y' Hx' Hy'. zbool. reflexivity.
  Qed.

  Lemma ed1_frame : scr_frame s (ed1_fun s).
  Proof.
    unfold ed1_fun. cbv zeta. destruct ed1_pre as (I1 & F1 & _ & _).
    eapply scr_frame_trans; [exact F1|]. apply erase_region_frame, I1.
  Qed.

  Lemma ed1_cell x' y' : 0 <= x' < sW s -> 0 <= y' < sH s ->
    cell_at (ed1_fun s) x' y' =
      if (y' <? cy s) || ((y' =? cy s) && (x' <? cx s + 1 + cont_run row (cx s + 1)))
      then blank (sty s) else cell_at s x' y'.
  Proof.
    intros Hx' Hy'. pose proof (inv_cx s Hs). pose proof (inv_cy s Hs). unfold ed1_fun. cbv zeta.
    destruct ed1_pre as (I1 & F1 & R1 & C1).
    set (s1 := if 0 <? cy s then _ else s) in *.
    rewrite erase_region_cell_in by (exact I1 || rewrite ?(sf_w _ _ F1), ?(sf_h _ _ F1); lia).
    rewrite (sf_sty _ _ F1). rewrite C1 by assumption. unfold zin.
    destruct (Z.eqb_spec y' (cy s)) as [->|Hne].
    - zbool. rewrite R1. unfold in_touched, touched, zin. cbn [fst snd]. rewrite left_edge_0.
      replace (0 + (cx s + 1 - 0)) with (cx s + 1) by lia. zbool. reflexivity.
    - destruct (Z.lt_ge_cases y' (cy s)); zbool; reflexivity.
  Qed.

  (* ED 2 *)
  Definition ed2_fun (s : screen) : screen := set_cursor_pos 0 0 (erase_region 0 0 (sW s) (sH s) s).

  Lemma ed2_frame : scr_frame_nocur s (ed2_fun s) /\ cx (ed2_fun s) = 0 /\ cy (ed2_fun s) = 0.
  Proof.
    unfold ed2_fun, set_cursor_pos. pose proof (erase_region_frame 0 0 (sW s) (sH s) s Hs) as F1.
    pose proof (inv_w s Hs). pose proof (inv_h s Hs).
    split; [destruct F1; constructor; ss; assumption|]. ss.
    rewrite (sf_w _ _ F1), (sf_h _ _ F1). rewrite !clamp_id by lia. auto.
  Qed.

  Lemma ed2_cell x' y' : 0 <= x' < sW s -> 0 <= y' < sH s -> cell_at (ed2_fun s) x' y' = blank (sty s).
  Proof.
    intros Hx' Hy'. pose proof (inv_h s Hs). unfold ed2_fun.
    change (cell_at (set_cursor_pos 0 0 ?z) x' y') with (cell_at z x' y').
    rewrite erase_rows_full_cell by (exact Hs || lia). unfold zin. zbool. reflexivity.
  Qed.

  (* ECH n *)
  Lemma ech_cell n x' y' : 1 <= n -> 0 <= x' < sW s -> 0 <= y' < sH s ->
    let m := Z.min n (sW s - cx s) in
    cell_at (erase_region (cx s) (cy s) (cx s + n) (cy s + 1) s) x' y' =
      if (y' =? cy s) && in_touched row (cx s) m x' then blank (sty s) else cell_at s x' y'.
  Proof.
    intros Hn Hx' Hy' m. pose proof (inv_cx s Hs). pose proof (inv_cy s Hs). pose proof (inv_h s Hs).
    rewrite erase_region_cell by exact Hs.
    rewrite (clamp_id (cx s)) by lia. rewrite (clamp_id (cy s)) by lia. rewrite (clamp_id (cy s + 1)) by lia.
    assert (E : clamp (cx s + n) (cx s) (sW s) = cx s + m) by (rewrite clamp_spec by lia; lia).
    rewrite E. replace (cx s + m - cx s) with m by lia. unfold zin.
    destruct (Z.eqb_spec y' (cy s)) as [->|Hne]; [zbool; reflexivity|].
    destruct (Z.lt_ge_cases y' (cy s)); zbool; reflexivity.
  Qed.

  Lemma ech_zero n : n <= 0 -> erase_region (cx s) (cy s) (cx s + n) (cy s + 1) s = s.
  Proof.
    intros Hn. pose proof (inv_cx s Hs). unfold erase_region.
    rewrite (clamp_id (cx s)) by lia.
    assert (E : clamp (cx s + n) (cx s) (sW s) = cx s) by (rewrite clamp_spec by lia; lia).
    rewrite E. apply erase_rows_empty. lia.
  Qed.

  (* DCH n *)
  Lemma dch_frame n : scr_frame s (delete_chars (cx s) (cy s) n s).
  Proof.
    unfold delete_chars.
    repeat match goal with |- context [if ?c then _ else _] => destruct c end;
      first [apply scr_frame_refl | constructor; reflexivity].
  Qed.

  Lemma dch_zero n : n <= 0 -> delete_chars (cx s) (cy s) n s = s.
  Proof.
    intros Hn. unfold delete_chars. destruct (Z.leb_spec n 0); [|lia]. rewrite !orb_true_r. reflexivity.
  Qed.

  Lemma dch_row n y' : 1 <= n ->
    row_at (delete_chars (cx s) (cy s) n s) y' =
      if y' =? cy s then delete_cells (sty s) (cx s) (Z.min n (sW s - cx s)) row else row_at s y'.
  Proof.
    intros Hn. pose proof (inv_cx s Hs). pose proof (inv_cy s Hs). pose proof (inv_rows s Hs) as HR.
    unfold delete_chars.
    destruct (Z.ltb_spec (cy s) 0); [lia|]. destruct (Z.leb_spec (sH s) (cy s)); [lia|].
    destruct (Z.leb_spec n 0); [lia|]. cbn [orb].
    destruct (Z.ltb_spec (cx s) 0); [lia|].
    destruct (Z.leb_spec (sW s) (cx s)); [lia|]. destruct (Z.leb_spec n 0); [lia|]. cbn [orb].
    assert (E : (if sW s <? cx s + n then sW s - cx s else n) = Z.min n (sW s - cx s))
      by (destruct (Z.ltb_spec (sW s) (cx s + n)); lia).
    rewrite E. fold row.
    destruct (is_cont _); ss; unfold row_at; cbn [rows];
      (destruct (Z.eqb_spec y' (cy s)) as [->|Hne]; [apply znth_zupd_same; lia|apply znth_zupd_other; lia]).
  Qed.

  Lemma dch_cell n x' y' : 1 <= n -> 0 <= x' < sW s -> 0 <= y' < sH s ->
    let m := Z.min n (sW s - cx s) in
    cell_at (delete_chars (cx s) (cy s) n s) x' y' =
      if y' =? cy s then
        if x' <? left_edge row (cx s) then cell_at s x' y'
        else if x' <? cx s then unglyph (cell_at s x' y')
        else if x' <? cx s + cont_run row (cx s + m) then unglyph (cell_at s (x' + m) y')
        else if x' <? sW s - m then cell_at s (x' + m) y'
        else blank (sty s)
      else cell_at s x' y'.
  Proof.
    intros Hn Hx' Hy' m. pose proof (inv_cx s Hs). pose proof row_len as Hl.
    unfold cell_at. rewrite dch_row by exact Hn. fold m.
    destruct (Z.eqb_spec y' (cy s)) as [->|Hne]; [|reflexivity].
    fold row. rewrite delete_cells_znth by lia. rewrite Hl. reflexivity.
  Qed.
End Commands.

(* ---------- lifting to exec_csi_plain ---------- *)
(* the commands as the token interpreter runs them *)
Lemma exec_tok_plain ps f b t :
  exec_tok (TCsi 0 ps f) t = exec_csi_plain ps f t
  /\ exec_tok (TC0 b) t = exec_c0 b t /\ exec_tok (TEsc b) t = exec_esc b t.
Proof. repeat split; reflexivity. Qed.


Lemma csi_K ps t :
  exec_csi_plain ps 75 t =
    if p0 ps 0 =? 0 then on_screen (fun s => erase_region (cx s) (cy s) (sW s) (cy s + 1) s) t
    else if p0 ps 0 =? 1 then on_screen (fun s => erase_region 0 (cy s) (cx s + 1) (cy s + 1) s) t
    else if p0 ps 0 =? 2 then on_screen (fun s => erase_region 0 (cy s) (sW s) (cy s + 1) s) t
    else t.
Proof. reflexivity. Qed.

Lemma csi_J ps t :
  exec_csi_plain ps 74 t =
    if p0 ps 0 =? 0 then on_screen ed0_fun t
    else if p0 ps 0 =? 1 then on_screen ed1_fun t
    else if p0 ps 0 =? 2 then on_screen ed2_fun t
    else t.
Proof. reflexivity. Qed.

Lemma csi_X ps t :
  exec_csi_plain ps 88 t = on_screen (fun s => erase_region (cx s) (cy s) (cx s + p0 ps 1) (cy s + 1) s) t.
Proof. reflexivity. Qed.

Lemma csi_P ps t :
  exec_csi_plain ps 80 t = on_screen (fun s => delete_chars (cx s) (cy s) (p0 ps 1) s) t.
Proof. reflexivity. Qed.

Theorem el0_cmd t ps : TInv t -> p0 ps 0 = 0 ->
  let s := active t in
  cmd_cells t (exec_csi_plain ps 75 t) (fun x' y' =>
    if (y' =? cy s) && (left_edge (row_at s (cy s)) (cx s) <=? x') then blank (sty s) else cell_at s x' y').
Proof.
  intros Ht Hp s. rewrite csi_K, Hp. cbn [Z.eqb]. pose proof (Inv_active0 t Ht) as I0.
  split; [|split; [|apply on_screen_term_frame]].
  - intros x' y' Hx' Hy'. rewrite on_screen_active_eq. exact (el0_cell _ I0 x' y' Hx' Hy').
  - rewrite on_screen_active_eq. apply (scr_frame_evs [] []). apply (erase_region_frame _ _ _ _ _ I0).
Qed.

Theorem el1_cmd t ps : TInv t -> p0 ps 0 = 1 ->
  let s := active t in
  cmd_cells t (exec_csi_plain ps 75 t) (fun x' y' =>
    if (y' =? cy s) && (x' <? cx s + 1 + cont_run (row_at s (cy s)) (cx s + 1)) then blank (sty s) else cell_at s x' y').
Proof.
  intros Ht Hp s. rewrite csi_K, Hp. cbn [Z.eqb Pos.eqb]. pose proof (Inv_active0 t Ht) as I0.
  split; [|split; [|apply on_screen_term_frame]].
  - intros x' y' Hx' Hy'. rewrite on_screen_active_eq. exact (el1_cell _ I0 x' y' Hx' Hy').
  - rewrite on_screen_active_eq. apply (scr_frame_evs [] []). apply (erase_region_frame _ _ _ _ _ I0).
Qed.

Theorem el2_cmd t ps : TInv t -> p0 ps 0 = 2 ->
  let s := active t in
  cmd_cells t (exec_csi_plain ps 75 t) (fun x' y' => if y' =? cy s then blank (sty s) else cell_at s x' y').
Proof.
  intros Ht Hp s. rewrite csi_K, Hp. cbn [Z.eqb Pos.eqb]. pose proof (Inv_active0 t Ht) as I0.
  split; [|split; [|apply on_screen_term_frame]].
  - intros x' y' Hx' Hy'. rewrite on_screen_active_eq. exact (el2_cell _ I0 x' y' Hx' Hy').
  - rewrite on_screen_active_eq. apply (scr_frame_evs [] []). apply (erase_region_frame _ _ _ _ _ I0).
Qed.

Theorem el_other_cmd t ps : p0 ps 0 <> 0 -> p0 ps 0 <> 1 -> p0 ps 0 <> 2 -> exec_csi_plain ps 75 t = t.
Proof.
  intros H0 H1 H2. rewrite csi_K.
  destruct (Z.eqb_spec (p0 ps 0) 0); [lia|]. destruct (Z.eqb_spec (p0 ps 0) 1); [lia|].
  destruct (Z.eqb_spec (p0 ps 0) 2); [lia|]. reflexivity.
Qed.

Theorem ed0_cmd t ps : TInv t -> p0 ps 0 = 0 ->
  let s := active t in
  cmd_cells t (exec_csi_plain ps 74 t) (fun x' y' =>
    if ((y' =? cy s) && (left_edge (row_at s (cy s)) (cx s) <=? x')) || (cy s <? y')
    then blank (sty s) else cell_at s x' y').
Proof.
  intros Ht Hp s. rewrite csi_J, Hp. cbn [Z.eqb]. pose proof (Inv_active0 t Ht) as I0.
  split; [|split; [|apply on_screen_term_frame]].
  - intros x' y' Hx' Hy'. rewrite on_screen_active_eq. exact (ed0_cell _ I0 x' y' Hx' Hy').
  - rewrite on_screen_active_eq. apply (scr_frame_evs [] []). apply (ed0_frame _ I0).
Qed.

Theorem ed1_cmd t ps : TInv t -> p0 ps 0 = 1 ->
  let s := active t in
  cmd_cells t (exec_csi_plain ps 74 t) (fun x' y' =>
    if (y' <? cy s) || ((y' =? cy s) && (x' <? cx s + 1 + cont_run (row_at s (cy s)) (cx s + 1)))
    then blank (sty s) else cell_at s x' y').
Proof.
  intros Ht Hp s. rewrite csi_J, Hp. cbn [Z.eqb Pos.eqb]. pose proof (Inv_active0 t Ht) as I0.
  split; [|split; [|apply on_screen_term_frame]].
  - intros x' y' Hx' Hy'. rewrite on_screen_active_eq. exact (ed1_cell _ I0 x' y' Hx' Hy').
  - rewrite on_screen_active_eq. apply (scr_frame_evs [] []). apply (ed1_frame _ I0).
Qed.

(* ED 2 blanks everything and homes the cursor *)
Theorem ed2_cmd t ps : TInv t -> p0 ps 0 = 2 ->
  let s := active t in let t' := exec_csi_plain ps 74 t in
  (forall x' y', 0 <= x' < sW s -> 0 <= y' < sH s -> cell_at (active t') x' y' = blank (sty s))
  /\ cx (active t') = 0 /\ cy (active t') = 0
  /\ scr_frame_nocur s (active t') /\ term_frame t t'.
Proof.
  intros Ht Hp s t'. subst t'. rewrite csi_J, Hp. cbn [Z.eqb Pos.eqb]. pose proof (Inv_active0 t Ht) as I0.
  rewrite on_screen_active_eq. destruct (ed2_frame _ I0) as (F & X & Y).
  split; [|split; [|split; [|split]]].
  - intros x' y' Hx' Hy'. exact (ed2_cell _ I0 x' y' Hx' Hy').
  - exact X.
  - exact Y.
  - apply (scr_frame_nocur_evs [] []). exact F.
  - apply on_screen_term_frame.
Qed.

Theorem ed_other_cmd t ps : p0 ps 0 <> 0 -> p0 ps 0 <> 1 -> p0 ps 0 <> 2 -> exec_csi_plain ps 74 t = t.
Proof.
  intros H0 H1 H2. rewrite csi_J.
  destruct (Z.eqb_spec (p0 ps 0) 0); [lia|]. destruct (Z.eqb_spec (p0 ps 0) 1); [lia|].
  destruct (Z.eqb_spec (p0 ps 0) 2); [lia|]. reflexivity.
Qed.

Theorem ech_cmd t ps : TInv t -> 1 <= p0 ps 1 ->
  let s := active t in let m := Z.min (p0 ps 1) (sW s - cx s) in
  cmd_cells t (exec_csi_plain ps 88 t) (fun x' y' =>
    if (y' =? cy s) && in_touched (row_at s (cy s)) (cx s) m x' then blank (sty s) else cell_at s x' y').
Proof.
  intros Ht Hp s m. rewrite csi_X. pose proof (Inv_active0 t Ht) as I0.
  split; [|split; [|apply on_screen_term_frame]].
  - intros x' y' Hx' Hy'. rewrite on_screen_active_eq. exact (ech_cell _ I0 (p0 ps 1) x' y' Hp Hx' Hy').
  - rewrite on_screen_active_eq. apply (scr_frame_evs [] []). apply (erase_region_frame _ _ _ _ _ I0).
Qed.

Theorem ech_zero_cmd t ps : TInv t -> p0 ps 1 <= 0 -> cmd_noop t (exec_csi_plain ps 88 t).
Proof.
  intros Ht Hp. rewrite csi_X. pose proof (Inv_active0 t Ht) as I0.
  split; [|split; [|apply on_screen_term_frame]]; rewrite on_screen_active_eq; cbv beta;
    rewrite (ech_zero _ I0 _ Hp).
  - intros y _. reflexivity.
  - constructor; reflexivity.
Qed.

Theorem dch_cmd t ps : TInv t -> 1 <= p0 ps 1 ->
  let s := active t in let m := Z.min (p0 ps 1) (sW s - cx s) in let row := row_at s (cy s) in
  cmd_cells t (exec_csi_plain ps 80 t) (fun x' y' =>
    if y' =? cy s then
      if x' <? left_edge row (cx s) then cell_at s x' y'
      else if x' <? cx s then unglyph (cell_at s x' y')
      else if x' <? cx s + cont_run row (cx s + m) then unglyph (cell_at s (x' + m) y')
      else if x' <? sW s - m then cell_at s (x' + m) y'
      else blank (sty s)
    else cell_at s x' y').
Proof.
  intros Ht Hp s m row. rewrite csi_P. pose proof (Inv_active0 t Ht) as I0.
  split; [|split; [|apply on_screen_term_frame]].
  - intros x' y' Hx' Hy'. rewrite on_screen_active_eq. exact (dch_cell _ I0 (p0 ps 1) x' y' Hp Hx' Hy').
  - rewrite on_screen_active_eq. apply (scr_frame_evs [] []). apply (dch_frame _ (p0 ps 1)).
Qed.

Theorem dch_zero_cmd t ps : TInv t -> p0 ps 1 <= 0 -> cmd_noop t (exec_csi_plain ps 80 t).
Proof.
  intros Ht Hp. rewrite csi_P.
  split; [|split; [|apply on_screen_term_frame]]; rewrite on_screen_active_eq; cbv beta;
    rewrite (dch_zero _ _ Hp).
  - intros y _. reflexivity.
  - constructor; reflexivity.
Qed.

(* ---------- exact forms: no wide glyph cut by the erased range ---------- *)
Lemma cmd_cells_ext t t' f g :
  (forall x' y', 0 <= x' < sW (active t) -> 0 <= y' < sH (active t) -> f x' y' = g x' y') ->
  cmd_cells t t' f -> cmd_cells t t' g.
Proof.
  intros E (C & F). split; [|exact F]. intros x' y' Hx' Hy'. rewrite C by assumption. apply E; assumption.
Qed.

Theorem el0_cmd_exact t ps : TInv t -> p0 ps 0 = 0 ->
  let s := active t in
  is_cont (cell_at s (cx s) (cy s)) = false ->
  cmd_cells t (exec_csi_plain ps 75 t) (fun x' y' =>
    if (y' =? cy s) && (cx s <=? x') then blank (sty s) else cell_at s x' y').
Proof.
  intros Ht Hp s Hc. eapply cmd_cells_ext; [|apply el0_cmd; assumption]. cbv beta. intros x' y' _ _.
  fold s. rewrite left_edge_noncont by exact Hc. reflexivity.
Qed.

Theorem el1_cmd_exact t ps : TInv t -> p0 ps 0 = 1 ->
  let s := active t in
  is_cont (cell_at s (cx s + 1) (cy s)) = false ->
  cmd_cells t (exec_csi_plain ps 75 t) (fun x' y' =>
    if (y' =? cy s) && (x' <=? cx s) then blank (sty s) else cell_at s x' y').
Proof.
  intros Ht Hp s Hc. eapply cmd_cells_ext; [|apply el1_cmd; assumption]. cbv beta. intros x' y' _ _.
  fold s. pose proof (inv_cx _ (Inv_active t Ht)). fold s in H.
  rewrite cont_run_0 by (lia || exact Hc).
  destruct (Z.le_gt_cases x' (cx s)); zbool; reflexivity.
Qed.

Theorem ed0_cmd_exact t ps : TInv t -> p0 ps 0 = 0 ->
  let s := active t in
  is_cont (cell_at s (cx s) (cy s)) = false ->
  cmd_cells t (exec_csi_plain ps 74 t) (fun x' y' =>
    if ((y' =? cy s) && (cx s <=? x')) || (cy s <? y') then blank (sty s) else cell_at s x' y').
Proof.
  intros Ht Hp s Hc. eapply cmd_cells_ext; [|apply ed0_cmd; assumption]. cbv beta. intros x' y' _ _.
  fold s. rewrite left_edge_noncont by exact Hc. reflexivity.
Qed.

Theorem ed1_cmd_exact t ps : TInv t -> p0 ps 0 = 1 ->
  let s := active t in
  is_cont (cell_at s (cx s + 1) (cy s)) = false ->
  cmd_cells t (exec_csi_plain ps 74 t) (fun x' y' =>
    if (y' <? cy s) || ((y' =? cy s) && (x' <=? cx s)) then blank (sty s) else cell_at s x' y').
Proof.
  intros Ht Hp s Hc. eapply cmd_cells_ext; [|apply ed1_cmd; assumption]. cbv beta. intros x' y' _ _.
  fold s. pose proof (inv_cx _ (Inv_active t Ht)). fold s in H.
  rewrite cont_run_0 by (lia || exact Hc).
  destruct (Z.le_gt_cases x' (cx s)); zbool; reflexivity.
Qed.

Theorem ech_cmd_exact t ps : TInv t -> 1 <= p0 ps 1 ->
  let s := active t in let m := Z.min (p0 ps 1) (sW s - cx s) in
  no_wide_cut (row_at s (cy s)) (cx s) m ->
  cmd_cells t (exec_csi_plain ps 88 t) (fun x' y' =>
    if (y' =? cy s) && ((cx s <=? x') && (x' <? cx s + m)) then blank (sty s) else cell_at s x' y').
Proof.
  intros Ht Hp s m Hc. eapply cmd_cells_ext; [|apply ech_cmd; assumption]. cbv beta. intros x' y' _ _.
  fold s. fold m. pose proof (inv_cx _ (Inv_active t Ht)). fold s in H.
  rewrite in_touched_exact by (lia || exact Hc). reflexivity.
Qed.

(* DCH with no glyph cut: plain shift *)
Theorem dch_cmd_exact t ps : TInv t -> 1 <= p0 ps 1 ->
  let s := active t in let m := Z.min (p0 ps 1) (sW s - cx s) in
  no_wide_cut (row_at s (cy s)) (cx s) m ->
  cmd_cells t (exec_csi_plain ps 80 t) (fun x' y' =>
    if (y' =? cy s) && (cx s <=? x') then
      if x' <? sW s - m then cell_at s (x' + m) y' else blank (sty s)
    else cell_at s x' y').
Proof.
  intros Ht Hp s m (Hc1 & Hc2). eapply cmd_cells_ext; [|apply dch_cmd; assumption]. cbv beta. intros x' y' _ _.
  fold s. fold m. pose proof (inv_cx _ (Inv_active t Ht)). fold s in H.
  rewrite left_edge_noncont by exact Hc1. rewrite cont_run_0 by (lia || exact Hc2).
  destruct (Z.eqb_spec y' (cy s)); cbn [andb]; [|reflexivity].
  destruct (Z.lt_ge_cases x' (cx s)); zbool; reflexivity.
Qed.

(* ---------- examples on the 5x7 screen ---------- *)
Lemma Inv_ex_scr_at x y : 0 <= x < 5 -> 0 <= y < 7 -> Inv (ex_scr_at x y).
Proof.
  intros Hx Hy. constructor; cbn; try lia; try reflexivity.
  repeat constructor.
Qed.
Lemma Inv_ex_scr : Inv ex_scr.
Proof. apply (Inv_ex_scr_at 4 1); lia. Qed.
Lemma TInv_term_of s : Inv s -> TInv (term_of s).
Proof.
  intros Hs. constructor; cbn [term_of tmain talt]; [exact Hs| |reflexivity|reflexivity].
  apply Inv_init; apply Hs.
Qed.
Lemma TInv_ex_term : TInv ex_term.
Proof. apply TInv_term_of, Inv_ex_scr. Qed.


(* cursor on the continuation cell (4,1) of a wide glyph: EL 0 blanks the whole glyph *)
Example el0_example :
  rows_after [] 75 ex_scr = upd_rows [(1, wide 22269 stA ++ [ch 100 stB; blank stB; blank stB])].
Proof. vm_compute. reflexivity. Qed.

(* the same on the alternate buffer: the main buffer and the rest of the terminal stay *)
Example alt_buffer_example :
  let t := term_of_alt ex_scr in let t' := exec_csi_plain [] 75 t in
  rows (talt t') = upd_rows [(1, wide 22269 stA ++ [ch 100 stB; blank stB; blank stB])]
  /\ tmain t' = tmain t /\ onalt t' = true /\ tout t' = [7] /\ vflags t' = vflags t.
Proof. vm_compute. repeat split. Qed.

(* cursor on the head (3,1): EL 1 blanks [0,3] and the orphaned continuation cell 4 *)
Example el1_example :
  rows_after [1] 75 (ex_scr_at 3 1) = upd_rows [(1, blank_row 5 stB)]
  /\ rows_after [1] 75 (ex_scr_at 2 1) = upd_rows [(1, [blank stB; blank stB; blank stB] ++ wide 26085 stC)].
Proof. vm_compute. auto. Qed.

(* a rectangle over narrow cells only: columns 1..3 of rows 2..4 *)
Example rect_example :
  rows (erase_region 1 2 4 5 ex_scr) =
    upd_rows [(2, [ch 101 stC; blank stB; blank stB; blank stB; ch 105 stB]);
              (3, blank_row 5 stB);
              (4, [ch 106 stA; blank stB; blank stB; blank stB; ch 110 stA])].
Proof. vm_compute. reflexivity. Qed.

Example el2_example : rows_after [2] 75 (ex_scr_at 2 5) = upd_rows [(5, blank_row 5 stB)].
Proof. vm_compute. reflexivity. Qed.

Example el_other_example : exec_csi_plain [3] 75 ex_term = ex_term.
Proof. vm_compute. reflexivity. Qed.

Example ed0_example :
  rows_after [0] 74 (ex_scr_at 3 4) =
    upd_rows [(4, [ch 106 stA; ch 107 stA; ch 108 stA; blank stB; blank stB]);
              (5, blank_row 5 stB); (6, blank_row 5 stB)].
Proof. vm_compute. reflexivity. Qed.

Example ed1_example :
  rows_after [1] 74 (ex_scr_at 2 5) =
    upd_rows [(0, blank_row 5 stB); (1, blank_row 5 stB); (2, blank_row 5 stB); (3, blank_row 5 stB);
              (4, blank_row 5 stB); (5, [blank stB; blank stB; blank stB; blank stB; ch 111 stB])].
Proof. vm_compute. reflexivity. Qed.

Example ed2_example :
  let t' := exec_csi_plain [2] 74 ex_term in
  rows (active t') = zrepeat (blank_row 5 stB) 7 /\ cx (active t') = 0 /\ cy (active t') = 0.
Proof. vm_compute. auto. Qed.

(* C05 says "the cursor ... is unchanged"; ED 2 homes it *)
Lemma ed2_cursor_refuted : exists t ps, TInv t /\ p0 ps 0 = 2 /\
  (cx (active (exec_csi_plain ps 74 t)), cy (active (exec_csi_plain ps 74 t))) <> (cx (active t), cy (active t)).
Proof.
  exists ex_term, [2]. split; [exact TInv_ex_term|]. split; [reflexivity|]. vm_compute. discriminate.
Qed.

(* ECH 2 at (1,5), inside the first wide glyph: cells 0..2 and the orphan 3 are blanked;
   ECH 9 is cut at the right edge; ECH with explicit 0 erases nothing *)
Example ech_example :
  rows_after [2] 88 (ex_scr_at 1 5) = upd_rows [(5, [blank stB; blank stB; blank stB; blank stB; ch 111 stB])]
  /\ rows_after [9] 88 (ex_scr_at 2 2) = upd_rows [(2, [ch 101 stC; ch 102 stC; blank stB; blank stB; blank stB])]
  /\ rows_after [] 88 (ex_scr_at 2 2) = upd_rows [(2, [ch 101 stC; ch 102 stC; blank stB; ch 104 stB; ch 105 stB])]
  /\ rows_after [0] 88 (ex_scr_at 2 2) = ex_rows.
Proof. vm_compute. auto. Qed.

(* DCH 1 at (2,0) deletes the head of the wide glyph: its continuation cell shifts
   to column 2 as a blank in the glyph's style; DCH 2 at (1,5) removes the second
   half of one glyph and the head of the next: both remaining halves become blanks *)
Example dch_example :
  rows_after [] 80 (ex_scr_at 2 0) = upd_rows [(0, [ch 97 stA; ch 98 stA; blank stB; ch 99 stC; blank stB])]
  /\ rows_after [2] 80 (ex_scr_at 1 5) = upd_rows [(5, [blank stC; blank stA; ch 111 stB; blank stB; blank stB])]
  /\ rows_after [0] 80 (ex_scr_at 2 0) = ex_rows.
Proof. vm_compute. auto. Qed.
