(* The read loop over the width and segmentation model (Model/GTerm.v):
   - in rune mode it is the oracle-parametric loop of Term.v at the concrete
     width function [uwc] of the uniseg model, so every theorem stated for all
     width oracles holds for it;
   - in either text mode every token, merge tokens included, preserves the
     terminal invariant and the glyph structure of the rows (C01, C02, C03 "no
     half character" for grapheme mode), along every history of reads and
     resizes, for every reader state. *)
From Coq Require Import List ZArith Bool Lia.
From Termemu Require Import Base Style Screen Kbd Parser Term BaseLemmas ScreenInv TermInv HistProofs GlyphInv
  Gen_Uniseg Uniseg Grapheme GTerm.
Import ListNotations.
Open Scope Z_scope.

(* ---- the glyph structure of a row depends on the widths of its cells only ---- *)
Definition eqw (a b : cell) : Prop := cwid a = cwid b.

Lemma Forall2_eqw_refl l : Forall2 eqw l l.
Proof. induction l as [|c l IH]; constructor; [reflexivity|exact IH]. Qed.

Lemma eqw_is_cont a b : eqw a b -> is_cont a = is_cont b.
Proof. unfold eqw, is_cont. intros ->. reflexivity. Qed.

Lemma Forall2_eqw_conts l l' : Forall2 eqw l l' -> Forall (fun k => is_cont k = true) l -> Forall (fun k => is_cont k = true) l'.
Proof.
  induction 1 as [|a b l l' Hab Hl IH]; intros H; [constructor|].
  inversion H as [|? ? Ha Hr]; subst. constructor; [rewrite <- (eqw_is_cont _ _ Hab); exact Ha|apply IH, Hr].
Qed.

Lemma Forall2_zlen {A B} (R : A -> B -> Prop) l l' : Forall2 R l l' -> zlen l = zlen l'.
Proof. induction 1 as [|a b l l' _ _ IH]; [reflexivity|]. rewrite !zlen_cons, IH. reflexivity. Qed.

Lemma row_ok_widths r : row_ok r -> forall r', Forall2 eqw r r' -> row_ok r'.
Proof.
  induction 1 as [|c conts rest Hw Hc Hl Hr IH]; intros r' H.
  - inversion H; subst. constructor.
  - inversion H as [|? c' ? tl' Hcc Htl]; subst.
    apply Forall2_app_inv_l in Htl. destruct Htl as (conts' & rest' & H1 & H2 & ->).
    constructor.
    + unfold eqw in Hcc. lia.
    + eapply Forall2_eqw_conts; eassumption.
    + rewrite <- (Forall2_zlen _ _ _ H1). unfold eqw in Hcc. lia.
    + apply IH, H2.
Qed.

Lemma upd_eqw_nat : forall row n c', (n < length row)%nat -> cwid c' = cwid (nth n row dcell) ->
  Forall2 eqw row (firstn n row ++ c' :: skipn (S n) row).
Proof.
  induction row as [|c row IH]; intros n c' Hn Hc; [cbn in Hn; lia|].
  destruct n as [|n].
  - cbn. constructor; [unfold eqw; cbn in Hc; lia|apply Forall2_eqw_refl].
  - cbn [firstn skipn app]. constructor; [reflexivity|]. apply IH; [cbn in Hn; lia|exact Hc].
Qed.

Lemma zupd_eqw b c' row : cwid c' = cwid (znth b row dcell) -> Forall2 eqw row (zupd b c' row).
Proof.
  intros Hc. unfold zupd. destruct (b <? 0) eqn:E1; [apply Forall2_eqw_refl|].
  destruct (zlen row <=? b) eqn:E2; cbn [orb]; [apply Forall2_eqw_refl|].
  apply Z.ltb_ge in E1. apply Z.leb_gt in E2. unfold zlen in E2.
  unfold zfirstn, zskipn. replace (Z.to_nat (b + 1)) with (S (Z.to_nat b)) by lia.
  apply upd_eqw_nat; [lia|]. unfold znth in Hc. destruct (b <? 0) eqn:E3; [lia|exact Hc].
Qed.

(* ---- mergeIntoPreviousCell keeps the invariant, the size and the glyph structure ---- *)
Lemma Pres2_merge_prev txt : Pres2 (merge_prev txt).
Proof.
  intros s I R. unfold merge_prev.
  destruct (negb (crash s =? 0)); [apply Good2_refl; assumption|].
  destruct (cx s <=? 0); [apply Good2_refl; assumption|].
  set (y := cy s). set (row := row_at s y). set (b := glyph_start row (cx s - 1)).
  set (c' := mkCell _ _ _).
  assert (Hrow : zlen (zupd b c' row) = sW s).
  { rewrite zlen_zupd. subst row. unfold row_at.
    apply (Forall_znth (fun r => zlen r = sW s)); [exact (inv_cols _ I)|].
    rewrite (inv_rows _ I). subst y. exact (inv_cy _ I). }
  split.
  - split; [|ss; split; reflexivity].
    apply Inv_emit. apply Inv_set_rows_upd; assumption.
  - unfold RowsOk. cbn [rows emit set_rows set_evs].
    apply Forall_zupd; [exact R|].
    apply (row_ok_widths row); [apply row_at_ok, R|].
    apply zupd_eqw. reflexivity.
Qed.

Lemma Pres_merge_prev txt : Pres (merge_prev txt).
Proof.
  (* the row structure is not needed for the plain invariant *)
  intros s I. unfold merge_prev.
  destruct (negb (crash s =? 0)); [apply Good_refl; assumption|].
  destruct (cx s <=? 0); [apply Good_refl; assumption|].
  split; [|ss; split; reflexivity].
  apply Inv_emit. apply Inv_set_rows_upd; [assumption|].
  rewrite zlen_zupd. unfold row_at.
  apply (Forall_znth (fun r => zlen r = sW s)); [exact (inv_cols _ I)|].
  rewrite (inv_rows _ I). exact (inv_cy _ I).
Qed.

Theorem TInv_gexec k t : TInv t -> TInv (gexec k t).
Proof.
  intros Ht. destruct k as [k|txt]; cbn [gexec]; [apply TInv_exec_tok, Ht|].
  apply on_screen_ok; [apply Pres_merge_prev|exact Ht].
Qed.

Theorem TInv2_gexec k t : TInv2 t -> TInv2 (gexec k t).
Proof.
  intros Ht. destruct k as [k|txt]; cbn [gexec]; [apply TInv2_exec_tok, Ht|].
  apply on_screen_ok2; [apply Pres2_merge_prev|exact Ht].
Qed.

Definition gterm (st : term * rstate * list Z) : term := fst (fst st).

Section GHist.
  Variable grapheme grid : bool.

  Lemma TInv2_grun_pending fuel : forall t rs inp, TInv2 t -> TInv2 (gterm (grun_pending grapheme grid fuel t rs inp)).
  Proof.
    induction fuel as [|f IH]; intros t rs inp Ht; cbn [grun_pending]; [exact Ht|].
    destruct (crashed t); [exact Ht|].
    destruct (gparse_one grapheme grid rs inp) as [[[k rs'] rest]|]; [|exact Ht].
    apply IH, TInv2_gexec, Ht.
  Qed.

  Lemma TInv2_ghstep st o : TInv2 (gterm st) -> hop_ok o -> TInv2 (gterm (ghstep grapheme grid st o)).
  Proof.
    destruct st as [[t rs] pend]. unfold gterm at 1. cbn [fst]. intros Ht Ho.
    destruct o as [bs|w h]; cbn [ghstep].
    - apply TInv2_grun_pending, Ht.
    - destruct (crashed t); [exact Ht|]. unfold gterm; cbn [fst]. destruct Ho. apply TInv2_resize; assumption.
  Qed.

  Theorem TInv2_gfold ops : forall st, TInv2 (gterm st) -> hist_ok ops ->
    TInv2 (gterm (fold_left (ghstep grapheme grid) ops st)).
  Proof.
    induction ops as [|o ops IH]; intros st Ht Hok; cbn [fold_left]; [exact Ht|].
    inversion Hok; subst. apply IH; [apply TInv2_ghstep; assumption|assumption].
  Qed.

  (* after every history of reads and resizes, in either text mode, on either buffer: both screens are
     well-formed W x H grids with cursor, saved cursor and margins in range, every row is a sequence of whole
     glyphs, and no modelled panic site was reached *)
  Theorem grapheme_hist_inv w h ops : 1 <= w -> 1 <= h -> hist_ok ops ->
    let t := gterm (grun_hist grapheme grid (init_term w h) ops) in
    TInv t /\ Forall row_ok (rows (tmain t)) /\ Forall row_ok (rows (talt t)) /\ crashed t = false.
  Proof.
    intros Hw Hh Hok t.
    destruct (TInv2_gfold ops (init_term w h, rs0, []) (TInv2_init w h Hw Hh) Hok) as (T & Rm & Ra).
    repeat split; try assumption; try apply T. apply TInv_not_crashed, T.
  Qed.

  (* the same after every prefix of the history *)
  Corollary grapheme_hist_inv_prefix w h ops n : 1 <= w -> 1 <= h -> hist_ok ops ->
    let t := gterm (grun_hist grapheme grid (init_term w h) (firstn n ops)) in
    TInv t /\ Forall row_ok (rows (tmain t)) /\ Forall row_ok (rows (talt t)) /\ crashed t = false.
  Proof.
    intros Hw Hh Hok. apply grapheme_hist_inv; try assumption.
    unfold hist_ok in *. rewrite <- (firstn_skipn n ops) in Hok. apply Forall_app in Hok. tauto.
  Qed.
End GHist.

(* ---- rune mode: the loop is the oracle-parametric loop of Term.v at the width function of the uniseg model ---- *)
Lemma glyph_width_idem w : glyph_width (glyph_width w) = glyph_width w.
Proof. unfold glyph_width. destruct (w <=? 0) eqn:E; [reflexivity|]. rewrite E. reflexivity. Qed.

Lemma exec_tok_glyph_clamped txt r w t :
  exec_tok (TGlyph txt r (if w <=? 0 then 1 else w)) t = exec_tok (TGlyph txt r w) t.
Proof. cbn [exec_tok]. change (if w <=? 0 then 1 else w) with (glyph_width w). rewrite glyph_width_idem. reflexivity. Qed.

Theorem grun_rune_is_run grid fuel : forall t rs inp,
  run_pending uwc grid fuel t inp =
  (gterm (grun_pending false grid fuel t rs inp), snd (grun_pending false grid fuel t rs inp)).
Proof.
  induction fuel as [|f IH]; intros t rs inp; cbn [run_pending grun_pending]; [reflexivity|].
  destruct (crashed t); [reflexivity|].
  unfold gparse_one, parse_one. destruct inp as [|b rest]; [reflexivity|].
  destruct (is_printable b).
  - unfold next_token, next_rune_token, step_rune_cluster.
    destruct (decode_rune (b :: rest)) as [[[r size] valid]|]; [|reflexivity].
    cbn [tt_merge tt_len tt_rs tt_width gexec].
    rewrite exec_tok_glyph_clamped. apply IH.
  - destruct (b =? 27).
    + destruct (parse_esc rest) as [|k r]; [reflexivity|]. cbn [gexec]. apply IH.
    + cbn [gexec]. apply IH.
Qed.

(* whole histories *)
Theorem ghist_rune_is_hist grid ops : forall t rs pend,
  fold_left (hstep uwc grid) ops (t, pend) =
  (gterm (fold_left (ghstep false grid) ops (t, rs, pend)), snd (fold_left (ghstep false grid) ops (t, rs, pend))).
Proof.
  induction ops as [|o ops IH]; intros t rs pend; cbn [fold_left]; [reflexivity|].
  destruct o as [bs|w h]; cbn [hstep ghstep fst snd].
  - unfold run_bytes, grun_bytes. rewrite (grun_rune_is_run grid _ t rs (pend ++ bs)).
    destruct (grun_pending false grid _ t rs (pend ++ bs)) as [[t' rs'] rest] eqn:E.
    unfold gterm; cbn [fst snd]. apply IH.
  - destruct (crashed t); apply IH.
Qed.

Corollary grun_hist_rune grid w h ops :
  run_hist uwc grid (init_term w h) ops =
  (gterm (grun_hist false grid (init_term w h) ops), snd (grun_hist false grid (init_term w h) ops)).
Proof. apply ghist_rune_is_hist. Qed.

(* ---- what a merge token does: the text joins the character left of the cursor; nothing else changes ---- *)
Lemma merge_prev_frame txt s :
  cx (merge_prev txt s) = cx s /\ cy (merge_prev txt s) = cy s /\ sW (merge_prev txt s) = sW s /\
  sH (merge_prev txt s) = sH s /\ svx (merge_prev txt s) = svx s /\ svy (merge_prev txt s) = svy s /\
  top (merge_prev txt s) = top s /\ bot (merge_prev txt s) = bot s /\ awrap (merge_prev txt s) = awrap s /\
  sty (merge_prev txt s) = sty s /\ crash (merge_prev txt s) = crash s /\ trig (merge_prev txt s) = trig s.
Proof.
  unfold merge_prev. destruct (negb (crash s =? 0)); [repeat split|].
  destruct (cx s <=? 0); repeat split.
Qed.

Theorem merge_prev_cells txt s : Inv s -> 0 < cx s ->
  let y := cy s in
  let b := glyph_start (row_at s y) (cx s - 1) in
  let c := cell_at s b y in
  0 <= b < cx s /\
  cell_at (merge_prev txt s) b y = mkCell (ctext c ++ txt) (cwid c) (cst c) /\
  (forall x y', (x <> b \/ y' <> y) -> cell_at (merge_prev txt s) x y' = cell_at s x y').
Proof.
  intros I Hx y b c.
  assert (Hb : 0 <= b <= cx s - 1) by (apply glyph_start_range; lia).
  pose proof (inv_cx _ I) as Hcx. pose proof (inv_cy _ I) as Hcy.
  assert (Hrow : zlen (row_at s y) = sW s).
  { unfold row_at. apply (Forall_znth (fun r => zlen r = sW s)); [exact (inv_cols _ I)|].
    rewrite (inv_rows _ I). exact Hcy. }
  split; [lia|].
  unfold merge_prev. rewrite (inv_crash _ I). cbn [Z.eqb negb].
  destruct (Z.leb_spec (cx s) 0); [lia|].
  fold y. fold b.
  unfold cell_at, row_at. cbn [rows emit set_rows set_evs].
  split.
  - rewrite znth_zupd_same by (rewrite (inv_rows _ I); exact Hcy).
    rewrite znth_zupd_same by (fold (row_at s y); rewrite Hrow; lia). reflexivity.
  - intros x y' Hne. destruct (Z.eq_dec y' y) as [->|Hy].
    + rewrite znth_zupd_same by (rewrite (inv_rows _ I); exact Hcy).
      rewrite znth_zupd_other by (destruct Hne; congruence). reflexivity.
    + rewrite znth_zupd_other by congruence. reflexivity.
Qed.

(* a text token that is not a merge is the glyph write of C03, at the width the reader measured *)
Lemma gexec_text txt r w t :
  gexec (GT (TGlyph txt r w)) t =
  on_screen (fun s => write_glyph txt (glyph_width w)
     (if (r =? runeError) && negb (list_eqb Z.eqb txt utf8_replacement) then add_trig trInvalidUtf8 s else s)) t.
Proof. reflexivity. Qed.

(* non-vacuity: grapheme mode, a mark arriving in a later read, a ZWJ sequence read whole, a flag, a resize *)
Example grapheme_example :
  let ops := [HFeed [27;91;63;55;104;101]; HFeed [204;129]; HFeed [240;159;145;169;226;128;141;240;159;145;169;120];
              HResize 6 2; HFeed [240;159;135;186;240;159;135;184]] in
  let t := gterm (grun_hist true false (init_term 8 2) ops) in
  hist_ok ops /\
  ctext (cell_at (tmain t) 0 0) = [101;204;129] /\ cwid (cell_at (tmain t) 0 0) = 1 /\
  ctext (cell_at (tmain t) 1 0) = [240;159;145;169;226;128;141;240;159;145;169] /\ cwid (cell_at (tmain t) 1 0) = 2 /\
  cwid (cell_at (tmain t) 4 0) = 2 /\ cx (tmain t) = 0 /\ cy (tmain t) = 1.
Proof.
  cbv zeta. split; [repeat constructor; lia|]. vm_compute. repeat split; reflexivity.
Qed.

(* ---- C10 for merge tokens: the merge announces the character it changes, after changing it ---- *)
From Termemu Require Import IsolationProofs NotifyProofs.

Lemma Framed_merge_prev txt : Framed (merge_prev txt).
Proof.
  intros s Hs.
  destruct (Z_le_gt_dec (cx s) 0) as [Hle|Hgt].
  - assert (E : merge_prev txt s = s).
    { unfold merge_prev. destruct (negb (crash s =? 0)); [reflexivity|].
      destruct (Z.leb_spec (cx s) 0); [reflexivity|lia]. }
    rewrite E. exists []. split; [reflexivity|auto].
  - pose proof (merge_prev_cells txt s Hs ltac:(lia)) as (Hb & _ & Hother).
    set (y := cy s) in *. set (b := glyph_start (row_at s y) (cx s - 1)) in *.
    pose proof (cont_run_range (row_at s y) (b + 1) ltac:(lia)) as Hr.
    exists [ERegion b y (b + (1 + cont_run (row_at s y) (b + 1))) (y + 1) crText]. split.
    + unfold merge_prev. rewrite (inv_crash _ Hs). cbn [Z.eqb negb].
      destruct (Z.leb_spec (cx s) 0); [lia|]. reflexivity.
    + intros x y' _ _ Hna. apply Hother.
      destruct (Z.eq_dec x b) as [->|]; [|left; assumption].
      destruct (Z.eq_dec y' y) as [->|]; [|right; assumption].
      exfalso. apply Hna. eexists. split; [left; reflexivity|]. cbn [covers]. lia.
Qed.

(* the announcement is the newest callback and is issued on the state that already holds the merged text *)
Lemma merge_prev_announces txt s : Inv s -> 0 < cx s ->
  let b := glyph_start (row_at s (cy s)) (cx s - 1) in
  evs (merge_prev txt s) = ERegion b (cy s) (b + (1 + cont_run (row_at s (cy s)) (b + 1))) (cy s + 1) crText :: evs s.
Proof.
  intros Hs Hx b. unfold merge_prev. rewrite (inv_crash _ Hs). cbn [Z.eqb negb].
  destruct (Z.leb_spec (cx s) 0); [lia|]. reflexivity.
Qed.

Theorem gexec_framed k t : TInv t -> (forall k0, k = GT k0 -> ~ is_switch k0) -> TFramed t (gexec k t).
Proof.
  intros Ht Hn. destruct k as [k0|txt]; cbn [gexec].
  - apply exec_tok_framed; [exact Ht|apply Hn; reflexivity].
  - apply on_screen_tframed; [exact Ht|]. intros s Hs. split; [apply Pres_merge_prev, Hs|apply Framed_merge_prev, Hs].
Qed.
