(* Writing a run of text: writeRun is the cell-level [write_piece]; writeString's
   piece-by-piece loop is the glyph-at-a-time fold of [write_glyph] (up to coalescing
   of the announced regions); the run-forming reader yields the glyphs of [parse_one]. *)
From Coq Require Import List ZArith Bool Lia.
From Termemu Require Import Base Style Screen Kbd Parser Term BaseLemmas ScreenInv RowLemmas Span SpanText SpanRows SpanProofs
  SpanRefine SpanScreen SpanTail TrigMono SpanScreenProofs RunWrite.
Import ListNotations.
Open Scope Z_scope.

Section WithOracle.
  Variable wc : Z -> Z.
  Hypothesis Hmb : wc_multibyte wc.
  Notation abs := (abs_sscreen wc).
  Notation abs_line := (abs_line wc).
  Notation gcl := (gcl wc).
  Notation SInv := (SInv wc).

  (* ---------- the span of a run ---------- *)
  Lemma run_span_good st cls : Forall gcl cls -> cls <> [] ->
    ins_good wc (mk_span st (bytes cls) 0 (cls_width cls)) /\
    abs_span wc (mk_span st (bytes cls) 0 (cls_width cls)) = gcells_cl st cls /\
    1 <= cls_width cls.
  Proof.
    intros Hc Hne.
    assert (Hw : 1 <= cls_width cls).
    { destruct cls as [|[c w] r]; [congruence|]. inversion Hc as [|? ? H1 H2]; subst. cbn [cls_width].
      pose proof (gcl_pos wc _ _ H1). pose proof (cls_width_nonneg wc _ H2). lia. }
    destruct (set_text_good wc (mkSpan st [] false 0 0) cls (cls_width cls) Hc eq_refl) as [G1 G2].
    change (set_text (mkSpan st [] false 0 0) (bytes cls) (cls_width cls)) with (mk_span st (bytes cls) 0 (cls_width cls)) in G1, G2.
    destruct G2 as [G2|G2]; [cbn [sp_width mk_span] in G2; lia|].
    destruct (wf_of_gspan wc _ G2) as [A B].
    split; [|split; [|exact Hw]].
    - split; [right; exact A|]. split; [exact B|]. intros _ Hnt. exfalso.
      unfold is_text, mk_span in Hnt. cbn [sp_text] in Hnt. rewrite (nonempty_bytes wc _ Hc) in Hnt.
      destruct cls; [congruence|discriminate].
    - destruct (gspan_gl wc _ G2) as (E & _). rewrite E, G1. apply gcells_gl_text.
  Qed.

  Lemma zlen_gcells_cl st cls : Forall gcl cls -> zlen (gcells_cl st cls) = cls_width cls.
  Proof.
    intros Hc. rewrite <- gcells_gl_text. rewrite zlen_gcells by (apply (glyphs_ok_text wc), Hc). apply gwidth_gl_text.
  Qed.

  (* ---------- writeRun = write_piece ---------- *)
  Lemma zsty_move_cursor' dx dy wrap scr s : zsty (s_move_cursor' dx dy wrap scr s) = zsty s.
  Proof.
    unfold s_move_cursor'. destruct (if wrap && zawrap s then _ else _) as [x1 y1].
    destruct (scr && _); [|reflexivity].
    destruct (_ <? ztop s); [|destruct (zbot s <? _)]; cbn [zsty z_emit z_set_evs z_set_cur]; rewrite ?zsty_scroll; reflexivity.
  Qed.

  Theorem s_write_run_piece cls s :
    SInv s -> Forall gcl cls -> cls <> [] -> cls_width cls <= zW s ->
    trig (write_piece (gcells_cl (zsty s) cls) (abs s)) = 0 ->
    SInv (s_write_run wc (bytes cls) (cls_width cls) s) /\
    abs (s_write_run wc (bytes cls) (cls_width cls) s) = write_piece (gcells_cl (zsty s) cls) (abs s).
  Proof.
    intros Hs Hc Hne HwW Ht.
    destruct (run_span_good (zsty s) cls Hc Hne) as (Hgood & Habs & Hw1).
    pose proof (zlen_gcells_cl (zsty s) cls Hc) as Ln. set (n := cls_width cls) in *.
    pose proof (proj1 Hs) as I. pose proof (inv_crash _ I) as C0. cbn [crash abs_sscreen] in C0.
    pose proof (inv_cx _ I) as Hcx. pose proof (inv_cy _ I) as Hcy. pose proof (inv_w _ I) as HW.
    cbn [cx cy sW sH abs_sscreen] in Hcx, Hcy, HW.
    unfold s_write_run, write_piece in *. cbn [crash cx cy sW awrap abs_sscreen] in *. rewrite Ln in *.
    rewrite C0 in *. cbn [Z.eqb negb] in *.
    destruct (Z.ltb_spec (zW s) n); [lia|].
    (* the state after the wrap-or-pin decision *)
    set (s1 := if zW s <? zcx s + n then if zawrap s then s_move_cursor (- zcx s) 1 false true s else z_set_cur (zW s - n) (zcy s) s else s) in *.
    set (c1 := if zW s <? zcx s + n then if zawrap s then move_cursor (- zcx s) 1 false true (abs s) else set_cur (zW s - n) (zcy s) (abs s) else abs s) in *.
    assert (H1 : SInv s1 /\ abs s1 = c1 /\ zsty s1 = zsty s /\ zW s1 = zW s /\ zcx s1 + n <= zW s).
    { subst s1 c1. destruct (Z.ltb_spec (zW s) (zcx s + n)).
      - destruct (zawrap s) eqn:Ea.
        + destruct (SimU_move_cursor wc (- zcx s) 1 false true s Hs) as (I1 & E1).
          split; [exact I1|]. split; [exact E1|].
          rewrite (s_move_cursor_eq _ _ _ _ s (SInv_top_bot wc s Hs)). rewrite zsty_move_cursor', zW_move_cursor'.
          split; [reflexivity|]. split; [reflexivity|].
          rewrite <- (s_move_cursor_eq _ _ _ _ s (SInv_top_bot wc s Hs)).
          change (zcx (s_move_cursor (- zcx s) 1 false true s)) with (cx (abs (s_move_cursor (- zcx s) 1 false true s))).
          rewrite E1, move_cursor_cx. cbn [andb cx sW abs_sscreen].
          replace (zcx s + - zcx s) with 0 by lia. rewrite clamp_id by lia. lia.
        + split; [|cbn; repeat split; lia]. split; [|exact (proj2 Hs)].
          change (Inv (set_cur (zW s - n) (zcy s) (abs s))). apply Inv_set_cur; cbn [sW sH abs_sscreen]; [exact I|lia|lia].
      - split; [exact Hs|]. repeat split. lia. }
    destruct H1 as (I1 & E1 & S1 & W1 & F1). clearbody s1 c1.
    pose proof (inv_cx _ (proj1 I1)) as Hcx1. pose proof (inv_cy _ (proj1 I1)) as Hcy1. cbn [cx cy sW sH abs_sscreen] in Hcx1, Hcy1.
    rewrite <- E1 in Ht |- *. cbn [cx cy abs_sscreen] in Ht |- *. rewrite S1.
    rewrite <- Habs in Ht |- *.
    set (sp := mk_span (zsty s) (bytes cls) 0 n) in *.
    assert (Ht2 : trig (write_row_cells crText (zcx s1) (zcy s1) (abs_span wc sp) (abs s1)) = 0).
    { destruct (negb _) in Ht; [exact Ht|]. rewrite trig_move_cursor in Ht. exact Ht. }
    destruct (Sim_raw_write_span wc Hmb crText (zcx s1) (zcy s1) sp s1 I1 Hcy1 ltac:(lia) ltac:(cbn [sp sp_width mk_span]; lia)
                ltac:(cbn [sp sp_width mk_span]; lia) Hgood ltac:(cbn [sp sp_sty mk_span]; congruence) Ht2) as (I2 & E2).
    set (s2 := s_raw_write_span wc (zcx s1) (zcy s1) sp crText s1) in *.
    rewrite <- E2 in Ht |- *. cbn [crash abs_sscreen] in Ht |- *.
    pose proof (inv_crash _ (proj1 I2)) as C2. cbn [crash abs_sscreen] in C2. rewrite C2 in *. cbn [Z.eqb negb] in *.
    apply (SimU_move_cursor wc n 0 true true s2 I2).
  Qed.

  (* ---------- clustersFitting on good clusters: a non-empty prefix that fits, or one cluster ---------- *)
  Ltac unroll c w cls :=
    change (bytes ((c, w) :: cls)) with (c ++ bytes cls);
    let z := fresh "z" in let zs := fresh "zs" in let E := fresh "E" in
    destruct (c ++ bytes cls) as [|z zs] eqn:E;
    [exfalso; match goal with H : gcl (c, w) |- _ => destruct (gcl_nonnil wc _ _ H) as (?b & ?c' & ?Ec); subst c; discriminate end|];
    rewrite <- E; clear E z zs.

  Lemma cf_loop_spec cls : Forall gcl cls -> forall fuel idx width avail,
    (length (bytes cls) <= fuel)%nat -> 0 <= idx ->
    exists p q, cls = p ++ q /\
      cf_loop wc fuel (bytes cls) idx width avail = (idx + zlen (bytes p), width + cls_width p) /\
      (idx = 0 -> cls <> [] -> p <> []) /\
      (p = [] \/ width + cls_width p <= avail \/ (idx = 0 /\ exists x, p = [x])).
  Proof.
    induction 1 as [|[c w] r Hc Hr IH]; intros fuel idx width avail Hf Hidx.
    - exists [], []. split; [reflexivity|]. split; [destruct fuel; cbn; f_equal; lia|]. split; [congruence|left; reflexivity].
    - rewrite length_bytes_cons in Hf. pose proof (gcl_pos wc _ _ Hc) as [Hw Hl].
      destruct fuel as [|f]; [unfold zlen in Hl; lia|]. cbn [cf_loop]. unroll c w r.
      rewrite (gcl_step wc _ _ _ Hc). rewrite zskipn_app_len. destruct (Z.ltb_spec w 0); [lia|].
      destruct ((0 <? idx) && (avail <? width + w)) eqn:Et.
      + exists [], ((c, w) :: r). split; [reflexivity|]. split; [cbn; f_equal; lia|].
        apply andb_prop in Et as [E1 _]. apply Z.ltb_lt in E1. split; [lia|left; reflexivity].
      + destruct (IH f (idx + zlen c) (width + w) avail ltac:(unfold zlen in Hl; lia) ltac:(lia)) as (p & q & Er & Ecf & _ & Hfit).
        exists ((c, w) :: p), q. split; [rewrite Er; reflexivity|]. split.
        { rewrite Ecf. rewrite zlen_bytes_cons. cbn [cls_width]. f_equal; lia. }
        split; [discriminate|].
        destruct Hfit as [->|[Hfit|[Hz _]]]; [|right; left; cbn [cls_width]; lia|lia].
        apply andb_false_iff in Et. destruct Et as [Et|Et].
        * right. right. apply Z.ltb_ge in Et. split; [lia|eexists; reflexivity].
        * right. left. apply Z.ltb_ge in Et. cbn [cls_width]. lia.
  Qed.

  Lemma clusters_fitting_spec cls avail : Forall gcl cls -> cls <> [] ->
    exists p q, cls = p ++ q /\ p <> [] /\
      clusters_fitting wc (bytes cls) avail = (zlen (bytes p), cls_width p) /\
      (cls_width p <= avail \/ exists x, p = [x]).
  Proof.
    intros Hc Hne. destruct (cf_loop_spec cls Hc (length (bytes cls)) 0 0 avail ltac:(lia) ltac:(lia)) as (p & q & E & Ecf & Hp & Hfit).
    exists p, q. split; [exact E|]. specialize (Hp eq_refl Hne). split; [exact Hp|].
    split; [unfold clusters_fitting; rewrite Ecf; f_equal; lia|].
    destruct Hfit as [Hnil|[Hfit|[_ Hx]]]; [exfalso; exact (Hp Hnil)|left; lia|right; exact Hx].
  Qed.

  (* ---------- states equal up to the callback log ---------- *)
  Lemma frame_split f a : EvFrame f -> f a = app_evs (evs a) (f (set_evs [] a)).
  Proof. intros Hf. rewrite <- Hf. rewrite <- app_evs_self. reflexivity. Qed.

  Lemma fold_wg_good cls : forall s, Inv s -> Good s (fold_left wg cls s).
  Proof.
    induction cls as [|p cls IH]; intros s Hs; cbn [fold_left]; [apply Good_refl, Hs|].
    destruct (Pres_write_glyph (fst p) (snd p) s Hs) as (I1 & W1 & H1). destruct (IH _ I1) as (I2 & W2 & H2).
    change (wg s p) with (write_glyph (fst p) (snd p) s). split; [exact I2|]. split; congruence.
  Qed.

  Lemma fold_wg_mono cls : forall s, trig (fold_left wg cls s) = 0 -> trig s = 0.
  Proof.
    induction cls as [|p cls IH]; intros s H; cbn [fold_left] in H; [exact H|].
    apply IH in H. apply TrigMono_write_glyph in H. exact H.
  Qed.

  Lemma nonempty_bytes_nil cls : Forall gcl cls -> bytes cls = [] -> cls = [].
  Proof. intros Hc Hb. pose proof (nonempty_bytes wc _ Hc) as H. rewrite Hb in H. destruct cls; [reflexivity|discriminate]. Qed.

  Lemma widths_pos cls : Forall gcl cls -> Forall (fun p : list Z * Z => 1 <= snd p) cls.
  Proof. apply gcl_widths. Qed.

  (* ---------- writeString's loop = the glyph-at-a-time fold ---------- *)
  Theorem ws_loop_glyphs : forall fuel cls s,
    (length (bytes cls) <= fuel)%nat -> SInv s -> Forall gcl cls -> cls <> [] ->
    Forall (fun p : list Z * Z => snd p <= zW s) cls ->
    trig (fold_left wg cls (abs s)) = 0 ->
    let s' := ws_loop wc fuel (bytes cls) (cls_width cls) s in
    SInv s' /\ set_evs [] (abs s') = set_evs [] (fold_left wg cls (abs s)) /\
    log_eq (zevs s') (evs (fold_left wg cls (abs s))).
  Proof.
    induction fuel as [|f IH]; intros cls s Hf Hs Hc Hne HwW Ht.
    { exfalso. apply Hne, (nonempty_bytes_nil cls Hc). destruct (bytes cls); [reflexivity|cbn in Hf; lia]. }
    cbv zeta. cbn [ws_loop].
    pose proof (proj1 Hs) as I. pose proof (inv_crash _ I) as C0. cbn [crash abs_sscreen] in C0. rewrite C0. cbn [Z.eqb negb].
    pose proof (inv_cx _ I) as Hcx. cbn [cx sW abs_sscreen] in Hcx.
    (* one piece [p] (fits, or a single cluster) written by writeRun, against the same glyphs written one by one *)
    assert (Piece : forall p, Forall gcl p -> p <> [] -> Forall (fun x : list Z * Z => snd x <= zW s) p ->
              (zcx s + cls_width p <= zW s \/ exists x, p = [x]) ->
              trig (fold_left wg p (abs s)) = 0 ->
              let s1 := s_write_run wc (bytes p) (cls_width p) s in
              SInv s1 /\ set_evs [] (abs s1) = set_evs [] (fold_left wg p (abs s)) /\
              log_eq (zevs s1) (evs (fold_left wg p (abs s)))).
    { intros p Hp Hpne HpW Hfit Htp.
      assert (Hfit' : cx (abs s) + cls_width p <= sW (abs s) \/ (exists x, p = [x] /\ snd x <= sW (abs s))).
      { cbn [cx sW abs_sscreen]. destruct Hfit as [Hfit|(x & ->)]; [left; exact Hfit|right].
        exists x. split; [reflexivity|]. inversion HpW; assumption. }
      destruct (write_piece_glyphs p (abs s) I Hpne (widths_pos p Hp) Hfit') as (Eq & Lg). cbv zeta in Eq, Lg.
      change (sty (abs s)) with (zsty s) in Eq, Lg.
      assert (Hle : cls_width p <= zW s).
      { destruct Hfit as [Hfit|([c0 w0] & ->)]; [lia|]. inversion HpW; subst. cbn [cls_width snd] in *. lia. }
      assert (Htw : trig (write_piece (gcells_cl (zsty s) p) (abs s)) = 0).
      { change (trig (write_piece (gcells_cl (zsty s) p) (abs s))) with (trig (set_evs [] (write_piece (gcells_cl (zsty s) p) (abs s)))).
        rewrite <- Eq. exact Htp. }
      destruct (s_write_run_piece p s Hs Hp Hpne Hle Htw) as (I1 & E1). cbv zeta.
      split; [exact I1|]. change (zevs (s_write_run wc (bytes p) (cls_width p) s)) with (evs (abs (s_write_run wc (bytes p) (cls_width p) s))).
      rewrite E1. split; [symmetry; exact Eq|exact Lg]. }
    destruct (Z.ltb_spec (zW s) (zcx s + cls_width cls)) as [Hbig|Hfits].
    2:{ apply Piece; auto. }
    destruct (clusters_fitting_spec cls (zW s - zcx s) Hc Hne) as (p & q & E & Hpne & Ecf & Hfit). rewrite Ecf.
    subst cls. apply Forall_app in Hc as [Hp Hq]. apply Forall_app in HwW as [HpW HqW].
    rewrite bytes_app, cls_width_app in *.
    assert (Lp : 1 <= zlen (bytes p)).
    { destruct p as [|[c w] p']; [congruence|]. inversion Hp as [|? ? H1 H2]; subst. rewrite zlen_bytes_cons.
      pose proof (gcl_pos wc _ _ H1). pose proof (zlen_nonneg (bytes p')). lia. }
    destruct (Z.leb_spec (zlen (bytes p)) 0); [lia|]. cbn [orb].
    rewrite zlen_app. rewrite fold_left_app in Ht |- *.
    destruct (Z.leb_spec (zlen (bytes p) + zlen (bytes q)) (zlen (bytes p))) as [Hq0|Hq1].
    - (* the fitting prefix is the whole text: one cluster wider than the rest of the row *)
      assert (q = []).
      { apply (nonempty_bytes_nil q Hq). pose proof (zlen_nonneg (bytes q)). destruct (bytes q); [reflexivity|rewrite zlen_cons in *; pose proof (zlen_nonneg l); lia]. }
      subst q. cbn [bytes flat_map cls_width fold_left] in *. rewrite app_nil_r, Z.add_0_r in *.
      apply Piece; auto. destruct Hfit as [Hfit|Hx]; [lia|right; exact Hx].
    - assert (Hqne : q <> []) by (intros ->; cbn in Hq1; lia).
      rewrite zfirstn_app_len, zskipn_app_len.
      assert (Hqw : 1 <= cls_width q).
      { destruct q as [|[c w] q']; [congruence|]. inversion Hq as [|? ? H1 H2]; subst. cbn [cls_width].
        pose proof (gcl_pos wc _ _ H1). pose proof (cls_width_nonneg wc _ H2). lia. }
      replace (if cls_width p + cls_width q - cls_width p <? 1 then 1 else cls_width p + cls_width q - cls_width p)
        with (cls_width q) by (destruct (Z.ltb_spec (cls_width p + cls_width q - cls_width p) 1); lia).
      assert (Htp : trig (fold_left wg p (abs s)) = 0) by (apply (fold_wg_mono q), Ht).
      destruct (Piece p Hp Hpne HpW ltac:(destruct Hfit as [Hfit|Hx]; [left; lia|right; exact Hx]) Htp) as (I1 & Eq1 & Lg1).
      set (s1 := s_write_run wc (bytes p) (cls_width p) s) in *.
      set (A := fold_left wg p (abs s)) in *.
      (* continue from s1 on the span side, from A on the cell side: equal up to the log *)
      pose proof (frame_split _ A (EvFrame_fold_wg q)) as FA. pose proof (frame_split _ (abs s1) (EvFrame_fold_wg q)) as FB.
      cbv beta in FA, FB. rewrite Eq1 in FB.
      assert (W1 : zW s1 = zW s).
      { change (zW s1) with (sW (set_evs [] (abs s1))). rewrite Eq1. cbn [sW set_evs].
        destruct (fold_wg_good p (abs s) I) as (_ & W & _). exact W. }
      assert (Ht1 : trig (fold_left wg q (abs s1)) = 0).
      { rewrite FB. rewrite FA in Ht. exact Ht. }
      destruct (IH q s1 ltac:(rewrite app_length in Hf; unfold zlen in Lp; lia) I1 Hq Hqne ltac:(rewrite W1; exact HqW) Ht1) as (I2 & Eq2 & Lg2).
      cbv zeta in I2, Eq2, Lg2. split; [exact I2|]. split.
      + rewrite Eq2, FB, FA. reflexivity.
      + eapply le_trans; [exact Lg2|]. rewrite FB, FA. rewrite !app_evs_evs. apply le_app; [apply le_refl|exact Lg1].
  Qed.

  (* ---------- writeString ---------- *)
  Theorem s_write_string_glyphs cls s :
    SInv s -> Forall gcl cls -> cls <> [] -> Forall (fun p : list Z * Z => snd p <= zW s) cls ->
    trig (fold_left wg cls (abs s)) = 0 ->
    let s' := s_write_string wc (bytes cls) (cls_width cls) s in
    SInv s' /\ set_evs [] (abs s') = set_evs [] (fold_left wg cls (abs s)) /\
    log_eq (zevs s') (evs (fold_left wg cls (abs s))).
  Proof.
    intros Hs Hc Hne HwW Ht. cbv zeta. unfold s_write_string.
    rewrite (nonempty_bytes wc _ Hc). destruct cls as [|p0 cls0] eqn:Ec; [congruence|]. cbn [nonempty negb]. rewrite <- Ec in *.
    assert (Hw : 1 <= cls_width cls).
    { rewrite Ec. destruct p0 as [c w]. inversion Hc as [|? ? H1 H2]; subst; try congruence.
      injection H as -> ->. cbn [cls_width]. pose proof (gcl_pos wc _ _ H1). pose proof (cls_width_nonneg wc _ H2). lia. }
    destruct (Z.ltb_spec (cls_width cls) 1); [lia|].
    apply ws_loop_glyphs; auto.
  Qed.

  (* ---------- the reader: a run is a chain of glyph tokens of the cell-level parser ---------- *)
  Definition glyph3 := (list Z * Z * bool)%type.     (* text, rune, valid *)
  Definition gtxt (g : glyph3) : list Z := fst (fst g).
  Definition grune (g : glyph3) : Z := snd (fst g).
  Definition gval (g : glyph3) : bool := snd g.
  Definition gbytes (gl : list glyph3) : list Z := flat_map gtxt gl.
  Definition gcluster (g : glyph3) : list Z * Z := (gtxt g, cluster_width wc (grune g)).
  Definition gtok (g : glyph3) : tok := TGlyph (gtxt g) (grune g) (wc (grune g)).

  Inductive chain : list glyph3 -> list Z -> Prop :=
  | ch_nil rest : chain [] rest
  | ch_cons c r v gl rest :
      parse_one wc false (c ++ gbytes gl ++ rest) = PTok (TGlyph c r (wc r)) (gbytes gl ++ rest) ->
      decode_rune (c ++ gbytes gl ++ rest) = Some (r, zlen c, v) -> 1 <= zlen c ->
      chain gl rest -> chain ((c, r, v) :: gl) rest.

  Lemma rr_loop_spec : forall fuel buf idx used maxw, (length buf <= fuel)%nat ->
    exists gl rest, buf = gbytes gl ++ rest /\ chain gl rest /\
      rr_loop wc fuel buf idx used maxw = (idx + zlen (gbytes gl), used + cls_width (map gcluster gl)) /\
      (used = 0 -> gl = [] -> forall b tl, buf = b :: tl -> is_printable b = true -> parse_one wc false buf = PMore).
  Proof.
    induction fuel as [|f IH]; intros buf idx used maxw Hf.
    { destruct buf; [|cbn in Hf; lia]. exists [], []. split; [reflexivity|]. split; [constructor|].
      split; [cbn; f_equal; lia|]. intros _ _ b tl E; discriminate. }
    cbn [rr_loop]. destruct buf as [|b tl].
    { exists [], []. split; [reflexivity|]. split; [constructor|]. split; [cbn; f_equal; lia|]. intros _ _ b tl E; discriminate. }
    destruct (is_printable b) eqn:Ep; cbn [negb].
    2:{ exists [], (b :: tl). split; [reflexivity|]. split; [constructor|]. split; [cbn; f_equal; lia|].
        intros _ _ b' tl' E Hp. injection E as <- <-. congruence. }
    unfold step_cluster. destruct (decode_rune (b :: tl)) as [[[r size] v]|] eqn:Ed.
    2:{ exists [], (b :: tl). split; [reflexivity|]. split; [constructor|]. split; [cbn; f_equal; lia|].
        intros _ _ b' tl' E Hp. unfold parse_one. rewrite Ep, Ed. reflexivity. }
    pose proof (decode_size _ _ _ _ Ed) as Hsz.
    destruct ((0 <? maxw) && (maxw <? used + cluster_width wc r) && (0 <? used)) eqn:El.
    { exists [], (b :: tl). split; [reflexivity|]. split; [constructor|]. split; [cbn; f_equal; lia|].
      intros Hu. apply andb_prop in El as [_ El]. apply Z.ltb_lt in El. lia. }
    assert (Hlen : (length (zskipn size (b :: tl)) <= f)%nat).
    { pose proof (zlen_zskipn size (b :: tl)) as L. unfold zlen in *. cbn [length] in *. lia. }
    destruct (IH (zskipn size (b :: tl)) (idx + size) (used + cluster_width wc r) maxw Hlen) as (gl & rest & E & Hch & Err & _).
    set (c := zfirstn size (b :: tl)).
    assert (Lc : zlen c = size) by (subst c; rewrite zlen_zfirstn; lia).
    assert (Eb : b :: tl = c ++ gbytes gl ++ rest) by (rewrite <- E; subst c; symmetry; apply zfirstn_zskipn).
    exists ((c, r, v) :: gl), rest. split; [cbn [gbytes flat_map gtxt fst]; fold (gbytes gl); rewrite <- app_assoc; exact Eb|]. split.
    - constructor; [|rewrite <- Eb, Lc; exact Ed|lia|exact Hch].
      rewrite <- Eb. unfold parse_one. rewrite Ep, Ed. cbn [andb negb]. rewrite andb_false_r. fold c. rewrite E. reflexivity.
    - split; [|intros _ Hnil; discriminate].
      rewrite Err. cbn [gbytes flat_map map cls_width gcluster gtxt grune fst snd]. rewrite zlen_app, Lc.
      fold (gbytes gl). f_equal; lia.
  Qed.

  Lemma decode_prefix buf r size : decode_rune buf = Some (r, size, true) ->
    decode_rune (zfirstn size buf) = Some (r, size, true).
  Proof.
    unfold decode_rune at 1. destruct buf as [|b0 r0]; [discriminate|].
    destruct (utf8_first b0) as [[sz lo] hi] eqn:Eu.
    destruct (sz =? 1) eqn:E1.
    { intros H; injection H as <- <-. change (zfirstn 1 (b0 :: r0)) with [b0]. unfold decode_rune. rewrite Eu, E1. reflexivity. }
    destruct (sz =? 0) eqn:E0; [discriminate|].
    destruct r0 as [|b1 r1]; [discriminate|].
    destruct ((b1 <? lo) || (hi <? b1)) eqn:C1; [discriminate|].
    destruct (sz =? 2) eqn:E2.
    { intros H; injection H as <- <-. change (zfirstn 2 (b0 :: b1 :: r1)) with [b0; b1]. unfold decode_rune. rewrite Eu, E1, E0, C1, E2. reflexivity. }
    destruct r1 as [|b2 r2]; [discriminate|].
    destruct ((b2 <? 128) || (191 <? b2)) eqn:C2; [discriminate|].
    destruct (sz =? 3) eqn:E3.
    { intros H; injection H as <- <-. change (zfirstn 3 (b0 :: b1 :: b2 :: r2)) with [b0; b1; b2]. unfold decode_rune. rewrite Eu, E1, E0, C1, E2, C2, E3. reflexivity. }
    destruct r2 as [|b3 r3]; [discriminate|].
    destruct ((b3 <? 128) || (191 <? b3)) eqn:C3; [discriminate|].
    intros H; injection H as <- <-. change (zfirstn 4 (b0 :: b1 :: b2 :: b3 :: r3)) with [b0; b1; b2; b3].
    unfold decode_rune. rewrite Eu, E1, E0, C1, E2, C2, E3, C3. reflexivity.
  Qed.

  (* a chain of valid glyphs is a list of good clusters *)
  Lemma chain_good gl rest : chain gl rest -> Forall (fun g => gval g = true) gl -> Forall gcl (map gcluster gl).
  Proof.
    induction 1 as [|c r v gl rest Hp Hd Hl Hch IH]; intros Hv; [constructor|].
    inversion Hv as [|? ? V1 V2]; subst. cbn [gval snd] in V1. subst v. cbn [map]. constructor; [|apply IH, V2].
    exists r. cbn [gcluster gtxt grune fst snd]. split; [|reflexivity].
    pose proof (decode_prefix _ _ _ Hd) as P. rewrite zfirstn_app_len in P. exact P.
  Qed.
  Lemma bytes_gcluster gl : bytes (map gcluster gl) = gbytes gl.
  Proof. induction gl as [|g gl IH]; [reflexivity|]. cbn [map]. unfold bytes, gbytes in *. cbn [flat_map gcluster fst]. rewrite IH. reflexivity. Qed.
End WithOracle.
