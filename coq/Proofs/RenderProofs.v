(* C11, row part: ANSILine as a cell-level function; stripping its escapes
   gives Line(y); feeding it to a terminal rewrites the row, cell for cell. *)
From Coq Require Import List ZArith Bool Lia.
From Termemu Require Import Base Style Screen Kbd Parser Term Render BaseLemmas ScreenInv TermInv ParserProofs HistProofs
  SgrSpec StyleProofs SgrProofs StampProofs EscapeProofs.
Import ListNotations.
Open Scope Z_scope.

(* ---------- strip_sgr ---------- *)
Lemma strip_in_esc l : forall rest, Forall (fun b => b <> 109) l ->
  strip_aux true (l ++ 109 :: rest) = strip_aux false rest.
Proof.
  induction l as [|b l IH]; intros rest H; cbn [app strip_aux]; [reflexivity|].
  inversion H; subst. destruct (Z.eqb_spec b 109); [contradiction|]. apply IH. assumption.
Qed.

Lemma params_body_no_m ps : Forall (fun p => 0 <= p) ps -> Forall (fun b => b <> 109) (params_body ps).
Proof.
  induction ps as [|p r IH]; intros H; cbn [params_body]; [constructor|]. inversion H; subst.
  assert (D : Forall (fun b => b <> 109) (itoa p)).
  { eapply Forall_impl; [|apply itoa_digits; assumption]. unfold digit. intros; lia. }
  destruct r; [exact D|]. apply Forall_app. split; [exact D|]. constructor; [lia|]. apply IH. assumption.
Qed.

Lemma strip_sgr_bytes ps rest : Forall (fun p => 0 <= p) ps ->
  strip_aux false (sgr_bytes ps ++ rest) = strip_aux false rest.
Proof.
  intros H. unfold sgr_bytes. cbn [app strip_aux]. cbn [Z.eqb Pos.eqb].
  rewrite <- app_assoc. cbn [app]. apply strip_in_esc, params_body_no_m, H.
Qed.

Lemma strip_sgr_seqs pss rest : Forall params_ok pss ->
  strip_aux false (flat_map sgr_bytes pss ++ rest) = strip_aux false rest.
Proof.
  induction pss as [|ps pss IH]; intros H; [reflexivity|]. inversion H as [|? ? (_ & _ & Hp) Hr]; subst.
  cbn [flat_map]. rewrite <- app_assoc. rewrite strip_sgr_bytes; [apply IH, Hr|].
  eapply Forall_impl; [|exact Hp]. cbn. intros; lia.
Qed.

Theorem strip_ansi_escape s rest : wf_style s -> strip_aux false (ansi_escape s ++ rest) = strip_aux false rest.
Proof. intros H. rewrite ansi_escape_params by exact H. apply strip_sgr_seqs, escape_params_ok, H. Qed.

Lemma strip_text txt : forall rest, ~ In 27 txt -> strip_aux false (txt ++ rest) = txt ++ strip_aux false rest.
Proof.
  induction txt as [|b l IH]; intros rest H; [reflexivity|]. cbn [app strip_aux].
  destruct (Z.eqb_spec b 27); [exfalso; apply H; left; auto|]. f_equal. apply IH. intros X. apply H. right. exact X.
Qed.

Definition strippable (c : cell) : Prop := wf_style (cst c) /\ ~ In 27 (ctext c).

(* ANSILine(y) without its escape sequences is Line(y) *)
Theorem strip_render row : forall prev, Forall strippable row ->
  strip_sgr (render_from prev row) = line_text row.
Proof.
  unfold strip_sgr. induction row as [|c r IH]; intros prev H; [reflexivity|].
  inversion H as [|? ? (Hw & Ht) Hr]; subst. cbn [render_from line_text flat_map].
  assert (E : forall pre, pre = [] \/ pre = ansi_escape (cst c) ->
            strip_aux false (pre ++ ctext c ++ render_from (Some (cst c)) r) = ctext c ++ flat_map ctext r).
  { intros pre [->| ->]; [cbn [app]|rewrite strip_ansi_escape by exact Hw];
      rewrite strip_text by exact Ht; f_equal; apply IH, Hr. }
  apply E. destruct prev as [p|]; [destruct (style_eqb p (cst c))|]; auto.
Qed.

Theorem strip_render_line row : Forall strippable row -> strip_sgr (render_line_ansi row) = line_text row.
Proof. apply strip_render. Qed.

(* ---------- runs: render_line_ansi is "for each maximal run ..." ---------- *)
Lemma style_eqb_refl s : style_eqb s s = true.
Proof. apply style_eqb_eq. reflexivity. Qed.

Lemma render_runs_from row : forall st cs,
  render_runs (runs_from (Some (st, cs)) row) = ansi_escape st ++ flat_map ctext cs ++ render_from (Some st) row.
Proof.
  induction row as [|c r IH]; intros st cs; cbn [runs_from render_from].
  - unfold render_runs. cbn [flat_map fst snd]. rewrite !app_nil_r. reflexivity.
  - destruct (style_eqb st (cst c)) eqn:E.
    + rewrite IH. apply style_eqb_eq in E. rewrite <- E. rewrite flat_map_app. cbn [flat_map app].
      rewrite app_nil_r. rewrite <- !app_assoc. reflexivity.
    + unfold render_runs. cbn [flat_map fst snd]. fold (render_runs (runs_from (Some (cst c, [c])) r)).
      rewrite IH. cbn [flat_map]. rewrite app_nil_r. rewrite <- !app_assoc. reflexivity.
Qed.

Theorem render_is_runs row : render_line_ansi row = render_runs (runs row).
Proof.
  unfold render_line_ansi, runs. destruct row as [|c r]; [reflexivity|].
  cbn [render_from runs_from]. rewrite render_runs_from. cbn [flat_map]. rewrite app_nil_r. reflexivity.
Qed.

(* consecutive runs have different styles and no run is empty: the runs are maximal *)
Lemma runs_from_maximal row : forall st cs, cs <> [] ->
  Forall (fun run => snd run <> []) (runs_from (Some (st, cs)) row) /\
  (forall st' cs' more, runs_from (Some (st, cs)) row = (st', cs') :: more ->
     match more with (st2, _) :: _ => style_eqb st' st2 = false | [] => True end).
Proof.
  induction row as [|c r IH]; intros st cs Hne; cbn [runs_from].
  - split; [constructor; [exact Hne|constructor]|]. intros st' cs' more E. inversion E; subst. exact I.
  - destruct (style_eqb st (cst c)) eqn:E.
    + apply IH. destruct cs; discriminate.
    + destruct (IH (cst c) [c] ltac:(discriminate)) as (F & N). split; [constructor; assumption|].
      intros st' cs' more X. inversion X; subst. clear X.
      destruct (runs_from (Some (cst c, [c])) r) as [|[st2 cs2] more'] eqn:R; [exact I|].
      (* the head run of the rest starts with style (cst c) *)
      assert (H2 : st2 = cst c).
      { clear -R. revert R. generalize [c] as acc. induction r as [|d r IHr]; intros acc R; cbn [runs_from] in R.
        - inversion R; reflexivity.
        - destruct (style_eqb (cst c) (cst d)); [eapply IHr, R|inversion R; reflexivity]. }
      subst st2. exact E.
Qed.

(* ---------- glyph texts ---------- *)
Definition glyph_text (txt : list Z) (r : Z) : Prop :=
  decode_rune txt = Some (r, zlen txt, true) /\ exists b l, txt = b :: l /\ is_printable b = true.

Lemma zfirstn_app_exact {A} (a b : list A) : zfirstn (zlen a) (a ++ b) = a.
Proof.
  unfold zfirstn, zlen. rewrite Nat2Z.id. rewrite firstn_app, Nat.sub_diag, firstn_all. cbn [firstn]. apply app_nil_r.
Qed.
Lemma zskipn_app_exact {A} (a b : list A) : zskipn (zlen a) (a ++ b) = b.
Proof.
  unfold zskipn, zlen. rewrite Nat2Z.id. rewrite skipn_app, Nat.sub_diag, skipn_all. reflexivity.
Qed.

Lemma skipn_skipn_ {A} (l : list A) a : forall b, skipn a (skipn b l) = skipn (b + a) l.
Proof.
  intros b. revert l. induction b as [|b IH]; intros l; [reflexivity|].
  destruct l as [|x l]; [cbn [skipn Nat.add]; destruct a; reflexivity|]. cbn [skipn Nat.add]. apply IH.
Qed.

Lemma decode_rune_app txt r more : decode_rune txt = Some (r, zlen txt, true) ->
  decode_rune (txt ++ more) = Some (r, zlen txt, true).
Proof.
  intros H.
  destruct txt as [|b0 [|b1 [|b2 [|b3 [|b4 l]]]]]; unfold decode_rune in *; cbn [app];
    try discriminate; destruct (utf8_first b0) as [[sz lo] hi];
    repeat match type of H with context [if ?c then _ else _] => destruct c eqn:? end;
    try discriminate; try exact H;
    try (inversion H; subst; unfold zlen in *; cbn [length] in *; lia).
Qed.

Section Row.
  Variable wc : Z -> Z.
  Variable grid : bool.

  Lemma parse_glyph txt r more : glyph_text txt r ->
    parse_one wc grid (txt ++ more) = PTok (TGlyph txt r (wc r)) more.
  Proof.
    intros (Hd & b & l & E & Hp). pose proof (decode_rune_app txt r more Hd) as D.
    unfold parse_one. rewrite E in *. cbn [app]. rewrite Hp. cbn [app] in D. rewrite D.
    cbn [negb andb]. rewrite <- E.
    change (b :: l ++ more) with ((b :: l) ++ more). rewrite <- E.
    rewrite zfirstn_app_exact, zskipn_app_exact. reflexivity.
  Qed.

  (* a row as the model builds it: glyph after glyph, each a head cell and its
     continuation cells in one style; text one valid UTF-8 rune whose width the
     oracle confirms; styles that fit the packed struct *)
  Inductive renderable : list cell -> Prop :=
  | R_nil : renderable []
  | R_glyph txt r st rest :
      glyph_text txt r -> wf_style st -> renderable rest ->
      renderable (glyph_cells txt (glyph_width (wc r)) st ++ rest).

  Lemma glyph_width_pos w : 1 <= glyph_width w.
  Proof. unfold glyph_width. destruct (Z.leb_spec w 0); lia. Qed.

  Lemma render_glyph_cells prev txt w st rest :
    render_from prev (glyph_cells txt w st ++ rest) =
    (if match prev with Some p => style_eqb p st | None => false end then [] else ansi_escape st)
      ++ txt ++ render_from (Some st) rest.
  Proof.
    unfold glyph_cells. cbn [app render_from cst ctext]. f_equal. f_equal.
    unfold zrepeat. induction (Z.to_nat (w - 1)) as [|n IH]; [reflexivity|].
    cbn [repeat app render_from contc cst ctext]. rewrite style_eqb_refl. cbn [app]. exact IH.
  Qed.

  (* ---------- one glyph onto cells that hold no wide glyph ---------- *)
  Lemma move_cursor_stay dx s : Inv s -> awrap s = false ->
    let s' := move_cursor dx 0 true true s in
    rows s' = rows s /\ cx s' = clamp (cx s + dx) 0 (sW s - 1) /\ cy s' = cy s /\
    sty s' = sty s /\ awrap s' = false.
  Proof.
    intros I A. unfold move_cursor. rewrite A. cbn [andb]. cbv beta iota zeta.
    pose proof (inv_cy s I) as Cy. pose proof (inv_top s I). pose proof (inv_bot s I).
    destruct ((top s <=? cy s) && (cy s <=? bot s)) eqn:R.
    - apply andb_true_iff in R. destruct R as (R1 & R2). apply Z.leb_le in R1, R2.
      destruct (Z.ltb_spec (cy s + 0) (top s)); [lia|]. destruct (Z.ltb_spec (bot s) (cy s + 0)); [lia|].
      cbn [emit set_evs set_cur rows cx cy sty awrap]. rewrite (clamp_id (cy s + 0)) by lia. repeat split; try assumption; lia.
    - cbn [emit set_evs set_cur rows cx cy sty awrap]. rewrite (clamp_id (cy s + 0)) by lia. repeat split; try assumption; lia.
  Qed.

  Definition noncont (c : cell) : Prop := is_cont c = false.

  Lemma cont_prefix_noncont l : Forall noncont l -> cont_prefix l = O.
  Proof. intros H. destruct l as [|c l]; [reflexivity|]. inversion H as [|? ? Hc _]; subst. cbn [cont_prefix]. rewrite Hc. reflexivity. Qed.

  Lemma write_glyph_plain txt w s done tail :
    Inv s -> awrap s = false -> 1 <= w ->
    row_at s (cy s) = done ++ tail -> cx s = zlen done -> w <= zlen tail -> Forall noncont tail ->
    let s' := write_glyph txt w s in
    Inv s' /\ sW s' = sW s /\ sH s' = sH s /\ awrap s' = false /\ sty s' = sty s /\ cy s' = cy s /\
    cx s' = Z.min (zlen done + w) (sW s - 1) /\
    row_at s' (cy s) = (done ++ glyph_cells txt w (sty s)) ++ zskipn w tail /\
    (forall y', y' <> cy s -> row_at s' y' = row_at s y').
  Proof.
    intros I A Hw Hrow Hcx Hlen Hnc s'.
    pose proof (Pres_write_glyph txt w s I) as (I' & W' & H'). fold s' in I', W', H'.
    pose proof (inv_cy s I) as Cy. pose proof (inv_cx s I) as Cx. pose proof (inv_rows s I) as Rl.
    pose proof (row_at_len s (cy s) I Cy) as RL. rewrite Hrow, zlen_app in RL.
    pose proof (zlen_nonneg done).
    assert (X : cx s + w <= sW s) by lia.
    assert (GL : zlen (glyph_cells txt w (sty s)) = w) by (apply glyph_cells_len; lia).
    destruct (write_row_cells_ok crText (cx s) (cy s) (glyph_cells txt w (sty s)) s I Cy ltac:(lia) ltac:(lia))
      as (I2 & W2 & Hh2).
    destruct (write_row_cells_row crText (cx s) (cy s) (glyph_cells txt w (sty s)) s ltac:(lia) Cy Rl ltac:(lia) ltac:(lia))
      as (Ry & Ro).
    set (s2 := write_row_cells crText (cx s) (cy s) (glyph_cells txt w (sty s)) s) in *.
    assert (WG : s' = move_cursor w 0 true true s2).
    { subst s'. unfold write_glyph. cbv zeta. rewrite (inv_crash s I). cbn [Z.eqb negb].
      assert (E1 : (w <? 1) = false) by (apply Z.ltb_ge; lia).
      assert (E2 : (sW s <? w) = false) by (apply Z.ltb_ge; lia).
      assert (E3 : (sW s <? cx s + w) = false) by (apply Z.ltb_ge; lia).
      rewrite E1. cbv iota. repeat (rewrite E2; cbv iota). repeat (rewrite E3; cbv iota).
      fold s2. rewrite (inv_crash s2 I2). reflexivity. }
    clearbody s'. subst s'.
    assert (A2 : awrap s2 = false).
    { subst s2. unfold write_row_cells. destruct (_ <=? 0); [exact A|]. destruct (_ || _); [exact A|].
      destruct (is_cont _); exact A. }
    assert (C2 : cx s2 = cx s /\ cy s2 = cy s).
    { subst s2. unfold write_row_cells. destruct (_ <=? 0); [auto|]. destruct (_ || _); [auto|].
      destruct (is_cont _); auto. }
    destruct C2 as (Cx2 & Cy2).
    pose proof (write_row_cells_sty crText (cx s) (cy s) (glyph_cells txt w (sty s)) s) as S2. fold s2 in S2.
    destruct (move_cursor_stay w s2 I2 A2) as (M1 & M2 & M3 & M4 & M5).
    split; [exact I'|]. split; [exact W'|]. split; [exact H'|]. split; [exact M5|].
    split; [congruence|]. split; [congruence|]. split.
    { rewrite M2, Cx2, W2, Hcx. rewrite clamp_spec by lia. lia. }
    assert (RA : forall y', row_at (move_cursor w 0 true true s2) y' = row_at s2 y') by (intros; unfold row_at; rewrite M1; reflexivity).
    split; [|intros y' N; rewrite RA; apply Ro, N].
    rewrite RA, Ry, Hrow. unfold overwrite. rewrite GL.
    destruct (Z.eqb_spec w 0); [lia|].
    assert (Hd : znth (cx s) (done ++ tail) dcell = znth 0 tail dcell).
    { rewrite znth_app_r by lia. f_equal. lia. }
    assert (T0 : noncont (znth 0 tail dcell)) by (apply Forall_znth; [exact Hnc|lia]).
    unfold left_edge. rewrite Hd, T0.
    assert (CR : cont_run (done ++ tail) (cx s + w) = 0).
    { unfold cont_run. rewrite Hcx.
      assert (E : zskipn (zlen done + w) (done ++ tail) = zskipn w tail).
      { unfold zskipn, zlen. rewrite skipn_app. rewrite skipn_all2 by lia. cbn [app]. f_equal. lia. }
      rewrite E. rewrite cont_prefix_noncont; [reflexivity|apply Forall_zskipn, Hnc]. }
    rewrite CR, Z.sub_diag, Z.add_0_r. change (zrepeat (blank (sty s)) 0) with (@nil cell). cbn [app].
    rewrite Hcx, zfirstn_app_exact.
    assert (E : zskipn (zlen done + w) (done ++ tail) = zskipn w tail).
    { unfold zskipn, zlen. rewrite skipn_app. rewrite skipn_all2 by lia. cbn [app]. f_equal. lia. }
    rewrite E, <- app_assoc. reflexivity.
  Qed.

  (* ---------- the terminal around it ---------- *)
  Lemma active_on_screen f t :
    active (on_screen f t) = set_evs [] (f (set_evs [] (active t))) /\ onalt (on_screen f t) = onalt t.
  Proof. destruct t as [m a o vf vi vs km ka out lg]. destruct o; split; reflexivity. Qed.

  Lemma TInv_active t : TInv t -> Inv (active t).
  Proof. intros [Hm Ha _ _]. unfold active. destruct (onalt t); assumption. Qed.

  (* the row being rebuilt: [done] is in place, the cursor is behind it, the
     cells still to be written hold no wide glyph, autowrap is off *)
  Record row_state (t : term) (y : Z) (done tail : list cell) : Prop := mkRS {
    rs_inv : TInv t;
    rs_awrap : awrap (active t) = false;
    rs_cy : cy (active t) = y;
    rs_row : row_at (active t) y = done ++ tail;
    rs_tail : Forall noncont tail;
    rs_cx : cx (active t) = Z.min (zlen done) (sW (active t) - 1)
  }.

  Definition prev_ok (prev : option style) (t : term) : Prop :=
    match prev with Some p => sty (active t) = p | None => True end.

  Lemma row_state_sgr pss t y done tail : row_state t y done tail -> row_state (sgr_run pss t) y done tail.
  Proof.
    intros [Ht A Cy R T Cx].
    assert (Ht' : TInv (sgr_run pss t)).
    { clear -Ht. revert t Ht. induction pss as [|ps pss IH]; intros t Ht; [exact Ht|].
      cbn [sgr_run fold_left]. apply IH. apply TInv_exec_csi_plain, Ht. }
    pose proof (sgr_run_same pss t) as S. unfold same_but_style in S. cbv zeta in S.
    destruct S as (S1 & S2 & S3 & S4 & S5 & _ & _ & _ & _ & S10 & _).
    constructor; try assumption; try congruence.
    - unfold row_at in *. rewrite S1. exact R.
  Qed.

  Lemma glyph_step t y done tail txt r :
    row_state t y done tail -> glyph_text txt r ->
    glyph_width (wc r) <= zlen tail ->
    let w := glyph_width (wc r) in
    let t' := exec_tok (TGlyph txt r (wc r)) t in
    row_state t' y (done ++ glyph_cells txt w (sty (active t))) (zskipn w tail) /\
    sty (active t') = sty (active t) /\ (sW (active t') = sW (active t) /\ sH (active t') = sH (active t)) /\ onalt t' = onalt t /\
    (forall y', y' <> y -> row_at (active t') y' = row_at (active t) y').
  Proof.
    intros [Ht A Cy R T Cx] G Hw w t'.
    assert (Ht' : TInv t') by (apply TInv_exec_tok, Ht).
    subst t'. cbn [exec_tok] in *.
    set (f := fun s => write_glyph txt (glyph_width (wc r)) (if (r =? runeError) && negb (list_eqb Z.eqb txt utf8_replacement) then add_trig trInvalidUtf8 s else s)) in *.
    destruct (active_on_screen f t) as (EA & EO).
    set (s0 := set_evs [] (active t)).
    pose proof (TInv_active t Ht) as Ia.
    assert (I0 : Inv s0) by (apply Inv_set_evs, Ia).
    set (s1 := if (r =? runeError) && negb (list_eqb Z.eqb txt utf8_replacement) then add_trig trInvalidUtf8 s0 else s0).
    assert (P1 : Inv s1 /\ rows s1 = rows (active t) /\ awrap s1 = awrap (active t) /\ cx s1 = cx (active t) /\
                 cy s1 = cy (active t) /\ sty s1 = sty (active t) /\ sW s1 = sW (active t) /\ sH s1 = sH (active t)).
    { subst s1. destruct (_ && _); [split; [apply Inv_add_trig, I0|repeat split]|split; [exact I0|repeat split]]. }
    destruct P1 as (I1 & R1 & A1 & X1 & Y1 & S1 & W1 & Hh1).
    pose proof (glyph_width_pos (wc r)) as Wp. fold w in Wp, Hw.
    pose proof (row_at_len _ _ Ia (inv_cy _ Ia)) as RL. rewrite Cy, R, zlen_app in RL.
    pose proof (zlen_nonneg done).
    assert (Cx' : cx s1 = zlen done) by (rewrite X1, Cx; lia).
    assert (Row1 : row_at s1 (cy s1) = done ++ tail) by (unfold row_at in *; rewrite R1, Y1, Cy; exact R).
    destruct (write_glyph_plain txt w s1 done tail I1 ltac:(congruence) Wp Row1 Cx' Hw T)
      as (I2 & W2 & H2 & A2 & S2 & Y2 & X2 & Rw & Ro).
    set (s2 := write_glyph txt w s1) in *.
    assert (EA' : active (on_screen f t) = set_evs [] s2) by exact EA.
    split; [|split; [|split; [|split]]].
    - constructor; rewrite ?EA'.
      + exact Ht'.
      + exact A2.
      + change (cy s2 = y). congruence.
      + unfold row_at in *. change (rows (set_evs [] s2)) with (rows s2). rewrite Y1, Cy in Rw. rewrite Rw, S1. reflexivity.
      + apply Forall_zskipn, T.
      + change (cx s2 = Z.min (zlen (done ++ glyph_cells txt w (sty (active t)))) (sW s2 - 1)).
        rewrite X2, W2, zlen_app, glyph_cells_len by lia. reflexivity.
    - rewrite EA'. change (sty s2 = sty (active t)). congruence.
    - rewrite EA'. split; [change (sW s2 = sW (active t))|change (sH s2 = sH (active t))]; congruence.
    - exact EO.
    - intros y' N. rewrite EA'. unfold row_at in *. change (rows (set_evs [] s2)) with (rows s2).
      rewrite Ro by congruence. rewrite R1. reflexivity.
  Qed.

  Lemma renderable_len_pos txt r st rest : 1 <= zlen (glyph_cells txt (glyph_width (wc r)) st ++ rest).
  Proof.
    rewrite zlen_app, glyph_cells_len by apply glyph_width_pos.
    pose proof (glyph_width_pos (wc r)). pose proof (zlen_nonneg rest). lia.
  Qed.

  (* the induction along the row *)
  Theorem feed_cells_more todo : renderable todo -> forall t y done tail prev,
    row_state t y done tail -> prev_ok prev t -> zlen todo <= zlen tail ->
    exists t', (forall more, run_bytes wc grid t (render_from prev todo ++ more) = run_bytes wc grid t' more) /\
    row_state t' y (done ++ todo) (zskipn (zlen todo) tail) /\
    onalt t' = onalt t /\ (sW (active t') = sW (active t) /\ sH (active t') = sH (active t)) /\
    (forall y', y' <> y -> row_at (active t') y' = row_at (active t) y').
  Proof.
    induction 1 as [|txt r st rest G Hst Hrest IH]; intros t y done tail prev RS PO Hlen.
    - exists t. cbn [render_from app]. rewrite app_nil_r.
      change (zskipn (zlen (@nil cell)) tail) with tail. split; [reflexivity|]. split; [exact RS|]. repeat split; reflexivity.
    - set (w := glyph_width (wc r)) in *.
      pose proof (glyph_width_pos (wc r)) as Wp. fold w in Wp.
      rewrite zlen_app, glyph_cells_len in Hlen by lia. pose proof (zlen_nonneg rest).
      (* after the escape, if any: the style is st *)
      assert (E : exists t1, (forall after, run_bytes wc grid t
                    ((if match prev with Some p => style_eqb p st | None => false end then [] else ansi_escape st)
                       ++ txt ++ after)
                  = run_bytes wc grid t1 (txt ++ after)) /\
                  row_state t1 y done tail /\ sty (active t1) = st /\ onalt t1 = onalt t /\
                  (sW (active t1) = sW (active t) /\ sH (active t1) = sH (active t)) /\
                  (forall y', row_at (active t1) y' = row_at (active t) y')).
      { assert (Esc : exists t1, (forall after, run_bytes wc grid t (ansi_escape st ++ txt ++ after)
                    = run_bytes wc grid t1 (txt ++ after)) /\
                    row_state t1 y done tail /\ sty (active t1) = st /\ onalt t1 = onalt t /\
                    (sW (active t1) = sW (active t) /\ sH (active t1) = sH (active t)) /\
                    (forall y', row_at (active t1) y' = row_at (active t) y')).
        { exists (sgr_run (escape_params st) t). split; [intros after; apply run_ansi_escape; [apply RS|exact Hst]|].
          split; [apply row_state_sgr, RS|].
          destruct (escape_run_facts st t Hst) as (F1 & F2 & _). split; [exact F1|].
          unfold same_but_style in F2. cbv zeta in F2. destruct F2 as (F3 & F4 & F4h & _ & _ & _ & _ & _ & _ & _ & _ & _ & _ & F5 & _).
          split; [exact F5|]. split; [split; [exact F4|exact F4h]|]. intros y'. unfold row_at. rewrite F3. reflexivity. }
        destruct prev as [p|]; [|exact Esc].
        destruct (style_eqb p st) eqn:Ep; [|exact Esc].
        apply style_eqb_eq in Ep. subst p. exists t. cbn [app]. split; [reflexivity|]. split; [exact RS|]. split; [exact PO|]. repeat split; reflexivity. }
      destruct E as (t1 & E1 & RS1 & S1 & O1 & W1 & Rows1).
      destruct (glyph_step t1 y done tail txt r RS1 G ltac:(fold w; lia)) as (RS2 & S2 & W2 & O2 & Rows2).
      fold w in RS2. rewrite S1 in RS2, S2.
      set (t2 := exec_tok (TGlyph txt r (wc r)) t1) in *.
      assert (L2 : zlen rest <= zlen (zskipn w tail)) by (rewrite zlen_zskipn; lia).
      destruct (IH t2 y (done ++ glyph_cells txt w st) (zskipn w tail) (Some st) RS2 S2 L2)
        as (t3 & R1 & R2 & R3 & R4 & R5).
      exists t3. split.
      { intros more. rewrite render_glyph_cells. rewrite <- !app_assoc. rewrite E1.
        rewrite (run_bytes_step wc grid t1 _ _ _ (TInv_not_crashed t1 (rs_inv _ _ _ _ RS1)) (parse_glyph txt r _ G)).
        apply R1. }
      split.
      { rewrite <- app_assoc in R2.
        assert (Z : zskipn (zlen rest) (zskipn w tail) = zskipn (zlen (glyph_cells txt w st ++ rest)) tail).
        { rewrite zlen_app, glyph_cells_len by lia. unfold zskipn. rewrite skipn_skipn_. f_equal. lia. }
        rewrite <- Z. exact R2. }
      split; [congruence|]. split; [destruct R4, W2, W1; split; congruence|].
      intros y' N. rewrite R5 by exact N. rewrite Rows2 by exact N. apply Rows1.
  Qed.

  Theorem feed_cells todo : renderable todo -> forall t y done tail prev,
    row_state t y done tail -> prev_ok prev t -> zlen todo <= zlen tail ->
    let res := run_bytes wc grid t (render_from prev todo) in
    snd res = [] /\ row_state (fst res) y (done ++ todo) (zskipn (zlen todo) tail) /\
    onalt (fst res) = onalt t /\ (sW (active (fst res)) = sW (active t) /\ sH (active (fst res)) = sH (active t)) /\
    (forall y', y' <> y -> row_at (active (fst res)) y' = row_at (active t) y').
  Proof.
    intros Hr t y done tail prev RS PO Hlen res.
    destruct (feed_cells_more todo Hr t y done tail prev RS PO Hlen) as (t' & E & R).
    subst res. specialize (E []). rewrite app_nil_r in E. rewrite E, run_bytes_nil. cbn [fst snd]. split; [reflexivity|exact R].
  Qed.

  (* the same with bytes following: the row's bytes are consumed as a unit *)
  Theorem row_rt_more row t y more :
    TInv t -> awrap (active t) = false -> cy (active t) = y -> cx (active t) = 0 ->
    Forall noncont (row_at (active t) y) -> zlen row = sW (active t) -> renderable row ->
    run_bytes wc grid t (render_line_ansi row ++ more) =
    run_bytes wc grid (fst (run_bytes wc grid t (render_line_ansi row))) more.
  Proof.
    intros Ht A Cy Cx Hnc Hlen Hr.
    pose proof (TInv_active t Ht) as Ia. pose proof (inv_w _ Ia) as Wp.
    pose proof (row_at_len _ _ Ia (inv_cy _ Ia)) as RL. rewrite Cy in RL.
    assert (RS : row_state t y [] (row_at (active t) y)).
    { constructor; try assumption; [reflexivity|]. rewrite Cx. change (zlen (@nil cell)) with 0. lia. }
    destruct (feed_cells_more row Hr t y [] (row_at (active t) y) None RS I ltac:(lia)) as (t1 & E & _).
    fold (render_line_ansi row) in E. rewrite E. specialize (E []). rewrite app_nil_r in E. rewrite E, run_bytes_nil. reflexivity.
  Qed.

  (* Feeding ANSILine of a row into a terminal whose cursor is at column 0 of a
     row y that holds no wide glyph (for instance a blank row of a fresh
     terminal), autowrap off, width equal to the row's: row y becomes exactly
     that row, cell for cell (text, width, style); no other row changes; all
     bytes are consumed. *)
  Theorem row_rt row t y :
    TInv t -> awrap (active t) = false -> cy (active t) = y -> cx (active t) = 0 ->
    Forall noncont (row_at (active t) y) -> zlen row = sW (active t) -> renderable row ->
    let res := run_bytes wc grid t (render_line_ansi row) in
    snd res = [] /\ row_at (active (fst res)) y = row /\ TInv (fst res) /\
    onalt (fst res) = onalt t /\
    (forall y', y' <> y -> row_at (active (fst res)) y' = row_at (active t) y') /\
    cy (active (fst res)) = y /\ cx (active (fst res)) = sW (active t) - 1 /\
    awrap (active (fst res)) = false /\ sW (active (fst res)) = sW (active t) /\ sH (active (fst res)) = sH (active t).
  Proof.
    intros Ht A Cy Cx Hnc Hlen Hr res.
    pose proof (TInv_active t Ht) as Ia. pose proof (inv_w _ Ia) as Wp.
    pose proof (row_at_len _ _ Ia (inv_cy _ Ia)) as RL. rewrite Cy in RL.
    assert (RS : row_state t y [] (row_at (active t) y)).
    { constructor; try assumption; [reflexivity|]. rewrite Cx. change (zlen (@nil cell)) with 0. lia. }
    destruct (feed_cells row Hr t y [] (row_at (active t) y) None RS I ltac:(lia)) as (R1 & R2 & R3 & R4 & R5).
    fold (render_line_ansi row) in R1, R2, R3, R4, R5. fold res in R1, R2, R3, R4, R5.
    destruct R2 as [Ht' A' Cy' Row' T' Cx'].
    assert (Z : zskipn (zlen row) (row_at (active t) y) = []).
    { unfold zskipn. apply skipn_all2. unfold zlen in *. lia. }
    rewrite Z in Row'. cbn [app] in Row'. rewrite app_nil_r in Row'.
    split; [exact R1|]. split; [exact Row'|]. split; [exact Ht'|]. split; [exact R3|]. split; [exact R5|].
    destruct R4 as (R4 & R4h).
    split; [exact Cy'|]. split; [rewrite Cx', R4; cbn [app]; lia|]. split; [exact A'|]. split; assumption.
  Qed.
  (* ---------- the span buffer's ANSILine: one escape per stored span ---------- *)
  (* spanScreen.renderLineANSI emits the escape for every span, also when the
     neighbouring span has the same style (spans are not merged); a span holds
     whole glyphs of one style. *)
  Definition span_ok (sp : style * list cell) : Prop :=
    wf_style (fst sp) /\ Forall (fun c => cst c = fst sp) (snd sp) /\ renderable (snd sp).
  Definition spans_row (sps : list (style * list cell)) : list cell := concat (map snd sps).

  Lemma render_same_style st cs : Forall (fun c => cst c = st) cs -> render_from (Some st) cs = flat_map ctext cs.
  Proof.
    induction cs as [|c r IH]; intros H; [reflexivity|]. inversion H as [|? ? Hc Hr]; subst.
    cbn [render_from flat_map]. rewrite style_eqb_refl. cbn [app]. f_equal. apply IH, Hr.
  Qed.

  Theorem feed_spans_more sps : Forall span_ok sps -> forall t y done tail,
    row_state t y done tail -> zlen (spans_row sps) <= zlen tail ->
    exists t', (forall more, run_bytes wc grid t (render_runs sps ++ more) = run_bytes wc grid t' more) /\
    row_state t' y (done ++ spans_row sps) (zskipn (zlen (spans_row sps)) tail) /\
    onalt t' = onalt t /\ (sW (active t') = sW (active t) /\ sH (active t') = sH (active t)) /\
    (forall y', y' <> y -> row_at (active t') y' = row_at (active t) y').
  Proof.
    induction sps as [|[st cs] sps IH]; intros Hok t y done tail RS Hlen.
    - exists t. unfold spans_row. cbn [map concat render_runs flat_map app]. rewrite app_nil_r.
      change (zskipn (zlen (@nil cell)) tail) with tail. split; [reflexivity|]. split; [exact RS|]. repeat split; reflexivity.
    - pose proof (Forall_inv Hok) as (Hst & Hall & Hr). pose proof (Forall_inv_tail Hok) as Hok'. cbn [fst snd] in *.
      unfold spans_row in *. cbn [map concat snd] in *. fold (spans_row sps) in *.
      rewrite zlen_app in Hlen. pose proof (zlen_nonneg cs). pose proof (zlen_nonneg (spans_row sps)).
      set (t1 := sgr_run (escape_params st) t).
      assert (RS1 : row_state t1 y done tail) by apply row_state_sgr, RS.
      destruct (escape_run_facts st t Hst) as (F1 & F2 & _). fold t1 in F1, F2.
      unfold same_but_style in F2. cbv zeta in F2.
      destruct F2 as (F3 & F4 & F4h & _ & _ & _ & _ & _ & _ & _ & _ & _ & _ & F5 & _).
      destruct (feed_cells_more cs Hr t1 y done tail (Some st) RS1 F1 ltac:(lia)) as (t2 & E2 & RS2 & O2 & (W2 & H2) & Rows2).
      destruct (IH Hok' t2 y (done ++ cs) (zskipn (zlen cs) tail) RS2 ltac:(rewrite zlen_zskipn; lia))
        as (t3 & E3 & RS3 & O3 & (W3 & H3) & Rows3).
      exists t3. split.
      { intros more. unfold render_runs. cbn [flat_map fst snd]. fold (render_runs sps).
        rewrite <- !app_assoc. rewrite (run_ansi_escape wc grid st t _ (rs_inv _ _ _ _ RS) Hst). fold t1.
        rewrite <- (render_same_style st cs Hall). rewrite E2. apply E3. }
      split.
      { rewrite <- app_assoc in RS3.
        assert (Z : zskipn (zlen (spans_row sps)) (zskipn (zlen cs) tail) = zskipn (zlen (cs ++ spans_row sps)) tail).
        { rewrite zlen_app. unfold zskipn. rewrite skipn_skipn_. f_equal. lia. }
        rewrite <- Z. exact RS3. }
      split; [congruence|]. split; [split; congruence|].
      intros y' N. rewrite Rows3 by exact N. rewrite Rows2 by exact N. unfold row_at. rewrite F3. reflexivity.
  Qed.

  Theorem row_rt_spans sps t y :
    TInv t -> awrap (active t) = false -> cy (active t) = y -> cx (active t) = 0 ->
    Forall noncont (row_at (active t) y) -> zlen (spans_row sps) = sW (active t) -> Forall span_ok sps ->
    let res := run_bytes wc grid t (render_runs sps) in
    snd res = [] /\ row_at (active (fst res)) y = spans_row sps /\ TInv (fst res) /\
    (forall y', y' <> y -> row_at (active (fst res)) y' = row_at (active t) y').
  Proof.
    intros Ht A Cy Cx Hnc Hlen Hok res.
    pose proof (TInv_active t Ht) as Ia. pose proof (inv_w _ Ia) as Wp.
    pose proof (row_at_len _ _ Ia (inv_cy _ Ia)) as RL. rewrite Cy in RL.
    assert (RS : row_state t y [] (row_at (active t) y)).
    { constructor; try assumption; [reflexivity|]. rewrite Cx. change (zlen (@nil cell)) with 0. lia. }
    destruct (feed_spans_more sps Hok t y [] (row_at (active t) y) RS ltac:(lia)) as (t' & E & RS' & _ & _ & Rows).
    subst res. specialize (E []). rewrite app_nil_r in E. rewrite E, run_bytes_nil. cbn [fst snd].
    destruct RS' as [Ht' _ _ Row' _ _].
    assert (Z : zskipn (zlen (spans_row sps)) (row_at (active t) y) = []).
    { unfold zskipn. apply skipn_all2. unfold zlen in *. lia. }
    rewrite Z in Row'. cbn [app] in Row'. rewrite app_nil_r in Row'.
    split; [reflexivity|]. split; [exact Row'|]. split; [exact Ht'|exact Rows].
  Qed.

  Theorem strip_render_spans sps :
    Forall (fun sp => wf_style (fst sp) /\ Forall (fun c => ~ In 27 (ctext c)) (snd sp)) sps ->
    strip_sgr (render_runs sps) = line_text (spans_row sps).
  Proof.
    unfold strip_sgr, line_text, spans_row. induction sps as [|[st cs] sps IH]; intros H; [reflexivity|].
    pose proof (Forall_inv H) as (Hst & Hcs). pose proof (Forall_inv_tail H) as H'. cbn [fst snd] in *.
    unfold render_runs. cbn [flat_map fst snd map concat]. fold (render_runs sps).
    rewrite <- app_assoc, strip_ansi_escape by exact Hst. rewrite flat_map_app.
    assert (T : forall rest, strip_aux false (flat_map ctext cs ++ rest) = flat_map ctext cs ++ strip_aux false rest).
    { clear -Hcs. induction cs as [|c r IHc]; intros rest; [reflexivity|]. inversion Hcs; subst.
      cbn [flat_map]. rewrite <- !app_assoc. rewrite strip_text by assumption. f_equal. apply IHc. assumption. }
    rewrite T. f_equal. apply IH, H'.
  Qed.
End Row.

(* ---------- examples ---------- *)
(* "a" red, wide glyph U+4E2D (2 cells) bold blue-on-bright, "b" default; 4 columns *)
Definition ex_wc (r : Z) : Z := if r =? 20013 then 2 else 1.
Definition ex_red := mkStyle (CIdx 1) CDef 0.
Definition ex_fancy := mkStyle (CRgb 255) (CBright 2) 1.
Definition ex_row : list cell :=
  [mkCell [97] 1 ex_red; mkCell [228; 184; 173] 2 ex_fancy; contc ex_fancy; mkCell [98] 1 default_style].

Lemma ex_row_renderable : renderable ex_wc ex_row.
Proof.
  assert (G1 : glyph_text [97] 97) by (split; [reflexivity|exists 97, []; split; reflexivity]).
  assert (G2 : glyph_text [228; 184; 173] 20013) by (split; [reflexivity|exists 228, [184; 173]; split; reflexivity]).
  assert (G3 : glyph_text [98] 98) by (split; [reflexivity|exists 98, []; split; reflexivity]).
  assert (W1 : wf_style ex_red) by (repeat split; cbn; lia).
  assert (W2 : wf_style ex_fancy) by (repeat split; cbn; lia).
  exact (R_glyph ex_wc [97] 97 ex_red _ G1 W1
          (R_glyph ex_wc [228; 184; 173] 20013 ex_fancy _ G2 W2
            (R_glyph ex_wc [98] 98 default_style [] G3 wf_default (R_nil ex_wc)))).
Qed.

(* gridScreen.Line(y) agrees with the stripped ANSILine on rows without wide glyphs ... *)
Lemma line_text_grid_narrow row : Forall noncont row -> line_text_grid row = line_text row.
Proof.
  induction row as [|c r IH]; intros H; [reflexivity|]. inversion H as [|? ? Hc Hr]; subst.
  unfold line_text_grid, line_text in *. cbn [flat_map]. rewrite Hc, IH by exact Hr. reflexivity.
Qed.
Theorem strip_render_grid_partial row : Forall strippable row -> Forall noncont row ->
  strip_sgr (render_line_ansi row) = line_text_grid row.
Proof. intros H1 H2. rewrite line_text_grid_narrow by exact H2. apply strip_render_line, H1. Qed.

(* ... but not on rows with a wide glyph: Line(y) has a space for each continuation
   cell, ANSILine(y) has nothing there *)
Theorem strip_render_grid_refuted :
  exists row, Forall strippable row /\ strip_sgr (render_line_ansi row) <> line_text_grid row.
Proof.
  exists ex_row. split.
  - repeat constructor; cbn; try lia; intros H; repeat (destruct H as [H|H]; [discriminate H|]); exact H.
  - vm_compute. discriminate.
Qed.

Example row_example :
  renderable ex_wc ex_row /\
  line_text ex_row = [97; 228; 184; 173; 98] /\
  strip_sgr (render_line_ansi ex_row) = line_text ex_row /\
  row_at (tmain (fst (run_bytes ex_wc true (init_term 4 2) (render_line_ansi ex_row)))) 0 = ex_row.
Proof. split; [exact ex_row_renderable|vm_compute; repeat split; reflexivity]. Qed.

(* what the Go span buffer prints after "a", "b", U+4E2D in a 6-column row: one escape per span *)
Example spans_example :
  let d := default_style in
  let sps := [(d, [mkCell [97] 1 d]); (d, [mkCell [98] 1 d]); (d, [mkCell [228; 184; 173] 2 d; contc d]); (d, [blank d; blank d])] in
  render_runs sps = [27;91;48;109; 97; 27;91;48;109; 98; 27;91;48;109; 228;184;173; 27;91;48;109; 32; 32] /\
  render_line_ansi (spans_row sps) = [27;91;48;109; 97; 98; 228;184;173; 32; 32] /\
  row_at (tmain (fst (run_bytes ex_wc false (init_term 6 1) (render_runs sps)))) 0 = spans_row sps.
Proof. vm_compute. repeat split; reflexivity. Qed.
