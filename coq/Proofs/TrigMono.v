(* The finding marks of a screen ([trig], a bit set) only ever grow: no screen
   operation, token, Resize or history step clears a mark, so a run that ends
   mark-free was mark-free throughout.  The frontend log of the terminal
   ([tlog]) is only ever extended at the front and never read. *)
From Coq Require Import List ZArith Bool Lia.
From Termemu Require Import Base Style Screen Kbd Parser Term BaseLemmas ScreenInv TermInv HistProofs.
Import ListNotations.
Open Scope Z_scope.

Lemma lor_zero_l a b : Z.lor a b = 0 -> a = 0.
Proof. intros H. apply Z.lor_eq_0_iff in H. apply H. Qed.
Lemma lor_zero_r a b : Z.lor a b = 0 -> b = 0.
Proof. intros H. apply Z.lor_eq_0_iff in H. apply H. Qed.
Lemma lor_zero a b : 0 <= a -> 0 <= b -> Z.lor a b = 0 -> a = 0.
Proof. intros _ _ H. exact (lor_zero_l a b H). Qed.

(* ---- screen level: f never clears a mark ---- *)
Definition TrigMono (f : screen -> screen) : Prop := forall s, trig (f s) = 0 -> trig s = 0.

Ltac ifs := repeat match goal with |- context [if ?c then _ else _] => destruct c end.

(* setters *)
Lemma trig_set_rows r s : trig (set_rows r s) = trig s. Proof. reflexivity. Qed.
Lemma trig_set_cur x y s : trig (set_cur x y s) = trig s. Proof. reflexivity. Qed.
Lemma trig_set_saved x y s : trig (set_saved x y s) = trig s. Proof. reflexivity. Qed.
Lemma trig_set_margins t b s : trig (set_margins t b s) = trig s. Proof. reflexivity. Qed.
Lemma trig_set_awrap v s : trig (set_awrap v s) = trig s. Proof. reflexivity. Qed.
Lemma trig_set_sty v s : trig (set_sty v s) = trig s. Proof. reflexivity. Qed.
Lemma trig_set_crash v s : trig (set_crash v s) = trig s. Proof. reflexivity. Qed.
Lemma trig_set_evs v s : trig (set_evs v s) = trig s. Proof. reflexivity. Qed.
Lemma trig_emit e s : trig (emit e s) = trig s. Proof. reflexivity. Qed.
Lemma trig_set_dims r w h s : trig (set_dims r w h s) = trig s. Proof. reflexivity. Qed.
Lemma trig_add_trig v s : trig (add_trig v s) = Z.lor (trig s) v. Proof. reflexivity. Qed.
Lemma trig_init_screen w h : trig (init_screen w h) = 0. Proof. reflexivity. Qed.

(* primitives that do not touch the marks at all *)
Lemma trig_set_style st s : trig (set_style st s) = trig s. Proof. reflexivity. Qed.
Lemma trig_save_cursor s : trig (save_cursor s) = trig s. Proof. reflexivity. Qed.
Lemma trig_restore_cursor s : trig (restore_cursor s) = trig s. Proof. reflexivity. Qed.
Lemma trig_set_scroll_margins t b s : trig (set_scroll_margins t b s) = trig s.
Proof. unfold set_scroll_margins. ifs; reflexivity. Qed.

Lemma trig_set_cursor_pos x y s : trig (set_cursor_pos x y s) = trig s.
Proof. reflexivity. Qed.

Lemma trig_scroll y1 y2 dy s : trig (scroll y1 y2 dy s) = trig s.
Proof. unfold scroll. cbv zeta. ifs; reflexivity. Qed.

Lemma trig_move_cursor dx dy wrap scr s : trig (move_cursor dx dy wrap scr s) = trig s.
Proof.
  unfold move_cursor. cbv zeta. ifs; cbv beta iota zeta; rewrite trig_emit, trig_set_cur, ?trig_scroll; reflexivity.
Qed.

Lemma trig_set_size w h s : trig (set_size w h s) = trig s.
Proof.
  unfold set_size. cbv zeta. ifs; cbv beta iota zeta; reflexivity.
Qed.

Lemma add_trig_mono v s : trig (add_trig v s) = 0 -> trig s = 0.
Proof. rewrite trig_add_trig. apply lor_zero_l. Qed.

Lemma TrigMono_add_trig v : TrigMono (add_trig v).
Proof. intros s. apply add_trig_mono. Qed.

Lemma TrigMono_id : TrigMono (fun s => s).
Proof. intros s H. exact H. Qed.

Lemma TrigMono_comp f g : TrigMono f -> TrigMono g -> TrigMono (fun s => g (f s)).
Proof. intros Hf Hg s H. apply Hf, Hg, H. Qed.

(* a function that leaves the marks alone is monotone *)
Lemma TrigMono_eq f : (forall s, trig (f s) = trig s) -> TrigMono f.
Proof. intros Hf s H. rewrite Hf in H. exact H. Qed.

Lemma write_row_cells_mono reason x y new s : trig (write_row_cells reason x y new s) = 0 -> trig s = 0.
Proof.
  unfold write_row_cells. cbv zeta.
  destruct (zlen new <=? 0); [auto|].
  destruct (_ || _); [auto|].
  destruct (is_cont (znth x (row_at s y) dcell)); rewrite trig_emit, trig_set_rows; [apply add_trig_mono|auto].
Qed.

Lemma TrigMono_write_row_cells reason x y new : TrigMono (write_row_cells reason x y new).
Proof. intros s. apply write_row_cells_mono. Qed.

Lemma erase_rows_mono reason x x2 ys : forall s, trig (erase_rows reason x x2 ys s) = 0 -> trig s = 0.
Proof.
  induction ys as [|y ys IH]; intros s H; cbn [erase_rows] in H; [exact H|].
  apply IH in H. apply write_row_cells_mono in H. exact H.
Qed.

Lemma erase_region_mono x y x2 y2 s : trig (erase_region x y x2 y2 s) = 0 -> trig s = 0.
Proof. unfold erase_region. apply erase_rows_mono. Qed.

Lemma TrigMono_erase_region x y x2 y2 : TrigMono (erase_region x y x2 y2).
Proof. intros s. apply erase_region_mono. Qed.

Lemma delete_chars_mono x y n s : trig (delete_chars x y n s) = 0 -> trig s = 0.
Proof.
  unfold delete_chars. cbv zeta.
  destruct (_ || _); [auto|].
  destruct (_ || _); [auto|].
  destruct (is_cont _); rewrite trig_emit, trig_set_rows; [apply add_trig_mono|auto].
Qed.

Lemma TrigMono_delete_chars x y n : TrigMono (delete_chars x y n).
Proof. intros s. apply delete_chars_mono. Qed.

Lemma write_glyph_mono txt w s : trig (write_glyph txt w s) = 0 -> trig s = 0.
Proof.
  unfold write_glyph.
  destruct (negb (crash s =? 0)); [auto|].
  set (w1 := if w <? 1 then 1 else w).
  set (sa := if sW s <? w1 then add_trig trWideOnNarrow s else s).
  assert (Ha : trig sa = 0 -> trig s = 0).
  { subst sa. destruct (sW s <? w1); [apply add_trig_mono|auto]. }
  clearbody sa.
  set (w' := if sW sa <? w1 then sW sa else w1). clearbody w'.
  set (s1 := if sW sa <? cx sa + w' then _ else sa).
  assert (H1 : trig s1 = trig sa).
  { subst s1. destruct (sW sa <? cx sa + w'); [|reflexivity].
    destruct (awrap sa); [apply trig_move_cursor|apply trig_set_cur]. }
  clearbody s1.
  set (s2 := write_row_cells crText (cx s1) (cy s1) (glyph_cells txt w' (sty s1)) s1).
  assert (H2 : trig s2 = 0 -> trig s1 = 0) by (subst s2; apply write_row_cells_mono).
  clearbody s2.
  intros H. apply Ha. rewrite <- H1. apply H2.
  destruct (negb (crash s2 =? 0)); [exact H|]. rewrite trig_move_cursor in H. exact H.
Qed.

Lemma TrigMono_write_glyph txt w : TrigMono (write_glyph txt w).
Proof. intros s. apply write_glyph_mono. Qed.

(* what a mark-free write says about where it started *)
Lemma write_row_cells_trig0 reason x y new s :
  trig (write_row_cells reason x y new s) = 0 ->
  0 < zlen new -> 0 <= y < sH s -> 0 <= x -> x + zlen new <= sW s ->
  trig s = 0 /\ is_cont (znth x (row_at s y) dcell) = false.
Proof.
  intros Ht Hn Hy Hx Hw. revert Ht. unfold write_row_cells. cbv zeta.
  destruct (Z.leb_spec (zlen new) 0); [lia|].
  destruct (Z.ltb_spec y 0); [lia|]. destruct (Z.leb_spec (sH s) y); [lia|].
  destruct (Z.ltb_spec x 0); [lia|]. destruct (Z.ltb_spec (sW s) (x + zlen new)); [lia|]. cbn [orb].
  destruct (is_cont (znth x (row_at s y) dcell)); rewrite trig_emit, trig_set_rows; intros Ht.
  - rewrite trig_add_trig in Ht. apply lor_zero_r in Ht. discriminate Ht.
  - split; [exact Ht|reflexivity].
Qed.

Lemma delete_chars_trig0 x y n s :
  trig (delete_chars x y n s) = 0 -> 0 <= y < sH s -> 0 <= x < sW s -> 1 <= n ->
  trig s = 0 /\ is_cont (znth x (row_at s y) dcell) = false.
Proof.
  intros Ht Hy Hx Hn. revert Ht. unfold delete_chars. cbv zeta.
  destruct (Z.ltb_spec y 0); [lia|]. destruct (Z.leb_spec (sH s) y); [lia|].
  destruct (Z.leb_spec n 0); [lia|]. cbn [orb].
  destruct (Z.ltb_spec x 0); [lia|].
  destruct (Z.leb_spec (sW s) x); [lia|].
  destruct (Z.leb_spec n 0); [lia|]. cbn [orb].
  destruct (is_cont (znth x (row_at s y) dcell)); rewrite trig_emit, trig_set_rows; intros Ht.
  - rewrite trig_add_trig in Ht. apply lor_zero_r in Ht. discriminate Ht.
  - split; [exact Ht|reflexivity].
Qed.

(* proves [TrigMono (fun s => ...)] for compositions of primitives under conditionals *)
Ltac tm_peel H :=
  repeat first
    [ rewrite trig_scroll in H | rewrite trig_move_cursor in H | rewrite trig_set_cursor_pos in H
    | rewrite trig_set_size in H | rewrite trig_save_cursor in H | rewrite trig_restore_cursor in H
    | rewrite trig_set_scroll_margins in H | rewrite trig_set_style in H | rewrite trig_set_awrap in H
    | rewrite trig_emit in H | rewrite trig_set_cur in H | rewrite trig_set_evs in H
    | apply add_trig_mono in H | apply write_row_cells_mono in H | apply erase_region_mono in H
    | apply delete_chars_mono in H | apply write_glyph_mono in H ].
Ltac tm_solve :=
  let s := fresh "s" in let H := fresh "H" in
  intros s; cbv beta zeta; ifs; intros H; tm_peel H; exact H.

(* ---- terminal level ---- *)
Definition tz (t : term) : Prop := trig (tmain t) = 0 /\ trig (talt t) = 0.

Lemma trig_active_set_active s t : trig (active (set_active s t)) = trig s.
Proof. unfold active, set_active. destruct (onalt t); reflexivity. Qed.

Lemma tz_on_screen f t : TrigMono f -> tz (on_screen f t) -> tz t.
Proof.
  intros Hf. unfold tz, on_screen, active, set_active.
  destruct (onalt t); cbn [tmain talt]; rewrite trig_set_evs; intros [H1 H2]; split; try assumption.
  - apply Hf in H2. exact H2.
  - apply Hf in H1. exact H1.
Qed.

(* the other state changes do not touch the screens *)
Lemma tz_log_ev e t : tz (log_ev e t) <-> tz t. Proof. reflexivity. Qed.
Lemma tz_reply b t : tz (reply b t) <-> tz t. Proof. reflexivity. Qed.
Lemma tz_set_vflag i v t : tz (set_vflag i v t) <-> tz t. Proof. reflexivity. Qed.
Lemma tz_set_vint i v t : tz (set_vint i v t) <-> tz t. Proof. reflexivity. Qed.
Lemma tz_set_vstr i v t : tz (set_vstr i v t) <-> tz t. Proof. reflexivity. Qed.
Lemma tz_switch_screen t : tz (switch_screen t) <-> tz t. Proof. reflexivity. Qed.
Lemma tz_on_kbd f t : tz (on_kbd f t) <-> tz t.
Proof. unfold on_kbd. destruct (onalt t); reflexivity. Qed.
Lemma tz_init w h : tz (init_term w h).
Proof. split; reflexivity. Qed.

Ltac tz_leaf :=
  match goal with
  | |- tz (on_screen _ _) -> _ => apply tz_on_screen; tm_solve
  | |- tz (on_kbd _ _) -> _ => apply tz_on_kbd
  | |- _ => exact (fun H => H)
  end.
Ltac tz_ifs := repeat match goal with |- tz (if ?c then _ else _) -> _ => destruct c end.

Lemma tz_exec_c0 b t : tz (exec_c0 b t) -> tz t.
Proof. unfold exec_c0. tz_ifs; tz_leaf. Qed.

Lemma tz_exec_esc b t : tz (exec_esc b t) -> tz t.
Proof. unfold exec_esc. tz_ifs; tz_leaf. Qed.

Lemma tz_dec_mode v p t : tz (dec_mode v p t) -> tz t.
Proof. unfold dec_mode. tz_ifs; tz_leaf. Qed.

Lemma tz_dec_modes v ps : forall t, tz (fold_left (fun t p => dec_mode v p t) ps t) -> tz t.
Proof.
  induction ps as [|p ps IH]; intros t H; cbn [fold_left] in H; [exact H|].
  apply IH in H. apply tz_dec_mode in H. exact H.
Qed.

Lemma tz_exec_csi_plain ps f t : tz (exec_csi_plain ps f t) -> tz t.
Proof. unfold exec_csi_plain. cbv zeta. tz_ifs; tz_leaf. Qed.

Lemma tz_exec_csi prefix ps f t : tz (exec_csi prefix ps f t) -> tz t.
Proof.
  unfold exec_csi. cbv zeta. tz_ifs;
    try apply tz_exec_csi_plain; try apply tz_dec_modes; tz_leaf.
Qed.

Lemma tz_exec_osc n p t : tz (exec_osc n p t) -> tz t.
Proof. unfold exec_osc. tz_ifs; tz_leaf. Qed.

Theorem tz_exec_tok k t : tz (exec_tok k t) -> tz t.
Proof.
  destruct k as [txt r w|b|b| |prefix ps f|num payload]; cbn [exec_tok].
  - cbv zeta. apply tz_on_screen. tm_solve.
  - apply tz_exec_c0.
  - apply tz_exec_esc.
  - exact (fun H => H).
  - apply tz_exec_csi.
  - apply tz_exec_osc.
Qed.

Theorem tz_resize w h t : tz (resize w h t) <-> tz t.
Proof.
  unfold tz, resize. cbv zeta. unfold log_ev. cbn [tmain talt].
  rewrite !trig_set_evs, !trig_set_size, !trig_set_evs. reflexivity.
Qed.

Theorem tz_run_pending wc grid fuel : forall t inp, tz (fst (run_pending wc grid fuel t inp)) -> tz t.
Proof.
  induction fuel as [|f IH]; intros t inp H; cbn [run_pending] in H; [exact H|].
  destruct (crashed t); [exact H|].
  destruct (parse_one wc grid inp) as [|k rest]; [exact H|].
  apply IH in H. apply tz_exec_tok in H. exact H.
Qed.

Theorem tz_run_bytes wc grid t inp : tz (fst (run_bytes wc grid t inp)) -> tz t.
Proof. apply tz_run_pending. Qed.

Theorem tz_hstep wc grid st o : tz (fst (hstep wc grid st o)) -> tz (fst st).
Proof.
  destruct o as [bs|w h]; cbn [hstep].
  - apply tz_run_bytes.
  - destruct (crashed (fst st)); [exact (fun H => H)|]. cbn [fst]. apply tz_resize.
Qed.

Theorem tz_fold wc grid ops : forall st, tz (fst (fold_left (hstep wc grid) ops st)) -> tz (fst st).
Proof.
  induction ops as [|o ops IH]; intros st H; cbn [fold_left] in H; [exact H|].
  apply IH in H. apply tz_hstep in H. exact H.
Qed.

Theorem tz_run_hist wc grid t ops : tz (fst (run_hist wc grid t ops)) -> tz t.
Proof. unfold run_hist. intros H. apply tz_fold in H. exact H. Qed.

(* ---- the frontend log of the terminal only grows, and nothing reads it ---- *)
Definition app_log (l : list event) (t : term) : term :=
  mkTerm (tmain t) (talt t) (onalt t) (vflags t) (vints t) (vstrs t) (kbm t) (kba t) (tout t) (tlog t ++ l).
Definition LogFrame (f : term -> term) : Prop := forall l t, f (app_log l t) = app_log l (f t).

Lemma active_app_log l t : active (app_log l t) = active t.
Proof. reflexivity. Qed.
Lemma active_kbd_app_log l t : active_kbd (app_log l t) = active_kbd t.
Proof. reflexivity. Qed.
Lemma onalt_app_log l t : onalt (app_log l t) = onalt t.
Proof. reflexivity. Qed.
Lemma tlog_app_log l t : tlog (app_log l t) = tlog t ++ l.
Proof. reflexivity. Qed.
Lemma app_log_nil t : app_log [] t = t.
Proof. destruct t. unfold app_log. cbn. rewrite app_nil_r. reflexivity. Qed.
Lemma app_log_app l1 l2 t : app_log l2 (app_log l1 t) = app_log (l1 ++ l2) t.
Proof. unfold app_log. cbn. rewrite app_assoc. reflexivity. Qed.

Lemma LogFrame_id : LogFrame (fun t => t).
Proof. intros l t. reflexivity. Qed.
Lemma LogFrame_comp f g : LogFrame f -> LogFrame g -> LogFrame (fun t => g (f t)).
Proof. intros Hf Hg l t. rewrite Hf, Hg. reflexivity. Qed.

Lemma LogFrame_on_screen f : LogFrame (on_screen f).
Proof.
  intros l t. unfold on_screen, app_log, active, set_active. cbn [onalt tmain talt].
  destruct (onalt t); cbn [tmain talt onalt vflags vints vstrs kbm kba tout tlog]; rewrite app_assoc; reflexivity.
Qed.

Lemma LogFrame_log_ev e : LogFrame (log_ev e). Proof. intros l t. reflexivity. Qed.
Lemma LogFrame_reply b : LogFrame (reply b). Proof. intros l t. reflexivity. Qed.
Lemma LogFrame_set_vflag i v : LogFrame (set_vflag i v). Proof. intros l t. reflexivity. Qed.
Lemma LogFrame_set_vint i v : LogFrame (set_vint i v). Proof. intros l t. reflexivity. Qed.
Lemma LogFrame_set_vstr i v : LogFrame (set_vstr i v). Proof. intros l t. reflexivity. Qed.
Lemma LogFrame_switch_screen : LogFrame switch_screen. Proof. intros l t. reflexivity. Qed.
Lemma LogFrame_on_kbd f : LogFrame (on_kbd f).
Proof. intros l t. unfold on_kbd, app_log. cbn [onalt]. destruct (onalt t); reflexivity. Qed.

Ltac lf_ifs := repeat match goal with |- (if ?c then _ else _) = _ => destruct c end.
Ltac lf_leaf :=
  match goal with
  | |- on_screen _ _ = _ => apply LogFrame_on_screen
  | |- on_kbd _ _ = _ => apply LogFrame_on_kbd
  | |- _ => reflexivity
  end.

Lemma LogFrame_exec_c0 b : LogFrame (exec_c0 b).
Proof. intros l t. unfold exec_c0. lf_ifs; lf_leaf. Qed.

Lemma LogFrame_exec_esc b : LogFrame (exec_esc b).
Proof. intros l t. unfold exec_esc. lf_ifs; lf_leaf. Qed.

Lemma LogFrame_dec_mode v p : LogFrame (dec_mode v p).
Proof. intros l t. unfold dec_mode. rewrite onalt_app_log. lf_ifs; lf_leaf. Qed.

Lemma LogFrame_dec_modes v ps : LogFrame (fun t => fold_left (fun t p => dec_mode v p t) ps t).
Proof.
  intros l. induction ps as [|p ps IH]; intros t; cbn [fold_left]; [reflexivity|].
  rewrite LogFrame_dec_mode. apply IH.
Qed.

Lemma LogFrame_exec_csi_plain ps f : LogFrame (exec_csi_plain ps f).
Proof.
  intros l t. unfold exec_csi_plain. rewrite active_app_log. cbv zeta. lf_ifs; lf_leaf.
Qed.

Lemma LogFrame_exec_csi prefix ps f : LogFrame (exec_csi prefix ps f).
Proof.
  intros l t. unfold exec_csi. rewrite active_kbd_app_log. cbv zeta.
  lf_ifs; try apply LogFrame_exec_csi_plain; try apply (LogFrame_dec_modes _ ps l t); lf_leaf.
Qed.

Lemma LogFrame_exec_osc n p : LogFrame (exec_osc n p).
Proof. intros l t. unfold exec_osc. lf_ifs; lf_leaf. Qed.

Theorem LogFrame_exec_tok k : LogFrame (exec_tok k).
Proof.
  destruct k as [txt r w|b|b| |prefix ps f|num payload]; cbn [exec_tok].
  - cbv zeta. apply LogFrame_on_screen.
  - apply LogFrame_exec_c0.
  - apply LogFrame_exec_esc.
  - apply LogFrame_id.
  - apply LogFrame_exec_csi.
  - apply LogFrame_exec_osc.
Qed.

Theorem LogFrame_resize w h : LogFrame (resize w h).
Proof.
  intros l t. unfold resize, app_log, log_ev, active. cbn [tmain talt onalt vflags vints vstrs kbm kba tout tlog].
  rewrite !app_comm_cons, !app_assoc. reflexivity.
Qed.

Lemma crashed_app_log l t : crashed (app_log l t) = crashed t.
Proof. reflexivity. Qed.

Theorem run_pending_app_log wc grid fuel : forall l t inp,
  run_pending wc grid fuel (app_log l t) inp =
  (app_log l (fst (run_pending wc grid fuel t inp)), snd (run_pending wc grid fuel t inp)).
Proof.
  induction fuel as [|f IH]; intros l t inp; cbn [run_pending]; [reflexivity|].
  rewrite crashed_app_log. destruct (crashed t); [reflexivity|].
  destruct (parse_one wc grid inp) as [|k rest]; [reflexivity|].
  rewrite LogFrame_exec_tok. apply IH.
Qed.

Theorem run_bytes_app_log wc grid l t inp :
  run_bytes wc grid (app_log l t) inp =
  (app_log l (fst (run_bytes wc grid t inp)), snd (run_bytes wc grid t inp)).
Proof. apply run_pending_app_log. Qed.
