(* C07 item 5: every cell an operation creates carries the style current at
   that moment.  Two forms: positional at row level (the touched zone of
   [overwrite] has the new style whatever was there before), and global at
   screen level (each cell of the result is an old cell or is stamped with
   [sty s]; DCH and resize may also leave the blanked half of a cut wide glyph,
   which keeps its own style). *)
From Coq Require Import List ZArith Bool Lia.
From Termemu Require Import Base Style Screen BaseLemmas ScreenInv.
Import ListNotations.
Open Scope Z_scope.

(* ---------- created cells ---------- *)
Lemma blank_style st : cst (blank st) = st /\ ctext (blank st) = [32] /\ cwid (blank st) = 1.
Proof. repeat split. Qed.

Lemma In_zrepeat {A} (a c : A) n : In c (zrepeat a n) -> c = a.
Proof. unfold zrepeat. intros H. apply repeat_spec in H. exact H. Qed.
Lemma In_zfirstn {A} (c : A) n l : In c (zfirstn n l) -> In c l.
Proof. unfold zfirstn. intros H. rewrite <- (firstn_skipn (Z.to_nat n) l). apply in_or_app. left. exact H. Qed.
Lemma In_zskipn {A} (c : A) n l : In c (zskipn n l) -> In c l.
Proof. unfold zskipn. intros H. rewrite <- (firstn_skipn (Z.to_nat n) l). apply in_or_app. right. exact H. Qed.

Theorem glyph_cells_style txt w st c : In c (glyph_cells txt w st) -> cst c = st.
Proof.
  unfold glyph_cells. intros [<-|H]; [reflexivity|]. apply In_zrepeat in H. subst. reflexivity.
Qed.

Theorem blank_row_style w st c : In c (blank_row w st) -> c = blank st.
Proof. unfold blank_row. apply In_zrepeat. Qed.

(* the halves of a cut glyph keep their style *)
Lemma unglyph_style c : cst (unglyph c) = cst c /\ ctext (unglyph c) = [32] /\ cwid (unglyph c) = 1.
Proof. repeat split. Qed.

(* ---------- overwrite, positionally ---------- *)
Lemma znth_middle {A} (P : A -> Prop) (a m c : list A) i d :
  zlen a <= i < zlen a + zlen m -> Forall P m -> P (znth i (a ++ m ++ c) d).
Proof.
  intros Hi Hm. pose proof (zlen_nonneg a). rewrite znth_app_r by lia. rewrite znth_app_l by lia.
  apply Forall_znth; [exact Hm|lia].
Qed.

Definition styled (st : style) (c : cell) : Prop := cst c = st.

(* The zone [left_edge, x + |new| + cont_run) of the row is rewritten; every
   cell in it ends up with style st, whatever it was before. *)
Theorem overwrite_stamp st x new row i :
  0 <= x -> x + zlen new <= zlen row -> 0 < zlen new -> Forall (styled st) new ->
  left_edge row x <= i < x + zlen new + cont_run row (x + zlen new) ->
  cst (znth i (overwrite st x new row) dcell) = st.
Proof.
  intros Hx Hn Hp Hnew Hi. unfold overwrite.
  destruct (Z.eqb_spec (zlen new) 0); [lia|].
  pose proof (left_edge_range row x Hx) as Hb.
  pose proof (cont_run_range row (x + zlen new) ltac:(lia)) as Hr.
  set (b := left_edge row x) in *. set (r := cont_run row (x + zlen new)) in *.
  change (styled st (znth i (zfirstn b row ++ zrepeat (blank st) (x - b) ++ new ++ zrepeat (blank st) r ++ zskipn (x + zlen new + r) row) dcell)).
  rewrite (app_assoc (zrepeat (blank st) (x - b))). rewrite (app_assoc (zrepeat (blank st) (x - b) ++ new)).
  apply znth_middle.
  - zlens.
  - repeat (apply Forall_app; split); try exact Hnew; apply Forall_zrepeat; reflexivity.
Qed.

(* outside the zone nothing changes *)
Theorem overwrite_outside st x new row i :
  0 <= x -> x + zlen new <= zlen row ->
  i < left_edge row x \/ x + zlen new + cont_run row (x + zlen new) <= i ->
  znth i (overwrite st x new row) dcell = znth i row dcell.
Proof.
  intros Hx Hn Hi. unfold overwrite.
  destruct (Z.eqb_spec (zlen new) 0); [reflexivity|].
  pose proof (zlen_nonneg new).
  pose proof (left_edge_range row x Hx) as Hb.
  pose proof (cont_run_range row (x + zlen new) ltac:(lia)) as Hr.
  set (b := left_edge row x) in *. set (r := cont_run row (x + zlen new)) in *.
  destruct Hi as [Hi|Hi].
  - rewrite znth_app_l by zlens. destruct (Z.lt_ge_cases i 0); [rewrite !znth_neg by lia; reflexivity|].
    apply znth_zfirstn. lia.
  - rewrite znth_app_r by zlens. rewrite znth_app_r by zlens. rewrite znth_app_r by zlens. rewrite znth_app_r by zlens.
    rewrite znth_zskipn by zlens. f_equal. zlens.
Qed.

(* ---------- membership form ---------- *)
Lemma overwrite_cells st x new row c :
  In c (overwrite st x new row) -> In c row \/ In c new \/ c = blank st.
Proof.
  unfold overwrite. destruct (zlen new =? 0); [auto|]. intros H.
  repeat (apply in_app_or in H; destruct H as [H|H]);
    eauto using In_zfirstn, In_zskipn, In_zrepeat.
Qed.

Lemma delete_cells_cells st x n row c :
  In c (delete_cells st x n row) -> In c row \/ c = blank st \/ exists c0, In c0 row /\ c = unglyph c0.
Proof.
  unfold delete_cells. intros H.
  repeat (apply in_app_or in H; destruct H as [H|H]);
    eauto using In_zfirstn, In_zskipn, In_zrepeat;
    apply in_map_iff in H; destruct H as (c0 & <- & H); right; right; exists c0; eauto using In_zfirstn, In_zskipn.
Qed.

Lemma fit_row_cells st w row c :
  In c (fit_row st w row) -> In c row \/ c = blank st \/ exists c0, In c0 row /\ c = unglyph c0.
Proof.
  unfold fit_row. destruct (w <? zlen row).
  - destruct (is_cont _).
    + intros H. apply in_app_or in H. destruct H as [H|H]; [eauto using In_zfirstn|].
      apply in_map_iff in H; destruct H as (c0 & <- & H); right; right; exists c0; eauto using In_zfirstn, In_zskipn.
    + eauto using In_zfirstn.
  - intros H. apply in_app_or in H. destruct H as [H|H]; eauto using In_zrepeat.
Qed.

(* ---------- screens ---------- *)
Definition cell_in (c : cell) (s : screen) : Prop := exists r, In r (rows s) /\ In c r.

(* every cell of s' is a cell of s or is stamped with st *)
Definition stamped (st : style) (s s' : screen) : Prop :=
  forall c, cell_in c s' -> cell_in c s \/ cst c = st.
(* ... or is the blanked half of a glyph of s, in that glyph's own style *)
Definition stamped_cut (st : style) (s s' : screen) : Prop :=
  forall c, cell_in c s' -> cell_in c s \/ cst c = st \/ exists c0, cell_in c0 s /\ c = unglyph c0.

Lemma stamped_refl st s : stamped st s s.
Proof. intros c H. left. exact H. Qed.
Lemma stamped_trans st s1 s2 s3 : stamped st s1 s2 -> stamped st s2 s3 -> stamped st s1 s3.
Proof. intros H1 H2 c H. apply H2 in H. destruct H as [H|H]; [apply H1, H|right; exact H]. Qed.
Lemma stamped_rows st s s' : rows s' = rows s -> stamped st s s'.
Proof. intros E c (r & Hr & Hc). left. exists r. rewrite <- E. auto. Qed.

Lemma In_zupd {A} (r : A) y r' R : In r (zupd y r' R) -> r = r' \/ In r R.
Proof.
  unfold zupd. destruct ((y <? 0) || (zlen R <=? y)); [auto|]. intros H.
  apply in_app_or in H. destruct H as [H|[H|H]]; eauto using In_zfirstn, In_zskipn.
Qed.

Lemma row_at_In s y : 0 <= y < zlen (rows s) -> In (row_at s y) (rows s).
Proof.
  intros H. unfold row_at, znth. destruct (Z.ltb_spec y 0); [lia|]. apply nth_In. unfold zlen in H. lia.
Qed.
Lemma row_at_cells s y c : In c (row_at s y) -> cell_in c s.
Proof.
  intros H. destruct (Z.lt_ge_cases y 0) as [N|N].
  - unfold row_at in H. rewrite znth_neg in H by lia. destruct H.
  - destruct (Z.lt_ge_cases y (zlen (rows s))) as [L|L].
    + exists (row_at s y). split; [apply row_at_In; lia|exact H].
    + unfold row_at in H. rewrite znth_overflow in H by lia. destruct H.
Qed.

(* write_row_cells: the new cells, blanks in the current style, or old cells *)
Lemma write_row_cells_cells reason x y new s c :
  cell_in c (write_row_cells reason x y new s) -> cell_in c s \/ In c new \/ c = blank (sty s).
Proof.
  unfold write_row_cells. destruct (zlen new <=? 0); [auto|].
  destruct (_ || _); [intros (r & Hr & Hc); left; exists r; auto|].
  set (s' := if is_cont _ then add_trig trSecondHalf s else s).
  assert (E : rows s' = rows s /\ sty s' = sty s) by (subst s'; destruct (is_cont _); auto).
  destruct E as (ER & ES). intros (r & Hr & Hc). cbn [emit set_evs set_rows rows] in Hr.
  apply In_zupd in Hr. destruct Hr as [->|Hr].
  - apply overwrite_cells in Hc. rewrite ES in Hc. destruct Hc as [Hc|Hc]; [|auto].
    left. eapply row_at_cells, Hc.
  - left. exists r. rewrite <- ER. auto.
Qed.

Lemma write_row_cells_sty reason x y new s : sty (write_row_cells reason x y new s) = sty s.
Proof.
  unfold write_row_cells. destruct (zlen new <=? 0); [reflexivity|].
  destruct (_ || _); [reflexivity|]. destruct (is_cont _); reflexivity.
Qed.

Theorem write_row_cells_stamped reason x y new s :
  Forall (styled (sty s)) new -> stamped (sty s) s (write_row_cells reason x y new s).
Proof.
  intros Hn c H. apply write_row_cells_cells in H. destruct H as [H|[H|H]]; [left; exact H| |].
  - right. rewrite Forall_forall in Hn. apply Hn, H.
  - right. subst. reflexivity.
Qed.

(* what row y holds afterwards (no crash): the overwrite of the old row *)
Theorem write_row_cells_row reason x y new s :
  0 < zlen new -> 0 <= y < sH s -> zlen (rows s) = sH s -> 0 <= x -> x + zlen new <= sW s ->
  row_at (write_row_cells reason x y new s) y = overwrite (sty s) x new (row_at s y) /\
  (forall y', y' <> y -> row_at (write_row_cells reason x y new s) y' = row_at s y').
Proof.
  intros Hp Hy Hl Hx Hn. unfold write_row_cells.
  destruct (Z.leb_spec (zlen new) 0); [lia|].
  destruct (Z.ltb_spec y 0); [lia|]. destruct (Z.leb_spec (sH s) y); [lia|].
  destruct (Z.ltb_spec x 0); [lia|]. destruct (Z.ltb_spec (sW s) (x + zlen new)); [lia|]. cbn [orb].
  set (s' := if is_cont _ then add_trig trSecondHalf s else s).
  assert (E : rows s' = rows s /\ sty s' = sty s) by (subst s'; destruct (is_cont _); auto).
  destruct E as (ER & ES). unfold row_at. cbn [emit set_evs set_rows rows]. rewrite ER, ES. split.
  - apply znth_zupd_same. lia.
  - intros y' N. apply znth_zupd_other. congruence.
Qed.

Theorem erase_rows_stamped reason x x2 ys : forall s,
  stamped (sty s) s (erase_rows reason x x2 ys s) /\ sty (erase_rows reason x x2 ys s) = sty s.
Proof.
  induction ys as [|y ys IH]; intros s; cbn [erase_rows]; [split; [apply stamped_refl|reflexivity]|].
  set (s1 := write_row_cells reason x y (zrepeat (blank (sty s)) (x2 - x)) s).
  assert (E1 : sty s1 = sty s) by apply write_row_cells_sty.
  destruct (IH s1) as (H2 & E2). rewrite E1 in *. split; [|exact E2].
  eapply stamped_trans; [|exact H2]. apply write_row_cells_stamped. apply Forall_zrepeat. reflexivity.
Qed.

Theorem erase_region_stamped x y x2 y2 s :
  stamped (sty s) s (erase_region x y x2 y2 s) /\ sty (erase_region x y x2 y2 s) = sty s.
Proof. unfold erase_region. apply erase_rows_stamped. Qed.

Theorem scroll_stamped y1 y2 dy s :
  stamped (sty s) s (scroll y1 y2 dy s) /\ sty (scroll y1 y2 dy s) = sty s.
Proof.
  unfold scroll. cbv zeta.
  destruct (_ <? _); [split; [apply stamped_refl|reflexivity]|].
  destruct (0 <? _); (split; [|reflexivity]); intros c (r & Hr & Hc); cbn [emit set_evs set_rows rows] in Hr;
    repeat (apply in_app_or in Hr; destruct Hr as [Hr|Hr]);
    try (apply In_zrepeat in Hr; subst r; apply blank_row_style in Hc; subst c; right; reflexivity);
    left; exists r; eauto using In_zfirstn, In_zskipn.
Qed.

Lemma move_cursor_stamped dx dy wrap scr s :
  stamped (sty s) s (move_cursor dx dy wrap scr s) /\ sty (move_cursor dx dy wrap scr s) = sty s.
Proof.
  unfold move_cursor. destruct (if wrap && awrap s then _ else _) as [x1 y1].
  set (q := if scr && _ then _ else _).
  assert (Hq : stamped (sty s) s (fst q) /\ sty (fst q) = sty s).
  { subst q. destruct (scr && _); [|split; [apply stamped_refl|reflexivity]].
    destruct (_ <? top s); [apply scroll_stamped|].
    destruct (bot s <? _); [apply scroll_stamped|split; [apply stamped_refl|reflexivity]]. }
  destruct q as [s1 y3]. cbn [fst] in Hq. destruct Hq as (H1 & H2). split; [|exact H2].
  eapply stamped_trans; [exact H1|]. apply stamped_rows. reflexivity.
Qed.

(* one printable glyph: head, continuations, and the blanks that replace the
   glyphs it cuts all carry the current style; so does a line scrolled in *)
Theorem write_glyph_stamped txt w0 s :
  stamped (sty s) s (write_glyph txt w0 s) /\ sty (write_glyph txt w0 s) = sty s.
Proof.
  unfold write_glyph. destruct (negb (crash s =? 0)); [split; [apply stamped_refl|reflexivity]|].
  set (w1 := if w0 <? 1 then 1 else w0).
  set (sa := if sW s <? w1 then add_trig trWideOnNarrow s else s).
  assert (Ha : rows sa = rows s /\ sty sa = sty s) by (subst sa; destruct (sW s <? w1); auto).
  destruct Ha as (Ra & Sa).
  set (w := if sW sa <? w1 then sW sa else w1).
  set (s1 := if sW sa <? cx sa + w then _ else sa).
  assert (H1 : stamped (sty s) s s1 /\ sty s1 = sty s).
  { assert (Base : stamped (sty s) s sa) by (apply stamped_rows, Ra).
    subst s1. destruct (sW sa <? cx sa + w); [|auto].
    destruct (awrap sa).
    - destruct (move_cursor_stamped (- cx sa) 1 false true sa) as (M1 & M2). rewrite Sa in *.
      split; [eapply stamped_trans; eassumption|exact M2].
    - split; [eapply stamped_trans; [exact Base|apply stamped_rows; reflexivity]|exact Sa]. }
  destruct H1 as (St1 & E1).
  set (s2 := write_row_cells crText (cx s1) (cy s1) (glyph_cells txt w (sty s1)) s1).
  assert (H2 : stamped (sty s) s s2 /\ sty s2 = sty s).
  { split.
    - eapply stamped_trans; [exact St1|]. rewrite <- E1. apply write_row_cells_stamped.
      apply Forall_forall. intros c Hc. eapply glyph_cells_style, Hc.
    - subst s2. rewrite write_row_cells_sty. exact E1. }
  destruct H2 as (St2 & E2).
  destruct (negb (crash s2 =? 0)); [split; assumption|].
  destruct (move_cursor_stamped w 0 true true s2) as (M1 & M2). rewrite E2 in *.
  split; [eapply stamped_trans; eassumption|exact M2].
Qed.

(* DCH: tail fill in the current style; the halves of cut glyphs keep theirs *)
Theorem delete_chars_stamped x y n s :
  stamped_cut (sty s) s (delete_chars x y n s) /\ sty (delete_chars x y n s) = sty s.
Proof.
  unfold delete_chars.
  assert (Same : stamped_cut (sty s) s s) by (intros c H; left; exact H).
  destruct (_ || _); [split; [exact Same|reflexivity]|]. cbv zeta.
  destruct (_ || _); [split; [exact Same|reflexivity]|].
  set (x1 := if x <? 0 then 0 else x).
  set (s' := if is_cont _ then add_trig trSecondHalf s else s).
  assert (E : rows s' = rows s /\ sty s' = sty s) by (subst s'; destruct (is_cont _); auto).
  destruct E as (ER & ES). split; [|cbn [emit set_evs set_rows sty]; exact ES].
  intros c (r & Hr & Hc). cbn [emit set_evs set_rows rows] in Hr. rewrite ER in Hr.
  apply In_zupd in Hr. destruct Hr as [->|Hr]; [|left; exists r; auto].
  apply delete_cells_cells in Hc. rewrite ES in Hc.
  destruct Hc as [Hc|[Hc|(c0 & Hc0 & Hc)]].
  - left. eapply row_at_cells, Hc.
  - right. left. subst. reflexivity.
  - right. right. exists c0. split; [eapply row_at_cells, Hc0|exact Hc].
Qed.

(* resize: padding (right and below) in the current style; cut halves keep theirs *)
Theorem set_size_stamped w h s : 0 < w -> 0 < h ->
  stamped_cut (sty s) s (set_size w h s) /\ sty (set_size w h s) = sty s.
Proof.
  intros Hw Hh. unfold set_size.
  destruct (Z.leb_spec w 0); [lia|]. destruct (Z.leb_spec h 0); [lia|]. cbn [orb].
  destruct (if _ <? top s then _ else _) as [t' b'].
  split; [|reflexivity].
  intros c (r & Hr & Hc). unfold set_style in Hr. cbn [emit set_evs set_sty set_margins set_saved set_cur set_dims rows] in Hr.
  apply in_app_or in Hr. destruct Hr as [Hr|Hr].
  - apply in_map_iff in Hr. destruct Hr as (r0 & <- & Hr0). apply In_zfirstn in Hr0.
    apply fit_row_cells in Hc. destruct Hc as [Hc|[Hc|(c0 & Hc0 & Hc)]].
    + left. exists r0. auto.
    + right. left. subst. reflexivity.
    + right. right. exists c0. split; [exists r0; auto|exact Hc].
  - apply In_zrepeat in Hr. subst r. apply blank_row_style in Hc. subst c. right. left. reflexivity.
Qed.

(* ---------- examples ---------- *)
Example overwrite_example :
  let red := mkStyle (CIdx 1) CDef 0 in let blue := mkStyle (CIdx 4) CDef 1 in
  (* "a", wide glyph W (2 cells), "b" in red; write "x" in blue over the second half of W *)
  let row := [mkCell [97] 1 red; mkCell [87] 2 red; contc red; mkCell [98] 1 red] in
  overwrite blue 2 [mkCell [120] 1 blue] row = [mkCell [97] 1 red; blank blue; mkCell [120] 1 blue; mkCell [98] 1 red].
Proof. vm_compute. reflexivity. Qed.

Example delete_example :
  let red := mkStyle (CIdx 1) CDef 0 in let blue := mkStyle (CIdx 4) CDef 1 in
  let row := [mkCell [97] 1 red; mkCell [87] 2 red; contc red; mkCell [98] 1 red] in
  delete_cells blue 2 1 row = [mkCell [97] 1 red; blank red; mkCell [98] 1 red; blank blue].
Proof. vm_compute. reflexivity. Qed.

(* printing "x" in blue onto the second half of a red wide glyph: both halves are
   rewritten, both in blue, whatever they held *)
Example write_glyph_example :
  let red := mkStyle (CIdx 1) CDef 0 in let blue := mkStyle (CIdx 4) CDef 1 in
  let s := mkScreen [[mkCell [87] 2 red; contc red; mkCell [98] 1 red]] 3 1 1 0 0 0 0 0 false blue 0 0 [] in
  rows (write_glyph [120] 1 s) = [[blank blue; mkCell [120] 1 blue; mkCell [98] 1 red]] /\
  sty (write_glyph [120] 1 s) = blue.
Proof. vm_compute. split; reflexivity. Qed.

(* erasing the first cell of the same row: the orphaned half becomes a blank in the current style too *)
Example erase_example :
  let red := mkStyle (CIdx 1) CDef 0 in let blue := mkStyle (CIdx 4) CDef 1 in
  let s := mkScreen [[mkCell [87] 2 red; contc red; mkCell [98] 1 red]] 3 1 1 0 0 0 0 0 false blue 0 0 [] in
  rows (erase_region 0 0 1 1 s) = [[blank blue; blank blue; mkCell [98] 1 red]].
Proof. vm_compute. reflexivity. Qed.
