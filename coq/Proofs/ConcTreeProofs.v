(* Proofs/ConcTreeProofs.v -- the checker run on the generated call graphs:
   Gen/Gen_CallGraph.v (tree with the D43 and D29 repairs) and
   Spec/CallGraphBefore.v (frozen: the tree at commit 2aa04f2, before the D43 and D29 repairs).  All closed by computation. *)

From Coq Require Import List String.
From Termemu Require Import Conc ConcSpec ConcRefute ConcRefuteProofs.
From Termemu Require Gen_CallGraph CallGraphBefore.
Import ListNotations.
Open Scope string_scope.

Definition repaired : program := with_client Gen_CallGraph.prog.
Definition head : program := with_client CallGraphBefore.prog.

(* Repaired tree: passes with the recorded exceptions. *)
Lemma tree_ok : check repaired c15_exceptions c15_entries = true.
Proof. vm_compute. reflexivity. Qed.

Lemma tree_no_findings : check_explain repaired c15_exceptions c15_entries = Some [].
Proof. vm_compute. reflexivity. Qed.

(* D38 is real: without its exception the check fails, every finding lies below
   the call edge ptyReadOne -> handleCommand, and one of them is the backend
   read in GraphemeReader.fill. *)
Lemma D38_needed : check repaired exc_debug c15_entries = false.
Proof. vm_compute. reflexivity. Qed.

Lemma D38_explained :
  all_through "terminal.ptyReadOne{}" "terminal.handleCommand{MTerm }"
              (check_explain repaired exc_debug c15_entries) = true
  /\ has_path path_D38 (check_explain repaired exc_debug c15_entries) = true.
Proof. vm_compute. split; reflexivity. Qed.

(* The debugPause exception is needed as well (new finding). *)
Lemma debugPause_needed : check repaired exc_D38 c15_entries = false.
Proof. vm_compute. reflexivity. Qed.

Lemma debugPause_explained : check_explain repaired exc_D38 c15_entries = Some [finding_debugPause].
Proof. vm_compute. reflexivity. Qed.

(* /repo HEAD: fails; the findings are exactly D29 and D43. *)
Lemma head_fails : check head c15_exceptions c15_entries = false.
Proof. vm_compute. reflexivity. Qed.

Lemma head_explained : check_explain head c15_exceptions c15_entries = Some (finding_D29 :: findings_D43).
Proof. vm_compute. reflexivity. Qed.

(* Per repair: the entry fails on HEAD with the stated explanation and passes
   on the repaired tree. *)
Lemma D29_before : check head c15_exceptions [("TTYFrontend.Attach", N)] = false
  /\ check_explain head c15_exceptions [("TTYFrontend.Attach", N)] = Some [finding_D29].
Proof. vm_compute. split; reflexivity. Qed.

Lemma D29_after : check repaired c15_exceptions [("TTYFrontend.Attach", N)] = true.
Proof. vm_compute. reflexivity. Qed.

Lemma D43_before : check head c15_exceptions [("terminal.ptyReadLoop", N)] = false
  /\ check_explain head c15_exceptions [("terminal.ptyReadLoop", N)] = Some findings_D43.
Proof. vm_compute. split; reflexivity. Qed.

Lemma D43_after : check repaired c15_exceptions [("terminal.ptyReadLoop", N)] = true.
Proof. vm_compute. reflexivity. Qed.

(* Semantic refutations: executions of the model with an unsafe observation,
   found by [refute] (sound by [refute_sound]). *)
Lemma D29_semantic : refuted head c15_exceptions c15_entries "TTYFrontend.Attach" N.
Proof. eapply (refute_sound 2000). vm_compute. reflexivity. Qed.

Lemma D29_witness :
  witness 2000 head c15_exceptions c15_entries "TTYFrontend.Attach" N
  = Some (["TTYFrontend.Attach"], only MTty, ALock MTerm).
Proof. vm_compute. reflexivity. Qed.

Lemma D43_semantic : refuted head c15_exceptions c15_entries "terminal.ptyReadLoop" N.
Proof. eapply (refute_sound 2000). vm_compute. reflexivity. Qed.

Lemma D43_witness :
  witness 2000 head c15_exceptions c15_entries "terminal.ptyReadLoop" N
  = Some (["terminal.ptyReadLoop"; "terminal.ptyReadOne"; "terminal.screen"], no_locks,
          AAccess MTerm "terminal.onAltScreen" false).
Proof. vm_compute. reflexivity. Qed.

Lemma D38_semantic : refuted repaired exc_debug c15_entries "terminal.ptyReadLoop" N.
Proof. eapply (refute_sound 2000). vm_compute. reflexivity. Qed.

Lemma D38_witness :
  witness 2000 repaired exc_debug c15_entries "terminal.ptyReadLoop" N
  = Some (["terminal.ptyReadLoop"; "terminal.ptyReadOne"; "terminal.handleCommand"], only MTerm,
          ABlock "termemu.escapeReader.ReadByte").
Proof. vm_compute. reflexivity. Qed.

Lemma debugPause_semantic : refuted repaired exc_D38 c15_entries "terminal.ptyReadLoop" N.
Proof. eapply (refute_sound 2000). vm_compute. reflexivity. Qed.

Lemma debugPause_witness :
  witness 2000 repaired exc_D38 c15_entries "terminal.ptyReadLoop" N
  = Some (["terminal.ptyReadLoop"; "terminal.ptyReadOne"; "spanScreen.writeString"; "spanScreen.writeRun";
           "spanScreen.moveCursor"; "spanScreen.scroll"; "debugPrintln"; "debugPause"], only MTerm,
          ABlock "(*os.File).Read").
Proof. vm_compute. reflexivity. Qed.

(* The concurrent reading of D29 on HEAD, in the interleaving semantics, is
   not constructed here; see REPORT.md. *)
