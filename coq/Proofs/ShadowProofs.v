(* C10, first sentence: "a frontend that keeps its own copy of the screen and, on each RegionChanged,
   refreshes only the announced cells by reading them back always ends each input with an exact copy of
   the active screen, including across scrolls and buffer switches".

   GRANULARITY.  The model records, per token, the state after the token and the callbacks issued
   during it (the new prefix of [tlog]), not the intermediate state at each callback.  The shadow
   semantics is therefore stated at TOKEN granularity: after each token the frontend refreshes exactly
   the cells covered by the RegionChanged callbacks issued during that token, reading them from the
   state after the token.  (A frontend that reads at each callback reads a state that already contains
   that callback's change - C10_primitives - and, for a cell that a later callback of the same token
   changes again, is told again; the token-level statement is what the model can express.)

   The shadow is data: rows of cells, compared with [rows (active t)]. *)
From Coq Require Import List ZArith Bool Lia.
From Termemu Require Import Base Style Screen Kbd Parser Term BaseLemmas ScreenInv TermInv CursorProofs
  IsolationProofs HistProofs NotifyProofs.
Import ListNotations.
Open Scope Z_scope.

(* ---------- the announced cells, decidably ---------- *)
Definition coversb (e : event) (x y : Z) : bool :=
  match e with
  | ERegion x1 y1 x2 y2 _ => (x1 <=? x) && (x <? x2) && ((y1 <=? y) && (y <? y2))
  | _ => false
  end.

Definition announcedb (l : list event) (x y : Z) : bool := existsb (fun e => coversb e x y) l.

Lemma coversb_spec e x y : coversb e x y = true <-> covers e x y.
Proof.
  destruct e; cbn [coversb covers]; try (split; [discriminate|contradiction]).
  rewrite !andb_true_iff, !Z.leb_le, !Z.ltb_lt. tauto.
Qed.

Lemma announcedb_spec l x y : announcedb l x y = true <-> announced l x y.
Proof.
  unfold announcedb, announced. rewrite existsb_exists.
  split; intros (e & Hin & Hc); exists e; (split; [exact Hin|apply coversb_spec, Hc]).
Qed.

Lemma announcedb_false l x y : announcedb l x y = false -> ~ announced l x y.
Proof. intros E A. apply announcedb_spec in A. congruence. Qed.

(* ---------- the callbacks of one step: the new prefix of the log ---------- *)
Definition delta (t t' : term) : list event := firstn (length (tlog t') - length (tlog t)) (tlog t').

Lemma delta_app t t' l : tlog t' = l ++ tlog t -> delta t t' = l.
Proof.
  intros E. unfold delta. rewrite E, app_length.
  replace (length l + length (tlog t) - length (tlog t))%nat with (length l + 0)%nat by lia.
  rewrite firstn_app_2. cbn [firstn]. apply app_nil_r.
Qed.

(* ---------- the shadow ---------- *)
Notation shadow := (list (list cell)) (only parsing).

(* same access path as [cell_at]: [cell_at s x y] is [sh_cell (rows s) x y] *)
Definition sh_cell (sh : shadow) (x y : Z) : cell := znth x (znth y sh []) dcell.

Lemma sh_cell_rows s x y : sh_cell (rows s) x y = cell_at s x y.
Proof. reflexivity. Qed.

(* the shadow shows the screen: every cell inside the screen is the screen's *)
Definition agrees (sh : shadow) (s : screen) : Prop :=
  forall x y, 0 <= x < sW s -> 0 <= y < sH s -> sh_cell sh x y = cell_at s x y.

Lemma agrees_rows s : agrees (rows s) s.
Proof. intros x y _ _. reflexivity. Qed.

Lemma agrees_eq sh s : sh = rows s -> agrees sh s.
Proof. intros ->. apply agrees_rows. Qed.

(* the shadow after refreshing, from screen [new], exactly the cells announced in [l]; every other
   cell keeps the shadow's value.  The result has the size of [new] (both buffers of a terminal always
   have the same size, and Resize is handled by a full repaint, so this is the size the shadow had). *)
Definition refresh (l : list event) (new : screen) (sh : shadow) : shadow :=
  map (fun y => map (fun x => if announcedb l x y then cell_at new x y else sh_cell sh x y)
                    (zseq 0 (sW new)))
      (zseq 0 (sH new)).

(* ---------- lists indexed by Z ---------- *)
Lemma length_zseq_nat n : forall a, length (zseq_nat a n) = n.
Proof. induction n as [|n IH]; intros a; cbn [zseq_nat length]; [reflexivity|]. rewrite IH. reflexivity. Qed.

Lemma nth_zseq_nat n : forall a i d, (i < n)%nat -> nth i (zseq_nat a n) d = a + Z.of_nat i.
Proof.
  induction n as [|n IH]; intros a i d Hi; [lia|]. cbn [zseq_nat].
  destruct i as [|i]; cbn [nth]; [lia|]. rewrite IH by lia. lia.
Qed.

Lemma zlen_zseq0 n : 0 <= n -> zlen (zseq 0 n) = n.
Proof. intros H. unfold zlen, zseq. rewrite length_zseq_nat. lia. Qed.

Lemma znth_zseq0 n i d : 0 <= i < n -> znth i (zseq 0 n) d = i.
Proof.
  intros H. unfold znth, zseq. destruct (Z.ltb_spec i 0); [lia|].
  rewrite nth_zseq_nat by lia. lia.
Qed.

Lemma znth_ext {A} (a b : list A) d : zlen a = zlen b ->
  (forall i, 0 <= i < zlen a -> znth i a d = znth i b d) -> a = b.
Proof.
  intros Hl He. apply (nth_ext a b d d); [unfold zlen in Hl; lia|].
  intros n Hn. specialize (He (Z.of_nat n) ltac:(unfold zlen; lia)).
  unfold znth in He. destruct (Z.ltb_spec (Z.of_nat n) 0); [lia|]. rewrite Nat2Z.id in He. exact He.
Qed.

(* a well-formed screen's rows are the table of its cells *)
Lemma rows_tabulate s : Inv s ->
  rows s = map (fun y => map (fun x => cell_at s x y) (zseq 0 (sW s))) (zseq 0 (sH s)).
Proof.
  intros Hs. pose proof (inv_w s Hs) as HW. pose proof (inv_h s Hs) as HH.
  apply (znth_ext _ _ []).
  - rewrite zlen_map, zlen_zseq0 by lia. apply (inv_rows s Hs).
  - rewrite (inv_rows s Hs). intros y Hy.
    rewrite (znth_map _ y _ 0) by (rewrite zlen_zseq0; lia). rewrite znth_zseq0 by lia.
    pose proof (row_at_len s y Hs Hy) as Hl. unfold row_at in Hl.
    apply (znth_ext _ _ dcell).
    + rewrite zlen_map, zlen_zseq0 by lia. exact Hl.
    + rewrite Hl. intros x Hx.
      rewrite (znth_map _ x _ 0) by (rewrite zlen_zseq0; lia). rewrite znth_zseq0 by lia. reflexivity.
Qed.

Lemma sh_cell_refresh l new sh x y : 0 <= x < sW new -> 0 <= y < sH new ->
  sh_cell (refresh l new sh) x y = if announcedb l x y then cell_at new x y else sh_cell sh x y.
Proof.
  intros Hx Hy. unfold sh_cell at 1, refresh.
  rewrite (znth_map _ y _ 0) by (rewrite zlen_zseq0; lia). rewrite znth_zseq0 by lia.
  rewrite (znth_map _ x _ 0) by (rewrite zlen_zseq0; lia). rewrite znth_zseq0 by lia. reflexivity.
Qed.

(* if every cell that is not refreshed already has the new screen's value, the refreshed shadow IS the
   new screen's rows *)
Lemma refresh_exact l new sh : Inv new ->
  (forall x y, 0 <= x < sW new -> 0 <= y < sH new -> announcedb l x y = false -> sh_cell sh x y = cell_at new x y) ->
  refresh l new sh = rows new.
Proof.
  intros Hs Hc. rewrite (rows_tabulate new Hs). unfold refresh.
  apply map_ext_in. intros y Hy. apply map_ext_in. intros x Hx.
  pose proof (zseq_range 0 (sH new)) as Ry. pose proof (zseq_range 0 (sW new)) as Rx.
  rewrite Forall_forall in Ry, Rx. specialize (Ry y Hy). specialize (Rx x Hx). cbn beta in Ry, Rx.
  destruct (announcedb l x y) eqn:E; [reflexivity|]. apply Hc; assumption.
Qed.

(* ---------- what one token tells the frontend, switches included ---------- *)
(* [TFramed] without "the same buffer is active": the callbacks issued between t and t' extend the log,
   the active screen keeps its size, and every cell of the screen shown at t' that none of the new
   RegionChanged callbacks covers has the value the screen shown at t had there. *)
Definition TAnn (t t' : term) : Prop :=
  sW (active t') = sW (active t) /\ sH (active t') = sH (active t) /\
  exists l, tlog t' = l ++ tlog t /\
    forall x y, 0 <= x < sW (active t) -> 0 <= y < sH (active t) -> ~ announced l x y ->
      cell_at (active t') x y = cell_at (active t) x y.

Lemma TAnn_refl t : TAnn t t.
Proof. split; [reflexivity|]. split; [reflexivity|]. exists []. split; [reflexivity|auto]. Qed.

Lemma TAnn_trans a b c : TAnn a b -> TAnn b c -> TAnn a c.
Proof.
  intros (W1 & H1 & l1 & E1 & C1) (W2 & H2 & l2 & E2 & C2).
  split; [congruence|]. split; [congruence|].
  exists (l2 ++ l1). split; [rewrite E2, E1, app_assoc; reflexivity|].
  intros x y Hx Hy Hn. rewrite C2; [apply C1; auto|rewrite W1; exact Hx|rewrite H1; exact Hy|].
  - intros A. apply Hn, announced_app. right. exact A.
  - intros A. apply Hn, announced_app. left. exact A.
Qed.

Lemma TAnn_framed t t' : sW (active t') = sW (active t) -> sH (active t') = sH (active t) ->
  TFramed t t' -> TAnn t t'.
Proof. intros W H (_ & l & E & C). split; [exact W|]. split; [exact H|]. exists l. split; assumption. Qed.

Lemma active_dims_switch t : TInv t ->
  sW (active (switch_screen t)) = sW (active t) /\ sH (active (switch_screen t)) = sH (active t).
Proof.
  intros [_ _ W H]. unfold switch_screen, active, log_ev. cbn [onalt tmain talt].
  destruct (onalt t); cbn [negb]; split; congruence.
Qed.

(* the switch: the whole screen now shown is among the new callbacks, so no cell is left unannounced *)
Lemma TAnn_switch t : TInv t -> TAnn t (switch_screen t).
Proof.
  intros Ht. destruct (active_dims_switch t Ht) as (W & H).
  split; [exact W|]. split; [exact H|].
  eexists [_; _; _]. split; [apply switch_announces|].
  intros x y Hx Hy Hn. exfalso. apply Hn.
  eexists. split; [right; right; left; reflexivity|]. cbn [covers]. rewrite W, H. lia.
Qed.

(* one DEC private mode parameter, 1049 included: modes are level-triggered, so 1049 either does
   nothing (no callback, no change) or switches (whole screen announced) *)
Lemma TAnn_dec_mode v p t : TInv t -> TAnn t (dec_mode v p t).
Proof.
  intros Ht. destruct (Z.eq_dec p 1049) as [->|Hp].
  - unfold dec_mode. cbn [Z.eqb Pos.eqb].
    destruct (Bool.eqb (onalt t) v); [apply TAnn_refl|apply TAnn_switch, Ht].
  - destruct (active_dims_dec_mode v p t Ht) as (W & H).
    apply TAnn_framed; [exact W|exact H|apply TFramed_dec_mode; assumption].
Qed.

(* a parameter list: by induction, each parameter acting on the state the previous one left; a list
   that switches several times, or not at all, is covered by transitivity *)
Lemma TAnn_dec_modes v ps : forall t, TInv t -> TAnn t (fold_left (fun t p => dec_mode v p t) ps t).
Proof.
  induction ps as [|p ps IH]; intros t Ht; cbn [fold_left]; [apply TAnn_refl|].
  apply (TAnn_trans t (dec_mode v p t)); [apply TAnn_dec_mode, Ht|apply IH, TInv_dec_mode, Ht].
Qed.

(* a token that does not switch keeps the size of the active screen: the same buffer stays active, the
   inactive one is untouched, and both have the same size before and after *)
Lemma active_dims_noswitch k t : TInv t -> ~ is_switch k ->
  sW (active (exec_tok k t)) = sW (active t) /\ sH (active (exec_tok k t)) = sH (active t).
Proof.
  intros Ht Hn. pose proof (TInv_exec_tok k t Ht) as Ht'.
  destruct (keeps_exec_tok k t Hn) as (O & I & _).
  destruct Ht as [_ _ W H]. destruct Ht' as [_ _ W' H'].
  unfold inactive in I. rewrite O in I. unfold active. rewrite O.
  destruct (onalt t); split; congruence.
Qed.

Lemma is_switch_prefix prefix ps f : is_switch (TCsi prefix ps f) -> prefix = 63.
Proof.
  unfold is_switch. destruct prefix as [|p|p]; try contradiction.
  do 6 (try (destruct p as [p|p|]; try contradiction)). intros _. reflexivity.
Qed.

(* EVERY token, switching or not *)
Theorem exec_tok_ann k t : TInv t -> TAnn t (exec_tok k t).
Proof.
  intros Ht.
  assert (NS : ~ is_switch k -> TAnn t (exec_tok k t)).
  { intros Hn. destruct (active_dims_noswitch k t Ht Hn) as (W & H).
    apply TAnn_framed; [exact W|exact H|apply exec_tok_framed; assumption]. }
  destruct k as [txt r w|b|b| |prefix ps f|n p]; try (apply NS; intros []).
  destruct (Z.eq_dec prefix 63) as [->|Hp]; [|apply NS; intros Hs; apply Hp, (is_switch_prefix _ _ _ Hs)].
  destruct (Z.eq_dec f 104) as [->|H104].
  { cbn [exec_tok]. unfold exec_csi. cbn [Z.eqb Pos.eqb]. apply TAnn_dec_modes, Ht. }
  destruct (Z.eq_dec f 108) as [->|H108].
  { cbn [exec_tok]. unfold exec_csi. cbn [Z.eqb Pos.eqb]. apply TAnn_dec_modes, Ht. }
  apply NS. cbn [is_switch]. intros [[E|E] _]; contradiction.
Qed.

(* a token that really changes the shown buffer has a whole-screen region among its callbacks *)
Lemma dec_modes_switch_announced v ps : forall t, TInv t ->
  let t' := fold_left (fun t p => dec_mode v p t) ps t in
  onalt t' <> onalt t -> exists l, tlog t' = l ++ tlog t /\
    forall x y, 0 <= x < sW (active t') -> 0 <= y < sH (active t') -> announced l x y.
Proof.
  induction ps as [|p ps IH]; intros t Ht; cbn [fold_left]; cbv zeta; [intros H; contradiction H; reflexivity|].
  intros Ho. pose proof (TInv_dec_mode v p t Ht) as Ht1.
  destruct (TAnn_dec_modes v ps _ Ht1) as (W2 & H2 & l2 & E2 & _).
  destruct (Bool.bool_dec (onalt (fold_left (fun t p => dec_mode v p t) ps (dec_mode v p t))) (onalt (dec_mode v p t))) as [Oe|One].
  - (* the rest does not switch: this parameter does *)
    destruct (Z.eq_dec p 1049) as [->|Hp].
    + unfold dec_mode in *. cbn [Z.eqb Pos.eqb] in *.
      destruct (Bool.eqb (onalt t) v); [congruence|].
      exists (l2 ++ [EStyle (sty (active (switch_screen t))); ECursor (cx (active (switch_screen t))) (cy (active (switch_screen t)));
                      ERegion 0 0 (sW (active (switch_screen t))) (sH (active (switch_screen t))) crScreenSwitch]).
      split; [rewrite E2, switch_announces, <- app_assoc; reflexivity|].
      intros x y Hx Hy. apply announced_app. right.
      eexists. split; [right; right; left; reflexivity|]. cbn [covers]. rewrite <- W2, <- H2. lia.
    + exfalso. apply Ho. rewrite Oe. apply (TFramed_dec_mode v p t Ht Hp).
  - destruct (IH _ Ht1 One) as (l & E & C).
    destruct (TAnn_dec_mode v p t Ht) as (_ & _ & l1 & E1 & _).
    exists (l ++ l1). split; [rewrite E, E1, app_assoc; reflexivity|].
    intros x y Hx Hy. apply announced_app. left. apply C; assumption.
Qed.

Theorem switch_token_announces_all k t : TInv t -> onalt (exec_tok k t) <> onalt t ->
  forall x y, 0 <= x < sW (active (exec_tok k t)) -> 0 <= y < sH (active (exec_tok k t)) ->
    announced (delta t (exec_tok k t)) x y.
Proof.
  intros Ht Ho.
  assert (SW : is_switch k).
  { destruct k as [txt r w|b|b| |prefix ps f|n p];
      try (exfalso; apply Ho; apply exec_tok_framed; [exact Ht|intros []]).
    destruct (Z.eq_dec prefix 63) as [->|Hp];
      [|exfalso; apply Ho; apply exec_tok_framed; [exact Ht|intros Hs; apply Hp, (is_switch_prefix _ _ _ Hs)]].
    destruct (in_dec Z.eq_dec 1049 ps) as [Hin|Hnin];
      [|exfalso; apply Ho; apply exec_tok_framed; [exact Ht|intros [_ Hs]; contradiction]].
    destruct (Z.eq_dec f 104) as [->|H104]; [split; [left; reflexivity|exact Hin]|].
    destruct (Z.eq_dec f 108) as [->|H108]; [split; [right; reflexivity|exact Hin]|].
    exfalso; apply Ho; apply exec_tok_framed; [exact Ht|intros [[E|E] _]; contradiction]. }
  destruct k as [txt r w|b|b| |prefix ps f|n p]; try contradiction.
  pose proof (is_switch_prefix _ _ _ SW) as ->. destruct SW as [[->| ->] _].
  - cbn [exec_tok] in *. unfold exec_csi in *. cbn [Z.eqb Pos.eqb] in *.
    destruct (dec_modes_switch_announced true ps t Ht Ho) as (l & E & C).
    rewrite (delta_app _ _ l E). exact C.
  - cbn [exec_tok] in *. unfold exec_csi in *. cbn [Z.eqb Pos.eqb] in *.
    destruct (dec_modes_switch_announced false ps t Ht Ho) as (l & E & C).
    rewrite (delta_app _ _ l E). exact C.
Qed.

(* ---------- one token ---------- *)
(* The shadow shows the active screen before the token; the frontend refreshes the cells covered by the
   RegionChanged callbacks issued during the token, reading them from the state after the token; then
   the shadow is exactly the rows of the screen now active - whatever the token, switching or not. *)
Theorem shadow_token k t sh : TInv t -> agrees sh (active t) ->
  refresh (delta t (exec_tok k t)) (active (exec_tok k t)) sh = rows (active (exec_tok k t)).
Proof.
  intros Ht Ha. pose proof (TInv_exec_tok k t Ht) as Ht'.
  destruct (exec_tok_ann k t Ht) as (W & H & l & E & C).
  rewrite (delta_app _ _ l E).
  apply refresh_exact.
  - unfold active. destruct Ht' as [Im Ia _ _]. destruct (onalt (exec_tok k t)); assumption.
  - intros x y Hx Hy Hb. rewrite W in Hx. rewrite H in Hy.
    rewrite (C x y Hx Hy (announcedb_false _ _ _ Hb)). apply Ha; assumption.
Qed.

Corollary shadow_token_agrees k t sh : TInv t -> agrees sh (active t) ->
  agrees (refresh (delta t (exec_tok k t)) (active (exec_tok k t)) sh) (active (exec_tok k t)).
Proof. intros Ht Ha. apply agrees_eq, shadow_token; assumption. Qed.

(* ---------- the read loop, instrumented with the shadow ---------- *)
Section Run.
  Variable wc : Z -> Z.
  Variable grid : bool.

  (* [run_pending] carrying the frontend's shadow; [sel] says which of a token's callbacks the
     frontend honours (the identity for the frontend of C10; a lossy one for the counter-example) *)
  Fixpoint run_pending_with (sel : list event -> list event) (fuel : nat) (t : term) (inp : list Z) (sh : shadow)
    : term * list Z * shadow :=
    match fuel with
    | O => (t, inp, sh)
    | S f =>
        if crashed t then (t, inp, sh) else
        match parse_one wc grid inp with
        | PMore => (t, inp, sh)
        | PTok k rest =>
            let t' := exec_tok k t in
            run_pending_with sel f t' rest (refresh (sel (delta t t')) (active t') sh)
        end
    end.

  Definition run_pending_sh := run_pending_with (fun l => l).
  Definition run_bytes_sh (t : term) (inp : list Z) (sh : shadow) : term * list Z * shadow :=
    run_pending_sh (S (length inp)) t inp sh.

  (* what the instrumented loop does, spelled out: one token, then the refresh from the state after it *)
  Lemma run_pending_sh_O t inp sh : run_pending_sh 0 t inp sh = (t, inp, sh).
  Proof. reflexivity. Qed.
  Lemma run_pending_sh_S f t inp sh :
    run_pending_sh (S f) t inp sh =
      if crashed t then (t, inp, sh) else
      match parse_one wc grid inp with
      | PMore => (t, inp, sh)
      | PTok k rest =>
          run_pending_sh f (exec_tok k t) rest
            (refresh (delta t (exec_tok k t)) (active (exec_tok k t)) sh)
      end.
  Proof. reflexivity. Qed.

  (* the instrumentation does not change the run *)
  Lemma run_pending_with_fst sel fuel : forall t inp sh,
    fst (run_pending_with sel fuel t inp sh) = run_pending wc grid fuel t inp.
  Proof.
    induction fuel as [|f IH]; intros t inp sh; cbn [run_pending_with run_pending]; [reflexivity|].
    destruct (crashed t); [reflexivity|].
    destruct (parse_one wc grid inp) as [|k rest]; [reflexivity|]. apply IH.
  Qed.

  Lemma run_pending_sh_fst fuel t inp sh : fst (run_pending_sh fuel t inp sh) = run_pending wc grid fuel t inp.
  Proof. apply run_pending_with_fst. Qed.

  Lemma run_bytes_sh_fst t inp sh : fst (run_bytes_sh t inp sh) = run_bytes wc grid t inp.
  Proof. apply run_pending_with_fst. Qed.

  (* the shadow shows the active screen after the loop if it did before *)
  Theorem shadow_run fuel : forall t inp sh, TInv t -> agrees sh (active t) ->
    agrees (snd (run_pending_sh fuel t inp sh)) (active (fst (run_pending wc grid fuel t inp))).
  Proof.
    unfold run_pending_sh.
    induction fuel as [|f IH]; intros t inp sh Ht Ha; cbn [run_pending_with run_pending]; [exact Ha|].
    rewrite (TInv_not_crashed t Ht).
    destruct (parse_one wc grid inp) as [|k rest]; [exact Ha|].
    apply IH; [apply TInv_exec_tok, Ht|apply shadow_token_agrees; assumption].
  Qed.

  (* ... and it is an exact copy if it was before *)
  Theorem shadow_run_exact fuel : forall t inp sh, TInv t -> sh = rows (active t) ->
    snd (run_pending_sh fuel t inp sh) = rows (active (fst (run_pending wc grid fuel t inp))).
  Proof.
    unfold run_pending_sh.
    induction fuel as [|f IH]; intros t inp sh Ht Ha; cbn [run_pending_with run_pending]; [exact Ha|].
    rewrite (TInv_not_crashed t Ht).
    destruct (parse_one wc grid inp) as [|k rest]; [exact Ha|].
    apply IH; [apply TInv_exec_tok, Ht|apply shadow_token; [exact Ht|apply agrees_eq, Ha]].
  Qed.

  (* one input (one backend read) *)
  Theorem shadow_feed t inp sh : TInv t -> sh = rows (active t) ->
    fst (run_bytes_sh t inp sh) = run_bytes wc grid t inp /\
    snd (run_bytes_sh t inp sh) = rows (active (fst (run_bytes wc grid t inp))).
  Proof. intros Ht Ha. split; [apply run_bytes_sh_fst|apply shadow_run_exact; assumption]. Qed.

  Theorem shadow_feed_agrees t inp sh : TInv t -> agrees sh (active t) ->
    agrees (snd (run_bytes_sh t inp sh)) (active (fst (run_bytes wc grid t inp))).
  Proof. intros Ht Ha. apply shadow_run; assumption. Qed.

  (* ---------- histories ---------- *)
  (* Resize issues no RegionChanged for the cells it cuts, pads or blanks: the frontend that called
     Resize repaints everything (shadow := the rows of the screen shown after the resize).  That is
     outside the quantifier of the property ("on each RegionChanged ... ends each input"), which is
     about inputs; it is modelled here so that histories can interleave the two. *)
  Definition hstep_sh (st : term * list Z * shadow) (o : hop) : term * list Z * shadow :=
    match o with
    | HFeed bs => run_bytes_sh (fst (fst st)) (snd (fst st) ++ bs) (snd st)
    | HResize w h =>
        if crashed (fst (fst st)) then st
        else (resize w h (fst (fst st)), snd (fst st), rows (active (resize w h (fst (fst st)))))
    end.

  Definition run_hist_sh (t : term) (sh : shadow) (ops : list hop) : term * list Z * shadow :=
    fold_left hstep_sh ops (t, [], sh).

  Lemma hstep_sh_fst st o : fst (hstep_sh st o) = hstep wc grid (fst st) o.
  Proof.
    destruct o as [bs|w h]; cbn [hstep_sh hstep].
    - apply run_bytes_sh_fst.
    - destruct (crashed (fst (fst st))); [reflexivity|]. reflexivity.
  Qed.

  Lemma fold_hstep_sh_fst ops : forall st, fst (fold_left hstep_sh ops st) = fold_left (hstep wc grid) ops (fst st).
  Proof.
    induction ops as [|o ops IH]; intros st; cbn [fold_left]; [reflexivity|].
    rewrite IH, hstep_sh_fst. reflexivity.
  Qed.

  Lemma shadow_hstep st o : TInv (fst (fst st)) -> hop_ok o -> snd st = rows (active (fst (fst st))) ->
    snd (hstep_sh st o) = rows (active (fst (hstep wc grid (fst st) o))).
  Proof.
    intros Ht Ho Ha. destruct o as [bs|w h]; cbn [hstep_sh hstep].
    - apply shadow_run_exact; assumption.
    - rewrite (TInv_not_crashed _ Ht). reflexivity.
  Qed.

  Lemma shadow_fold ops : forall st, TInv (fst (fst st)) -> hist_ok ops -> snd st = rows (active (fst (fst st))) ->
    snd (fold_left hstep_sh ops st) = rows (active (fst (fold_left (hstep wc grid) ops (fst st)))).
  Proof.
    induction ops as [|o ops IH]; intros st Ht Hok Ha; cbn [fold_left]; [exact Ha|].
    inversion Hok as [|? ? Ho Hok']; subst.
    rewrite <- hstep_sh_fst. apply IH.
    - rewrite hstep_sh_fst. apply TInv_hstep; assumption.
    - exact Hok'.
    - rewrite hstep_sh_fst. apply shadow_hstep; assumption.
  Qed.

  (* along every history of inputs and resizes the shadow is an exact copy of the active screen *)
  Theorem shadow_hist t sh ops : TInv t -> hist_ok ops -> sh = rows (active t) ->
    fst (run_hist_sh t sh ops) = run_hist wc grid t ops /\
    snd (run_hist_sh t sh ops) = rows (active (fst (run_hist wc grid t ops))).
  Proof.
    intros Ht Hok Ha. unfold run_hist_sh, run_hist. split.
    - apply (fold_hstep_sh_fst ops (t, [], sh)).
    - apply (shadow_fold ops (t, [], sh)); assumption.
  Qed.

  (* ... after every step of the history ("ends EACH input"), from the initial terminal *)
  Corollary shadow_hist_every_prefix w h ops n : 1 <= w -> 1 <= h -> hist_ok ops ->
    let t0 := init_term w h in
    snd (run_hist_sh t0 (rows (active t0)) (firstn n ops))
    = rows (active (fst (run_hist wc grid t0 (firstn n ops)))).
  Proof.
    intros Hw Hh Hok t0. apply shadow_hist; [apply TInv_init; assumption| |reflexivity].
    unfold hist_ok in *. rewrite <- (firstn_skipn n ops) in Hok. apply Forall_app in Hok. tauto.
  Qed.
End Run.

(* ---------- non-vacuity ---------- *)
(* 4x3 screen: "ab" LF "cd" LF "ef" LF (the third line feed scrolls "ab" off the top) "gh",
   ESC[2;2H ESC[K (erase "f" and the rest of the middle row), then ESC[?1049h "x" ESC[?1049l *)
Definition shadow_example_main : list Z :=
  [97; 98; 10; 99; 100; 10; 101; 102; 10; 103; 104; 27; 91; 50; 59; 50; 72; 27; 91; 75].
Definition shadow_example_alt : list Z :=
  [27; 91; 63; 49; 48; 52; 57; 104; 120; 27; 91; 63; 49; 48; 52; 57; 108].
Definition shadow_example_bytes : list Z := shadow_example_main ++ shadow_example_alt.

Definition has_reason (r : Z) (l : list event) : bool :=
  existsb (fun e => match e with ERegion _ _ _ _ r' => r' =? r | _ => false end) l.

Example shadow_example :
  let t0 := init_term 4 3 in
  let r := run_bytes_sh (fun _ => 1) false t0 shadow_example_bytes (rows (active t0)) in
  let t := fst (fst r) in
  (* the shadow maintained token by token is the final screen, *)
  snd r = rows (active t) /\
  map (map ctext) (snd r) = [[[99]; [100]; [32]; [32]]; [[101]; [32]; [32]; [32]]; [[103]; [104]; [32]; [32]]] /\
  (* everything was consumed, the main screen is shown again, the alternate one holds the "x", *)
  snd (fst r) = [] /\ onalt t = false /\ map ctext (row_at (talt t) 0) = [[120]; [32]; [32]; [32]] /\
  (* and text, erase, scroll and switch regions were all among the callbacks *)
  has_reason crText (tlog t) = true /\ has_reason crClear (tlog t) = true /\
  has_reason crScroll (tlog t) = true /\ has_reason crScreenSwitch (tlog t) = true.
Proof. vm_compute. repeat split. Qed.

(* while the alternate screen is shown the shadow is the alternate screen *)
Example shadow_example_on_alt :
  let t0 := init_term 4 3 in
  let r := run_bytes_sh (fun _ => 1) false t0 (shadow_example_main ++ firstn 9 shadow_example_alt) (rows (active t0)) in
  let t := fst (fst r) in
  snd r = rows (active t) /\ onalt t = true /\
  map (map ctext) (snd r) = [[[120]; [32]; [32]; [32]]; [[32]; [32]; [32]; [32]]; [[32]; [32]; [32]; [32]]].
Proof. vm_compute. repeat split. Qed.

(* the refresh is needed: a frontend that ignores one kind of announced region ends with a wrong copy *)
Definition drop_reason (r : Z) (l : list event) : list event :=
  filter (fun e => match e with ERegion _ _ _ _ r' => negb (r' =? r) | _ => true end) l.

(* ignoring the scroll regions: "ab" stays in the top row of the shadow, "cd" and "e" one row too low *)
Example shadow_needs_scroll_regions :
  let t0 := init_term 4 3 in
  let r := run_pending_with (fun _ => 1) false (drop_reason crScroll) 21 t0 shadow_example_main (rows (active t0)) in
  snd (fst r) = [] /\
  map (map ctext) (snd r) = [[[97]; [98]; [32]; [32]]; [[99]; [32]; [32]; [32]]; [[103]; [104]; [32]; [32]]] /\
  map (map ctext) (rows (active (fst (fst r)))) = [[[99]; [100]; [32]; [32]]; [[101]; [32]; [32]; [32]]; [[103]; [104]; [32]; [32]]] /\
  snd r <> rows (active (fst (fst r))).
Proof.
  vm_compute. repeat split. intros H. discriminate H.
Qed.

(* ignoring the switch regions: after the return to the main screen the shadow still shows the "x" *)
Example shadow_needs_switch_regions :
  let t0 := init_term 4 3 in
  let r := run_pending_with (fun _ => 1) false (drop_reason crScreenSwitch) 38 t0 shadow_example_bytes (rows (active t0)) in
  snd (fst r) = [] /\
  map ctext (znth 0 (snd r) []) = [[120]; [100]; [32]; [32]] /\
  map ctext (row_at (active (fst (fst r))) 0) = [[99]; [100]; [32]; [32]] /\
  snd r <> rows (active (fst (fst r))).
Proof.
  vm_compute. repeat split. intros H. discriminate H.
Qed.
