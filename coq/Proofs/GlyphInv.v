(* Glyph structure of rows ("no half character"): every row is a sequence of
   glyphs, each a head cell of width w >= 1 followed by exactly w-1 continuation
   cells.  Preserved by every screen primitive, every token, Resize, and hence
   along every history (strengthens C02; gives C03's "never left half-visible"). *)
From Coq Require Import List ZArith Bool Lia.
From Termemu Require Import Base Style Screen Kbd Parser Term BaseLemmas ScreenInv TermInv HistProofs.
Import ListNotations.
Open Scope Z_scope.

Inductive row_ok : list cell -> Prop :=
| rok_nil : row_ok []
| rok_glyph c conts rest :
    1 <= cwid c -> Forall (fun k => is_cont k = true) conts -> zlen conts = cwid c - 1 ->
    row_ok rest -> row_ok (c :: conts ++ rest).

Lemma row_ok_app a b : row_ok a -> row_ok b -> row_ok (a ++ b).
Proof.
  induction 1 as [|c conts rest Hw Hc Hl Hr IH]; intros Hb; [exact Hb|].
  cbn [app]. rewrite <- app_assoc. constructor; auto.
Qed.

Lemma row_ok_narrow l : Forall (fun c => cwid c = 1) l -> row_ok l.
Proof.
  induction 1 as [|c l Hc Hl IH]; [constructor|].
  change (c :: l) with (c :: [] ++ l). constructor; [lia|constructor|rewrite Hc; reflexivity|exact IH].
Qed.

Lemma row_ok_blanks st n : row_ok (zrepeat (blank st) n).
Proof. apply row_ok_narrow. unfold zrepeat. induction (Z.to_nat n); cbn; constructor; auto. Qed.

Lemma row_ok_unglyph l : row_ok (map unglyph l).
Proof. apply row_ok_narrow. induction l; cbn; constructor; auto. Qed.

Lemma row_ok_glyph_cells txt w st : 1 <= w -> row_ok (glyph_cells txt w st).
Proof.
  intros Hw. unfold glyph_cells.
  rewrite <- (app_nil_r (zrepeat (contc st) (w - 1))).
  constructor; cbn [cwid]; [lia| |rewrite zlen_zrepeat_nn by lia; reflexivity|constructor].
  unfold zrepeat. induction (Z.to_nat (w - 1)); cbn; constructor; auto.
Qed.

Lemma row_ok_head_noncont c l : row_ok (c :: l) -> is_cont c = false.
Proof. inversion 1; subst. unfold is_cont. apply Z.eqb_neq. lia. Qed.

(* splitting at a glyph boundary *)
Definition boundary_nat (row : list cell) (k : nat) : Prop :=
  (length row <= k)%nat \/ is_cont (nth k row dcell) = false.

Lemma nth_conts conts rest k : Forall (fun c => is_cont c = true) conts -> (k < length conts)%nat ->
  is_cont (nth k (conts ++ rest) dcell) = true.
Proof.
  intros Hf Hk. rewrite app_nth1 by exact Hk. rewrite Forall_forall in Hf. apply Hf, nth_In, Hk.
Qed.

Lemma row_ok_split row : row_ok row -> forall k, boundary_nat row k ->
  row_ok (firstn k row) /\ row_ok (skipn k row).
Proof.
  induction 1 as [|c conts rest Hw Hc Hl Hr IH]; intros k Hb.
  - rewrite firstn_nil, skipn_nil. split; constructor.
  - destruct k as [|k]; [cbn; split; [constructor|constructor; assumption]|].
    cbn [firstn skipn].
    destruct (Nat.lt_ge_cases k (length conts)) as [Hlt|Hge].
    + exfalso. destruct Hb as [Hb|Hb].
      * cbn [length] in Hb. rewrite app_length in Hb. lia.
      * cbn [nth] in Hb. rewrite (nth_conts conts rest k Hc Hlt) in Hb. discriminate.
    + assert (Hb' : boundary_nat rest (k - length conts)).
      { destruct Hb as [Hb|Hb].
        - left. cbn [length] in Hb. rewrite app_length in Hb. lia.
        - right. cbn [nth] in Hb. rewrite app_nth2 in Hb by lia. exact Hb. }
      destruct (IH _ Hb') as (I1 & I2).
      rewrite firstn_app, skipn_app.
      rewrite (firstn_all2 conts) by lia. rewrite (skipn_all2 conts) by lia. cbn [app].
      split; [constructor; assumption|exact I2].
Qed.

Definition boundary (row : list cell) (k : Z) : Prop :=
  k <= 0 \/ zlen row <= k \/ is_cont (znth k row dcell) = false.

Lemma row_ok_zsplit row k : row_ok row -> boundary row k ->
  row_ok (zfirstn k row) /\ row_ok (zskipn k row).
Proof.
  intros Hr Hb. unfold zfirstn, zskipn. destruct (Z.le_gt_cases k 0) as [Hk|Hk].
  - replace (Z.to_nat k) with 0%nat by lia. cbn. split; [constructor|exact Hr].
  - apply row_ok_split; [exact Hr|]. destruct Hb as [Hb|[Hb|Hb]]; [lia| |].
    + left. unfold zlen in Hb. lia.
    + right. unfold znth in Hb. destruct (Z.ltb_spec k 0); [lia|exact Hb].
Qed.

(* the two edges an operation touches are glyph boundaries *)
Lemma glyph_start_nat_noncont row x : row_ok row -> (x < length row)%nat ->
  is_cont (nth (glyph_start_nat row x) row dcell) = false.
Proof.
  intros Hr. induction x as [|x IH]; intros Hx; cbn [glyph_start_nat].
  - destruct row as [|c l]; [cbn in Hx; lia|]. cbn [nth]. eapply row_ok_head_noncont, Hr.
  - destruct (is_cont (nth (S x) row dcell)) eqn:E; [apply IH; lia|exact E].
Qed.

Lemma left_edge_boundary row x : row_ok row -> 0 <= x -> boundary row (left_edge row x).
Proof.
  intros Hr Hx. unfold left_edge. destruct (is_cont (znth x row dcell)) eqn:E; [|right; right; exact E].
  destruct (Z.lt_ge_cases x (zlen row)) as [Hl|Hl].
  - right. right. unfold glyph_start, znth.
    destruct (Z.ltb_spec (Z.of_nat (glyph_start_nat row (Z.to_nat x))) 0); [lia|].
    rewrite Nat2Z.id. apply glyph_start_nat_noncont; [exact Hr|unfold zlen in Hl; lia].
  - rewrite znth_overflow in E by lia. discriminate.
Qed.

Lemma cont_prefix_spec l : (cont_prefix l = length l) \/ is_cont (nth (cont_prefix l) l dcell) = false.
Proof.
  induction l as [|c l IH]; cbn [cont_prefix]; [left; reflexivity|].
  destruct (is_cont c) eqn:E; [|right; exact E].
  destruct IH as [IH|IH]; [left; cbn; lia|right; exact IH].
Qed.

Lemma right_edge_boundary row k : 0 <= k -> boundary row (k + cont_run row k).
Proof.
  intros Hk. unfold cont_run. set (l := zskipn k row).
  destruct (cont_prefix_spec l) as [E|E].
  - right. left. subst l. rewrite E. pose proof (zlen_zskipn k row) as L. unfold zlen in *. lia.
  - right. right. subst l.
    replace (k + Z.of_nat (cont_prefix (zskipn k row))) with (Z.of_nat (cont_prefix (zskipn k row)) + k) by lia.
    rewrite <- znth_zskipn by lia.
    unfold znth. destruct (Z.ltb_spec (Z.of_nat (cont_prefix (zskipn k row))) 0); [lia|].
    rewrite Nat2Z.id. exact E.
Qed.

(* ---- row operations preserve the glyph structure ---- *)
Lemma overwrite_row_ok st x new row :
  row_ok row -> row_ok new -> 0 <= x -> row_ok (overwrite st x new row).
Proof.
  intros Hr Hn Hx. unfold overwrite. destruct (zlen new =? 0); [exact Hr|].
  pose proof (zlen_nonneg new).
  destruct (row_ok_zsplit row (left_edge row x) Hr (left_edge_boundary row x Hr Hx)) as (A & _).
  replace (x + zlen new + cont_run row (x + zlen new)) with ((x + zlen new) + cont_run row (x + zlen new)) by lia.
  destruct (row_ok_zsplit row _ Hr (right_edge_boundary row (x + zlen new) ltac:(lia))) as (_ & B).
  repeat apply row_ok_app; auto using row_ok_blanks.
Qed.

Lemma delete_cells_row_ok st x n row :
  row_ok row -> 0 <= x -> 0 <= n -> row_ok (delete_cells st x n row).
Proof.
  intros Hr Hx Hn. unfold delete_cells.
  destruct (row_ok_zsplit row (left_edge row x) Hr (left_edge_boundary row x Hr Hx)) as (A & _).
  destruct (row_ok_zsplit row _ Hr (right_edge_boundary row (x + n) ltac:(lia))) as (_ & B).
  repeat apply row_ok_app; auto using row_ok_blanks, row_ok_unglyph.
Qed.

Lemma fit_row_row_ok st w row : row_ok row -> 0 <= w -> row_ok (fit_row st w row).
Proof.
  intros Hr Hw. unfold fit_row. destruct (w <? zlen row).
  - destruct (is_cont (znth w row dcell)) eqn:E.
    + assert (L : glyph_start row w = left_edge row w) by (unfold left_edge; rewrite E; reflexivity).
      rewrite L.
      destruct (row_ok_zsplit row (left_edge row w) Hr (left_edge_boundary row w Hr Hw)) as (A & _).
      apply row_ok_app; auto using row_ok_unglyph.
    + apply (row_ok_zsplit row w Hr). right. right. exact E.
  - apply row_ok_app; auto using row_ok_blanks.
Qed.

Lemma In_firstn_ {A} (x : A) n l : In x (firstn n l) -> In x l.
Proof. intros H. rewrite <- (firstn_skipn n l). apply in_or_app. left. exact H. Qed.

Lemma blank_row_row_ok w st : row_ok (blank_row w st).
Proof. apply row_ok_blanks. Qed.

(* ---- screens ---- *)
Definition RowsOk (s : screen) : Prop := Forall row_ok (rows s).

(* f keeps the invariant, the size and the glyph structure *)
Definition Good2 (s0 s : screen) : Prop := Good s0 s /\ RowsOk s.

Definition Pres2 (f : screen -> screen) : Prop :=
  forall s, Inv s -> RowsOk s -> Good2 s (f s).

Lemma Good2_refl s : Inv s -> RowsOk s -> Good2 s s.
Proof. intros; split; [apply Good_refl; assumption|assumption]. Qed.
Lemma Good2_step f s0 s : Pres2 f -> Good2 s0 s -> Good2 s0 (f s).
Proof.
  intros Hf ((I & W & H) & R). destruct (Hf s I R) as ((I' & W' & H') & R').
  split; [split; [exact I'|split; congruence]|exact R'].
Qed.

Lemma Pres2_of_rows f : Pres f -> (forall s, rows (f s) = rows s) -> Pres2 f.
Proof. intros Hp Hr s I R. split; [apply Hp, I|]. unfold RowsOk. rewrite Hr. exact R. Qed.

Lemma Pres2_id : Pres2 (fun s => s).
Proof. apply Pres2_of_rows; [apply Pres_id|reflexivity]. Qed.
Lemma Pres2_set_awrap v : Pres2 (set_awrap v).
Proof. apply Pres2_of_rows; [apply Pres_set_awrap|reflexivity]. Qed.
Lemma Pres2_set_style st : Pres2 (set_style st).
Proof. apply Pres2_of_rows; [apply Pres_set_style|reflexivity]. Qed.
Lemma Pres2_set_cursor_pos x y : Pres2 (set_cursor_pos x y).
Proof. apply Pres2_of_rows; [apply Pres_set_cursor_pos|reflexivity]. Qed.
Lemma Pres2_save_cursor : Pres2 save_cursor.
Proof. apply Pres2_of_rows; [apply Pres_save_cursor|reflexivity]. Qed.
Lemma Pres2_restore_cursor : Pres2 restore_cursor.
Proof. apply Pres2_of_rows; [apply Pres_restore_cursor|reflexivity]. Qed.
Lemma Pres2_set_scroll_margins t b : Pres2 (set_scroll_margins t b).
Proof.
  apply Pres2_of_rows; [apply Pres_set_scroll_margins|].
  intros s. unfold set_scroll_margins. destruct (b <? t); reflexivity.
Qed.
Lemma Pres2_add_trig v : Pres2 (add_trig v).
Proof.
  apply Pres2_of_rows; [|reflexivity]. intros s Hs. split; [apply Inv_add_trig, Hs|split; reflexivity].
Qed.

Lemma RowsOk_scroll y1 y2 dy s : RowsOk s -> RowsOk (scroll y1 y2 dy s).
Proof.
  intros R. unfold scroll, RowsOk in *.
  destruct (_ <? _); [exact R|].
  destruct (0 <? _); cbn [rows emit set_rows set_evs];
    repeat (apply Forall_app; split); auto using Forall_zfirstn, Forall_zskipn, Forall_zrepeat, blank_row_row_ok.
Qed.
Lemma Pres2_scroll y1 y2 dy : Pres2 (scroll y1 y2 dy).
Proof. intros s I R. split; [apply Pres_scroll, I|apply RowsOk_scroll, R]. Qed.

Lemma RowsOk_move_cursor dx dy wrap scr s : RowsOk s -> RowsOk (move_cursor dx dy wrap scr s).
Proof.
  intros R. unfold move_cursor.
  destruct (if wrap && awrap s then _ else _) as [x1 y1].
  unfold RowsOk.
  destruct (scr && _); [destruct (_ <? top s); [|destruct (bot s <? _)]|];
    cbn [rows emit set_cur set_evs]; try exact R; apply RowsOk_scroll, R.
Qed.
Lemma Pres2_move_cursor dx dy wrap scr : Pres2 (move_cursor dx dy wrap scr).
Proof. intros s I R. split; [apply Pres_move_cursor, I|apply RowsOk_move_cursor, R]. Qed.

Lemma row_at_ok s y : RowsOk s -> row_ok (row_at s y).
Proof.
  intros R. unfold row_at, znth. destruct (y <? 0); [constructor|].
  destruct (Nat.lt_ge_cases (Z.to_nat y) (length (rows s))) as [H|H].
  - unfold RowsOk in R. rewrite Forall_forall in R. apply R, nth_In, H.
  - rewrite nth_overflow by exact H. constructor.
Qed.

Lemma RowsOk_write_row_cells reason x y new s :
  RowsOk s -> row_ok new -> 0 <= x -> RowsOk (write_row_cells reason x y new s).
Proof.
  intros R Hn Hx. unfold write_row_cells.
  destruct (zlen new <=? 0); [exact R|]. destruct (_ || _); [exact R|].
  set (s' := if is_cont _ then add_trig trSecondHalf s else s).
  assert (E : rows s' = rows s /\ sty s' = sty s) by (subst s'; destruct (is_cont _); split; reflexivity).
  destruct E as (E1 & E2). unfold RowsOk. cbn [rows emit set_rows set_evs]. rewrite E1.
  apply Forall_zupd; [exact R|]. apply overwrite_row_ok; auto using row_at_ok.
Qed.

Lemma RowsOk_erase_rows reason x x2 ys : forall s, RowsOk s -> 0 <= x -> RowsOk (erase_rows reason x x2 ys s).
Proof.
  induction ys as [|y ys IH]; intros s R Hx; cbn [erase_rows]; [exact R|].
  apply IH; [|exact Hx]. apply RowsOk_write_row_cells; auto using row_ok_blanks.
Qed.

Lemma Pres2_erase_region x y x2 y2 : Pres2 (erase_region x y x2 y2).
Proof.
  intros s I R. split; [apply Pres_erase_region, I|].
  unfold erase_region. apply RowsOk_erase_rows; [exact R|].
  pose proof (inv_w s I). pose proof (clamp_range x 0 (sW s) ltac:(lia)). lia.
Qed.

Lemma Pres2_delete_chars x y n : Pres2 (delete_chars x y n).
Proof.
  intros s I R. split; [apply Pres_delete_chars, I|].
  unfold delete_chars. destruct (_ || _ || _); [exact R|].
  set (n1 := if x <? 0 then n + x else n). set (x1 := if x <? 0 then 0 else x).
  destruct ((sW s <=? x1) || (n1 <=? 0)) eqn:E; [exact R|].
  apply orb_false_iff in E. destruct E as [E1 E2]. apply Z.leb_gt in E2.
  set (n2 := if sW s <? x1 + n1 then sW s - x1 else n1).
  assert (Hx1 : 0 <= x1) by (subst x1; destruct (Z.ltb_spec x 0); lia).
  assert (Hn2 : 0 <= n2) by (subst n2; apply Z.leb_gt in E1; destruct (Z.ltb_spec (sW s) (x1 + n1)); lia).
  set (s' := if is_cont _ then add_trig trSecondHalf s else s).
  assert (Er : rows s' = rows s) by (subst s'; destruct (is_cont _); reflexivity).
  unfold RowsOk. cbn [rows emit set_rows set_evs]. rewrite Er.
  apply Forall_zupd; [exact R|]. apply delete_cells_row_ok; auto using row_at_ok.
Qed.

Lemma Pres2_write_glyph txt w0 : Pres2 (write_glyph txt w0).
Proof.
  intros s I R. split; [apply Pres_write_glyph, I|].
  unfold write_glyph. destruct (negb _); [exact R|].
  set (w1 := if w0 <? 1 then 1 else w0).
  assert (Hw1 : 1 <= w1) by (subst w1; destruct (w0 <? 1) eqn:?; lia).
  set (sa := if sW s <? w1 then add_trig trWideOnNarrow s else s).
  assert (Ra : RowsOk sa /\ Inv sa /\ sW sa = sW s).
  { subst sa. destruct (sW s <? w1); [split; [exact R|split; [apply Inv_add_trig, I|reflexivity]]|auto]. }
  destruct Ra as (Ra & Ia & Wa).
  set (w := if sW sa <? w1 then sW sa else w1).
  assert (Hw : 1 <= w) by (subst w; pose proof (inv_w s I); rewrite Wa; destruct (sW s <? w1); lia).
  set (s1 := if sW sa <? cx sa + w then _ else sa).
  assert (R1 : RowsOk s1 /\ Inv s1).
  { subst s1. destruct (sW sa <? cx sa + w); [|auto]. destruct (awrap sa).
    - split; [apply RowsOk_move_cursor, Ra|apply Pres_move_cursor, Ia].
    - split; [exact Ra|]. pose proof (inv_w s I). pose proof (inv_cy sa Ia).
      apply Inv_set_cur; [exact Ia|rewrite Wa; subst w; rewrite Wa; destruct (sW s <? w1) eqn:E; [lia|apply Z.ltb_ge in E; lia]|exact H0]. }
  destruct R1 as (R1 & I1).
  assert (R2 : RowsOk (write_row_cells crText (cx s1) (cy s1) (glyph_cells txt w (sty s1)) s1)).
  { apply RowsOk_write_row_cells; [exact R1|apply row_ok_glyph_cells, Hw|apply (inv_cx s1 I1)]. }
  destruct (negb _); [exact R2|apply RowsOk_move_cursor, R2].
Qed.

Lemma RowsOk_set_size w h s : RowsOk s -> 0 <= w -> RowsOk (set_size w h s).
Proof.
  intros R Hw. unfold set_size. destruct (_ || _); [exact R|].
  destruct (if _ <? top s then _ else _) as [t' b'].
  unfold RowsOk, set_style. cbn [rows emit set_sty set_margins set_saved set_cur set_dims set_evs].
  apply Forall_app. split.
  - apply Forall_forall. intros r Hr. apply in_map_iff in Hr. destruct Hr as (r0 & <- & Hin).
    apply fit_row_row_ok; [|exact Hw]. unfold RowsOk in R. rewrite Forall_forall in R. apply R.
    unfold zfirstn in Hin. eapply In_firstn_, Hin.
  - apply Forall_zrepeat, blank_row_row_ok.
Qed.

#[export] Hint Resolve Pres2_move_cursor Pres2_set_cursor_pos Pres2_scroll Pres2_erase_region Pres2_delete_chars
  Pres2_write_glyph Pres2_set_style Pres2_save_cursor Pres2_restore_cursor Pres2_set_scroll_margins Pres2_set_awrap
  Pres2_id Pres2_add_trig : pres2.

Ltac pres2_solve :=
  let s := fresh "s" in let Hs := fresh "Hs" in let Rs := fresh "Rs" in
  intros s Hs Rs; cbv beta zeta;
  repeat match goal with |- context [if ?c then _ else _] => destruct c end;
  repeat (apply Good2_step; [solve [auto with pres2]|]);
  apply Good2_refl; assumption.

(* ---------- terminal level ---------- *)
Definition TInv2 (t : term) : Prop := TInv t /\ RowsOk (tmain t) /\ RowsOk (talt t).

Lemma RowsOk_set_evs l s : RowsOk s <-> RowsOk (set_evs l s).
Proof. split; intros H; exact H. Qed.

Lemma TInv2_init w h : 1 <= w -> 1 <= h -> TInv2 (init_term w h).
Proof.
  intros Hw Hh. split; [apply TInv_init; assumption|].
  split; unfold RowsOk; cbn; apply Forall_zrepeat, blank_row_row_ok.
Qed.

Lemma on_screen_ok2 f t : Pres2 f -> TInv2 t -> TInv2 (on_screen f t).
Proof.
  intros Hf ([Hm Ha Hw Hh] & Rm & Ra). unfold on_screen, active, set_active.
  destruct (onalt t) eqn:E; cbn [tmain talt onalt].
  - destruct (Hf (set_evs [] (talt t)) (proj1 (Inv_set_evs _ _) Ha) Ra) as ((I & W & H) & R).
    split; [constructor; cbn [tmain talt]; [exact Hm|apply Inv_set_evs, I| |]; ss; congruence|].
    split; [exact Rm|exact R].
  - destruct (Hf (set_evs [] (tmain t)) (proj1 (Inv_set_evs _ _) Hm) Rm) as ((I & W & H) & R).
    split; [constructor; cbn [tmain talt]; [apply Inv_set_evs, I|exact Ha| |]; ss; congruence|].
    split; [exact R|exact Ra].
Qed.

Ltac tinv2_same := intros (T & Rm & Ra); split; [auto with tinv|split; assumption].

Lemma TInv2_log_ev e t : TInv2 t -> TInv2 (log_ev e t).
Proof. tinv2_same. Qed.
Lemma TInv2_reply b t : TInv2 t -> TInv2 (reply b t).
Proof. tinv2_same. Qed.
Lemma TInv2_set_vflag i v t : TInv2 t -> TInv2 (set_vflag i v t).
Proof. tinv2_same. Qed.
Lemma TInv2_set_vint i v t : TInv2 t -> TInv2 (set_vint i v t).
Proof. tinv2_same. Qed.
Lemma TInv2_set_vstr i v t : TInv2 t -> TInv2 (set_vstr i v t).
Proof. tinv2_same. Qed.
Lemma TInv2_on_kbd f t : TInv2 t -> TInv2 (on_kbd f t).
Proof.
  intros (T & Rm & Ra). split; [auto with tinv|]. unfold on_kbd. destruct (onalt t); split; assumption.
Qed.
Lemma TInv2_switch t : TInv2 t -> TInv2 (switch_screen t).
Proof. tinv2_same. Qed.
#[export] Hint Resolve TInv2_log_ev TInv2_reply TInv2_set_vflag TInv2_set_vint TInv2_set_vstr TInv2_on_kbd TInv2_switch : tinv2.

Lemma TInv2_exec_c0 b t : TInv2 t -> TInv2 (exec_c0 b t).
Proof.
  intros Ht. unfold exec_c0.
  repeat match goal with |- context [if ?c then _ else _] => destruct c end;
    auto with tinv2; apply on_screen_ok2; auto; pres2_solve.
Qed.
Lemma TInv2_exec_esc b t : TInv2 t -> TInv2 (exec_esc b t).
Proof.
  intros Ht. unfold exec_esc.
  repeat match goal with |- context [if ?c then _ else _] => destruct c end;
    auto with tinv2; apply on_screen_ok2; auto; pres2_solve.
Qed.
Lemma TInv2_dec_mode v p t : TInv2 t -> TInv2 (dec_mode v p t).
Proof.
  intros Ht. unfold dec_mode.
  repeat match goal with |- context [if ?c then _ else _] => destruct c end;
    auto with tinv2; apply on_screen_ok2; auto; pres2_solve.
Qed.
Lemma TInv2_dec_modes v ps : forall t, TInv2 t -> TInv2 (fold_left (fun t p => dec_mode v p t) ps t).
Proof. induction ps as [|p ps IH]; intros t Ht; cbn [fold_left]; auto using TInv2_dec_mode. Qed.
Lemma TInv2_exec_csi_plain ps f t : TInv2 t -> TInv2 (exec_csi_plain ps f t).
Proof.
  intros Ht. unfold exec_csi_plain. cbv zeta.
  repeat match goal with |- TInv2 (if ?c then _ else _) => destruct c end;
    auto with tinv2; apply on_screen_ok2; auto; pres2_solve.
Qed.
Lemma TInv2_exec_csi prefix ps f t : TInv2 t -> TInv2 (exec_csi prefix ps f t).
Proof.
  intros Ht. unfold exec_csi. cbv zeta.
  repeat match goal with |- TInv2 (if ?c then _ else _) => destruct c end;
    auto using TInv2_exec_csi_plain, TInv2_dec_modes with tinv2.
Qed.
Lemma TInv2_exec_osc n p t : TInv2 t -> TInv2 (exec_osc n p t).
Proof.
  intros Ht. unfold exec_osc.
  repeat match goal with |- TInv2 (if ?c then _ else _) => destruct c end; auto with tinv2.
Qed.

Theorem TInv2_exec_tok k t : TInv2 t -> TInv2 (exec_tok k t).
Proof.
  intros Ht. destruct k; cbn [exec_tok];
    auto using TInv2_exec_c0, TInv2_exec_esc, TInv2_exec_csi, TInv2_exec_osc.
  apply on_screen_ok2; auto. intros s Hs Rs. cbv beta.
  destruct (_ && _); (apply Good2_step; [apply Pres2_write_glyph|]).
  - apply Good2_step; [apply Pres2_add_trig|apply Good2_refl; assumption].
  - apply Good2_refl; assumption.
Qed.

Theorem TInv2_resize w h t : TInv2 t -> 1 <= w -> 1 <= h -> TInv2 (resize w h t).
Proof.
  intros (T & Rm & Ra) W H. split; [apply TInv_resize; assumption|].
  unfold resize. cbn [tmain talt]. split; apply RowsOk_set_size; try lia; assumption.
Qed.

Section Hist2.
  Variable wc : Z -> Z.
  Variable grid : bool.

  Lemma TInv2_run_pending fuel : forall t inp, TInv2 t -> TInv2 (fst (run_pending wc grid fuel t inp)).
  Proof.
    induction fuel as [|f IH]; intros t inp Ht; cbn [run_pending]; [exact Ht|].
    destruct (crashed t); [exact Ht|].
    destruct (parse_one wc grid inp) as [|k rest]; [exact Ht|].
    apply IH, TInv2_exec_tok, Ht.
  Qed.

  Lemma TInv2_hstep st o : TInv2 (fst st) -> hop_ok o -> TInv2 (fst (hstep wc grid st o)).
  Proof.
    intros Ht Ho. destruct o as [bs|w h]; cbn [hstep].
    - apply TInv2_run_pending, Ht.
    - destruct (crashed (fst st)); [exact Ht|]. cbn [fst]. destruct Ho. apply TInv2_resize; assumption.
  Qed.

  Theorem TInv2_fold ops : forall st, TInv2 (fst st) -> hist_ok ops -> TInv2 (fst (fold_left (hstep wc grid) ops st)).
  Proof.
    induction ops as [|o ops IH]; intros st Ht Hok; cbn [fold_left]; [exact Ht|].
    inversion Hok; subst. apply IH; [apply TInv2_hstep; assumption|assumption].
  Qed.

  (* after every prefix of every history, every row of both buffers is a sequence of whole glyphs *)
  Theorem glyphs_every_prefix w h ops n : 1 <= w -> 1 <= h -> hist_ok ops ->
    let t := fst (run_hist wc grid (init_term w h) (firstn n ops)) in
    Forall row_ok (rows (tmain t)) /\ Forall row_ok (rows (talt t)).
  Proof.
    intros Hw Hh Hok t.
    assert (Hok' : hist_ok (firstn n ops)).
    { unfold hist_ok in *. rewrite <- (firstn_skipn n ops) in Hok. apply Forall_app in Hok. tauto. }
    destruct (TInv2_fold (firstn n ops) (init_term w h, []) (TInv2_init w h Hw Hh) Hok') as (_ & Rm & Ra).
    split; assumption.
  Qed.
End Hist2.

(* what row_ok means pointwise: a continuation cell is never first in a row, and the
   cells after a head of width w are exactly w-1 continuation cells *)
Lemma row_ok_first row : row_ok row -> row <> [] -> is_cont (znth 0 row dcell) = false.
Proof. intros H Hn. destruct row as [|c l]; [contradiction|]. cbn. eapply row_ok_head_noncont, H. Qed.
