(* The tokenizer consumes a non-empty prefix of its input and hands back the
   rest untouched (used for termination, C01, and "consumed whole", C09). *)
From Coq Require Import List ZArith Bool Lia.
From Termemu Require Import Base Parser BaseLemmas.
Import ListNotations.
Open Scope Z_scope.

(* rest is what remains of inp after removing a prefix of at least k bytes *)
Definition strict_suffix (k : nat) (rest inp : list Z) : Prop :=
  exists pre, inp = pre ++ rest /\ (k <= length pre)%nat.

Lemma ss_cons k b rest inp : strict_suffix k rest inp -> strict_suffix (S k) rest (b :: inp).
Proof. intros (pre & -> & H). exists (b :: pre). split; [reflexivity|cbn; lia]. Qed.
Lemma ss_weaken k k' rest inp : (k' <= k)%nat -> strict_suffix k rest inp -> strict_suffix k' rest inp.
Proof. intros Hk (pre & -> & H). exists pre. split; [reflexivity|lia]. Qed.
Lemma ss_refl l : strict_suffix 0 l l.
Proof. exists []. split; [reflexivity|cbn; lia]. Qed.
Lemma ss_trans a b r m i : strict_suffix a r m -> strict_suffix b m i -> strict_suffix (a + b) r i.
Proof.
  intros (p1 & -> & H1) (p2 & -> & H2). exists (p2 ++ p1). split; [rewrite app_assoc; reflexivity|].
  rewrite app_length. lia.
Qed.
Lemma ss_length k rest inp : strict_suffix k rest inp -> (length rest + k <= length inp)%nat.
Proof. intros (pre & -> & H). rewrite app_length. lia. Qed.

Lemma scan_params_suffix inp : forall acc p ps sp ps' b rest,
  scan_params inp acc p ps sp = Some (ps', b, rest) -> strict_suffix 1 rest inp.
Proof.
  induction inp as [|c inp IH]; intros acc p ps sp ps' b rest H; cbn [scan_params] in H; [discriminate|].
  destruct (c =? 59).
  - apply IH in H. apply (ss_weaken 2); [lia|]. apply ss_cons, H.
  - destruct (is_digit c).
    + apply IH in H. apply (ss_weaken 2); [lia|]. apply ss_cons, H.
    + inversion H; subst. apply ss_cons, ss_refl.
Qed.

Lemma skip_to_final_suffix inp : forall rest, skip_to_final inp = Some rest -> strict_suffix 1 rest inp.
Proof.
  induction inp as [|c inp IH]; intros rest H; cbn [skip_to_final] in H; [discriminate|].
  destruct (is_final c).
  - inversion H; subst. apply ss_cons, ss_refl.
  - apply IH in H. apply (ss_weaken 2); [lia|]. apply ss_cons, H.
Qed.

Lemma parse_csi_suffix inp k rest : parse_csi inp = PTok k rest -> strict_suffix 1 rest inp.
Proof.
  unfold parse_csi. destruct inp as [|b r]; [discriminate|].
  destruct (is_private b).
  - destruct (scan_params r [] 0 false false) as [[[ps fb] r']|] eqn:E; [|discriminate].
    apply scan_params_suffix in E.
    destruct (_ || _).
    + destruct (skip_to_final r') as [r''|] eqn:E2; [|discriminate]. intros H; inversion H; subst.
      apply skip_to_final_suffix in E2. apply (ss_weaken 3); [lia|]. apply ss_cons. apply (ss_trans 1 1 _ r'); assumption.
    + intros H; inversion H; subst. apply (ss_weaken 2); [lia|]. apply ss_cons, E.
  - destruct (scan_params (b :: r) [] 0 false false) as [[[ps fb] r']|] eqn:E; [|discriminate].
    apply scan_params_suffix in E.
    destruct (_ || _).
    + destruct (skip_to_final r') as [r''|] eqn:E2; [|discriminate]. intros H; inversion H; subst.
      apply skip_to_final_suffix in E2. apply (ss_weaken 2); [lia|]. apply (ss_trans 1 1 _ r'); assumption.
    + intros H; inversion H; subst. exact E.
Qed.

Lemma scan_digits_suffix inp : forall acc v b rest,
  scan_digits inp acc = Some (v, b, rest) -> strict_suffix 1 rest inp.
Proof.
  induction inp as [|c inp IH]; intros acc v b rest H; cbn [scan_digits] in H; [discriminate|].
  destruct (is_digit c).
  - apply IH in H. apply (ss_weaken 2); [lia|]. apply ss_cons, H.
  - inversion H; subst. apply ss_cons, ss_refl.
Qed.

Lemma scan_osc_payload_suffix inp : forall acc p rest,
  scan_osc_payload inp acc = Some (p, rest) -> strict_suffix 1 rest inp.
Proof.
  induction inp as [|c inp IH]; intros acc p rest H; cbn [scan_osc_payload] in H; [discriminate|].
  destruct ((c =? 7) || (c =? 156)).
  - inversion H; subst. apply ss_cons, ss_refl.
  - assert (G : forall acc', scan_osc_payload inp acc' = Some (p, rest) -> strict_suffix 1 rest (c :: inp)).
    { intros acc' H'. apply IH in H'. apply (ss_weaken 2); [lia|]. apply ss_cons, H'. }
    destruct acc as [|a acc']; [eapply G, H|].
    destruct ((a =? 27) && (c =? 92)); [inversion H; subst; apply ss_cons, ss_refl|eapply G, H].
Qed.

Lemma scan_str_suffix inp : forall prev rest, scan_str inp prev = Some rest -> strict_suffix 1 rest inp.
Proof.
  induction inp as [|c inp IH]; intros prev rest H; cbn [scan_str] in H; [discriminate|].
  destruct ((c =? 7) || (c =? 156)); [inversion H; subst; apply ss_cons, ss_refl|].
  destruct ((prev =? 27) && (c =? 92)); [inversion H; subst; apply ss_cons, ss_refl|].
  apply (ss_weaken 2); [lia|]. apply ss_cons. eapply IH, H.
Qed.

Lemma parse_osc_suffix inp k rest : parse_osc inp = PTok k rest -> strict_suffix 1 rest inp.
Proof.
  unfold parse_osc. destruct (scan_digits inp 0) as [[[v b] r]|] eqn:E; [|discriminate].
  apply scan_digits_suffix in E.
  destruct (b =? 59).
  - destruct (scan_osc_payload r []) as [[p r']|] eqn:E2; [|discriminate]. intros H; inversion H; subst.
    apply scan_osc_payload_suffix in E2. apply (ss_weaken 2); [lia|]. apply (ss_trans 1 1 _ r); assumption.
  - destruct (_ || _); [intros H; inversion H; subst; exact E|].
    destruct (scan_str r b) as [r'|] eqn:E3; [|discriminate]. intros H; inversion H; subst.
    apply scan_str_suffix in E3. apply (ss_weaken 2); [lia|]. apply (ss_trans 1 1 _ r); assumption.
Qed.

Lemma scan_dcs_suffix inp : forall prev rest, scan_dcs inp prev = Some rest -> strict_suffix 1 rest inp.
Proof.
  induction inp as [|c inp IH]; intros prev rest H; cbn [scan_dcs] in H; [discriminate|].
  destruct (c =? 156); [inversion H; subst; apply ss_cons, ss_refl|].
  destruct ((prev =? 27) && (c =? 92)); [inversion H; subst; apply ss_cons, ss_refl|].
  apply IH in H. apply (ss_weaken 2); [lia|]. apply ss_cons, H.
Qed.

Lemma skip_intermediates_suffix inp : forall rest, skip_intermediates inp = Some rest -> strict_suffix 1 rest inp.
Proof.
  induction inp as [|c inp IH]; intros rest H; cbn [skip_intermediates] in H; [discriminate|].
  destruct ((32 <=? c) && (c <=? 47)).
  - apply IH in H. apply (ss_weaken 2); [lia|]. apply ss_cons, H.
  - inversion H; subst. apply ss_cons, ss_refl.
Qed.

Lemma parse_esc_suffix inp k rest : parse_esc inp = PTok k rest -> strict_suffix 1 rest inp.
Proof.
  unfold parse_esc. destruct inp as [|b r]; [discriminate|].
  destruct (b =? 91); [intros H; apply parse_csi_suffix in H; apply (ss_weaken 2); [lia|]; apply ss_cons, H|].
  destruct (b =? 93); [intros H; apply parse_osc_suffix in H; apply (ss_weaken 2); [lia|]; apply ss_cons, H|].
  destruct (b =? 80).
  { destruct (scan_dcs r 0) as [r'|] eqn:E; [|discriminate]. intros H; inversion H; subst.
    apply scan_dcs_suffix in E. apply (ss_weaken 2); [lia|]. apply ss_cons, E. }
  destruct (_ || _).
  { destruct r as [|c r']; [discriminate|]. intros H; inversion H; subst. apply (ss_weaken 2); [lia|]. apply ss_cons, ss_cons, ss_refl. }
  destruct (_ && _).
  { destruct (skip_intermediates r) as [r'|] eqn:E; [|discriminate]. intros H; inversion H; subst.
    apply skip_intermediates_suffix in E. apply (ss_weaken 2); [lia|]. apply ss_cons, E. }
  intros H; inversion H; subst. apply ss_cons, ss_refl.
Qed.

Lemma decode_rune_size inp r size v : decode_rune inp = Some (r, size, v) -> 1 <= size <= 4 /\ size <= zlen inp.
Proof.
  unfold decode_rune. destruct inp as [|b0 r0]; [discriminate|].
  destruct (utf8_first b0) as [[sz lo] hi].
  repeat (first [ match goal with |- context [if ?c then _ else _] => destruct c end
                | match goal with |- context [match ?l with [] => _ | _ :: _ => _ end] => destruct l end ]);
    intros H; inversion H; subst; autorewrite with zlen;
    repeat match goal with |- context [zlen ?l] => is_var l; pose proof (zlen_nonneg l); generalize dependent (zlen l); intros end;
    try lia.
Qed.

Section WithOracle.
  Variable wc : Z -> Z.
  Variable grid : bool.

  (* every token takes at least one byte and returns the rest of the input unchanged *)
  Theorem parse_one_suffix inp k rest : parse_one wc grid inp = PTok k rest -> strict_suffix 1 rest inp.
  Proof.
    unfold parse_one. destruct inp as [|b r]; [discriminate|].
    destruct (is_printable b).
    - destruct (decode_rune (b :: r)) as [[[ru size] v]|] eqn:E; [|discriminate].
      intros H; inversion H; subst. apply decode_rune_size in E. destruct E as (E1 & E2).
      exists (zfirstn size (b :: r)). split.
      + unfold zfirstn, zskipn. symmetry. apply firstn_skipn.
      + assert (L : zlen (zfirstn size (b :: r)) = size) by (apply zlen_zfirstn_le; lia). unfold zlen in L. lia.
    - destruct (b =? 27).
      + intros H. apply parse_esc_suffix in H. apply (ss_weaken 2); [lia|]. apply ss_cons, H.
      + intros H; inversion H; subst. apply ss_cons, ss_refl.
  Qed.
End WithOracle.

(* ---- CSI parameters saturate: whatever digits are sent (also more than fit in 64 bits), every
   parameter the tokenizer hands on lies in 0 .. 65535 and at most 32 of them are kept ---- *)
Definition param_ok (p : Z) : Prop := 0 <= p <= maxCSIParam.

Lemma store_param_ok acc v : Forall param_ok acc -> zlen acc <= nParamStore -> param_ok v ->
  Forall param_ok (store_param acc v) /\ zlen (store_param acc v) <= nParamStore.
Proof.
  intros Ha Hl Hv. unfold store_param. destruct (Z.ltb_spec (zlen acc) nParamStore) as [L|L].
  - split; [apply Forall_app; split; [exact Ha|constructor; [exact Hv|constructor]]|].
    rewrite zlen_app. change (zlen [v]) with 1. lia.
  - split; assumption.
Qed.

Lemma scan_params_bounded inp : forall acc param pset sawsep ps fb rest,
  Forall param_ok acc -> zlen acc <= nParamStore -> param_ok param ->
  scan_params inp acc param pset sawsep = Some (ps, fb, rest) ->
  Forall param_ok ps /\ zlen ps <= nParamStore.
Proof.
  induction inp as [|b inp IH]; intros acc param pset sawsep ps fb rest Ha Hl Hp H; cbn [scan_params] in H; [discriminate|].
  cbv zeta in H. destruct (b =? 59).
  - destruct (store_param_ok acc param Ha Hl Hp) as (A & B).
    eapply IH; [exact A|exact B| |exact H]. unfold param_ok, maxCSIParam. lia.
  - destruct (is_digit b) eqn:D.
    + eapply IH; [exact Ha|exact Hl| |exact H].
      unfold is_digit in D. apply andb_prop in D. destruct D as (D1 & D2).
      apply Z.leb_le in D1, D2. unfold param_ok in *.
      destruct (Z.ltb_spec maxCSIParam (param * 10 + (b - 48))); unfold maxCSIParam in *; clear IH H Ha; lia.
    + inversion H; subst; clear H.
      destruct (pset || sawsep); [|split; assumption].
      apply store_param_ok; [exact Ha|exact Hl|]. destruct pset; [exact Hp|unfold param_ok, maxCSIParam; lia].
Qed.

Theorem csi_params_saturate inp prefix ps f rest :
  parse_csi inp = PTok (TCsi prefix ps f) rest -> Forall param_ok ps /\ zlen ps <= nParamStore.
Proof.
  unfold parse_csi. destruct inp as [|b r]; [discriminate|].
  destruct (if is_private b then _ else _) as [pr body].
  destruct (scan_params body [] 0 false false) as [[[params fb] rest']|] eqn:E; [|discriminate].
  destruct (_ || _).
  - destruct (skip_to_final rest'); discriminate.
  - intros H; inversion H; subst.
    apply (scan_params_bounded body [] 0 false false ps f rest).
    + constructor.
    + reflexivity || (unfold zlen, nParamStore; cbn [length Z.of_nat]; lia).
    + unfold param_ok, maxCSIParam. lia.
    + exact E.
Qed.
