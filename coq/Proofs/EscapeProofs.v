(* C11, style part: the bytes of Style.ANSIEscape, fed through the real parser
   and the SGR interpreter from any starting style, reproduce the style. *)
From Coq Require Import List ZArith Bool Lia ZifyBool.
From Termemu Require Import Base Style Screen Kbd Parser Term BaseLemmas ScreenInv TermInv ParserProofs HistProofs
  SgrSpec StyleProofs SgrProofs.
Import ListNotations.
Open Scope Z_scope.

Ltac Zify.zify_post_hook ::= Z.div_mod_to_equations.

(* ---------- decimal printing and the parameter scanner ---------- *)
Definition pow10 (f : nat) : Z := 10 ^ Z.of_nat f.
Lemma pow10_S f : pow10 (S f) = 10 * pow10 f.
Proof. unfold pow10. rewrite Nat2Z.inj_succ, Z.pow_succ_r by lia. reflexivity. Qed.
Lemma pow10_pos f : 0 < pow10 f.
Proof. unfold pow10. apply Z.pow_pos_nonneg; lia. Qed.

Definition digit (b : Z) : Prop := 48 <= b <= 57.

Lemma itoa_fuel_digits f : forall n acc, 0 <= n -> Forall digit acc -> Forall digit (itoa_fuel f n acc).
Proof.
  induction f as [|f IH]; intros n acc Hn Ha; cbn [itoa_fuel]; [exact Ha|].
  assert (D : digit (48 + n mod 10)) by (unfold digit; lia).
  destruct (n <? 10); [constructor; assumption|]. apply IH; [lia|constructor; assumption].
Qed.

Lemma itoa_fuel_head f : forall n acc, 0 <= n -> exists d l, itoa_fuel (S f) n acc = d :: l /\ digit d.
Proof.
  induction f as [|f IH]; intros n acc Hn.
  - cbn [itoa_fuel]. assert (D : digit (48 + n mod 10)) by (unfold digit; lia).
    destruct (n <? 10); eauto.
  - change (itoa_fuel (S (S f)) n acc) with
      (if n <? 10 then (48 + n mod 10) :: acc else itoa_fuel (S f) (n / 10) ((48 + n mod 10) :: acc)).
    assert (D : digit (48 + n mod 10)) by (unfold digit; lia).
    destruct (n <? 10); [eauto|]. apply IH. lia.
Qed.

Lemma itoa_digits n : 0 <= n -> Forall digit (itoa n).
Proof. intros H. unfold itoa. destruct (Z.ltb_spec n 0); [lia|]. apply itoa_fuel_digits; [exact H|constructor]. Qed.
Lemma itoa_head n : 0 <= n -> exists d l, itoa n = d :: l /\ digit d.
Proof. intros H. unfold itoa. destruct (Z.ltb_spec n 0); [lia|]. apply itoa_fuel_head, H. Qed.

(* reading the digits of m back, from a fresh parameter *)
Lemma scan_itoa_fuel f : forall m accd tail acc sawsep,
  0 <= m < pow10 (S f) -> m <= maxCSIParam ->
  scan_params (itoa_fuel (S f) m accd ++ tail) acc 0 false sawsep = scan_params (accd ++ tail) acc m true false.
Proof.
  assert (Step : forall d m0 accd tail acc ps sp, 0 <= d <= 9 -> 0 <= m0 -> m0 * 10 + d <= maxCSIParam ->
            scan_params (((48 + d) :: accd) ++ tail) acc m0 ps sp = scan_params (accd ++ tail) acc (m0 * 10 + d) true false).
  { intros d m0 accd tail acc ps sp Hd Hm Hle. cbn [app scan_params].
    destruct (Z.eqb_spec (48 + d) 59); [lia|].
    unfold is_digit. destruct (Z.leb_spec 48 (48 + d)); [|lia]. destruct (Z.leb_spec (48 + d) 57); [|lia]. cbn [andb].
    replace (48 + d - 48) with d by lia. destruct (Z.ltb_spec maxCSIParam (m0 * 10 + d)); [lia|]. reflexivity. }
  induction f as [|f IH]; intros m accd tail acc sawsep Hm Hle.
  - rewrite pow10_S in Hm. change (pow10 0) with 1 in Hm. cbn [itoa_fuel].
    destruct (Z.ltb_spec m 10); [|lia].
    rewrite (Step (m mod 10)) by (unfold maxCSIParam in *; lia). f_equal. lia.
  - change (itoa_fuel (S (S f)) m accd) with
      (if m <? 10 then (48 + m mod 10) :: accd else itoa_fuel (S f) (m / 10) ((48 + m mod 10) :: accd)).
    destruct (Z.ltb_spec m 10).
    + rewrite (Step (m mod 10)) by (unfold maxCSIParam in *; lia). f_equal. lia.
    + rewrite pow10_S in Hm. pose proof (pow10_pos (S f)).
      rewrite IH by (unfold maxCSIParam in *; lia).
      rewrite (Step (m mod 10)) by (unfold maxCSIParam in *; lia). f_equal. lia.
Qed.

Lemma pow10_20 : pow10 20 = 100000000000000000000.
Proof. reflexivity. Qed.

Theorem scan_itoa m tail acc sawsep : 0 <= m <= maxCSIParam ->
  scan_params (itoa m ++ tail) acc 0 false sawsep = scan_params tail acc m true false.
Proof.
  intros H. unfold itoa. destruct (Z.ltb_spec m 0); [lia|].
  rewrite scan_itoa_fuel; [reflexivity| |lia]. rewrite pow10_20. unfold maxCSIParam in H. lia.
Qed.

(* ---------- one SGR control sequence ---------- *)
Fixpoint params_body (ps : list Z) : list Z :=
  match ps with
  | [] => []
  | p :: r => match r with [] => itoa p | _ => itoa p ++ 59 :: params_body r end
  end.
Definition sgr_bytes (ps : list Z) : list Z := 27 :: 91 :: params_body ps ++ [109].

Definition params_ok (ps : list Z) : Prop :=
  ps <> [] /\ zlen ps <= nParamStore /\ Forall (fun p => 0 <= p <= maxCSIParam) ps.

Lemma store_param_ok acc v : zlen acc < nParamStore -> store_param acc v = acc ++ [v].
Proof. intros H. unfold store_param. destruct (Z.ltb_spec (zlen acc) nParamStore); [reflexivity|lia]. Qed.

Lemma scan_body ps : forall acc sawsep rest, ps <> [] ->
  zlen acc + zlen ps <= nParamStore -> Forall (fun p => 0 <= p <= maxCSIParam) ps ->
  scan_params (params_body ps ++ 109 :: rest) acc 0 false sawsep = Some (acc ++ ps, 109, rest).
Proof.
  induction ps as [|p r IH]; intros acc sawsep rest Hne Hlen Hok; [congruence|].
  inversion Hok as [|? ? Hp Hr]; subst. rewrite zlen_cons in Hlen. pose proof (zlen_nonneg r).
  cbn [params_body]. destruct r as [|q r'].
  - rewrite scan_itoa by exact Hp. cbn [scan_params]. cbn [Z.eqb Pos.eqb is_digit Z.leb Z.compare Pos.compare Pos.compare_cont andb orb].
    rewrite store_param_ok by lia. reflexivity.
  - rewrite <- app_assoc. rewrite scan_itoa by exact Hp. cbn [app scan_params]. cbn [Z.eqb Pos.eqb].
    rewrite store_param_ok by lia. rewrite IH; [|discriminate| |exact Hr].
    + rewrite <- app_assoc. reflexivity.
    + rewrite zlen_app, zlen_cons, zlen_nil. lia.
Qed.

Lemma params_body_head ps : ps <> [] -> Forall (fun p => 0 <= p <= maxCSIParam) ps ->
  exists d l, params_body ps = d :: l /\ digit d.
Proof.
  intros Hne Hok. destruct ps as [|p r]; [congruence|]. inversion Hok; subst.
  destruct (itoa_head p ltac:(lia)) as (d & l & E & D). cbn [params_body].
  destruct r; rewrite E; cbn [app]; eauto.
Qed.

Theorem parse_sgr_bytes wc grid ps rest : params_ok ps ->
  parse_one wc grid (sgr_bytes ps ++ rest) = PTok (TCsi 0 ps 109) rest.
Proof.
  intros (Hne & Hlen & Hok). unfold sgr_bytes. cbn [app]. rewrite <- app_assoc. cbn [app].
  unfold parse_one. change (is_printable 27) with false. cbv iota. change (27 =? 27) with true. cbv iota.
  unfold parse_esc. change (91 =? 91) with true. cbv iota.
  destruct (params_body_head ps Hne Hok) as (d & l & E & D).
  assert (P : is_private d = false).
  { unfold is_private, digit in *. destruct (Z.eqb_spec d 63); [lia|]. destruct (Z.eqb_spec d 62); [lia|].
    destruct (Z.eqb_spec d 60); [lia|]. destruct (Z.eqb_spec d 61); [lia|]. reflexivity. }
  unfold parse_csi. rewrite E. cbn [app]. rewrite P.
  change (d :: l ++ 109 :: rest) with ((d :: l) ++ 109 :: rest). rewrite <- E.
  rewrite scan_body; [|exact Hne|rewrite zlen_nil; lia|exact Hok].
  cbn [app]. reflexivity.
Qed.

(* ---------- running a list of SGR sequences ---------- *)
Section Run.
  Variable wc : Z -> Z.
  Variable grid : bool.

  Lemma run_bytes_step t inp k rest :
    crashed t = false -> parse_one wc grid inp = PTok k rest ->
    run_bytes wc grid t inp = run_bytes wc grid (exec_tok k t) rest.
  Proof.
    intros Hc Hp. unfold run_bytes at 1. cbn [run_pending]. rewrite Hc, Hp.
    pose proof (ss_length _ _ _ (parse_one_suffix wc grid inp k rest Hp)) as L.
    replace (length inp) with (S (length rest) + (length inp - S (length rest)))%nat by lia.
    apply run_bytes_fuel_enough.
  Qed.

  Lemma run_bytes_nil t : run_bytes wc grid t [] = (t, []).
  Proof. unfold run_bytes. cbn [length run_pending]. destruct (crashed t); reflexivity. Qed.

  Definition sgr_run (pss : list (list Z)) (t : term) : term :=
    fold_left (fun t ps => exec_csi_plain ps 109 t) pss t.

  Theorem run_sgr_seqs pss : forall t rest, TInv t -> Forall params_ok pss ->
    run_bytes wc grid t (flat_map sgr_bytes pss ++ rest) = run_bytes wc grid (sgr_run pss t) rest.
  Proof.
    induction pss as [|ps pss IH]; intros t rest Ht Hok; [reflexivity|].
    inversion Hok as [|? ? Hps Hpss]; subst. cbn [flat_map]. rewrite <- app_assoc.
    rewrite (run_bytes_step t _ _ _ (TInv_not_crashed t Ht) (parse_sgr_bytes wc grid ps _ Hps)).
    change (exec_tok (TCsi 0 ps 109) t) with (exec_csi_plain ps 109 t).
    rewrite IH; [reflexivity|apply TInv_exec_csi_plain, Ht|exact Hpss].
  Qed.
End Run.

(* ---------- what SGR sequences leave alone ---------- *)
Definition same_but_style (t t' : term) : Prop :=
  let s := active t in let s' := active t' in
  rows s' = rows s /\ sW s' = sW s /\ sH s' = sH s /\ cx s' = cx s /\ cy s' = cy s /\
  svx s' = svx s /\ svy s' = svy s /\ top s' = top s /\ bot s' = bot s /\ awrap s' = awrap s /\
  crash s' = crash s /\ trig s' = trig s /\
  (if onalt t then tmain t' = tmain t else talt t' = talt t) /\
  onalt t' = onalt t /\ vflags t' = vflags t /\ vints t' = vints t /\ vstrs t' = vstrs t /\
  kbm t' = kbm t /\ kba t' = kba t /\ tout t' = tout t.

Lemma sbs_refl t : same_but_style t t.
Proof. unfold same_but_style. cbv zeta. destruct (onalt t); repeat split; reflexivity. Qed.

Lemma sbs_trans t1 t2 t3 : same_but_style t1 t2 -> same_but_style t2 t3 -> same_but_style t1 t3.
Proof.
  unfold same_but_style. cbv zeta. intros H1 H2.
  repeat match goal with H : _ /\ _ |- _ => destruct H end.
  assert (O : onalt t2 = onalt t1) by assumption.
  rewrite O in *.
  repeat split; try congruence.
  destruct (onalt t1); congruence.
Qed.

Lemma sbs_step ps t : same_but_style t (exec_csi_plain ps 109 t).
Proof. pose proof (sgr_told ps t) as H. cbv zeta in H. unfold same_but_style. cbv zeta. tauto. Qed.

Lemma sgr_run_same pss : forall t, same_but_style t (sgr_run pss t).
Proof.
  induction pss as [|ps pss IH]; intros t; [apply sbs_refl|].
  cbn [sgr_run fold_left]. eapply sbs_trans; [apply sbs_step|apply IH].
Qed.

Lemma sgr_run_sty pss : forall t,
  sty (active (sgr_run pss t)) = fold_left (fun st ps => sgr_apply ps st) pss (sty (active t)).
Proof.
  induction pss as [|ps pss IH]; intros t; [reflexivity|].
  cbn [sgr_run fold_left]. fold (sgr_run pss (exec_csi_plain ps 109 t)). rewrite IH.
  pose proof (sgr_told ps t) as H. cbv zeta in H. destruct H as (_ & H & _). rewrite H. reflexivity.
Qed.

Lemma sgr_run_log pss : forall t, pss <> [] ->
  exists older, tlog (sgr_run pss t) = EStyle (sty (active (sgr_run pss t))) :: older.
Proof.
  induction pss as [|ps pss IH]; intros t Hne; [congruence|].
  cbn [sgr_run fold_left]. fold (sgr_run pss (exec_csi_plain ps 109 t)).
  destruct pss as [|ps' pss'].
  - cbn [sgr_run fold_left]. pose proof (sgr_told ps t) as H. cbv zeta in H. destruct H as (H1 & H2 & _).
    rewrite H1, H2. eauto.
  - apply IH. discriminate.
Qed.

(* ---------- the parameters ANSIEscape prints ---------- *)
Definition color_params (base : Z) (c : color) : list (list Z) :=
  match c with
  | CDef => []
  | CIdx n => if n <? 8 then [[base + n]] else [[base + 8; 5; n]]
  | CBright n => [[base + 60 + n mod 8]]
  | CRgb v => [[base + 8; 2; (v / 65536) mod 256; (v / 256) mod 256; v mod 256]]
  end.
Definition mode_params (m : Z) : list (list Z) :=
  flat_map (fun i => if Z.testbit m i then [[mode_code i]] else []) mode_indices.
Definition escape_params (s : style) : list (list Z) :=
  [0] :: (if smodes s =? 0 then [] else [0] :: mode_params (smodes s))
      ++ color_params 30 (sfg s) ++ color_params 40 (sbg s).

Lemma itoa_small n : 0 <= n <= 7 -> itoa (30 + n) = [51; 48 + n] /\ itoa (40 + n) = [52; 48 + n].
Proof.
  intros H. assert (C : n = 0 \/ n = 1 \/ n = 2 \/ n = 3 \/ n = 4 \/ n = 5 \/ n = 6 \/ n = 7) by lia.
  repeat (destruct C as [->|C]; [split; reflexivity|]). subst. split; reflexivity.
Qed.

Lemma ansi_color_fg c : wf_color c -> ansi_color c 51 = flat_map sgr_bytes (color_params 30 c).
Proof.
  intros H. destruct c as [|n|n|v]; cbn [wf_color] in H; cbn [ansi_color color_params].
  - reflexivity.
  - destruct (Z.ltb_spec n 8); cbn [flat_map]; rewrite app_nil_r; unfold sgr_bytes; cbn [params_body].
    + destruct (itoa_small n ltac:(lia)) as (E & _). rewrite E. reflexivity.
    + change (itoa (30 + 8)) with [51; 56]. change (itoa 5) with [53]. cbn [app]. repeat (rewrite <- app_assoc; cbn [app]). reflexivity.
  - cbn [flat_map]. rewrite app_nil_r. unfold sgr_bytes, esc_seq. cbn [params_body]. change (51 =? 52) with false. cbv iota.
    replace (30 + 60 + n mod 8) with (90 + n mod 8) by lia. reflexivity.
  - cbn [flat_map]. rewrite app_nil_r. unfold sgr_bytes. cbn [params_body].
    change (itoa (30 + 8)) with [51; 56]. change (itoa 2) with [50]. cbn [app]. repeat (rewrite <- app_assoc; cbn [app]). reflexivity.
Qed.

Lemma ansi_color_bg c : wf_color c -> ansi_color c 52 = flat_map sgr_bytes (color_params 40 c).
Proof.
  intros H. destruct c as [|n|n|v]; cbn [wf_color] in H; cbn [ansi_color color_params].
  - reflexivity.
  - destruct (Z.ltb_spec n 8); cbn [flat_map]; rewrite app_nil_r; unfold sgr_bytes; cbn [params_body].
    + destruct (itoa_small n ltac:(lia)) as (_ & E). rewrite E. reflexivity.
    + change (itoa (40 + 8)) with [52; 56]. change (itoa 5) with [53]. cbn [app]. repeat (rewrite <- app_assoc; cbn [app]). reflexivity.
  - cbn [flat_map]. rewrite app_nil_r. unfold sgr_bytes, esc_seq. cbn [params_body]. change (52 =? 52) with true. cbv iota.
    replace (40 + 60 + n mod 8) with (100 + n mod 8) by lia. reflexivity.
  - cbn [flat_map]. rewrite app_nil_r. unfold sgr_bytes. cbn [params_body].
    change (itoa (40 + 8)) with [52; 56]. change (itoa 2) with [50]. cbn [app]. repeat (rewrite <- app_assoc; cbn [app]). reflexivity.
Qed.

Lemma flat_map_flat_map {A B C} (f : A -> list B) (g : B -> list C) l :
  flat_map g (flat_map f l) = flat_map (fun a => flat_map g (f a)) l.
Proof. induction l as [|a l IH]; [reflexivity|]. cbn [flat_map]. rewrite flat_map_app, IH. reflexivity. Qed.

Lemma ansi_modes_params m : ansi_modes m = flat_map sgr_bytes (mode_params m).
Proof.
  unfold ansi_modes, mode_params. rewrite flat_map_flat_map. apply flat_map_ext. intros i.
  destruct (Z.testbit m i); [|reflexivity]. cbn [flat_map]. rewrite app_nil_r. reflexivity.
Qed.

Lemma color_eqb_def c : color_eqb c CDef = true -> c = CDef.
Proof. destruct c; cbn [color_eqb]; intros; congruence. Qed.

Lemma ansi_modes_0 : ansi_modes 0 = [].
Proof. reflexivity. Qed.

Theorem ansi_escape_params s : wf_style s -> ansi_escape s = flat_map sgr_bytes (escape_params s).
Proof.
  intros (Hf & Hb & Hm). unfold ansi_escape, escape_params, ansi_escape_from.
  cbn [smodes sfg sbg default_style].
  change (flat_map sgr_bytes ([0] :: ?l)) with (sgr_bytes [0] ++ flat_map sgr_bytes l).
  change (esc_seq [48]) with (sgr_bytes [0]). f_equal.
  rewrite !flat_map_app. rewrite <- ansi_color_fg, <- ansi_color_bg by assumption.
  destruct (smodes s =? 0) eqn:Em; cbn [negb andb].
  - cbn [flat_map app].
    destruct (color_eqb (sfg s) CDef) eqn:Ef; cbn [negb andb].
    + apply color_eqb_def in Ef. rewrite Ef. cbn [ansi_color app].
      destruct (color_eqb (sbg s) CDef) eqn:Eb; cbn [negb]; [|reflexivity].
      apply color_eqb_def in Eb. rewrite Eb. reflexivity.
    + destruct (color_eqb (sbg s) CDef) eqn:Eb; cbn [negb]; [|reflexivity].
      apply color_eqb_def in Eb. rewrite Eb. reflexivity.
  - change (flat_map sgr_bytes ([0] :: ?l)) with (sgr_bytes [0] ++ flat_map sgr_bytes l).
    rewrite <- ansi_modes_params. rewrite <- ?app_assoc. reflexivity.
Qed.

(* ---------- the parameters are parseable ---------- *)
Lemma params_ok_intro ps : ps <> [] -> (length ps <= 5)%nat -> Forall (fun p => 0 <= p <= 65535) ps -> params_ok ps.
Proof. intros H1 H2 H3. split; [exact H1|]. split; [unfold zlen, nParamStore; lia|exact H3]. Qed.

Lemma color_params_ok base c : wf_color c -> base = 30 \/ base = 40 -> Forall params_ok (color_params base c).
Proof.
  intros H Hb. destruct c as [|n|n|v]; cbn [wf_color] in H; cbn [color_params].
  - constructor.
  - destruct (Z.ltb_spec n 8); (constructor; [|constructor]); (apply params_ok_intro; [discriminate|cbn; lia|]);
      repeat constructor; lia.
  - constructor; [|constructor]. apply params_ok_intro; [discriminate|cbn; lia|]. repeat constructor; lia.
  - constructor; [|constructor]. apply params_ok_intro; [discriminate|cbn; lia|]. repeat constructor; lia.
Qed.

Lemma mode_params_ok m : Forall params_ok (mode_params m).
Proof.
  unfold mode_params, mode_indices. cbn [flat_map].
  repeat (apply Forall_app; split);
    try (destruct (Z.testbit m _); [constructor; [|constructor]|constructor];
         apply params_ok_intro; [discriminate|cbn; lia|constructor; [vm_compute; split; discriminate|constructor]]).
  constructor.
Qed.

Theorem escape_params_ok s : wf_style s -> Forall params_ok (escape_params s).
Proof.
  intros (Hf & Hb & Hm). unfold escape_params.
  assert (Z0 : params_ok [0]) by (apply params_ok_intro; [discriminate|cbn; lia|repeat constructor; lia]).
  constructor; [exact Z0|]. repeat (apply Forall_app; split).
  - destruct (smodes s =? 0); [constructor|]. constructor; [exact Z0|apply mode_params_ok].
  - apply color_params_ok; auto.
  - apply color_params_ok; auto.
Qed.

(* ---------- ... and interpret back to the style ---------- *)
Definition apply_all (pss : list (list Z)) (st : style) : style :=
  fold_left (fun st ps => sgr_apply ps st) pss st.

Lemma apply_all_app a b st : apply_all (a ++ b) st = apply_all b (apply_all a st).
Proof. apply fold_left_app. Qed.

(* modeToSGRCode inverts through the interpreter: one sequence per mode, each sets its own bit *)
Theorem mode_code_inverts i s : In i mode_indices -> sgr_apply [mode_code i] s = set_mode i s.
Proof.
  intros H. unfold mode_indices in H. cbn [In] in H.
  repeat (destruct H as [<-|H]; [reflexivity|]). destruct H.
Qed.

(* the mode sequences rebuild any 13-bit mode set on top of no modes, leaving colours alone:
   cross-check by computation over all 8192 mode sets (not used below; the structural proof follows) *)
Definition modes_rt_check (m : Z) : bool :=
  style_eqb (apply_all (mode_params m) default_style) (mkStyle CDef CDef m).
Lemma modes_rt_all : forallb modes_rt_check (zseq 0 8192) = true.
Proof. vm_compute. reflexivity. Qed.

Theorem mode_params_rt m : 0 <= m < 8192 -> apply_all (mode_params m) default_style = mkStyle CDef CDef m.
Proof.
  intros H. pose proof modes_rt_all as F. rewrite forallb_forall in F.
  apply style_eqb_eq. apply F. apply In_zseq. lia.
Qed.

(* The same structurally, from any style: each mode sequence ORs in its own bit
   and touches nothing else, so the set of sequences ORs in m (per-mode
   independence; no enumeration of mode sets). *)
Definition mode_mask (m : Z) (l : list Z) : Z :=
  fold_right (fun i acc => Z.lor (if Z.testbit m i then Z.shiftl 1 i else 0) acc) 0 l.

Lemma mode_params_fold m l : (forall i, In i l -> In i mode_indices) -> forall st,
  apply_all (flat_map (fun i => if Z.testbit m i then [[mode_code i]] else []) l) st =
  mkStyle (sfg st) (sbg st) (Z.lor (smodes st) (mode_mask m l)).
Proof.
  induction l as [|i l IH]; intros Hl st.
  - cbn [flat_map apply_all fold_left mode_mask fold_right]. rewrite Z.lor_0_r. destruct st; reflexivity.
  - cbn [flat_map mode_mask fold_right]. rewrite apply_all_app.
    assert (Hl' : forall j, In j l -> In j mode_indices) by (intros j Hj; apply Hl; right; exact Hj).
    destruct (Z.testbit m i).
    + cbn [apply_all fold_left]. rewrite mode_code_inverts by (apply Hl; left; reflexivity).
      fold (apply_all (flat_map (fun i => if Z.testbit m i then [[mode_code i]] else []) l) (set_mode i st)).
      rewrite IH by exact Hl'. cbn [set_mode sfg sbg smodes]. rewrite Z.lor_assoc. reflexivity.
    + cbn [apply_all fold_left].
      fold (apply_all (flat_map (fun i => if Z.testbit m i then [[mode_code i]] else []) l) st).
      rewrite IH by exact Hl'. rewrite Z.lor_0_l. reflexivity.
Qed.

Lemma mode_mask_bits m l j : (forall i, In i l -> 0 <= i) ->
  Z.testbit (mode_mask m l) j = Z.testbit m j && existsb (Z.eqb j) l.
Proof.
  intros Hl. induction l as [|i l IH]; cbn [mode_mask fold_right existsb].
  - rewrite Z.testbit_0_l, andb_false_r. reflexivity.
  - fold (mode_mask m l). rewrite Z.lor_spec, IH by (intros k Hk; apply Hl; right; exact Hk).
    assert (Hi : 0 <= i) by (apply Hl; left; reflexivity).
    destruct (Z.eqb_spec j i) as [->|N].
    + destruct (Z.testbit m i) eqn:E; [rewrite testbit_bit, Z.eqb_refl by exact Hi; reflexivity|].
      rewrite Z.testbit_0_l. reflexivity.
    + destruct (Z.testbit m i); [rewrite testbit_bit by exact Hi; destruct (Z.eqb_spec i j); [congruence|]|rewrite Z.testbit_0_l];
        cbn [orb]; reflexivity.
Qed.

Lemma mode_mask_all m : mode_mask m mode_indices = Z.land m 8191.
Proof.
  apply Z.bits_inj'. intros j Hj. rewrite mode_mask_bits by (unfold mode_indices; cbn [In]; intros; lia).
  rewrite Z.land_spec. f_equal. change 8191 with (Z.ones 13). rewrite Z.testbit_ones_nonneg by lia.
  unfold mode_indices. cbn [existsb].
  destruct (Z.ltb_spec j 13).
  - assert (C : j = 0 \/ j = 1 \/ j = 2 \/ j = 3 \/ j = 4 \/ j = 5 \/ j = 6 \/ j = 7 \/ j = 8 \/ j = 9 \/ j = 10 \/ j = 11 \/ j = 12) by lia.
    repeat (destruct C as [->|C]; [reflexivity|]). subst. reflexivity.
  - repeat match goal with |- context [j =? ?k] => destruct (Z.eqb_spec j k); [lia|] end. reflexivity.
Qed.

Theorem mode_params_indep m st :
  apply_all (mode_params m) st = mkStyle (sfg st) (sbg st) (Z.lor (smodes st) (Z.land m 8191)).
Proof. unfold mode_params. rewrite mode_params_fold by auto. rewrite mode_mask_all. reflexivity. Qed.

Theorem mode_params_rt' m : 0 <= m < 8192 -> apply_all (mode_params m) default_style = mkStyle CDef CDef m.
Proof.
  intros H. rewrite mode_params_indep. cbn [sfg sbg smodes default_style]. rewrite Z.lor_0_l.
  change 8191 with (Z.ones 13). rewrite Z.land_ones by lia. rewrite Z.mod_small by (change (2 ^ 13) with 8192; lia). reflexivity.
Qed.

Lemma color_params_fg c st : wf_color c -> apply_all (color_params 30 c) st = match c with CDef => st | _ => set_fg c st end.
Proof.
  intros H. destruct c as [|n|n|v]; cbn [wf_color] in H; cbn [color_params].
  - reflexivity.
  - destruct (Z.ltb_spec n 8).
    + cbn [apply_all fold_left]. unfold sgr_apply. destruct (sgr_color_codes n st ltac:(lia)) as (E & _). exact E.
    + cbn [apply_all fold_left sgr_apply sgr_fold]. cbn [Z.eqb Pos.eqb orb]. cbn [set_comp].
      replace (n mod 256) with n by lia. reflexivity.
  - cbn [apply_all fold_left]. unfold sgr_apply. replace (30 + 60 + n mod 8) with (90 + n) by lia.
    destruct (sgr_color_codes n st ltac:(lia)) as (_ & _ & E & _). exact E.
  - cbn [apply_all fold_left sgr_apply sgr_fold]. cbn [Z.eqb Pos.eqb orb]. cbn [set_comp].
    unfold rgb_of.
    assert (E : (v / 65536) mod 256 mod 256 * 65536 + (v / 256) mod 256 mod 256 * 256 + v mod 256 mod 256 = v) by lia.
    rewrite E. reflexivity.
Qed.

Lemma color_params_bg c st : wf_color c -> apply_all (color_params 40 c) st = match c with CDef => st | _ => set_bg c st end.
Proof.
  intros H. destruct c as [|n|n|v]; cbn [wf_color] in H; cbn [color_params].
  - reflexivity.
  - destruct (Z.ltb_spec n 8).
    + cbn [apply_all fold_left]. unfold sgr_apply. destruct (sgr_color_codes n st ltac:(lia)) as (_ & E & _). exact E.
    + cbn [apply_all fold_left sgr_apply sgr_fold]. cbn [Z.eqb Pos.eqb orb]. cbn [set_comp].
      replace (n mod 256) with n by lia. reflexivity.
  - cbn [apply_all fold_left]. unfold sgr_apply. replace (40 + 60 + n mod 8) with (100 + n) by lia.
    destruct (sgr_color_codes n st ltac:(lia)) as (_ & _ & _ & E & _). exact E.
  - cbn [apply_all fold_left sgr_apply sgr_fold]. cbn [Z.eqb Pos.eqb orb]. cbn [set_comp].
    unfold rgb_of.
    assert (E : (v / 65536) mod 256 mod 256 * 65536 + (v / 256) mod 256 mod 256 * 256 + v mod 256 mod 256 = v) by lia.
    rewrite E. reflexivity.
Qed.

Theorem escape_params_rt s st0 : wf_style s -> apply_all (escape_params s) st0 = s.
Proof.
  intros (Hf & Hb & Hm). unfold escape_params.
  change (apply_all ([0] :: ?l) st0) with (apply_all l default_style).
  rewrite !apply_all_app.
  assert (M : apply_all (if smodes s =? 0 then [] else [0] :: mode_params (smodes s)) default_style
              = mkStyle CDef CDef (smodes s)).
  { destruct (Z.eqb_spec (smodes s) 0) as [E|E]; [rewrite E; reflexivity|].
    change (apply_all ([0] :: ?l) default_style) with (apply_all l default_style).
    apply mode_params_rt', Hm. }
  rewrite M, color_params_fg, color_params_bg by assumption.
  destruct s as [f b m]. cbn [sfg sbg smodes]. destruct f, b; reflexivity.
Qed.

(* ---------- the round trip through parser and interpreter ---------- *)
Section RT.
  Variable wc : Z -> Z.
  Variable grid : bool.

  Theorem run_ansi_escape s t rest : TInv t -> wf_style s ->
    run_bytes wc grid t (ansi_escape s ++ rest) = run_bytes wc grid (sgr_run (escape_params s) t) rest.
  Proof.
    intros Ht Hs. rewrite ansi_escape_params by exact Hs. apply run_sgr_seqs; [exact Ht|apply escape_params_ok, Hs].
  Qed.

  Lemma escape_run_facts s t : wf_style s ->
    let t' := sgr_run (escape_params s) t in
    sty (active t') = s /\ same_but_style t t' /\ exists older, tlog t' = EStyle s :: older.
  Proof.
    intros Hs t'. subst t'. split; [|split].
    - rewrite sgr_run_sty. apply escape_params_rt, Hs.
    - apply sgr_run_same.
    - destruct (sgr_run_log (escape_params s) t ltac:(discriminate)) as (older & E).
      rewrite sgr_run_sty in E. fold (apply_all (escape_params s) (sty (active t))) in E.
      rewrite escape_params_rt in E by exact Hs. eauto.
  Qed.

  (* Feeding ANSIEscape(s) alone to a well-formed terminal in any state: all bytes
     are consumed, the active buffer's style is exactly s whatever it was, the
     frontend's newest callback is StyleChanged(s), and nothing else moved. *)
  Theorem style_rt s t : TInv t -> wf_style s ->
    let r := run_bytes wc grid t (ansi_escape s) in
    snd r = [] /\ sty (active (fst r)) = s /\ same_but_style t (fst r) /\
    exists older, tlog (fst r) = EStyle s :: older.
  Proof.
    intros Ht Hs r. subst r. rewrite <- (app_nil_r (ansi_escape s)).
    rewrite run_ansi_escape by assumption. rewrite run_bytes_nil. cbn [fst snd].
    split; [reflexivity|]. apply escape_run_facts, Hs.
  Qed.
End RT.

(* ---------- examples ---------- *)
Example escape_example :
  let s := mkStyle (CRgb 66051) (CBright 3) 4609 in
  ansi_escape s = [27;91;48;109; 27;91;48;109; 27;91;49;109; 27;91;50;49;109; 27;91;54;109;
                   27;91;51;56;59;50;59;49;59;50;59;51;109; 27;91;49;48;51;109] /\
  escape_params s = [[0]; [0]; [1]; [21]; [6]; [38; 2; 1; 2; 3]; [103]].
Proof. vm_compute. split; reflexivity. Qed.

Example style_rt_example :
  let s := mkStyle (CIdx 200) (CIdx 3) 257 in
  let t0 := exec_csi_plain [7; 35; 44] 109 (init_term 4 2) in
  sty (tmain (fst (run_bytes (fun _ => 1) true t0 (ansi_escape s)))) = s.
Proof. vm_compute. reflexivity. Qed.
