(* C11, whole screen: CUP(y,0) ++ ANSILine(y) for every row, fed into a terminal
   of the same size whose rows hold no wide glyph (a fresh one), autowrap off,
   reproduces every cell. *)
From Coq Require Import List ZArith Bool Lia.
From Termemu Require Import Base Style Screen Kbd Parser Term Render BaseLemmas ScreenInv TermInv ParserProofs HistProofs
  SgrSpec StyleProofs SgrProofs StampProofs EscapeProofs RenderProofs.
Import ListNotations.
Open Scope Z_scope.

(* ESC [ y+1 ; 1 H *)
Definition cup_bytes (y : Z) : list Z := 27 :: 91 :: params_body [y + 1; 1] ++ [72].

Fixpoint render_rows (y : Z) (rs : list (list cell)) : list Z :=
  match rs with
  | [] => []
  | row :: r => cup_bytes y ++ render_line_ansi row ++ render_rows (y + 1) r
  end.
Definition render_screen_ansi (rs : list (list cell)) : list Z := render_rows 0 rs.

Lemma scan_cup y rest : 0 <= y < maxCSIParam ->
  scan_params (params_body [y + 1; 1] ++ 72 :: rest) [] 0 false false = Some ([y + 1; 1], 72, rest).
Proof.
  intros H. cbn [params_body]. rewrite <- app_assoc. rewrite scan_itoa by lia.
  cbn [app scan_params]. cbn [Z.eqb Pos.eqb]. rewrite store_param_ok by (rewrite zlen_nil; unfold nParamStore; lia).
  rewrite scan_itoa by (unfold maxCSIParam; lia). cbn [app scan_params].
  cbn [Z.eqb Pos.eqb is_digit Z.leb Z.compare Pos.compare Pos.compare_cont andb orb].
  rewrite store_param_ok by (unfold zlen, nParamStore; cbn; lia). reflexivity.
Qed.

Section Screen.
  Variable wc : Z -> Z.
  Variable grid : bool.

  Lemma parse_cup y rest : 0 <= y < maxCSIParam ->
    parse_one wc grid (cup_bytes y ++ rest) = PTok (TCsi 0 [y + 1; 1] 72) rest.
  Proof.
    intros H. unfold cup_bytes. cbn [app]. rewrite <- app_assoc. cbn [app].
    unfold parse_one. change (is_printable 27) with false. cbv iota. change (27 =? 27) with true. cbv iota.
    unfold parse_esc. change (91 =? 91) with true. cbv iota.
    destruct (params_body_head [y + 1; 1] ltac:(discriminate)) as (d & l & E & D).
    { repeat constructor; unfold maxCSIParam in *; lia. }
    assert (P : is_private d = false).
    { unfold is_private, digit in *. destruct (Z.eqb_spec d 63); [lia|]. destruct (Z.eqb_spec d 62); [lia|].
      destruct (Z.eqb_spec d 60); [lia|]. destruct (Z.eqb_spec d 61); [lia|]. reflexivity. }
    unfold parse_csi. rewrite E. cbn [app]. rewrite P.
    change (d :: l ++ 72 :: rest) with ((d :: l) ++ 72 :: rest). rewrite <- E.
    rewrite scan_cup by exact H. reflexivity.
  Qed.

  Lemma exec_cup y t : exec_tok (TCsi 0 [y + 1; 1] 72) t = on_screen (set_cursor_pos (1 - 1) (y + 1 - 1)) t.
  Proof. reflexivity. Qed.

  (* all rows from y0 on hold no wide glyph; size W x H; autowrap off *)
  Record feed_state (t : term) (W H y0 : Z) : Prop := mkFS {
    fs_inv : TInv t;
    fs_awrap : awrap (active t) = false;
    fs_w : sW (active t) = W;
    fs_h : sH (active t) = H;
    fs_free : forall y, y0 <= y < H -> Forall noncont (row_at (active t) y)
  }.

  Theorem feed_rows rs : forall t W H y0,
    feed_state t W H y0 -> 0 <= y0 -> y0 + zlen rs <= H -> H <= maxCSIParam ->
    Forall (fun row => zlen row = W /\ renderable wc row) rs ->
    let res := run_bytes wc grid t (render_rows y0 rs) in
    snd res = [] /\ TInv (fst res) /\ onalt (fst res) = onalt t /\
    sW (active (fst res)) = W /\ sH (active (fst res)) = H /\
    (forall y, 0 <= y < y0 \/ y0 + zlen rs <= y -> row_at (active (fst res)) y = row_at (active t) y) /\
    (forall y, y0 <= y < y0 + zlen rs -> row_at (active (fst res)) y = znth (y - y0) rs []).
  Proof.
    induction rs as [|row rs IH]; intros t W H y0 FS Hy0 Hlen HH Hok res.
    - subst res. cbn [render_rows]. rewrite run_bytes_nil. cbn [fst snd]. destruct FS.
      split; [reflexivity|]. split; [assumption|]. split; [reflexivity|]. split; [assumption|]. split; [assumption|].
      split; [intros; reflexivity|]. intros y Hy. rewrite zlen_nil in Hy. lia.
    - subst res. pose proof (Forall_inv Hok) as (Hw & Hr). pose proof (Forall_inv_tail Hok) as Hok'. rewrite zlen_cons in Hlen. pose proof (zlen_nonneg rs).
      destruct FS as [Ht A Wt Hh Free]. cbn [render_rows].
      (* CUP *)
      rewrite (run_bytes_step wc grid t _ _ _ (TInv_not_crashed t Ht) (parse_cup y0 _ ltac:(lia))).
      rewrite exec_cup. replace (1 - 1) with 0 by lia. replace (y0 + 1 - 1) with y0 by lia.
      set (t1 := on_screen (set_cursor_pos 0 y0) t).
      assert (Ht1 : TInv t1) by (apply on_screen_ok; [apply Pres_set_cursor_pos|exact Ht]).
      destruct (active_on_screen (set_cursor_pos 0 y0) t) as (EA & EO). fold t1 in EA, EO.
      pose proof (TInv_active t Ht) as Ia. pose proof (inv_w _ Ia) as Wp. pose proof (inv_h _ Ia) as Hp.
      assert (P1 : rows (active t1) = rows (active t) /\ awrap (active t1) = false /\ cx (active t1) = 0 /\
                   cy (active t1) = y0 /\ sW (active t1) = W /\ sH (active t1) = H).
      { rewrite EA. unfold set_cursor_pos. cbn [emit set_evs set_cur rows awrap cx cy sW sH].
        rewrite !clamp_id by lia. repeat split; assumption. }
      destruct P1 as (R1 & A1 & X1 & Y1 & W1 & H1).
      assert (RA1 : forall y, row_at (active t1) y = row_at (active t) y) by (intros; unfold row_at; rewrite R1; reflexivity).
      (* the row *)
      assert (Free1 : Forall noncont (row_at (active t1) y0)) by (rewrite RA1; apply Free; lia).
      assert (Wrow : zlen row = sW (active t1)) by congruence.
      pose proof (row_rt wc grid row t1 y0 Ht1 A1 Y1 X1 Free1 Wrow Hr) as RT. cbv zeta in RT.
      rewrite (row_rt_more wc grid row t1 y0 _ Ht1 A1 Y1 X1 Free1 Wrow Hr).
      destruct RT as (T1 & T2 & T3 & T4 & T5 & T6 & T7 & T8 & T9 & T10).
      set (t2 := fst (run_bytes wc grid t1 (render_line_ansi row))) in *.
      assert (FS2 : feed_state t2 W H (y0 + 1)).
      { constructor; try assumption; try congruence. intros y Hy. rewrite T5 by lia. rewrite RA1. apply Free. lia. }
      destruct (IH t2 W H (y0 + 1) FS2 ltac:(lia) ltac:(lia) HH Hok') as (I1 & I2 & I3 & I4 & I5 & I6 & I7).
      split; [exact I1|]. split; [exact I2|]. split; [congruence|]. split; [exact I4|]. split; [exact I5|]. split.
      + intros y Hy. rewrite zlen_cons in Hy. rewrite I6 by lia. rewrite T5 by lia. apply RA1.
      + intros y Hy. rewrite zlen_cons in Hy. destruct (Z.eq_dec y y0) as [->|N].
        * rewrite I6 by lia. rewrite T2. replace (y0 - y0) with 0 by lia. reflexivity.
        * rewrite I7 by lia. rewrite znth_cons_S by lia. f_equal. lia.
  Qed.

  Lemma rows_ext (a b : list (list cell)) :
    zlen a = zlen b -> (forall y, 0 <= y < zlen a -> znth y a [] = znth y b []) -> a = b.
  Proof.
    intros L H. apply (nth_ext a b [] []); [unfold zlen in L; lia|].
    intros n Hn. specialize (H (Z.of_nat n) ltac:(unfold zlen; lia)). unfold znth in H.
    destruct (Z.ltb_spec (Z.of_nat n) 0); [lia|]. rewrite Nat2Z.id in H. exact H.
  Qed.

  (* the whole screen *)
  Theorem screen_rt rs t :
    TInv t -> awrap (active t) = false ->
    (forall y, 0 <= y < sH (active t) -> Forall noncont (row_at (active t) y)) ->
    zlen rs = sH (active t) -> sH (active t) <= maxCSIParam ->
    Forall (fun row => zlen row = sW (active t) /\ renderable wc row) rs ->
    let res := run_bytes wc grid t (render_screen_ansi rs) in
    snd res = [] /\ rows (active (fst res)) = rs /\ TInv (fst res) /\ onalt (fst res) = onalt t.
  Proof.
    intros Ht A Free Hl HH Hok res.
    assert (FS : feed_state t (sW (active t)) (sH (active t)) 0) by (constructor; auto).
    destruct (feed_rows rs t _ _ 0 FS ltac:(lia) ltac:(lia) HH Hok) as (R1 & R2 & R3 & R4 & R5 & R6 & R7).
    fold (render_screen_ansi rs) in R1, R2, R3, R4, R5, R6, R7. fold res in R1, R2, R3, R4, R5, R6, R7.
    split; [exact R1|]. split; [|split; assumption].
    pose proof (inv_rows _ (TInv_active _ R2)) as L.
    apply rows_ext; [lia|]. intros y Hy. specialize (R7 y ltac:(lia)). unfold row_at in R7. rewrite R7. f_equal. lia.
  Qed.

  (* a fresh terminal qualifies *)
  Lemma fresh_ok W H : 1 <= W -> 1 <= H ->
    let t := init_term W H in
    TInv t /\ awrap (active t) = false /\ sW (active t) = W /\ sH (active t) = H /\
    (forall y, 0 <= y < sH (active t) -> Forall noncont (row_at (active t) y)).
  Proof.
    intros HW HH t. split; [apply TInv_init; assumption|].
    split; [reflexivity|]. split; [reflexivity|]. split; [reflexivity|].
    intros y Hy. change (sH (active t)) with H in Hy.
    change (row_at (active t) y) with (znth y (zrepeat (blank_row W default_style) H) []).
    rewrite znth_zrepeat by lia. unfold blank_row. apply Forall_zrepeat. reflexivity.
  Qed.

  Theorem screen_rt_fresh rs W H :
    1 <= W -> 1 <= H <= maxCSIParam -> zlen rs = H ->
    Forall (fun row => zlen row = W /\ renderable wc row) rs ->
    let res := run_bytes wc grid (init_term W H) (render_screen_ansi rs) in
    snd res = [] /\ rows (tmain (fst res)) = rs /\ onalt (fst res) = false /\ TInv (fst res).
  Proof.
    intros HW HH Hl Hok res. destruct (fresh_ok W H HW ltac:(lia)) as (F1 & F2 & F3 & F4 & F5).
    destruct (screen_rt rs (init_term W H) F1 F2 F5 ltac:(congruence) ltac:(rewrite F4; lia) ltac:(rewrite F3; exact Hok))
      as (R1 & R2 & R3 & R4).
    fold res in R1, R2, R3, R4. change (onalt (init_term W H)) with false in R4.
    split; [exact R1|]. split; [|split; assumption]. unfold active in R2. rewrite R4 in R2. exact R2.
  Qed.
End Screen.

Example screen_example :
  let rs := [ex_row; [mkCell [228; 184; 173] 2 ex_fancy; contc ex_fancy; blank ex_red; blank ex_red]] in
  rows (tmain (fst (run_bytes ex_wc true (init_term 4 2) (render_screen_ansi rs)))) = rs.
Proof. vm_compute. reflexivity. Qed.
