(* Style packing and the mode algebra (C07 items 2 and 3): the three-word Go
   struct determines the structured style and vice versa on well-formed
   styles; SetMode / ResetMode act on one bit and never on colours; every
   SGR parameter keeps a style well-formed. *)
From Coq Require Import List ZArith Bool Lia ZifyBool.
From Termemu Require Import Base Style SgrSpec.
Import ListNotations.
Open Scope Z_scope.

Ltac Zify.zify_post_hook ::= Z.div_mod_to_equations.

(* ---------- packing ---------- *)

Lemma unpack_pack_color c m : wf_color c -> 0 <= m < 128 ->
  unpack_color (pack_color c + m * 16777216) = c.
Proof.
  intros Hc Hm. unfold unpack_color, pack_color.
  destruct c as [|n|n|v]; cbn [wf_color] in Hc.
  - replace ((256 + m * 16777216) mod 16777216) with 256 by lia.
    destruct (Z.leb_spec 2147483648 (256 + m * 16777216)); [lia|]. reflexivity.
  - replace ((n + m * 16777216) mod 16777216) with n by lia.
    destruct (Z.leb_spec 2147483648 (n + m * 16777216)); [lia|].
    destruct (Z.eqb_spec n 256); [lia|]. destruct (Z.leb_spec 512 n); [lia|]. reflexivity.
  - replace ((512 + n + m * 16777216) mod 16777216) with (512 + n) by lia.
    destruct (Z.leb_spec 2147483648 (512 + n + m * 16777216)); [lia|].
    destruct (Z.eqb_spec (512 + n) 256); [lia|]. destruct (Z.leb_spec 512 (512 + n)); [|lia].
    f_equal. lia.
  - replace ((2147483648 + v + m * 16777216) mod 16777216) with v by lia.
    destruct (Z.leb_spec 2147483648 (2147483648 + v + m * 16777216)); [|lia]. reflexivity.
Qed.

Lemma pack_color_modes c m : wf_color c -> 0 <= m < 128 ->
  ((pack_color c + m * 16777216) / 16777216) mod 128 = m.
Proof.
  intros Hc Hm. unfold pack_color. destruct c as [|n|n|v]; cbn [wf_color] in Hc; lia.
Qed.

Theorem pack_unpack s : wf_style s -> unpack (pack_fg s) (pack_bg s) = s.
Proof.
  intros (Hf & Hb & Hm). destruct s as [f b m]. cbn [sfg sbg smodes] in *.
  unfold unpack, pack_fg, pack_bg. cbn [sfg sbg smodes].
  assert (H1 : 0 <= m mod 128 < 128) by lia. assert (H2 : 0 <= m / 128 < 128) by lia.
  rewrite !unpack_pack_color by assumption. rewrite !pack_color_modes by assumption.
  f_equal. lia.
Qed.

Theorem pack_injective s1 s2 : wf_style s1 -> wf_style s2 ->
  pack_fg s1 = pack_fg s2 -> pack_bg s1 = pack_bg s2 -> s1 = s2.
Proof.
  intros H1 H2 Ef Eb. rewrite <- (pack_unpack s1 H1), <- (pack_unpack s2 H2). rewrite Ef, Eb. reflexivity.
Qed.

(* Go's == on the struct (three words, the third constant) is equality of styles *)
Theorem pack_eq_iff s1 s2 : wf_style s1 -> wf_style s2 ->
  (pack_fg s1 = pack_fg s2 /\ pack_bg s1 = pack_bg s2 /\ pack_ul s1 = pack_ul s2) <-> s1 = s2.
Proof.
  intros H1 H2. split.
  - intros (Ef & Eb & _). apply pack_injective; assumption.
  - intros ->. auto.
Qed.

Lemma pack_color_range c : wf_color c -> 0 <= pack_color c < 2147483648 + 16777216.
Proof. unfold pack_color. destruct c; cbn [wf_color]; lia. Qed.

Lemma pack_color_hi c : wf_color c ->
  pack_color c < 16777216 \/ 2147483648 <= pack_color c < 2147483648 + 16777216.
Proof. unfold pack_color. destruct c; cbn [wf_color]; lia. Qed.

Theorem pack_range s : wf_style s ->
  0 <= pack_fg s < 4294967296 /\ 0 <= pack_bg s < 4294967296 /\ pack_ul s = 256.
Proof.
  intros (Hf & Hb & Hm). unfold pack_fg, pack_bg, pack_ul.
  pose proof (pack_color_hi _ Hf). pose proof (pack_color_hi _ Hb).
  pose proof (pack_color_range _ Hf). pose proof (pack_color_range _ Hb).
  assert (0 <= smodes s mod 128 < 128) by lia. assert (0 <= smodes s / 128 < 64) by lia.
  repeat split; lia.
Qed.

Lemma style_eqb_eq a b : style_eqb a b = true <-> a = b.
Proof.
  destruct a as [f1 b1 m1], b as [f2 b2 m2]. unfold style_eqb. cbn [sfg sbg smodes].
  assert (C : forall x y, color_eqb x y = true <-> x = y).
  { intros x y. destruct x, y; cbn [color_eqb]; split; intros H; try discriminate; try reflexivity;
      try (apply Z.eqb_eq in H; congruence); inversion H; apply Z.eqb_refl. }
  rewrite !andb_true_iff, !C, Z.eqb_eq. split; [intros ((-> & ->) & ->); reflexivity|].
  intros H; inversion H; auto.
Qed.

(* default / indexed 0 / bright 0 / RGB black are four different words, in either
   component and under every mode set *)
Theorem pack_color_distinct m : 0 <= m < 128 ->
  let w c := pack_color c + m * 16777216 in
  w CDef <> w (CIdx 0) /\ w CDef <> w (CBright 0) /\ w CDef <> w (CRgb 0) /\
  w (CIdx 0) <> w (CBright 0) /\ w (CIdx 0) <> w (CRgb 0) /\ w (CBright 0) <> w (CRgb 0).
Proof. intros Hm w. subst w. cbn [pack_color]. lia. Qed.

(* ---------- mode algebra ---------- *)

Lemma testbit_bit i j : 0 <= i -> Z.testbit (Z.shiftl 1 i) j = (i =? j).
Proof. intros Hi. rewrite Z.shiftl_1_l. apply Z.pow2_bits_eqb, Hi. Qed.

Theorem test_set_mode i j s : 0 <= i -> test_mode j (set_mode i s) = (i =? j) || test_mode j s.
Proof.
  intros Hi. unfold test_mode, set_mode. cbn [smodes].
  rewrite Z.lor_spec, testbit_bit by exact Hi. apply orb_comm.
Qed.

Theorem test_reset_mode i j s : 0 <= i -> test_mode j (reset_mode i s) = negb (i =? j) && test_mode j s.
Proof.
  intros Hi. unfold test_mode, reset_mode. cbn [smodes].
  rewrite Z.ldiff_spec, testbit_bit by exact Hi. apply andb_comm.
Qed.

Theorem mode_ops_keep_colors i s :
  sfg (set_mode i s) = sfg s /\ sbg (set_mode i s) = sbg s /\
  sfg (reset_mode i s) = sfg s /\ sbg (reset_mode i s) = sbg s.
Proof. repeat split; reflexivity. Qed.

Theorem color_ops_keep_modes c s :
  smodes (set_fg c s) = smodes s /\ smodes (set_bg c s) = smodes s /\
  sbg (set_fg c s) = sbg s /\ sfg (set_bg c s) = sfg s /\
  sfg (set_fg c s) = c /\ sbg (set_bg c s) = c.
Proof. repeat split; reflexivity. Qed.

(* the mode word stays inside its 13 bits *)
Lemma modes_mod m : 0 <= m < 8192 <-> m mod 8192 = m.
Proof. lia. Qed.

Lemma lor_modes m i : 0 <= m < 8192 -> 0 <= i <= 12 -> 0 <= Z.lor m (Z.shiftl 1 i) < 8192.
Proof.
  intros Hm Hi. apply modes_mod. apply modes_mod in Hm.
  change 8192 with (2 ^ 13) in *. rewrite <- !Z.land_ones in * by lia.
  rewrite Z.land_lor_distr_l, Hm. f_equal.
  rewrite Z.land_ones by lia. rewrite Z.shiftl_1_l. apply Z.mod_small.
  split; [apply Z.pow_nonneg; lia|apply Z.pow_lt_mono_r; lia].
Qed.

Lemma ldiff_modes m x : 0 <= m < 8192 -> 0 <= Z.ldiff m x < 8192.
Proof.
  intros Hm. apply modes_mod. apply modes_mod in Hm.
  change 8192 with (2 ^ 13) in *. rewrite <- !Z.land_ones in * by lia.
  rewrite !Z.ldiff_land. rewrite <- Z.land_assoc, (Z.land_comm (Z.lnot x)), Z.land_assoc, Hm. reflexivity.
Qed.

Lemma wf_set_mode i s : 0 <= i <= 12 -> wf_style s -> wf_style (set_mode i s).
Proof. intros Hi (Hf & Hb & Hm). split; [exact Hf|split; [exact Hb|apply lor_modes; assumption]]. Qed.
Lemma wf_reset_mode i s : wf_style s -> wf_style (reset_mode i s).
Proof. intros (Hf & Hb & Hm). split; [exact Hf|split; [exact Hb|apply ldiff_modes; assumption]]. Qed.
Lemma wf_set_fg c s : wf_color c -> wf_style s -> wf_style (set_fg c s).
Proof. intros Hc (Hf & Hb & Hm). split; [exact Hc|split; [exact Hb|exact Hm]]. Qed.
Lemma wf_set_bg c s : wf_color c -> wf_style s -> wf_style (set_bg c s).
Proof. intros Hc (Hf & Hb & Hm). split; [exact Hf|split; [exact Hc|exact Hm]]. Qed.
Lemma wf_set_comp b c s : wf_color c -> wf_style s -> wf_style (set_comp b c s).
Proof. intros; destruct b; [apply wf_set_bg|apply wf_set_fg]; assumption. Qed.
Lemma wf_default : wf_style default_style.
Proof. repeat split; cbn; lia. Qed.

Lemma wf_sgr_simple p s s' : wf_style s -> sgr_simple p s = Some s' -> wf_style s'.
Proof.
  intros Hs. unfold sgr_simple.
  unfold mBold, mDim, mItalic, mUnderline, mBlink, mReverse, mInvisible, mStrike, mOverline,
    mDUnderline, mFramed, mEncircled, mRapid.
  repeat match goal with
  | |- (if ?c then _ else _) = _ -> _ => destruct c eqn:?
  end; intros E; inversion E; subst; clear E;
  repeat first [ apply wf_default | apply wf_reset_mode | apply wf_set_mode; [lia|]
               | apply wf_set_fg; [cbn [wf_color]; lia|] | apply wf_set_bg; [cbn [wf_color]; lia|] | exact Hs ].
Qed.

Lemma rgb_of_range r g b : 0 <= rgb_of r g b < 16777216.
Proof. unfold rgb_of. lia. Qed.

Theorem wf_sgr_fold ps0 : forall s, wf_style s -> wf_style (sgr_fold ps0 s).
Proof.
  assert (Hlen : forall n (ps : list Z), (length ps <= n)%nat -> forall s, wf_style s -> wf_style (sgr_fold ps s)).
  { induction n as [|n IH]; intros ps Hl s Hs.
    - destruct ps; [exact Hs|cbn in Hl; lia].
    - destruct ps as [|p rest]; [exact Hs|]. cbn [length] in Hl. cbn [sgr_fold].
      assert (R : wf_style (sgr_fold rest s)) by (apply IH; [lia|exact Hs]).
      destruct ((p =? 38) || (p =? 48)).
      + destruct rest as [|m [|a rest2]]; try exact R.
        cbn [length] in Hl.
        destruct (m =? 5).
        { apply IH; [lia|]. apply wf_set_comp; [cbn [wf_color]; lia|exact Hs]. }
        destruct (m =? 2); [|exact R].
        destruct rest2 as [|g [|b rest3]]; try exact R.
        cbn [length] in Hl. apply IH; [lia|].
        apply wf_set_comp; [cbn [wf_color]; apply rgb_of_range|exact Hs].
      + destruct (sgr_simple p s) as [s'|] eqn:E; [|exact R].
        apply IH; [lia|]. exact (wf_sgr_simple p s s' Hs E). }
  intros s Hs. apply (Hlen (length ps0)); [lia|exact Hs].
Qed.

Theorem wf_sgr_apply ps s : wf_style s -> wf_style (sgr_apply ps s).
Proof. intros Hs. unfold sgr_apply. destruct ps; apply wf_sgr_fold, Hs. Qed.

(* ---------- examples ---------- *)
Example pack_example :
  let s := mkStyle (CRgb 66051) (CBright 3) 4609 in   (* rgb 1,2,3 on bright yellow; bold, double underline, rapid blink *)
  pack_fg s = 2147483648 + 66051 + 1 * 16777216 /\ pack_bg s = 515 + 36 * 16777216 /\
  unpack (pack_fg s) (pack_bg s) = s.
Proof. vm_compute. repeat split; reflexivity. Qed.

Example mode_example :
  test_mode mDUnderline (set_mode mDUnderline (set_mode mBold default_style)) = true /\
  test_mode mBold (reset_mode mDUnderline (set_mode mDUnderline (set_mode mBold default_style))) = true /\
  test_mode mDUnderline (reset_mode mDUnderline (set_mode mDUnderline (set_mode mBold default_style))) = false.
Proof. vm_compute. repeat split; reflexivity. Qed.

Example wf_fold_example :
  sgr_fold [1; 38; 2; 300; 2; 3; 48; 5; 511; 53] default_style = mkStyle (CRgb 2884099) (CIdx 255) 257.
Proof. vm_compute. reflexivity. Qed.
