(* Every row of every reachable screen is [renderable]: built glyph after glyph, each a head
   cell holding one valid UTF-8 rune whose width the oracle confirms, followed by its
   continuation cells in the same well-formed style.  This is the hypothesis of the ANSILine
   round-trip theorems (C11); here it is shown to hold along every history, so those theorems
   speak about every reachable screen.

   Side conditions, all necessary: a blank is one cell wide for the oracle ([wc 32 <= 1]); no
   glyph is wider than the screen ([glyph_width (wc r) <= wmax <= W], otherwise the code clips
   the glyph: known finding D12); glyph text is valid UTF-8 (on the span buffer an invalid byte
   is stored raw: known finding D13; the grid buffer stores U+FFFD, which is valid). *)
From Coq Require Import List ZArith Bool Lia.
From Termemu Require Import Base Style Screen Kbd Parser Term BaseLemmas ScreenInv TermInv HistProofs
  SgrSpec StyleProofs SgrProofs StampProofs StyleInv GlyphInv RenderProofs ParserProofs.
Import ListNotations.
Open Scope Z_scope.

Section RenderInv.
  Variable wc : Z -> Z.
  Hypothesis Hsp : wc 32 <= 1.
  Variable wmax : Z.
  Hypothesis Hwmax : forall r, glyph_width (wc r) <= wmax.

  Notation rrow := (renderable wc).

  (* ---- rows ---- *)
  Lemma rrow_app a b : rrow a -> rrow b -> rrow (a ++ b).
  Proof.
    induction 1 as [|txt r st rest Ht Hs Hr IH]; intros Hb; [exact Hb|].
    rewrite <- app_assoc. constructor; auto.
  Qed.

  Lemma rrow_row_ok l : rrow l -> row_ok l.
  Proof.
    induction 1 as [|txt r st rest Ht Hs Hr IH]; [constructor|].
    apply row_ok_app; [apply row_ok_glyph_cells, (glyph_width_pos wc)|exact IH].
  Qed.

  Lemma glyph_text_space : glyph_text [32] 32.
  Proof. split; [reflexivity|]. exists 32, []. split; reflexivity. Qed.

  Lemma blank_is_glyph st : [blank st] = glyph_cells [32] (glyph_width (wc 32)) st.
  Proof.
    unfold glyph_cells, blank. assert (E : glyph_width (wc 32) = 1).
    { unfold glyph_width. destruct (Z.leb_spec (wc 32) 0); lia. }
    rewrite E. reflexivity.
  Qed.

  Lemma rrow_blank st rest : wf_style st -> rrow rest -> rrow (blank st :: rest).
  Proof.
    intros Hs Hr. change (blank st :: rest) with ([blank st] ++ rest). rewrite blank_is_glyph.
    constructor; [exact glyph_text_space|exact Hs|exact Hr].
  Qed.

  Lemma rrow_blanks st n : wf_style st -> rrow (zrepeat (blank st) n).
  Proof.
    intros Hs. unfold zrepeat. induction (Z.to_nat n) as [|k IH]; cbn [repeat]; [constructor|].
    apply rrow_blank; assumption.
  Qed.

  Lemma rrow_unglyph l : Forall (fun c => wf_style (cst c)) l -> rrow (map unglyph l).
  Proof.
    induction 1 as [|c l Hc Hl IH]; cbn [map]; [constructor|].
    change (unglyph c) with (blank (cst c)). apply rrow_blank; assumption.
  Qed.

  Lemma rrow_glyph_cells txt r st : glyph_text txt r -> wf_style st ->
    rrow (glyph_cells txt (glyph_width (wc r)) st).
  Proof.
    intros Ht Hs. rewrite <- (app_nil_r (glyph_cells _ _ _)). constructor; [exact Ht|exact Hs|constructor].
  Qed.

  Lemma Forall_zrepeat_ {A} (P : A -> Prop) a n : P a -> Forall P (zrepeat a n).
  Proof. apply Forall_zrepeat. Qed.

  Lemma rrow_styles l : rrow l -> Forall (fun c => wf_style (cst c)) l.
  Proof.
    induction 1 as [|txt r st rest Ht Hs Hr IH]; [constructor|].
    apply Forall_app. split; [|exact IH]. unfold glyph_cells. constructor; [exact Hs|].
    apply Forall_zrepeat. exact Hs.
  Qed.

  Lemma conts_are_conts st n : Forall (fun c => is_cont c = true) (zrepeat (contc st) n).
  Proof. apply Forall_zrepeat. reflexivity. Qed.

  (* splitting at a glyph boundary *)
  Lemma rrow_split row : rrow row -> forall k, boundary_nat row k ->
    rrow (firstn k row) /\ rrow (skipn k row).
  Proof.
    induction 1 as [|txt r st rest Ht Hs Hr IH]; intros k Hb.
    - rewrite firstn_nil, skipn_nil. split; constructor.
    - destruct k as [|k]; [cbn [firstn skipn]; split; [constructor|constructor; assumption]|].
      unfold glyph_cells in *. cbn [app firstn skipn].
      set (conts := zrepeat (contc st) (glyph_width (wc r) - 1)) in *.
      pose proof (conts_are_conts st (glyph_width (wc r) - 1)) as Hc. fold conts in Hc.
      destruct (Nat.lt_ge_cases k (length conts)) as [Hlt|Hge].
      + exfalso. destruct Hb as [Hb|Hb].
        * cbn [app length] in Hb. rewrite app_length in Hb. lia.
        * cbn [app nth] in Hb. rewrite (nth_conts conts rest k Hc Hlt) in Hb. discriminate.
      + assert (Hb' : boundary_nat rest (k - length conts)).
        { destruct Hb as [Hb|Hb].
          - left. cbn [app length] in Hb. rewrite app_length in Hb. lia.
          - right. cbn [app nth] in Hb. rewrite app_nth2 in Hb by lia. exact Hb. }
        destruct (IH _ Hb') as (I1 & I2).
        rewrite firstn_app, skipn_app.
        rewrite (firstn_all2 conts) by lia. rewrite (skipn_all2 conts) by lia. cbn [app].
        split; [|exact I2].
        change (mkCell txt (glyph_width (wc r)) st :: conts ++ firstn (k - length conts) rest)
          with (glyph_cells txt (glyph_width (wc r)) st ++ firstn (k - length conts) rest).
        constructor; assumption.
  Qed.

  Lemma rrow_zsplit row k : rrow row -> boundary row k ->
    rrow (zfirstn k row) /\ rrow (zskipn k row).
  Proof.
    intros Hr Hb. unfold zfirstn, zskipn. destruct (Z.le_gt_cases k 0) as [Hk|Hk].
    - replace (Z.to_nat k) with 0%nat by lia. cbn. split; [constructor|exact Hr].
    - apply rrow_split; [exact Hr|]. destruct Hb as [Hb|[Hb|Hb]]; [lia| |].
      + left. unfold zlen in Hb. lia.
      + right. unfold znth in Hb. destruct (Z.ltb_spec k 0); [lia|exact Hb].
  Qed.

  (* ---- row operations ---- *)
  Lemma overwrite_rrow st x new row :
    rrow row -> rrow new -> wf_style st -> 0 <= x -> rrow (overwrite st x new row).
  Proof.
    intros Hr Hn Hs Hx. unfold overwrite. destruct (zlen new =? 0); [exact Hr|].
    pose proof (zlen_nonneg new). pose proof (rrow_row_ok row Hr) as Ho.
    destruct (rrow_zsplit row (left_edge row x) Hr (left_edge_boundary row x Ho Hx)) as (A & _).
    replace (x + zlen new + cont_run row (x + zlen new)) with ((x + zlen new) + cont_run row (x + zlen new)) by lia.
    destruct (rrow_zsplit row _ Hr (right_edge_boundary row (x + zlen new) ltac:(lia))) as (_ & B).
    repeat apply rrow_app; auto using rrow_blanks.
  Qed.

  Lemma delete_cells_rrow st x n row :
    rrow row -> wf_style st -> 0 <= x -> 0 <= n -> rrow (delete_cells st x n row).
  Proof.
    intros Hr Hs Hx Hn. unfold delete_cells. pose proof (rrow_row_ok row Hr) as Ho.
    pose proof (rrow_styles row Hr) as St.
    destruct (rrow_zsplit row (left_edge row x) Hr (left_edge_boundary row x Ho Hx)) as (A & _).
    destruct (rrow_zsplit row _ Hr (right_edge_boundary row (x + n) ltac:(lia))) as (_ & B).
    repeat apply rrow_app; auto using rrow_blanks, rrow_unglyph, Forall_zfirstn, Forall_zskipn.
  Qed.

  Lemma fit_row_rrow st w row : rrow row -> wf_style st -> 0 <= w -> rrow (fit_row st w row).
  Proof.
    intros Hr Hs Hw. unfold fit_row. pose proof (rrow_row_ok row Hr) as Ho.
    pose proof (rrow_styles row Hr) as St. destruct (w <? zlen row).
    - destruct (is_cont (znth w row dcell)) eqn:E.
      + assert (L : glyph_start row w = left_edge row w) by (unfold left_edge; rewrite E; reflexivity).
        rewrite L.
        destruct (rrow_zsplit row (left_edge row w) Hr (left_edge_boundary row w Ho Hw)) as (A & _).
        apply rrow_app; auto using rrow_unglyph, Forall_zfirstn, Forall_zskipn.
      + apply (rrow_zsplit row w Hr). right. right. exact E.
    - apply rrow_app; auto using rrow_blanks.
  Qed.

  Lemma blank_row_rrow w st : wf_style st -> rrow (blank_row w st).
  Proof. apply rrow_blanks. Qed.

  (* ---- screens ---- *)
  Definition RowsR (s : screen) : Prop := Forall rrow (rows s).

  (* the three invariants together, and room for the widest glyph *)
  Definition Inv3 (s : screen) : Prop := Inv s /\ SInv s /\ RowsR s /\ wmax <= sW s.

  Definition Good3 (s0 s : screen) : Prop := Inv3 s /\ sW s = sW s0 /\ sH s = sH s0.
  Definition Pres3 (f : screen -> screen) : Prop := forall s, Inv3 s -> Good3 s (f s).

  Lemma Good3_refl s : Inv3 s -> Good3 s s.
  Proof. intros H; split; [exact H|split; reflexivity]. Qed.
  Lemma Good3_step f s0 s : Pres3 f -> Good3 s0 s -> Good3 s0 (f s).
  Proof.
    intros Hf (I & W & H). destruct (Hf s I) as (I' & W' & H'). split; [exact I'|]. split; congruence.
  Qed.

  (* a primitive with the known Inv and SInv lemmas, for which RowsR is shown here *)
  Lemma Pres3_intro f : Pres f -> SPres f ->
    (forall s, Inv3 s -> RowsR (f s)) -> Pres3 f.
  Proof.
    intros Hp Hs Hr s I3. pose proof I3 as (I & S & R & Wm).
    destruct (Hp s I) as (I' & W' & H').
    split; [|split; assumption]. split; [exact I'|]. split; [apply Hs, S|]. split; [apply Hr, I3|lia].
  Qed.

  Lemma Pres3_of_rows f : Pres f -> SPres f -> (forall s, rows (f s) = rows s) -> Pres3 f.
  Proof.
    intros Hp Hs Hr. apply Pres3_intro; [exact Hp|exact Hs|]. intros s (_ & _ & R & _).
    unfold RowsR. rewrite Hr. exact R.
  Qed.

  Lemma SPres_of (f : screen -> screen) : (forall s, SInv s -> SInv (f s)) -> SPres f.
  Proof. intros H; exact H. Qed.

  Lemma Pres3_id : Pres3 (fun s => s).
  Proof. apply Pres3_of_rows; [apply Pres_id|intros s H; exact H|reflexivity]. Qed.
  Lemma Pres3_set_awrap v : Pres3 (set_awrap v).
  Proof. apply Pres3_of_rows; [apply Pres_set_awrap|intros s; apply SInv_set_awrap|reflexivity]. Qed.
  Lemma Pres3_set_cursor_pos x y : Pres3 (set_cursor_pos x y).
  Proof. apply Pres3_of_rows; [apply Pres_set_cursor_pos|intros s; apply SInv_set_cursor_pos|reflexivity]. Qed.
  Lemma Pres3_save_cursor : Pres3 save_cursor.
  Proof. apply Pres3_of_rows; [apply Pres_save_cursor|intros s; apply SInv_save_cursor|reflexivity]. Qed.
  Lemma Pres3_restore_cursor : Pres3 restore_cursor.
  Proof. apply Pres3_of_rows; [apply Pres_restore_cursor|intros s; apply SInv_restore_cursor|reflexivity]. Qed.
  Lemma Pres3_set_scroll_margins t b : Pres3 (set_scroll_margins t b).
  Proof.
    apply Pres3_of_rows; [apply Pres_set_scroll_margins|intros s; apply SInv_set_scroll_margins|].
    intros s. unfold set_scroll_margins. destruct (b <? t); reflexivity.
  Qed.
  Lemma Pres3_add_trig v : Pres3 (add_trig v).
  Proof.
    apply Pres3_of_rows; [|intros s; apply SInv_add_trig|reflexivity].
    intros s Hs. split; [apply Inv_add_trig, Hs|split; reflexivity].
  Qed.
  Lemma Pres3_sgr ps : Pres3 (fun s => set_style (sgr_apply ps (sty s)) s).
  Proof.
    apply Pres3_of_rows; [intros s Hs; apply Pres_set_style, Hs|intros s; apply SInv_sgr|reflexivity].
  Qed.

  Lemma RowsR_scroll y1 y2 dy s : RowsR s -> wf_style (sty s) -> RowsR (scroll y1 y2 dy s).
  Proof.
    intros R Hs. unfold scroll, RowsR in *.
    destruct (_ <? _); [exact R|].
    destruct (0 <? _); cbn [rows emit set_rows set_evs];
      repeat (apply Forall_app; split); auto using Forall_zfirstn, Forall_zskipn, Forall_zrepeat, blank_row_rrow.
  Qed.
  Lemma Pres3_scroll y1 y2 dy : Pres3 (scroll y1 y2 dy).
  Proof.
    apply Pres3_intro; [apply Pres_scroll|intros s; apply SInv_scroll|].
    intros s (_ & (S & _) & R & _). apply RowsR_scroll; assumption.
  Qed.

  Lemma RowsR_move_cursor dx dy wrap scr s : RowsR s -> wf_style (sty s) -> RowsR (move_cursor dx dy wrap scr s).
  Proof.
    intros R Hs. unfold move_cursor.
    destruct (if wrap && awrap s then _ else _) as [x1 y1].
    unfold RowsR.
    destruct (scr && _); [destruct (_ <? top s); [|destruct (bot s <? _)]|];
      cbn [rows emit set_cur set_evs]; try exact R; apply RowsR_scroll; assumption.
  Qed.
  Lemma Pres3_move_cursor dx dy wrap scr : Pres3 (move_cursor dx dy wrap scr).
  Proof.
    apply Pres3_intro; [apply Pres_move_cursor|intros s; apply SInv_move_cursor|].
    intros s (_ & (S & _) & R & _). apply RowsR_move_cursor; assumption.
  Qed.

  Lemma row_at_rrow s y : RowsR s -> rrow (row_at s y).
  Proof.
    intros R. unfold row_at, znth. destruct (y <? 0); [constructor|].
    destruct (Nat.lt_ge_cases (Z.to_nat y) (length (rows s))) as [H|H].
    - unfold RowsR in R. rewrite Forall_forall in R. apply R, nth_In, H.
    - rewrite nth_overflow by exact H. constructor.
  Qed.

  Lemma RowsR_write_row_cells reason x y new s :
    RowsR s -> wf_style (sty s) -> rrow new -> 0 <= x -> RowsR (write_row_cells reason x y new s).
  Proof.
    intros R Hs Hn Hx. unfold write_row_cells.
    destruct (zlen new <=? 0); [exact R|]. destruct (_ || _); [exact R|].
    set (s' := if is_cont _ then add_trig trSecondHalf s else s).
    assert (E : rows s' = rows s /\ sty s' = sty s) by (subst s'; destruct (is_cont _); split; reflexivity).
    destruct E as (E1 & E2). unfold RowsR. cbn [rows emit set_rows set_evs]. rewrite E1, E2.
    apply Forall_zupd; [exact R|]. apply overwrite_rrow; auto using row_at_rrow.
  Qed.

  Lemma sty_write_row_cells reason x y new s : sty (write_row_cells reason x y new s) = sty s.
  Proof.
    unfold write_row_cells. destruct (zlen new <=? 0); [reflexivity|]. destruct (_ || _); [reflexivity|].
    destruct (is_cont _); reflexivity.
  Qed.

  Lemma RowsR_erase_rows reason x x2 ys : forall s, RowsR s -> wf_style (sty s) -> 0 <= x ->
    RowsR (erase_rows reason x x2 ys s).
  Proof.
    induction ys as [|y ys IH]; intros s R Hs Hx; cbn [erase_rows]; [exact R|].
    apply IH; [|rewrite sty_write_row_cells; exact Hs|exact Hx].
    apply RowsR_write_row_cells; auto using rrow_blanks.
  Qed.

  Lemma Pres3_erase_region x y x2 y2 : Pres3 (erase_region x y x2 y2).
  Proof.
    apply Pres3_intro; [apply Pres_erase_region|intros s; apply SInv_erase_region|].
    intros s (I & (S & _) & R & _). unfold erase_region. apply RowsR_erase_rows; [exact R|exact S|].
    pose proof (inv_w s I). pose proof (clamp_range x 0 (sW s) ltac:(lia)). lia.
  Qed.

  Lemma Pres3_delete_chars x y n : Pres3 (delete_chars x y n).
  Proof.
    apply Pres3_intro; [apply Pres_delete_chars|intros s; apply SInv_delete_chars|].
    intros s (I & (S & _) & R & _).
    unfold delete_chars. destruct (_ || _ || _); [exact R|].
    set (n1 := if x <? 0 then n + x else n). set (x1 := if x <? 0 then 0 else x).
    destruct ((sW s <=? x1) || (n1 <=? 0)) eqn:E; [exact R|].
    apply orb_false_iff in E. destruct E as [E1 E2]. apply Z.leb_gt in E2.
    set (n2 := if sW s <? x1 + n1 then sW s - x1 else n1).
    assert (Hx1 : 0 <= x1) by (subst x1; destruct (Z.ltb_spec x 0); lia).
    assert (Hn2 : 0 <= n2) by (subst n2; apply Z.leb_gt in E1; destruct (Z.ltb_spec (sW s) (x1 + n1)); lia).
    set (s' := if is_cont _ then add_trig trSecondHalf s else s).
    assert (Er : rows s' = rows s /\ sty s' = sty s) by (subst s'; destruct (is_cont _); split; reflexivity).
    destruct Er as (Er & Es).
    unfold RowsR. cbn [rows emit set_rows set_evs]. rewrite Er, Es.
    apply Forall_zupd; [exact R|]. apply delete_cells_rrow; auto using row_at_rrow.
  Qed.

  (* a glyph whose text and width are what the oracle says *)
  Definition glyph_ok (txt : list Z) (w0 : Z) : Prop := exists r, glyph_text txt r /\ w0 = glyph_width (wc r).

  Lemma Pres3_write_glyph txt w0 : glyph_ok txt w0 -> Pres3 (write_glyph txt w0).
  Proof.
    intros (r & Ht & Ew). apply Pres3_intro; [apply Pres_write_glyph|intros s; apply SInv_write_glyph|].
    intros s (I & (S & Sc) & R & Wm).
    unfold write_glyph. destruct (negb _); [exact R|].
    pose proof (glyph_width_pos wc (wc r)) as Hp. pose proof (Hwmax r) as Hm.
    assert (E1 : (if w0 <? 1 then 1 else w0) = w0) by (destruct (Z.ltb_spec w0 1); lia).
    rewrite E1.
    assert (E2 : (sW s <? w0) = false) by (apply Z.ltb_ge; lia).
    rewrite E2. cbv zeta. rewrite E2.
    set (s1 := if sW s <? cx s + w0 then _ else s).
    assert (R1 : RowsR s1 /\ Inv s1 /\ wf_style (sty s1)).
    { subst s1. destruct (sW s <? cx s + w0); [|auto]. destruct (awrap s).
      - split; [apply RowsR_move_cursor; assumption|]. split; [apply Pres_move_cursor, I|].
        apply (SInv_move_cursor _ _ _ _ s (conj S Sc)).
      - split; [exact R|]. split; [|exact S]. pose proof (inv_w s I). pose proof (inv_cy s I).
        apply Inv_set_cur; [exact I|lia|assumption]. }
    destruct R1 as (R1 & I1 & S1).
    assert (R2 : RowsR (write_row_cells crText (cx s1) (cy s1) (glyph_cells txt w0 (sty s1)) s1)).
    { apply RowsR_write_row_cells; [exact R1|exact S1| |apply (inv_cx s1 I1)].
      rewrite Ew. apply rrow_glyph_cells; assumption. }
    destruct (negb _); [exact R2|apply RowsR_move_cursor; [exact R2|rewrite sty_write_row_cells; exact S1]].
  Qed.

  Lemma RowsR_set_size w h s : RowsR s -> wf_style (sty s) -> 0 <= w -> RowsR (set_size w h s).
  Proof.
    intros R Hs Hw. unfold set_size. destruct (_ || _); [exact R|].
    destruct (if _ <? top s then _ else _) as [t' b'].
    unfold RowsR, set_style. cbn [rows emit set_sty set_margins set_saved set_cur set_dims set_evs].
    apply Forall_app. split.
    - apply Forall_forall. intros r Hr. apply in_map_iff in Hr. destruct Hr as (r0 & <- & Hin).
      apply fit_row_rrow; [|exact Hs|exact Hw]. unfold RowsR in R. rewrite Forall_forall in R. apply R.
      unfold zfirstn in Hin. eapply In_firstn_, Hin.
    - apply Forall_zrepeat, blank_row_rrow, Hs.
  Qed.

  Hint Resolve Pres3_move_cursor Pres3_set_cursor_pos Pres3_scroll Pres3_erase_region Pres3_delete_chars
    Pres3_save_cursor Pres3_restore_cursor Pres3_set_scroll_margins Pres3_set_awrap
    Pres3_id Pres3_add_trig Pres3_sgr : pres3.

  Ltac pres3_solve :=
    let s := fresh "s" in let Hs := fresh "Hs" in
    intros s Hs; cbv beta zeta;
    repeat match goal with |- context [if ?c then _ else _] => destruct c end;
    repeat (apply Good3_step; [solve [auto with pres3]|]);
    first [apply Good3_refl; assumption | apply (Pres3_sgr _); assumption].

  (* ---------- terminal level ---------- *)
  Definition TInv3 (t : term) : Prop := TInv t /\ Inv3 (tmain t) /\ Inv3 (talt t).

  Lemma Inv3_set_evs l s : Inv3 s <-> Inv3 (set_evs l s).
  Proof.
    unfold Inv3. split; intros (I & S & R & W); (split; [|split; [|split; [exact R|exact W]]]).
    - apply Inv_set_evs, I.
    - apply SInv_set_evs, S.
    - apply (Inv_set_evs l), I.
    - eapply SInv_set_evs_inv, S.
  Qed.

  Lemma TInv3_init w h : wmax <= w -> 1 <= w -> 1 <= h -> TInv3 (init_term w h).
  Proof.
    intros Hm Hw Hh. pose proof (TInv_init w h Hw Hh) as T. split; [exact T|].
    destruct T as [Im Ia _ _]. destruct (TSInv_init w h) as (Sm & Sa).
    split; (split; [assumption|split; [assumption|split; [|cbn; exact Hm]]]);
      unfold RowsR; cbn; apply Forall_zrepeat, blank_row_rrow, wf_default.
  Qed.

  Lemma on_screen_ok3 f t : Pres3 f -> TInv3 t -> TInv3 (on_screen f t).
  Proof.
    intros Hf ([Hm Ha Hw Hh] & Rm & Ra). unfold on_screen, active, set_active.
    destruct (onalt t) eqn:E; cbn [tmain talt onalt].
    - destruct (Hf (set_evs [] (talt t)) (proj1 (Inv3_set_evs _ _) Ra)) as (I3 & W & H).
      pose proof I3 as (I & _).
      split; [constructor; cbn [tmain talt]; [exact Hm|apply Inv_set_evs, I| |]; ss; congruence|].
      split; [exact Rm|apply Inv3_set_evs, I3].
    - destruct (Hf (set_evs [] (tmain t)) (proj1 (Inv3_set_evs _ _) Rm)) as (I3 & W & H).
      pose proof I3 as (I & _).
      split; [constructor; cbn [tmain talt]; [apply Inv_set_evs, I|exact Ha| |]; ss; congruence|].
      split; [apply Inv3_set_evs, I3|exact Ra].
  Qed.

  Ltac tinv3_same := intros (T & Rm & Ra); split; [auto with tinv|split; assumption].

  Lemma TInv3_log_ev e t : TInv3 t -> TInv3 (log_ev e t).
  Proof. tinv3_same. Qed.
  Lemma TInv3_reply b t : TInv3 t -> TInv3 (reply b t).
  Proof. tinv3_same. Qed.
  Lemma TInv3_set_vflag i v t : TInv3 t -> TInv3 (set_vflag i v t).
  Proof. tinv3_same. Qed.
  Lemma TInv3_set_vint i v t : TInv3 t -> TInv3 (set_vint i v t).
  Proof. tinv3_same. Qed.
  Lemma TInv3_set_vstr i v t : TInv3 t -> TInv3 (set_vstr i v t).
  Proof. tinv3_same. Qed.
  Lemma TInv3_on_kbd f t : TInv3 t -> TInv3 (on_kbd f t).
  Proof.
    intros (T & Rm & Ra). split; [auto with tinv|]. unfold on_kbd. destruct (onalt t); split; assumption.
  Qed.
  Lemma TInv3_switch t : TInv3 t -> TInv3 (switch_screen t).
  Proof. tinv3_same. Qed.
  Hint Resolve TInv3_log_ev TInv3_reply TInv3_set_vflag TInv3_set_vint TInv3_set_vstr TInv3_on_kbd TInv3_switch : tinv3.

  Lemma TInv3_exec_c0 b t : TInv3 t -> TInv3 (exec_c0 b t).
  Proof.
    intros Ht. unfold exec_c0.
    repeat match goal with |- context [if ?c then _ else _] => destruct c end;
      auto with tinv3; apply on_screen_ok3; auto; pres3_solve.
  Qed.
  Lemma TInv3_exec_esc b t : TInv3 t -> TInv3 (exec_esc b t).
  Proof.
    intros Ht. unfold exec_esc.
    repeat match goal with |- context [if ?c then _ else _] => destruct c end;
      auto with tinv3; apply on_screen_ok3; auto; pres3_solve.
  Qed.
  Lemma TInv3_dec_mode v p t : TInv3 t -> TInv3 (dec_mode v p t).
  Proof.
    intros Ht. unfold dec_mode.
    repeat match goal with |- context [if ?c then _ else _] => destruct c end;
      auto with tinv3; apply on_screen_ok3; auto; pres3_solve.
  Qed.
  Lemma TInv3_dec_modes v ps : forall t, TInv3 t -> TInv3 (fold_left (fun t p => dec_mode v p t) ps t).
  Proof. induction ps as [|p ps IH]; intros t Ht; cbn [fold_left]; auto using TInv3_dec_mode. Qed.
  Lemma TInv3_exec_csi_plain ps f t : TInv3 t -> TInv3 (exec_csi_plain ps f t).
  Proof.
    intros Ht. unfold exec_csi_plain. cbv zeta.
    repeat match goal with |- TInv3 (if ?c then _ else _) => destruct c end;
      auto with tinv3; apply on_screen_ok3; auto; pres3_solve.
  Qed.
  Lemma TInv3_exec_csi prefix ps f t : TInv3 t -> TInv3 (exec_csi prefix ps f t).
  Proof.
    intros Ht. unfold exec_csi. cbv zeta.
    repeat match goal with |- TInv3 (if ?c then _ else _) => destruct c end;
      auto using TInv3_exec_csi_plain, TInv3_dec_modes with tinv3.
  Qed.
  Lemma TInv3_exec_osc n p t : TInv3 t -> TInv3 (exec_osc n p t).
  Proof.
    intros Ht. unfold exec_osc.
    repeat match goal with |- TInv3 (if ?c then _ else _) => destruct c end; auto with tinv3.
  Qed.

  (* tokens whose glyph text is valid UTF-8 measured by the oracle *)
  Definition tok_ok (k : tok) : Prop :=
    match k with TGlyph txt r w => glyph_text txt r /\ w = wc r | _ => True end.

  Theorem TInv3_exec_tok k t : tok_ok k -> TInv3 t -> TInv3 (exec_tok k t).
  Proof.
    intros Hk Ht. destruct k; cbn [exec_tok];
      auto using TInv3_exec_c0, TInv3_exec_esc, TInv3_exec_csi, TInv3_exec_osc.
    destruct Hk as (Hg & ->).
    apply on_screen_ok3; auto. intros s Hs. cbv beta.
    assert (G : glyph_ok txt (glyph_width (wc r))) by (exists r; split; [exact Hg|reflexivity]).
    destruct (_ && _); (apply Good3_step; [apply Pres3_write_glyph, G|]).
    - apply Good3_step; [apply Pres3_add_trig|apply Good3_refl; assumption].
    - apply Good3_refl; assumption.
  Qed.

  Theorem TInv3_resize w h t : TInv3 t -> wmax <= w -> 1 <= w -> 1 <= h -> TInv3 (resize w h t).
  Proof.
    intros (T & (Im & Sm & Rm & Wm) & (Ia & Sa & Ra & Wa)) Hm W H.
    pose proof (TInv_resize w h t T W H) as T'. split; [exact T'|].
    destruct (TSInv_resize w h t (conj Sm Sa)) as (Sm' & Sa'). destruct T' as [Im' Ia' _ _].
    destruct (set_size_ok w h (set_evs [] (tmain t)) (proj1 (Inv_set_evs _ _) Im) W H) as (_ & Wm2 & _).
    destruct (set_size_ok w h (set_evs [] (talt t)) (proj1 (Inv_set_evs _ _) Ia) W H) as (_ & Wa2 & _).
    unfold resize, log_ev in *. cbn [tmain talt] in *.
    split; (split; [assumption|split; [assumption|split]]).
    - apply RowsR_set_size; [exact Rm|apply Sm|lia].
    - change (sW (set_evs [] (set_size w h (set_evs [] (tmain t))))) with (sW (set_size w h (set_evs [] (tmain t)))).
      rewrite Wm2. exact Hm.
    - apply RowsR_set_size; [exact Ra|apply Sa|lia].
    - change (sW (set_evs [] (set_size w h (set_evs [] (talt t))))) with (sW (set_size w h (set_evs [] (talt t)))).
      rewrite Wa2. exact Hm.
  Qed.
End RenderInv.

(* ---------- tokens produced by the parser ---------- *)
Definition is_glyph_tok (k : tok) : bool := match k with TGlyph _ _ _ => true | _ => false end.

Lemma parse_csi_not_glyph inp k r : parse_csi inp = PTok k r -> is_glyph_tok k = false.
Proof.
  unfold parse_csi. destruct inp as [|b rest]; [discriminate|].
  destruct (if is_private b then _ else _) as [prefix body].
  destruct (scan_params body [] 0 false false) as [[[ps fb] rest']|]; [|discriminate].
  destruct (_ || _).
  - destruct (skip_to_final rest'); [|discriminate]. intros H; inversion H; reflexivity.
  - intros H; inversion H; reflexivity.
Qed.

Lemma parse_osc_not_glyph inp k r : parse_osc inp = PTok k r -> is_glyph_tok k = false.
Proof.
  unfold parse_osc. destruct (scan_digits inp 0) as [[[num b] rest]|]; [|discriminate].
  destruct (b =? 59).
  - destruct (scan_osc_payload rest []) as [[p r']|]; [|discriminate]. intros H; inversion H; reflexivity.
  - destruct (_ || _); [intros H; inversion H; reflexivity|].
    destruct (scan_str rest b); [|discriminate]. intros H; inversion H; reflexivity.
Qed.

Lemma parse_esc_not_glyph inp k r : parse_esc inp = PTok k r -> is_glyph_tok k = false.
Proof.
  unfold parse_esc. destruct inp as [|b rest]; [discriminate|].
  destruct (b =? 91); [apply parse_csi_not_glyph|].
  destruct (b =? 93); [apply parse_osc_not_glyph|].
  destruct (b =? 80); [destruct (scan_dcs rest 0); [|discriminate]; intros H; inversion H; reflexivity|].
  destruct (_ || _ || _ || _); [destruct rest; [discriminate|]; intros H; inversion H; reflexivity|].
  destruct (_ && _); [destruct (skip_intermediates rest); [|discriminate]; intros H; inversion H; reflexivity|].
  intros H; inversion H; reflexivity.
Qed.

(* a valid rune: its bytes alone decode to the same rune *)
Lemma decode_valid_prefix inp r size : decode_rune inp = Some (r, size, true) ->
  decode_rune (zfirstn size inp) = Some (r, zlen (zfirstn size inp), true).
Proof.
  intros H.
  destruct inp as [|b0 [|b1 [|b2 [|b3 l]]]]; unfold decode_rune in H; try discriminate;
    destruct (utf8_first b0) as [[sz lo] hi] eqn:U;
    repeat match type of H with context [if ?c then _ else _] => destruct c eqn:? end;
    try discriminate; inversion H; subst;
    unfold zfirstn, zlen; simpl firstn; simpl length; simpl Z.of_nat; unfold decode_rune; rewrite U;
    repeat match goal with E : ?c = _ |- context [?c] => rewrite E end; reflexivity.
Qed.

Lemma decode_invalid_rune inp r size : decode_rune inp = Some (r, size, false) -> r = runeError.
Proof.
  intros H.
  destruct inp as [|b0 [|b1 [|b2 [|b3 l]]]]; unfold decode_rune in *; try discriminate;
    destruct (utf8_first b0) as [[sz lo] hi];
    repeat match type of H with context [if ?c then _ else _] => destruct c eqn:? end;
    try discriminate; inversion H; reflexivity.
Qed.

(* ---------- histories ---------- *)
Section Hist3.
  Variable wc : Z -> Z.
  Hypothesis Hsp : wc 32 <= 1.
  Variable wmax : Z.
  Hypothesis Hwmax : forall r, glyph_width (wc r) <= wmax.

  (* with the grid buffer's text rule (an invalid byte is stored as U+FFFD) every token is fine *)
  Lemma parse_one_tok_ok inp k rest : parse_one wc true inp = PTok k rest -> tok_ok wc k.
  Proof.
    unfold parse_one. destruct inp as [|b l]; [discriminate|].
    destruct (is_printable b) eqn:P.
    - destruct (decode_rune (b :: l)) as [[[r size] valid]|] eqn:D; [|discriminate].
      intros H; inversion H; subst; clear H. cbn [tok_ok]. split; [|reflexivity].
      destruct valid; cbn [negb andb].
      + split; [apply decode_valid_prefix, D|].
        destruct (decode_rune_size _ _ _ _ D) as (S1 & _).
        destruct (Z.to_nat size) as [|n] eqn:En; [lia|].
        exists b, (firstn n l). split; [unfold zfirstn; rewrite En; reflexivity|exact P].
      + rewrite (decode_invalid_rune _ _ _ D). split; [reflexivity|].
        exists 239, [191; 189]. split; reflexivity.
    - destruct (b =? 27).
      + intros H. apply parse_esc_not_glyph in H. destruct k; try exact I. discriminate.
      + intros H; inversion H; exact I.
  Qed.

  (* any text rule, provided the two rules agree on this input (no invalid byte is stored raw) *)
  Lemma TInv3_run_pending fuel : forall t inp, TInv3 wc wmax t -> TInv3 wc wmax (fst (run_pending wc true fuel t inp)).
  Proof.
    induction fuel as [|f IH]; intros t inp Ht; cbn [run_pending]; [exact Ht|].
    destruct (crashed t); [exact Ht|].
    destruct (parse_one wc true inp) as [|k rest] eqn:P; [exact Ht|].
    apply IH, TInv3_exec_tok; [exact Hsp|exact Hwmax|eapply parse_one_tok_ok, P|exact Ht].
  Qed.

  Definition hop_wide (o : hop) : Prop :=
    match o with HResize w h => wmax <= w /\ 1 <= w /\ 1 <= h | HFeed _ => True end.

  Lemma TInv3_hstep st o : TInv3 wc wmax (fst st) -> hop_wide o -> TInv3 wc wmax (fst (hstep wc true st o)).
  Proof.
    intros Ht Ho. destruct o as [bs|w h]; cbn [hstep].
    - apply TInv3_run_pending, Ht.
    - destruct (crashed (fst st)); [exact Ht|]. cbn [fst]. destruct Ho as (A & B & C).
      apply TInv3_resize; assumption.
  Qed.

  Theorem TInv3_fold ops : forall st, TInv3 wc wmax (fst st) -> Forall hop_wide ops ->
    TInv3 wc wmax (fst (fold_left (hstep wc true) ops st)).
  Proof.
    induction ops as [|o ops IH]; intros st Ht Hok; cbn [fold_left]; [exact Ht|].
    inversion Hok; subst. apply IH; [apply TInv3_hstep; assumption|assumption].
  Qed.

  (* after every history whose screens are never narrower than the widest glyph, every row of
     both buffers is renderable *)
  Theorem reachable_rows_renderable w h ops : wmax <= w -> 1 <= w -> 1 <= h -> Forall hop_wide ops ->
    let t := fst (run_hist wc true (init_term w h) ops) in
    Forall (renderable wc) (rows (tmain t)) /\ Forall (renderable wc) (rows (talt t)).
  Proof.
    intros Hm Hw Hh Hok t.
    assert (T0 : TInv3 wc wmax (fst (init_term w h, @nil Z))) by (cbn [fst]; apply TInv3_init; assumption).
    destruct (TInv3_fold ops (init_term w h, []) T0 Hok) as (_ & (_ & _ & Rm & _) & (_ & _ & Ra & _)).
    split; assumption.
  Qed.
End Hist3.

(* ---------- C11 for every reachable screen ---------- *)
From Termemu Require Import Render ScreenRtProofs.

Section Reachable.
  Variable wc : Z -> Z.
  Hypothesis Hsp : wc 32 <= 1.
  Variable wmax : Z.
  Hypothesis Hwmax : forall r, glyph_width (wc r) <= wmax.

  Lemma Forall_and_ {A} (P Q : A -> Prop) l : Forall P l -> Forall Q l -> Forall (fun x => P x /\ Q x) l.
  Proof. induction 1; intros H2; inversion H2; subst; constructor; auto. Qed.

  (* Whatever was fed and however the terminal was resized (never narrower than the widest glyph),
     rendering every row of either buffer with ANSILine and feeding the result to a fresh terminal of
     the same size reproduces every cell: text, width and style. *)
  Theorem reachable_screen_roundtrip w h ops : wmax <= w -> 1 <= w -> 1 <= h -> Forall (hop_wide wmax) ops ->
    let t := fst (run_hist wc true (init_term w h) ops) in
    forall s, s = tmain t \/ s = talt t -> sH s <= maxCSIParam ->
    let res := run_bytes wc true (init_term (sW s) (sH s)) (render_screen_ansi (rows s)) in
    snd res = [] /\ rows (tmain (fst res)) = rows s.
  Proof.
    intros Hm Hw Hh Hok t s Hs Hmax.
    assert (T0 : TInv3 wc wmax (fst (init_term w h, @nil Z))) by (cbn [fst]; apply TInv3_init; assumption).
    destruct (TInv3_fold wc Hsp wmax Hwmax ops (init_term w h, []) T0 Hok) as (_ & (Im & _ & Rm & _) & (Ia & _ & Ra & _)).
    fold (run_hist wc true (init_term w h) ops) in Im, Rm, Ia, Ra. fold t in Im, Rm, Ia, Ra.
    assert (I : Inv s /\ Forall (renderable wc) (rows s)) by (destruct Hs; subst s; split; assumption).
    destruct I as (I & R).
    destruct (screen_rt_fresh wc true (rows s) (sW s) (sH s) (inv_w s I)
                (conj (inv_h s I) Hmax) (inv_rows s I) (Forall_and_ _ _ _ (inv_cols s I) R)) as (A & B & _).
    split; assumption.
  Qed.
End Reachable.

(* the side conditions are satisfiable: the example oracle, widest glyph 2 *)
Lemma ex_wc_space : ex_wc 32 <= 1.
Proof. vm_compute. discriminate. Qed.
Lemma ex_wc_max r : glyph_width (ex_wc r) <= 2.
Proof. unfold ex_wc, glyph_width. destruct (r =? 20013); cbn; lia. Qed.

Definition ex_hist : list hop :=
  [HFeed [27; 91; 51; 49; 109; 97; 228; 184; 173; 98]; HResize 3 2; HFeed [228; 184]; HFeed [173; 13; 10; 120]; HResize 6 3].

Example reachable_example :
  Forall (hop_wide 2) ex_hist /\
  let t := fst (run_hist ex_wc true (init_term 4 2) ex_hist) in
  rows (tmain (fst (run_bytes ex_wc true (init_term (sW (tmain t)) (sH (tmain t))) (render_screen_ansi (rows (tmain t))))))
  = rows (tmain t) /\ sW (tmain t) = 6 /\ map ctext (znth 0 (rows (tmain t)) []) <> map ctext (blank_row 6 default_style).
Proof.
  split; [repeat constructor; cbn; lia|]. vm_compute. repeat split. discriminate.
Qed.
