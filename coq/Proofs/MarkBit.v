(* Monotonicity of the finding marks, mark by mark.  Proofs/TrigMono.v shows that a run
   that ends with NO mark set never had one; here the same for any property of the mark word
   that survives taking marks away ([P (Z.lor a v) -> P a]): in particular for "bit n is not
   set", so a run that ends without the raw-invalid-byte mark (bit 3, [trInvalidUtf8] = 8)
   never stored a raw invalid byte, whatever the other marks did. *)
From Coq Require Import List ZArith Bool Lia.
From Termemu Require Import Base Style Screen Kbd Parser Term BaseLemmas ScreenInv TermInv HistProofs TrigMono.
Import ListNotations.
Open Scope Z_scope.

Section MarkP.
  Variable P : Z -> Prop.
  Hypothesis Plor : forall a v, P (Z.lor a v) -> P a.

  Definition MonoP (f : screen -> screen) : Prop := forall s, P (trig (f s)) -> P (trig s).

  Lemma add_trig_monoP v s : P (trig (add_trig v s)) -> P (trig s).
  Proof. rewrite trig_add_trig. apply Plor. Qed.

  Lemma write_row_cells_monoP reason x y new s : P (trig (write_row_cells reason x y new s)) -> P (trig s).
  Proof.
    unfold write_row_cells. cbv zeta.
    destruct (zlen new <=? 0); [auto|].
    destruct (_ || _); [auto|].
    destruct (is_cont (znth x (row_at s y) dcell)); rewrite trig_emit, trig_set_rows; [apply add_trig_monoP|auto].
  Qed.

  Lemma erase_rows_monoP reason x x2 ys : forall s, P (trig (erase_rows reason x x2 ys s)) -> P (trig s).
  Proof.
    induction ys as [|y ys IH]; intros s H; cbn [erase_rows] in H; [exact H|].
    apply IH in H. apply write_row_cells_monoP in H. exact H.
  Qed.

  Lemma erase_region_monoP x y x2 y2 s : P (trig (erase_region x y x2 y2 s)) -> P (trig s).
  Proof. unfold erase_region. apply erase_rows_monoP. Qed.

  Lemma delete_chars_monoP x y n s : P (trig (delete_chars x y n s)) -> P (trig s).
  Proof.
    unfold delete_chars. cbv zeta.
    destruct (_ || _); [auto|].
    destruct (_ || _); [auto|].
    destruct (is_cont _); rewrite trig_emit, trig_set_rows; [apply add_trig_monoP|auto].
  Qed.

  Lemma write_glyph_monoP txt w s : P (trig (write_glyph txt w s)) -> P (trig s).
  Proof.
    unfold write_glyph.
    destruct (negb (crash s =? 0)); [auto|].
    set (w1 := if w <? 1 then 1 else w).
    set (sa := if sW s <? w1 then add_trig trWideOnNarrow s else s).
    assert (Ha : P (trig sa) -> P (trig s)).
    { subst sa. destruct (sW s <? w1); [apply add_trig_monoP|auto]. }
    clearbody sa.
    set (w' := if sW sa <? w1 then sW sa else w1). clearbody w'.
    set (s1 := if sW sa <? cx sa + w' then _ else sa).
    assert (H1 : trig s1 = trig sa).
    { subst s1. destruct (sW sa <? cx sa + w'); [|reflexivity].
      destruct (awrap sa); [apply trig_move_cursor|apply trig_set_cur]. }
    clearbody s1.
    set (s2 := write_row_cells crText (cx s1) (cy s1) (glyph_cells txt w' (sty s1)) s1).
    assert (H2 : P (trig s2) -> P (trig s1)) by (subst s2; apply write_row_cells_monoP).
    clearbody s2.
    intros H. apply Ha. rewrite <- H1. apply H2.
    destruct (negb (crash s2 =? 0)); [exact H|]. rewrite trig_move_cursor in H. exact H.
  Qed.

  Ltac tmP_peel H :=
    repeat first
      [ rewrite trig_scroll in H | rewrite trig_move_cursor in H | rewrite trig_set_cursor_pos in H
      | rewrite trig_set_size in H | rewrite trig_save_cursor in H | rewrite trig_restore_cursor in H
      | rewrite trig_set_scroll_margins in H | rewrite trig_set_style in H | rewrite trig_set_awrap in H
      | rewrite trig_emit in H | rewrite trig_set_cur in H | rewrite trig_set_evs in H
      | apply add_trig_monoP in H | apply write_row_cells_monoP in H | apply erase_region_monoP in H
      | apply delete_chars_monoP in H | apply write_glyph_monoP in H ].
  Ltac tmP_solve :=
    let s := fresh "s" in let H := fresh "H" in
    intros s; cbv beta zeta; ifs; intros H; tmP_peel H; exact H.

  (* ---- terminal level ---- *)
  Definition tzP (t : term) : Prop := P (trig (tmain t)) /\ P (trig (talt t)).

  Lemma tzP_on_screen f t : MonoP f -> tzP (on_screen f t) -> tzP t.
  Proof.
    intros Hf. unfold tzP, on_screen, active, set_active.
    destruct (onalt t); cbn [tmain talt]; rewrite trig_set_evs; intros [H1 H2]; split; try assumption.
    - apply Hf in H2. exact H2.
    - apply Hf in H1. exact H1.
  Qed.

  (* what the active buffer looked like after the operation *)
  Lemma tzP_on_screen_active f t : tzP (on_screen f t) -> P (trig (f (set_evs [] (active t)))).
  Proof.
    unfold tzP, on_screen, active, set_active. destruct (onalt t); cbn [tmain talt]; rewrite trig_set_evs; tauto.
  Qed.

  Lemma tzP_log_ev e t : tzP (log_ev e t) <-> tzP t. Proof. reflexivity. Qed.
  Lemma tzP_reply b t : tzP (reply b t) <-> tzP t. Proof. reflexivity. Qed.
  Lemma tzP_set_vflag i v t : tzP (set_vflag i v t) <-> tzP t. Proof. reflexivity. Qed.
  Lemma tzP_set_vint i v t : tzP (set_vint i v t) <-> tzP t. Proof. reflexivity. Qed.
  Lemma tzP_set_vstr i v t : tzP (set_vstr i v t) <-> tzP t. Proof. reflexivity. Qed.
  Lemma tzP_switch_screen t : tzP (switch_screen t) <-> tzP t. Proof. reflexivity. Qed.
  Lemma tzP_on_kbd f t : tzP (on_kbd f t) <-> tzP t.
  Proof. unfold on_kbd. destruct (onalt t); reflexivity. Qed.

  Ltac tzP_leaf :=
    match goal with
    | |- tzP (on_screen _ _) -> _ => apply tzP_on_screen; tmP_solve
    | |- tzP (on_kbd _ _) -> _ => apply tzP_on_kbd
    | |- _ => exact (fun H => H)
    end.
  Ltac tzP_ifs := repeat match goal with |- tzP (if ?c then _ else _) -> _ => destruct c end.

  Lemma tzP_exec_c0 b t : tzP (exec_c0 b t) -> tzP t.
  Proof. unfold exec_c0. tzP_ifs; tzP_leaf. Qed.

  Lemma tzP_exec_esc b t : tzP (exec_esc b t) -> tzP t.
  Proof. unfold exec_esc. tzP_ifs; tzP_leaf. Qed.

  Lemma tzP_dec_mode v p t : tzP (dec_mode v p t) -> tzP t.
  Proof. unfold dec_mode. tzP_ifs; tzP_leaf. Qed.

  Lemma tzP_dec_modes v ps : forall t, tzP (fold_left (fun t p => dec_mode v p t) ps t) -> tzP t.
  Proof.
    induction ps as [|p ps IH]; intros t H; cbn [fold_left] in H; [exact H|].
    apply IH in H. apply tzP_dec_mode in H. exact H.
  Qed.

  Lemma tzP_exec_csi_plain ps f t : tzP (exec_csi_plain ps f t) -> tzP t.
  Proof. unfold exec_csi_plain. cbv zeta. tzP_ifs; tzP_leaf. Qed.

  Lemma tzP_exec_csi prefix ps f t : tzP (exec_csi prefix ps f t) -> tzP t.
  Proof.
    unfold exec_csi. cbv zeta. tzP_ifs;
      try apply tzP_exec_csi_plain; try apply tzP_dec_modes; tzP_leaf.
  Qed.

  Lemma tzP_exec_osc n p t : tzP (exec_osc n p t) -> tzP t.
  Proof. unfold exec_osc. tzP_ifs; tzP_leaf. Qed.

  Theorem tzP_exec_tok k t : tzP (exec_tok k t) -> tzP t.
  Proof.
    destruct k as [txt r w|b|b| |prefix ps f|num payload]; cbn [exec_tok].
    - cbv zeta. apply tzP_on_screen. tmP_solve.
    - apply tzP_exec_c0.
    - apply tzP_exec_esc.
    - exact (fun H => H).
    - apply tzP_exec_csi.
    - apply tzP_exec_osc.
  Qed.

  Theorem tzP_resize w h t : tzP (resize w h t) <-> tzP t.
  Proof.
    unfold tzP, resize. cbv zeta. unfold log_ev. cbn [tmain talt].
    rewrite !trig_set_evs, !trig_set_size, !trig_set_evs. reflexivity.
  Qed.

  Theorem tzP_run_pending wc grid fuel : forall t inp, tzP (fst (run_pending wc grid fuel t inp)) -> tzP t.
  Proof.
    induction fuel as [|f IH]; intros t inp H; cbn [run_pending] in H; [exact H|].
    destruct (crashed t); [exact H|].
    destruct (parse_one wc grid inp) as [|k rest]; [exact H|].
    apply IH in H. apply tzP_exec_tok in H. exact H.
  Qed.

  Theorem tzP_run_bytes wc grid t inp : tzP (fst (run_bytes wc grid t inp)) -> tzP t.
  Proof. apply tzP_run_pending. Qed.

  Theorem tzP_hstep wc grid st o : tzP (fst (hstep wc grid st o)) -> tzP (fst st).
  Proof.
    destruct o as [bs|w h]; cbn [hstep].
    - apply tzP_run_bytes.
    - destruct (crashed (fst st)); [exact (fun H => H)|]. cbn [fst]. apply tzP_resize.
  Qed.

  Theorem tzP_fold wc grid ops : forall st, tzP (fst (fold_left (hstep wc grid) ops st)) -> tzP (fst st).
  Proof.
    induction ops as [|o ops IH]; intros st H; cbn [fold_left] in H; [exact H|].
    apply IH in H. apply tzP_hstep in H. exact H.
  Qed.

  Theorem tzP_run_hist wc grid t ops : tzP (fst (run_hist wc grid t ops)) -> tzP t.
  Proof. unfold run_hist. intros H. apply tzP_fold in H. exact H. Qed.
End MarkP.

(* ---------- one mark ---------- *)
(* bit n of the mark word is not set *)
Definition bit_clear (n : Z) (z : Z) : Prop := Z.testbit z n = false.

Lemma bit_clear_lor n a v : bit_clear n (Z.lor a v) -> bit_clear n a.
Proof. unfold bit_clear. rewrite Z.lor_spec. intros H. apply orb_false_iff in H. apply H. Qed.

Lemma bit_clear_zero n : bit_clear n 0.
Proof. apply Z.testbit_0_l. Qed.

(* the raw-invalid-byte mark (known finding D13: the span buffer stores an invalid UTF-8 byte
   as it is) is bit 3 of the mark word *)
Definition no_raw (z : Z) : Prop := bit_clear 3 z.
Definition no_raw_mark (t : term) : Prop := tzP no_raw t.

Lemma no_raw_lor a v : no_raw (Z.lor a v) -> no_raw a.
Proof. apply bit_clear_lor. Qed.

Lemma no_raw_fired a : ~ no_raw (Z.lor a trInvalidUtf8).
Proof.
  unfold no_raw, bit_clear. rewrite Z.lor_spec. change (Z.testbit trInvalidUtf8 3) with true.
  rewrite orb_true_r. discriminate.
Qed.

(* a mark-free state in particular lacks this mark *)
Lemma tz_no_raw_mark t : tz t -> no_raw_mark t.
Proof. intros [A B]. split; unfold no_raw; [rewrite A|rewrite B]; apply bit_clear_zero. Qed.

Lemma no_raw_mark_init w h : no_raw_mark (init_term w h).
Proof. apply tz_no_raw_mark, tz_init. Qed.

(* [tz] itself is the instance "the whole word is 0" *)
Lemma tz_is_tzP t : tz t <-> tzP (fun z => z = 0) t.
Proof. reflexivity. Qed.

(* spelled out *)
Lemma no_raw_mark_spelled t :
  no_raw_mark t <-> Z.testbit (trig (tmain t)) 3 = false /\ Z.testbit (trig (talt t)) 3 = false.
Proof. reflexivity. Qed.

(* the condition at the end of a history is the condition at every point of it *)
Theorem no_raw_mark_run_hist wc grid t ops : no_raw_mark (fst (run_hist wc grid t ops)) -> no_raw_mark t.
Proof. apply (tzP_run_hist no_raw no_raw_lor). Qed.
Theorem no_raw_mark_prefix wc grid t ops1 ops2 :
  no_raw_mark (fst (run_hist wc grid t (ops1 ++ ops2))) -> no_raw_mark (fst (run_hist wc grid t ops1)).
Proof. unfold run_hist. rewrite fold_left_app. apply (tzP_fold no_raw no_raw_lor). Qed.
