(* wideTailAt (Model/SpanScreen.v) on a well-formed span row is [cont_run] of its cells:
   the number of cells at x that belong to a wide character starting before x. *)
From Coq Require Import List ZArith Bool Lia.
From Termemu Require Import Base Style Screen Parser BaseLemmas ScreenInv RowLemmas Span SpanText SpanRows SpanProofs
  SpanRefine SpanScreen.
Import ListNotations.
Open Scope Z_scope.

(* ---------- findSpanAtX ---------- *)
Lemma fsax_inside pre sp post : Forall (fun s => 1 <= sp_width s) pre -> forall i pos x,
  pos + spans_width pre < x < pos + spans_width pre + sp_width sp ->
  fsax (pre ++ sp :: post) i pos x = (i + zlen pre, x - (pos + spans_width pre)).
Proof.
  induction 1 as [|p pre Hp Hpre IH]; intros i pos x Hx; cbn [app fsax spans_width] in *.
  - destruct (Z.eqb_spec x (pos + sp_width sp)); [lia|]. destruct (Z.ltb_spec x (pos + sp_width sp)); [|lia].
    rewrite zlen_nil. f_equal; lia.
  - assert (0 <= spans_width pre) by (clear -Hpre; induction Hpre; cbn [spans_width]; lia).
    destruct (Z.eqb_spec x (pos + sp_width p)); [lia|]. destruct (Z.ltb_spec x (pos + sp_width p)); [lia|].
    rewrite IH by lia. rewrite zlen_cons. f_equal; lia.
Qed.
Lemma fsax_boundary pre post : Forall (fun s => 1 <= sp_width s) pre -> pre <> [] -> forall i pos x,
  x = pos + spans_width pre -> snd (fsax (pre ++ post) i pos x) = 0.
Proof.
  induction 1 as [|p pre Hp Hpre IH]; intros Hne i pos x Hx; [congruence|]. cbn [app fsax spans_width] in *.
  assert (0 <= spans_width pre) by (clear -Hpre; induction Hpre; cbn [spans_width]; lia).
  destruct (Z.eqb_spec x (pos + sp_width p)); [reflexivity|].
  destruct (Z.ltb_spec x (pos + sp_width p)); [lia|].
  destruct pre as [|q pre']; [cbn [spans_width] in *; lia|]. apply IH; [discriminate|lia].
Qed.

Section WithOracle.
  Variable wc : Z -> Z.
  Hypothesis Hmb : wc_multibyte wc.
  Notation gcl := (gcl wc).
  Notation abs_line := (abs_line wc).

  Ltac unroll c w cls :=
    change (bytes ((c, w) :: cls)) with (c ++ bytes cls);
    let z := fresh "z" in let zs := fresh "zs" in let E := fresh "E" in
    destruct (c ++ bytes cls) as [|z zs] eqn:E;
    [exfalso; match goal with H : gcl (c, w) |- _ => destruct (gcl_nonnil wc _ _ H) as (?b & ?c' & ?Ec); subst c; discriminate end|];
    rewrite <- E; clear E z zs.

  Lemma wta_past text : forall fuel cp off, off <= cp -> wta_loop wc fuel text cp off = 0.
  Proof.
    intros fuel cp off H. destruct fuel as [|f]; [reflexivity|]. cbn [wta_loop]. destruct text; [reflexivity|].
    destruct (Z.ltb_spec cp off); [lia|reflexivity].
  Qed.
  Lemma wta_boundary cls1 cls2 : Forall gcl cls1 -> forall fuel cp off,
    cp + cls_width cls1 = off -> wta_loop wc fuel (bytes (cls1 ++ cls2)) cp off = 0.
  Proof.
    induction 1 as [|[c w] cls1 Hc Hcls IH]; intros fuel cp off Ho.
    - cbn [app cls_width] in *. apply wta_past. lia.
    - destruct fuel as [|f]; [reflexivity|]. rewrite <- app_comm_cons. cbn [wta_loop]. unroll c w (cls1 ++ cls2).
      cbn [cls_width] in Ho. pose proof (cls_width_nonneg wc _ Hcls). pose proof (gcl_pos wc _ _ Hc) as [Hw _].
      destruct (Z.ltb_spec cp off); [|reflexivity].
      rewrite (gcl_step wc _ _ _ Hc). rewrite zskipn_app_len.
      destruct (Z.ltb_spec w 0); [lia|]. destruct (Z.ltb_spec off (cp + w)); [lia|]. cbn [andb].
      apply IH. lia.
  Qed.
  Lemma wta_inside cls1 c w cls2 : Forall gcl cls1 -> gcl (c, w) -> forall fuel cp off,
    (length (bytes (cls1 ++ (c, w) :: cls2)) <= fuel)%nat ->
    cp + cls_width cls1 < off < cp + cls_width cls1 + w ->
    wta_loop wc fuel (bytes (cls1 ++ (c, w) :: cls2)) cp off = cp + cls_width cls1 + w - off.
  Proof.
    induction 1 as [|[c1 w1] cls1 Hc1 Hcls IH]; intros Hc fuel cp off Hf Ho.
    - cbn [app cls_width] in *. rewrite length_bytes_cons in Hf. pose proof (gcl_pos wc _ _ Hc) as [Hw Hl].
      destruct fuel as [|f]; [unfold zlen in Hl; lia|]. cbn [wta_loop]. unroll c w cls2.
      destruct (Z.ltb_spec cp off); [|lia]. rewrite (gcl_step wc _ _ _ Hc).
      destruct (Z.ltb_spec w 0); [lia|]. destruct (Z.ltb_spec off (cp + w)); [|lia]. cbn [andb]. lia.
    - rewrite <- app_comm_cons in *. rewrite length_bytes_cons in Hf. pose proof (gcl_pos wc _ _ Hc1) as [Hw Hl].
      destruct fuel as [|f]; [unfold zlen in Hl; lia|]. cbn [wta_loop]. unroll c1 w1 (cls1 ++ (c, w) :: cls2).
      cbn [cls_width] in Ho. pose proof (cls_width_nonneg wc _ Hcls).
      destruct (Z.ltb_spec cp off); [|lia]. rewrite (gcl_step wc _ _ _ Hc1). rewrite zskipn_app_len.
      destruct (Z.ltb_spec w1 0); [lia|]. destruct (Z.ltb_spec off (cp + w1)); [lia|]. cbn [andb].
      rewrite IH; [|exact Hc|unfold zlen in Hl; lia|lia]. cbn [cls_width]. lia.
  Qed.

  Theorem wide_tail_at_cont_run W l x : wf_line wc W l -> safe_line wc l -> 0 <= x <= W ->
    wide_tail_at wc l x = cont_run (abs_line l) x.
  Proof.
    intros Hwf Hsafe Hx. destruct (good_of_wf wc W l Hwf Hsafe) as (Hg & HW & _).
    destruct (abs_line_gl wc l Hg) as (Al & _ & Ol). rewrite Al. unfold wide_tail_at, find_span_at_x.
    destruct (Z.leb_spec x 0) as [H0|H0].
    { assert (x = 0) by lia. subst x. cbn [Z.eqb orb].
      destruct (cut_boundary [] (gl_line wc l) ltac:(constructor) Ol) as (_ & _ & _ & _ & C). cbv zeta in C.
      cbn [app] in C. change (gwidth []) with 0 in C. symmetry. exact C. }
    unfold good_line in Hg. pose proof (good_widths1 wc _ Hg) as Hpos.
    rewrite spans_width_wsum in HW.
    destruct (wsum_split sp_width (sl_spans l) Hpos x ltac:(lia)) as [(l1 & l2 & E & H1)|(l1 & sp & l2 & E & H1)];
      rewrite <- spans_width_wsum in H1.
    - (* a span boundary *)
      assert (Hne : l1 <> []) by (intros ->; cbn in H1; lia).
      rewrite E in Hpos, Hg. apply Forall_app in Hpos as [P1 _]. apply Forall_app in Hg as [G1 G2].
      rewrite E. destruct (fsax (l1 ++ l2) 0 0 x) as [idx off] eqn:Ef.
      pose proof (fsax_boundary l1 l2 P1 Hne 0 0 x ltac:(lia)) as Hb. rewrite Ef in Hb. cbn [snd] in Hb. subst off.
      cbn [Z.eqb orb].
      unfold gl_line. rewrite E, gl_spans_app.
      destruct (cut_boundary (gl_spans wc l1) (gl_spans wc l2) (glyphs_good wc _ G1) (glyphs_good wc _ G2)) as (_ & _ & _ & _ & C).
      cbv zeta in C. rewrite (gwidth_good wc _ G1), H1 in C. symmetry. exact C.
    - (* inside the span sp *)
      rewrite E in Hpos, Hg. apply Forall_app in Hpos as [P1 _]. apply Forall_app in Hg as [G1 G2].
      inversion G2 as [|? ? Gsp G3]; subst.
      rewrite E. rewrite (fsax_inside l1 sp l2 P1 0 0 x ltac:(lia)). rewrite !Z.add_0_l.
      set (o := x - spans_width l1).
      destruct (Z.eqb_spec o 0); [unfold o in *; lia|].
      destruct (Z.leb_spec (zlen (l1 ++ sp :: l2)) (zlen l1)) as [Hl|Hl].
      { rewrite zlen_app, zlen_cons in Hl. pose proof (zlen_nonneg l2). lia. }
      cbn [orb]. rewrite znth_app_len.
      unfold gl_line. rewrite E, gl_spans_app, gl_spans_cons.
      pose proof (glyphs_good wc _ G1) as O1. pose proof (glyphs_good wc _ G3) as O3.
      pose proof (gwidth_good wc _ G1) as W1.
      destruct (is_text sp) eqn:Et; cbn [negb].
      + destruct (gspan_text_gl wc sp Gsp Et) as (cls & Hc & Hb & Hcw & Gl). rewrite Gl, Hb.
        pose proof Hc as Hc0.
        destruct (wsum_split snd cls (gcl_widths wc _ Hc) o) as [(c1 & c2 & -> & Hw)|(c1 & [c w] & c2 & -> & Hw)];
          [rewrite <- cls_width_wsum; unfold o; lia| |]; rewrite <- cls_width_wsum in Hw.
        * apply Forall_app in Hc as [Hc1 Hc2]. rewrite (wta_boundary c1 c2 Hc1) by lia.
          rewrite gl_text_app, app_assoc, <- app_assoc.
          assert (Oa : glyphs_ok (gl_spans wc l1 ++ gl_text (sp_sty sp) c1)).
          { apply glyphs_ok_app. split; [exact O1|apply (glyphs_ok_text wc), Hc1]. }
          assert (Ob : glyphs_ok (gl_text (sp_sty sp) c2 ++ gl_spans wc l2)).
          { apply glyphs_ok_app. split; [apply (glyphs_ok_text wc), Hc2|exact O3]. }
          destruct (cut_boundary _ _ Oa Ob) as (_ & _ & _ & _ & C). cbv zeta in C.
          rewrite gwidth_app, W1, gwidth_gl_text, Hw in C. unfold o in C.
          replace (spans_width l1 + (x - spans_width l1)) with x in C by lia. rewrite <- ?app_assoc in C. rewrite <- ?app_assoc. symmetry. exact C.
        * cbn [snd] in Hw. apply Forall_app in Hc as [Hc1 Hc2]. inversion Hc2 as [|? ? Hcw' Hc3]; subst.
          rewrite (wta_inside c1 c w c2 Hc1 Hcw') by lia. rewrite Z.add_0_l.
          rewrite gl_text_app. change (gl_text (sp_sty sp) ((c, w) :: c2)) with ((c, w, sp_sty sp) :: gl_text (sp_sty sp) c2).
          assert (Oa : glyphs_ok (gl_spans wc l1 ++ gl_text (sp_sty sp) c1)).
          { apply glyphs_ok_app. split; [exact O1|apply (glyphs_ok_text wc), Hc1]. }
          assert (Ob : glyphs_ok (gl_text (sp_sty sp) c2 ++ gl_spans wc l2)).
          { apply glyphs_ok_app. split; [apply (glyphs_ok_text wc), Hc3|exact O3]. }
          pose proof (gcl_pos wc _ _ Hcw') as [Hw1 _].
          destruct (cut_inside (gl_spans wc l1 ++ gl_text (sp_sty sp) c1) (c, w, sp_sty sp)
                      (gl_text (sp_sty sp) c2 ++ gl_spans wc l2) (o - cls_width c1) Oa
                      ltac:(cbn [gw fst snd]; lia) Ob ltac:(cbn [gw fst snd]; lia))
            as (_ & _ & _ & _ & _ & _ & C). cbv zeta in C.
          rewrite gwidth_app, W1, gwidth_gl_text in C. cbn [gw fst snd] in C.
          replace (spans_width l1 + cls_width c1 + (o - cls_width c1)) with x in C by (unfold o; lia).
          rewrite <- !app_assoc in C. rewrite <- !app_assoc. cbn [app] in *. rewrite C. lia.
      + (* a repeat span: one-cell glyphs *)
        pose proof (gspan_width wc _ Gsp) as Wsp.
        assert (Gl : gl_span wc sp = zrepeat (encode_rune (sp_rune sp), 1, sp_sty sp) (sp_width sp)).
        { unfold gl_span. destruct (Z.leb_spec (sp_width sp) 0); [lia|]. rewrite Et. reflexivity. }
        rewrite Gl. replace (sp_width sp) with (o + (sp_width sp - o)) by lia.
        rewrite zrepeat_app by (unfold o; lia). rewrite app_assoc, <- app_assoc.
        assert (Oa : glyphs_ok (gl_spans wc l1 ++ zrepeat (encode_rune (sp_rune sp), 1, sp_sty sp) o)).
        { apply glyphs_ok_app. split; [exact O1|apply glyphs_ok_zrepeat1]. }
        assert (Ob : glyphs_ok (zrepeat (encode_rune (sp_rune sp), 1, sp_sty sp) (sp_width sp - o) ++ gl_spans wc l2)).
        { apply glyphs_ok_app. split; [apply glyphs_ok_zrepeat1|exact O3]. }
        destruct (cut_boundary _ _ Oa Ob) as (_ & _ & _ & _ & C). cbv zeta in C.
        rewrite gwidth_app, W1 in C. rewrite gwidth_zrepeat1 in C by (unfold o; lia).
        replace (spans_width l1 + o) with x in C by (unfold o; lia). rewrite <- ?app_assoc in C. rewrite <- ?app_assoc. symmetry. exact C.
  Qed.
End WithOracle.
