(* Proofs/ConcRefuteProofs.v -- soundness of the refutation search of
   Model/ConcRefute.v: a trace it returns is a trace of the semantics and
   contains an unsafe observation. *)

From Coq Require Import List Bool Arith String.
From Termemu Require Import Conc ConcRefute.
Import ListNotations.

Section RefuteSound.
Variable cg : callgraph.
Variable exc : list (fid * fid).
Variable entries : list (fid * held).

Notation dflt_ev := (dflt_ev cg).
Notation dflt_list := (dflt_list cg).
Notation dflt_frame := (dflt_frame cg).
Notation search_ev := (search_ev cg exc entries).
Notation search_list := (search_list cg exc entries).
Notation unsafe := (unsafe exc entries).

Lemma dflt_sound : forall fuel,
  (forall stk h d e tr o, dflt_ev fuel stk h d e = Some (tr, o) -> exec_ev cg stk h d e tr o) /\
  (forall stk h d es tr o, dflt_list fuel stk h d es = Some (tr, o) -> exec_list cg stk h d es tr o) /\
  (forall stk h body tr h2, dflt_frame fuel stk h body = Some (tr, h2) -> exec_frame cg stk h body tr (Some h2)).
Proof.
  induction fuel as [| fuel [IHe [IHl IHf]]].
  - repeat split; intros; simpl in *; discriminate.
  - repeat split.
    + (* events *)
      intros stk h d e tr o H. destruct e; simpl in H.
      * inversion H; subst; constructor.
      * inversion H; subst; constructor.
      * inversion H; subst; constructor.
      * destruct (dflt_frame fuel stk (acq h m) body) as [[tr1 h1] |] eqn:E; [| discriminate].
        inversion H; subst. apply X_WithLock. apply IHf. exact E.
      * destruct (nth_error cg f) as [body |] eqn:En; [| discriminate].
        destruct (dflt_frame fuel (f :: stk) h body) as [[tr1 h1] |] eqn:E; [| discriminate].
        inversion H; subst. change (ONorm (h1, d)) with (frame_outcome (Some h1) d).
        eapply X_Call; [exact En | apply IHf; exact E].
      * inversion H; subst. apply X_Iface_ext.
      * inversion H; subst; constructor.
      * inversion H; subst; constructor.
      * inversion H; subst; constructor.
      * inversion H; subst; constructor.
      * inversion H; subst; constructor.
      * destruct (dflt_list fuel stk h d a) as [[tra [sta | ka sta |]] |] eqn:Ea;
          destruct (dflt_list fuel stk h d b) as [[trb [stb | kb stb |]] |] eqn:Eb;
          inversion H; subst;
          first [ apply X_Branch_l; apply IHl; assumption | apply X_Branch_r; apply IHl; assumption ].
      * inversion H; subst. apply X_Loop_exit.
      * destruct (dflt_list fuel stk h d body) as [[tr1 o1] |] eqn:E; [| discriminate].
        inversion H; subst. apply X_Scope. apply IHl. exact E.
      * inversion H; subst; constructor.
      * inversion H; subst; constructor.
      * inversion H; subst; constructor.
      * discriminate.
      * discriminate.
    + (* lists *)
      intros stk h d es tr o H. destruct es as [| e es]; simpl in H.
      * inversion H; subst. constructor.
      * destruct (dflt_ev fuel stk h d e) as [[tr1 [[h1 d1] | k st |]] |] eqn:E1; try discriminate.
        -- destruct (dflt_list fuel stk h1 d1 es) as [[tr2 o2] |] eqn:E2; [| discriminate].
           inversion H; subst. eapply XL_cons; [apply IHe; exact E1 | apply IHl; exact E2].
        -- inversion H; subst. apply XL_stop_exit. apply IHe. exact E1.
    + (* frames *)
      intros stk h body tr h2 H. simpl in H.
      destruct (dflt_list fuel stk h [] body) as [[tr0 [[h1 d1] | k [h1 d1] |]] |] eqn:E; try discriminate.
      * destruct (run_defers stk h1 d1) as [tr2 h2'] eqn:Er. inversion H; subst.
        eapply XF_done; [apply IHl; exact E | left; reflexivity | exact Er].
      * destruct k; try discriminate.
        destruct (run_defers stk h1 d1) as [tr2 h2'] eqn:Er. inversion H; subst.
        eapply XF_done; [apply IHl; exact E | right; reflexivity | exact Er].
Qed.

Definition bad (tr : list obs) : Prop := exists o, In o tr /\ unsafe o = true.

Lemma bad_one : forall o, unsafe o = true -> bad [o].
Proof. intros o H. exists o. simpl. auto. Qed.

Lemma bad_cons : forall o tr, bad tr -> bad (o :: tr).
Proof. intros o tr [o' [Hin Hu]]. exists o'. simpl. auto. Qed.

Lemma bad_app_r : forall tr1 tr2, bad tr2 -> bad (tr1 ++ tr2).
Proof. intros tr1 tr2 [o' [Hin Hu]]. exists o'. split; [apply in_or_app; auto | exact Hu]. Qed.

Definition ev_found (stk : list fid) (h : held) (d : list mutex) (e : ev) (tr : list obs) : Prop :=
  bad tr /\ (exec_ev cg stk h d e tr OCut \/ exists st, exec_ev cg stk h d e tr (ONorm st)).

Lemma call_cut : forall stk h d f body tr,
  nth_error cg f = Some body -> exec_list cg (f :: stk) h [] body tr OCut ->
  exec_ev cg stk h d (Call f) tr OCut.
Proof.
  intros stk h d f body tr Hn Hl. change OCut with (frame_outcome None d).
  eapply X_Call; [exact Hn | apply XF_cut; exact Hl].
Qed.

Lemma search_sound : forall fuel,
  (forall stk h d e tr, search_ev fuel stk h d e = Some tr -> ev_found stk h d e tr) /\
  (forall stk h d es tr, search_list fuel stk h d es = Some tr -> bad tr /\ exec_list cg stk h d es tr OCut).
Proof.
  induction fuel as [| fuel [IHe IHl]].
  - split; intros; simpl in *; discriminate.
  - assert (Hone : forall stk h a tr,
              (let o := mkObs stk h a in if unsafe o then Some [o] else None) = Some tr ->
              tr = [mkObs stk h a] /\ bad tr).
    { intros stk h a tr H. simpl in H. destruct (unsafe (mkObs stk h a)) eqn:E; [| discriminate].
      inversion H; subst. split; [reflexivity | apply bad_one; exact E]. }
    split.
    + intros stk h d e tr H. unfold ev_found. destruct e; simpl in H; try discriminate.
      * apply Hone in H. destruct H as [-> Hb]. split; [exact Hb |]. right. eexists. constructor.
      * apply Hone in H. destruct H as [-> Hb]. split; [exact Hb |]. right. eexists. constructor.
      * (* WithLock *)
        destruct (unsafe (mkObs stk h (ALock m))) eqn:Eu.
        -- inversion H; subst. split; [apply bad_one; exact Eu |]. left.
           apply X_WithLock_cut. apply XF_cut. apply XL_cut.
        -- destruct (search_list fuel stk (acq h m) [] body) as [tr' |] eqn:E; [| discriminate].
           simpl in H. inversion H; subst. destruct (IHl _ _ _ _ _ E) as [Hb Hx].
           split; [apply bad_cons; exact Hb |]. left. apply X_WithLock_cut. apply XF_cut. exact Hx.
      * (* Call *)
        destruct (on_stack f stk); [discriminate |].
        destruct (nth_error cg f) as [body |] eqn:En; [| discriminate].
        destruct (IHl _ _ _ _ _ H) as [Hb Hx]. split; [exact Hb |]. left.
        eapply call_cut; eassumption.
      * (* CallIface *)
        assert (Hsub : forall l, (forall f, In f l -> In f impls) ->
          (fix first (l : list fid) : option (list obs) :=
             match l with
             | [] => None
             | f :: l' =>
                 if on_stack f stk then first l' else
                 match nth_error cg f with
                 | Some body =>
                     match search_list fuel (f :: stk) h [] body with
                     | Some tr => Some tr
                     | None => first l'
                     end
                 | None => first l'
                 end
             end) l = Some tr ->
          bad tr /\ exec_ev cg stk h d (CallIface meth impls) tr OCut).
        { induction l as [| f l IHl']; intros Hin Hf; [discriminate |].
          assert (Hl' : forall g, In g l -> In g impls) by (intros g Hg; apply Hin; simpl; auto).
          destruct (on_stack f stk); [apply IHl'; assumption |].
          destruct (nth_error cg f) as [body |] eqn:En; [| apply IHl'; assumption].
          destruct (search_list fuel (f :: stk) h [] body) as [tr' |] eqn:E; [| apply IHl'; assumption].
          inversion Hf; subst. destruct (IHl _ _ _ _ _ E) as [Hb Hx]. split; [exact Hb |].
          eapply X_Iface; [apply Hin; simpl; auto | eapply call_cut; eassumption]. }
        destruct (Hsub impls (fun f Hf => Hf) H) as [Hb Hx]. split; [exact Hb | left; exact Hx].
      * apply Hone in H. destruct H as [-> Hb]. split; [exact Hb |]. right. eexists. constructor.
      * apply Hone in H. destruct H as [-> Hb]. split; [exact Hb |]. right. eexists. constructor.
      * apply Hone in H. destruct H as [-> Hb]. split; [exact Hb |]. right. eexists. constructor.
      * apply Hone in H. destruct H as [-> Hb]. split; [exact Hb |]. right. eexists. constructor.
      * (* Branch *)
        destruct (search_list fuel stk h d a) as [tra |] eqn:Ea.
        -- inversion H; subst. destruct (IHl _ _ _ _ _ Ea) as [Hb Hx]. split; [exact Hb |].
           left. apply X_Branch_l. exact Hx.
        -- destruct (IHl _ _ _ _ _ H) as [Hb Hx]. split; [exact Hb |]. left. apply X_Branch_r. exact Hx.
      * (* Loop *)
        destruct (IHl _ _ _ _ _ H) as [Hb Hx]. split; [exact Hb |]. left. apply X_Loop_cut. exact Hx.
      * (* Scope *)
        destruct (IHl _ _ _ _ _ H) as [Hb Hx]. split; [exact Hb |]. left.
        change OCut with (scope_outcome OCut). apply X_Scope. exact Hx.
      * (* Unsupported *)
        inversion H; subst. split; [apply bad_one; reflexivity |]. left. constructor.
    + intros stk h d es tr H. destruct es as [| e es]; simpl in H; [discriminate |].
      destruct (search_ev fuel stk h d e) as [tr1 |] eqn:E1.
      * inversion H; subst. destruct (IHe _ _ _ _ _ E1) as [Hb [Hx | [[h1 d1] Hx]]].
        -- split; [exact Hb |]. apply XL_stop_cut. exact Hx.
        -- split; [exact Hb |]. rewrite <- (app_nil_r tr). eapply XL_cons; [exact Hx | apply XL_cut].
      * destruct (dflt_ev fuel stk h d e) as [[tr1 [[h1 d1] | k st |]] |] eqn:E2; try discriminate.
        destruct (search_list fuel stk h1 d1 es) as [tr2 |] eqn:E3; [| discriminate].
        simpl in H. inversion H; subst. destruct (IHl _ _ _ _ _ E3) as [Hb Hx].
        split; [apply bad_app_r; exact Hb |].
        eapply XL_cons; [apply (dflt_sound fuel); exact E2 | exact Hx].
Qed.

Lemma bad_not_safe : forall tr, bad tr -> ~ Forall (safe_obs exc entries) tr.
Proof.
  intros tr [o [Hin Hu]] Hall. rewrite Forall_forall in Hall. specialize (Hall _ Hin).
  unfold safe_obs in Hall. unfold ConcRefute.unsafe in Hu. rewrite Hall in Hu. discriminate.
Qed.

Theorem refute_ids_sound : forall fuel f h tr,
  refute_ids cg exc entries fuel f h = Some tr ->
  thread_trace cg f h tr /\ ~ Forall (safe_obs exc entries) tr.
Proof.
  intros fuel f h tr H. unfold refute_ids in H.
  destruct (nth_error cg f) as [body |] eqn:En; [| discriminate].
  destruct (search_sound fuel) as [_ Hl]. destruct (Hl _ _ _ _ _ H) as [Hb Hx].
  split; [| apply bad_not_safe; exact Hb].
  exists body, None. split; [exact En | apply XF_cut; exact Hx].
Qed.

End RefuteSound.

Theorem refute_sound : forall fuel p exc_spec entry_spec name h tr,
  refute fuel p exc_spec entry_spec name h = Some tr ->
  refuted p exc_spec entry_spec name h.
Proof.
  intros fuel p exc_spec entry_spec name h tr H. unfold refute in H.
  destruct (resolve_pairs (p_names p) exc_spec) as [exc |] eqn:Ex; [| discriminate].
  destruct (resolve_entries (p_names p) entry_spec) as [entries |] eqn:Ee; [| discriminate].
  destruct (resolve (p_names p) name) as [f |] eqn:Ef; [| discriminate].
  destruct (refute_ids_sound _ _ _ _ _ _ _ H) as [Ht Hn].
  exists exc, entries, f, tr. repeat split; assumption.
Qed.

