(* The three views of a span row agree: Line(y) (Span.line_text), StyledLine(x,w,y)
   (Span.styled_line) and ANSILine(y) (Render.render_line_ansi of the row's cells)
   describe the same text; StyledLine returns positive-width runs summing to the
   requested width and holding exactly the cells of the range, provided no edge of
   the range cuts a double-width glyph (otherwise: see the refutations at the end). *)
From Coq Require Import List ZArith Bool Lia.
From Termemu Require Import Base Style Screen Parser BaseLemmas ScreenInv Span SpanText SpanRows SpanProofs SpanRefine
  Render SgrSpec StyleProofs RenderProofs SpanExamples.
From Termemu Require TtyFrontend.
Import ListNotations.
Open Scope Z_scope.

(* ---------- cells [a, b) of a list, clipped to the list ---------- *)
Definition range {A} (a b : Z) (l : list A) : list A := zskipn a (zfirstn b l).

Lemma range_nil {A} a b : range a b (@nil A) = [].
Proof. unfold range, zskipn, zfirstn. rewrite firstn_nil, skipn_nil. reflexivity. Qed.
Lemma range_hi {A} a b (l : list A) : b <= 0 -> range a b l = [].
Proof. intros H. unfold range. rewrite zfirstn_neg by exact H. unfold zskipn. apply skipn_nil. Qed.
Lemma range_lo {A} a b (l : list A) : zlen l <= a -> range a b l = [].
Proof.
  intros H. unfold range. apply zskipn_all. rewrite zlen_zfirstn. pose proof (zlen_nonneg l). lia.
Qed.
Lemma range_empty {A} a b (l : list A) : 0 <= a -> b <= a -> range a b l = [].
Proof.
  intros Ha H. unfold range. apply zskipn_all. rewrite zlen_zfirstn. pose proof (zlen_nonneg l). lia.
Qed.
Lemma range_all {A} a b (l : list A) : a <= 0 -> zlen l <= b -> range a b l = l.
Proof. intros Ha Hb. unfold range. rewrite zfirstn_all by exact Hb. apply zskipn_neg, Ha. Qed.
Lemma range_clip {A} a b (l : list A) : range a b l = range (Z.max 0 a) (Z.min (zlen l) b) l.
Proof.
  unfold range.
  assert (E1 : forall X : list A, zskipn (Z.max 0 a) X = zskipn a X) by (intros X; unfold zskipn; f_equal; lia).
  rewrite E1. f_equal. destruct (Z_le_gt_dec (zlen l) b) as [H|H].
  - rewrite Z.min_l by lia. rewrite !zfirstn_all by lia. reflexivity.
  - rewrite Z.min_r by lia. reflexivity.
Qed.
Lemma range_app {A} a b (l1 l2 : list A) :
  range a b (l1 ++ l2) = range a b l1 ++ range (a - zlen l1) (b - zlen l1) l2.
Proof.
  unfold range, zskipn, zfirstn, zlen. rewrite firstn_app, skipn_app, firstn_length.
  replace (Z.to_nat (b - Z.of_nat (length l1))) with (Z.to_nat b - length l1)%nat by lia.
  replace (Z.to_nat (a - Z.of_nat (length l1))) with (Z.to_nat a - length l1)%nat by lia.
  f_equal. destruct (Nat.le_gt_cases (Z.to_nat b) (length l1)) as [H|H].
  - replace (Z.to_nat b - length l1)%nat with O by lia. cbn [firstn]. rewrite !skipn_nil. reflexivity.
  - rewrite Nat.min_r by lia. reflexivity.
Qed.
Lemma range_window {A} x w (l : list A) : 0 <= x -> 0 <= w -> range x (x + w) l = zfirstn w (zskipn x l).
Proof.
  intros Hx Hw. unfold range, zskipn, zfirstn. rewrite Z2Nat.inj_add by lia. symmetry. apply firstn_skipn_comm.
Qed.
(* the list is A ++ B, the range starts where B starts *)
Lemma range_suffix {A} a b (l1 l2 : list A) : zlen l1 = a -> range a b (l1 ++ l2) = zfirstn (b - a) l2.
Proof.
  intros H. rewrite range_app. rewrite range_lo by lia. rewrite H, Z.sub_diag. reflexivity.
Qed.

(* ---------- the text of the cells of a span ---------- *)
Lemma ctext_conts st n : flat_map ctext (zrepeat (contc st) n) = [].
Proof. unfold zrepeat. induction (Z.to_nat n) as [|k IH]; [reflexivity|exact IH]. Qed.
Lemma ctext_glyph_cells c w st : flat_map ctext (glyph_cells c w st) = c.
Proof. unfold glyph_cells. cbn [flat_map ctext]. rewrite ctext_conts. apply app_nil_r. Qed.
Lemma ctext_bytes_cells st buf : flat_map ctext (map (fun b => mkCell [b] 1 st) buf) = buf.
Proof. induction buf as [|b r IH]; [reflexivity|]. cbn [map flat_map ctext app]. rewrite IH. reflexivity. Qed.
Lemma ctext_repeat_cells e st n : flat_map ctext (zrepeat (mkCell e 1 st) n) = concat_rep e (Z.to_nat n).
Proof. unfold zrepeat. induction (Z.to_nat n) as [|k IH]; [reflexivity|]. cbn [repeat flat_map ctext concat_rep]. rewrite IH. reflexivity. Qed.

Lemma cst_conts st n : Forall (fun c => cst c = st) (zrepeat (contc st) n).
Proof. apply Forall_zrepeat. reflexivity. Qed.

Section WithOracle.
  Variable wc : Z -> Z.
  Notation gspan := (gspan wc).
  Notation gspan0 := (gspan0 wc).
  Notation abs_span := (abs_span wc).
  Notation abs_spans := (abs_spans wc).
  Notation abs_line := (abs_line wc).

  (* whatever the bytes are (valid UTF-8 or not), the texts of the cells of a text are the text *)
  Lemma seg_cells_text st : forall fuel buf, (length buf <= fuel)%nat ->
    flat_map ctext (seg_cells wc fuel st buf) = buf.
  Proof.
    induction fuel as [|f IH]; intros buf Hf.
    - destruct buf; [reflexivity|cbn in Hf; lia].
    - destruct buf as [|b t]; [reflexivity|]. cbn [seg_cells]. unfold step_cluster.
      destruct (decode_rune (b :: t)) as [[[r size] v]|] eqn:Ed.
      + pose proof (decode_size _ _ _ _ Ed) as Hs. rewrite flat_map_app, ctext_glyph_cells.
        rewrite IH; [apply zfirstn_zskipn|].
        unfold zskipn. rewrite skipn_length. unfold zlen in Hs. lia.
      + apply ctext_bytes_cells.
  Qed.
  Lemma seg_cells_style st : forall fuel buf, Forall (fun c => cst c = st) (seg_cells wc fuel st buf).
  Proof.
    induction fuel as [|f IH]; intros buf; [constructor|].
    destruct buf as [|b t]; [constructor|]. cbn [seg_cells].
    destruct (step_cluster wc (b :: t)) as [[[c k] w]|].
    - apply Forall_app. split; [|apply IH]. unfold glyph_cells. constructor; [reflexivity|apply cst_conts].
    - apply Forall_map. apply Forall_forall. intros; reflexivity.
  Qed.

  (* Line(y), one span: its text is the concatenation of the texts of its cells; a
     repeat span of rune r and width n gives n copies of the encoding of r *)
  Lemma abs_span_text sp : 0 < sp_width sp -> flat_map ctext (abs_span sp) = span_text sp.
  Proof.
    intros Hw. unfold Span.abs_span, span_text. destruct (Z.leb_spec (sp_width sp) 0); [lia|].
    destruct (is_text sp); [apply seg_cells_text; lia|apply ctext_repeat_cells].
  Qed.
  Lemma abs_span_style sp : Forall (fun c => cst c = sp_sty sp) (abs_span sp).
  Proof.
    unfold Span.abs_span. destruct (sp_width sp <=? 0); [constructor|].
    destruct (is_text sp); [apply seg_cells_style|apply Forall_zrepeat; reflexivity].
  Qed.
  Lemma abs_spans_text spans : Forall (fun sp => 0 < sp_width sp) spans ->
    flat_map ctext (abs_spans spans) = flat_map span_text spans.
  Proof.
    induction 1 as [|sp r Hs _ IH]; [reflexivity|]. unfold Span.abs_spans in *. cbn [flat_map].
    rewrite flat_map_app, abs_span_text, IH by exact Hs. reflexivity.
  Qed.

  (* ---------- (1) Line(y) is the text of the row's cells ---------- *)
  Theorem line_text_cells W l :
    Forall (fun sp => 0 < sp_width sp) (sl_spans l) -> spans_width (sl_spans l) = W ->
    Span.line_text W l = Render.line_text (abs_line l).
  Proof.
    intros Hp Hw. unfold Span.line_text, Render.line_text, Span.abs_line.
    rewrite abs_spans_text by exact Hp. rewrite Hw, Z.sub_diag. cbn. apply app_nil_r.
  Qed.
  Lemma wf_line_pos W l : wf_line wc W l -> Forall (fun sp => 0 < sp_width sp) (sl_spans l).
  Proof. intros (Hf & _). eapply Forall_impl; [|exact Hf]. intros sp Hs. apply Hs. Qed.
  Theorem line_text_abs W l : wf_line wc W l -> Span.line_text W l = Render.line_text (abs_line l).
  Proof. intros H. apply line_text_cells; [eapply wf_line_pos, H|apply H]. Qed.
  (* no padding: Line(y) is the texts of the runs *)
  Theorem line_text_runs W l : wf_line wc W l -> Span.line_text W l = flat_map span_text (sl_spans l).
  Proof. intros (_ & Hw & _). unfold Span.line_text. rewrite Hw, Z.sub_diag. cbn. apply app_nil_r. Qed.

  (* ---------- (2) StyledLine(0, W, y) returns the stored runs ---------- *)
  Lemma styled_loop_inside spans : forall pos x w acc,
    Forall (fun sp => 0 < sp_width sp) spans -> x <= pos -> pos + spans_width spans <= x + w ->
    styled_loop wc spans pos x w acc = acc ++ spans.
  Proof.
    induction spans as [|sp r IH]; intros pos x w acc Hp Hx Hw; [symmetry; apply app_nil_r|].
    pose proof (Forall_inv Hp) as H1. pose proof (Forall_inv_tail Hp) as H2. cbv beta in H1.
    assert (Hr : 0 <= spans_width r).
    { clear -H2. induction H2 as [|s r Hs _ IHr]; cbn [spans_width]; lia. }
    cbn [spans_width] in Hw. cbn [styled_loop]. cbv zeta.
    destruct (Z.leb_spec (pos + sp_width sp) x); [lia|]. destruct (Z.leb_spec (x + w) pos); [lia|].
    unfold zmax, zmin. destruct (Z.ltb_spec pos x); [lia|]. destruct (Z.ltb_spec (pos + sp_width sp) (x + w)).
    - replace (pos + sp_width sp - pos) with (sp_width sp) by lia. destruct (Z.ltb_spec 0 (sp_width sp)); [|lia].
      rewrite Z.sub_diag, !Z.eqb_refl. cbn [andb]. rewrite IH by (auto; lia). rewrite <- app_assoc. reflexivity.
    - replace (x + w - pos) with (sp_width sp) by lia. destruct (Z.ltb_spec 0 (sp_width sp)); [|lia].
      rewrite Z.sub_diag, !Z.eqb_refl. cbn [andb]. rewrite IH by (auto; lia). rewrite <- app_assoc. reflexivity.
  Qed.

  Theorem styled_line_full W l : wf_line wc W l -> styled_line wc W l 0 W = (sl_spans l, W).
  Proof.
    intros H. pose proof (wf_line_pos _ _ H) as Hp. destruct H as (_ & Hw & _).
    assert (H0 : 0 <= W).
    { rewrite <- Hw. clear -Hp. induction Hp as [|s r Hs _ IHr]; cbn [spans_width]; lia. }
    unfold styled_line. destruct (Z.ltb_spec W 0); [lia|]. destruct (Z.ltb_spec W (0 + W)); [lia|]. cbn [orb].
    destruct (Z.ltb_spec W 0); [lia|]. f_equal. apply (styled_loop_inside (sl_spans l) 0 0 W []); auto; lia.
  Qed.
End WithOracle.

(* ---------- (3) StyledLine(x, w, y) on a sub-range ---------- *)
Lemma is_cont_dcell : is_cont dcell = false.
Proof. reflexivity. Qed.
Lemma cont_shift (C1 C2 : list cell) n :
  is_cont (znth n (C1 ++ C2) dcell) = false -> is_cont (znth (n - zlen C1) C2 dcell) = false.
Proof.
  intros H. destruct (Z_lt_ge_dec (n - zlen C1) 0) as [Hn|Hn].
  - rewrite znth_neg by exact Hn. reflexivity.
  - rewrite znth_app_r in H by lia. exact H.
Qed.

Section Range.
  Variable wc : Z -> Z.
  Hypothesis Hmb : wc_multibyte wc.
  Notation gspan := (gspan wc).
  Notation gspan0 := (gspan0 wc).
  Notation abs_span := (abs_span wc).
  Notation abs_spans := (abs_spans wc).
  Notation abs_line := (abs_line wc).

  Lemma gspan_len sp : gspan sp -> zlen (abs_span sp) = sp_width sp.
  Proof. intros H. destruct (gspan_gl wc sp H) as (A & B & C & _). rewrite A, zlen_gcells by exact C. exact B. Qed.
  Lemma gspans_len spans : Forall gspan spans -> zlen (abs_spans spans) = spans_width spans.
  Proof.
    induction 1 as [|sp r Hs _ IH]; [reflexivity|]. unfold Span.abs_spans in *. cbn [flat_map spans_width].
    rewrite zlen_app, gspan_len, IH by exact Hs. reflexivity.
  Qed.
  Lemma gspan0_pos sp : gspan0 sp -> 0 < sp_width sp -> gspan sp.
  Proof. intros [H|H] Hw; [lia|exact H]. Qed.

  (* splitSpan at an offset that does not cut a wide glyph *)
  Lemma split_clean sp off : gspan sp -> 0 < off < sp_width sp ->
    is_cont (znth off (abs_span sp) dcell) = false ->
    exists lf rt wd, split_span wc sp off = (lf, rt, wd) /\ gspan lf /\ gspan rt /\
      sp_width lf = off /\ sp_width rt = sp_width sp - off /\
      abs_span sp = abs_span lf ++ abs_span rt /\ sp_sty lf = sp_sty sp /\ sp_sty rt = sp_sty sp.
  Proof.
    intros Hg Ho Hc. destruct (split_span_spec wc Hmb sp off Hg Ho) as (lf & rt & wd & E & Glf & Grt & Slf & Srt & D).
    exists lf, rt, wd. split; [exact E|]. destruct (gspan_gl wc sp Hg) as (As & _).
    destruct (gspan0_gl wc lf Glf) as (Al & Wl & Ol & _). destruct (gspan0_gl wc rt Grt) as (Ar & Wr & Or & _).
    destruct D as [(W0 & Wlf & Wrt & GL)|(Gwd & _ & _ & _ & Bk & Wsum & GL & Gg)].
    - split; [apply gspan0_pos; [exact Glf|lia]|]. split; [apply gspan0_pos; [exact Grt|lia]|].
      split; [exact Wlf|]. split; [exact Wrt|]. split; [rewrite As, GL, gcells_app, Al, Ar; reflexivity|]. auto.
    - exfalso. destruct (gspan_gl wc wd Gwd) as (_ & Ww & Ow & _). rewrite Gg in Ww, Ow.
      set (g := (sp_text wd, sp_width wd, sp_sty sp)) in *.
      assert (Hgw : gw g = sp_width wd) by reflexivity.
      pose proof (Forall_inv Ow) as Og. cbv beta in Og.
      destruct (cut_inside (gl_span wc lf) g (gl_span wc rt) (off - sp_width lf) Ol Og Or ltac:(lia))
        as (_ & _ & _ & C & _). cbv zeta in C.
      rewrite Wl in C. replace (sp_width lf + (off - sp_width lf)) with off in C by lia.
      rewrite As, GL, Gg in Hc. fold g in Hc. cbn [app] in Hc. rewrite Hc in C. discriminate.
  Qed.

  (* the span StyledLine keeps of one stored span: its cells [off, off+width) *)
  Definition piece (sp : span) (off width : Z) : span :=
    if (off =? 0) && (width =? sp_width sp) then sp
    else
      let '(_, sub, _) := split_span wc sp off in
      if width <? sp_width sub then (let '(keep, _, _) := split_span wc sub width in keep) else sub.

  Lemma styled_loop_cons sp rest pos x w acc :
    styled_loop wc (sp :: rest) pos x w acc =
    let e := pos + sp_width sp in
    if e <=? x then styled_loop wc rest e x w acc
    else if x + w <=? pos then acc
    else
      let width := zmin e (x + w) - zmax pos x in
      styled_loop wc rest e x w (if 0 <? width then acc ++ [piece sp (zmax pos x - pos) width] else acc).
  Proof.
    cbn [styled_loop]. cbv zeta. destruct (pos + sp_width sp <=? x); [reflexivity|].
    destruct (x + w <=? pos); [reflexivity|]. f_equal.
    destruct (0 <? zmin (pos + sp_width sp) (x + w) - zmax pos x); [|reflexivity]. unfold piece.
    destruct ((zmax pos x - pos =? 0) && (zmin (pos + sp_width sp) (x + w) - zmax pos x =? sp_width sp)); [reflexivity|].
    destruct (split_span wc sp (zmax pos x - pos)) as [[x1 sub] x3].
    destruct (zmin (pos + sp_width sp) (x + w) - zmax pos x <? sp_width sub); [|reflexivity].
    destruct (split_span wc sub (zmin (pos + sp_width sp) (x + w) - zmax pos x)) as [[keep y2] y3]. reflexivity.
  Qed.

  Lemma piece_spec sp a b : gspan sp -> 0 <= a -> a < b -> b <= sp_width sp ->
    (a = 0 \/ is_cont (znth a (abs_span sp) dcell) = false) ->
    (b = sp_width sp \/ is_cont (znth b (abs_span sp) dcell) = false) ->
    gspan (piece sp a (b - a)) /\ sp_width (piece sp a (b - a)) = b - a /\
    abs_span (piece sp a (b - a)) = range a b (abs_span sp) /\ sp_sty (piece sp a (b - a)) = sp_sty sp.
  Proof.
    intros Hg Ha Hab Hb Ca Cb. pose proof (gspan_len sp Hg) as Ls. unfold piece.
    destruct (Z.eqb_spec a 0) as [Ea|Ea]; cbn [andb].
    - (* the range starts where the span starts *)
      subst a. rewrite Z.sub_0_r.
      destruct (Z.eqb_spec b (sp_width sp)) as [Eb|Eb].
      { split; [exact Hg|]. split; [lia|]. split; [|reflexivity]. symmetry. apply range_all; lia. }
      assert (S0 : split_span wc sp 0 = (empty_span, sp, empty_span)) by reflexivity. rewrite S0.
      destruct (Z.ltb_spec b (sp_width sp)); [|lia].
      destruct Cb as [Cb|Cb]; [lia|].
      destruct (split_clean sp b Hg ltac:(lia) Cb) as (lf & rt & wd & E & Glf & Grt & Wlf & Wrt & Ab & Slf & Srt).
      rewrite E. split; [exact Glf|]. split; [exact Wlf|]. split; [|exact Slf].
      rewrite Ab. unfold range. cbn [zskipn Z.to_nat skipn]. rewrite <- Wlf, <- (gspan_len lf Glf). symmetry. apply zfirstn_app_len.
    - destruct Ca as [Ca|Ca]; [lia|].
      destruct (split_clean sp a Hg ltac:(lia) Ca) as (lf & sub & wd & E & Glf & Gsub & Wlf & Wsub & Ab & Slf & Ssub).
      rewrite E. pose proof (gspan_len lf Glf) as Ll. pose proof (gspan_len sub Gsub) as Lsub.
      destruct (Z.ltb_spec (b - a) (sp_width sub)) as [Hlt|Hge].
      + destruct Cb as [Cb|Cb]; [lia|]. rewrite Ab in Cb. rewrite znth_app_r in Cb by lia. rewrite Ll, Wlf in Cb.
        destruct (split_clean sub (b - a) Gsub ltac:(lia) Cb) as (keep & rt & wd2 & E2 & Gk & Grt & Wk & Wrt & Ab2 & Sk & Srt).
        rewrite E2. split; [exact Gk|]. split; [exact Wk|]. split; [|congruence].
        rewrite Ab. rewrite range_suffix by lia. rewrite Ab2. rewrite <- Wk, <- (gspan_len keep Gk). symmetry. apply zfirstn_app_len.
      + split; [exact Gsub|]. split; [lia|]. split; [|exact Ssub].
        rewrite Ab. rewrite range_suffix by lia. symmetry. apply zfirstn_all. lia.
  Qed.

  Lemma styled_loop_range spans : forall pos x w acc, Forall gspan spans -> 0 <= w ->
    is_cont (znth (x - pos) (abs_spans spans) dcell) = false ->
    is_cont (znth (x + w - pos) (abs_spans spans) dcell) = false ->
    exists res, styled_loop wc spans pos x w acc = acc ++ res /\ Forall gspan res /\
      abs_spans res = range (x - pos) (x + w - pos) (abs_spans spans).
  Proof.
    induction spans as [|sp rest IH]; intros pos x w acc Hg Hw Cx Cxw.
    - exists []. split; [symmetry; apply app_nil_r|]. split; [constructor|]. cbn. symmetry. apply range_nil.
    - pose proof (Forall_inv Hg) as Gs. pose proof (Forall_inv_tail Hg) as Gr.
      pose proof (gspan_len sp Gs) as Ls. pose proof (gspan_width wc sp Gs) as Ws.
      change (abs_spans (sp :: rest)) with (abs_span sp ++ abs_spans rest) in *.
      pose proof (cont_shift _ _ _ Cx) as Cx'. pose proof (cont_shift _ _ _ Cxw) as Cxw'. rewrite Ls in Cx', Cxw'.
      rewrite range_app, Ls. rewrite styled_loop_cons. cbv zeta.
      replace (x - pos - sp_width sp) with (x - (pos + sp_width sp)) in * by lia.
      replace (x + w - pos - sp_width sp) with (x + w - (pos + sp_width sp)) in * by lia.
      destruct (Z.leb_spec (pos + sp_width sp) x) as [H1|H1].
      { destruct (IH (pos + sp_width sp) x w acc Gr Hw Cx' Cxw') as (res & E & Gres & Ares).
        exists res. split; [exact E|]. split; [exact Gres|]. rewrite range_lo by lia. exact Ares. }
      destruct (Z.leb_spec (x + w) pos) as [H2|H2].
      { exists []. split; [symmetry; apply app_nil_r|]. split; [constructor|].
        rewrite !range_hi by lia. reflexivity. }
      set (a := zmax pos x - pos). set (b := zmin (pos + sp_width sp) (x + w) - pos).
      replace (zmin (pos + sp_width sp) (x + w) - zmax pos x) with (b - a) by (subst a b; lia).
      assert (Ea : a = Z.max 0 (x - pos)) by (subst a; unfold zmax; destruct (Z.ltb_spec pos x); lia).
      assert (Eb : b = Z.min (sp_width sp) (x + w - pos)) by (subst b; unfold zmin; destruct (Z.ltb_spec (pos + sp_width sp) (x + w)); lia).
      assert (R1 : range (x - pos) (x + w - pos) (abs_span sp) = range a b (abs_span sp)).
      { rewrite range_clip, Ls, <- Ea, <- Eb. reflexivity. }
      rewrite R1.
      destruct (Z.ltb_spec 0 (b - a)) as [Hp|Hp].
      + assert (Ca : a = 0 \/ is_cont (znth a (abs_span sp) dcell) = false).
        { destruct (Z_le_gt_dec x pos); [left; lia|right]. replace a with (x - pos) by lia.
          rewrite znth_app_l in Cx by lia. exact Cx. }
        assert (Cb : b = sp_width sp \/ is_cont (znth b (abs_span sp) dcell) = false).
        { destruct (Z_le_gt_dec (sp_width sp) (x + w - pos)); [left; lia|right]. replace b with (x + w - pos) by lia.
          rewrite znth_app_l in Cxw by lia. exact Cxw. }
        destruct (piece_spec sp a b Gs ltac:(lia) ltac:(lia) ltac:(lia) Ca Cb) as (Gp & Wp & Ap & _).
        destruct (IH (pos + sp_width sp) x w (acc ++ [piece sp a (b - a)]) Gr Hw Cx' Cxw') as (res & E & Gres & Ares).
        exists (piece sp a (b - a) :: res). split; [rewrite E, <- app_assoc; reflexivity|].
        split; [constructor; assumption|].
        change (abs_spans (piece sp a (b - a) :: res)) with (abs_span (piece sp a (b - a)) ++ abs_spans res).
        rewrite Ap, Ares. reflexivity.
      + destruct (IH (pos + sp_width sp) x w acc Gr Hw Cx' Cxw') as (res & E & Gres & Ares).
        exists res. split; [exact E|]. split; [exact Gres|]. rewrite range_empty by lia. exact Ares.
  Qed.
End Range.

Section Views.
  Variable wc : Z -> Z.
  Hypothesis Hmb : wc_multibyte wc.
  Notation abs_span := (abs_span wc).
  Notation abs_spans := (abs_spans wc).
  Notation abs_line := (abs_line wc).

  (* StyledLine(x, w, y) when no edge of [x, x+w) cuts a wide glyph: well-formed, safe runs of
     positive width summing to w whose cells are exactly the cells of the range *)
  Theorem styled_line_range W l x w :
    wf_line wc W l -> safe_line wc l -> 0 <= x -> 0 <= w -> x + w <= W ->
    is_cont (znth x (abs_line l) dcell) = false -> is_cont (znth (x + w) (abs_line l) dcell) = false ->
    exists sps, styled_line wc W l x w = (sps, w) /\
      Forall (wf_span wc) sps /\ Forall (safe_span wc) sps /\
      Forall (fun sp => 0 < sp_width sp) sps /\ spans_width sps = w /\
      abs_spans sps = zfirstn w (zskipn x (abs_line l)) /\
      flat_map span_text sps = Render.line_text (zfirstn w (zskipn x (abs_line l))).
  Proof.
    intros Hwf Hs Hx Hw Hxw Cx Cxw. destruct (good_of_wf wc W l Hwf Hs) as (Hg & HW & _).
    unfold styled_line. destruct (Z.ltb_spec w 0); [lia|]. destruct (Z.ltb_spec W (x + w)); [lia|]. cbn [orb].
    destruct (Z.ltb_spec w 0); [lia|].
    destruct (styled_loop_range wc Hmb (sl_spans l) 0 x w [] Hg Hw) as (res & E & Gres & Ares).
    { rewrite Z.sub_0_r. exact Cx. } { rewrite Z.sub_0_r. exact Cxw. }
    rewrite !Z.sub_0_r in Ares. rewrite range_window in Ares by lia. fold (abs_line l) in Ares.
    exists res. split; [rewrite E; reflexivity|]. destruct (wf_of_good_spans wc res Gres) as [A B].
    assert (P : Forall (fun sp => 0 < sp_width sp) res).
    { eapply Forall_impl; [|exact Gres]. intros sp. apply gspan_width. }
    split; [exact A|]. split; [exact B|]. split; [exact P|].
    pose proof (gspans_len wc (sl_spans l) Hg) as Ll. fold (abs_line l) in Ll.
    split.
    { rewrite <- (gspans_len wc res Gres), Ares. apply zlen_zfirstn_le. rewrite zlen_zskipn_le by lia. lia. }
    split; [exact Ares|]. rewrite <- Ares. unfold Render.line_text. symmetry. apply abs_spans_text, P.
  Qed.

  (* (2), the long form: the runs of StyledLine(0, W, y) spell Line(y) and mean the row's cells *)
  Theorem styled_line_full_views W l : wf_line wc W l ->
    exists sps, styled_line wc W l 0 W = (sps, W) /\ sps = sl_spans l /\
      Forall (fun sp => 0 < sp_width sp) sps /\ spans_width sps = W /\
      flat_map span_text sps = Span.line_text W l /\ abs_spans sps = abs_line l.
  Proof.
    intros H. exists (sl_spans l). split; [apply styled_line_full, H|]. split; [reflexivity|].
    split; [eapply wf_line_pos, H|]. split; [apply H|]. split; [symmetry; eapply line_text_runs, H|reflexivity].
  Qed.

  (* ---------- (4) ANSILine(y) without its SGR sequences is Line(y) ---------- *)
  Theorem ansi_line_text W l : wf_line wc W l -> Forall strippable (abs_line l) ->
    strip_sgr (render_line_ansi (abs_line l)) = Span.line_text W l.
  Proof. intros H Hs. rewrite strip_render_line by exact Hs. symmetry. apply line_text_abs, H. Qed.

  (* the cells are strippable when the stored runs are: well-formed style, no ESC in the text *)
  Definition span_strippable (sp : span) : Prop := wf_style (sp_sty sp) /\ ~ In 27 (span_text sp).
  Lemma spans_strippable spans : Forall (fun sp => 0 < sp_width sp) spans -> Forall span_strippable spans ->
    Forall strippable (abs_spans spans).
  Proof.
    intros Hp Hs. unfold Span.abs_spans. apply Forall_forall. intros c Hc. apply in_flat_map in Hc as (sp & Hin & Hc).
    pose proof (proj1 (Forall_forall _ _) Hp sp Hin) as Hw. pose proof (proj1 (Forall_forall _ _) Hs sp Hin) as (Hst & Ht).
    pose proof (proj1 (Forall_forall _ _) (abs_span_style wc sp) c Hc) as Hcs. cbv beta in *.
    split; [rewrite Hcs; exact Hst|]. intros H27. apply Ht. rewrite <- (abs_span_text wc sp Hw).
    apply in_flat_map. exists c. auto.
  Qed.
  Theorem ansi_line_text_spans W l : wf_line wc W l -> Forall span_strippable (sl_spans l) ->
    strip_sgr (render_line_ansi (abs_line l)) = Span.line_text W l.
  Proof.
    intros H Hs. apply ansi_line_text; [exact H|]. apply spans_strippable; [eapply wf_line_pos, H|exact Hs].
  Qed.

  (* the span buffer's own ANSILine prints one escape per stored run (RenderProofs.spans_row /
     render_runs): the same text *)
  Definition span_runs (l : spanline) : list (style * list cell) := map (fun sp => (sp_sty sp, abs_span sp)) (sl_spans l).
  Lemma spans_row_span_runs l : spans_row (span_runs l) = abs_line l.
  Proof.
    unfold spans_row, span_runs, Span.abs_line, Span.abs_spans. rewrite map_map. cbn [snd].
    induction (sl_spans l) as [|sp r IH]; [reflexivity|]. cbn [map concat flat_map]. rewrite IH. reflexivity.
  Qed.
  Theorem span_ansi_line_text W l : wf_line wc W l -> Forall span_strippable (sl_spans l) ->
    strip_sgr (render_runs (span_runs l)) = Span.line_text W l /\
    strip_sgr (render_runs (span_runs l)) = strip_sgr (render_line_ansi (abs_line l)).
  Proof.
    intros H Hs. pose proof (wf_line_pos wc _ _ H) as Hp.
    assert (E : strip_sgr (render_runs (span_runs l)) = Span.line_text W l).
    { rewrite strip_render_spans.
      - rewrite spans_row_span_runs. symmetry. apply line_text_abs, H.
      - unfold span_runs. apply Forall_map. apply Forall_forall. intros sp Hin. cbn [fst snd].
        pose proof (proj1 (Forall_forall _ _) Hs sp Hin) as (Hst & _). split; [exact Hst|].
        assert (S1 : Forall strippable (abs_spans [sp])).
        { apply spans_strippable.
          - constructor; [exact (proj1 (Forall_forall _ _) Hp sp Hin)|constructor].
          - constructor; [exact (proj1 (Forall_forall _ _) Hs sp Hin)|constructor]. }
        unfold Span.abs_spans in S1. cbn [flat_map] in S1. rewrite app_nil_r in S1.
        eapply Forall_impl; [|exact S1]. intros c Hc. apply Hc. }
    split; [exact E|]. rewrite E. symmetry. apply ansi_line_text_spans; assumption.
  Qed.

  (* all three views at once, for a row satisfying the row invariant *)
  Theorem row_views_agree W l : wf_line wc W l -> Forall span_strippable (sl_spans l) ->
    Forall (fun sp => 0 < sp_width sp) (sl_spans l) /\ spans_width (sl_spans l) = W /\
    styled_line wc W l 0 W = (sl_spans l, W) /\
    flat_map span_text (fst (styled_line wc W l 0 W)) = Span.line_text W l /\
    strip_sgr (render_line_ansi (abs_line l)) = Span.line_text W l /\
    Span.line_text W l = Render.line_text (abs_line l).
  Proof.
    intros H Hs. split; [eapply wf_line_pos, H|]. split; [apply H|]. split; [apply styled_line_full, H|].
    split; [rewrite styled_line_full by exact H; symmetry; eapply line_text_runs, H|].
    split; [apply ansi_line_text_spans; assumption|apply line_text_abs, H].
  Qed.
End Views.

(* ---------- what StyledLine returns when an edge cuts a wide glyph (known finding) ---------- *)
Section Cuts.
  Variable wc : Z -> Z.
  Hypothesis Hmb : wc_multibyte wc.
  Notation gspan := (gspan wc).
  Notation gspan0 := (gspan0 wc).
  Notation abs_span := (abs_span wc).
  Notation abs_spans := (abs_spans wc).
  Notation abs_line := (abs_line wc).

  Lemma gspan0_len sp : gspan0 sp -> zlen (abs_span sp) = sp_width sp.
  Proof.
    intros [H|H]; [|apply gspan_len, H]. destruct (gl_span_0 wc sp H) as [_ ->]. rewrite H. reflexivity.
  Qed.

  (* splitSpan at any inner offset: the left part ends where the glyph holding the offset
     starts, the right part starts where it ends *)
  Lemma split_any sp off : gspan sp -> 0 < off < sp_width sp ->
    exists lf rt wd, split_span wc sp off = (lf, rt, wd) /\ gspan0 lf /\ gspan0 rt /\
      abs_span lf = zfirstn (left_edge (abs_span sp) off) (abs_span sp) /\
      abs_span rt = zskipn (off + cont_run (abs_span sp) off) (abs_span sp).
  Proof.
    intros Hg Ho. destruct (split_span_spec wc Hmb sp off Hg Ho) as (lf & rt & wd & E & Glf & Grt & _ & _ & D).
    exists lf, rt, wd. split; [exact E|]. split; [exact Glf|]. split; [exact Grt|].
    destruct (gspan_gl wc sp Hg) as (As & _).
    destruct (gspan0_gl wc lf Glf) as (Al & Wl & Ol & _). destruct (gspan0_gl wc rt Grt) as (Ar & Wr & Or & _).
    destruct D as [(W0 & Wlf & Wrt & GL)|(Gwd & _ & _ & _ & Bk & Wsum & GL & Gg)].
    - destruct (cut_boundary (gl_span wc lf) (gl_span wc rt) Ol Or) as (F1 & F2 & _ & LE & CR). cbv zeta in *.
      rewrite Wl, Wlf in *. rewrite As, GL, LE, CR, Z.add_0_r, F1, F2. auto.
    - destruct (gspan_gl wc wd Gwd) as (_ & Ww & Ow & _). rewrite Gg in Ww, Ow.
      set (g := (sp_text wd, sp_width wd, sp_sty sp)) in *.
      assert (Hgw : gw g = sp_width wd) by reflexivity.
      pose proof (Forall_inv Ow) as Og. cbv beta in Og.
      destruct (cut_inside (gl_span wc lf) g (gl_span wc rt) (off - sp_width lf) Ol Og Or ltac:(lia))
        as (F1 & F2 & _ & _ & _ & LE & CR). cbv zeta in *.
      rewrite Wl in *. replace (sp_width lf + (off - sp_width lf)) with off in * by lia.
      rewrite As, GL, Gg. fold g. cbn [app]. rewrite LE, CR, F1.
      replace (off + (gw g - (off - sp_width lf))) with (sp_width lf + gw g) by lia. rewrite F2. auto.
  Qed.

  Lemma abs_span_head_run sp : gspan sp -> cont_run (abs_span sp) 0 = 0.
  Proof.
    intros Hg. destruct (gspan_gl wc sp Hg) as (As & _ & Os & _).
    destruct (cut_boundary [] (gl_span wc sp) ltac:(constructor) Os) as (_ & _ & _ & _ & CR). cbv zeta in CR.
    cbn [app] in CR. rewrite As. exact CR.
  Qed.

  (* one stored span, any range 0 <= a < b <= Width inside it: the returned span starts after the
     glyph the left edge cuts (nothing stands for the cut glyph), is cut to b - a cells FROM
     THERE (so it may reach past cell b, up to the end of the stored span), and a glyph cut by
     that right end is dropped.  It may be empty (Width 0). *)
  Theorem piece_any sp a b : gspan sp -> 0 <= a -> a < b -> b <= sp_width sp ->
    let C := abs_span sp in
    let T := zskipn (a + cont_run C a) C in
    let p := piece wc sp a (b - a) in
    gspan0 p /\ sp_width p = zlen (abs_span p) /\ sp_width p <= b - a /\
    abs_span p = (if b - a <? zlen T then zfirstn (left_edge T (b - a)) T else T).
  Proof.
    intros Hg Ha Hab Hb C T p. pose proof (gspan_len wc sp Hg) as Ls. fold C in Ls.
    assert (Hsub : exists x1 sub x3, split_span wc sp a = (x1, sub, x3) /\ gspan0 sub /\ abs_span sub = T).
    { destruct (Z.eq_dec a 0) as [->|Hne].
      - exists empty_span, sp, empty_span. split; [reflexivity|]. split; [right; exact Hg|].
        subst T C. rewrite abs_span_head_run by exact Hg. reflexivity.
      - destruct (split_any sp a Hg ltac:(lia)) as (lf & rt & wd & E & _ & Grt & _ & Art).
        exists lf, rt, wd. split; [exact E|]. split; [exact Grt|exact Art]. }
    destruct Hsub as (x1 & sub & x3 & E & Gsub & Asub). pose proof (gspan0_len sub Gsub) as Lsub. rewrite Asub in Lsub.
    assert (LT : zlen T <= sp_width sp - a).
    { subst T. rewrite zlen_zskipn. pose proof (cont_run_range C a Ha). lia. }
    assert (Hp : p = if b - a <? sp_width sub then (let '(keep, _, _) := split_span wc sub (b - a) in keep) else sub).
    { subst p. unfold piece. destruct ((a =? 0) && (b - a =? sp_width sp)) eqn:Eb; [|rewrite E; reflexivity].
      apply andb_true_iff in Eb as [Ea Eb]. apply Z.eqb_eq in Ea, Eb. subst a.
      assert (S0 : split_span wc sp 0 = (empty_span, sp, empty_span)) by reflexivity. rewrite S0 in E. inversion E; subst sub.
      destruct (Z.ltb_spec (b - 0) (sp_width sp)); [lia|reflexivity]. }
    rewrite Hp, Lsub. destruct (Z.ltb_spec (b - a) (sp_width sub)) as [Hlt|Hge].
    - destruct (split_any sub (b - a) (gspan0_pos wc sub Gsub ltac:(lia)) ltac:(lia)) as (keep & rt & wd & E2 & Gk & _ & Ak & _).
      rewrite E2. rewrite Asub in Ak. pose proof (gspan0_len keep Gk) as Lk.
      split; [exact Gk|]. split; [lia|]. split; [|exact Ak].
      rewrite <- Lk, Ak, zlen_zfirstn. pose proof (left_edge_range T (b - a) ltac:(lia)). lia.
    - split; [exact Gsub|]. split; [rewrite Asub; lia|]. split; [lia|exact Asub].
  Qed.

  (* the row: whatever the edges cut, every returned span is empty or well-formed, and the
     widths sum to at most w *)
  Lemma styled_loop_any spans : forall pos x w acc, Forall gspan spans -> 0 <= w ->
    exists res, styled_loop wc spans pos x w acc = acc ++ res /\ Forall gspan0 res /\
      spans_width res <= Z.max 0 (x + w - Z.max x pos).
  Proof.
    induction spans as [|sp rest IH]; intros pos x w acc Hg Hw.
    - exists []. split; [symmetry; apply app_nil_r|]. split; [constructor|]. cbn. lia.
    - pose proof (Forall_inv Hg) as Gs. pose proof (Forall_inv_tail Hg) as Gr. pose proof (gspan_width wc sp Gs) as Ws.
      rewrite styled_loop_cons. cbv zeta.
      destruct (Z.leb_spec (pos + sp_width sp) x) as [H1|H1].
      { destruct (IH (pos + sp_width sp) x w acc Gr Hw) as (res & E & Gres & Wres).
        exists res. split; [exact E|]. split; [exact Gres|]. lia. }
      destruct (Z.leb_spec (x + w) pos) as [H2|H2].
      { exists []. split; [symmetry; apply app_nil_r|]. split; [constructor|]. cbn. lia. }
      set (a := zmax pos x - pos). set (b := zmin (pos + sp_width sp) (x + w) - pos).
      replace (zmin (pos + sp_width sp) (x + w) - zmax pos x) with (b - a) by (subst a b; lia).
      assert (Ea : a = Z.max 0 (x - pos)) by (subst a; unfold zmax; destruct (Z.ltb_spec pos x); lia).
      assert (Eb : b = Z.min (sp_width sp) (x + w - pos)) by (subst b; unfold zmin; destruct (Z.ltb_spec (pos + sp_width sp) (x + w)); lia).
      destruct (Z.ltb_spec 0 (b - a)) as [Hp|Hp].
      + destruct (piece_any sp a b Gs ltac:(lia) ltac:(lia) ltac:(lia)) as (Gp & _ & Wp & _).
        destruct (IH (pos + sp_width sp) x w (acc ++ [piece wc sp a (b - a)]) Gr Hw) as (res & E & Gres & Wres).
        exists (piece wc sp a (b - a) :: res). split; [rewrite E, <- app_assoc; reflexivity|].
        split; [constructor; assumption|]. cbn [spans_width]. lia.
      + destruct (IH (pos + sp_width sp) x w acc Gr Hw) as (res & E & Gres & Wres).
        exists res. split; [exact E|]. split; [exact Gres|]. lia.
  Qed.

  Theorem styled_line_any W l x w :
    wf_line wc W l -> safe_line wc l -> 0 <= x -> 0 <= w -> x + w <= W ->
    exists sps, styled_line wc W l x w = (sps, w) /\
      Forall (fun sp => sp_width sp = 0 \/ (wf_span wc sp /\ safe_span wc sp)) sps /\
      0 <= spans_width sps <= w.
  Proof.
    intros Hwf Hs Hx Hw Hxw. destruct (good_of_wf wc W l Hwf Hs) as (Hg & HW & _).
    unfold styled_line. destruct (Z.ltb_spec w 0); [lia|]. destruct (Z.ltb_spec W (x + w)); [lia|]. cbn [orb].
    destruct (Z.ltb_spec w 0); [lia|].
    destruct (styled_loop_any (sl_spans l) 0 x w [] Hg Hw) as (res & E & Gres & Wres).
    exists res. split; [rewrite E; reflexivity|]. split.
    - eapply Forall_impl; [|exact Gres]. intros sp [Hz|Hgs]; [left; exact Hz|right; apply (wf_of_gspan wc), Hgs].
    - split; [|lia]. clear -Gres. induction Gres as [|sp r [Hz|Hgs] _ IHr]; cbn [spans_width]; [lia|lia|].
      pose proof (gspan_width wc sp Hgs). lia.
  Qed.
End Cuts.

(* [piece_any] over the named predicates of Model/Span.v *)
Theorem piece_any_wf wc : wc_multibyte wc -> forall sp a b,
  wf_span wc sp -> safe_span wc sp -> 0 <= a -> a < b -> b <= sp_width sp ->
  let C := abs_span wc sp in
  let T := zskipn (a + cont_run C a) C in
  let p := piece wc sp a (b - a) in
  (sp_width p = 0 \/ (wf_span wc p /\ safe_span wc p)) /\ sp_width p = zlen (abs_span wc p) /\ sp_width p <= b - a /\
  abs_span wc p = (if b - a <? zlen T then zfirstn (left_edge T (b - a)) T else T).
Proof.
  intros Hmb sp a b Hwf Hs Ha Hab Hb.
  destruct (piece_any wc Hmb sp a b (gspan_of_wf wc sp Hwf Hs) Ha Hab Hb) as ([Hz|Hg] & B & C & D); cbv zeta.
  - split; [left; exact Hz|]. split; [exact B|]. split; [exact C|exact D].
  - split; [right; exact (wf_of_gspan wc _ Hg)|]. split; [exact B|]. split; [exact C|exact D].
Qed.

(* ---------- the cell / grid model ---------- *)
(* Model/Render.v has no StyledLine; Model/TtyFrontend.v models it at cell level:
   [TtyFrontend.styled_line grid x w row] = the maximal equal-style runs ([group_runs]) of the
   cells StyledLine looks at ([sub_cells]: for the grid buffer, cells [x, x+w)). *)
Lemma group_runs_concat l : spans_row (TtyFrontend.group_runs l) = l.
Proof.
  unfold spans_row. induction l as [|c r IH]; [reflexivity|]. cbn [TtyFrontend.group_runs].
  destruct (TtyFrontend.group_runs r) as [|[st cs] rest].
  - cbn in IH. subst r. reflexivity.
  - cbn [map concat snd] in IH. destruct (style_eqb (cst c) st); cbn [map concat snd app]; rewrite IH; reflexivity.
Qed.

(* every run is non-empty and of one style, the style it is labelled with *)
Definition run_ok (run : style * list cell) : Prop := snd run <> [] /\ Forall (fun c => cst c = fst run) (snd run).
Lemma group_runs_ok l : Forall run_ok (TtyFrontend.group_runs l).
Proof.
  induction l as [|c r IH]; [constructor|]. cbn [TtyFrontend.group_runs].
  destruct (TtyFrontend.group_runs r) as [|[st cs] rest].
  - constructor; [|constructor]. split; [discriminate|]. constructor; [reflexivity|constructor].
  - pose proof (Forall_inv IH) as (Hne & Hst). pose proof (Forall_inv_tail IH) as Hrest. cbn [fst snd] in *.
    destruct (style_eqb (cst c) st) eqn:E.
    + apply style_eqb_eq in E. constructor; [|exact Hrest]. split; [discriminate|]. constructor; [exact E|exact Hst].
    + constructor; [|exact IH]. split; [discriminate|]. constructor; [reflexivity|constructor].
Qed.

(* neighbouring runs differ in style: the runs are maximal *)
Fixpoint adj_diff (rs : list (style * list cell)) : Prop :=
  match rs with
  | r1 :: ((r2 :: _) as t) => style_eqb (fst r1) (fst r2) = false /\ adj_diff t
  | _ => True
  end.
Lemma group_runs_maximal l : adj_diff (TtyFrontend.group_runs l).
Proof.
  induction l as [|c r IH]; [exact I|]. cbn [TtyFrontend.group_runs].
  destruct (TtyFrontend.group_runs r) as [|[st cs] rest]; [exact I|].
  destruct (style_eqb (cst c) st) eqn:E.
  - destruct rest as [|r2 rest']; [exact I|]. exact IH.
  - split; [exact E|exact IH].
Qed.

(* the runs ANSILine(y) prints (Render.runs) are the runs of StyledLine *)
Lemma runs_from_group r : forall st cs,
  runs_from (Some (st, cs)) r =
  match TtyFrontend.group_runs r with
  | (st', cs') :: rest => if style_eqb st st' then (st, cs ++ cs') :: rest else (st, cs) :: (st', cs') :: rest
  | [] => [(st, cs)]
  end.
Proof.
  induction r as [|c r IH]; intros st cs; [reflexivity|]. cbn [runs_from TtyFrontend.group_runs].
  destruct (TtyFrontend.group_runs r) as [|[st2 cs2] rest].
  - rewrite !IH. destruct (style_eqb st (cst c)); reflexivity.
  - rewrite !IH. destruct (style_eqb (cst c) st2) eqn:E2.
    + apply style_eqb_eq in E2. subst st2. destruct (style_eqb st (cst c)) eqn:E1.
      * rewrite <- app_assoc. reflexivity.
      * reflexivity.
    + destruct (style_eqb st (cst c)) eqn:E1.
      * apply style_eqb_eq in E1. subst st. rewrite E2. reflexivity.
      * reflexivity.
Qed.
Theorem group_runs_runs row : TtyFrontend.group_runs row = runs row.
Proof.
  unfold runs. destruct row as [|c r]; [reflexivity|]. cbn [runs_from TtyFrontend.group_runs]. rewrite runs_from_group.
  destruct (TtyFrontend.group_runs r) as [|[st cs] rest]; [reflexivity|].
  destruct (style_eqb (cst c) st) eqn:E; [|reflexivity]. apply style_eqb_eq in E. subst st. reflexivity.
Qed.

(* gridScreen.StyledLine(x, w, y): the runs partition exactly the cells of the range *)
Theorem grid_styled_line_cells x w row :
  let sps := TtyFrontend.styled_line true x w row in
  spans_row sps = zfirstn w (zskipn x row) /\ Forall run_ok sps /\ adj_diff sps.
Proof.
  cbv zeta. unfold TtyFrontend.styled_line, TtyFrontend.sub_cells.
  split; [apply group_runs_concat|]. split; [apply group_runs_ok|apply group_runs_maximal].
Qed.
Theorem grid_styled_line_width x w row : 0 <= x -> 0 <= w -> x + w <= zlen row ->
  zlen (spans_row (TtyFrontend.styled_line true x w row)) = w.
Proof.
  intros Hx Hw Hxw. destruct (grid_styled_line_cells x w row) as (E & _). cbv zeta in E. rewrite E.
  apply zlen_zfirstn_le. rewrite zlen_zskipn_le by lia. lia.
Qed.
(* StyledLine(0, W, y) gives back the row, ANSILine(y) is the rendering of its runs, and
   stripped of SGR it is the text of the cells (a continuation cell has no text; the grid's
   Line(y) prints a space for it: C11_row_strip_grid_refuted) *)
Theorem grid_styled_line_full row :
  let sps := TtyFrontend.styled_line true 0 (zlen row) row in
  spans_row sps = row /\ sps = runs row /\ render_runs sps = render_line_ansi row /\
  (Forall strippable row -> strip_sgr (render_runs sps) = Render.line_text (spans_row sps)) /\
  (Forall strippable row -> Forall noncont row -> strip_sgr (render_runs sps) = line_text_grid row).
Proof.
  cbv zeta. assert (E : TtyFrontend.styled_line true 0 (zlen row) row = runs row).
  { unfold TtyFrontend.styled_line, TtyFrontend.sub_cells. rewrite zskipn_0, zfirstn_all by lia. apply group_runs_runs. }
  assert (R : spans_row (TtyFrontend.styled_line true 0 (zlen row) row) = row).
  { destruct (grid_styled_line_cells 0 (zlen row) row) as (R & _). cbv zeta in R. rewrite R.
    rewrite zskipn_0. apply zfirstn_all. lia. }
  split; [exact R|]. split; [exact E|]. rewrite R, E, <- render_is_runs.
  split; [reflexivity|]. split; [apply strip_render_line|apply strip_render_grid_partial].
Qed.

(* the span column of TtyFrontend's cell-level StyledLine agrees with the span model's
   StyledLine whenever no edge cuts a glyph *)
Lemma span_sub_cells_plain x w row : 0 <= x ->
  is_cont (znth x row dcell) = false -> is_cont (znth (x + w) row dcell) = false ->
  TtyFrontend.sub_cells false x w row = zfirstn w (zskipn x row).
Proof.
  intros Hx Cx Cxw. unfold TtyFrontend.sub_cells. rewrite Cxw, andb_false_r. cbn [andb].
  destruct (zfirstn w (zskipn x row)) as [|c t] eqn:E; [reflexivity|].
  assert (Hw : 0 < w). { destruct (Z_lt_ge_dec 0 w); [assumption|]. rewrite zfirstn_neg in E by lia. discriminate. }
  assert (Hc : c = znth x row dcell).
  { rewrite <- (znth_cons_0 c t dcell), <- E. rewrite znth_zfirstn by lia. rewrite znth_zskipn by lia. reflexivity. }
  cbn [TtyFrontend.drop_conts]. rewrite Hc, Cx. reflexivity.
Qed.
Theorem span_styled_line_tty wc : wc_multibyte wc -> forall W l x w,
  wf_line wc W l -> safe_line wc l -> 0 <= x -> 0 <= w -> x + w <= W ->
  is_cont (znth x (abs_line wc l) dcell) = false -> is_cont (znth (x + w) (abs_line wc l) dcell) = false ->
  abs_spans wc (fst (styled_line wc W l x w)) = TtyFrontend.sub_cells false x w (abs_line wc l) /\
  TtyFrontend.styled_line false x w (abs_line wc l) = TtyFrontend.group_runs (abs_spans wc (fst (styled_line wc W l x w))).
Proof.
  intros Hmb W l x w Hwf Hs Hx Hw Hxw Cx Cxw.
  destruct (styled_line_range wc Hmb W l x w Hwf Hs Hx Hw Hxw Cx Cxw) as (sps & E & _ & _ & _ & _ & A & _).
  rewrite E. cbn [fst]. unfold TtyFrontend.styled_line. rewrite span_sub_cells_plain by assumption.
  rewrite A. auto.
Qed.

(* ---------- a concrete row: non-vacuity, and the refutations when an edge cuts a glyph ---------- *)
Definition ex_red : style := mkStyle (CIdx 1) CDef 0.
(* "a", U+4E2D (2 cells), "b" in red; a fill run of three 'x' in the default style; two red blanks: 9 cells *)
Definition ex_line : spanline :=
  mkLine [mk_span ex_red [97; 228; 184; 173; 98] 0 4; mk_span default_style [] 120 3; blank_span ex_red 2] 9.

Lemma ex_line_ok : wf_line wc_ex 9 ex_line /\ safe_line wc_ex ex_line /\ Forall (span_strippable) (sl_spans ex_line).
Proof.
  assert (W1 : wf_style ex_red) by (repeat split; cbn; lia).
  assert (N27 : forall t : list Z, forallb (fun b => negb (b =? 27)) t = true -> ~ In 27 t).
  { intros t Ht Hin. rewrite forallb_forall in Ht. specialize (Ht 27 Hin). discriminate Ht. }
  split; [|split].
  - split; [|split; reflexivity]. unfold ex_line, sl_spans.
    constructor; [|constructor; [|constructor; [|constructor]]].
    + split; [reflexivity|]. split; [reflexivity|]. intros _.
      exists [([97], 1); ([228; 184; 173], 2); ([98], 1)]. split; reflexivity.
    + split; [reflexivity|]. split; [reflexivity|]. intros H; discriminate H.
    + split; [reflexivity|]. split; [reflexivity|]. intros H; discriminate H.
  - unfold safe_line, ex_line, sl_spans. constructor; [|constructor; [|constructor; [|constructor]]].
    + intros _. exists [([97], 1); ([228; 184; 173], 2); ([98], 1)]. split; [reflexivity|].
      constructor; [exists 97; reflexivity|]. constructor; [exists 20013; reflexivity|].
      constructor; [exists 98; reflexivity|constructor].
    + intros H; discriminate H.
    + intros H; discriminate H.
  - unfold ex_line, sl_spans. constructor; [|constructor; [|constructor; [|constructor]]].
    + split; [exact W1|apply N27; reflexivity].
    + split; [exact wf_default|apply N27; reflexivity].
    + split; [exact W1|apply N27; reflexivity].
Qed.

Example views_example :
  wf_line wc_ex 9 ex_line /\ safe_line wc_ex ex_line /\ Forall span_strippable (sl_spans ex_line) /\
  Span.line_text 9 ex_line = [97; 228; 184; 173; 98; 120; 120; 120; 32; 32] /\
  Render.line_text (abs_line wc_ex ex_line) = Span.line_text 9 ex_line /\
  styled_line wc_ex 9 ex_line 0 9 = (sl_spans ex_line, 9) /\
  strip_sgr (render_line_ansi (abs_line wc_ex ex_line)) = Span.line_text 9 ex_line /\
  (* a sub-range whose edges cut nothing: cells 1..4 = the wide glyph, "b", one 'x' *)
  is_cont (znth 1 (abs_line wc_ex ex_line) dcell) = false /\ is_cont (znth 5 (abs_line wc_ex ex_line) dcell) = false /\
  styled_line wc_ex 9 ex_line 1 4 = ([mk_span ex_red [228; 184; 173; 98] 0 3; mk_span default_style [] 120 1], 4) /\
  abs_spans wc_ex (fst (styled_line wc_ex 9 ex_line 1 4)) = zfirstn 4 (zskipn 1 (abs_line wc_ex ex_line)).
Proof.
  destruct ex_line_ok as (A & B & C). split; [exact A|]. split; [exact B|]. split; [exact C|].
  vm_compute. repeat split; reflexivity.
Qed.

(* the edge hypotheses of [styled_line_range] cannot be dropped (cells 1, 2 hold the wide glyph) *)
Theorem styled_line_cut_refuted :
  wf_line wc_ex 9 ex_line /\ safe_line wc_ex ex_line /\
  (* left edge on the second half: the glyph is dropped, nothing stands for it: 2 cells for w = 3 *)
  (is_cont (znth 2 (abs_line wc_ex ex_line) dcell) = true /\
   styled_line wc_ex 9 ex_line 2 3 = ([mk_span ex_red [98] 0 1; mk_span default_style [] 120 1], 3)) /\
  (* right edge between the halves: the glyph is dropped: 1 cell for w = 2 *)
  (styled_line wc_ex 9 ex_line 0 2 = ([mk_span ex_red [97] 0 1], 2)) /\
  (* the first half alone: one span of width 0 *)
  (styled_line wc_ex 9 ex_line 1 1 = ([mk_span ex_red [] 0 0], 1)) /\
  (* the second half alone: the cell AFTER the range ("b", cell 3) is returned *)
  (styled_line wc_ex 9 ex_line 2 1 = ([mk_span ex_red [98] 0 1], 1) /\
   abs_spans wc_ex (fst (styled_line wc_ex 9 ex_line 2 1)) = zfirstn 1 (zskipn 3 (abs_line wc_ex ex_line))).
Proof.
  destruct ex_line_ok as (A & B & _). split; [exact A|]. split; [exact B|]. vm_compute. repeat split; reflexivity.
Qed.

(* ---------- every reachable row of the span terminal ---------- *)
From Termemu Require Import Kbd Term TermInv HistProofs TrigMono SpanScreen SpanScreenProofs SpanTermProofs SpanHistProofs.

(* After every history of reads and resizes on which no known-finding mark fires, every row of
   both buffers of the span terminal satisfies the row invariant, hence: runs of positive width
   summing to the screen width, Line(y) = the text of the cells = the texts of the runs, and
   StyledLine(0, W, y) returns the stored runs. *)
Theorem reachable_row_views wc : wc_multibyte wc -> forall mw w h ops, 1 <= w -> 1 <= h -> hist_ok ops ->
  tz (fst (run_hist wc false (init_term w h) ops)) ->
  let st := fst (fst (s_run_hist_from wc mw (s_init_term w h) ops)) in
  forall s, s = smain st \/ s = salt st -> forall l, In l (zlines s) ->
    wf_line wc (zW s) l /\ safe_line wc l /\
    Forall (fun sp => 0 < sp_width sp) (sl_spans l) /\ spans_width (sl_spans l) = zW s /\
    Span.line_text (zW s) l = Render.line_text (abs_line wc l) /\
    Span.line_text (zW s) l = flat_map span_text (sl_spans l) /\
    styled_line wc (zW s) l 0 (zW s) = (sl_spans l, zW s).
Proof.
  intros Hmb mw w h ops Hw Hh Hok Hz. cbv zeta. unfold s_run_hist_from, run_hist in *.
  pose proof (Rel_refl wc (s_init_term w h)) as R0. rewrite abs_init_term in R0.
  destruct (span_hist_sim wc Hmb ops mw (s_init_term w h) (init_term w h) [] Hok (STInv_init wc w h Hw Hh) R0 Hz) as (I & _ & _).
  cbv zeta in I. set (st := fst (fst (fold_left (s_hstep wc) ops (s_init_term w h, [], mw)))) in *.
  destruct I as (Im & Ia & _ & _). intros s Hs l Hin.
  assert (Ok : line_ok wc (zW s) l).
  { destruct Hs as [-> | ->]; [destruct Im as (_ & L)|destruct Ia as (_ & L)];
      exact (proj1 (Forall_forall _ _) L l Hin). }
  destruct Ok as (Hwf & Hsf). split; [exact Hwf|]. split; [exact Hsf|].
  split; [eapply wf_line_pos, Hwf|]. split; [apply Hwf|]. split; [eapply line_text_abs, Hwf|].
  split; [eapply line_text_runs, Hwf|apply styled_line_full, Hwf].
Qed.
