(* Proofs for C12 (key encoding).  Statements are re-exported one by one in
   Properties/C12.v. *)
From Coq Require Import List ZArith Bool Lia String.
From Termemu Require Import Base KeyKinds Gen_KeyTables Gen_KittySpec Keys KeysCase KeySpec.
Import ListNotations.
Open Scope Z_scope.

(* ====================================================================== *)
(* generic helpers *)

Lemma assoc_In {A} k (l : list (Z * A)) v : assoc k l = Some v -> In (k, v) l.
Proof.
  induction l as [|[k' v'] l IH]; cbn [assoc]; [discriminate|].
  destruct (Z.eqb_spec k k') as [->|_].
  - intros [= ->]. left; reflexivity.
  - intros H. right. exact (IH H).
Qed.

Lemma assoc_forallb {A} (P : Z * A -> bool) k (l : list (Z * A)) v :
  forallb P l = true -> assoc k l = Some v -> P (k, v) = true.
Proof.
  intros HF HA. apply assoc_In in HA. rewrite forallb_forall in HF. exact (HF _ HA).
Qed.

Lemma zmem_In k l : zmem k l = true -> In k l.
Proof.
  induction l as [|x l IH]; cbn [zmem]; [discriminate|].
  destruct (Z.eqb_spec k x) as [->|_]; cbn [orb]; [left; reflexivity|]. intros H; right; exact (IH H).
Qed.

(* ====================================================================== *)
(* K0: the tables and functions the model was written against *)

(* fingerprints (FNV-1a/32 of the canonical printing) of the functions of
   keys.go that Model/Keys.v mirrors by hand, as of the repaired source *)


(* no keypad equivalent is itself a keypad key: the self-call of
   encodeLegacyKey / encodeKittyKey is at most one level deep *)
Lemma keypad_targets_not_keypad :
  forallb (fun e : Z * (Z * option Z) => negb (isKeypadKey (fst (snd e)))) keypad_equivalent = true.
Proof. vm_compute. reflexivity. Qed.

(* every keypad key has an equivalent *)
Lemma keypad_all_mapped :
  forallb (fun k => match assoc k keypad_equivalent with Some _ => true | None => false end) is_keypad_key = true.
Proof. vm_compute. reflexivity. Qed.

(* ====================================================================== *)
(* decimal printing and the CSI scanner *)

Lemma is_digit_mod n : is_digit (48 + n mod 10) = true.
Proof.
  unfold is_digit. pose proof (Z.mod_pos_bound n 10 ltac:(lia)).
  apply andb_true_intro; split; [apply Z.leb_le|apply Z.leb_le]; lia.
Qed.

Lemma itoa_fuel_S f n acc :
  itoa_fuel (S f) n acc =
  if n <? 10 then (48 + n mod 10) :: acc else itoa_fuel f (n / 10) ((48 + n mod 10) :: acc).
Proof. reflexivity. Qed.

Lemma scan_itoa_fuel f : forall n acc rest subs flds,
  0 <= n < 10 ^ (Z.of_nat (S f)) ->
  scan (itoa_fuel (S f) n acc ++ rest) None subs flds = scan (acc ++ rest) (Some n) subs flds.
Proof.
  induction f as [|f IH]; intros n acc rest subs flds Hn.
  - change (10 ^ Z.of_nat 1) with 10 in Hn.
    rewrite itoa_fuel_S. destruct (Z.ltb_spec n 10); [|lia].
    cbn [app scan]. rewrite is_digit_mod. unfold push_digit.
    rewrite Z.mod_small by lia. f_equal. f_equal. lia.
  - rewrite itoa_fuel_S. destruct (Z.ltb_spec n 10).
    + cbn [app scan]. rewrite is_digit_mod. unfold push_digit.
      rewrite Z.mod_small by lia. f_equal. f_equal. lia.
    + rewrite IH.
      * cbn [app scan]. rewrite is_digit_mod. unfold push_digit. f_equal. f_equal.
        pose proof (Z.div_mod n 10 ltac:(lia)). lia.
      * replace (Z.of_nat (S (S f))) with (Z.of_nat (S f) + 1) in Hn by lia.
        rewrite Z.pow_add_r in Hn by lia. change (10 ^ 1) with 10 in Hn.
        split; [apply Z.div_pos; lia|]. apply Z.div_lt_upper_bound; lia.
Qed.

Definition itoa_ok (n : Z) : Prop := 0 <= n < 10 ^ 20.

Lemma scan_itoa n rest subs flds : itoa_ok n ->
  scan (itoa n ++ rest) None subs flds = scan rest (Some n) subs flds.
Proof.
  intros [H0 H1]. unfold itoa. destruct (Z.ltb_spec n 0); [lia|].
  change 20%nat with (S 19). rewrite scan_itoa_fuel; [reflexivity|].
  split; [lia|]. exact H1.
Qed.

(* printing of parsed parameters *)
Definition pr_sub (x : option Z) : list Z := match x with Some n => itoa n | None => [] end.
Fixpoint print_subs (f : list (option Z)) : list Z :=
  match f with
  | [] => []
  | [x] => pr_sub x
  | x :: r => pr_sub x ++ 58 :: print_subs r
  end.
Fixpoint print_fields (fl : list (list (option Z))) : list Z :=
  match fl with
  | [] => []
  | [f] => print_subs f
  | f :: r => print_subs f ++ 59 :: print_fields r
  end.
Definition print_csi (fl : list (list (option Z))) (final : Z) : list Z :=
  27 :: 91 :: print_fields fl ++ [final].

Definition sub_ok (x : option Z) : Prop := match x with Some n => itoa_ok n | None => True end.
Definition final_ok (b : Z) : Prop := is_digit b = false /\ b <> 58 /\ b <> 59.

Lemma scan_sub x rest subs flds : sub_ok x ->
  scan (pr_sub x ++ rest) None subs flds = scan rest x subs flds.
Proof. destruct x as [n|]; cbn [pr_sub sub_ok]; intros H; [apply scan_itoa; exact H|reflexivity]. Qed.

Lemma scan_subs_semi f : forall subs flds rest, f <> [] -> Forall sub_ok f ->
  scan (print_subs f ++ 59 :: rest) None subs flds = scan rest None [] (rev (rev f ++ subs) :: flds).
Proof.
  induction f as [|x f IH]; intros subs flds rest Hne Hok; [congruence|].
  inversion Hok as [|? ? Hx Hf]; subst.
  destruct f as [|y f].
  - cbn [print_subs]. rewrite scan_sub by exact Hx. cbn [scan is_digit]. reflexivity.
  - change (print_subs (x :: y :: f)) with (pr_sub x ++ 58 :: print_subs (y :: f)).
    rewrite <- app_assoc. rewrite scan_sub by exact Hx.
    cbn [app scan]. change (is_digit 58) with false. cbn [Z.eqb Pos.eqb].
    rewrite IH by (congruence || exact Hf).
    cbn [rev]. rewrite <- !app_assoc. reflexivity.
Qed.

Lemma scan_subs_final f : forall subs flds b, f <> [] -> Forall sub_ok f -> final_ok b ->
  scan (print_subs f ++ [b]) None subs flds = Some (rev (rev (rev f ++ subs) :: flds), b).
Proof.
  induction f as [|x f IH]; intros subs flds b Hne Hok (Hd & H58 & H59); [congruence|].
  inversion Hok as [|? ? Hx Hf]; subst.
  destruct f as [|y f].
  - cbn [print_subs]. rewrite scan_sub by exact Hx. cbn [scan]. rewrite Hd.
    destruct (Z.eqb_spec b 58); [congruence|]. destruct (Z.eqb_spec b 59); [congruence|]. reflexivity.
  - change (print_subs (x :: y :: f)) with (pr_sub x ++ 58 :: print_subs (y :: f)).
    rewrite <- app_assoc. rewrite scan_sub by exact Hx.
    cbn [app scan]. change (is_digit 58) with false. cbn [Z.eqb Pos.eqb].
    rewrite IH by (congruence || exact Hf || (repeat split; assumption)).
    cbn [rev]. rewrite <- !app_assoc. reflexivity.
Qed.

Definition field_ok (f : list (option Z)) : Prop := f <> [] /\ Forall sub_ok f.

Lemma scan_fields fl : forall flds b, fl <> [] -> Forall field_ok fl -> final_ok b ->
  scan (print_fields fl ++ [b]) None [] flds = Some (rev flds ++ fl, b).
Proof.
  induction fl as [|f fl IH]; intros flds b Hne Hok Hb; [congruence|].
  inversion Hok as [|? ? [Hfne Hf] Hfl]; subst.
  destruct fl as [|g fl].
  - cbn [print_fields]. rewrite scan_subs_final by assumption.
    rewrite app_nil_r, rev_involutive. cbn [rev]. reflexivity.
  - change (print_fields (f :: g :: fl)) with (print_subs f ++ 59 :: print_fields (g :: fl)).
    rewrite <- app_assoc. cbn [app]. rewrite scan_subs_semi by assumption.
    rewrite app_nil_r, rev_involutive.
    change (59 :: print_fields (g :: fl) ++ [b]) with (59 :: (print_fields (g :: fl) ++ [b])).
    rewrite IH by (congruence || assumption).
    cbn [rev]. rewrite <- app_assoc. reflexivity.
Qed.

Lemma scan_print_csi fl b : fl <> [] -> Forall field_ok fl -> final_ok b ->
  scan_csi (print_csi fl b) = Some (fl, b).
Proof.
  intros. unfold print_csi, scan_csi. rewrite scan_fields by assumption. reflexivity.
Qed.

(* ====================================================================== *)
(* the Kitty field builders print parameter lists *)

Lemma itoa_fuel_nonempty f : forall n acc, itoa_fuel (S f) n acc <> [].
Proof.
  induction f as [|f IH]; intros n acc; rewrite itoa_fuel_S; destruct (n <? 10); try (intro; discriminate).
  apply IH.
Qed.
Lemma itoa_nonempty n : itoa n <> [].
Proof. unfold itoa. destruct (n <? 0); [discriminate|apply itoa_fuel_nonempty]. Qed.

Lemma app_nonempty_l {A} (a b : list A) : a <> [] -> a ++ b <> [].
Proof. destruct a; [congruence|discriminate]. Qed.

Definition keyfield_subs (code : Z) (ev : keyev) (flags : Z) : list (option Z) :=
  if negb (has flags KbdReportAlternates) then [Some code]
  else
    let shifted := if negb (e_shifted ev =? 0) && has (e_mod ev) ModShift then e_shifted ev else 0 in
    let base := e_base ev in
    if negb (shifted =? 0) && negb (base =? 0) then [Some code; Some shifted; Some base]
    else if negb (shifted =? 0) then [Some code; Some shifted]
    else if negb (base =? 0) then [Some code; None; Some base]
    else [Some code].

Lemma kittyKeyField_print code ev flags :
  kittyKeyField code ev flags = print_subs (keyfield_subs code ev flags).
Proof.
  unfold kittyKeyField, keyfield_subs.
  destruct (negb (has flags KbdReportAlternates)); [reflexivity|].
  cbv zeta.
  destruct (negb ((if negb (e_shifted ev =? 0) && has (e_mod ev) ModShift then e_shifted ev else 0) =? 0));
    destruct (negb (e_base ev =? 0)); reflexivity.
Qed.

Lemma keyfield_subs_nonempty code ev flags : print_subs (keyfield_subs code ev flags) <> [].
Proof.
  unfold keyfield_subs.
  destruct (negb (has flags KbdReportAlternates)); [apply itoa_nonempty|]. cbv zeta.
  destruct (negb ((if negb (e_shifted ev =? 0) && has (e_mod ev) ModShift then e_shifted ev else 0) =? 0));
    destruct (negb (e_base ev =? 0)); cbn [print_subs pr_sub andb];
    try apply itoa_nonempty; apply app_nonempty_l, itoa_nonempty.
Qed.

Definition modfield_subs (mod_ event flags : Z) : option (list (option Z)) :=
  let event := normalizeEventType event in
  if has flags KbdReportEvents && negb (event =? KeyPress) then Some [Some (1 + mod_); Some event]
  else if mod_ =? 0 then None
  else Some [Some (1 + mod_)].

Definition opt_print (f : option (list (option Z))) : list Z :=
  match f with Some f => print_subs f | None => [] end.

Lemma kittyModField_print mod_ event flags :
  kittyModField mod_ event flags = opt_print (modfield_subs mod_ event flags).
Proof.
  unfold kittyModField, modfield_subs, kittyModParam. cbv zeta.
  destruct (has flags KbdReportEvents && negb (normalizeEventType event =? KeyPress)); [reflexivity|].
  destruct (mod_ =? 0); reflexivity.
Qed.

Lemma modfield_subs_nonempty mod_ event flags f :
  modfield_subs mod_ event flags = Some f -> print_subs f <> [].
Proof.
  unfold modfield_subs. cbv zeta.
  destruct (has flags KbdReportEvents && negb (normalizeEventType event =? KeyPress)).
  - intros [= <-]. cbn [print_subs pr_sub]. apply app_nonempty_l, itoa_nonempty.
  - destruct (mod_ =? 0); [discriminate|]. intros [= <-]. apply itoa_nonempty.
Qed.

Lemma join_itoa_print l : join_itoa l = print_subs (map Some l).
Proof.
  induction l as [|x l IH]; [reflexivity|].
  destruct l as [|y l]; [reflexivity|].
  change (join_itoa (x :: y :: l)) with (itoa x ++ 58 :: join_itoa (y :: l)). rewrite IH. reflexivity.
Qed.

Definition text_list (ev : keyev) (flags : Z) : list Z :=
  if negb (has flags KbdReportAllKeys) || negb (has flags KbdReportText) then []
  else match e_text ev with
       | [] => if (e_code ev =? KeyRune) && negb (e_rune ev =? 0) then [e_rune ev] else []
       | t => t
       end.

Definition textfield_subs (ev : keyev) (flags : Z) : option (list (option Z)) :=
  match text_list ev flags with [] => None | t => Some (map Some t) end.

Lemma kittyTextField_print ev flags :
  kittyTextField ev flags = opt_print (textfield_subs ev flags).
Proof.
  unfold kittyTextField, textfield_subs, text_list.
  destruct (negb (has flags KbdReportAllKeys) || negb (has flags KbdReportText)); [reflexivity|].
  cbv zeta. rewrite join_itoa_print.
  destruct (e_text ev) as [|t0 t]; [|reflexivity].
  destruct ((e_code ev =? KeyRune) && negb (e_rune ev =? 0)); reflexivity.
Qed.

Lemma textfield_subs_nonempty ev flags f : textfield_subs ev flags = Some f -> print_subs f <> [].
Proof.
  unfold textfield_subs. destruct (text_list ev flags) as [|x l]; [discriminate|].
  intros [= <-]. cbn [map]. destruct l; cbn [map print_subs pr_sub]; [apply itoa_nonempty|].
  apply app_nonempty_l, itoa_nonempty.
Qed.

Ltac norm_app := repeat (progress (cbn [app]) || rewrite <- app_assoc).

Definition u_fields (kf : list (option Z)) (mf tf : option (list (option Z))) : list (list (option Z)) :=
  kf :: match mf, tf with
        | None, None => []
        | Some m, None => [m]
        | None, Some t => [[Some 1]; t]
        | Some m, Some t => [m; t]
        end.

Lemma kittyCSIu_print kf mf tf :
  (forall m, mf = Some m -> print_subs m <> []) ->
  (forall t, tf = Some t -> print_subs t <> []) ->
  kittyCSIu (print_subs kf) (opt_print mf) (opt_print tf) = print_csi (u_fields kf mf tf) 117.
Proof.
  intros Hm Ht. unfold kittyCSIu, u_fields, print_csi, CSI.
  destruct mf as [m|]; destruct tf as [t|]; cbn [opt_print].
  - specialize (Hm m eq_refl). specialize (Ht t eq_refl).
    destruct (print_subs m) eqn:Em; [congruence|]. destruct (print_subs t) eqn:Et; [congruence|].
    cbn [print_fields app]. rewrite Em, Et. norm_app. reflexivity.
  - specialize (Hm m eq_refl).
    destruct (print_subs m) eqn:Em; [congruence|].
    cbn [print_fields app]. rewrite Em. norm_app. reflexivity.
  - specialize (Ht t eq_refl).
    destruct (print_subs t) eqn:Et; [congruence|].
    cbn [print_fields print_subs pr_sub app]. rewrite Et. norm_app. reflexivity.
  - cbn [print_fields app]. reflexivity.
Qed.

Definition letter_fields (mf : option (list (option Z))) : list (list (option Z)) :=
  match mf with None => [[None]] | Some m => [[Some 1]; m] end.

Lemma kittyCSI1_print final mf :
  (forall m, mf = Some m -> print_subs m <> []) ->
  kittyCSI1 final (opt_print mf) = print_csi (letter_fields mf) final.
Proof.
  intros Hm. unfold kittyCSI1, letter_fields, print_csi, CSI. destruct mf as [m|]; cbn [opt_print].
  - specialize (Hm m eq_refl). destruct (print_subs m) eqn:Em; [congruence|].
    cbn [print_fields app]. rewrite Em. reflexivity.
  - reflexivity.
Qed.

Definition tilde_fields (code : Z) (mf : option (list (option Z))) : list (list (option Z)) :=
  match mf with None => [[Some code]] | Some m => [[Some code]; m] end.

Lemma kittyCSITilde_print code mf :
  (forall m, mf = Some m -> print_subs m <> []) ->
  kittyCSITilde code (opt_print mf) = print_csi (tilde_fields code mf) 126.
Proof.
  intros Hm. unfold kittyCSITilde, tilde_fields, print_csi, CSI. destruct mf as [m|]; cbn [opt_print].
  - specialize (Hm m eq_refl). destruct (print_subs m) eqn:Em; [congruence|].
    cbn [print_fields print_subs pr_sub app]. rewrite Em. norm_app. reflexivity.
  - reflexivity.
Qed.

(* ====================================================================== *)
(* K4: the generated Go tables against the generated rst table *)

Definition ostr_eqb (a : option string) (b : string) : bool :=
  match a with Some x => String.eqb x b | None => false end.

Definition num_ok (n : Z) : bool := (0 <=? n) && (n <? 1000000).

(* one entry of the [switch ev.Code] of encodeKittyKey *)
Definition check_kitty_entry (e : Z * kitty_enc) : bool :=
  let '(code, enc) := e in
  match enc with
  | KRune => code =? KeyRune
  | KCSI1 f =>
      negb (code =? KeyRune) && is_upper f &&
      match name_of code key_rst_name with
      | Some nm => ostr_eqb (rst_lookup rst_functional 1 f) nm && negb (has_u_form (KFunc nm))
      | None => false
      end
  | KCSITilde c =>
      negb (code =? KeyRune) && num_ok c &&
      match name_of code key_rst_name with
      | Some nm => ostr_eqb (rst_lookup rst_functional c 126) nm && negb (has_u_form (KFunc nm))
      | None => false
      end
  | KCSIu c _ =>
      negb (code =? KeyRune) && num_ok c &&
      match name_of code key_rst_name with
      | Some nm => ostr_eqb (rst_lookup rst_functional c 117) nm && has_u_form (KFunc nm)
      | None => false
      end
  end.

(* one entry of kittyFunctionalCode that the default branch can reach *)
Definition check_functional_entry (e : Z * Z) : bool :=
  let '(code, c) := e in
  match assoc code kitty_dispatch with
  | Some _ => true       (* shadowed by an explicit case: never used by encodeKittyKey *)
  | None =>
      negb (code =? KeyRune) && num_ok c &&
      match name_of code key_rst_name with
      | Some nm => ostr_eqb (rst_lookup rst_functional c 117) nm && has_u_form (KFunc nm)
      | None => false
      end
  end.

Lemma kitty_dispatch_ok : forallb check_kitty_entry kitty_dispatch = true.
Proof. vm_compute. reflexivity. Qed.
Lemma kitty_functional_ok : forallb check_functional_entry kitty_functional_code = true.
Proof. vm_compute. reflexivity. Qed.

(* the Kitty form (number, final byte) the code uses for a key, flags permitting *)
Definition go_kitty_form (code : Z) : option (Z * Z) :=
  match assoc code kitty_dispatch with
  | Some KRune => None
  | Some (KCSI1 f) => Some (1, f)
  | Some (KCSITilde c) => Some (c, 126)
  | Some (KCSIu c _) => Some (c, 117)
  | None => match kittyFunctionalCode code with Some c => Some (c, 117) | None => None end
  end.

(* K4, as a computation over the whole KeyCode enum: every key other than
   KeyRune has a name in the rst table, a Kitty form, and that form is one of
   the alternatives the rst lists under that name; and every rst name is the
   name of exactly one KeyCode constant. *)
Definition key_matches_rst (code : Z) : bool :=
  if code =? KeyRune then true else
  match name_of code key_rst_name, go_kitty_form code with
  | Some nm, Some (n, f) => form_mem n f (rst_forms rst_functional nm)
  | _, _ => false
  end.

Definition rst_name_covered (e : string * list (Z * Z)) : bool :=
  Nat.eqb (List.length (filter (fun kn : Z * string => String.eqb (snd kn) (fst e)) key_rst_name)) 1.

Lemma table_is_spec :
  forallb (fun e : string * Z => key_matches_rst (snd e)) keycode_enum = true /\
  forallb rst_name_covered rst_functional = true /\
  List.length keycode_enum = 112%nat /\ List.length rst_functional = 111%nat /\ List.length key_rst_name = 111%nat.
Proof. vm_compute. repeat split; reflexivity. Qed.

(* ====================================================================== *)
(* K3: Kitty round trip *)

Definition rune_ok (r : Z) : Prop := 0 <= r < 2147483648.

Record wf_ev (ev : keyev) : Prop := mkWf {
  wf_mod : 0 <= e_mod ev < 256;
  wf_event : 0 <= e_event ev <= 3;
  wf_rune : rune_ok (e_rune ev);
  wf_shifted : rune_ok (e_shifted ev);
  wf_base : rune_ok (e_base ev);
  wf_text : Forall rune_ok (e_text ev)
}.

(* the event encodeKittyKey actually encodes: a keypad key is replaced by its
   non-keypad equivalent unless the disambiguate flag is set *)
Definition effective (ev : keyev) (flags : Z) : keyev :=
  if isKeypadKey (e_code ev) && negb (has flags KbdDisambiguate) then
    match keypadEquivalent ev with Some m => m | None => ev end
  else ev.

Definition canon_ev (flags : Z) (ev : keyev) : option kdecoded :=
  canon flags (e_code ev) (e_rune ev) (e_mod ev) (e_event ev) (e_shifted ev) (e_base ev) (e_text ev).

Lemma rune_itoa_ok r : rune_ok r -> itoa_ok r.
Proof. unfold rune_ok, itoa_ok. intros. split; [lia|]. assert (2147483648 < 10 ^ 20) by reflexivity. lia. Qed.

Lemma num_itoa_ok c : num_ok c = true -> itoa_ok c.
Proof.
  unfold num_ok, itoa_ok. intros H. apply andb_prop in H as [H1 H2].
  apply Z.leb_le in H1. apply Z.ltb_lt in H2. split; [lia|]. assert (1000000 < 10 ^ 20) by reflexivity. lia.
Qed.

Lemma keypad_equiv_not_keypad ev m : keypadEquivalent ev = Some m -> isKeypadKey (e_code m) = false.
Proof.
  unfold keypadEquivalent. destruct (assoc (e_code ev) keypad_equivalent) as [[c r]|] eqn:HA; [|discriminate].
  pose proof (assoc_forallb _ _ _ _ keypad_targets_not_keypad HA) as H. cbn [fst snd] in H.
  apply negb_true_iff in H.
  destruct r; intros [= <-]; exact H.
Qed.

Lemma encodeKittyKey_effective ev flags :
  encodeKittyKey ev flags = kitty_switch (effective ev flags) flags.
Proof.
  unfold encodeKittyKey, effective. cbn [encodeKittyKey_fuel].
  destruct (isKeypadKey (e_code ev) && negb (has flags KbdDisambiguate)) eqn:E; [|reflexivity].
  destruct (keypadEquivalent ev) as [m|] eqn:K; [|reflexivity].
  rewrite (keypad_equiv_not_keypad _ _ K). reflexivity.
Qed.

Definition keypad_rune_ok (e : Z * (Z * option Z)) : bool :=
  match snd (snd e) with Some r => (0 <=? r) && (r <? 128) | None => true end.
Lemma keypad_runes_ok : forallb keypad_rune_ok keypad_equivalent = true.
Proof. vm_compute. reflexivity. Qed.

Lemma effective_wf ev flags : wf_ev ev -> wf_ev (effective ev flags).
Proof.
  intros W. unfold effective.
  destruct (isKeypadKey (e_code ev) && negb (has flags KbdDisambiguate)); [|exact W].
  unfold keypadEquivalent.
  destruct (assoc (e_code ev) keypad_equivalent) as [[c r]|] eqn:HA; [|exact W].
  pose proof (assoc_forallb _ _ _ _ keypad_runes_ok HA) as H. unfold keypad_rune_ok in H. cbn [snd] in H.
  destruct W. destruct r as [r|]; constructor; cbn; try assumption.
  apply andb_prop in H as [H1 H2]. apply Z.leb_le in H1. apply Z.ltb_lt in H2. unfold rune_ok. lia.
Qed.

(* decoding the parameter lists the field builders produce *)

Lemma has_sp_has x b : has x b = sp_has x b.
Proof. reflexivity. Qed.

Lemma dec_keyfield_subs code ev flags :
  dec_keyfield (keyfield_subs code ev flags) =
  Some (code, canon_shifted flags (e_mod ev) (e_shifted ev), canon_base flags (e_base ev)).
Proof.
  unfold keyfield_subs, canon_shifted, canon_base. change sp_has with has.
  destruct (has flags KbdReportAlternates); cbn [negb andb]; [|reflexivity].
  destruct (has (e_mod ev) ModShift); destruct (e_shifted ev =? 0) eqn:ES; destruct (e_base ev =? 0) eqn:EB;
    cbn [negb andb]; try rewrite ES; try rewrite EB; cbn [negb andb Z.eqb]; reflexivity.
Qed.

Ltac fok := repeat first [apply Forall_cons | apply Forall_nil]; cbn [sub_ok]; try exact I; try assumption.
Lemma small_itoa_ok n : 0 <= n <= 256 -> itoa_ok n.
Proof. intros. apply rune_itoa_ok. unfold rune_ok. lia. Qed.

Lemma keyfield_subs_ok code ev flags : itoa_ok code -> wf_ev ev -> field_ok (keyfield_subs code ev flags).
Proof.
  intros Hc W. destruct W. apply rune_itoa_ok in wf_shifted0, wf_base0.
  unfold keyfield_subs. destruct (negb (has flags KbdReportAlternates)).
  - split; [discriminate|]. fok.
  - cbv zeta.
    destruct (negb (e_shifted ev =? 0) && has (e_mod ev) ModShift);
    destruct (negb (_ =? 0)); try destruct (negb (e_base ev =? 0));
    (split; [discriminate|]); fok; apply small_itoa_ok; lia.
Qed.

Lemma dec_modfield_1 m : 0 <= m < 256 -> dec_modfield [Some (1 + m)] = Some (m, 1).
Proof.
  intros. unfold dec_modfield.
  destruct (Z.leb_spec 1 (1 + m)); [|lia]. destruct (Z.leb_spec (1 + m) 256); [|lia].
  unfold andb. f_equal. f_equal. lia.
Qed.
Lemma dec_modfield_2 m e : 0 <= m < 256 -> 1 <= e <= 3 -> dec_modfield [Some (1 + m); Some e] = Some (m, e).
Proof.
  intros. unfold dec_modfield.
  destruct (Z.leb_spec 1 (1 + m)); [|lia]. destruct (Z.leb_spec (1 + m) 256); [|lia].
  destruct (Z.leb_spec 1 e); [|lia]. destruct (Z.leb_spec e 3); [|lia].
  unfold andb. f_equal. f_equal. lia.
Qed.
Lemma field_ok_1 m : 0 <= m < 256 -> field_ok [Some (1 + m)].
Proof. intros. split; [discriminate|]. fok. apply small_itoa_ok; lia. Qed.
Lemma field_ok_2 m e : 0 <= m < 256 -> 1 <= e <= 3 -> field_ok [Some (1 + m); Some e].
Proof. intros. split; [discriminate|]. fok; apply small_itoa_ok; lia. Qed.

Lemma dec_modfield_subs mod_ event flags m :
  0 <= mod_ < 256 -> 0 <= event <= 3 ->
  modfield_subs mod_ event flags = Some m ->
  dec_modfield m = Some (mod_, canon_event flags event) /\ field_ok m.
Proof.
  intros Hm He. unfold modfield_subs, canon_event, normalizeEventType. change sp_has with has. cbv zeta.
  change KeyPress with 1.
  destruct (has flags KbdReportEvents); unfold andb.
  - destruct (Z.eqb_spec event 0) as [->|Hne0].
    + change (negb (1 =? 1)) with false. cbv iota.
      destruct (Z.eqb_spec mod_ 0); [discriminate|].
      intros [= <-]. split; [apply dec_modfield_1; lia|apply field_ok_1; lia].
    + destruct (Z.eqb_spec event 1) as [->|Hne1]; unfold negb.
      * destruct (Z.eqb_spec mod_ 0); [discriminate|].
        intros [= <-]. split; [apply dec_modfield_1; lia|apply field_ok_1; lia].
      * intros [= <-]. split; [apply dec_modfield_2; lia|apply field_ok_2; lia].
  - destruct (Z.eqb_spec mod_ 0); [discriminate|].
    intros [= <-]. split; [apply dec_modfield_1; lia|apply field_ok_1; lia].
Qed.

Lemma modfield_none mod_ event flags :
  modfield_subs mod_ event flags = None -> 0 <= event <= 3 -> mod_ = 0 /\ canon_event flags event = 1.
Proof.
  unfold modfield_subs, canon_event, normalizeEventType. change sp_has with has. cbv zeta. change KeyPress with 1.
  destruct (has flags KbdReportEvents); cbn [andb].
  - destruct (Z.eqb_spec event 0) as [->|].
    + cbn [Z.eqb Pos.eqb negb]. destruct (Z.eqb_spec mod_ 0); [auto|discriminate].
    + destruct (Z.eqb_spec event 1) as [->|]; cbn [negb]; [|discriminate].
      destruct (Z.eqb_spec mod_ 0); [auto|discriminate].
  - destruct (Z.eqb_spec mod_ 0); [auto|discriminate].
Qed.

Lemma dec_text_map l : dec_text (map Some l) = Some l.
Proof. induction l as [|x l IH]; [reflexivity|]. cbn [map dec_text]. rewrite IH. reflexivity. Qed.

Lemma text_list_canon ev flags :
  text_list ev flags = canon_text flags (e_code ev) (e_rune ev) (e_text ev).
Proof.
  unfold text_list, canon_text. change sp_has with has.
  destruct (has flags KbdReportAllKeys); destruct (has flags KbdReportText); try reflexivity.
  destruct (e_text ev); reflexivity.
Qed.

Lemma text_list_ok ev flags : wf_ev ev -> Forall rune_ok (text_list ev flags).
Proof.
  intros W. destruct W. unfold text_list.
  destruct (negb (has flags KbdReportAllKeys) || negb (has flags KbdReportText)); [constructor|].
  destruct (e_text ev) as [|t0 t] eqn:ET; [|assumption].
  destruct ((e_code ev =? KeyRune) && negb (e_rune ev =? 0)); repeat first [apply Forall_cons | apply Forall_nil]; assumption.
Qed.

Lemma textfield_subs_some ev flags t : wf_ev ev ->
  textfield_subs ev flags = Some t ->
  dec_text t = Some (canon_text flags (e_code ev) (e_rune ev) (e_text ev)) /\ field_ok t.
Proof.
  intros W. unfold textfield_subs. pose proof (text_list_ok ev flags W) as HF.
  rewrite <- text_list_canon.
  destruct (text_list ev flags) as [|x l]; [discriminate|].
  intros [= <-]. split; [apply (dec_text_map (x :: l))|].
  split; [discriminate|].
  change (Some x :: map Some l) with (map Some (x :: l)).
  apply Forall_forall. intros o Ho. apply in_map_iff in Ho as (c & <- & Hc).
  rewrite Forall_forall in HF. apply rune_itoa_ok, HF, Hc.
Qed.

Lemma textfield_subs_none ev flags :
  textfield_subs ev flags = None -> canon_text flags (e_code ev) (e_rune ev) (e_text ev) = [].
Proof.
  unfold textfield_subs. rewrite <- text_list_canon. destruct (text_list ev flags); [reflexivity|discriminate].
Qed.

Lemma final_ok_u : final_ok 117. Proof. repeat split; discriminate. Qed.
Lemma final_ok_tilde : final_ok 126. Proof. repeat split; discriminate. Qed.
Lemma final_ok_upper f : is_upper f = true -> final_ok f.
Proof.
  unfold is_upper, final_ok, is_digit. intros H. apply andb_prop in H as [H1 H2].
  apply Z.leb_le in H1. apply Z.leb_le in H2. split; [|split; lia].
  destruct (Z.leb_spec 48 f); destruct (Z.leb_spec f 57); cbn [andb]; try reflexivity; lia.
Qed.

(* the "u" form *)
Lemma decode_u code ev flags :
  itoa_ok code -> wf_ev ev ->
  decode_kitty (kittyCSIu (kittyKeyField code ev flags) (kittyModField (e_mod ev) (e_event ev) flags)
                          (kittyTextField ev flags)) =
  Some (mkDec (key_of_u code) (e_mod ev) (canon_event flags (e_event ev))
              (canon_shifted flags (e_mod ev) (e_shifted ev)) (canon_base flags (e_base ev))
              (canon_text flags (e_code ev) (e_rune ev) (e_text ev))).
Proof.
  intros Hc W.
  rewrite kittyKeyField_print, kittyModField_print, kittyTextField_print.
  rewrite kittyCSIu_print; [|apply modfield_subs_nonempty|apply textfield_subs_nonempty].
  pose proof (keyfield_subs_ok code ev flags Hc W) as HK.
  pose proof (dec_keyfield_subs code ev flags) as DK.
  destruct W as [Wm We Wr Ws Wb Wt].
  assert (W : wf_ev ev) by (constructor; assumption).
  unfold decode_kitty.
  destruct (modfield_subs (e_mod ev) (e_event ev) flags) as [m|] eqn:EM;
    destruct (textfield_subs ev flags) as [t|] eqn:ET.
  - destruct (dec_modfield_subs _ _ _ _ Wm We EM) as [DM FM].
    destruct (textfield_subs_some _ _ _ W ET) as [DT FT].
    rewrite scan_print_csi; [|discriminate|unfold u_fields; repeat first [apply Forall_cons | apply Forall_nil]; assumption|apply final_ok_u].
    unfold u_fields, interp_kitty. cbn [Z.eqb Pos.eqb]. rewrite DK, DM, DT. reflexivity.
  - destruct (dec_modfield_subs _ _ _ _ Wm We EM) as [DM FM].
    rewrite scan_print_csi; [|discriminate|unfold u_fields; repeat first [apply Forall_cons | apply Forall_nil]; assumption|apply final_ok_u].
    unfold u_fields, interp_kitty. cbn [Z.eqb Pos.eqb]. rewrite DK, DM.
    rewrite (textfield_subs_none _ _ ET). reflexivity.
  - destruct (modfield_none _ _ _ EM We) as [M0 E1].
    destruct (textfield_subs_some _ _ _ W ET) as [DT FT].
    rewrite scan_print_csi; [|discriminate| |apply final_ok_u].
    + unfold u_fields, interp_kitty. cbn [Z.eqb Pos.eqb]. rewrite DK, DT. cbn [dec_modfield Z.leb Z.compare Pos.compare andb Pos.compare_cont].
      rewrite M0, E1. reflexivity.
    + unfold u_fields. repeat first [apply Forall_cons | apply Forall_nil]; try assumption.
      split; [discriminate|]. fok. apply small_itoa_ok; lia.
  - destruct (modfield_none _ _ _ EM We) as [M0 E1].
    rewrite scan_print_csi; [|discriminate|unfold u_fields; repeat first [apply Forall_cons | apply Forall_nil]; assumption|apply final_ok_u].
    unfold u_fields, interp_kitty. cbn [Z.eqb Pos.eqb]. rewrite DK.
    rewrite (textfield_subs_none _ _ ET), M0, E1. reflexivity.
Qed.

(* the "1 ; mods LETTER" form *)
Lemma decode_letter f name ev flags :
  is_upper f = true -> rst_lookup rst_functional 1 f = Some name -> wf_ev ev ->
  decode_kitty (kittyCSI1 f (kittyModField (e_mod ev) (e_event ev) flags)) =
  Some (mkDec (KFunc name) (e_mod ev) (canon_event flags (e_event ev)) None None []).
Proof.
  intros Hu Hl W. destruct W as [Wm We _ _ _ _].
  rewrite kittyModField_print, kittyCSI1_print by apply modfield_subs_nonempty.
  assert (Hf117 : (f =? 117) = false).
  { unfold is_upper in Hu. apply andb_prop in Hu as [_ H2]. apply Z.leb_le in H2. apply Z.eqb_neq. lia. }
  assert (Hf126 : (f =? 126) = false).
  { unfold is_upper in Hu. apply andb_prop in Hu as [_ H2]. apply Z.leb_le in H2. apply Z.eqb_neq. lia. }
  unfold decode_kitty.
  destruct (modfield_subs (e_mod ev) (e_event ev) flags) as [m|] eqn:EM.
  - destruct (dec_modfield_subs _ _ _ _ Wm We EM) as [DM FM].
    rewrite scan_print_csi; [|discriminate| |apply final_ok_upper, Hu].
    + unfold letter_fields, interp_kitty. rewrite Hf117, Hf126, Hu, Hl, DM. reflexivity.
    + unfold letter_fields. repeat first [apply Forall_cons | apply Forall_nil]; try assumption.
      split; [discriminate|]. fok. apply small_itoa_ok; lia.
  - destruct (modfield_none _ _ _ EM We) as [M0 E1].
    rewrite scan_print_csi; [|discriminate| |apply final_ok_upper, Hu].
    + unfold letter_fields, interp_kitty. rewrite Hf117, Hf126, Hu, Hl, M0, E1. reflexivity.
    + unfold letter_fields. repeat first [apply Forall_cons | apply Forall_nil].
      split; [discriminate|]. fok.
Qed.

(* the "number ; mods ~" form *)
Lemma decode_tilde c name ev flags :
  num_ok c = true -> rst_lookup rst_functional c 126 = Some name -> wf_ev ev ->
  decode_kitty (kittyCSITilde c (kittyModField (e_mod ev) (e_event ev) flags)) =
  Some (mkDec (KFunc name) (e_mod ev) (canon_event flags (e_event ev)) None None []).
Proof.
  intros Hc Hl W. destruct W as [Wm We _ _ _ _]. apply num_itoa_ok in Hc.
  rewrite kittyModField_print, kittyCSITilde_print by apply modfield_subs_nonempty.
  unfold decode_kitty.
  destruct (modfield_subs (e_mod ev) (e_event ev) flags) as [m|] eqn:EM.
  - destruct (dec_modfield_subs _ _ _ _ Wm We EM) as [DM FM].
    rewrite scan_print_csi; [|discriminate| |apply final_ok_tilde].
    + unfold tilde_fields, interp_kitty. cbn [Z.eqb Pos.eqb]. rewrite Hl, DM. reflexivity.
    + unfold tilde_fields. repeat first [apply Forall_cons | apply Forall_nil]; try assumption.
      split; [discriminate|]. fok.
  - destruct (modfield_none _ _ _ EM We) as [M0 E1].
    rewrite scan_print_csi; [|discriminate| |apply final_ok_tilde].
    + unfold tilde_fields, interp_kitty. cbn [Z.eqb Pos.eqb]. rewrite Hl, M0, E1. reflexivity.
    + unfold tilde_fields. repeat first [apply Forall_cons | apply Forall_nil].
      split; [discriminate|]. fok.
Qed.

Lemma ostr_eqb_eq a b : ostr_eqb a b = true -> a = Some b.
Proof. destruct a as [x|]; cbn [ostr_eqb]; [|discriminate]. intros H. apply String.eqb_eq in H. congruence. Qed.

Lemma key_of_u_name c nm : rst_lookup rst_functional c 117 = Some nm -> key_of_u c = KFunc nm.
Proof. intros H. unfold key_of_u. rewrite H. reflexivity. Qed.

(* K3 for the switch (the event after keypad substitution) *)
Lemma kitty_switch_roundtrip ev flags bs :
  wf_ev ev ->
  (e_code ev = KeyRune -> rst_lookup rst_functional (e_rune ev) 117 = None) ->
  kitty_switch ev flags = bs -> bs <> [] ->
  decode_kitty bs = canon_ev flags ev.
Proof.
  intros W HR <- Hne. unfold kitty_switch in *. cbv zeta in *.
  unfold canon_ev, canon, canon_key.
  destruct (assoc (e_code ev) kitty_dispatch) as [enc|] eqn:HA.
  - pose proof (assoc_forallb _ _ _ _ kitty_dispatch_ok HA) as HC. cbn [check_kitty_entry] in HC.
    destruct enc as [|f|c|c g].
    + (* rune *)
      rewrite HC. apply Z.eqb_eq in HC. specialize (HR HC).
      assert (Hro : itoa_ok (e_rune ev)) by (apply rune_itoa_ok; destruct W; assumption).
      cbn [has_u_form].
      unfold encodeKittyRune in *.
      destruct (e_rune ev =? 0); [congruence|].
      destruct (has flags KbdReportAllKeys) eqn:HAll.
      * rewrite decode_u by assumption. unfold key_of_u. rewrite HR. reflexivity.
      * destruct (has flags KbdDisambiguate && has (e_mod ev) _); [|congruence].
        assert (HT : kittyTextField ev flags = []).
        { unfold kittyTextField. rewrite HAll. reflexivity. }
        rewrite <- HT. rewrite decode_u by assumption. unfold key_of_u. rewrite HR. reflexivity.
    + (* CSI 1 ; m LETTER *)
      apply andb_prop in HC as [HC HN]. apply andb_prop in HC as [HK HU].
      apply negb_true_iff in HK. rewrite HK.
      destruct (name_of (e_code ev) key_rst_name) as [nm|]; [|discriminate].
      apply andb_prop in HN as [HL HF]. apply ostr_eqb_eq in HL. apply negb_true_iff in HF. rewrite HF.
      apply decode_letter; assumption.
    + (* CSI n ; m ~ *)
      apply andb_prop in HC as [HC HN]. apply andb_prop in HC as [HK HU].
      apply negb_true_iff in HK. rewrite HK.
      destruct (name_of (e_code ev) key_rst_name) as [nm|]; [|discriminate].
      apply andb_prop in HN as [HL HF]. apply ostr_eqb_eq in HL. apply negb_true_iff in HF. rewrite HF.
      apply decode_tilde; assumption.
    + (* guarded CSI u *)
      apply andb_prop in HC as [HC HN]. apply andb_prop in HC as [HK HU].
      apply negb_true_iff in HK. rewrite HK.
      destruct (name_of (e_code ev) key_rst_name) as [nm|]; [|discriminate].
      apply andb_prop in HN as [HL HF]. apply ostr_eqb_eq in HL. rewrite HF.
      destruct (has flags g); [|congruence].
      rewrite decode_u by (try apply num_itoa_ok; assumption).
      rewrite (key_of_u_name _ _ HL). reflexivity.
  - unfold kittyFunctionalCode in *.
    destruct (assoc (e_code ev) kitty_functional_code) as [c|] eqn:HFc; [|congruence].
    pose proof (assoc_forallb _ _ _ _ kitty_functional_ok HFc) as HC. cbn [check_functional_entry] in HC.
    rewrite HA in HC.
    apply andb_prop in HC as [HC HN]. apply andb_prop in HC as [HK HU].
    apply negb_true_iff in HK. rewrite HK.
    destruct (name_of (e_code ev) key_rst_name) as [nm|]; [|discriminate].
    apply andb_prop in HN as [HL HF]. apply ostr_eqb_eq in HL. rewrite HF.
    rewrite decode_u by (try apply num_itoa_ok; assumption).
    rewrite (key_of_u_name _ _ HL). reflexivity.
Qed.

(* K3 *)
Theorem kitty_roundtrip ev flags bs :
  wf_ev ev ->
  (e_code (effective ev flags) = KeyRune -> rst_lookup rst_functional (e_rune (effective ev flags)) 117 = None) ->
  encodeKittyKey ev flags = bs -> bs <> [] ->
  decode_kitty bs = canon_ev flags (effective ev flags).
Proof.
  intros W HR HE Hne. rewrite encodeKittyKey_effective in HE.
  exact (kitty_switch_roundtrip _ _ _ (effective_wf _ _ W) HR HE Hne).
Qed.

(* ====================================================================== *)
(* K1: mode selection *)

Definition is_release (ev : keyev) : bool := normalizeEventType (e_event ev) =? KeyRelease.

Lemma mode_legacy st ev : ks_flags st = 0 -> is_release ev = false ->
  encode_key st ev = encodeLegacyKey st ev.
Proof.
  intros HF HR. unfold encode_key, is_release in *. rewrite HF, HR. reflexivity.
Qed.

Lemma mode_kitty st ev : ks_flags st <> 0 -> encodeKittyKey ev (ks_flags st) <> [] ->
  (is_release ev = true -> has (ks_flags st) KbdReportEvents = true) ->
  encode_key st ev = encodeKittyKey ev (ks_flags st).
Proof.
  intros HF HK HR. unfold encode_key. fold (is_release ev).
  destruct (Z.eqb_spec (ks_flags st) 0); [contradiction|].
  destruct (is_release ev) eqn:ER.
  - rewrite (HR eq_refl). cbn [negb andb]. destruct (encodeKittyKey ev (ks_flags st)); [congruence|reflexivity].
  - cbn [andb]. destruct (encodeKittyKey ev (ks_flags st)); [congruence|reflexivity].
Qed.

Lemma mode_fallback st ev : encodeKittyKey ev (ks_flags st) = [] -> is_release ev = false ->
  encode_key st ev = encodeLegacyKey st ev.
Proof.
  intros HK HR. unfold encode_key. fold (is_release ev). rewrite HR, HK. cbn [andb].
  destruct (ks_flags st =? 0); reflexivity.
Qed.

(* which events the Kitty encoder declines (and so fall back to the legacy
   bytes): text keys that produce text, Enter/Tab/Backspace without
   report-all-keys, Escape without disambiguate or report-all-keys, a rune
   event without a rune, and numbers that are not key codes *)
Definition kitty_guards_ok (e : Z * kitty_enc) : bool :=
  match snd e with
  | KCSIu _ g =>
      ((fst e =? KeyEscape) && (g =? Z.lor KbdReportAllKeys KbdDisambiguate)) ||
      (((fst e =? KeyEnter) || (fst e =? KeyTab) || (fst e =? KeyBackspace)) && (g =? KbdReportAllKeys))
  | _ => true
  end.
Lemma kitty_guards : forallb kitty_guards_ok kitty_dispatch = true.
Proof. vm_compute. reflexivity. Qed.

Lemma kittyCSIu_nonempty a b c : kittyCSIu a b c <> [].
Proof. unfold kittyCSIu, CSI. destruct b; destruct c; discriminate. Qed.
Lemma kittyCSI1_nonempty a b : kittyCSI1 a b <> [].
Proof. unfold kittyCSI1, CSI. destruct b; discriminate. Qed.
Lemma kittyCSITilde_nonempty a b : kittyCSITilde a b <> [].
Proof. unfold kittyCSITilde, CSI. destruct b; discriminate. Qed.

Definition text_mods : Z := Z.lor ModAlt (Z.lor ModCtrl (Z.lor ModSuper (Z.lor ModHyper ModMeta))).

Lemma kitty_declines ev flags : kitty_switch ev flags = [] ->
  (e_code ev = KeyRune /\
     (e_rune ev = 0 \/
      (has flags KbdReportAllKeys = false /\ (has flags KbdDisambiguate && has (e_mod ev) text_mods) = false))) \/
  ((e_code ev = KeyEnter \/ e_code ev = KeyTab \/ e_code ev = KeyBackspace) /\ has flags KbdReportAllKeys = false) \/
  (e_code ev = KeyEscape /\ has flags (Z.lor KbdReportAllKeys KbdDisambiguate) = false) \/
  (assoc (e_code ev) kitty_dispatch = None /\ kittyFunctionalCode (e_code ev) = None).
Proof.
  unfold kitty_switch. cbv zeta.
  destruct (assoc (e_code ev) kitty_dispatch) as [enc|] eqn:HA.
  - pose proof (assoc_forallb _ _ _ _ kitty_dispatch_ok HA) as HC.
    pose proof (assoc_forallb _ _ _ _ kitty_guards HA) as HG.
    unfold kitty_guards_ok in HG. cbn [fst snd] in HG. cbn [check_kitty_entry] in HC.
    destruct enc as [|f|c|c g].
    + apply Z.eqb_eq in HC. intros HE. left. split; [exact HC|].
      unfold encodeKittyRune in HE. destruct (Z.eqb_spec (e_rune ev) 0); [left; assumption|right].
      destruct (has flags KbdReportAllKeys); [exfalso; exact (kittyCSIu_nonempty _ _ _ HE)|].
      split; [reflexivity|]. fold text_mods in HE.
      destruct (has flags KbdDisambiguate && has (e_mod ev) text_mods); [exfalso; exact (kittyCSIu_nonempty _ _ _ HE)|reflexivity].
    + intros HE. exfalso; exact (kittyCSI1_nonempty _ _ HE).
    + intros HE. exfalso; exact (kittyCSITilde_nonempty _ _ HE).
    + destruct (has flags g) eqn:Hg; [intros HE; exfalso; exact (kittyCSIu_nonempty _ _ _ HE)|]. intros _.
      apply orb_prop in HG as [HG|HG]; apply andb_prop in HG as [H1 H2]; apply Z.eqb_eq in H2; subst g.
      * apply Z.eqb_eq in H1. right; right; left. split; assumption.
      * right; left. split; [|exact Hg].
        apply orb_prop in H1 as [H1|H1]; [apply orb_prop in H1 as [H1|H1]|]; apply Z.eqb_eq in H1; auto.
  - destruct (kittyFunctionalCode (e_code ev)) eqn:HF.
    + intros HE. exfalso; exact (kittyCSIu_nonempty _ _ _ HE).
    + intros _. right; right; right. split; reflexivity.
Qed.

(* every KeyCode constant other than KeyRune is handled by the Kitty switch *)
Lemma every_key_dispatched :
  forallb (fun e : string * Z =>
     match assoc (snd e) kitty_dispatch, kittyFunctionalCode (snd e) with None, None => false | _, _ => true end)
    keycode_enum = true.
Proof. vm_compute. reflexivity. Qed.

(* ====================================================================== *)
(* K2: release events and the Enter/Tab/Backspace/text rules *)

Lemma release_silent st ev :
  is_release ev = true -> has (ks_flags st) KbdReportEvents = false -> encode_key st ev = [].
Proof. intros HR HE. unfold encode_key. fold (is_release ev). rewrite HR, HE. reflexivity. Qed.

(* a release is never sent in a legacy form *)
Lemma release_only_kitty st ev : is_release ev = true ->
  encode_key st ev = [] \/
  (has (ks_flags st) KbdReportEvents = true /\ encode_key st ev = encodeKittyKey ev (ks_flags st)).
Proof.
  intros HR. unfold encode_key. fold (is_release ev). rewrite HR.
  destruct (has (ks_flags st) KbdReportEvents); cbn [negb andb]; [|left; reflexivity].
  destruct (ks_flags st =? 0); [left; reflexivity|].
  destruct (encodeKittyKey ev (ks_flags st)); [left; reflexivity|right; split; reflexivity].
Qed.

Lemma not_keypad_effective ev flags : isKeypadKey (e_code ev) = false -> effective ev flags = ev.
Proof. intros H. unfold effective. rewrite H. reflexivity. Qed.

(* rst, "Report event types": Enter, Tab and Backspace have no release events
   unless report-all-keys is set *)
Lemma release_enter_tab_backspace st ev :
  is_release ev = true -> has (ks_flags st) KbdReportAllKeys = false ->
  e_code ev = KeyEnter \/ e_code ev = KeyTab \/ e_code ev = KeyBackspace ->
  encode_key st ev = [].
Proof.
  intros HR HA HC.
  destruct (release_only_kitty st ev HR) as [H|[_ H]]; [exact H|]. rewrite H.
  rewrite encodeKittyKey_effective, not_keypad_effective
    by (destruct HC as [->|[->| ->]]; reflexivity).
  unfold kitty_switch. cbv zeta.
  destruct HC as [HC|[HC|HC]]; rewrite HC;
    match goal with |- context [assoc ?k kitty_dispatch] =>
      let v := eval vm_compute in (assoc k kitty_dispatch) in change (assoc k kitty_dispatch) with v end;
    cbv iota; change (has (ks_flags st) 8) with (has (ks_flags st) KbdReportAllKeys); rewrite HA; reflexivity.
Qed.

(* rst, "Event types" note: key events that result in text have no release
   (or repeat) form unless report-all-keys is set *)
Lemma release_text_key st ev :
  is_release ev = true -> has (ks_flags st) KbdReportAllKeys = false ->
  e_code ev = KeyRune -> has (e_mod ev) text_mods = false ->
  encode_key st ev = [].
Proof.
  intros HR HA HC HM.
  destruct (release_only_kitty st ev HR) as [H|[_ H]]; [exact H|]. rewrite H.
  rewrite encodeKittyKey_effective, not_keypad_effective by (rewrite HC; reflexivity).
  unfold kitty_switch. cbv zeta. rewrite HC.
  change (assoc KeyRune kitty_dispatch) with (Some KRune). cbv iota.
  unfold encodeKittyRune. fold text_mods. rewrite HA, HM.
  destruct (e_rune ev =? 0); [reflexivity|]. rewrite andb_false_r. reflexivity.
Qed.

(* without report-all-keys, an unmodified Enter, Tab or Backspace press is the
   legacy byte whatever the other flags are *)
Lemma plain_enter_tab_backspace st ev :
  has (ks_flags st) KbdReportAllKeys = false -> e_mod ev = 0 -> is_release ev = false ->
  (e_code ev = KeyEnter -> encode_key st ev = [13]) /\
  (e_code ev = KeyTab -> encode_key st ev = [9]) /\
  (e_code ev = KeyBackspace -> encode_key st ev = [127]).
Proof.
  intros HA HM HR.
  assert (HK : forall c, (c = KeyEnter \/ c = KeyTab \/ c = KeyBackspace) -> e_code ev = c ->
               encodeKittyKey ev (ks_flags st) = []).
  { intros c Hc HC. rewrite encodeKittyKey_effective, not_keypad_effective
      by (rewrite HC; destruct Hc as [->|[->| ->]]; reflexivity).
    unfold kitty_switch. cbv zeta. rewrite HC.
    destruct Hc as [->|[->| ->]];
    match goal with |- context [assoc ?k kitty_dispatch] =>
      let v := eval vm_compute in (assoc k kitty_dispatch) in change (assoc k kitty_dispatch) with v end;
    cbv iota; change (has (ks_flags st) 8) with (has (ks_flags st) KbdReportAllKeys); rewrite HA; reflexivity. }
  repeat split; intros HC; rewrite mode_fallback by (first [exact HR | eapply HK; [|exact HC]; auto]);
    unfold encodeLegacyKey; cbn [encodeLegacyKey_fuel]; rewrite HC;
    match goal with |- context [isKeypadKey ?k] =>
      let v := eval vm_compute in (isKeypadKey k) in change (isKeypadKey k) with v end; cbv iota;
    unfold legacy_switch; rewrite HC;
    match goal with |- context [assoc ?k legacy_dispatch] =>
      let v := eval vm_compute in (assoc k legacy_dispatch) in change (assoc k legacy_dispatch) with v end; cbv iota;
    unfold encodeEnterKey, encodeTabKey, encodeBackspaceKey; rewrite HM; reflexivity.
Qed.

(* ====================================================================== *)
(* K5: injectivity *)

Lemma kitty_switch_named ev flags : kitty_switch ev flags <> [] ->
  canon_key (e_code ev) (e_rune ev) <> None.
Proof.
  unfold kitty_switch, canon_key. cbv zeta.
  destruct (assoc (e_code ev) kitty_dispatch) as [enc|] eqn:HA.
  - pose proof (assoc_forallb _ _ _ _ kitty_dispatch_ok HA) as HC. cbn [check_kitty_entry] in HC.
    intros _. destruct enc as [|f|c|c g].
    + rewrite HC. discriminate.
    + apply andb_prop in HC as [HC HN]. apply andb_prop in HC as [HK _]. apply negb_true_iff in HK. rewrite HK.
      destruct (name_of (e_code ev) key_rst_name); [discriminate|discriminate].
    + apply andb_prop in HC as [HC HN]. apply andb_prop in HC as [HK _]. apply negb_true_iff in HK. rewrite HK.
      destruct (name_of (e_code ev) key_rst_name); [discriminate|discriminate].
    + apply andb_prop in HC as [HC HN]. apply andb_prop in HC as [HK _]. apply negb_true_iff in HK. rewrite HK.
      destruct (name_of (e_code ev) key_rst_name); [discriminate|discriminate].
  - unfold kittyFunctionalCode.
    destruct (assoc (e_code ev) kitty_functional_code) as [c|] eqn:HFc; [|congruence].
    pose proof (assoc_forallb _ _ _ _ kitty_functional_ok HFc) as HC. cbn [check_functional_entry] in HC.
    rewrite HA in HC. intros _.
    apply andb_prop in HC as [HC HN]. apply andb_prop in HC as [HK _]. apply negb_true_iff in HK. rewrite HK.
    destruct (name_of (e_code ev) key_rst_name); [discriminate|discriminate].
Qed.

Lemma canon_inj flags c1 r1 m1 e1 s1 b1 t1 c2 r2 m2 e2 s2 b2 t2 :
  canon_key c1 r1 <> None ->
  canon flags c1 r1 m1 e1 s1 b1 t1 = canon flags c2 r2 m2 e2 s2 b2 t2 ->
  canon_key c1 r1 = canon_key c2 r2 /\ m1 = m2 /\ canon_event flags e1 = canon_event flags e2.
Proof.
  unfold canon. destruct (canon_key c1 r1) as [k1|]; [|congruence]. intros _.
  destruct (canon_key c2 r2) as [k2|]; [|destruct (has_u_form k1); discriminate].
  destruct (has_u_form k1); destruct (has_u_form k2); intros [= -> -> ->]; auto.
Qed.

(* two events the Kitty encoder both encodes, to the same bytes, are the same
   key (after keypad substitution when disambiguate is off), carry the same 8
   modifier bits and the same reported event type *)
Theorem kitty_injective ev1 ev2 flags :
  wf_ev ev1 -> wf_ev ev2 ->
  (e_code (effective ev1 flags) = KeyRune -> rst_lookup rst_functional (e_rune (effective ev1 flags)) 117 = None) ->
  (e_code (effective ev2 flags) = KeyRune -> rst_lookup rst_functional (e_rune (effective ev2 flags)) 117 = None) ->
  encodeKittyKey ev1 flags <> [] ->
  encodeKittyKey ev1 flags = encodeKittyKey ev2 flags ->
  canon_key (e_code (effective ev1 flags)) (e_rune (effective ev1 flags)) =
    canon_key (e_code (effective ev2 flags)) (e_rune (effective ev2 flags)) /\
  e_mod ev1 = e_mod ev2 /\
  canon_event flags (e_event ev1) = canon_event flags (e_event ev2).
Proof.
  intros W1 W2 R1 R2 Hne Heq.
  pose proof (kitty_roundtrip ev1 flags _ W1 R1 eq_refl Hne) as D1.
  assert (Hne2 : encodeKittyKey ev2 flags <> []) by (rewrite <- Heq; exact Hne).
  pose proof (kitty_roundtrip ev2 flags _ W2 R2 eq_refl Hne2) as D2.
  rewrite <- Heq, D1 in D2. unfold canon_ev in D2.
  rewrite encodeKittyKey_effective in Hne.
  apply canon_inj in D2; [|apply (kitty_switch_named _ _ Hne)].
  assert (HM : forall ev, e_mod (effective ev flags) = e_mod ev /\ e_event (effective ev flags) = e_event ev).
  { intros ev. unfold effective. destruct (isKeypadKey (e_code ev) && negb (has flags KbdDisambiguate)); [|auto].
    unfold keypadEquivalent. destruct (assoc (e_code ev) keypad_equivalent) as [[c [r|]]|]; auto. }
  destruct (HM ev1) as [<- <-]. destruct (HM ev2) as [<- <-]. exact D2.
Qed.

(* a non-control, non-private-use scalar value is never a functional key number *)
Definition plain_rune (r : Z) : Prop :=
  (32 <= r < 127 \/ 160 <= r < 57344 \/ 63744 <= r <= 1114111).

Definition rst_number_special (e : string * list (Z * Z)) : bool :=
  forallb (fun nf : Z * Z => negb (snd nf =? 117) || (fst nf <? 32) || (fst nf =? 127) ||
                              ((57344 <=? fst nf) && (fst nf <? 63744))) (snd e).
Lemma rst_numbers_special : forallb rst_number_special rst_functional = true.
Proof. vm_compute. reflexivity. Qed.

Lemma rst_lookup_none_gen tbl r :
  forallb rst_number_special tbl = true -> plain_rune r -> rst_lookup tbl r 117 = None.
Proof.
  intros HT HP. induction tbl as [|[name alts] tbl IH]; [reflexivity|].
  cbn [forallb] in HT. apply andb_prop in HT as [H1 H2]. cbn [rst_lookup].
  assert (HF : form_mem r 117 alts = false).
  { unfold rst_number_special in H1. cbn [snd] in H1. clear -H1 HP.
    induction alts as [|[n f] alts IHa]; [reflexivity|].
    cbn [forallb] in H1. apply andb_prop in H1 as [Ha Hb]. cbn [form_mem fst snd] in *.
    rewrite (IHa Hb), orb_false_r.
    destruct (Z.eqb_spec n r) as [->|]; [|reflexivity]. cbn [andb].
    destruct (Z.eqb_spec f 117) as [->|]; [|reflexivity]. exfalso.
    cbn [Z.eqb Pos.eqb negb orb] in Ha. unfold plain_rune in HP.
    destruct (Z.ltb_spec r 32); [lia|]. destruct (Z.eqb_spec r 127); [lia|].
    destruct (Z.leb_spec 57344 r); destruct (Z.ltb_spec r 63744); cbn in Ha; try discriminate; lia. }
  rewrite HF. exact (IH H2).
Qed.

Lemma plain_rune_not_functional r : plain_rune r -> rst_lookup rst_functional r 117 = None.
Proof. apply rst_lookup_none_gen, rst_numbers_special. Qed.

(* The statement "two events with equal encodings under the disambiguate flag
   are the same key with the same modifiers" is FALSE of the code as a whole,
   because modified Enter/Tab/Backspace keep their legacy bytes:
   with flags = disambiguate, Tab and Ctrl+Tab are both the byte 9. *)
Lemma wf_ev_intro c r m e s b t :
  (0 <=? m) && (m <? 256) && (0 <=? e) && (e <=? 3) && (0 <=? r) && (r <? 2147483648) &&
  (0 <=? s) && (s <? 2147483648) && (0 <=? b) && (b <? 2147483648) &&
  forallb (fun x => (0 <=? x) && (x <? 2147483648)) t = true ->
  wf_ev (mkEv c r m e s b t).
Proof.
  intros H. repeat (apply andb_prop in H; destruct H as [H ?]).
  repeat match goal with
  | H : (_ <=? _) = true |- _ => apply Z.leb_le in H
  | H : (_ <? _) = true |- _ => apply Z.ltb_lt in H
  end.
  constructor; cbn [e_mod e_event e_rune e_shifted e_base e_text]; unfold rune_ok; try lia.
  apply Forall_forall. intros x Hx.
  match goal with H : forallb _ t = true |- _ => rewrite forallb_forall in H; specialize (H x Hx);
    apply andb_prop in H; destruct H as [Hlo Hhi]; apply Z.leb_le in Hlo; apply Z.ltb_lt in Hhi end.
  unfold rune_ok; lia.
Qed.

(* The statement "two events with equal encodings under the disambiguate flag
   are the same key with the same modifiers" is FALSE of the code as a whole,
   because modified Enter/Tab/Backspace keep their legacy bytes:
   with flags = disambiguate, Tab and Ctrl+Tab are both the byte 9. *)
Lemma disambiguate_injective_refuted :
  exists st ev1 ev2,
    has (ks_flags st) KbdDisambiguate = true /\ wf_ev ev1 /\ wf_ev ev2 /\
    encode_key st ev1 = encode_key st ev2 /\ encode_key st ev1 <> [] /\
    e_code ev1 = e_code ev2 /\ e_mod ev1 <> e_mod ev2.
Proof.
  exists (mkKst 1 0 false), (mkEv KeyTab 0 0 1 0 0 []), (mkEv KeyTab 0 ModCtrl 1 0 0 []).
  split; [reflexivity|]. split; [apply wf_ev_intro; reflexivity|]. split; [apply wf_ev_intro; reflexivity|].
  split; [vm_compute; reflexivity|]. split; [vm_compute; discriminate|]. split; [reflexivity|].
  vm_compute; discriminate.
Qed.

(* ====================================================================== *)
(* K6: legacy forms *)

(* text keys: what encodeRuneKey writes when modifyOtherKeys is off *)
Lemma legacy_rune_bytes st r mod_ : ks_mok st <= 0 -> r <> 0 ->
  encodeRuneKey st r mod_ =
  (if has mod_ ModAlt then [27] else []) ++
  (if has mod_ ModCtrl then match ctrlByte r with Some b => [b] | None => utf8 r end else utf8 r).
Proof.
  intros HM HR. unfold encodeRuneKey.
  destruct (Z.eqb_spec r 0); [contradiction|].
  destruct (Z.ltb_spec 0 (ks_mok st)); [lia|]. cbn [andb].
  destruct (has mod_ ModAlt); destruct (has mod_ ModCtrl); try reflexivity;
    destruct (ctrlByte r); reflexivity.
Qed.

Definition scalar (r : Z) : Prop := 0 <= r <= 1114111 /\ ~ (55296 <= r <= 57343).

Ltac Zify.zify_post_hook ::= Z.div_mod_to_equations.

Lemma utf8_roundtrip r : scalar r -> utf8_decode1 (utf8 r) = Some r.
Proof.
  intros [HR HS]. unfold utf8.
  destruct (Z.ltb_spec r 0); [lia|]. destruct (Z.ltb_spec 1114111 r); [lia|].
  assert (HSb : (55296 <=? r) && (r <=? 57343) = false).
  { destruct (Z.leb_spec 55296 r); destruct (Z.leb_spec r 57343); cbn [andb]; try reflexivity; lia. }
  rewrite HSb. cbn [orb].
  destruct (Z.ltb_spec r 128).
  - unfold utf8_decode1. destruct (Z.leb_spec 0 r); [|lia]. destruct (Z.ltb_spec r 128); [|lia]. reflexivity.
  - destruct (Z.ltb_spec r 2048).
    + unfold utf8_decode1, cont.
      destruct (Z.leb_spec 194 (192 + r / 64)); [|lia].
      destruct (Z.leb_spec (192 + r / 64) 223); [|lia].
      destruct (Z.leb_spec 128 (128 + r mod 64)); [|lia].
      destruct (Z.leb_spec (128 + r mod 64) 191); [|lia].
      cbn [andb]. f_equal. lia.
    + destruct (Z.ltb_spec r 65536).
      * unfold utf8_decode1, cont.
        destruct (Z.leb_spec 224 (224 + r / 4096)); [|lia].
        destruct (Z.leb_spec (224 + r / 4096) 239); [|lia].
        destruct (Z.leb_spec 128 (128 + (r / 64) mod 64)); [|lia].
        destruct (Z.leb_spec (128 + (r / 64) mod 64) 191); [|lia].
        destruct (Z.leb_spec 128 (128 + r mod 64)); [|lia].
        destruct (Z.leb_spec (128 + r mod 64) 191); [|lia].
        cbn [andb].
        assert (HE : (224 + r / 4096 - 224) * 4096 + (128 + (r / 64) mod 64 - 128) * 64 + (128 + r mod 64 - 128) = r) by lia.
        rewrite HE. destruct (Z.leb_spec 2048 r); [|lia]. rewrite HSb. reflexivity.
      * unfold utf8_decode1, cont.
        destruct (Z.leb_spec 240 (240 + r / 262144)); [|lia].
        destruct (Z.leb_spec (240 + r / 262144) 244); [|lia].
        destruct (Z.leb_spec 128 (128 + (r / 4096) mod 64)); [|lia].
        destruct (Z.leb_spec (128 + (r / 4096) mod 64) 191); [|lia].
        destruct (Z.leb_spec 128 (128 + (r / 64) mod 64)); [|lia].
        destruct (Z.leb_spec (128 + (r / 64) mod 64) 191); [|lia].
        destruct (Z.leb_spec 128 (128 + r mod 64)); [|lia].
        destruct (Z.leb_spec (128 + r mod 64) 191); [|lia].
        cbn [andb].
        assert (HE : (240 + r / 262144 - 240) * 262144 + (128 + (r / 4096) mod 64 - 128) * 4096 +
                     (128 + (r / 64) mod 64 - 128) * 64 + (128 + r mod 64 - 128) = r) by lia.
        rewrite HE. destruct (Z.leb_spec 65536 r); [|lia]. destruct (Z.leb_spec r 1114111); [|lia]. reflexivity.
Qed.

(* an invalid rune is written as U+FFFD, exactly like Go's string(r) *)
Lemma utf8_invalid r : ~ scalar r -> utf8 r = [239; 191; 189].
Proof.
  intros H. unfold utf8, scalar in *.
  destruct (Z.ltb_spec r 0); [reflexivity|]. destruct (Z.ltb_spec 1114111 r); [reflexivity|].
  destruct (Z.leb_spec 55296 r); destruct (Z.leb_spec r 57343); cbn [andb orb]; try reflexivity; lia.
Qed.

(* plain text: no Alt, no Ctrl, modifyOtherKeys off: the bytes are the UTF-8 of
   the rune and decode back to it *)
Lemma legacy_text_roundtrip st r mod_ : ks_mok st <= 0 -> r <> 0 -> scalar r -> 32 <= r -> r <> 127 ->
  has mod_ ModAlt = false -> has mod_ ModCtrl = false ->
  encodeRuneKey st r mod_ = utf8 r /\ utf8_decode1 (encodeRuneKey st r mod_) = Some r.
Proof.
  intros HM HR HS _ _ HA HC. rewrite legacy_rune_bytes by assumption. rewrite HA, HC. cbn [app].
  split; [reflexivity|apply utf8_roundtrip, HS].
Qed.

(* functional keys with an xterm form: over the whole finite domain
   (every such key code and its keypad alias, all 256 modifier masks,
   modifyOtherKeys 0/1/2, application cursor keys on/off) the legacy bytes
   decode to the key's rst name with the Shift/Alt/Ctrl projection of the
   modifiers, in the form the rst prescribes:
     no modifiers: SS3 letter for F1-F4 and, in application cursor mode, for
       the arrows and Home/End; otherwise CSI letter / CSI n ~
     modifiers:    CSI 1 ; m letter / CSI n ; m ~                           *)
Definition legacy_functional_keys : list Z :=
  [KeyUp; KeyDown; KeyRight; KeyLeft; KeyHome; KeyEnd; KeyInsert; KeyDelete; KeyPageUp; KeyPageDown;
   KeyF1; KeyF2; KeyF3; KeyF4; KeyF5; KeyF6; KeyF7; KeyF8; KeyF9; KeyF10; KeyF11; KeyF12;
   KeyKPLeft; KeyKPRight; KeyKPUp; KeyKPDown; KeyKPPageUp; KeyKPPageDown; KeyKPHome; KeyKPEnd;
   KeyKPInsert; KeyKPDelete].

Definition lform_eqb (a b : lform) : bool :=
  match a, b with
  | LFSS3, LFSS3 | LFCSI, LFCSI | LFCSI1, LFCSI1 | LFTilde, LFTilde | LFTildeMod, LFTildeMod | LFOther, LFOther => true
  | _, _ => false
  end.

Definition expected_lform (code mod_ : Z) (appc : bool) : lform :=
  let fkey := zmem code [KeyF1; KeyF2; KeyF3; KeyF4] in
  let tilde := match assoc code legacy_dispatch with Some (LTilde _) => true | _ => false end in
  if tilde then (if mod_ =? 0 then LFTilde else LFTildeMod)
  else if mod_ =? 0 then (if fkey || appc then LFSS3 else LFCSI) else LFCSI1.

Definition legacy_functional_check (code : Z) : bool :=
  let target := match assoc code keypad_equivalent with Some (c, _) => c | None => code end in
  match name_of target key_rst_name with
  | None => false
  | Some nm =>
      forallb (fun mod_ =>
        forallb (fun mok =>
          forallb (fun appc : bool =>
            match decode_legacy_functional
                    (encodeLegacyKey (mkKst 0 mok appc) (mkEv code 0 mod_ 1 0 0 [])) with
            | Some d => keyid_eqb (l_key d) (KFunc nm) && (l_mods d =? sac mod_) &&
                        lform_eqb (l_form d) (expected_lform target mod_ appc)
            | None => false
            end) [false; true]) [0; 1; 2]) (zrange 256 0)
  end.

Lemma legacy_functional_roundtrip : forallb legacy_functional_check legacy_functional_keys = true.
Proof. vm_compute. reflexivity. Qed.

(* modifyOtherKeys: with the mode on, a modified text key is CSI 27 ; m ; code ~ *)
Lemma xterm_param_range mod_ : 1 <= xtermModParam mod_ <= 8.
Proof. unfold xtermModParam. destruct (has mod_ ModShift); destruct (has mod_ ModAlt); destruct (has mod_ ModCtrl); lia. Qed.

Lemma modify_other_keys_roundtrip st r mod_ : 0 < ks_mok st -> mod_ <> 0 -> 0 < r < 2147483648 ->
  encodeRuneKey st r mod_ = [27; 91; 50; 55; 59] ++ itoa (xtermModParam mod_) ++ [59] ++ itoa r ++ [126] /\
  decode_legacy_functional (encodeRuneKey st r mod_) = Some (mkLDec (KChar r) (xtermModParam mod_ - 1) LFOther).
Proof.
  intros HM Hm Hr. unfold encodeRuneKey.
  destruct (Z.eqb_spec r 0); [lia|]. destruct (Z.ltb_spec 0 (ks_mok st)); [|lia].
  destruct (Z.eqb_spec mod_ 0); [contradiction|]. cbn [andb negb].
  split; [reflexivity|].
  pose proof (xterm_param_range mod_) as HX.
  assert (HP : encodeModifyOtherKeys r mod_ = print_csi [[Some 27]; [Some (xtermModParam mod_)]; [Some r]] 126).
  { unfold encodeModifyOtherKeys, print_csi, CSI. cbn [print_fields print_subs pr_sub app].
    change (itoa 27) with [50; 55]. norm_app. reflexivity. }
  rewrite HP. unfold decode_legacy_functional.
  assert (HS : scan_csi (print_csi [[Some 27]; [Some (xtermModParam mod_)]; [Some r]] 126) =
               Some ([[Some 27]; [Some (xtermModParam mod_)]; [Some r]], 126)).
  { apply scan_print_csi; [discriminate| |apply final_ok_tilde].
    repeat first [apply Forall_cons | apply Forall_nil]; (split; [discriminate|]); fok.
    - apply small_itoa_ok; lia.
    - apply small_itoa_ok; lia.
    - apply rune_itoa_ok. unfold rune_ok. lia. }
  unfold print_csi in *. cbn [app] in *.
  destruct (print_fields [[Some 27]; [Some (xtermModParam mod_)]; [Some r]] ++ [126]) as [|b0 [|b1 [|b2 tl]]] eqn:EP;
    rewrite HS; unfold xterm_mods;
    destruct (Z.leb_spec 1 (xtermModParam mod_)); try lia;
    destruct (Z.leb_spec (xtermModParam mod_) 8); try lia; reflexivity.
Qed.

(* the ambiguities the legacy protocol has by design (rst, note under "Legacy
   text keys"): each pair is two different events with the same bytes *)
Definition lst : kstate := mkKst 0 0 false.
Definition press (code rune mod_ : Z) : keyev := mkEv code rune mod_ 1 0 0 [].
Lemma legacy_ambiguities :
  encode_key lst (press KeyTab 0 0) = encode_key lst (press KeyRune 105 ModCtrl) /\          (* Tab = Ctrl+i *)
  encode_key lst (press KeyEnter 0 0) = encode_key lst (press KeyRune 109 ModCtrl) /\        (* Enter = Ctrl+m *)
  encode_key lst (press KeyEscape 0 0) = encode_key lst (press KeyRune 91 ModCtrl) /\        (* Esc = Ctrl+[ *)
  encode_key lst (press KeyBackspace 0 0) = encode_key lst (press KeyRune 63 ModCtrl) /\     (* Backspace = Ctrl+? *)
  encode_key lst (press KeyRune 114 ModCtrl) = encode_key lst (press KeyRune 114 (Z.lor ModCtrl ModShift)) /\
  encode_key lst (press KeyKP1 0 0) = encode_key lst (press KeyRune 49 0) /\                 (* keypad 1 = 1 *)
  encode_key lst (press KeyEnter 0 ModShift) = encode_key lst (press KeyEnter 0 0) /\
  encode_key lst (press KeyUp 0 ModSuper) = [27; 91; 49; 59; 49; 65].                        (* CSI 1;1A: Super is dropped *)
Proof. vm_compute. repeat split; reflexivity. Qed.

(* ctrlByte against the rst table "Emitted bytes when ctrl is held down": every
   ASCII key on which ctrlByte is defined agrees with the rst (upper-case
   letters, which the rst does not list, map like their lower-case forms) *)
Definition ctrl_agrees (r : Z) : bool :=
  match ctrlByte r with
  | None => true
  | Some b =>
      let key := if (65 <=? r) && (r <=? 90) then r + 32 else r in
      match assoc key rst_ctrl_mapping with Some b' => b =? b' | None => false end
  end.
Lemma ctrl_byte_agrees_with_rst : forallb ctrl_agrees (zrange 128 0) = true.
Proof. vm_compute. reflexivity. Qed.

Lemma ctrl_byte_undefined_above_ascii r : 128 <= r -> ctrlByte r = None.
Proof.
  intros H. unfold ctrlByte.
  assert (HRg : ctrl_ranges ctrl_byte_ranges r = None).
  { assert (HB : forallb (fun e : Z * Z * Z * Z => let '(lo, hi, _, _) := e in hi <? 128) ctrl_byte_ranges = true)
      by (vm_compute; reflexivity).
    induction ctrl_byte_ranges as [|[[[lo hi] sub] add] l IH]; [reflexivity|].
    cbn [forallb] in HB. apply andb_prop in HB as [H1 H2]. apply Z.ltb_lt in H1. cbn [ctrl_ranges].
    destruct (Z.leb_spec lo r); destruct (Z.leb_spec r hi); cbn [andb]; try lia; apply IH, H2. }
  rewrite HRg.
  assert (HB : forallb (fun e : Z * Z => fst e <? 128) ctrl_byte_exact = true) by (vm_compute; reflexivity).
  induction ctrl_byte_exact as [|[k v] l IH]; [reflexivity|].
  cbn [forallb fst] in HB. apply andb_prop in HB as [H1 H2]. apply Z.ltb_lt in H1. cbn [assoc].
  destruct (Z.eqb_spec r k); [lia|]. apply IH, H2.
Qed.

(* ... but the rst table is not implemented completely: for these keys the rst
   prescribes a control byte and ctrlByte is undefined, so the key itself is
   sent (Ctrl+Space is 0x20 instead of NUL, Ctrl+/ is "/" instead of 0x1f ...) *)
Definition ctrl_missing : list Z :=
  filter (fun k => match assoc k rst_ctrl_mapping, ctrlByte k with
                   | Some b, None => negb (b =? k)
                   | _, _ => false
                   end) (zrange 128 0).
Lemma ctrl_mapping_incomplete : ctrl_missing = [32; 47; 50; 51; 52; 53; 54; 55; 56; 126].
Proof. vm_compute. reflexivity. Qed.
Lemma ctrl_space_refuted :
  assoc 32 rst_ctrl_mapping = Some 0 /\ encode_key lst (press KeyRune 32 ModCtrl) = [32].
Proof. vm_compute. split; reflexivity. Qed.

(* ====================================================================== *)
(* D46 (not a defect): "Lock modifiers are not reported for text producing
   keys".  With disambiguate but not report-all-keys, a text key whose only
   modifiers are Shift / Caps Lock / Num Lock is sent as plain UTF-8 text. *)
Lemma has_sub x big small : Z.land big small = small -> has x big = false -> has x small = false.
Proof.
  unfold has. intros HS HB. apply negb_false_iff in HB. apply Z.eqb_eq in HB.
  apply negb_false_iff. apply Z.eqb_eq. rewrite <- HS, Z.land_assoc, HB. reflexivity.
Qed.

Lemma lock_mods_keep_text st ev :
  has (ks_flags st) KbdReportAllKeys = false -> ks_mok st <= 0 ->
  e_code ev = KeyRune -> e_rune ev <> 0 -> is_release ev = false ->
  has (e_mod ev) text_mods = false ->
  encode_key st ev = utf8 (e_rune ev).
Proof.
  intros HA HM HC HR HRel HT.
  assert (HK : encodeKittyKey ev (ks_flags st) = []).
  { rewrite encodeKittyKey_effective, not_keypad_effective by (rewrite HC; reflexivity).
    unfold kitty_switch. cbv zeta. rewrite HC. change (assoc KeyRune kitty_dispatch) with (Some KRune). cbv iota.
    unfold encodeKittyRune. fold text_mods. rewrite HA, HT, andb_false_r. destruct (e_rune ev =? 0); reflexivity. }
  rewrite mode_fallback by assumption.
  unfold encodeLegacyKey. cbn [encodeLegacyKey_fuel]. rewrite HC.
  change (isKeypadKey KeyRune) with false. cbv iota. unfold legacy_switch. rewrite HC.
  change (assoc KeyRune legacy_dispatch) with (Some LRune). cbv iota.
  rewrite legacy_rune_bytes by assumption.
  rewrite (has_sub (e_mod ev) text_mods ModAlt eq_refl HT), (has_sub (e_mod ev) text_mods ModCtrl eq_refl HT).
  reflexivity.
Qed.

(* D30 witness: the code as it is today sends "a" for a release of a in legacy
   mode; the repaired encodeKey sends nothing *)
Lemma d30_witness :
  encode_key_unrepaired (mkKst 0 0 false) (mkEv KeyRune 97 0 KeyRelease 0 0 []) = [97] /\
  encode_key (mkKst 0 0 false) (mkEv KeyRune 97 0 KeyRelease 0 0 []) = [].
Proof. vm_compute. split; reflexivity. Qed.

(* rst csv-table "C0 controls" (legacy mode): where the code differs from the
   table.  rst: Alt+Escape = 1b 1b, Ctrl+Backspace = 08, Ctrl+Shift+Tab = CSI Z,
   Alt+Shift+Tab = 1b CSI Z, Ctrl+Space = 00. *)
Lemma c0_table_deviations :
  encode_key lst (press KeyEscape 0 ModAlt) = [27] /\
  encode_key lst (press KeyBackspace 0 ModCtrl) = [127] /\
  encode_key lst (press KeyTab 0 (Z.lor ModCtrl ModShift)) = [9] /\
  encode_key lst (press KeyTab 0 (Z.lor ModAlt ModShift)) = [27; 9] /\
  encode_key lst (press KeyRune 32 ModCtrl) = [32].
Proof. vm_compute. repeat split; reflexivity. Qed.
