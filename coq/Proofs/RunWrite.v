(* Writing a piece (all the cells of a run of glyphs) at once is the same as writing its glyphs one by one:
   same screen, and callback logs equal up to coalescing adjacent text-region announcements. *)
From Coq Require Import List ZArith Bool Lia.
From Termemu Require Import Base Style Screen Kbd Parser Term BaseLemmas ScreenInv RowLemmas CursorProofs WriteProofs Span SpanText.
From Termemu Require Import ScreenSpec Case.
Import ListNotations.
Open Scope Z_scope.

(* the callbacks of s followed (in time: preceded in the newest-first list) by l *)
Definition app_evs (l : list event) (s : screen) : screen := set_evs (evs s ++ l) s.
Definition EvFrame (f : screen -> screen) : Prop := forall l s, f (app_evs l s) = app_evs l (f s).

(* one glyph (text, width) of a run *)
Definition wg (s : screen) (p : list Z * Z) : screen := write_glyph (fst p) (snd p) s.

(* writeRun at the cell level: [cells] are written at once at the cursor (after the wrap-or-pin
   decision for their total width), then the cursor advances by their number *)
Definition write_piece (cells : list cell) (s : screen) : screen :=
  if negb (crash s =? 0) then s else
  let n := zlen cells in
  let s1 := if sW s <? cx s + n
            then (if awrap s then move_cursor (- cx s) 1 false true s else set_cur (sW s - n) (cy s) s)
            else s in
  let s2 := write_row_cells crText (cx s1) (cy s1) cells s1 in
  if negb (crash s2 =? 0) then s2 else move_cursor n 0 true true s2.

(* callback logs (newest first) equal up to coalescing the announcements of adjacent text writes in one row:
   "region [x1,x2) ; cursor to x1' ; region [x1',x2')" (oldest first) is the same as "region [x1, max x2 x2')"
   when x1 <= x1' <= x2, provided a later cursor announcement exists (so the last announced cursor is unchanged) *)
Inductive log_eq : list event -> list event -> Prop :=
| le_refl l : log_eq l l
| le_sym a b : log_eq a b -> log_eq b a
| le_trans a b c : log_eq a b -> log_eq b c -> log_eq a c
| le_app a a' b b' : log_eq a a' -> log_eq b b' -> log_eq (a ++ b) (a' ++ b')
| le_merge cx' cy' mid x1 x2 x1' x2' y :
    x1 <= x1' <= x2 ->
    log_eq (ECursor cx' cy' :: mid ++ [ERegion x1' y x2' (y + 1) crText; ECursor x1' y; ERegion x1 y x2 (y + 1) crText])
           (ECursor cx' cy' :: mid ++ [ERegion x1 y (Z.max x2 x2') (y + 1) crText]).

(* ---------- EvFrame: the primitives only read the other fields and cons onto the log ---------- *)
Ltac sfields := cbn [rows sW sH cx cy svx svy top bot awrap sty crash trig evs].

Lemma app_evs_self s : s = app_evs (evs s) (set_evs [] s).
Proof. destruct s. reflexivity. Qed.
Lemma app_evs_evs l s : evs (app_evs l s) = evs s ++ l.
Proof. reflexivity. Qed.
Lemma app_evs_noevs l s : set_evs [] (app_evs l s) = set_evs [] s.
Proof. reflexivity. Qed.

Lemma EvFrame_emit e : EvFrame (emit e).
Proof. intros l s. reflexivity. Qed.
Lemma EvFrame_set_cur x y : EvFrame (set_cur x y).
Proof. intros l s. reflexivity. Qed.
Lemma EvFrame_add_trig v : EvFrame (add_trig v).
Proof. intros l s. reflexivity. Qed.
Lemma ae_fields l s :
  rows (app_evs l s) = rows s /\ sW (app_evs l s) = sW s /\ sH (app_evs l s) = sH s /\ cx (app_evs l s) = cx s /\
  cy (app_evs l s) = cy s /\ top (app_evs l s) = top s /\ bot (app_evs l s) = bot s /\ awrap (app_evs l s) = awrap s /\
  sty (app_evs l s) = sty s /\ crash (app_evs l s) = crash s /\ trig (app_evs l s) = trig s.
Proof. repeat split. Qed.
Ltac aef :=
  repeat match goal with
  | |- context [rows (app_evs ?l ?s)] => change (rows (app_evs l s)) with (rows s)
  | |- context [sW (app_evs ?l ?s)] => change (sW (app_evs l s)) with (sW s)
  | |- context [sH (app_evs ?l ?s)] => change (sH (app_evs l s)) with (sH s)
  | |- context [cx (app_evs ?l ?s)] => change (cx (app_evs l s)) with (cx s)
  | |- context [cy (app_evs ?l ?s)] => change (cy (app_evs l s)) with (cy s)
  | |- context [top (app_evs ?l ?s)] => change (top (app_evs l s)) with (top s)
  | |- context [bot (app_evs ?l ?s)] => change (bot (app_evs l s)) with (bot s)
  | |- context [awrap (app_evs ?l ?s)] => change (awrap (app_evs l s)) with (awrap s)
  | |- context [sty (app_evs ?l ?s)] => change (sty (app_evs l s)) with (sty s)
  | |- context [crash (app_evs ?l ?s)] => change (crash (app_evs l s)) with (crash s)
  end.

Lemma EvFrame_scroll y1 y2 dy : EvFrame (scroll y1 y2 dy).
Proof.
  intros l s. unfold scroll. aef.
  destruct (_ <? _); [reflexivity|]. destruct (0 <? _); reflexivity.
Qed.
Lemma EvFrame_move_cursor dx dy wrap scr : EvFrame (move_cursor dx dy wrap scr).
Proof.
  intros l s. unfold move_cursor. aef.
  destruct (if wrap && awrap s then _ else _) as [x1 y1].
  destruct (scr && _); [|reflexivity].
  destruct (_ <? top s); [rewrite EvFrame_scroll; reflexivity|].
  destruct (bot s <? _); [rewrite EvFrame_scroll; reflexivity|reflexivity].
Qed.
Lemma EvFrame_write_row_cells reason x y new : EvFrame (write_row_cells reason x y new).
Proof.
  intros l s. unfold write_row_cells, row_at. aef.
  destruct (zlen new <=? 0); [reflexivity|]. destruct (_ || _); [reflexivity|].
  destruct (is_cont _); reflexivity.
Qed.

Lemma EvFrame_comp f g : EvFrame f -> EvFrame g -> EvFrame (fun s => g (f s)).
Proof. intros Hf Hg l s. cbv beta. rewrite Hf, Hg. reflexivity. Qed.

Lemma EvFrame_write_glyph txt w0 : EvFrame (write_glyph txt w0).
Proof.
  intros l s. unfold write_glyph. aef.
  destruct (negb (crash s =? 0)); [reflexivity|].
  set (w1 := if w0 <? 1 then 1 else w0).
  assert (Ea : (if sW s <? w1 then add_trig trWideOnNarrow (app_evs l s) else app_evs l s)
               = app_evs l (if sW s <? w1 then add_trig trWideOnNarrow s else s)) by (destruct (sW s <? w1); reflexivity).
  rewrite Ea. set (sa := if sW s <? w1 then add_trig trWideOnNarrow s else s). aef.
  set (w := if sW sa <? w1 then sW sa else w1).
  assert (E1 : (if sW sa <? cx sa + w
                then if awrap sa then move_cursor (- cx sa) 1 false true (app_evs l sa) else set_cur (sW sa - w) (cy sa) (app_evs l sa)
                else app_evs l sa)
               = app_evs l (if sW sa <? cx sa + w
                            then if awrap sa then move_cursor (- cx sa) 1 false true sa else set_cur (sW sa - w) (cy sa) sa
                            else sa)).
  { destruct (sW sa <? cx sa + w); [|reflexivity]. destruct (awrap sa); [apply EvFrame_move_cursor|reflexivity]. }
  rewrite E1. set (s1 := if sW sa <? cx sa + w then _ else sa). aef.
  rewrite (EvFrame_write_row_cells crText (cx s1) (cy s1) (glyph_cells txt w (sty s1)) l s1). aef.
  destruct (negb (crash _ =? 0)); [reflexivity|]. apply EvFrame_move_cursor.
Qed.

Lemma EvFrame_wg p : EvFrame (fun s => wg s p).
Proof. unfold wg. apply EvFrame_write_glyph. Qed.

Lemma EvFrame_fold_wg cls : EvFrame (fun s => fold_left wg cls s).
Proof.
  induction cls as [|p cls IH]; intros l s; cbn [fold_left]; [reflexivity|].
  rewrite (EvFrame_wg p l s). apply IH.
Qed.

Lemma EvFrame_write_piece cells : EvFrame (write_piece cells).
Proof.
  intros l s. unfold write_piece. aef.
  destruct (negb (crash s =? 0)); [reflexivity|].
  set (n := zlen cells).
  assert (E1 : (if sW s <? cx s + n
                then if awrap s then move_cursor (- cx s) 1 false true (app_evs l s) else set_cur (sW s - n) (cy s) (app_evs l s)
                else app_evs l s)
               = app_evs l (if sW s <? cx s + n
                            then if awrap s then move_cursor (- cx s) 1 false true s else set_cur (sW s - n) (cy s) s
                            else s)).
  { destruct (sW s <? cx s + n); [|reflexivity]. destruct (awrap s); [apply EvFrame_move_cursor|reflexivity]. }
  rewrite E1. set (s1 := if sW s <? cx s + n then _ else s). aef.
  rewrite (EvFrame_write_row_cells crText (cx s1) (cy s1) cells l s1). aef.
  destruct (negb (crash _ =? 0)); [reflexivity|]. apply EvFrame_move_cursor.
Qed.

(* two screen operations in a row on the terminal are one operation (callbacks accumulate) *)
Lemma on_screen_comp f g t : EvFrame f -> on_screen f (on_screen g t) = on_screen (fun s => f (g s)) t.
Proof.
  intros Hf. unfold on_screen.
  set (sg := g (set_evs [] (active t))).
  assert (E : f sg = app_evs (evs sg) (f (set_evs [] sg))) by (rewrite <- Hf, <- app_evs_self; reflexivity).
  rewrite E. unfold active, set_active. destruct (onalt t); cbn [tmain talt onalt vflags vints vstrs kbm kba tout tlog];
    rewrite ?app_evs_noevs, ?app_evs_evs, <- ?app_assoc; reflexivity.
Qed.

(* ---------- the digest is invariant under log_eq ---------- *)
Fixpoint first_cursor (l : list event) : option (Z * Z) :=
  match l with [] => None | ECursor x y :: _ => Some (x, y) | _ :: r => first_cursor r end.
Fixpoint first_style (l : list event) : option style :=
  match l with [] => None | EStyle s :: _ => Some s | _ :: r => first_style r end.

Lemma last_cursor_first l :
  last_cursor l = match first_cursor l with Some (x, y) => [x; y] | None => [-1; -1] end.
Proof. induction l as [|e l IH]; [reflexivity|]. destruct e; cbn [last_cursor first_cursor]; auto. Qed.
Lemma last_style_first l :
  last_style l = match first_style l with Some s => enc_style s | None => [-1; -1; -1] end.
Proof. induction l as [|e l IH]; [reflexivity|]. destruct e; cbn [last_style first_style]; auto. Qed.
Lemma first_cursor_app a b :
  first_cursor (a ++ b) = match first_cursor a with Some p => Some p | None => first_cursor b end.
Proof. induction a as [|e a IH]; [reflexivity|]. destruct e; cbn [app first_cursor]; auto. Qed.
Lemma first_style_app a b :
  first_style (a ++ b) = match first_style a with Some p => Some p | None => first_style b end.
Proof. induction a as [|e a IH]; [reflexivity|]. destruct e; cbn [app first_style]; auto. Qed.
Lemma count_bells_app a b : count_bells (a ++ b) = count_bells a + count_bells b.
Proof. induction a as [|e a IH]; [reflexivity|]. destruct e; cbn [app count_bells]; lia. Qed.
Lemma view_events_app a b : view_events (a ++ b) = view_events b ++ view_events a.
Proof.
  induction a as [|e a IH]; [cbn [app view_events]; rewrite app_nil_r; reflexivity|].
  destruct e; cbn [app view_events]; rewrite ?IH, ?app_assoc; reflexivity.
Qed.

Lemma log_eq_strong a b : log_eq a b ->
  count_bells a = count_bells b /\ first_cursor a = first_cursor b /\ first_style a = first_style b /\
  view_events a = view_events b.
Proof.
  induction 1 as [l|a b _ IH|a b c _ IH1 _ IH2|a a' b b' _ IH1 _ IH2|cx' cy' mid x1 x2 x1' x2' y Hx].
  - repeat split.
  - destruct IH as (A & B & C & D). repeat split; congruence.
  - destruct IH1 as (A & B & C & D). destruct IH2 as (A' & B' & C' & D'). repeat split; congruence.
  - destruct IH1 as (A & B & C & D). destruct IH2 as (A' & B' & C' & D').
    rewrite !count_bells_app, !first_cursor_app, !first_style_app, !view_events_app.
    rewrite A, B, C, D, A', B', C', D'. repeat split.
  - cbn [count_bells first_cursor first_style view_events].
    rewrite !count_bells_app, !first_style_app, !view_events_app. repeat split.
Qed.

Lemma log_eq_digest a b : log_eq a b ->
  count_bells a = count_bells b /\ last_cursor a = last_cursor b /\ last_style a = last_style b /\ view_events a = view_events b.
Proof.
  intros H. destruct (log_eq_strong a b H) as (A & B & C & D).
  rewrite !last_cursor_first, !last_style_first, B, C. repeat split; assumption.
Qed.

(* ---------- lists ---------- *)
Lemma znth_ext {A} (a b : list A) d :
  zlen a = zlen b -> (forall i, 0 <= i < zlen a -> znth i a d = znth i b d) -> a = b.
Proof.
  intros L H. apply (nth_ext a b d d); [unfold zlen in L; lia|].
  intros n Hn. specialize (H (Z.of_nat n) ltac:(unfold zlen; lia)). unfold znth in H.
  destruct (Z.ltb_spec (Z.of_nat n) 0); [lia|]. rewrite Nat2Z.id in H. exact H.
Qed.

Lemma zupd_nil {A} i (a : A) : zupd i a [] = [].
Proof. unfold zupd. change (zlen (@nil A)) with 0. destruct (Z.ltb_spec i 0); [reflexivity|]. destruct (Z.leb_spec 0 i); [reflexivity|lia]. Qed.
Lemma zupd_twice {A} i (a b : A) l : zupd i a (zupd i b l) = zupd i a l.
Proof.
  destruct l as [|x0 l0]; [rewrite !zupd_nil; reflexivity|].
  set (l := x0 :: l0). apply (znth_ext _ _ x0); [zl|].
  intros j Hj. rewrite !zlen_zupd in Hj. destruct (Z.eq_dec i j) as [->|N].
  - rewrite !znth_zupd_same by (rewrite ?zlen_zupd; lia). reflexivity.
  - rewrite !znth_zupd_other by exact N. reflexivity.
Qed.

(* ---------- cont_run, pointwise ---------- *)
Lemma cont_prefix_in l i : (i < cont_prefix l)%nat -> is_cont (nth i l dcell) = true.
Proof.
  revert i. induction l as [|c l IH]; intros i Hi; cbn [cont_prefix] in Hi; [lia|].
  destruct (is_cont c) eqn:E; [|lia]. destruct i as [|i]; [exact E|]. cbn [nth]. apply IH. lia.
Qed.
Lemma cont_prefix_stop l : is_cont (nth (cont_prefix l) l dcell) = false.
Proof.
  induction l as [|c l IH]; cbn [cont_prefix]; [reflexivity|].
  destruct (is_cont c) eqn:E; [exact IH|exact E].
Qed.
Lemma cont_prefix_unique l r :
  (forall i, (i < r)%nat -> is_cont (nth i l dcell) = true) -> is_cont (nth r l dcell) = false -> cont_prefix l = r.
Proof.
  revert r. induction l as [|c l IH]; intros r Hin Hstop; cbn [cont_prefix].
  - destruct r as [|r]; [reflexivity|]. specialize (Hin 0%nat ltac:(lia)). discriminate Hin.
  - destruct (is_cont c) eqn:E.
    + destruct r as [|r]; [cbn [nth] in Hstop; congruence|]. f_equal. apply IH; [|exact Hstop].
      intros i Hi. apply (Hin (S i)). lia.
    + destruct r as [|r]; [reflexivity|]. specialize (Hin 0%nat ltac:(lia)). cbn [nth] in Hin. congruence.
Qed.

Lemma nth_zskipn_znth row k (i : nat) : 0 <= k -> nth i (zskipn k row) dcell = znth (k + Z.of_nat i) row dcell.
Proof.
  intros Hk. unfold zskipn, znth. destruct (Z.ltb_spec (k + Z.of_nat i) 0); [lia|].
  rewrite nth_skipn_. f_equal. lia.
Qed.

Lemma cont_run_in row k i : 0 <= k -> 0 <= i < cont_run row k -> is_cont (znth (k + i) row dcell) = true.
Proof.
  intros Hk Hi. unfold cont_run in Hi.
  pose proof (cont_prefix_in (zskipn k row) (Z.to_nat i) ltac:(lia)) as P.
  rewrite nth_zskipn_znth in P by exact Hk. rewrite Z2Nat.id in P by lia. exact P.
Qed.
Lemma cont_run_stop row k : 0 <= k -> is_cont (znth (k + cont_run row k) row dcell) = false.
Proof.
  intros Hk. unfold cont_run. rewrite <- nth_zskipn_znth by exact Hk. apply cont_prefix_stop.
Qed.
Lemma cont_run_unique row k r : 0 <= k -> 0 <= r ->
  (forall i, 0 <= i < r -> is_cont (znth (k + i) row dcell) = true) ->
  is_cont (znth (k + r) row dcell) = false -> cont_run row k = r.
Proof.
  intros Hk Hr Hin Hstop. unfold cont_run.
  rewrite (cont_prefix_unique (zskipn k row) (Z.to_nat r)); [lia| |].
  - intros i Hi. rewrite nth_zskipn_znth by exact Hk. apply Hin. lia.
  - rewrite nth_zskipn_znth by exact Hk. rewrite Z2Nat.id by lia. exact Hstop.
Qed.

(* ---------- the row fact: two adjacent overwrites are one ---------- *)
Section RowFact.
  Variables (st : style) (x : Z) (ca cb : list cell) (row : list cell).
  Hypothesis Hx : 0 <= x.
  Hypothesis Ha : 0 < zlen ca.
  Hypothesis Hb : 0 < zlen cb.
  Hypothesis Hl : x + zlen ca + zlen cb <= zlen row.
  Let na := zlen ca.
  Let nb := zlen cb.
  Let row' := overwrite st x ca row.
  Let r1 := cont_run row (x + na).
  Let r2 := cont_run row (x + na + nb).
  Let r2' := cont_run row' (x + na + nb).
  Let b := left_edge row x.

  Lemma rf_ranges : 0 <= b <= x /\ 0 <= r1 <= zlen row - (x + na) /\ 0 <= r2 <= zlen row - (x + na + nb) /\ 0 <= r2'.
  Proof.
    unfold b, r1, r2, r2', na, nb.
    pose proof (left_edge_range row x Hx). pose proof (cont_run_range row (x + zlen ca) ltac:(lia)).
    pose proof (cont_run_range row (x + zlen ca + zlen cb) ltac:(lia)).
    pose proof (cont_run_range row' (x + zlen ca + zlen cb) ltac:(lia)). lia.
  Qed.

  Lemma rf_row'_len : zlen row' = zlen row.
  Proof. unfold row'. apply overwrite_len; lia. Qed.

  Lemma rf_row'_znth i : znth i row' dcell =
    if zin x (x + na) i then znth (i - x) ca dcell
    else if zin b x i || zin (x + na) (x + na + r1) i then blank st else znth i row dcell.
  Proof. unfold row', b, r1, na. apply overwrite_znth; lia. Qed.

  Lemma rf_head : is_cont (znth (x + na) row' dcell) = false.
  Proof.
    assert (Ena : na = zlen ca) by reflexivity. assert (Enb : nb = zlen cb) by reflexivity.
    rewrite rf_row'_znth. destruct rf_ranges as (Rb & R1 & R2 & R2'). unfold zin.
    destruct (Z.eq_dec r1 0) as [E|E].
    - zbool. pose proof (cont_run_stop row (x + na) ltac:(lia)) as P. fold r1 in P. rewrite E, Z.add_0_r in P. exact P.
    - zbool. reflexivity.
  Qed.

  Lemma rf_edge : left_edge row' (x + na) = x + na.
  Proof. apply left_edge_noncont, rf_head. Qed.

  Lemma rf_cases : (r1 <= nb /\ r2' = r2) \/ (nb < r1 /\ r2' = 0 /\ r2 = r1 - nb).
  Proof.
    assert (Ena : na = zlen ca) by reflexivity. assert (Enb : nb = zlen cb) by reflexivity.
    destruct rf_ranges as (Rb & R1 & R2 & R2').
    destruct (Z.le_gt_cases r1 nb) as [C|C]; [left|right].
    - split; [exact C|]. unfold r2'. apply cont_run_unique; [lia|lia| |].
      + intros i Hi. rewrite rf_row'_znth. unfold zin. zbool. apply (cont_run_in row (x + na + nb) i); [lia|exact Hi].
      + rewrite rf_row'_znth. unfold zin. zbool. apply cont_run_stop. lia.
    - split; [lia|]. split.
      + unfold r2'. apply cont_run_0; [lia|]. rewrite rf_row'_znth. unfold zin. zbool. reflexivity.
      + unfold r2. apply cont_run_unique; [lia|lia| |].
        * intros i Hi. replace (x + na + nb + i) with (x + na + (nb + i)) by lia. apply cont_run_in; [lia|]. fold r1. lia.
        * replace (x + na + nb + (r1 - nb)) with (x + na + r1) by lia. apply cont_run_stop. lia.
  Qed.

  Lemma rf_max : Z.max (x + na + r1) (x + na + nb + r2') = x + na + nb + r2.
  Proof. destruct rf_ranges as (Rb & R1 & R2 & R2'). destruct rf_cases as [(C & E)|(C & E & E')]; lia. Qed.

  Lemma rf_overwrite : overwrite st (x + na) cb row' = overwrite st x (ca ++ cb) row.
  Proof.
    assert (Ena : na = zlen ca) by reflexivity. assert (Enb : nb = zlen cb) by reflexivity.
    destruct rf_ranges as (Rb & R1 & R2 & R2'). pose proof rf_row'_len as L'.
    assert (Lab : zlen (ca ++ cb) = na + nb) by (rewrite zlen_app; reflexivity).
    apply (znth_ext _ _ dcell).
    { rewrite !overwrite_len; rewrite ?Lab; lia. }
    intros i Hi. rewrite overwrite_len in Hi by lia.
    rewrite (overwrite_znth st (x + na) cb row') by lia.
    rewrite (overwrite_znth st x (ca ++ cb) row) by (rewrite ?Lab; lia).
    rewrite Lab, rf_edge. fold nb r2'. replace (x + (na + nb)) with (x + na + nb) by lia. fold r2.
    rewrite rf_row'_znth. unfold zin.
    destruct (Z.lt_ge_cases i x) as [H1|H1].
    { zbool. reflexivity. }
    destruct (Z.lt_ge_cases i (x + na)) as [H2|H2].
    { zbool. rewrite znth_app_l by lia. reflexivity. }
    destruct (Z.lt_ge_cases i (x + na + nb)) as [H3|H3].
    { zbool. rewrite znth_app_r by lia. rewrite <- Ena. f_equal. lia. }
    destruct rf_cases as [(C & E)|(C & E & E')].
    - rewrite E. destruct (Z.lt_ge_cases i (x + na + nb + r2)); zbool; reflexivity.
    - rewrite E, E'. destruct (Z.lt_ge_cases i (x + na + r1)); zbool; reflexivity.
  Qed.
End RowFact.

(* ---------- screen level: explicit forms ---------- *)
Definition trg (c : bool) (s : screen) : screen := if c then add_trig trSecondHalf s else s.

Lemma wrc_eq reason x y new s : 0 < zlen new -> 0 <= y < sH s -> 0 <= x -> x + zlen new <= sW s ->
  write_row_cells reason x y new s =
  emit (ERegion (left_edge (row_at s y) x) y (x + zlen new + cont_run (row_at s y) (x + zlen new)) (y + 1) reason)
    (set_rows (zupd y (overwrite (sty s) x new (row_at s y)) (rows s)) (trg (is_cont (znth x (row_at s y) dcell)) s)).
Proof.
  intros Hn Hy Hx Hl. unfold write_row_cells. zbool. unfold trg. destruct (is_cont _); reflexivity.
Qed.

Lemma adv_simple w s : Inv s -> 0 <= w -> cx s + w < sW s ->
  move_cursor w 0 true true s = emit (ECursor (cx s + w) (cy s)) (set_cur (cx s + w) (cy s) s).
Proof.
  intros Hs Hw Hl. pose proof (inv_w s Hs). pose proof (inv_cx s Hs). pose proof (inv_cy s Hs). pose proof (inv_h s Hs).
  unfold move_cursor. cbn [andb].
  assert (M : (cx s + w) mod sW s = cx s + w) by (apply Z.mod_small; lia).
  assert (D : (cx s + w) / sW s = 0) by (apply Z.div_small; lia).
  assert (Cx : clamp (cx s + w) 0 (sW s - 1) = cx s + w) by (apply clamp_id; lia).
  assert (Cy : clamp (cy s) 0 (sH s - 1) = cy s) by (apply clamp_id; lia).
  destruct (awrap s); cbn [fst snd]; rewrite ?M, ?D, ?Cx, ?Z.add_0_r;
    (destruct ((top s <=? cy s) && (cy s <=? bot s)) eqn:E;
     [apply andb_true_iff in E; destruct E as [Ea Eb]; apply Z.leb_le in Ea, Eb;
      destruct (Z.ltb_spec (cy s) (top s)); [lia|]; destruct (Z.ltb_spec (bot s) (cy s)); [lia|]|]);
    rewrite Cy; reflexivity.
Qed.

Lemma scroll_sty y1 y2 dy s : sty (scroll y1 y2 dy s) = sty s.
Proof. unfold scroll. cbv zeta. destruct (_ <? _); [reflexivity|]. destruct (0 <? _); reflexivity. Qed.
Lemma move_cursor_sty dx dy wrap scr s : sty (move_cursor dx dy wrap scr s) = sty s.
Proof.
  unfold move_cursor. cbv zeta. destruct (if wrap && awrap s then _ else _) as [x1 y1].
  destruct (scr && _); [|reflexivity].
  destruct (_ <? top s); [exact (scroll_sty _ _ _ _)|]. destruct (bot s <? _); [exact (scroll_sty _ _ _ _)|reflexivity].
Qed.

Lemma move_cursor_evs dx dy wrap scr s : exists c1 c2 mid, evs (move_cursor dx dy wrap scr s) = ECursor c1 c2 :: mid.
Proof.
  unfold move_cursor. cbv zeta. destruct (if wrap && awrap s then _ else _) as [x1 y1].
  destruct (if scr && _ then _ else _) as [s1 y3]. cbn [evs emit set_evs]. eauto.
Qed.

Lemma scroll_set_cur a b y1 y2 dy x0 y0 s :
  set_cur a b (scroll y1 y2 dy (set_cur x0 y0 s)) = set_cur a b (scroll y1 y2 dy s).
Proof.
  unfold scroll. cbv zeta.
  change (sH (set_cur x0 y0 s)) with (sH s). change (sW (set_cur x0 y0 s)) with (sW s).
  change (rows (set_cur x0 y0 s)) with (rows s). change (sty (set_cur x0 y0 s)) with (sty s).
  destruct (_ <? _); [reflexivity|]. destruct (0 <? _); reflexivity.
Qed.

(* the cursor column before a move only matters through the target column *)
Lemma move_cursor_from x0 y0 dx dx' dy wrap scr s : y0 = cy s -> cx s + dx' = x0 + dx ->
  move_cursor dx dy wrap scr (set_cur x0 y0 s) = move_cursor dx' dy wrap scr s.
Proof.
  intros -> H. unfold move_cursor. cbv zeta.
  change (cx (set_cur x0 (cy s) s)) with x0. change (cy (set_cur x0 (cy s) s)) with (cy s).
  change (sW (set_cur x0 (cy s) s)) with (sW s). change (sH (set_cur x0 (cy s) s)) with (sH s).
  change (awrap (set_cur x0 (cy s) s)) with (awrap s). change (top (set_cur x0 (cy s) s)) with (top s).
  change (bot (set_cur x0 (cy s) s)) with (bot s). rewrite H.
  destruct (if wrap && awrap s then _ else _) as [x1 y1].
  destruct (scr && _); [|reflexivity].
  destruct (_ <? top s); [f_equal; apply scroll_set_cur|]. destruct (bot s <? _); [f_equal; apply scroll_set_cur|reflexivity].
Qed.

Lemma write_glyph_piece txt w s : Inv s -> 1 <= w <= sW s ->
  write_glyph txt w s = write_piece (glyph_cells txt w (sty s)) s.
Proof.
  intros Hs Hw. unfold write_glyph, write_piece. rewrite glyph_cells_len by lia.
  destruct (negb (crash s =? 0)); [reflexivity|].
  cbv zeta. do 3 zbool.
  set (s1 := if sW s <? cx s + w then _ else s).
  assert (E : sty s1 = sty s).
  { subst s1. destruct (_ <? _); [|reflexivity]. destruct (awrap s); [apply move_cursor_sty|reflexivity]. }
  rewrite E. reflexivity.
Qed.

Lemma write_piece_fits cells s : Inv s -> 0 < zlen cells -> cx s + zlen cells <= sW s ->
  write_piece cells s = move_cursor (zlen cells) 0 true true (write_row_cells crText (cx s) (cy s) cells s).
Proof.
  intros Hs Hn Hl. unfold write_piece. rewrite (inv_crash s Hs). cbn [Z.eqb negb].
  destruct (Z.ltb_spec (sW s) (cx s + zlen cells)); [lia|].
  pose proof (inv_cx s Hs). pose proof (inv_cy s Hs).
  destruct (write_row_cells_ok crText (cx s) (cy s) cells s Hs ltac:(lia) ltac:(lia) Hl) as (I2 & _ & _).
  rewrite (inv_crash _ I2). reflexivity.
Qed.

Lemma wg_inside txt w s : Inv s -> 1 <= w -> cx s + w < sW s ->
  let cg := glyph_cells txt w (sty s) in
  wg s (txt, w) = emit (ECursor (cx s + zlen cg) (cy s)) (set_cur (cx s + zlen cg) (cy s)
                     (write_row_cells crText (cx s) (cy s) cg s)).
Proof.
  intros Hs Hw Hl cg. pose proof (inv_cx s Hs) as Hcx. pose proof (inv_cy s Hs) as Hcy.
  assert (L : zlen cg = w) by (apply glyph_cells_len; exact Hw).
  unfold wg. cbn [fst snd]. rewrite write_glyph_piece by (try exact Hs; lia). fold cg.
  rewrite write_piece_fits by (try exact Hs; lia).
  destruct (write_row_cells_ok crText (cx s) (cy s) cg s Hs Hcy ltac:(lia) ltac:(lia)) as (I2 & W2 & _).
  destruct (write_row_cells_rows crText (cx s) (cy s) cg s Hs Hcy ltac:(lia) ltac:(lia) ltac:(lia)) as (_ & X2 & Y2 & _).
  rewrite adv_simple by (try exact I2; rewrite ?X2, ?W2; lia). rewrite X2, Y2. reflexivity.
Qed.

(* ---------- same screen, logs equal up to coalescing ---------- *)
Definition Req (a b : screen) : Prop := set_evs [] a = set_evs [] b /\ log_eq (evs b) (evs a).

Lemma Req_refl a : Req a a.
Proof. split; [reflexivity|apply le_refl]. Qed.
Lemma Req_trans a b c : Req a b -> Req b c -> Req a c.
Proof. intros [E1 L1] [E2 L2]. split; [congruence|]. eapply le_trans; eassumption. Qed.

Lemma trg_fields c s :
  rows (trg c s) = rows s /\ sty (trg c s) = sty s /\ cx (trg c s) = cx s /\ cy (trg c s) = cy s /\ evs (trg c s) = evs s.
Proof. destruct c; repeat split. Qed.

(* a piece written right after another one, at the cell where that one ended, is one piece *)
Lemma merge2 ca cb s : Inv s -> 0 < zlen ca -> 0 < zlen cb -> cx s + zlen ca + zlen cb <= sW s ->
  let s1 := emit (ECursor (cx s + zlen ca) (cy s))
              (set_cur (cx s + zlen ca) (cy s) (write_row_cells crText (cx s) (cy s) ca s)) in
  Req (write_piece cb s1) (write_piece (ca ++ cb) s).
Proof.
  intros Hs Ha Hb Hl s1.
  pose proof (inv_cx s Hs) as Hcx. pose proof (inv_cy s Hs) as Hcy.
  pose proof (row_at_len s (cy s) Hs Hcy) as Hrow. pose proof (inv_rows s Hs) as Hrows.
  assert (Lab : zlen (ca ++ cb) = zlen ca + zlen cb) by apply zlen_app.
  destruct (write_row_cells_ok crText (cx s) (cy s) ca s Hs Hcy ltac:(lia) ltac:(lia)) as (IX & WX & HX).
  assert (I1 : Inv s1).
  { subst s1. apply Inv_emit, Inv_set_cur; [exact IX|rewrite WX; lia|rewrite HX; lia]. }
  assert (W1 : sW s1 = sW s) by exact WX. assert (H1 : sH s1 = sH s) by exact HX.
  assert (X1 : cx s1 = cx s + zlen ca) by reflexivity. assert (Y1 : cy s1 = cy s) by reflexivity.
  rewrite (write_piece_fits cb s1 I1 Hb) by (rewrite X1, W1; lia).
  rewrite (write_piece_fits (ca ++ cb) s Hs) by (rewrite Lab; lia).
  rewrite X1, Y1.
  set (x := cx s) in *. set (y := cy s) in *. set (row := row_at s y) in *. set (st := sty s).
  set (row' := overwrite st x ca row).
  set (c0 := is_cont (znth x row dcell)).
  destruct (trg_fields c0 s) as (TR & TS & TX & TY & TE).
  (* the state after the first piece and the announcement of its cursor *)
  assert (E1 : s1 = emit (ECursor (x + zlen ca) y) (set_cur (x + zlen ca) y
                 (emit (ERegion (left_edge row x) y (x + zlen ca + cont_run row (x + zlen ca)) (y + 1) crText)
                    (set_rows (zupd y row' (rows s)) (trg c0 s))))).
  { subst s1. rewrite (wrc_eq crText x y ca s) by lia. reflexivity. }
  assert (R1 : rows s1 = zupd y row' (rows s)) by (rewrite E1; reflexivity).
  assert (S1 : sty s1 = st) by (rewrite E1; exact TS).
  assert (Ro1 : row_at s1 y = row') by (unfold row_at; rewrite R1; apply znth_zupd_same; lia).
  pose proof (rf_head st x ca cb row ltac:(lia) Ha Hb ltac:(lia)) as Fh. fold row' in Fh.
  pose proof (rf_edge st x ca cb row ltac:(lia) Ha Hb ltac:(lia)) as Fe. fold row' in Fe.
  pose proof (rf_overwrite st x ca cb row ltac:(lia) Ha Hb ltac:(lia)) as Fo. fold row' in Fo.
  pose proof (rf_max st x ca cb row ltac:(lia) Ha Hb ltac:(lia)) as Fm. fold row' in Fm.
  destruct (rf_ranges st x ca cb row ltac:(lia) Ha Hb ltac:(lia)) as (Rb & Rr1 & Rr2 & Rr2'). fold row' in Rr2'.
  set (YB := write_row_cells crText x y (ca ++ cb) s).
  set (Z0 := set_evs [] YB).
  set (RB := ERegion (left_edge row x) y (x + zlen ca + zlen cb + cont_run row (x + zlen ca + zlen cb)) (y + 1) crText).
  assert (KB : YB = app_evs (RB :: evs s) Z0).
  { subst Z0. rewrite (app_evs_self YB) at 1. f_equal. subst YB.
    rewrite (wrc_eq crText x y (ca ++ cb) s) by lia. fold row st c0. rewrite Lab.
    cbn [evs emit set_evs set_rows]. rewrite TE. subst RB. rewrite Z.add_assoc. reflexivity. }
  set (R2 := ERegion (x + zlen ca) y (x + zlen ca + zlen cb + cont_run row' (x + zlen ca + zlen cb)) (y + 1) crText).
  set (C1 := ECursor (x + zlen ca) y).
  set (R1e := ERegion (left_edge row x) y (x + zlen ca + cont_run row (x + zlen ca)) (y + 1) crText).
  assert (KA : write_row_cells crText (x + zlen ca) y cb s1 = app_evs (R2 :: C1 :: R1e :: evs s) (set_cur (x + zlen ca) y Z0)).
  { rewrite (wrc_eq crText (x + zlen ca) y cb s1) by lia.
    rewrite Ro1, S1, R1, Fh, Fe, Fo, zupd_twice. unfold trg at 1. fold R2.
    subst Z0 YB. rewrite (wrc_eq crText x y (ca ++ cb) s) by lia. fold row st c0.
    rewrite E1. fold C1 R1e.
    unfold app_evs, emit, set_rows, set_cur, set_evs. sfields. rewrite TE. unfold trg. destruct c0; reflexivity. }
  rewrite KA. fold YB. rewrite KB.
  rewrite (EvFrame_move_cursor (zlen cb) 0 true true (R2 :: C1 :: R1e :: evs s) (set_cur (x + zlen ca) y Z0)).
  rewrite (EvFrame_move_cursor (zlen (ca ++ cb)) 0 true true (RB :: evs s) Z0).
  assert (XZ : cx Z0 = x /\ cy Z0 = y).
  { subst Z0 YB. rewrite (wrc_eq crText x y (ca ++ cb) s) by lia. cbn [cx cy emit set_evs set_rows]. split; assumption. }
  destruct XZ as (XZ & YZ).
  rewrite (move_cursor_from (x + zlen ca) y (zlen cb) (zlen (ca ++ cb)) 0 true true Z0) by (rewrite ?XZ, ?YZ, ?Lab; lia).
  set (M := move_cursor (zlen (ca ++ cb)) 0 true true Z0).
  destruct (move_cursor_evs (zlen (ca ++ cb)) 0 true true Z0) as (c1 & c2 & mid & EM). fold M in EM.
  split; [reflexivity|].
  rewrite !app_evs_evs, EM.
  change (RB :: evs s) with ([RB] ++ evs s). change (R2 :: C1 :: R1e :: evs s) with ([R2; C1; R1e] ++ evs s).
  rewrite !app_assoc. apply le_app; [|apply le_refl].
  rewrite <- !app_comm_cons. apply le_sym. subst RB. rewrite <- Fm. apply le_merge. lia.
Qed.

Lemma gcells_cl_len st cls :
  Forall (fun p : list Z * Z => 1 <= snd p) cls -> zlen (gcells_cl st cls) = cls_width cls.
Proof.
  induction 1 as [|[c w] cls Hc _ IH]; [reflexivity|].
  change (gcells_cl st ((c, w) :: cls)) with (glyph_cells c w st ++ gcells_cl st cls).
  cbn [cls_width snd] in *. rewrite zlen_app, glyph_cells_len by exact Hc. rewrite IH. reflexivity.
Qed.

Lemma cls_width_pos cls :
  Forall (fun p : list Z * Z => 1 <= snd p) cls -> cls <> [] -> 1 <= cls_width cls.
Proof.
  intros H Hne. destruct H as [|[c w] cls Hc Hcls]; [congruence|].
  pose proof (gcells_cl_len default_style cls Hcls) as L. pose proof (zlen_nonneg (gcells_cl default_style cls)) as N.
  change (cls_width ((c, w) :: cls)) with (w + cls_width cls). cbn [snd] in Hc. lia.
Qed.

Lemma fits_glyphs cls : forall s,
  Inv s -> cls <> [] -> Forall (fun p : list Z * Z => 1 <= snd p) cls -> cx s + cls_width cls <= sW s ->
  Req (fold_left wg cls s) (write_piece (gcells_cl (sty s) cls) s).
Proof.
  induction cls as [|g q IH]; intros s Hs Hne Hw Hfit; [congruence|].
  inversion Hw as [|? ? Hg Hq]; subst. destruct g as [txt w]. cbn [snd cls_width] in Hg, Hfit.
  pose proof (inv_cx s Hs) as Hcx. pose proof (inv_cy s Hs) as Hcy.
  change (gcells_cl (sty s) ((txt, w) :: q)) with (glyph_cells txt w (sty s) ++ gcells_cl (sty s) q).
  cbn [fold_left].
  destruct q as [|g' q'].
  - cbn [cls_width] in Hfit. cbn [fold_left gcells_cl flat_map]. rewrite app_nil_r. unfold wg. cbn [fst snd].
    rewrite write_glyph_piece by (try exact Hs; lia). apply Req_refl.
  - set (q := g' :: q') in *.
    assert (Hqw : 1 <= cls_width q) by (apply cls_width_pos; [exact Hq|discriminate]).
    pose proof (wg_inside txt w s Hs Hg ltac:(lia)) as E1. cbv zeta in E1.
    set (cg := glyph_cells txt w (sty s)) in *.
    assert (Lg : zlen cg = w) by (apply glyph_cells_len; exact Hg).
    assert (Lq : zlen (gcells_cl (sty s) q) = cls_width q) by (apply gcells_cl_len; exact Hq).
    destruct (Pres_write_glyph txt w s Hs) as (I1 & W1 & _). change (write_glyph txt w s) with (wg s (txt, w)) in I1, W1.
    destruct (write_row_cells_rows crText (cx s) (cy s) cg s Hs Hcy ltac:(lia) ltac:(lia) ltac:(lia))
      as (_ & _ & _ & (_ & _ & _ & _ & _ & _ & _ & S2 & _)).
    assert (S1 : sty (wg s (txt, w)) = sty s) by (rewrite E1; exact S2).
    assert (X1 : cx (wg s (txt, w)) = cx s + w) by (rewrite E1, <- Lg; reflexivity).
    eapply Req_trans.
    + apply IH; [exact I1|discriminate|exact Hq|rewrite X1, W1; lia].
    + rewrite S1, E1. apply merge2; [exact Hs|lia|lia|lia].
Qed.

(* MAIN THEOREM *)
Theorem write_piece_glyphs : forall cls s,
  Inv s -> cls <> [] -> Forall (fun p : list Z * Z => 1 <= snd p) cls ->
  (cx s + cls_width cls <= sW s \/ (exists p, cls = [p] /\ snd p <= sW s)) ->
  let a := fold_left wg cls s in
  let b := write_piece (gcells_cl (sty s) cls) s in
  set_evs [] a = set_evs [] b /\ log_eq (evs b) (evs a).
Proof.
  intros cls s Hs Hne Hw [Hfit|(p & -> & Hp)] a b.
  - exact (fits_glyphs cls s Hs Hne Hw Hfit).
  - subst a b. inversion Hw as [|? ? Hg _]; subst. destruct p as [txt w]. cbn [snd] in *.
    cbn [fold_left gcells_cl flat_map fst snd]. rewrite app_nil_r. unfold wg. cbn [fst snd].
    rewrite write_glyph_piece by (try exact Hs; lia). split; [reflexivity|apply le_refl].
Qed.
