(* C11, TTY mirror, row part of one repaint (helper file of TtyRegionProofs.v).

   (A) the bytes renderStyledLineANSI(StyledLine(x, w, y)) produces for a
       sub-range of a renderable row that no edge of the range cuts a wide glyph
       of: they are ANSILine of the cells of the sub-range;
   (B) the generalisation of the row round trip of RenderProofs.v from "row that
       holds no wide glyph" to "any row": one glyph written over arbitrary cells
       with autowrap off, then the induction along the cells of the sub-range.
       What lies behind the written part is described by [covers]: the
       continuation cells of a glyph whose head has been overwritten are blanks,
       everything after them is untouched. *)
From Coq Require Import List ZArith Bool Lia.
From Termemu Require Import Base Style Screen Kbd Parser Term Render BaseLemmas ScreenInv TermInv ParserProofs HistProofs
  SgrSpec StyleProofs SgrProofs StampProofs EscapeProofs RenderProofs GlyphInv TtyFrontend.
Import ListNotations.
Open Scope Z_scope.

(* ================================================================== *)
(* (A) the bytes of a sub-range                                         *)
(* ================================================================== *)

Lemma drop_conts_head c l : is_cont c = false -> drop_conts (c :: l) = c :: l.
Proof. intros H. cbn [drop_conts]. rewrite H. reflexivity. Qed.

Lemma zskipn_head {A} (l : list A) x d : 0 <= x < zlen l ->
  exists r, zskipn x l = znth x l d :: r.
Proof.
  intros H. unfold zskipn, znth. destruct (Z.ltb_spec x 0); [lia|].
  assert (L : (Z.to_nat x < length l)%nat) by (unfold zlen in H; lia).
  clear H. revert L. generalize (Z.to_nat x) as n. intros n. revert l.
  induction n as [|n IH]; intros l L; destruct l as [|a l]; cbn [length] in L; try lia.
  - exists l. reflexivity.
  - cbn [skipn nth]. apply IH. lia.
Qed.

(* neither edge of [x, x+w) cuts a glyph: StyledLine looks at exactly the cells of the range *)
Lemma sub_cells_nocut grid x w row : 0 <= x -> cut_glyph x w row = false ->
  sub_cells grid x w row = zfirstn w (zskipn x row).
Proof.
  intros Hx Hc. unfold sub_cells. destruct grid; [reflexivity|].
  destruct (Z.ltb_spec 0 w) as [Hw|Hw].
  2:{ unfold zfirstn. replace (Z.to_nat w) with 0%nat by lia. reflexivity. }
  unfold cut_glyph in Hc. destruct (Z.ltb_spec 0 w); [|lia]. cbn [andb] in Hc.
  apply orb_false_iff in Hc. destruct Hc as (C1 & C2).
  assert (D : drop_conts (zfirstn w (zskipn x row)) = zfirstn w (zskipn x row)).
  { destruct (Z.lt_ge_cases x (zlen row)) as [Hl|Hl].
    - destruct (zskipn_head row x dcell ltac:(lia)) as (r & E). rewrite E.
      unfold zfirstn. destruct (Z.to_nat w) as [|n] eqn:En; [lia|]. cbn [firstn]. apply drop_conts_head, C1.
    - assert (E : zskipn x row = []) by (unfold zskipn; apply skipn_all2; unfold zlen in Hl; lia).
      rewrite E. unfold zfirstn. rewrite firstn_nil. reflexivity. }
  rewrite D.
  destruct (0 <? zlen (zfirstn w (zskipn x row))); [|reflexivity]. cbn [andb].
  rewrite andb_comm, C2. reflexivity.
Qed.

Section Bytes.
  Variable wc : Z -> Z.

  Notation rrow := (renderable wc).

  (* splitting a renderable row at a glyph boundary (RenderInv.rrow_split, without its section hypotheses) *)
  Lemma conts_are_conts_ st n : Forall (fun c => is_cont c = true) (zrepeat (contc st) n).
  Proof. apply Forall_zrepeat. reflexivity. Qed.

  Lemma rrow_split_ row : rrow row -> forall k, boundary_nat row k ->
    rrow (firstn k row) /\ rrow (skipn k row).
  Proof.
    induction 1 as [|txt r st rest Ht Hs Hr IH]; intros k Hb.
    - rewrite firstn_nil, skipn_nil. split; constructor.
    - destruct k as [|k]; [cbn [firstn skipn]; split; [constructor|constructor; assumption]|].
      unfold glyph_cells in *. cbn [app firstn skipn].
      set (conts := zrepeat (contc st) (glyph_width (wc r) - 1)) in *.
      pose proof (conts_are_conts_ st (glyph_width (wc r) - 1)) as Hc. fold conts in Hc.
      destruct (Nat.lt_ge_cases k (length conts)) as [Hlt|Hge].
      + exfalso. destruct Hb as [Hb|Hb].
        * cbn [app length] in Hb. rewrite app_length in Hb. lia.
        * cbn [app nth] in Hb. rewrite (nth_conts conts rest k Hc Hlt) in Hb. discriminate.
      + assert (Hb' : boundary_nat rest (k - length conts)).
        { destruct Hb as [Hb|Hb].
          - left. cbn [app length] in Hb. rewrite app_length in Hb. lia.
          - right. cbn [app nth] in Hb. rewrite app_nth2 in Hb by lia. exact Hb. }
        destruct (IH _ Hb') as (I1 & I2).
        rewrite firstn_app, skipn_app.
        rewrite (firstn_all2 conts) by lia. rewrite (skipn_all2 conts) by lia. cbn [app].
        split; [|exact I2].
        change (mkCell txt (glyph_width (wc r)) st :: conts ++ firstn (k - length conts) rest)
          with (glyph_cells txt (glyph_width (wc r)) st ++ firstn (k - length conts) rest).
        constructor; assumption.
  Qed.

  Lemma rrow_zsplit_ row k : rrow row -> boundary row k ->
    rrow (zfirstn k row) /\ rrow (zskipn k row).
  Proof.
    intros Hr Hb. unfold zfirstn, zskipn. destruct (Z.le_gt_cases k 0) as [Hk|Hk].
    - replace (Z.to_nat k) with 0%nat by lia. cbn. split; [constructor|exact Hr].
    - apply rrow_split_; [exact Hr|]. destruct Hb as [Hb|[Hb|Hb]]; [lia| |].
      + left. unfold zlen in Hb. lia.
      + right. unfold znth in Hb. destruct (Z.ltb_spec k 0); [lia|exact Hb].
  Qed.

  (* the cells of a range that cuts no glyph are a renderable list *)
  Lemma rrow_sub x w row : rrow row -> 0 <= x -> cut_glyph x w row = false ->
    rrow (zfirstn w (zskipn x row)).
  Proof.
    intros Hr Hx Hc. destruct (Z.ltb_spec 0 w) as [Hw|Hw].
    2:{ unfold zfirstn. replace (Z.to_nat w) with 0%nat by lia. constructor. }
    unfold cut_glyph in Hc. destruct (Z.ltb_spec 0 w); [|lia]. cbn [andb] in Hc.
    apply orb_false_iff in Hc. destruct Hc as (C1 & C2).
    assert (B1 : boundary row x) by (right; right; exact C1).
    destruct (rrow_zsplit_ row x Hr B1) as (_ & R1).
    assert (B2 : boundary (zskipn x row) w).
    { destruct (Z.ltb_spec (x + w) (zlen row)) as [Hl|Hl].
      - right. right. rewrite znth_zskipn by lia. replace (w + x) with (x + w) by lia. exact C2.
      - right. left. rewrite zlen_zskipn. lia. }
    apply (rrow_zsplit_ _ w R1 B2).
  Qed.

  (* ---- group_runs of a renderable list renders like render_from ---- *)
  Lemma group_runs_prefix st cs1 rest :
    cs1 <> [] -> Forall (fun c => cst c = st) cs1 ->
    group_runs (cs1 ++ rest) =
      match group_runs rest with
      | (st', cs) :: more => if style_eqb st st' then (st', cs1 ++ cs) :: more else (st, cs1) :: (st', cs) :: more
      | [] => [(st, cs1)]
      end.
  Proof.
    induction cs1 as [|c cs1 IH]; intros Hne Hall; [congruence|].
    pose proof (Forall_inv Hall) as Hc. pose proof (Forall_inv_tail Hall) as Hall'. cbv beta in Hc.
    cbn [app group_runs].
    destruct cs1 as [|d cs1].
    - cbn [app]. rewrite Hc. destruct (group_runs rest) as [|[st' cs] more]; [reflexivity|].
      destruct (style_eqb st st'); reflexivity.
    - rewrite IH by (try discriminate; exact Hall'). rewrite Hc.
      destruct (group_runs rest) as [|[st' cs] more].
      + rewrite style_eqb_refl. reflexivity.
      + destruct (style_eqb st st') eqn:E.
        * rewrite E. reflexivity.
        * rewrite style_eqb_refl. reflexivity.
  Qed.

  Lemma glyph_cells_style txt w st : Forall (fun c => cst c = st) (glyph_cells txt w st).
  Proof. unfold glyph_cells. constructor; [reflexivity|]. apply Forall_zrepeat. reflexivity. Qed.

  Lemma glyph_cells_text txt w st : cells_text (glyph_cells txt w st) = txt.
  Proof.
    unfold cells_text, glyph_cells. cbn [flat_map ctext].
    assert (E : flat_map ctext (zrepeat (contc st) (w - 1)) = []).
    { unfold zrepeat. induction (Z.to_nat (w - 1)) as [|n IH]; [reflexivity|]. cbn [repeat flat_map contc ctext app]. exact IH. }
    rewrite E. apply app_nil_r.
  Qed.

  Lemma run_text_nonempty grid cs : cells_text cs <> [] -> run_text true grid cs = cells_text cs.
  Proof.
    intros H. unfold run_text. cbn [negb]. rewrite andb_false_r. cbn [andb].
    destruct (cells_text cs); [congruence|reflexivity].
  Qed.

  Lemma glyph_text_nonempty txt r : glyph_text txt r -> txt <> [].
  Proof. intros (_ & b & l & E & _). rewrite E. discriminate. Qed.

  (* the head run of a non-empty renderable list: its style is the first glyph's,
     and rendering the runs is the escape followed by what render_from writes in that style *)
  Lemma render_groups grid l : rrow l ->
    match l with
    | [] => group_runs l = []
    | c :: _ =>
        exists cs more, group_runs l = (cst c, cs) :: more /\ cells_text cs <> [] /\
          cells_text cs ++ flat_map (render_run true grid) more = render_from (Some (cst c)) l
    end.
  Proof.
    induction 1 as [|txt r st rest Ht Hs Hr IH]; [reflexivity|].
    pose proof (glyph_text_nonempty txt r Ht) as Hne.
    change (match glyph_cells txt (glyph_width (wc r)) st ++ rest with [] => _ | c :: _ => _ end)
      with (exists cs more, group_runs (glyph_cells txt (glyph_width (wc r)) st ++ rest) = (st, cs) :: more /\
              cells_text cs <> [] /\
              cells_text cs ++ flat_map (render_run true grid) more
                = render_from (Some st) (glyph_cells txt (glyph_width (wc r)) st ++ rest)).
    rewrite render_glyph_cells. rewrite style_eqb_refl. cbn [app].
    rewrite (group_runs_prefix st) by (try apply glyph_cells_style; unfold glyph_cells; discriminate).
    destruct rest as [|c rest'].
    - cbn [group_runs]. exists (glyph_cells txt (glyph_width (wc r)) st), []. split; [reflexivity|].
      rewrite glyph_cells_text. split; [exact Hne|]. cbn [flat_map render_from]. reflexivity.
    - destruct IH as (cs & more & E & Hcs & Hrender). rewrite E.
      destruct (style_eqb st (cst c)) eqn:Est.
      + apply style_eqb_eq in Est. subst st.
        exists (glyph_cells txt (glyph_width (wc r)) (cst c) ++ cs), more. split; [reflexivity|].
        unfold cells_text in *. rewrite flat_map_app. fold (cells_text (glyph_cells txt (glyph_width (wc r)) (cst c))).
        rewrite glyph_cells_text. split; [destruct txt; [congruence|discriminate]|].
        rewrite <- app_assoc. f_equal. exact Hrender.
      + exists (glyph_cells txt (glyph_width (wc r)) st), ((cst c, cs) :: more). split; [reflexivity|].
        rewrite glyph_cells_text. split; [exact Hne|]. f_equal.
        cbn [flat_map]. unfold render_run at 1. cbn [fst snd]. rewrite run_text_nonempty by exact Hcs.
        rewrite <- app_assoc. rewrite Hrender.
        (* render_from (Some st) (c :: rest') with st <> cst c starts with the escape *)
        cbn [render_from]. rewrite Est. rewrite style_eqb_refl. cbn [app]. reflexivity.
  Qed.

  Theorem render_groups_line grid l : rrow l ->
    flat_map (render_run true grid) (group_runs l) = render_line_ansi l.
  Proof.
    intros Hr. pose proof (render_groups grid l Hr) as H. destruct l as [|c l'].
    - rewrite H. reflexivity.
    - destruct H as (cs & more & E & Hcs & Hrender). rewrite E. cbn [flat_map].
      unfold render_run at 1. cbn [fst snd]. rewrite run_text_nonempty by exact Hcs.
      rewrite <- app_assoc, Hrender. unfold render_line_ansi. cbn [render_from].
      rewrite style_eqb_refl. reflexivity.
  Qed.

  (* the bytes of StyledLine(x, w, y) of the repaired frontend, either buffer kind *)
  Theorem styled_line_bytes grid x w row : rrow row -> 0 <= x -> cut_glyph x w row = false ->
    render_styled_line true grid x w row = render_line_ansi (zfirstn w (zskipn x row)).
  Proof.
    intros Hr Hx Hc. unfold render_styled_line, styled_line. rewrite sub_cells_nocut by assumption.
    apply render_groups_line. apply rrow_sub; assumption.
  Qed.
End Bytes.

(* ================================================================== *)
(* (B) writing over arbitrary cells                                     *)
(* ================================================================== *)

(* the leading continuation cells of [l] (the rest of a glyph whose head is gone) become blanks *)
Definition unhalf (st : style) (l : list cell) : list cell :=
  repeat (blank st) (cont_prefix l) ++ skipn (cont_prefix l) l.

Definition blankish (c : cell) : Prop := ctext c = [32] /\ cwid c = 1.

(* [T] is [O] with its leading continuation cells replaced by blanks (of whatever style) *)
Definition covers (T O : list cell) : Prop :=
  exists N, T = N ++ skipn (cont_prefix O) O /\ length N = cont_prefix O /\ Forall blankish N.

Lemma blankish_noncont c : blankish c -> is_cont c = false.
Proof. intros (_ & H). unfold is_cont. rewrite H. reflexivity. Qed.

Lemma blankish_blank st : blankish (blank st).
Proof. split; reflexivity. Qed.

Lemma cont_prefix_skipn_self l : cont_prefix (skipn (cont_prefix l) l) = 0%nat.
Proof.
  induction l as [|c l IH]; [reflexivity|]. cbn [cont_prefix]. destruct (is_cont c) eqn:E.
  - cbn [skipn]. exact IH.
  - cbn [skipn cont_prefix]. rewrite E. reflexivity.
Qed.

Lemma covers_head T O : covers T O -> cont_prefix T = 0%nat.
Proof.
  intros (N & -> & _ & HN). destruct N as [|c N]; [apply cont_prefix_skipn_self|].
  cbn [app cont_prefix]. rewrite (blankish_noncont c (Forall_inv HN)). reflexivity.
Qed.

Lemma covers_len T O : covers T O -> length T = length O.
Proof.
  intros (N & -> & L & _). rewrite app_length, skipn_length, L. pose proof (cont_prefix_le O). lia.
Qed.

Lemma covers_zlen T O : covers T O -> zlen T = zlen O.
Proof. intros H. unfold zlen. rewrite (covers_len T O H). reflexivity. Qed.

Lemma covers_self O : cont_prefix O = 0%nat -> covers O O.
Proof. intros H. exists []. rewrite H. cbn [skipn app length]. repeat split. constructor. Qed.

Lemma covers_unhalf st X : covers (unhalf st X) X.
Proof.
  exists (repeat (blank st) (cont_prefix X)). split; [reflexivity|]. split; [apply repeat_length|].
  induction (cont_prefix X) as [|n IH]; cbn [repeat]; constructor; [apply blankish_blank|exact IH].
Qed.

Lemma unhalf_id st l : cont_prefix l = 0%nat -> unhalf st l = l.
Proof. intros H. unfold unhalf. rewrite H. reflexivity. Qed.

(* nothing to repair behind the write: the cells behind it are untouched *)
Lemma covers_exact T O : covers T O -> cont_prefix O = 0%nat -> T = O.
Proof. intros (N & -> & L & _) H. rewrite H in L. rewrite H. destruct N; [reflexivity|discriminate]. Qed.

Lemma cont_prefix_skipn_le w : forall O, (w <= cont_prefix O)%nat ->
  cont_prefix (skipn w O) = (cont_prefix O - w)%nat.
Proof.
  induction w as [|w IH]; intros O H; [cbn [skipn]; lia|].
  destruct O as [|c O]; [cbn in H; lia|]. cbn [cont_prefix] in *. destruct (is_cont c); [|lia].
  cbn [skipn]. rewrite IH by lia. lia.
Qed.

Lemma covers_step st w T O : covers T O -> covers (unhalf st (skipn w T)) (skipn w O).
Proof.
  intros (N & -> & L & HN). set (m := cont_prefix O) in *.
  destruct (Nat.le_gt_cases w m) as [Hw|Hw].
  - assert (C : covers (skipn w N ++ skipn m O) (skipn w O)).
    { exists (skipn w N). rewrite cont_prefix_skipn_le by exact Hw. fold m.
      rewrite skipn_skipn_. replace (w + (m - w))%nat with m by lia.
      split; [reflexivity|]. split; [rewrite skipn_length; lia|].
      rewrite <- (firstn_skipn w N) in HN. apply Forall_app in HN. tauto. }
    rewrite skipn_app. replace (w - length N)%nat with 0%nat by lia. cbn [skipn].
    rewrite unhalf_id by (eapply covers_head, C). exact C.
  - rewrite skipn_app. rewrite (skipn_all2 N) by lia. cbn [app].
    rewrite skipn_skipn_. replace (m + (w - length N))%nat with w by lia. apply covers_unhalf.
Qed.

Lemma cont_prefix_0_head T : cont_prefix T = 0%nat -> 0 < zlen T -> is_cont (znth 0 T dcell) = false.
Proof.
  intros H L. destruct T as [|c T]; [unfold zlen in L; cbn [length] in L; lia|]. rewrite znth_cons_0.
  cbn [cont_prefix] in H. destruct (is_cont c); [discriminate|reflexivity].
Qed.

Lemma zskipn_app_plus {A} (a b : list A) n : 0 <= n -> zskipn (zlen a + n) (a ++ b) = zskipn n b.
Proof.
  intros H. unfold zskipn, zlen. rewrite skipn_app. rewrite skipn_all2 by lia. cbn [app]. f_equal. lia.
Qed.

(* ---- the saved cursor is not touched by writing ---- *)
Lemma saved_scroll y1 y2 dy s : svx (scroll y1 y2 dy s) = svx s /\ svy (scroll y1 y2 dy s) = svy s.
Proof.
  unfold scroll. cbv zeta.
  repeat match goal with |- context [if ?c then _ else _] => destruct c end; split; reflexivity.
Qed.

Lemma saved_move_cursor dx dy wrap scr s :
  svx (move_cursor dx dy wrap scr s) = svx s /\ svy (move_cursor dx dy wrap scr s) = svy s.
Proof.
  unfold move_cursor. destruct (if wrap && awrap s then _ else _) as [x1 y1].
  destruct (scr && _).
  - destruct (_ <? top s); [|destruct (bot s <? _)];
      cbn [svx svy emit set_cur set_evs]; try (split; reflexivity); apply saved_scroll.
  - cbn [svx svy emit set_cur set_evs]. split; reflexivity.
Qed.

Lemma saved_write_row_cells reason x y new s :
  svx (write_row_cells reason x y new s) = svx s /\ svy (write_row_cells reason x y new s) = svy s.
Proof.
  unfold write_row_cells. destruct (zlen new <=? 0); [split; reflexivity|].
  destruct (_ || _); [split; reflexivity|]. destruct (is_cont _); split; reflexivity.
Qed.

(* ---------- one glyph onto arbitrary cells, autowrap off ---------- *)
Lemma write_glyph_over txt w s front T :
  Inv s -> awrap s = false -> 1 <= w ->
  row_at s (cy s) = front ++ T -> cx s = zlen front -> w <= zlen T -> cont_prefix T = 0%nat ->
  let s' := write_glyph txt w s in
  Inv s' /\ sW s' = sW s /\ sH s' = sH s /\ awrap s' = false /\ sty s' = sty s /\ cy s' = cy s /\
  cx s' = Z.min (zlen front + w) (sW s - 1) /\
  row_at s' (cy s) = (front ++ glyph_cells txt w (sty s)) ++ unhalf (sty s) (zskipn w T) /\
  (forall y', y' <> cy s -> row_at s' y' = row_at s y') /\
  svx s' = svx s /\ svy s' = svy s.
Proof.
  intros I A Hw Hrow Hcx Hlen HT s'.
  pose proof (Pres_write_glyph txt w s I) as (I' & W' & H'). fold s' in I', W', H'.
  pose proof (inv_cy s I) as Cy. pose proof (inv_cx s I) as Cx. pose proof (inv_rows s I) as Rl.
  pose proof (row_at_len s (cy s) I Cy) as RL. rewrite Hrow, zlen_app in RL.
  pose proof (zlen_nonneg front).
  assert (X : cx s + w <= sW s) by lia.
  assert (GL : zlen (glyph_cells txt w (sty s)) = w) by (apply glyph_cells_len; lia).
  destruct (write_row_cells_ok crText (cx s) (cy s) (glyph_cells txt w (sty s)) s I Cy ltac:(lia) ltac:(lia))
    as (I2 & W2 & Hh2).
  destruct (write_row_cells_row crText (cx s) (cy s) (glyph_cells txt w (sty s)) s ltac:(lia) Cy Rl ltac:(lia) ltac:(lia))
    as (Ry & Ro).
  destruct (saved_write_row_cells crText (cx s) (cy s) (glyph_cells txt w (sty s)) s) as (SX2 & SY2).
  set (s2 := write_row_cells crText (cx s) (cy s) (glyph_cells txt w (sty s)) s) in *.
  assert (WG : s' = move_cursor w 0 true true s2).
  { subst s'. unfold write_glyph. cbv zeta. rewrite (inv_crash s I). cbn [Z.eqb negb].
    assert (E1 : (w <? 1) = false) by (apply Z.ltb_ge; lia).
    assert (E2 : (sW s <? w) = false) by (apply Z.ltb_ge; lia).
    assert (E3 : (sW s <? cx s + w) = false) by (apply Z.ltb_ge; lia).
    rewrite E1. cbv iota. repeat (rewrite E2; cbv iota). repeat (rewrite E3; cbv iota).
    fold s2. rewrite (inv_crash s2 I2). reflexivity. }
  clearbody s'. subst s'.
  assert (A2 : awrap s2 = false).
  { subst s2. unfold write_row_cells. destruct (_ <=? 0); [exact A|]. destruct (_ || _); [exact A|].
    destruct (is_cont _); exact A. }
  assert (C2 : cx s2 = cx s /\ cy s2 = cy s).
  { subst s2. unfold write_row_cells. destruct (_ <=? 0); [auto|]. destruct (_ || _); [auto|].
    destruct (is_cont _); auto. }
  destruct C2 as (Cx2 & Cy2).
  pose proof (write_row_cells_sty crText (cx s) (cy s) (glyph_cells txt w (sty s)) s) as S2. fold s2 in S2.
  destruct (move_cursor_stay (fun z => z) w s2 I2 A2) as (M1 & M2 & M3 & M4 & M5).
  destruct (saved_move_cursor w 0 true true s2) as (SX3 & SY3).
  split; [exact I'|]. split; [exact W'|]. split; [exact H'|]. split; [exact M5|].
  split; [congruence|]. split; [congruence|]. split.
  { rewrite M2, Cx2, W2, Hcx. rewrite clamp_spec by lia. lia. }
  assert (RA : forall y', row_at (move_cursor w 0 true true s2) y' = row_at s2 y') by (intros; unfold row_at; rewrite M1; reflexivity).
  split; [|split; [intros y' N; rewrite RA; apply Ro, N|split; congruence]].
  rewrite RA, Ry, Hrow. unfold overwrite. rewrite GL.
  destruct (Z.eqb_spec w 0); [lia|].
  assert (Hd : znth (cx s) (front ++ T) dcell = znth 0 T dcell).
  { rewrite znth_app_r by lia. f_equal. lia. }
  assert (T0 : is_cont (znth 0 T dcell) = false) by (apply cont_prefix_0_head; [exact HT|lia]).
  unfold left_edge. rewrite Hd, T0.
  assert (CR : cont_run (front ++ T) (cx s + w) = Z.of_nat (cont_prefix (zskipn w T))).
  { unfold cont_run. rewrite Hcx. rewrite zskipn_app_plus by lia. reflexivity. }
  rewrite CR, Z.sub_diag. change (zrepeat (blank (sty s)) 0) with (@nil cell). cbn [app].
  rewrite Hcx, zfirstn_app_exact. set (k := cont_prefix (zskipn w T)).
  replace (zlen front + w + Z.of_nat k) with (zlen front + (w + Z.of_nat k)) by lia.
  rewrite zskipn_app_plus by lia.
  rewrite <- app_assoc. f_equal. f_equal. unfold unhalf. fold k. f_equal.
  - unfold zrepeat. rewrite Nat2Z.id. reflexivity.
  - unfold zskipn. rewrite skipn_skipn_. f_equal. lia.
Qed.

Lemma vflags_on_screen_ f t : vflags (on_screen f t) = vflags t.
Proof. unfold on_screen, set_active. destruct (onalt t); reflexivity. Qed.

Section Over.
  Variable wc : Z -> Z.
  Variable grid : bool.

  (* the row being repainted: [front] (what lies left of the range, then what has
     been written) is in place, the cursor is behind it, autowrap is off; the
     first cell still to be overwritten is not the second half of a glyph *)
  Record ow_state (t : term) (y : Z) (front T : list cell) : Prop := mkOW {
    ow_inv : TInv t;
    ow_awrap : awrap (active t) = false;
    ow_cy : cy (active t) = y;
    ow_row : row_at (active t) y = front ++ T;
    ow_T : cont_prefix T = 0%nat;
    ow_cx : cx (active t) = Z.min (zlen front) (sW (active t) - 1)
  }.

  (* what the bytes of a row leave alone *)
  Definition ow_frame (t t' : term) (y : Z) : Prop :=
    onalt t' = onalt t /\ vflags t' = vflags t /\
    sW (active t') = sW (active t) /\ sH (active t') = sH (active t) /\
    svx (active t') = svx (active t) /\ svy (active t') = svy (active t) /\
    (forall y', y' <> y -> row_at (active t') y' = row_at (active t) y').

  Lemma ow_frame_refl t y : ow_frame t t y.
  Proof. unfold ow_frame. repeat split; reflexivity. Qed.

  Lemma ow_frame_trans t1 t2 t3 y : ow_frame t1 t2 y -> ow_frame t2 t3 y -> ow_frame t1 t3 y.
  Proof.
    unfold ow_frame. intros (A1 & A2 & A3 & A4 & A5 & A6 & A7) (B1 & B2 & B3 & B4 & B5 & B6 & B7).
    repeat split; try congruence. intros y' N. rewrite B7 by exact N. apply A7, N.
  Qed.

  Lemma ow_state_sgr pss t y front T : ow_state t y front T ->
    ow_state (sgr_run pss t) y front T /\ ow_frame t (sgr_run pss t) y.
  Proof.
    intros [Ht A Cy R HT Cx].
    assert (Ht' : TInv (sgr_run pss t)).
    { clear -Ht. revert t Ht. induction pss as [|ps pss IH]; intros t Ht; [exact Ht|].
      cbn [sgr_run fold_left]. apply IH. apply TInv_exec_csi_plain, Ht. }
    pose proof (sgr_run_same pss t) as S. unfold same_but_style in S. cbv zeta in S.
    destruct S as (S1 & S2 & S3 & S4 & S5 & S6 & S7 & _ & _ & S10 & _ & _ & _ & S14 & S15 & _).
    split.
    - constructor; try assumption; try congruence.
      unfold row_at in *. rewrite S1. exact R.
    - unfold ow_frame. repeat split; try assumption. intros y' _. unfold row_at. rewrite S1. reflexivity.
  Qed.

  Lemma glyph_step_over t y front T txt r :
    ow_state t y front T -> glyph_text txt r ->
    glyph_width (wc r) <= zlen T ->
    let w := glyph_width (wc r) in
    let t' := exec_tok (TGlyph txt r (wc r)) t in
    ow_state t' y (front ++ glyph_cells txt w (sty (active t))) (unhalf (sty (active t)) (zskipn w T)) /\
    sty (active t') = sty (active t) /\ ow_frame t t' y.
  Proof.
    intros [Ht A Cy R HT Cx] G Hw w t'.
    assert (Ht' : TInv t') by (apply TInv_exec_tok, Ht).
    subst t'. cbn [exec_tok] in *.
    set (f := fun s => write_glyph txt (glyph_width (wc r)) (if (r =? runeError) && negb (list_eqb Z.eqb txt utf8_replacement) then add_trig trInvalidUtf8 s else s)) in *.
    destruct (RenderProofs.active_on_screen f t) as (EA & EO).
    pose proof (vflags_on_screen_ f t) as EV.
    set (s0 := set_evs [] (active t)).
    pose proof (TInv_active t Ht) as Ia.
    assert (I0 : Inv s0) by (apply Inv_set_evs, Ia).
    set (s1 := if (r =? runeError) && negb (list_eqb Z.eqb txt utf8_replacement) then add_trig trInvalidUtf8 s0 else s0).
    assert (P1 : Inv s1 /\ rows s1 = rows (active t) /\ awrap s1 = awrap (active t) /\ cx s1 = cx (active t) /\
                 cy s1 = cy (active t) /\ sty s1 = sty (active t) /\ sW s1 = sW (active t) /\ sH s1 = sH (active t) /\
                 svx s1 = svx (active t) /\ svy s1 = svy (active t)).
    { subst s1. destruct (_ && _); [split; [apply Inv_add_trig, I0|repeat split]|split; [exact I0|repeat split]]. }
    destruct P1 as (I1 & R1 & A1 & X1 & Y1 & S1 & W1 & Hh1 & SX1 & SY1).
    pose proof (glyph_width_pos wc (wc r)) as Wp. fold w in Wp, Hw.
    pose proof (row_at_len _ _ Ia (inv_cy _ Ia)) as RL. rewrite Cy, R, zlen_app in RL.
    pose proof (zlen_nonneg front).
    assert (Cx' : cx s1 = zlen front) by (rewrite X1, Cx; lia).
    assert (Row1 : row_at s1 (cy s1) = front ++ T) by (unfold row_at in *; rewrite R1, Y1, Cy; exact R).
    destruct (write_glyph_over txt w s1 front T I1 ltac:(congruence) Wp Row1 Cx' Hw HT)
      as (I2 & W2 & H2 & A2 & S2 & Y2 & X2 & Rw & Ro & SX2 & SY2).
    set (s2 := write_glyph txt w s1) in *.
    assert (EA' : active (on_screen f t) = set_evs [] s2) by exact EA.
    split; [|split].
    - constructor; rewrite ?EA'.
      + exact Ht'.
      + exact A2.
      + change (cy s2 = y). congruence.
      + unfold row_at in *. change (rows (set_evs [] s2)) with (rows s2). rewrite Y1, Cy in Rw. rewrite Rw, S1. reflexivity.
      + eapply covers_head, covers_unhalf.
      + change (cx s2 = Z.min (zlen (front ++ glyph_cells txt w (sty (active t)))) (sW s2 - 1)).
        rewrite X2, W2, zlen_app, glyph_cells_len by lia. reflexivity.
    - rewrite EA'. change (sty s2 = sty (active t)). congruence.
    - unfold ow_frame. rewrite EA'. split; [exact EO|]. split; [exact EV|].
      split; [change (sW s2 = sW (active t)); congruence|]. split; [change (sH s2 = sH (active t)); congruence|].
      split; [change (svx s2 = svx (active t)); congruence|]. split; [change (svy s2 = svy (active t)); congruence|].
      intros y' N. unfold row_at in *. change (rows (set_evs [] s2)) with (rows s2).
      rewrite Ro by congruence. rewrite R1. reflexivity.
  Qed.

  (* the induction along the cells to write: [O] is what the row held behind [front] at the start *)
  Theorem feed_cells_over todo : renderable wc todo -> forall t y front T O prev,
    ow_state t y front T -> covers T O -> prev_ok prev t -> zlen todo <= zlen T ->
    exists t' T', (forall more, run_bytes wc grid t (render_from prev todo ++ more) = run_bytes wc grid t' more) /\
    ow_state t' y (front ++ todo) T' /\ covers T' (zskipn (zlen todo) O) /\ ow_frame t t' y.
  Proof.
    induction 1 as [|txt r st rest G Hst Hrest IH]; intros t y front T O prev RS CV PO Hlen.
    - exists t, T. cbn [render_from app]. rewrite app_nil_r.
      change (zskipn (zlen (@nil cell)) O) with O. split; [reflexivity|]. split; [exact RS|]. split; [exact CV|apply ow_frame_refl].
    - set (w := glyph_width (wc r)) in *.
      pose proof (glyph_width_pos wc (wc r)) as Wp. fold w in Wp.
      rewrite zlen_app, glyph_cells_len in Hlen by lia. pose proof (zlen_nonneg rest).
      assert (E : exists t1, (forall after, run_bytes wc grid t
                    ((if match prev with Some p => style_eqb p st | None => false end then [] else ansi_escape st)
                       ++ txt ++ after)
                  = run_bytes wc grid t1 (txt ++ after)) /\
                  ow_state t1 y front T /\ sty (active t1) = st /\ ow_frame t t1 y).
      { assert (Esc : exists t1, (forall after, run_bytes wc grid t (ansi_escape st ++ txt ++ after)
                    = run_bytes wc grid t1 (txt ++ after)) /\
                    ow_state t1 y front T /\ sty (active t1) = st /\ ow_frame t t1 y).
        { exists (sgr_run (escape_params st) t). split; [intros after; apply run_ansi_escape; [apply RS|exact Hst]|].
          destruct (ow_state_sgr (escape_params st) t y front T RS) as (RS1 & F1).
          split; [exact RS1|]. destruct (escape_run_facts st t Hst) as (F2 & _). split; [exact F2|exact F1]. }
        destruct prev as [p|]; [|exact Esc].
        destruct (style_eqb p st) eqn:Ep; [|exact Esc].
        apply style_eqb_eq in Ep. subst p. exists t. cbn [app]. split; [reflexivity|]. split; [exact RS|]. split; [exact PO|apply ow_frame_refl]. }
      destruct E as (t1 & E1 & RS1 & S1 & F1).
      destruct (glyph_step_over t1 y front T txt r RS1 G ltac:(fold w; lia)) as (RS2 & S2 & F2).
      fold w in RS2. rewrite S1 in RS2, S2.
      set (t2 := exec_tok (TGlyph txt r (wc r)) t1) in *.
      pose proof (covers_step st (Z.to_nat w) T O CV) as CV2.
      change (skipn (Z.to_nat w) T) with (zskipn w T) in CV2. change (skipn (Z.to_nat w) O) with (zskipn w O) in CV2.
      pose proof (covers_zlen _ _ CV) as LT. pose proof (covers_zlen _ _ CV2) as LT2.
      assert (L2 : zlen rest <= zlen (unhalf st (zskipn w T))) by (rewrite LT2, zlen_zskipn; lia).
      destruct (IH t2 y (front ++ glyph_cells txt w st) (unhalf st (zskipn w T)) (zskipn w O) (Some st) RS2 CV2 S2 L2)
        as (t3 & T3 & R1 & R2 & R3 & R4).
      exists t3, T3. split.
      { intros more. rewrite render_glyph_cells. rewrite <- !app_assoc. rewrite E1.
        rewrite (run_bytes_step wc grid t1 _ _ _ (TInv_not_crashed t1 (ow_inv _ _ _ _ RS1)) (parse_glyph wc grid txt r _ G)).
        apply R1. }
      split; [rewrite <- app_assoc in R2; exact R2|]. split.
      { assert (Z : zskipn (zlen rest) (zskipn w O) = zskipn (zlen (glyph_cells txt w st ++ rest)) O).
        { rewrite zlen_app, glyph_cells_len by lia. unfold zskipn. rewrite skipn_skipn_. f_equal. lia. }
        rewrite <- Z. exact R3. }
      eapply ow_frame_trans; [exact F1|]. eapply ow_frame_trans; [exact F2|exact R4].
  Qed.

  (* ---- (1) the single-row lemma ----
     The cells [todo] rendered with ANSILine and written at column x of row y of
     an arbitrary well-formed terminal, autowrap off, the cell under the cursor
     not being the second half of a glyph: all bytes are consumed; row y keeps
     its cells left of x, holds [todo] from x on, and behind that what it held
     before, except that the rest of a glyph whose head has been overwritten is
     blank ([covers]); no other row changes; cursor row, size, saved cursor,
     autowrap, flags are unchanged. *)
  Theorem row_over todo t y x :
    TInv t -> awrap (active t) = false -> cy (active t) = y -> cx (active t) = x ->
    x + zlen todo <= sW (active t) ->
    is_cont (znth x (row_at (active t) y) dcell) = false -> renderable wc todo ->
    exists t' T',
      (forall more, run_bytes wc grid t (render_line_ansi todo ++ more) = run_bytes wc grid t' more) /\
      TInv t' /\ awrap (active t') = false /\ cy (active t') = y /\
      cx (active t') = Z.min (x + zlen todo) (sW (active t) - 1) /\
      row_at (active t') y = zfirstn x (row_at (active t) y) ++ todo ++ T' /\
      covers T' (zskipn (x + zlen todo) (row_at (active t) y)) /\
      ow_frame t t' y.
  Proof.
    intros Ht A Cy Cx Hfit Hnc Hr.
    pose proof (TInv_active t Ht) as Ia. pose proof (inv_cx _ Ia) as Xr. rewrite Cx in Xr.
    pose proof (row_at_len _ _ Ia (inv_cy _ Ia)) as RL. rewrite Cy in RL.
    set (orow := row_at (active t) y) in *.
    assert (HT0 : cont_prefix (zskipn x orow) = 0%nat).
    { destruct (zskipn_head orow x dcell ltac:(lia)) as (r0 & E). rewrite E. cbn [cont_prefix]. rewrite Hnc. reflexivity. }
    assert (RS : ow_state t y (zfirstn x orow) (zskipn x orow)).
    { constructor; try assumption.
      - unfold zfirstn, zskipn. symmetry. apply firstn_skipn.
      - rewrite zlen_zfirstn_le by lia. lia. }
    destruct (feed_cells_over todo Hr t y (zfirstn x orow) (zskipn x orow) (zskipn x orow) None RS
                (covers_self _ HT0) I ltac:(rewrite zlen_zskipn_le by lia; lia))
      as (t' & T' & E & RS' & CV' & F').
    exists t', T'. fold (render_line_ansi todo) in E. split; [exact E|].
    destruct RS' as [Ht' A' Cy' Row' HT' Cx']. split; [exact Ht'|]. split; [exact A'|]. split; [exact Cy'|].
    pose proof F' as (_ & _ & FW & _).
    split; [rewrite Cx', FW, zlen_app, zlen_zfirstn_le by lia; reflexivity|].
    split; [rewrite <- app_assoc in Row'; exact Row'|]. split; [|exact F'].
    assert (Z : zskipn (zlen todo) (zskipn x orow) = zskipn (x + zlen todo) orow).
    { unfold zskipn. rewrite skipn_skipn_. f_equal. pose proof (zlen_nonneg todo). lia. }
    rewrite <- Z. exact CV'.
  Qed.

  (* ... and when the cell just behind the written range is not the second half of
     a glyph either, everything behind the range is untouched *)
  Corollary row_over_exact todo t y x :
    TInv t -> awrap (active t) = false -> cy (active t) = y -> cx (active t) = x ->
    x + zlen todo <= sW (active t) ->
    is_cont (znth x (row_at (active t) y) dcell) = false ->
    is_cont (znth (x + zlen todo) (row_at (active t) y) dcell) = false ->
    renderable wc todo ->
    exists t',
      (forall more, run_bytes wc grid t (render_line_ansi todo ++ more) = run_bytes wc grid t' more) /\
      TInv t' /\ awrap (active t') = false /\ cy (active t') = y /\
      row_at (active t') y = zfirstn x (row_at (active t) y) ++ todo ++ zskipn (x + zlen todo) (row_at (active t) y) /\
      ow_frame t t' y.
  Proof.
    intros Ht A Cy Cx Hfit Hnc Hnc2 Hr.
    destruct (row_over todo t y x Ht A Cy Cx Hfit Hnc Hr) as (t' & T' & E & Ht' & A' & Cy' & _ & Row' & CV' & F').
    exists t'. split; [exact E|]. split; [exact Ht'|]. split; [exact A'|]. split; [exact Cy'|]. split; [|exact F'].
    rewrite Row'. f_equal. f_equal. apply covers_exact; [exact CV'|].
    pose proof (TInv_active t Ht) as Ia. pose proof (row_at_len _ _ Ia (inv_cy _ Ia)) as RL. rewrite Cy in RL.
    pose proof (zlen_nonneg todo). pose proof (inv_cx _ Ia).
    destruct (Z.lt_ge_cases (x + zlen todo) (sW (active t))) as [Hl|Hl].
    - destruct (zskipn_head (row_at (active t) y) (x + zlen todo) dcell ltac:(lia)) as (r0 & E0). rewrite E0.
      cbn [cont_prefix]. rewrite Hnc2. reflexivity.
    - unfold zskipn. rewrite skipn_all2 by (unfold zlen in *; lia). reflexivity.
  Qed.
End Over.
