(* C10: frame conditions of the notifications — a cell that no RegionChanged of an
   operation covers is not changed by that operation. *)
From Coq Require Import List ZArith Bool Lia.
From Termemu Require Import Base Style Screen Kbd Parser Term BaseLemmas ScreenInv TermInv CursorProofs IsolationProofs
  ScreenSpec RowLemmas ScrollProofs.
Import ListNotations.
Open Scope Z_scope.

Definition covers (e : event) (x y : Z) : Prop :=
  match e with ERegion x1 y1 x2 y2 _ => x1 <= x < x2 /\ y1 <= y < y2 | _ => False end.

Definition announced (l : list event) (x y : Z) : Prop := exists e, In e l /\ covers e x y.

(* f only appends callbacks, and every cell it changes is covered by a region it appends *)
Definition Framed (f : screen -> screen) : Prop :=
  forall s, Inv s -> exists l, evs (f s) = l ++ evs s /\
    forall x y, 0 <= x < sW s -> 0 <= y < sH s -> ~ announced l x y -> cell_at (f s) x y = cell_at s x y.

Lemma announced_app l1 l2 x y : announced (l1 ++ l2) x y <-> announced l1 x y \/ announced l2 x y.
Proof.
  unfold announced. split.
  - intros (e & Hin & Hc). apply in_app_or in Hin. destruct Hin; [left|right]; exists e; auto.
  - intros [(e & Hin & Hc)|(e & Hin & Hc)]; exists e; split; auto; apply in_or_app; auto.
Qed.

Lemma Framed_comp f g : Pres f -> Framed f -> Framed g -> Framed (fun s => g (f s)).
Proof.
  intros Pf Ff Fg s Hs. destruct (Pf s Hs) as (I1 & W1 & H1).
  destruct (Ff s Hs) as (l1 & E1 & C1). destruct (Fg (f s) I1) as (l2 & E2 & C2).
  exists (l2 ++ l1). split; [rewrite E2, E1, app_assoc; reflexivity|].
  intros x y Hx Hy Hn. rewrite C2; [apply C1; auto|rewrite W1; exact Hx|rewrite H1; exact Hy|].
  - intros A. apply Hn, announced_app. right. exact A.
  - intros A. apply Hn, announced_app. left. exact A.
Qed.

Lemma Framed_same_rows f : (forall s, rows (f s) = rows s) -> (forall s, exists l, evs (f s) = l ++ evs s) -> Framed f.
Proof.
  intros Hr He s Hs. destruct (He s) as (l & E). exists l. split; [exact E|].
  intros x y _ _ _. unfold cell_at, row_at. rewrite Hr. reflexivity.
Qed.

Lemma Framed_id : Framed (fun s => s).
Proof. apply Framed_same_rows; [reflexivity|intros s; exists []; reflexivity]. Qed.
Lemma Framed_set_cursor_pos x y : Framed (set_cursor_pos x y).
Proof. apply Framed_same_rows; [reflexivity|intros s; eexists [_]; reflexivity]. Qed.
Lemma Framed_set_style st : Framed (set_style st).
Proof. apply Framed_same_rows; [reflexivity|intros s; eexists [_]; reflexivity]. Qed.
Lemma Framed_set_awrap v : Framed (set_awrap v).
Proof. apply Framed_same_rows; [reflexivity|intros s; exists []; reflexivity]. Qed.
Lemma Framed_save_cursor : Framed save_cursor.
Proof. apply Framed_same_rows; [reflexivity|intros s; exists []; reflexivity]. Qed.
Lemma Framed_restore_cursor : Framed restore_cursor.
Proof. apply Framed_same_rows; [reflexivity|intros s; eexists [_]; reflexivity]. Qed.
Lemma Framed_add_trig v : Framed (add_trig v).
Proof. apply Framed_same_rows; [reflexivity|intros s; exists []; reflexivity]. Qed.
Lemma Framed_set_scroll_margins t b : Framed (set_scroll_margins t b).
Proof.
  apply Framed_same_rows; intros s; unfold set_scroll_margins; destruct (b <? t); try reflexivity; exists []; reflexivity.
Qed.

(* the row write: everything outside [left_edge, x + n + cont_run) of row y is unchanged *)
Lemma Framed_write_row_cells reason x y new :
  Framed (fun s => write_row_cells reason x y new s).
Proof.
  intros s Hs. unfold write_row_cells.
  destruct (Z.leb_spec (zlen new) 0); [exists []; split; [reflexivity|auto]|].
  destruct ((y <? 0) || (sH s <=? y) || (x <? 0) || (sW s <? x + zlen new)) eqn:G.
  { exists []. split; [reflexivity|]. intros; reflexivity. }
  apply orb_false_iff in G. destruct G as [G G4]. apply orb_false_iff in G. destruct G as [G G3].
  apply orb_false_iff in G. destruct G as [G1 G2].
  apply Z.ltb_ge in G1, G3, G4. apply Z.leb_gt in G2.
  pose proof (row_at_len s y Hs ltac:(lia)) as Hl.
  set (row := row_at s y) in *.
  set (s' := if is_cont _ then add_trig trSecondHalf s else s).
  assert (E' : rows s' = rows s /\ evs s' = evs s /\ sty s' = sty s) by (subst s'; destruct (is_cont _); repeat split).
  destruct E' as (R' & V' & S').
  eexists [_]. split; [cbn [evs emit set_evs set_rows]; rewrite V'; reflexivity|].
  intros x' y' Hx' Hy' Hn. unfold cell_at, row_at. cbn [rows emit set_evs set_rows]. rewrite R'.
  destruct (Z.eq_dec y' y) as [->|Hne].
  - rewrite znth_zupd_same by (rewrite (inv_rows s Hs); lia).
    rewrite overwrite_znth by lia. fold row.
    unfold zin.
    destruct ((x <=? x') && (x' <? x + zlen new)) eqn:A.
    { exfalso. apply Hn. eexists. split; [left; reflexivity|]. cbn [covers].
      apply andb_true_iff in A. destruct A as [A1 A2]. apply Z.leb_le in A1. apply Z.ltb_lt in A2.
      pose proof (left_edge_range row x ltac:(lia)). pose proof (cont_run_range row (x + zlen new) ltac:(lia)). lia. }
    destruct (((left_edge row x <=? x') && (x' <? x)) || ((x + zlen new <=? x') && (x' <? x + zlen new + cont_run row (x + zlen new)))) eqn:B.
    { exfalso. apply Hn. eexists. split; [left; reflexivity|]. cbn [covers].
      pose proof (left_edge_range row x ltac:(lia)). pose proof (cont_run_range row (x + zlen new) ltac:(lia)).
      apply orb_true_iff in B. destruct B as [B|B]; apply andb_true_iff in B; destruct B as [B1 B2];
        apply Z.leb_le in B1; apply Z.ltb_lt in B2; lia. }
    reflexivity.
  - rewrite znth_zupd_other by congruence. reflexivity.
Qed.

Lemma erase_rows_framed reason x x2 ys : forall s,
  Inv s -> 0 <= x <= x2 -> x2 <= sW s -> Forall (fun y => 0 <= y < sH s) ys ->
  exists l, evs (erase_rows reason x x2 ys s) = l ++ evs s /\
    forall x' y', 0 <= x' < sW s -> 0 <= y' < sH s -> ~ announced l x' y' ->
      cell_at (erase_rows reason x x2 ys s) x' y' = cell_at s x' y'.
Proof.
  induction ys as [|y ys IH]; intros s Hs Hx Hx2 Hys; cbn [erase_rows].
  - exists []. split; [reflexivity|auto].
  - inversion Hys as [|? ? Hy Hys']; subst.
    set (new := zrepeat (blank (sty s)) (x2 - x)).
    destruct (write_row_cells_ok reason x y new s Hs Hy ltac:(lia) ltac:(subst new; rewrite zlen_zrepeat_nn by lia; lia)) as (I1 & W1 & H1).
    destruct (Framed_write_row_cells reason x y new s Hs) as (l1 & E1 & C1).
    destruct (IH _ I1 Hx ltac:(rewrite W1; exact Hx2) ltac:(rewrite H1; exact Hys')) as (l2 & E2 & C2).
    exists (l2 ++ l1). split; [rewrite E2, E1, app_assoc; reflexivity|].
    intros x' y' Hx' Hy' Hn. rewrite C2; [apply C1; auto|rewrite W1; exact Hx'|rewrite H1; exact Hy'|].
    + intros A. apply Hn, announced_app. right. exact A.
    + intros A. apply Hn, announced_app. left. exact A.
Qed.

Lemma Framed_erase_region x y x2 y2 : Framed (erase_region x y x2 y2).
Proof.
  intros s Hs. unfold erase_region. pose proof (inv_w s Hs). pose proof (inv_h s Hs).
  pose proof (clamp_range x 0 (sW s) ltac:(lia)) as A.
  pose proof (clamp_range y 0 (sH s) ltac:(lia)) as B.
  pose proof (clamp_range x2 (clamp x 0 (sW s)) (sW s) ltac:(lia)) as C.
  pose proof (clamp_range y2 (clamp y 0 (sH s)) (sH s) ltac:(lia)) as D.
  apply erase_rows_framed; [exact Hs|lia|lia|].
  eapply Forall_impl; [|apply zseq_range]. cbn. intros; lia.
Qed.

Lemma Framed_scroll y1 y2 dy : Framed (scroll y1 y2 dy).
Proof.
  intros s Hs. pose proof (scroll_row_gen y1 y2 dy s Hs) as SR. cbv zeta in SR.
  pose proof (inv_h s Hs) as HH. pose proof (inv_w s Hs) as HW.
  pose proof (clamp_range y1 0 (sH s - 1) ltac:(lia)) as Ha.
  pose proof (clamp_range y2 0 (sH s - 1) ltac:(lia)) as Hb.
  set (a := clamp y1 0 (sH s - 1)) in *. set (b := clamp y2 0 (sH s - 1)) in *.
  rewrite scroll_unfold in *. cbv zeta in *. fold a b in SR |- *.
  destruct (Z.ltb_spec b a) as [Hba|Hab].
  - exists []. split; [reflexivity|auto].
  - pose proof (clamp_dy_range (b - a + 1) dy ltac:(lia)) as Hd.
    set (d := clamp_dy (b - a + 1) dy) in *.
    assert (G : forall l, (forall x' y', 0 <= x' < sW s -> a <= y' <= b -> announced l x' y') ->
                forall s', (forall y, row_at s' y = if zin a (b + 1) y then (if zin a (b + 1) (y - d) then row_at s (y - d) else blank_row (sW s) (sty s)) else row_at s y) ->
                forall x' y', 0 <= x' < sW s -> 0 <= y' < sH s -> ~ announced l x' y' -> cell_at s' x' y' = cell_at s x' y').
    { intros l Hcov s' Hrow x' y' Hx' Hy' Hn. unfold cell_at. rewrite Hrow. unfold zin.
      destruct ((a <=? y') && (y' <? b + 1)) eqn:E; [|reflexivity].
      exfalso. apply Hn, Hcov; [exact Hx'|]. apply andb_true_iff in E. destruct E as [E1 E2].
      apply Z.leb_le in E1. apply Z.ltb_lt in E2. lia. }
    destruct (Z.ltb_spec 0 d).
    + eexists [_; _]. split; [reflexivity|]. apply G; [|exact SR].
      intros x' y' Hx' Hy'. destruct (Z.lt_ge_cases y' (a + d)).
      * eexists. split; [left; reflexivity|]. cbn [covers]. lia.
      * eexists. split; [right; left; reflexivity|]. cbn [covers]. lia.
    + eexists [_; _]. split; [reflexivity|]. apply G; [|exact SR].
      intros x' y' Hx' Hy'. destruct (Z.lt_ge_cases y' (b - - d + 1)).
      * eexists. split; [right; left; reflexivity|]. cbn [covers]. lia.
      * eexists. split; [left; reflexivity|]. cbn [covers]. lia.
Qed.

Lemma Framed_move_cursor dx dy wrap scr : Framed (move_cursor dx dy wrap scr).
Proof.
  intros s Hs. unfold move_cursor.
  destruct (if wrap && awrap s then _ else _) as [x1 y1].
  assert (G : forall s1 y3, (exists l, evs s1 = l ++ evs s /\ forall x y, 0 <= x < sW s -> 0 <= y < sH s -> ~ announced l x y -> cell_at s1 x y = cell_at s x y) ->
              exists l, evs (emit (ECursor x1 (clamp y3 0 (sH s - 1))) (set_cur x1 (clamp y3 0 (sH s - 1)) s1)) = l ++ evs s /\
                forall x y, 0 <= x < sW s -> 0 <= y < sH s -> ~ announced l x y ->
                  cell_at (emit (ECursor x1 (clamp y3 0 (sH s - 1))) (set_cur x1 (clamp y3 0 (sH s - 1)) s1)) x y = cell_at s x y).
  { intros s1 y3 (l & E & C). exists (ECursor x1 (clamp y3 0 (sH s - 1)) :: l). split; [cbn; rewrite E; reflexivity|].
    intros x y Hx Hy Hn. change (cell_at s1 x y = cell_at s x y). apply C; auto.
    intros (e & Hin & Hc). apply Hn. exists e. split; [right; exact Hin|exact Hc]. }
  destruct (scr && _).
  - destruct (_ <? top s); [apply G, Framed_scroll, Hs|].
    destruct (bot s <? _); [apply G, Framed_scroll, Hs|apply G; exists []; split; [reflexivity|auto]].
  - apply G. exists []. split; [reflexivity|auto].
Qed.

Lemma Framed_delete_chars x y n : Framed (delete_chars x y n).
Proof.
  intros s Hs. unfold delete_chars.
  destruct ((y <? 0) || (sH s <=? y) || (n <=? 0)) eqn:E1; [exists []; split; [reflexivity|auto]|].
  apply orb_false_iff in E1. destruct E1 as [E1 E3]. apply orb_false_iff in E1. destruct E1 as [E1 E2].
  apply Z.ltb_ge in E1. apply Z.leb_gt in E2, E3.
  set (n1 := if x <? 0 then n + x else n). set (x1 := if x <? 0 then 0 else x).
  destruct ((sW s <=? x1) || (n1 <=? 0)) eqn:E4; [exists []; split; [reflexivity|auto]|].
  apply orb_false_iff in E4. destruct E4 as [E4 E5]. apply Z.leb_gt in E4, E5.
  set (n2 := if sW s <? x1 + n1 then sW s - x1 else n1).
  assert (Hx1 : 0 <= x1 < sW s) by (subst x1; destruct (Z.ltb_spec x 0); lia).
  assert (Hn2 : 0 <= n2 /\ x1 + n2 <= sW s) by (subst n2; destruct (Z.ltb_spec (sW s) (x1 + n1)); lia).
  pose proof (row_at_len s y Hs ltac:(lia)) as Hl.
  set (row := row_at s y) in *.
  set (s' := if is_cont _ then add_trig trSecondHalf s else s).
  assert (E' : rows s' = rows s /\ evs s' = evs s /\ sty s' = sty s /\ sW s' = sW s) by (subst s'; destruct (is_cont _); repeat split).
  destruct E' as (R' & V' & S' & W').
  eexists [_]. split; [cbn [evs emit set_evs set_rows]; rewrite V'; reflexivity|].
  intros x' y' Hx' Hy' Hn. unfold cell_at, row_at. cbn [rows emit set_evs set_rows]. rewrite R'.
  destruct (Z.eq_dec y' y) as [->|Hne].
  - rewrite znth_zupd_same by (rewrite (inv_rows s Hs); lia).
    rewrite delete_cells_znth by lia. fold row.
    destruct (Z.ltb_spec x' (left_edge row x1)); [reflexivity|].
    exfalso. apply Hn. eexists. split; [left; reflexivity|]. cbn [covers]. rewrite W'. lia.
  - rewrite znth_zupd_other by congruence. reflexivity.
Qed.

Lemma Framed_write_glyph txt w0 : Framed (write_glyph txt w0).
Proof.
  intros s Hs. unfold write_glyph. rewrite (inv_crash s Hs). cbn [Z.eqb negb].
  set (w1 := if w0 <? 1 then 1 else w0).
  assert (Hw1 : 1 <= w1) by (subst w1; destruct (Z.ltb_spec w0 1); lia).
  set (sa := if sW s <? w1 then add_trig trWideOnNarrow s else s).
  assert (Ea : Inv sa /\ evs sa = evs s /\ sW sa = sW s /\ sH sa = sH s /\ (forall x y, cell_at sa x y = cell_at s x y)).
  { subst sa. destruct (sW s <? w1); (split; [try apply Inv_add_trig; exact Hs|repeat split]). }
  destruct Ea as (Ia & Va & Wa & Ha & Ca).
  set (w := if sW sa <? w1 then sW sa else w1).
  assert (Hw : 1 <= w <= sW s) by (subst w; pose proof (inv_w s Hs); rewrite Wa; destruct (Z.ltb_spec (sW s) w1); lia).
  set (s1 := if sW sa <? cx sa + w then _ else sa).
  assert (F1 : Inv s1 /\ sW s1 = sW s /\ sH s1 = sH s /\ cx s1 + w <= sW s /\
               exists l, evs s1 = l ++ evs s /\ forall x y, 0 <= x < sW s -> 0 <= y < sH s -> ~ announced l x y -> cell_at s1 x y = cell_at s x y).
  { subst s1. pose proof (inv_cx sa Ia). pose proof (inv_cy sa Ia). destruct (Z.ltb_spec (sW sa) (cx sa + w)).
    - destruct (awrap sa).
      + destruct (Pres_move_cursor (- cx sa) 1 false true sa Ia) as (I & W' & H').
        split; [exact I|]. split; [congruence|]. split; [congruence|]. split.
        * rewrite move_cursor_cx. cbn [andb]. replace (cx sa + - cx sa) with 0 by lia. rewrite clamp_id by lia. lia.
        * destruct (Framed_move_cursor (- cx sa) 1 false true sa Ia) as (l & E & C). exists l. rewrite E, Va. split; [reflexivity|].
          intros x y Hx Hy Hn. rewrite C; [apply Ca|rewrite Wa; exact Hx|rewrite Ha; exact Hy|exact Hn].
      + split; [apply Inv_set_cur; [exact Ia|lia|lia]|]. cbn [sW sH cx set_cur]. repeat split; try assumption; try lia.
        exists []. split; [exact Va|]. intros x y _ _ _. apply Ca.
    - split; [exact Ia|]. repeat split; try assumption; try lia. exists []. split; [exact Va|]. intros x y _ _ _. apply Ca. }
  destruct F1 as (I1 & W1 & H1 & Fit & (l1 & E1 & C1)).
  pose proof (inv_cx s1 I1) as Cx1. pose proof (inv_cy s1 I1) as Cy1.
  set (new := glyph_cells txt w (sty s1)).
  assert (Ln : zlen new = w) by (subst new; apply glyph_cells_len; lia).
  destruct (write_row_cells_ok crText (cx s1) (cy s1) new s1 I1 Cy1 ltac:(lia) ltac:(rewrite Ln, W1; lia)) as (I2 & W2 & H2).
  destruct (Framed_write_row_cells crText (cx s1) (cy s1) new s1 I1) as (l2 & E2 & C2).
  rewrite (inv_crash _ I2). cbn [Z.eqb negb].
  destruct (Framed_move_cursor w 0 true true _ I2) as (l3 & E3 & C3).
  exists (l3 ++ l2 ++ l1). split; [rewrite E3, E2, E1, !app_assoc; reflexivity|].
  intros x y Hx Hy Hn.
  rewrite C3; [rewrite C2; [apply C1; auto| | |]| | |].
  - intros A. apply Hn, announced_app. right. apply announced_app. right. exact A.
  - rewrite W1; exact Hx.
  - rewrite H1; exact Hy.
  - intros A. apply Hn, announced_app. right. apply announced_app. left. exact A.
  - rewrite W2, W1; exact Hx.
  - rewrite H2, H1; exact Hy.
  - intros A. apply Hn, announced_app. left. exact A.
Qed.

#[export] Hint Resolve Framed_move_cursor Framed_set_cursor_pos Framed_scroll Framed_erase_region Framed_delete_chars
  Framed_write_glyph Framed_set_style Framed_save_cursor Framed_restore_cursor Framed_set_scroll_margins Framed_set_awrap
  Framed_id Framed_add_trig : framed.

(* ---------- chaining, then the terminal level ---------- *)
Definition FrameRel (s0 s1 : screen) : Prop :=
  Good s0 s1 /\ exists l, evs s1 = l ++ evs s0 /\
    forall x y, 0 <= x < sW s0 -> 0 <= y < sH s0 -> ~ announced l x y -> cell_at s1 x y = cell_at s0 x y.

Lemma FrameRel_refl s : Inv s -> FrameRel s s.
Proof. intros Hs. split; [apply Good_refl, Hs|]. exists []. split; [reflexivity|auto]. Qed.

Lemma FrameRel_step f s0 s : Pres f -> Framed f -> FrameRel s0 s -> FrameRel s0 (f s).
Proof.
  intros Pf Ff ((I & W & H) & (l1 & E1 & C1)).
  destruct (Pf s I) as (I' & W' & H'). destruct (Ff s I) as (l2 & E2 & C2).
  split; [split; [exact I'|split; congruence]|].
  exists (l2 ++ l1). split; [rewrite E2, E1, app_assoc; reflexivity|].
  intros x y Hx Hy Hn. rewrite C2; [apply C1; auto|rewrite W; exact Hx|rewrite H; exact Hy|].
  - intros A. apply Hn, announced_app. right. exact A.
  - intros A. apply Hn, announced_app. left. exact A.
Qed.

Definition PF (f : screen -> screen) : Prop := forall s, Inv s -> FrameRel s (f s).

Ltac pf_solve :=
  let s := fresh "s" in let Hs := fresh "Hs" in
  intros s Hs; cbv beta zeta;
  repeat match goal with |- context [if ?c then _ else _] => destruct c end;
  repeat (apply FrameRel_step; [solve [auto with pres]|solve [auto with framed]|]);
  apply FrameRel_refl; exact Hs.

(* what the frontend is told during [on_screen f], and what that says about the active buffer *)
Definition TFramed (t t' : term) : Prop :=
  onalt t' = onalt t /\ exists l, tlog t' = l ++ tlog t /\
    forall x y, 0 <= x < sW (active t) -> 0 <= y < sH (active t) -> ~ announced l x y ->
      cell_at (active t') x y = cell_at (active t) x y.

Lemma TFramed_refl t : TFramed t t.
Proof. split; [reflexivity|]. exists []. split; [reflexivity|auto]. Qed.

Lemma TFramed_trans a b c : sW (active b) = sW (active a) -> sH (active b) = sH (active a) ->
  TFramed a b -> TFramed b c -> TFramed a c.
Proof.
  intros W H (O1 & l1 & E1 & C1) (O2 & l2 & E2 & C2).
  split; [congruence|]. exists (l2 ++ l1). split; [rewrite E2, E1, app_assoc; reflexivity|].
  intros x y Hx Hy Hn. rewrite C2; [apply C1; auto|rewrite W; exact Hx|rewrite H; exact Hy|].
  - intros A. apply Hn, announced_app. right. exact A.
  - intros A. apply Hn, announced_app. left. exact A.
Qed.

Lemma cell_at_set_evs l s x y : cell_at (set_evs l s) x y = cell_at s x y.
Proof. reflexivity. Qed.

Lemma on_screen_tframed f t : TInv t -> PF f -> TFramed t (on_screen f t).
Proof.
  intros [Hm Ha _ _] Hf. unfold TFramed, on_screen, active, set_active.
  destruct (onalt t) eqn:E; cbn [onalt tmain talt tlog].
  - destruct (Hf (set_evs [] (talt t)) (proj1 (Inv_set_evs _ _) Ha)) as (_ & l & El & Cl). cbn [evs set_evs] in El.
    split; [reflexivity|]. exists l. split; [rewrite El, app_nil_r; reflexivity|]. exact Cl.
  - destruct (Hf (set_evs [] (tmain t)) (proj1 (Inv_set_evs _ _) Hm)) as (_ & l & El & Cl). cbn [evs set_evs] in El.
    split; [reflexivity|]. exists l. split; [rewrite El, app_nil_r; reflexivity|]. exact Cl.
Qed.

(* operations that log something other than a region and touch no screen *)
Lemma TFramed_nocell t t' : onalt t' = onalt t -> tmain t' = tmain t -> talt t' = talt t ->
  (exists l, tlog t' = l ++ tlog t /\ forall x y, ~ announced l x y) -> TFramed t t'.
Proof.
  intros O M A (l & E & N). split; [exact O|]. exists l. split; [exact E|].
  intros x y _ _ _. unfold active. rewrite O, M, A. reflexivity.
Qed.

Lemma not_announced_single e x y : (forall a b c d r, e <> ERegion a b c d r) -> ~ announced [e] x y.
Proof.
  intros H (e' & [<-|[]] & Hc). destruct e; try contradiction. eapply H; reflexivity.
Qed.

Ltac nocell := apply TFramed_nocell; [reflexivity|reflexivity|reflexivity|];
  first [ exists []; split; [reflexivity|intros x y (e & [] & _)]
        | eexists [_]; split; [reflexivity|intros x y; apply not_announced_single; intros; discriminate] ].

Lemma TFramed_log_bell t : TFramed t (log_ev EBell t).
Proof. nocell. Qed.
Lemma TFramed_reply b t : TFramed t (reply b t).
Proof. nocell. Qed.
Lemma TFramed_set_vflag i v t : TFramed t (set_vflag i v t).
Proof. nocell. Qed.
Lemma TFramed_set_vint i v t : TFramed t (set_vint i v t).
Proof. nocell. Qed.
Lemma TFramed_set_vstr i v t : TFramed t (set_vstr i v t).
Proof. nocell. Qed.
Lemma TFramed_on_kbd f t : TFramed t (on_kbd f t).
Proof.
  unfold on_kbd. destruct (onalt t) eqn:E; (split; [cbn; congruence|]); exists []; (split; [reflexivity|]);
    intros x y _ _ _; unfold active; cbn [onalt tmain talt]; rewrite E; reflexivity.
Qed.
#[export] Hint Resolve TFramed_refl TFramed_log_bell TFramed_reply TFramed_set_vflag TFramed_set_vint TFramed_set_vstr TFramed_on_kbd : tframed.

Lemma TFramed_exec_c0 b t : TInv t -> TFramed t (exec_c0 b t).
Proof.
  intros Ht. unfold exec_c0.
  repeat match goal with |- context [if ?c then _ else _] => destruct c end;
    auto with tframed; apply on_screen_tframed; auto; pf_solve.
Qed.
Lemma TFramed_exec_esc b t : TInv t -> TFramed t (exec_esc b t).
Proof.
  intros Ht. unfold exec_esc.
  repeat match goal with |- context [if ?c then _ else _] => destruct c end;
    auto with tframed; apply on_screen_tframed; auto; pf_solve.
Qed.
Lemma TFramed_exec_osc n p t : TFramed t (exec_osc n p t).
Proof. unfold exec_osc. repeat match goal with |- context [if ?c then _ else _] => destruct c end; auto with tframed. Qed.
Lemma TFramed_exec_csi_plain ps f t : TInv t -> TFramed t (exec_csi_plain ps f t).
Proof.
  intros Ht. unfold exec_csi_plain. cbv zeta.
  repeat match goal with |- TFramed _ (if ?c then _ else _) => destruct c end;
    auto with tframed; apply on_screen_tframed; auto; pf_solve.
Qed.
Lemma TFramed_dec_mode v p t : TInv t -> p <> 1049 -> TFramed t (dec_mode v p t).
Proof.
  intros Ht Hp. unfold dec_mode.
  repeat match goal with |- TFramed _ (if ?c then _ else _) => destruct c eqn:? end;
    auto with tframed; try (apply on_screen_tframed; auto; pf_solve).
  match goal with H : (p =? 1049) = true |- _ => apply Z.eqb_eq in H; contradiction end.
Qed.

Lemma active_dims_dec_mode v p t : TInv t ->
  sW (active (dec_mode v p t)) = sW (active t) /\ sH (active (dec_mode v p t)) = sH (active t).
Proof.
  intros Ht. pose proof (TInv_dec_mode v p t Ht) as Ht'. destruct Ht as [_ _ W H]. destruct Ht' as [_ _ W' H'].
  assert (D : sW (tmain (dec_mode v p t)) = sW (tmain t) /\ sH (tmain (dec_mode v p t)) = sH (tmain t)).
  { unfold dec_mode. repeat match goal with |- context [if ?c then _ else _] => destruct c end; try (split; reflexivity).
    unfold on_screen, set_active, active. destruct (onalt t); cbn; split; reflexivity. }
  destruct D as (D1 & D2). unfold active. destruct (onalt (dec_mode v p t)), (onalt t); split; congruence.
Qed.

Lemma TFramed_dec_modes v ps : forall t, TInv t -> ~ In 1049 ps ->
  TFramed t (fold_left (fun t p => dec_mode v p t) ps t).
Proof.
  induction ps as [|p ps IH]; intros t Ht Hn; cbn [fold_left]; [apply TFramed_refl|].
  destruct (active_dims_dec_mode v p t Ht) as (W & H).
  apply (TFramed_trans t (dec_mode v p t)); [exact W|exact H| |].
  - apply TFramed_dec_mode; [exact Ht|]. intros E. apply Hn. left. exact E.
  - apply IH; [apply TInv_dec_mode, Ht|]. intros Hin. apply Hn. right. exact Hin.
Qed.

(* every token that does not switch buffers: the cells of the active buffer that none of the
   RegionChanged callbacks issued during the token cover are unchanged by the token *)
Theorem exec_tok_framed k t : TInv t -> ~ is_switch k -> TFramed t (exec_tok k t).
Proof.
  intros Ht Hn. destruct k as [txt r w|b|b| |prefix ps f|n p]; cbn [exec_tok].
  - apply on_screen_tframed; [exact Ht|]. intros s Hs. cbv beta.
    destruct (_ && _); (apply FrameRel_step; [apply Pres_write_glyph|apply Framed_write_glyph|]).
    + apply FrameRel_step; [intros s0 H0; split; [apply Inv_add_trig, H0|split; reflexivity]|apply Framed_add_trig|apply FrameRel_refl, Hs].
    + apply FrameRel_refl, Hs.
  - apply TFramed_exec_c0, Ht.
  - apply TFramed_exec_esc, Ht.
  - apply TFramed_refl.
  - unfold exec_csi.
    destruct (prefix =? 0); [apply TFramed_exec_csi_plain, Ht|].
    destruct (prefix =? 63) eqn:E63.
    + apply Z.eqb_eq in E63. subst prefix. cbn [is_switch] in Hn.
      destruct (f =? 117); [auto with tframed|].
      destruct (f =? 104) eqn:Eh.
      * apply Z.eqb_eq in Eh. apply TFramed_dec_modes; [exact Ht|]. intros H. apply Hn. split; [left; exact Eh|exact H].
      * destruct (f =? 108) eqn:El; [|apply TFramed_refl].
        apply Z.eqb_eq in El. apply TFramed_dec_modes; [exact Ht|]. intros H. apply Hn. split; [right; exact El|exact H].
    + repeat match goal with |- TFramed _ (if ?c then _ else _) => destruct c end; auto with tframed.
  - apply TFramed_exec_osc.
Qed.

(* a buffer switch announces the whole new screen, its cursor and its style *)
Theorem switch_announces t :
  let t' := switch_screen t in
  tlog t' = EStyle (sty (active t')) :: ECursor (cx (active t')) (cy (active t')) ::
            ERegion 0 0 (sW (active t')) (sH (active t')) crScreenSwitch :: tlog t.
Proof. reflexivity. Qed.

(* cursor and style callbacks carry the values now in force *)
Lemma last_cursor_move dx dy wrap scr s :
  exists l, evs (move_cursor dx dy wrap scr s) = ECursor (cx (move_cursor dx dy wrap scr s)) (cy (move_cursor dx dy wrap scr s)) :: l.
Proof.
  unfold move_cursor. destruct (if wrap && awrap s then _ else _) as [x1 y1].
  destruct (scr && _); [destruct (_ <? top s); [|destruct (bot s <? _)]|]; eexists; reflexivity.
Qed.
Lemma last_cursor_set x y s :
  evs (set_cursor_pos x y s) = ECursor (cx (set_cursor_pos x y s)) (cy (set_cursor_pos x y s)) :: evs s.
Proof. reflexivity. Qed.
Lemma last_style_set st s : evs (set_style st s) = EStyle (sty (set_style st s)) :: evs s.
Proof. reflexivity. Qed.

(* Terminal.Resize ends with the cursor and the rendition of the screen that is shown *)
Lemma resize_announces w h t :
  let t' := resize w h t in
  exists l, tlog t' = EStyle (sty (active t')) :: ECursor (cx (active t')) (cy (active t')) :: l.
Proof. cbv zeta. unfold resize, log_ev, active. cbn [tmain talt onalt tlog]. eexists. reflexivity. Qed.

(* the primitives, collected *)
Lemma framed_primitives :
  (forall r x y new, Framed (fun s => write_row_cells r x y new s)) /\
  (forall x y x2 y2, Framed (erase_region x y x2 y2)) /\
  (forall x y n, Framed (delete_chars x y n)) /\
  (forall y1 y2 dy, Framed (scroll y1 y2 dy)) /\
  (forall dx dy w sc, Framed (move_cursor dx dy w sc)) /\
  (forall txt w, Framed (write_glyph txt w)).
Proof.
  repeat split; intros; auto using Framed_write_row_cells, Framed_erase_region, Framed_delete_chars, Framed_scroll,
    Framed_move_cursor, Framed_write_glyph.
Qed.

(* ScrollLines: the model, faithful to the code, never issues it *)
Fixpoint has_scroll_lines (l : list event) : bool :=
  match l with [] => false | EScrollLines _ :: _ => true | _ :: r => has_scroll_lines r end.

Example scrollback_never_announced :
  let t := fst (run_bytes (fun _ => 1) false (init_term 3 2) [97; 10; 98; 10; 99]) in
  (* 'a' has been scrolled off the top of the main screen ... *)
  map ctext (row_at (tmain t) 0) = [[98]; [32]; [32]] /\ onalt t = false /\
  (* ... and no ScrollLines callback was issued *)
  has_scroll_lines (tlog t) = false.
Proof. vm_compute. repeat split. Qed.
