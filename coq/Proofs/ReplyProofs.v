(* Replies to terminal queries (C14): the bytes written to the application are
   exactly the concatenation, in stream order, of the replies to the query
   tokens, each computed from the state at which the query is reached. *)
From Coq Require Import List ZArith Bool Lia.
From Termemu Require Import Base Style Screen Kbd Parser Term BaseLemmas ParserProofs
  ScreenInv TermInv HistProofs ParserMono SegProofs.
Import ListNotations.
Open Scope Z_scope.

(* ---------- specification ---------- *)

(* the reply owed to token k when it is reached in state t *)
Definition reply_of (k : tok) (t : term) : list Z :=
  match k with
  | TCsi prefix ps f =>
      if (prefix =? 0) && (f =? 99) && (p0 ps 0 =? 0) then da1_reply            (* CSI c, CSI 0 c *)
      else if (prefix =? 62) && (f =? 99) then da2_reply                         (* CSI > ... c    *)
      else if (prefix =? 0) && (f =? 110) && (p0 ps 0 =? 5) then dsr_ok_reply    (* CSI 5 n        *)
      else if (prefix =? 0) && (f =? 110) && (p0 ps 0 =? 6)                      (* CSI 6 n        *)
        then cpr_reply (cy (active t) + 1) (cx (active t) + 1)
      else if (prefix =? 63) && (f =? 117)                                       (* CSI ? u        *)
        then kbd_query_reply (kflags (active_kbd t))
      else []
  | _ => []
  end.

Definition is_query (k : tok) : bool :=
  match k with
  | TCsi prefix ps f =>
      ((prefix =? 0) && (f =? 99) && (p0 ps 0 =? 0)) || ((prefix =? 62) && (f =? 99))
      || ((prefix =? 0) && (f =? 110) && ((p0 ps 0 =? 5) || (p0 ps 0 =? 6)))
      || ((prefix =? 63) && (f =? 117))
  | _ => false
  end.

(* ---------- the reply channel is touched by [reply] only ---------- *)
Lemma tout_on_screen f t : tout (on_screen f t) = tout t.
Proof. unfold on_screen, set_active. destruct (onalt t); reflexivity. Qed.
Lemma tout_log_ev e t : tout (log_ev e t) = tout t.
Proof. reflexivity. Qed.
Lemma tout_set_vflag i v t : tout (set_vflag i v t) = tout t.
Proof. reflexivity. Qed.
Lemma tout_set_vint i v t : tout (set_vint i v t) = tout t.
Proof. reflexivity. Qed.
Lemma tout_set_vstr i v t : tout (set_vstr i v t) = tout t.
Proof. reflexivity. Qed.
Lemma tout_on_kbd f t : tout (on_kbd f t) = tout t.
Proof. unfold on_kbd. destruct (onalt t); reflexivity. Qed.
Lemma tout_switch_screen t : tout (switch_screen t) = tout t.
Proof. reflexivity. Qed.
Lemma tout_reply bs t : tout (reply bs t) = tout t ++ bs.
Proof. reflexivity. Qed.
Lemma tout_resize w h t : tout (resize w h t) = tout t.
Proof. reflexivity. Qed.

Ltac tout_ifs := repeat match goal with |- tout (if ?c then _ else _) = _ => destruct c eqn:? end.
Ltac tout_leaf :=
  first [ reflexivity | apply tout_on_screen | apply tout_on_kbd | apply tout_set_vflag
        | apply tout_set_vint | apply tout_set_vstr | apply tout_log_ev | apply tout_switch_screen ].

Lemma tout_exec_c0 b t : tout (exec_c0 b t) = tout t.
Proof. unfold exec_c0. tout_ifs; tout_leaf. Qed.
Lemma tout_exec_esc b t : tout (exec_esc b t) = tout t.
Proof. unfold exec_esc. tout_ifs; tout_leaf. Qed.
Lemma tout_dec_mode v p t : tout (dec_mode v p t) = tout t.
Proof. unfold dec_mode. tout_ifs; tout_leaf. Qed.
Lemma tout_dec_modes v ps : forall t, tout (fold_left (fun t p => dec_mode v p t) ps t) = tout t.
Proof. induction ps as [|p ps IH]; intros t; cbn [fold_left]; [reflexivity|]. rewrite IH. apply tout_dec_mode. Qed.
Lemma tout_exec_osc n p t : tout (exec_osc n p t) = tout t.
Proof. unfold exec_osc. tout_ifs; tout_leaf. Qed.

(* plain CSI: only DA1 and DSR reply *)
Lemma tout_csi_plain_other ps f t : f =? 99 = false -> f =? 110 = false ->
  tout (exec_csi_plain ps f t) = tout t.
Proof.
  intros E99 E110. unfold exec_csi_plain. cbv zeta. rewrite E99, E110. tout_ifs; tout_leaf.
Qed.

Lemma tout_csi_plain ps f t :
  tout (exec_csi_plain ps f t) = tout t ++
    (if (f =? 99) && (p0 ps 0 =? 0) then da1_reply
     else if (f =? 110) && (p0 ps 0 =? 5) then dsr_ok_reply
     else if (f =? 110) && (p0 ps 0 =? 6) then cpr_reply (cy (active t) + 1) (cx (active t) + 1)
     else []).
Proof.
  destruct (f =? 99) eqn:E99.
  - apply Z.eqb_eq in E99. subst f. unfold exec_csi_plain. cbv zeta. cbn [Z.eqb Pos.eqb orb andb].
    destruct (p0 ps 0 =? 0); [reflexivity|]. cbn [tout]. rewrite app_nil_r. reflexivity.
  - destruct (f =? 110) eqn:E110.
    + apply Z.eqb_eq in E110. subst f. unfold exec_csi_plain. cbv zeta. cbn [Z.eqb Pos.eqb orb andb].
      destruct (p0 ps 0 =? 5); [reflexivity|].
      destruct (p0 ps 0 =? 6); [reflexivity|]. rewrite app_nil_r. reflexivity.
    + cbn [andb]. rewrite app_nil_r. apply tout_csi_plain_other; assumption.
Qed.

(* ---------- C14 (a): one token ---------- *)
Theorem reply_token k t : tout (exec_tok k t) = tout t ++ reply_of k t.
Proof.
  destruct k as [txt r w|b|b| |prefix ps f|n p]; cbn [exec_tok reply_of]; rewrite ?app_nil_r.
  - apply tout_on_screen.
  - apply tout_exec_c0.
  - apply tout_exec_esc.
  - reflexivity.
  - unfold exec_csi.
    destruct (prefix =? 0) eqn:E0.
    { apply Z.eqb_eq in E0. subst prefix. cbn [Z.eqb andb]. rewrite tout_csi_plain.
      destruct (f =? 99); destruct (f =? 110); cbn [andb]; reflexivity. }
    cbn [andb].
    destruct (prefix =? 63) eqn:E63.
    { apply Z.eqb_eq in E63. subst prefix. cbn [Z.eqb Pos.eqb andb].
      destruct (f =? 117); [reflexivity|].
      rewrite app_nil_r. tout_ifs; first [apply tout_dec_modes|reflexivity]. }
    cbn [andb].
    destruct (prefix =? 62) eqn:E62.
    { cbn [andb]. destruct (f =? 99); [reflexivity|]. rewrite app_nil_r. tout_ifs; tout_leaf. }
    cbn [andb]. rewrite app_nil_r. tout_ifs; tout_leaf.
  - apply tout_exec_osc.
Qed.

(* a token causes output iff it is one of the five queries *)
Lemma itoa_fuel_nonempty f : forall n acc, acc <> [] \/ f <> O -> itoa_fuel f n acc <> [].
Proof.
  induction f as [|f IH]; intros n acc H; cbn [itoa_fuel]; [destruct H; congruence|].
  destruct (n <? 10); [discriminate|]. apply IH. left. discriminate.
Qed.

Theorem reply_nonempty_iff k t : reply_of k t <> [] <-> is_query k = true.
Proof.
  destruct k as [txt r w|b|b| |prefix ps f|n p]; cbn [reply_of is_query];
    try (split; [intros H; exfalso; apply H; reflexivity|discriminate]).
  destruct ((prefix =? 0) && (f =? 99) && (p0 ps 0 =? 0)) eqn:A; cbn [orb]; [split; [reflexivity|discriminate]|].
  destruct ((prefix =? 62) && (f =? 99)) eqn:B; cbn [orb]; [split; [reflexivity|discriminate]|].
  destruct ((prefix =? 0) && (f =? 110)) eqn:C; cbn [andb orb].
  - destruct (p0 ps 0 =? 5); cbn [orb]; [split; [reflexivity|discriminate]|].
    destruct (p0 ps 0 =? 6); cbn [orb]; [split; [reflexivity|discriminate]|].
    destruct ((prefix =? 63) && (f =? 117)); [split; [reflexivity|discriminate]|].
    split; [intros H; exfalso; apply H; reflexivity|discriminate].
  - destruct ((prefix =? 63) && (f =? 117)); [split; [reflexivity|discriminate]|].
    split; [intros H; exfalso; apply H; reflexivity|discriminate].
Qed.

Corollary no_reply_unless_query k t : is_query k = false -> tout (exec_tok k t) = tout t.
Proof.
  intros H. rewrite reply_token.
  destruct (reply_of k t) eqn:E; [apply app_nil_r|].
  assert (Q : is_query k = true) by (apply (reply_nonempty_iff k t); rewrite E; discriminate). congruence.
Qed.

(* ---------- C14 (b): streams ---------- *)
Section Run.
  Variable wc : Z -> Z.
  Variable grid : bool.

  (* the tokens executed by the read loop, each with the state in which it is reached *)
  Fixpoint trace (fuel : nat) (t : term) (inp : list Z) : list (tok * term) :=
    match fuel with
    | O => []
    | S f =>
        if crashed t then [] else
        match parse_one wc grid inp with
        | PMore => []
        | PTok k rest => (k, t) :: trace f (exec_tok k t) rest
        end
    end.
  Definition trace_bytes (t : term) (inp : list Z) := trace (S (length inp)) t inp.

  (* the complete tokens of a byte string; depends on the bytes only *)
  Fixpoint tokenize (fuel : nat) (inp : list Z) : list tok :=
    match fuel with
    | O => []
    | S f => match parse_one wc grid inp with PMore => [] | PTok k rest => k :: tokenize f rest end
    end.

  Fixpoint states_from (t : term) (ks : list tok) : list term :=
    match ks with [] => [] | k :: r => t :: states_from (exec_tok k t) r end.

  Definition replies (tr : list (tok * term)) : list Z :=
    concat (map (fun kt => reply_of (fst kt) (snd kt)) tr).

  (* the bytes the tokenizer leaves unread (an incomplete last token) *)
  Fixpoint rest_after (fuel : nat) (inp : list Z) : list Z :=
    match fuel with
    | O => inp
    | S f => match parse_one wc grid inp with PMore => inp | PTok _ rest => rest_after f rest end
    end.
  Definition tokens (inp : list Z) : list tok := tokenize (S (length inp)) inp.
  Definition leftover (inp : list Z) : list Z := rest_after (S (length inp)) inp.

  Lemma tokenize_fuel f1 : forall f2 inp, (length inp < f1)%nat -> (length inp < f2)%nat ->
    tokenize f1 inp = tokenize f2 inp /\ rest_after f1 inp = rest_after f2 inp.
  Proof.
    induction f1 as [|f1 IH]; intros f2 inp H1 H2; [lia|]. destruct f2 as [|f2]; [lia|].
    cbn [tokenize rest_after]. destruct (parse_one wc grid inp) as [|k rest] eqn:E; [split; reflexivity|].
    apply parse_one_suffix, ss_length in E. destruct (IH f2 rest) as (A & B); [lia|lia|].
    rewrite A, B. split; reflexivity.
  Qed.

  Lemma tokens_step inp k rest : parse_one wc grid inp = PTok k rest ->
    tokens inp = k :: tokens rest /\ leftover inp = leftover rest.
  Proof.
    intros E. unfold tokens, leftover. cbn [tokenize rest_after]. rewrite E.
    apply parse_one_suffix, ss_length in E.
    destruct (tokenize_fuel (length inp) (S (length rest)) rest) as (A & B); [lia|lia|].
    rewrite A, B. split; reflexivity.
  Qed.
  Lemma tokens_blocked inp : parse_one wc grid inp = PMore -> tokens inp = [] /\ leftover inp = inp.
  Proof. intros E. unfold tokens, leftover. cbn [tokenize rest_after]. rewrite E. split; reflexivity. Qed.

  (* tokenizing a ++ b when a ends on a token boundary: the tokens of a, then those of b *)
  Lemma tokens_app_fuel f : forall a b, (length a < f)%nat -> rest_after f a = [] ->
    tokens (a ++ b) = tokenize f a ++ tokens b /\ leftover (a ++ b) = leftover b.
  Proof.
    induction f as [|f IH]; intros a b Hl Hr; [lia|]. cbn [tokenize rest_after] in *.
    destruct (parse_one wc grid a) as [|k rest] eqn:E.
    - subst a. split; reflexivity.
    - pose proof (parse_one_mono wc grid _ _ _ E b) as M. destruct (tokens_step _ _ _ M) as (A & B).
      apply parse_one_suffix, ss_length in E. destruct (IH rest b) as (C & D); [lia|exact Hr|].
      rewrite A, B, C, D. split; reflexivity.
  Qed.

  Theorem tokens_app a b : leftover a = [] ->
    tokens (a ++ b) = tokens a ++ tokens b /\ leftover (a ++ b) = leftover b.
  Proof. intros H. apply tokens_app_fuel; [lia|exact H]. Qed.

  (* what run_bytes leaves pending is what the tokenizer leaves unread (no crash) *)
  Lemma pending_leftover f : forall t inp, TInv t -> snd (run_pending wc grid f t inp) = rest_after f inp.
  Proof.
    induction f as [|f IH]; intros t inp Ht; cbn [run_pending rest_after]; [reflexivity|].
    rewrite (TInv_not_crashed t Ht). destruct (parse_one wc grid inp) as [|k rest]; [reflexivity|].
    apply IH, TInv_exec_tok, Ht.
  Qed.

  (* the trace is what it claims to be: its states are obtained by executing
     the preceding tokens, the final state by executing all of them *)
  Lemma trace_states f : forall t inp,
    map snd (trace f t inp) = states_from t (map fst (trace f t inp)).
  Proof.
    induction f as [|f IH]; intros t inp; cbn [trace]; [reflexivity|].
    destruct (crashed t); [reflexivity|].
    destruct (parse_one wc grid inp) as [|k rest]; [reflexivity|].
    cbn [map fst snd states_from]. f_equal. apply IH.
  Qed.

  Lemma trace_final f : forall t inp,
    fst (run_pending wc grid f t inp) = fold_left (fun t k => exec_tok k t) (map fst (trace f t inp)) t.
  Proof.
    induction f as [|f IH]; intros t inp; cbn [trace run_pending]; [reflexivity|].
    destruct (crashed t); [reflexivity|].
    destruct (parse_one wc grid inp) as [|k rest]; [reflexivity|].
    cbn [map fst fold_left]. apply IH.
  Qed.

  Lemma trace_tokens f : forall t inp, TInv t -> map fst (trace f t inp) = tokenize f inp.
  Proof.
    induction f as [|f IH]; intros t inp Ht; cbn [trace tokenize]; [reflexivity|].
    rewrite (TInv_not_crashed t Ht).
    destruct (parse_one wc grid inp) as [|k rest]; [reflexivity|].
    cbn [map fst]. f_equal. apply IH, TInv_exec_tok, Ht.
  Qed.

  Theorem out_pending f : forall t inp,
    tout (fst (run_pending wc grid f t inp)) = tout t ++ replies (trace f t inp).
  Proof.
    induction f as [|f IH]; intros t inp; cbn [trace run_pending]; [symmetry; apply app_nil_r|].
    destruct (crashed t); [symmetry; apply app_nil_r|].
    destruct (parse_one wc grid inp) as [|k rest]; [symmetry; apply app_nil_r|].
    rewrite IH, reply_token. unfold replies. cbn [map concat fst snd]. rewrite app_assoc. reflexivity.
  Qed.

  Theorem out_bytes t inp :
    tout (fst (run_bytes wc grid t inp)) = tout t ++ replies (trace_bytes t inp).
  Proof. apply out_pending. Qed.

  (* only the queries contribute: exactly one reply per query token, nothing else *)
  Lemma replies_only_queries tr : replies tr = replies (filter (fun kt => is_query (fst kt)) tr).
  Proof.
    unfold replies. induction tr as [|[k t] tr IH]; cbn [filter map concat fst snd]; [reflexivity|].
    destruct (is_query k) eqn:Q; cbn [map concat fst snd]; [f_equal; exact IH|].
    destruct (reply_of k t) eqn:E; [exact IH|].
    assert (Q' : is_query k = true) by (apply (reply_nonempty_iff k t); rewrite E; discriminate). congruence.
  Qed.

  Theorem out_bytes_queries t inp :
    tout (fst (run_bytes wc grid t inp)) =
    tout t ++ replies (filter (fun kt => is_query (fst kt)) (trace_bytes t inp)).
  Proof. rewrite out_bytes, <- replies_only_queries. reflexivity. Qed.

  Corollary out_silent t inp :
    forallb (fun kt => negb (is_query (fst kt))) (trace_bytes t inp) = true ->
    tout (fst (run_bytes wc grid t inp)) = tout t.
  Proof.
    intros H. rewrite out_bytes_queries.
    replace (filter _ _) with (@nil (tok * term)); [apply app_nil_r|].
    induction (trace_bytes t inp) as [|kt tr IH]; [reflexivity|].
    cbn [forallb filter] in *. apply andb_prop in H. destruct H as (H1 & H2).
    destruct (is_query (fst kt)); [discriminate|]. apply IH, H2.
  Qed.

  (* however the stream is cut into reads, the replies are those of the whole stream *)
  Theorem out_chunks t chunks :
    tout (fst (fold_left (hstep wc grid) (map HFeed chunks) (t, []))) =
    tout t ++ replies (trace_bytes t (concat chunks)).
  Proof. rewrite feeds_run_bytes. apply out_bytes. Qed.

  (* over whole histories: reads append replies, Resize writes nothing *)
  Lemma out_hstep st o :
    tout (fst (hstep wc grid st o)) = tout (fst st) ++
      match o with HFeed bs => replies (trace_bytes (fst st) (snd st ++ bs)) | HResize _ _ => [] end.
  Proof.
    destruct o as [bs|w h]; cbn [hstep].
    - apply out_bytes.
    - rewrite app_nil_r. destruct (crashed (fst st)); reflexivity.
  Qed.

  (* output only grows: nothing ever retracts or reorders bytes already written *)
  Theorem out_prefix_hist ops : forall st,
    exists more, tout (fst (fold_left (hstep wc grid) ops st)) = tout (fst st) ++ more.
  Proof.
    induction ops as [|o ops IH]; intros st; cbn [fold_left]; [exists []; symmetry; apply app_nil_r|].
    destruct (IH (hstep wc grid st o)) as (m & Hm). rewrite Hm, out_hstep, <- app_assoc. eexists. reflexivity.
  Qed.
End Run.

(* ---------- C14 (c): the cursor report is in range and in decimal ---------- *)
Lemma TInv_active t : TInv t -> Inv (active t).
Proof. intros [Hm Ha _ _]. unfold active. destruct (onalt t); assumption. Qed.

Theorem cpr_range t : TInv t ->
  1 <= cy (active t) + 1 <= sH (active t) /\ 1 <= cx (active t) + 1 <= sW (active t).
Proof. intros H. apply TInv_active in H. destruct H. lia. Qed.

Definition dec_step (a d : Z) : Z := a * 10 + (d - 48).
Definition parse_dec (l : list Z) : Z := fold_left dec_step l 0.

Lemma itoa_fuel_acc f : forall n acc, itoa_fuel f n acc = itoa_fuel f n [] ++ acc.
Proof.
  induction f as [|f IH]; intros n acc; cbn [itoa_fuel]; [reflexivity|].
  destruct (n <? 10); [reflexivity|].
  rewrite (IH (n / 10) (_ :: acc)), (IH (n / 10) [_]), <- app_assoc. reflexivity.
Qed.

Lemma itoa_fuel_roundtrip f : forall n, 0 <= n < 10 ^ Z.of_nat f -> parse_dec (itoa_fuel f n []) = n.
Proof.
  induction f as [|f IH]; intros n Hn; [assert (n = 0) by (cbn in Hn; lia); subst; reflexivity|].
  cbn [itoa_fuel]. destruct (Z.ltb_spec n 10).
  - unfold parse_dec, dec_step. cbn [fold_left]. rewrite Z.mod_small by lia. lia.
  - rewrite itoa_fuel_acc. unfold parse_dec. rewrite fold_left_app. cbn [fold_left].
    fold (parse_dec (itoa_fuel f (n / 10) [])). rewrite IH.
    + unfold dec_step. pose proof (Z.div_mod n 10). lia.
    + rewrite Nat2Z.inj_succ, Z.pow_succ_r in Hn by lia.
      split; [apply Z.div_pos; lia|apply Z.div_lt_upper_bound; lia].
Qed.

Lemma itoa_fuel_digits f : forall n acc, 0 <= n -> Forall (fun d => 48 <= d <= 57) acc ->
  Forall (fun d => 48 <= d <= 57) (itoa_fuel f n acc).
Proof.
  induction f as [|f IH]; intros n acc Hn Ha; cbn [itoa_fuel]; [exact Ha|].
  assert (D : 48 <= 48 + n mod 10 <= 57) by (pose proof (Z.mod_pos_bound n 10); lia).
  destruct (n <? 10); [constructor; assumption|].
  apply IH; [apply Z.div_pos; lia|constructor; assumption].
Qed.

(* strconv.Itoa round trip for every value a screen coordinate or flag word can take *)
Theorem itoa_roundtrip n : 0 <= n < 10 ^ 20 -> parse_dec (itoa n) = n.
Proof.
  intros Hn. unfold itoa. destruct (Z.ltb_spec n 0); [lia|]. apply (itoa_fuel_roundtrip 20). exact Hn.
Qed.
Theorem itoa_digits n : 0 <= n -> Forall (fun d => 48 <= d <= 57) (itoa n) /\ itoa n <> [].
Proof.
  intros Hn. unfold itoa. destruct (Z.ltb_spec n 0); [lia|]. split.
  - apply itoa_fuel_digits; [exact Hn|constructor].
  - apply itoa_fuel_nonempty. right. discriminate.
Qed.
Corollary itoa_inj a b : 0 <= a < 10 ^ 20 -> 0 <= b < 10 ^ 20 -> itoa a = itoa b -> a = b.
Proof. intros Ha Hb H. rewrite <- (itoa_roundtrip a Ha), <- (itoa_roundtrip b Hb), H. reflexivity. Qed.

(* the cursor-position report: ESC [ row ; col R with decimal row, col that
   read back as cy+1, cx+1 and lie on the screen *)
Theorem cpr_correct ps t : TInv t -> p0 ps 0 = 6 -> sH (active t) < 10 ^ 20 -> sW (active t) < 10 ^ 20 ->
  exists row col,
    tout (exec_tok (TCsi 0 ps 110) t) = tout t ++ [27; 91] ++ row ++ [59] ++ col ++ [82] /\
    Forall (fun d => 48 <= d <= 57) row /\ Forall (fun d => 48 <= d <= 57) col /\
    parse_dec row = cy (active t) + 1 /\ parse_dec col = cx (active t) + 1 /\
    1 <= parse_dec row <= sH (active t) /\ 1 <= parse_dec col <= sW (active t).
Proof.
  intros Ht Hp Hh Hw. pose proof (cpr_range t Ht) as (Hr & Hc).
  exists (itoa (cy (active t) + 1)), (itoa (cx (active t) + 1)).
  rewrite reply_token. cbn [reply_of]. rewrite Hp. cbn [Z.eqb Pos.eqb andb].
  rewrite !itoa_roundtrip by lia.
  repeat split; try lia; apply itoa_digits; lia.
Qed.

(* ---------- C14 (d): the individual queries ---------- *)
Theorem da1_rule ps t :
  tout (exec_tok (TCsi 0 ps 99) t) = tout t ++ (if p0 ps 0 =? 0 then [27; 91; 63; 49; 59; 50; 99] else []).
Proof. rewrite reply_token. cbn [reply_of Z.eqb Pos.eqb andb]. destruct (p0 ps 0 =? 0); reflexivity. Qed.

Theorem da2_rule ps t :
  tout (exec_tok (TCsi 62 ps 99) t) = tout t ++ [27; 91; 62; 49; 59; 52; 52; 48; 50; 59; 48; 99].
Proof. rewrite reply_token. reflexivity. Qed.

Theorem dsr_rule ps t : p0 ps 0 = 5 -> tout (exec_tok (TCsi 0 ps 110) t) = tout t ++ [27; 91; 48; 110].
Proof. intros H. rewrite reply_token. cbn [reply_of]. rewrite H. reflexivity. Qed.

Theorem kitty_query_rule ps t :
  tout (exec_tok (TCsi 63 ps 117) t) =
  tout t ++ [27; 91; 63] ++ itoa (kflags (if onalt t then kba t else kbm t)) ++ [117].
Proof. rewrite reply_token. reflexivity. Qed.

(* ---------- the queries as bytes in a stream ---------- *)
Section Stream.
  Variable wc : Z -> Z.
  Variable grid : bool.

  (* a complete token q that starts on a token boundary is executed in the
     state reached by exactly the bytes before it *)
  Lemma token_in_stream t pre q post k :
    (forall post', parse_one wc grid (q ++ post') = PTok k post') ->
    let r := run_bytes wc grid t pre in
    snd r = [] -> crashed (fst r) = false ->
    run_bytes wc grid t (pre ++ q ++ post) = run_bytes wc grid (exec_tok k (fst r)) post.
  Proof.
    intros E r Hs Hc. rewrite <- (run_bytes_app wc grid t pre (q ++ post)). fold r. rewrite Hs. cbn [app].
    apply run_bytes_step; [exact Hc|apply E].
  Qed.

  (* the five queries, byte for byte: each appends its one reply, computed
     from the state t' reached by the preceding bytes, and processing goes on *)
  Theorem queries_in_stream t pre post :
    let t' := fst (run_bytes wc grid t pre) in
    snd (run_bytes wc grid t pre) = [] -> crashed t' = false ->
    run_bytes wc grid t (pre ++ [27; 91; 99] ++ post) = run_bytes wc grid (reply da1_reply t') post /\
    run_bytes wc grid t (pre ++ [27; 91; 48; 99] ++ post) = run_bytes wc grid (reply da1_reply t') post /\
    run_bytes wc grid t (pre ++ [27; 91; 49; 99] ++ post) = run_bytes wc grid t' post /\
    run_bytes wc grid t (pre ++ [27; 91; 62; 99] ++ post) = run_bytes wc grid (reply da2_reply t') post /\
    run_bytes wc grid t (pre ++ [27; 91; 53; 110] ++ post) = run_bytes wc grid (reply dsr_ok_reply t') post /\
    run_bytes wc grid t (pre ++ [27; 91; 54; 110] ++ post) =
      run_bytes wc grid (reply (cpr_reply (cy (active t') + 1) (cx (active t') + 1)) t') post /\
    run_bytes wc grid t (pre ++ [27; 91; 63; 117] ++ post) =
      run_bytes wc grid (reply (kbd_query_reply (kflags (active_kbd t'))) t') post.
  Proof.
    intros t' Hs Hc.
    repeat split.
    - apply (token_in_stream t pre [27; 91; 99] post (TCsi 0 [] 99)); [reflexivity|exact Hs|exact Hc].
    - apply (token_in_stream t pre [27; 91; 48; 99] post (TCsi 0 [0] 99)); [reflexivity|exact Hs|exact Hc].
    - apply (token_in_stream t pre [27; 91; 49; 99] post (TCsi 0 [1] 99)); [reflexivity|exact Hs|exact Hc].
    - apply (token_in_stream t pre [27; 91; 62; 99] post (TCsi 62 [] 99)); [reflexivity|exact Hs|exact Hc].
    - apply (token_in_stream t pre [27; 91; 53; 110] post (TCsi 0 [5] 110)); [reflexivity|exact Hs|exact Hc].
    - apply (token_in_stream t pre [27; 91; 54; 110] post (TCsi 0 [6] 110)); [reflexivity|exact Hs|exact Hc].
    - apply (token_in_stream t pre [27; 91; 63; 117] post (TCsi 63 [] 117)); [reflexivity|exact Hs|exact Hc].
  Qed.
End Stream.

(* ---------- examples ---------- *)
(* "CSI c", "CSI 0 c" reply; "CSI 1 c" does not *)
Example da1_example :
  let run := fun inp => tout (fst (run_bytes (fun _ => 1) false (init_term 4 3) inp)) in
  run [27; 91; 99] = da1_reply /\ run [27; 91; 48; 99] = da1_reply /\ run [27; 91; 49; 99] = [].
Proof. vm_compute. repeat split. Qed.

(* two CPR queries around a cursor move, a Kitty push and query on the alternate
   screen: replies in stream order, each reflecting the state at its point *)
Example reply_order_example :
  tout (fst (run_bytes (fun _ => 1) false (init_term 10 5)
    ([27;91;54;110] ++ [27;91;51;59;52;72] ++ [27;91;54;110] ++ [27;91;63;49;48;52;57;104]
      ++ [27;91;62;53;117] ++ [27;91;63;117] ++ [97] ++ [27;91;53;110])))
  = [27;91;49;59;49;82] ++ [27;91;51;59;52;82] ++ [27;91;63;53;117] ++ [27;91;48;110].
Proof. vm_compute. reflexivity. Qed.

Example trace_example :
  map fst (trace_bytes (fun _ => 1) false (init_term 10 5) [97; 27;91;54;110; 7]) =
  [TGlyph [97] 97 1; TCsi 0 [6] 110; TC0 7].
Proof. vm_compute. reflexivity. Qed.

Example itoa_example : itoa 4402 = [52; 52; 48; 50] /\ parse_dec (itoa 65535) = 65535.
Proof. vm_compute. split; reflexivity. Qed.
