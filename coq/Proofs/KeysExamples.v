(* Concrete instances of the C12 theorems (each closed by computation), so that
   no implication is only vacuously true. *)
From Coq Require Import List ZArith Bool String.
From Termemu Require Import Base KeyKinds Gen_KeyTables Gen_KittySpec Keys KeysCase KeySpec KeysProofs.
Import ListNotations.
Open Scope Z_scope.

Definition ev0 (code rune mod_ event : Z) : keyev := mkEv code rune mod_ event 0 0 [].

(* K1 *)
Example k1_legacy : encode_key (mkKst 0 0 true) (ev0 KeyUp 0 0 KeyPress) = [27; 79; 65].               (* SS3 A *)
Proof. vm_compute. reflexivity. Qed.
Example k1_kitty : encode_key (mkKst 1 0 true) (ev0 KeyUp 0 0 KeyPress) = [27; 91; 65].                 (* CSI A *)
Proof. vm_compute. reflexivity. Qed.
Example k1_fallback : encode_key (mkKst 1 0 false) (ev0 KeyRune 228 ModShift KeyPress) = [195; 164].   (* "ä" *)
Proof. vm_compute. reflexivity. Qed.

(* K2 *)
Example k2_release_silent : encode_key (mkKst 13 0 false) (ev0 KeyUp 0 ModCtrl KeyRelease) = [].
Proof. vm_compute. reflexivity. Qed.
Example k2_release_reported :                                                              (* CSI 1;5:3A *)
  encode_key (mkKst 3 0 false) (ev0 KeyUp 0 ModCtrl KeyRelease) = [27; 91; 49; 59; 53; 58; 51; 65].
Proof. vm_compute. reflexivity. Qed.
Example k2_enter_release : encode_key (mkKst 3 0 false) (ev0 KeyEnter 0 0 KeyRelease) = [] /\
                           encode_key (mkKst 11 0 false) (ev0 KeyEnter 0 0 KeyRelease) = [27; 91; 49; 51; 59; 49; 58; 51; 117].
Proof. vm_compute. split; reflexivity. Qed.
Example k2_text_release : encode_key (mkKst 3 0 false) (ev0 KeyRune 97 0 KeyRelease) = [].
Proof. vm_compute. reflexivity. Qed.

(* K3: Ctrl+Shift+a, shifted key A, base layout key a, text "A", all flags:
   CSI 97:65:97 ; 6 ; 65 u *)
Definition k3_ev : keyev := mkEv KeyRune 97 (Z.lor ModCtrl ModShift) KeyPress 65 97 [65].
Example k3_bytes : encodeKittyKey k3_ev 31 =
  [27; 91; 57; 55; 58; 54; 53; 58; 57; 55; 59; 54; 59; 54; 53; 117].
Proof. vm_compute. reflexivity. Qed.
Example k3_decodes : decode_kitty (encodeKittyKey k3_ev 31) =
  Some (mkDec (KChar 97) 5 1 (Some 65) (Some 97) [65]).
Proof. vm_compute. reflexivity. Qed.
Example k3_functional : decode_kitty (encodeKittyKey (ev0 KeyF3 0 ModAlt KeyRepeat) 3) =
  Some (mkDec (KFunc "F3") 2 2 None None []).                                              (* CSI 13;3:2~ *)
Proof. vm_compute. reflexivity. Qed.
Example k3_keypad : decode_kitty (encodeKittyKey (ev0 KeyKPBegin 0 0 KeyPress) 1) =
  Some (mkDec (KFunc "KP_BEGIN") 0 1 None None []).                                        (* CSI E *)
Proof. vm_compute. reflexivity. Qed.

(* K4 *)
Example k4_f3 : go_kitty_form KeyF3 = Some (13, 126) /\ rst_forms rst_functional "F3" = [(13, 126)].
Proof. vm_compute. split; reflexivity. Qed.
Example k4_kp_begin : go_kitty_form KeyKPBegin = Some (1, 69) /\ rst_forms rst_functional "KP_BEGIN" = [(1, 69); (57427, 126)].
Proof. vm_compute. split; reflexivity. Qed.

(* K5 *)
Example k5_distinct : encodeKittyKey (ev0 KeyRune 105 ModCtrl KeyPress) 1 = [27; 91; 49; 48; 53; 59; 53; 117] /\
                      encodeKittyKey (ev0 KeyTab 0 0 KeyPress) 1 = [].       (* Ctrl+i is CSI 105;5u; Tab stays 0x09 *)
Proof. vm_compute. split; reflexivity. Qed.

(* K6 *)
Example k6_ctrl_alt : encode_key (mkKst 0 0 false) (ev0 KeyRune 99 (Z.lor ModCtrl ModAlt) KeyPress) = [27; 3].
Proof. vm_compute. reflexivity. Qed.
Example k6_astral : encode_key (mkKst 0 0 false) (ev0 KeyRune 128512 0 KeyPress) = [240; 159; 152; 128] /\
                    utf8_decode1 [240; 159; 152; 128] = Some 128512.
Proof. vm_compute. split; reflexivity. Qed.
Example k6_surrogate : encode_key (mkKst 0 0 false) (ev0 KeyRune 55296 0 KeyPress) = [239; 191; 189].
Proof. vm_compute. reflexivity. Qed.
Example k6_functional : decode_legacy_functional (encode_key (mkKst 0 0 false) (ev0 KeyDelete 0 (Z.lor ModShift ModCapsLock) KeyPress))
                        = Some (mkLDec (KFunc "DELETE") 1 LFTildeMod).                      (* CSI 3;2~ *)
Proof. vm_compute. reflexivity. Qed.
Example k6_mok : encode_key (mkKst 0 2 false) (ev0 KeyRune 97 ModCtrl KeyPress) = [27; 91; 50; 55; 59; 53; 59; 57; 55; 126].
Proof. vm_compute. reflexivity. Qed.
Example d46_caps : encode_key (mkKst 1 0 false) (ev0 KeyRune 97 ModCapsLock KeyPress) = [97] /\
                   encode_key (mkKst 1 0 false) (ev0 KeyRune 97 (Z.lor ModCtrl ModCapsLock) KeyPress) = [27; 91; 57; 55; 59; 54; 57; 117].
Proof. vm_compute. split; reflexivity. Qed.
