(* Proofs about the span-level row model (Model/Span.v): replace_range and its
   users preserve row well-formedness and refine the cell-level row operations
   of Model/Screen.v through [abs_line]. *)
From Coq Require Import List ZArith Bool Lia.
From Termemu Require Import Base Style Screen Parser BaseLemmas ScreenInv Span SpanText SpanRows.
Import ListNotations.
Open Scope Z_scope.

Lemma color_eqb_eq a b : color_eqb a b = true -> a = b.
Proof. destruct a, b; cbn; try discriminate; try reflexivity; intros H; apply Z.eqb_eq in H; congruence. Qed.
Lemma style_eqb_eq a b : style_eqb a b = true -> a = b.
Proof.
  unfold style_eqb. destruct a, b; cbn. intros H. apply andb_prop in H as [H H3]. apply andb_prop in H as [H1 H2].
  apply color_eqb_eq in H1, H2. apply Z.eqb_eq in H3. congruence.
Qed.

(* ---------- the two scans of replaceRange ---------- *)
Lemma scan_start_found spans : forall i pos x, pos <= x < pos + spans_width spans ->
  exists pre s post, spans = pre ++ s :: post /\
    scan_start spans i pos x = (i + zlen pre, x - (pos + spans_width pre), pos + spans_width pre, s :: post) /\
    pos + spans_width pre <= x < pos + spans_width pre + sp_width s.
Proof.
  induction spans as [|sp rest IH]; intros i pos x Hx; cbn [spans_width] in Hx; [lia|].
  cbn [scan_start]. destruct (Z.ltb_spec x (pos + sp_width sp)).
  - exists [], sp, rest. cbn [app spans_width]. rewrite zlen_nil, !Z.add_0_r. repeat split; lia.
  - destruct (IH (i + 1) (pos + sp_width sp) x ltac:(lia)) as (pre & s & post & -> & E & B).
    exists (sp :: pre), s, post. cbn [app spans_width]. rewrite zlen_cons. rewrite E.
    split; [reflexivity|]. split; [repeat (f_equal; try lia)|lia].
Qed.
Lemma scan_start_notfound spans : Forall (fun sp => 0 <= sp_width sp) spans -> forall i pos x,
  pos + spans_width spans <= x -> scan_start spans i pos x = (i + zlen spans, 0, pos + spans_width spans, []).
Proof.
  induction 1 as [|sp rest Hs Hr IH]; intros i pos x Hx; cbn [spans_width scan_start] in *.
  - change (zlen (@nil span)) with 0. repeat (f_equal; try lia).
  - assert (0 <= spans_width rest).
    { clear -Hr. induction Hr; cbn [spans_width]; lia. }
    destruct (Z.ltb_spec x (pos + sp_width sp)); [lia|]. rewrite IH by lia. rewrite zlen_cons. repeat (f_equal; try lia).
Qed.
Lemma scan_end_found rem : rem <> [] -> forall i pos xn, xn <= pos + spans_width rem ->
  exists mid e post, rem = mid ++ e :: post /\
    scan_end rem i pos xn = (Some (i + zlen mid, xn - (pos + spans_width mid)), pos + spans_width mid + sp_width e, post) /\
    xn <= pos + spans_width mid + sp_width e /\ (mid = [] \/ pos + spans_width mid < xn).
Proof.
  induction rem as [|sp rest IH]; intros Hne i pos xn Hx; [congruence|]. cbn [spans_width] in Hx. cbn [scan_end].
  destruct (Z.leb_spec xn (pos + sp_width sp)).
  - exists [], sp, rest. cbn [app spans_width]. rewrite zlen_nil, !Z.add_0_r. repeat split; auto.
  - assert (rest <> []) by (intros ->; cbn in Hx; lia).
    destruct (IH H0 (i + 1) (pos + sp_width sp) xn ltac:(lia)) as (mid & e & post & -> & E & B1 & B2).
    exists (sp :: mid), e, post. cbn [app spans_width]. rewrite zlen_cons, E.
    split; [reflexivity|]. split; [repeat (f_equal; try lia)|]. split; [lia|]. right.
    destruct B2 as [->|B2]; cbn [spans_width]; lia.
Qed.

Section WithOracle.
  Variable wc : Z -> Z.
  Hypothesis Hmb : wc_multibyte wc.
  Notation gcl := (gcl wc).
  Notation gspan := (gspan wc).
  Notation gspan0 := (gspan0 wc).
  Notation gl_span := (gl_span wc).
  Notation gl_spans := (gl_spans wc).

  Definition good_line (l : spanline) : Prop := Forall gspan (sl_spans l).
  Definition gl_line (l : spanline) : list glyph := gl_spans (sl_spans l).

  Lemma good_spans_gl spans : Forall gspan spans ->
    abs_spans wc spans = gcells (gl_spans spans) /\ gwidth (gl_spans spans) = spans_width spans /\
    glyphs_ok (gl_spans spans).
  Proof.
    induction 1 as [|sp spans Hs _ IH]; [repeat split; constructor|].
    destruct (gspan_gl wc sp Hs) as (A & B & C & _). destruct IH as (A' & B' & C').
    unfold abs_spans, SpanText.gl_spans in *. cbn [flat_map spans_width]. rewrite gcells_app, gwidth_app, A, A', B, B'.
    repeat split. apply glyphs_ok_app. auto.
  Qed.
  Lemma gspan_width sp : gspan sp -> 0 < sp_width sp.
  Proof. intros H; apply H. Qed.
  Lemma good_widths spans : Forall gspan spans -> Forall (fun sp => 0 <= sp_width sp) spans.
  Proof. intros H. eapply Forall_impl; [|exact H]. intros sp Hs. apply gspan_width in Hs. lia. Qed.
  Lemma good_widths1 spans : Forall gspan spans -> Forall (fun sp => 1 <= sp_width sp) spans.
  Proof. intros H. eapply Forall_impl; [|exact H]. intros sp Hs. apply gspan_width in Hs. lia. Qed.
  Lemma gl_spans_opt b sp : gspan0 sp -> (b = (0 <? sp_width sp)) -> gl_spans (opt_span b sp) = gl_span sp /\ Forall gspan (opt_span b sp).
  Proof.
    intros H ->. destruct (Z.ltb_spec 0 (sp_width sp)); cbn [opt_span SpanText.gl_spans flat_map].
    - rewrite app_nil_r. split; [reflexivity|]. destruct H as [H|H]; [lia|]. constructor; [exact H|constructor].
    - destruct H as [H|H]; [|apply gspan_width in H; lia]. destruct (gl_span_0 wc _ H) as [-> _]. split; [reflexivity|constructor].
  Qed.

  (* ---------- blanks ---------- *)
  Lemma gcl_space : gcl ([32], 1).
  Proof.
    exists 32. cbn [fst snd]. split; [reflexivity|].
    pose proof (Hmb [32] 32 1 true eq_refl). pose proof (cluster_width_pos wc 32). lia.
  Qed.
  Lemma bytes_repeat c (w : Z) k : bytes (repeat (c, w) k) = concat_rep c k.
  Proof. induction k as [|k IH]; [reflexivity|]. cbn [repeat concat_rep]. unfold bytes in *. cbn [flat_map fst]. rewrite IH. reflexivity. Qed.
  Lemma concat_rep_single b k : concat_rep [b] k = repeat b k.
  Proof. induction k as [|k IH]; [reflexivity|]. cbn [concat_rep repeat app]. rewrite IH. reflexivity. Qed.
  Lemma cls_width_repeat c w k : cls_width (repeat (c, w) k) = w * Z.of_nat k.
  Proof. induction k as [|k IH]; [cbn; lia|]. cbn [repeat cls_width]. rewrite IH. lia. Qed.
  Lemma gl_text_repeat st c w k : gl_text st (repeat (c, w) k) = repeat (c, w, st) k.
  Proof. induction k as [|k IH]; [reflexivity|]. cbn [repeat]. change (gl_text st ((c, w) :: repeat (c, w) k)) with ((c, w, st) :: gl_text st (repeat (c, w) k)). rewrite IH. reflexivity. Qed.
  Lemma Forall_repeat {A} (P : A -> Prop) a k : P a -> Forall P (repeat a k).
  Proof. intros H. induction k; cbn; auto. Qed.

  Definition blanks (st : style) (k : Z) : list glyph := zrepeat ([32], 1, st) k.
  Lemma gl_blank_span st k : 0 < k -> gspan (blank_span st k) /\ gl_span (blank_span st k) = blanks st k.
  Proof.
    intros Hk. split.
    - split; [exact Hk|]. split; [reflexivity|]. intros H; discriminate.
    - unfold SpanText.gl_span, blank_span, mk_span, is_text. cbn [sp_width sp_text sp_rune sp_sty nonempty].
      destruct (Z.leb_spec k 0); [lia|reflexivity].
  Qed.
  Lemma gcells_blanks st k : gcells (blanks st k) = zrepeat (blank st) k.
  Proof. apply gcells_zrepeat1. Qed.
  Lemma gwidth_blanks st k : 0 <= k -> gwidth (blanks st k) = k.
  Proof. apply gwidth_zrepeat1. Qed.

  (* an insert: empty or good; a repeat insert repeats a one-cell rune *)
  Definition ins_ok (ins : span) : Prop :=
    gspan0 ins /\ (0 < sp_width ins -> is_text ins = false -> narrow_rune wc (sp_rune ins)).

  Lemma narrow_gcl r : narrow_rune wc r -> gcl (encode_rune r, 1).
  Proof.
    intros [Hs (r' & Hd)]. exists r'. cbn [fst snd]. split; [exact Hd|].
    unfold step_cluster in Hs. rewrite Hd in Hs. inversion Hs. reflexivity.
  Qed.

  Lemma fill_gap_spec ins st gap : ins_ok ins -> 0 < gap ->
    gspan (fill_gap ins st gap) /\
    gl_span (fill_gap ins st gap) = gl_span ins ++ blanks (if sp_width ins =? 0 then st else sp_sty ins) gap.
  Proof.
    intros [Hg Hn] Hgap. unfold fill_gap. destruct (Z.eqb_spec (sp_width ins) 0) as [E0|E0].
    { destruct (gl_span_0 wc _ E0) as [-> _]. apply gl_blank_span, Hgap. }
    destruct Hg as [Hg|Hg]; [lia|]. pose proof Hg as (Hw & Hi & Ht).
    destruct (is_text ins) eqn:Et; cbn [negb andb].
    2:{ destruct (Z.eqb_spec (sp_rune ins) 32) as [Er|Er].
        - (* blanks in the insert's style: widen *)
          split.
          + split; [cbn; lia|]. split; [exact Hi|]. unfold is_text, set_width in *; cbn [sp_text]. rewrite Et. discriminate.
          + unfold SpanText.gl_span, set_width, is_text in *. cbn [sp_width sp_text sp_rune sp_sty]. rewrite Et, Er.
            destruct (Z.leb_spec (sp_width ins + gap) 0); [lia|]. destruct (Z.leb_spec (sp_width ins) 0); [lia|].
            unfold blanks. rewrite <- zrepeat_app by lia. reflexivity.
        - (* other rune: becomes text *)
          specialize (Hn Hw eq_refl). pose proof (narrow_gcl _ Hn) as Gr.
          set (cls := repeat (encode_rune (sp_rune ins), 1) (Z.to_nat (sp_width ins)) ++ repeat ([32], 1) (Z.to_nat gap)).
          assert (Hc : Forall gcl cls) by (apply Forall_app; split; apply Forall_repeat; [exact Gr|exact gcl_space]).
          assert (Hb : bytes cls = concat_rep (encode_rune (sp_rune ins)) (Z.to_nat (sp_width ins)) ++ zrepeat 32 gap).
          { unfold cls. rewrite bytes_app, !bytes_repeat, concat_rep_single. reflexivity. }
          assert (Hcw : cls_width cls = sp_width ins + gap).
          { unfold cls. rewrite cls_width_app, !cls_width_repeat. lia. }
          rewrite <- Hb. destruct (set_text_good wc ins cls _ Hc Hcw) as [G1 G2]. split.
          + destruct G2 as [G2|G2]; [cbn in G2; lia|exact G2].
          + rewrite G1. unfold cls. rewrite gl_text_app, !gl_text_repeat.
            unfold SpanText.gl_span. destruct (Z.leb_spec (sp_width ins) 0); [lia|]. rewrite Et. reflexivity. }
    destruct (Ht eq_refl) as (cls & Hc & Hb & Hcw).
    set (cls' := cls ++ repeat ([32], 1) (Z.to_nat gap)).
    assert (Hc' : Forall gcl cls') by (apply Forall_app; split; [exact Hc|apply Forall_repeat, gcl_space]).
    assert (Hb' : bytes cls' = sp_text ins ++ zrepeat 32 gap).
    { unfold cls'. rewrite bytes_app, bytes_repeat, concat_rep_single, Hb. reflexivity. }
    assert (Hcw' : cls_width cls' = sp_width ins + gap).
    { unfold cls'. rewrite cls_width_app, cls_width_repeat. lia. }
    rewrite <- Hb'. destruct (set_text_good wc ins cls' _ Hc' Hcw') as [G1 G2]. split.
    + destruct G2 as [G2|G2]; [cbn in G2; lia|exact G2].
    + rewrite G1. unfold cls'. rewrite gl_text_app, gl_text_repeat.
      unfold SpanText.gl_span. destruct (Z.leb_spec (sp_width ins) 0); [lia|]. rewrite Et, Hb, (clusters_good _ _ Hc). reflexivity.
  Qed.
  Lemma gspan_text_gl sp : gspan sp -> is_text sp = true ->
    exists cls, Forall gcl cls /\ sp_text sp = bytes cls /\ cls_width cls = sp_width sp /\
      gl_span sp = gl_text (sp_sty sp) cls.
  Proof.
    intros (Hw & Hi & Ht) E. destruct (Ht E) as (cls & Hc & Hb & Hcw). exists cls. repeat split; auto.
    unfold SpanText.gl_span. destruct (Z.leb_spec (sp_width sp) 0); [lia|]. rewrite E, Hb, (clusters_good _ _ Hc). reflexivity.
  Qed.

  (* ---------- the start of the window ---------- *)
  Lemma start_cut_spec sp so ins0 cutall : gspan sp -> 0 <= so < sp_width sp ->
    exists ins1 lft hasLeft, start_cut wc sp so ins0 cutall = (ins1, lft, hasLeft) /\
      Forall gspan (opt_span hasLeft lft) /\
      ((exists Gr, gl_span sp = gl_spans (opt_span hasLeft lft) ++ Gr /\
                   gwidth (gl_spans (opt_span hasLeft lft)) = so /\ ins1 = ins0)
       \/
       (exists Ga g Gr k, gl_span sp = Ga ++ g :: Gr /\ gwidth Ga + k = so /\ 0 < k < gw g /\ gsty g = sp_sty sp /\
          glyphs_ok Ga /\
          ((sp_width ins0 = 0 /\ cutall = true /\ ins1 = blank_span (sp_sty sp) k /\
            gl_spans (opt_span hasLeft lft) = Ga)
           \/ ((sp_width ins0 <> 0 \/ cutall = false) /\ ins1 = ins0 /\
               gl_spans (opt_span hasLeft lft) = Ga ++ [g])))).
  Proof.
    intros Hg Hso. unfold start_cut. destruct (Z.ltb_spec 0 so) as [Hpos|Hz].
    2:{ (* so = 0 *)
      cbn [sp_width empty_span]. change (0 <? 0) with false. cbn [andb].
      eexists _, _, _. split; [reflexivity|]. cbn [opt_span]. split; [constructor|]. left.
      exists (gl_span sp). cbn. repeat split. lia. }
    destruct (split_span_spec wc Hmb sp so Hg ltac:(lia)) as (lf & rt & wd & E & Hlf & Hrt & Slf & Srt & D).
    rewrite E. destruct (gspan0_gl wc lf Hlf) as (_ & Wlf & Olf & _).
    destruct D as [(W0 & Wl & Wr & GL)|(Gwd & Swd & Twd & Tlf & Bk & Wsum & GL & Gg)].
    - (* boundary *)
      rewrite W0. change (0 <? 0) with false. cbn [andb].
      eexists _, _, _. split; [reflexivity|].
      destruct (gl_spans_opt (0 <? sp_width lf) lf Hlf eq_refl) as [G1 G2]. split; [exact G2|]. left.
      exists (gl_span rt). rewrite G1. repeat split; auto. lia.
    - (* a wide cluster is cut *)
      pose proof (gspan_width _ Gwd) as Wwd. destruct (Z.ltb_spec 0 (sp_width wd)); [|lia]. cbn [andb].
      set (g := (sp_text wd, sp_width wd, sp_sty sp)) in *.
      assert (Cg : gl_span sp = gl_span lf ++ g :: gl_span rt) by (rewrite GL, Gg; reflexivity).
      destruct ((sp_width ins0 =? 0) && cutall) eqn:Etr.
      + apply andb_prop in Etr as [E1 E2]. apply Z.eqb_eq in E1.
        eexists _, _, _. split; [reflexivity|].
        destruct (gl_spans_opt (0 <? sp_width lf) lf Hlf eq_refl) as [G1 G2]. split; [exact G2|]. right.
        exists (gl_span lf), g, (gl_span rt), (so - sp_width lf). split; [exact Cg|]. split; [lia|].
        split; [cbn [gw g fst snd]; lia|]. split; [reflexivity|]. split; [exact Olf|]. left.
        rewrite Swd. auto.
      + assert (Hnt : sp_width ins0 <> 0 \/ cutall = false).
        { apply andb_false_iff in Etr as [Etr|Etr]; [left; apply Z.eqb_neq, Etr|right; exact Etr]. }
        destruct (Z.ltb_spec 0 (sp_width lf)) as [Hl|Hl].
        * (* left ++ wide *)
          destruct Hlf as [Hlf|Hlf]; [lia|]. destruct Tlf as [Tlf|Tlf]; [lia|].
          destruct (gspan_text_gl lf Hlf Tlf) as (cls1 & Hc1 & Hb1 & Hw1 & Gl1).
          destruct (gspan_text_gl wd Gwd Twd) as (clsw & Hcw & Hbw & Hww & Glw).
          eexists _, _, _. split; [reflexivity|]. cbn [opt_span].
          assert (Hc : Forall gcl (cls1 ++ clsw)) by (apply Forall_app; auto).
          destruct (set_text_good wc lf (cls1 ++ clsw) (sp_width lf + sp_width wd) Hc ltac:(rewrite cls_width_app; lia)) as [G1 G2].
          rewrite bytes_app, <- Hb1, <- Hbw in G1, G2.
          split. { constructor; [|constructor]. destruct G2 as [G2|G2]; [cbn in G2; lia|exact G2]. }
          right. exists (gl_span lf), g, (gl_span rt), (so - sp_width lf). split; [exact Cg|]. split; [lia|].
          split; [cbn [gw g fst snd]; lia|]. split; [reflexivity|]. split; [exact Olf|]. right.
          split; [exact Hnt|]. split; [reflexivity|]. cbn [SpanText.gl_spans flat_map]. rewrite app_nil_r, G1, gl_text_app.
          rewrite Gl1. rewrite Slf, Swd in *. rewrite <- Glw, Gg. reflexivity.
        * (* the wide cluster starts the span *)
          destruct Hlf as [Hlf|Hlf]; [|apply gspan_width in Hlf; lia].
          destruct (gl_span_0 wc _ Hlf) as [Glf _].
          eexists _, _, _. split; [reflexivity|]. cbn [opt_span]. split; [constructor; [exact Gwd|constructor]|].
          right. exists [], g, (gl_span rt), so. rewrite Glf in Cg. split; [exact Cg|]. split; [reflexivity|].
          split; [cbn [gw g fst snd]; lia|]. split; [reflexivity|]. split; [constructor|]. right.
          split; [exact Hnt|]. split; [reflexivity|]. cbn [SpanText.gl_spans flat_map]. rewrite app_nil_r. exact Gg.
  Qed.

  (* ---------- the end of the window ---------- *)
  Lemma end_cut_spec esp eo ins1 : gspan esp -> 0 <= eo <= sp_width esp -> ins_ok ins1 ->
    exists ins rgt hasRight, end_cut wc esp eo ins1 = (ins, rgt, hasRight) /\
      Forall gspan (opt_span hasRight rgt) /\ gspan0 ins /\
      ((exists Gl, gl_span esp = Gl ++ gl_spans (opt_span hasRight rgt) /\ gwidth Gl = eo /\ ins = ins1)
       \/
       (exists Gl g k, gl_span esp = Gl ++ g :: gl_spans (opt_span hasRight rgt) /\ gwidth Gl + k = eo /\
          0 < k < gw g /\ gsty g = sp_sty esp /\
          gl_span ins = gl_span ins1 ++ blanks (if sp_width ins1 =? 0 then sp_sty esp else sp_sty ins1) (gw g - k))).
  Proof.
    intros Hg Heo Hins. unfold end_cut. pose proof (gspan_width _ Hg) as Hw.
    destruct (Z.ltb_spec eo (sp_width esp)) as [Hlt|Hge].
    2:{ cbn [sp_width empty_span]. change (0 <? 0) with false. cbn iota.
        eexists _, _, _. split; [reflexivity|]. cbn [opt_span]. split; [constructor|]. split; [apply Hins|]. left.
        exists (gl_span esp). cbn [SpanText.gl_spans flat_map]. rewrite app_nil_r.
        destruct (gspan_gl wc esp Hg) as (_ & Wg & _). repeat split; auto. lia. }
    destruct (Z.eq_dec eo 0) as [->|Hne].
    { unfold split_span. change (0 <=? 0) with true. cbn iota. cbn [sp_width empty_span]. change (0 <? 0) with false. cbn iota.
      eexists _, _, _. split; [reflexivity|].
      destruct (gl_spans_opt (0 <? sp_width esp) esp (or_intror Hg) eq_refl) as [G1 G2].
      split; [exact G2|]. split; [apply Hins|]. left. exists []. rewrite G1. repeat split. }
    destruct (split_span_spec wc Hmb esp eo Hg ltac:(lia)) as (lf & rt & wd & E & Hlf & Hrt & Slf & Srt & D).
    rewrite E. destruct (gspan0_gl wc lf Hlf) as (_ & Wlf & Olf & _).
    destruct (gl_spans_opt (0 <? sp_width rt) rt Hrt eq_refl) as [G1 G2].
    destruct D as [(W0 & Wl & Wr & GL)|(Gwd & Swd & Twd & Tlf & Bk & Wsum & GL & Gg)].
    - rewrite W0. change (0 <? 0) with false. cbn iota.
      eexists _, _, _. split; [reflexivity|]. split; [exact G2|]. split; [apply Hins|]. left.
      exists (gl_span lf). rewrite G1. repeat split; auto. lia.
    - pose proof (gspan_width _ Gwd) as Wwd. destruct (Z.ltb_spec 0 (sp_width wd)); [|lia].
      destruct (fill_gap_spec ins1 (sp_sty wd) (sp_width esp - eo - sp_width rt) Hins ltac:(lia)) as [F1 F2].
      eexists _, _, _. split; [reflexivity|]. split; [exact G2|]. split; [right; exact F1|]. right.
      exists (gl_span lf), (sp_text wd, sp_width wd, sp_sty esp), (eo - sp_width lf).
      rewrite G1. split; [rewrite GL, Gg; reflexivity|]. split; [lia|]. split; [cbn [gw fst snd]; lia|].
      split; [reflexivity|]. rewrite F2, Swd. cbn [gw fst snd]. do 2 f_equal. lia.
  Qed.
  (* ---------- replaceRange ---------- *)
  (* where the window [x, x+n) starts and ends in the glyph list of the row, and
     what replaceRange keeps on either side of the insert *)
  Definition start_fact (gl : list glyph) (x : Z) (trunc : Prop) (P : list glyph) : Prop :=
    (exists G1 Gs, gl = G1 ++ Gs /\ gwidth G1 = x /\ P = G1)
    \/ (exists G1 g Gs k, gl = G1 ++ g :: Gs /\ gwidth G1 + k = x /\ 0 < k < gw g /\
          ((trunc /\ P = G1 ++ blanks (gsty g) k) \/ (~ trunc /\ P = G1 ++ [g]))).
  Definition end_fact (gl : list glyph) (xn : Z) (ins0 : span) (Q : list glyph) : Prop :=
    (exists Ge G2, gl = Ge ++ G2 /\ gwidth Ge = xn /\ Q = G2)
    \/ (exists Ge g G2 k, gl = Ge ++ g :: G2 /\ gwidth Ge + k = xn /\ 0 < k < gw g /\
          Q = blanks (if sp_width ins0 =? 0 then gsty g else sp_sty ins0) (gw g - k) ++ G2).
  Definition rr_post (l : spanline) (x n : Z) (ins0 : span) (r : spanline) : Prop :=
    good_line r /\ sl_cache r = spans_width (sl_spans r) /\
    exists P Q, gl_line r = P ++ gl_span ins0 ++ Q /\
      start_fact (gl_line l) x (sp_width ins0 = 0 /\ spans_width (sl_spans l) <= x + n) P /\
      end_fact (gl_line l) (x + n) ins0 Q.

  Lemma gl_spans_cons sp l : gl_spans (sp :: l) = gl_span sp ++ gl_spans l.
  Proof. reflexivity. Qed.
  Lemma gwidth_good spans : Forall gspan spans -> gwidth (gl_spans spans) = spans_width spans.
  Proof. intros H. apply good_spans_gl, H. Qed.
  Lemma glyphs_good spans : Forall gspan spans -> glyphs_ok (gl_spans spans).
  Proof. intros H. apply good_spans_gl, H. Qed.
  Lemma gwidth_nonneg gl : glyphs_ok gl -> 0 <= gwidth gl.
  Proof. apply wsum_nonneg. Qed.
  Lemma spans_width_opt b sp : gspan0 sp -> b = (0 <? sp_width sp) -> spans_width (opt_span b sp) = sp_width sp.
  Proof.
    intros H ->. destruct (Z.ltb_spec 0 (sp_width sp)); cbn [opt_span spans_width]; [lia|].
    destruct H as [H|H]; [lia|]. apply gspan_width in H. lia.
  Qed.
  Lemma narrow_space : narrow_rune wc 32.
  Proof.
    split; [|exists 32; reflexivity]. change (encode_rune 32) with [32].
    pose proof (gcl_step wc [32] 1 [] gcl_space) as H. cbn [app] in H. exact H.
  Qed.
  Lemma ins_ok_blank st k : 0 < k -> ins_ok (blank_span st k).
  Proof. intros Hk. split; [right; apply gl_blank_span, Hk|]. intros _ _. exact narrow_space. Qed.

  Lemma singles_split cls off : Forall gcl cls ->
    Forall (fun p : list Z * Z => zlen (fst p) = 1 /\ snd p = 1) cls -> 0 <= off <= cls_width cls ->
    exists c1 c2, cls = c1 ++ c2 /\ cls_width c1 = off /\ zlen (bytes c1) = off.
  Proof.
    intros Hc Hs Ho. rewrite cls_width_wsum in Ho.
    destruct (wsum_split snd cls (gcl_widths wc _ Hc) off Ho) as [(c1 & c2 & -> & H1)|(c1 & [c w] & c2 & -> & H1)].
    - rewrite <- cls_width_wsum in H1. exists c1, c2. split; [reflexivity|]. split; [exact H1|].
      apply Forall_app in Hs as [Hs _]. rewrite (singles_len _ Hs). exact H1.
    - apply Forall_app in Hs as [_ Hs]. inversion Hs as [|? ? [_ S1] _]; subst. cbn [snd] in *. lia.
  Qed.

  Lemma rr_splice_spec l pre s post mid e post' x n ins0 :
    good_line l -> sl_cache l = spans_width (sl_spans l) ->
    sl_spans l = pre ++ s :: post -> s :: post = mid ++ e :: post' ->
    spans_width pre <= x < spans_width pre + sp_width s ->
    x + n <= spans_width pre + spans_width mid + sp_width e ->
    (mid = [] \/ spans_width pre + spans_width mid < x + n) ->
    0 <= n -> ~ (n = 0 /\ sp_width ins0 = 0) -> ins_ok ins0 ->
    rr_post l x n ins0
      (rr_splice wc l (zlen pre) (x - spans_width pre) (zlen pre + zlen mid)
         (x + n - (spans_width pre + spans_width mid)) (spans_width (sl_spans l)) x n ins0).
  Proof.
    intros Hgood Hcache Hsp Hrem Hx Hxn Hmid Hn Hnz Hins.
    set (W := spans_width (sl_spans l)) in *.
    assert (Hsp2 : sl_spans l = (pre ++ mid) ++ e :: post') by (rewrite <- app_assoc, <- Hrem; exact Hsp).
    unfold good_line in Hgood. pose proof Hgood as Hall. pose proof Hgood as Hgood2. rewrite Hsp in Hgood. rewrite Hsp2 in Hgood2.
    apply Forall_app in Hgood as [Gpre Gs]. inversion Gs as [|? ? Gs1 Gpost]; subst.
    apply Forall_app in Hgood2 as [Gpm Ge]. inversion Ge as [|? ? Ge1 Gpost']; subst.
    apply Forall_app in Gpm as [_ Gmid].
    assert (HW : W = spans_width pre + spans_width mid + sp_width e + spans_width post').
    { unfold W. rewrite Hsp2, !spans_width_app. cbn [spans_width]. lia. }
    assert (HW1 : W = spans_width pre + sp_width s + spans_width post).
    { unfold W. rewrite Hsp, !spans_width_app. cbn [spans_width]. lia. }
    assert (GLs : gl_line l = gl_spans pre ++ gl_span s ++ gl_spans post).
    { unfold gl_line. rewrite Hsp, gl_spans_app, gl_spans_cons. reflexivity. }
    assert (GLe : gl_line l = gl_spans (pre ++ mid) ++ gl_span e ++ gl_spans post').
    { unfold gl_line. rewrite Hsp2, gl_spans_app, gl_spans_cons. reflexivity. }
    pose proof (gwidth_good _ Gpre) as Wpre. pose proof (gspan_width _ Gs1) as Ws. pose proof (gspan_width _ Ge1) as We.
    assert (Wpm : gwidth (gl_spans (pre ++ mid)) = spans_width pre + spans_width mid).
    { rewrite gwidth_good by (apply Forall_app; auto). apply spans_width_app. }
    destruct (gspan_gl wc s Gs1) as (_ & Wgs & Ogs & _). destruct (gspan_gl wc e Ge1) as (_ & Wge & Oge & _).
    pose proof (good_widths _ Gpost') as Npost'.
    assert (Npost'' : 0 <= spans_width post').
    { clear -Npost'. induction Npost'; cbn [spans_width]; lia. }
    unfold rr_splice.
    assert (Zs : znth (zlen pre) (sl_spans l) empty_span = s) by (rewrite Hsp; apply znth_app_len).
    assert (Ze : znth (zlen pre + zlen mid) (sl_spans l) empty_span = e).
    { rewrite Hsp2. rewrite <- zlen_app. apply znth_app_len. }
    assert (Fp : zfirstn (zlen pre) (sl_spans l) = pre) by (rewrite Hsp; apply zfirstn_app_len).
    assert (Sk : zskipn (zlen pre + zlen mid + 1) (sl_spans l) = post').
    { rewrite Hsp2. rewrite <- zlen_app. change (e :: post') with ([e] ++ post'). rewrite app_assoc.
      replace (zlen (pre ++ mid) + 1) with (zlen ((pre ++ mid) ++ [e])) by (rewrite (zlen_app _ [e]); reflexivity).
      apply zskipn_app_len. }
    assert (Sk1 : zskipn (zlen pre + 1) (sl_spans l) = post).
    { rewrite Hsp. change (s :: post) with ([s] ++ post). rewrite app_assoc.
      replace (zlen pre + 1) with (zlen (pre ++ [s])) by (rewrite (zlen_app _ [s]); reflexivity). apply zskipn_app_len. }
    rewrite Zs, Ze, Fp, Sk, Sk1. clear Zs Ze Fp Sk Sk1.
    set (so := x - spans_width pre) in *. set (eo := x + n - (spans_width pre + spans_width mid)) in *.
    (* ---- the general path, used by every branch that does not return early ---- *)
    assert (General :
      rr_post l x n ins0
        (let '(ins1, lft, hasLeft) := start_cut wc s so ins0 (W <=? x + n) in
         let '(ins, rgt, hasRight) := end_cut wc e eo ins1 in
         let res := pre ++ opt_span hasLeft lft ++ opt_span (0 <? sp_width ins) ins ++ opt_span hasRight rgt ++ post' in
         mkLine res (spans_width res))).
    { destruct (start_cut_spec s so ins0 (W <=? x + n) Gs1 ltac:(unfold so; lia))
        as (ins1 & lft & hasLeft & E1 & GL1 & D1).
      rewrite E1.
      assert (Hins1 : ins_ok ins1).
      { destruct D1 as [(Gr & _ & _ & ->)|(Ga & g & Gr & k & _ & _ & Hk & _ & _ & [(_ & _ & -> & _)|(_ & -> & _)])];
          [exact Hins|apply ins_ok_blank; lia|exact Hins]. }
      destruct (end_cut_spec e eo ins1 Ge1 ltac:(unfold eo; destruct Hmid as [->|]; cbn [spans_width] in *; lia) Hins1)
        as (ins & rgt & hasRight & E2 & GL2 & Gins & D2).
      rewrite E2. cbv zeta.
      destruct (gl_spans_opt (0 <? sp_width ins) ins Gins eq_refl) as [GI1 GI2].
      split.
      { unfold good_line; cbn [sl_spans]. repeat (apply Forall_app; split); auto. }
      split; [reflexivity|].
      assert (GR : gl_line (mkLine (pre ++ opt_span hasLeft lft ++ opt_span (0 <? sp_width ins) ins ++ opt_span hasRight rgt ++ post')
                              (spans_width (pre ++ opt_span hasLeft lft ++ opt_span (0 <? sp_width ins) ins ++ opt_span hasRight rgt ++ post')))
                   = (gl_spans pre ++ gl_spans (opt_span hasLeft lft)) ++ gl_span ins ++ (gl_spans (opt_span hasRight rgt) ++ gl_spans post')).
      { unfold gl_line; cbn [sl_spans]. rewrite !gl_spans_app, GI1, <- !app_assoc. reflexivity. }
      rewrite GR. clear GR.
      pose proof (glyphs_good _ GL2) as Orgt. pose proof (glyphs_good _ Gpost') as Opost'.
      (* is this the truncation special case? *)
      destruct D1 as [(Gr & Hgs & Hgw & ->)|(Ga & g & Gr & k & Hgs & Hgw & Hk & Hsty & Oga & D1)].
      - (* the window starts on a glyph boundary *)
        exists (gl_spans pre ++ gl_spans (opt_span hasLeft lft)).
        assert (SF : start_fact (gl_line l) x (sp_width ins0 = 0 /\ W <= x + n) (gl_spans pre ++ gl_spans (opt_span hasLeft lft))).
        { left. exists (gl_spans pre ++ gl_spans (opt_span hasLeft lft)), (Gr ++ gl_spans post).
          split; [rewrite GLs, Hgs, <- !app_assoc; reflexivity|]. split; [rewrite gwidth_app; unfold so in Hgw; lia|reflexivity]. }
        destruct D2 as [(Gl & Hge & Hgl & ->)|(Gl & g' & k' & Hge & Hgl & Hk' & Hsty' & Hgi)].
        + exists (gl_spans (opt_span hasRight rgt) ++ gl_spans post'). split; [reflexivity|]. split; [exact SF|].
          left. exists (gl_spans (pre ++ mid) ++ Gl), (gl_spans (opt_span hasRight rgt) ++ gl_spans post').
          split; [rewrite GLe, Hge, <- !app_assoc; reflexivity|]. split; [rewrite gwidth_app; unfold eo in Hgl; lia|reflexivity].
        + exists (blanks (if sp_width ins0 =? 0 then gsty g' else sp_sty ins0) (gw g' - k') ++ gl_spans (opt_span hasRight rgt) ++ gl_spans post').
          split; [rewrite Hgi, Hsty', <- !app_assoc; reflexivity|]. split; [exact SF|].
          right. exists (gl_spans (pre ++ mid) ++ Gl), g', (gl_spans (opt_span hasRight rgt) ++ gl_spans post'), k'.
          split; [rewrite GLe, Hge, <- !app_assoc; reflexivity|]. split; [rewrite gwidth_app; unfold eo in Hgl; lia|].
          split; [exact Hk'|reflexivity].
      - (* the window starts inside the wide glyph g *)
        destruct D1 as [(Hi0 & Hca & -> & Hgl1)|(Hnt & -> & Hgl1)].
        + (* cutting the rest of the row away *)
          apply Z.leb_le in Hca.
          exists ((gl_spans pre ++ Ga) ++ blanks (gsty g) k), [].
          assert (Hend : eo = sp_width e /\ post' = []).
          { split; [unfold eo; lia|]. destruct post' as [|p post'']; [reflexivity|].
            inversion Gpost' as [|? ? Gp _]; subst. apply gspan_width in Gp. cbn [spans_width] in *.
            assert (0 <= spans_width post'').
            { inversion Npost' as [|? ? _ Np]; subst. clear -Np. induction Np; cbn [spans_width]; lia. }
            lia. }
          destruct Hend as [Heo ->].
          assert (Hb : gl_span ins = blanks (sp_sty s) k /\ gl_spans (opt_span hasRight rgt) = []).
          { destruct (gl_blank_span (sp_sty s) k ltac:(lia)) as [_ Gb].
            destruct D2 as [(Gl & Hge & Hgl & ->)|(Gl & g' & k' & Hge & Hgl & Hk' & Hsty' & Hgi)].
            - split; [exact Gb|]. pose proof (f_equal gwidth Hge) as Hw. rewrite gwidth_app, Wge in Hw.
              pose proof (gwidth_nonneg _ Orgt). destruct (gl_spans (opt_span hasRight rgt)) as [|g0 r0]; [reflexivity|].
              inversion Orgt as [|? ? Og0 Or0]; subst. unfold gwidth in *. cbn [wsum] in *. pose proof (wsum_nonneg gw r0 Or0). lia.
            - exfalso. pose proof (f_equal gwidth Hge) as Hw. rewrite gwidth_app, Wge in Hw.
              unfold gwidth in *. cbn [wsum] in Hw. pose proof (wsum_nonneg gw _ Orgt). lia. }
          destruct Hb as [Hb1 Hb2]. rewrite Hb1, Hb2, Hgl1, Hsty. cbn [SpanText.gl_spans flat_map app].
          destruct (gl_span_0 wc _ Hi0) as [-> _]. cbn [app]. rewrite !app_nil_r.
          split; [rewrite <- !app_assoc; reflexivity|]. split.
          * right. exists (gl_spans pre ++ Ga), g, (Gr ++ gl_spans post), k.
            split; [rewrite GLs, Hgs, <- !app_assoc; reflexivity|]. split; [rewrite gwidth_app; unfold so in Hgw; lia|].
            split; [exact Hk|]. left. split; [split; [exact Hi0|exact Hca]|rewrite Hsty; reflexivity].
          * left. exists (gl_line l), []. split; [rewrite app_nil_r; reflexivity|]. split; [|reflexivity].
            unfold gl_line. rewrite gwidth_good by exact Hall. fold W. lia.
        + (* the glyph is kept and the insert goes after it *)
          exists ((gl_spans pre ++ Ga) ++ [g]).
          assert (SF : start_fact (gl_line l) x (sp_width ins0 = 0 /\ W <= x + n) ((gl_spans pre ++ Ga) ++ [g])).
          { right. exists (gl_spans pre ++ Ga), g, (Gr ++ gl_spans post), k.
            split; [rewrite GLs, Hgs, <- !app_assoc; reflexivity|]. split; [rewrite gwidth_app; unfold so in Hgw; lia|].
            split; [exact Hk|]. right. split; [|reflexivity]. intros [T1 T2]. destruct Hnt as [Hnt|Hnt]; [lia|].
            apply Z.leb_gt in Hnt. lia. }
          rewrite Hgl1. replace (gl_spans pre ++ Ga ++ [g]) with ((gl_spans pre ++ Ga) ++ [g]) by (rewrite <- app_assoc; reflexivity).
          destruct D2 as [(Gl & Hge & Hgl & ->)|(Gl & g' & k' & Hge & Hgl & Hk' & Hsty' & Hgi)].
          * exists (gl_spans (opt_span hasRight rgt) ++ gl_spans post'). split; [reflexivity|]. split; [exact SF|].
            left. exists (gl_spans (pre ++ mid) ++ Gl), (gl_spans (opt_span hasRight rgt) ++ gl_spans post').
            split; [rewrite GLe, Hge, <- !app_assoc; reflexivity|]. split; [rewrite gwidth_app; unfold eo in Hgl; lia|reflexivity].
          * exists (blanks (if sp_width ins0 =? 0 then gsty g' else sp_sty ins0) (gw g' - k') ++ gl_spans (opt_span hasRight rgt) ++ gl_spans post').
            split; [rewrite Hgi, Hsty', <- !app_assoc; reflexivity|]. split; [exact SF|].
            right. exists (gl_spans (pre ++ mid) ++ Gl), g', (gl_spans (opt_span hasRight rgt) ++ gl_spans post'), k'.
            split; [rewrite GLe, Hge, <- !app_assoc; reflexivity|]. split; [rewrite gwidth_app; unfold eo in Hgl; lia|].
            split; [exact Hk'|reflexivity]. }
    destruct mid as [|m mid'].
    2:{ (* different spans: no fast path *)
      assert (Hne : (zlen pre =? zlen pre + zlen (m :: mid')) = false).
      { apply Z.eqb_neq. rewrite zlen_cons. pose proof (zlen_nonneg mid'). lia. }
      rewrite Hne. cbn [andb]. exact General. }
    (* the window lies within one span *)
    cbn [app] in Hrem. inversion Hrem; subst e post'. clear Hrem.
    rewrite zlen_nil, Z.add_0_r, Z.eqb_refl. cbn [andb]. cbn [spans_width] in *.
    assert (Heo : eo = so + n) by (unfold eo, so; lia).
    destruct ((so =? 0) && (eo =? sp_width s) && (0 <? sp_width ins0)) eqn:F1.
    { (* the whole span is replaced *)
      apply andb_prop in F1 as [F1 F1c]. apply andb_prop in F1 as [F1a F1b].
      apply Z.eqb_eq in F1a, F1b. apply Z.ltb_lt in F1c.
      assert (Gi : gspan ins0) by (destruct Hins as [[H|H] _]; [lia|exact H]).
      split; [unfold good_line; cbn [sl_spans]; apply Forall_app; split; [exact Gpre|constructor; auto]|].
      split; [cbn [sl_spans sl_cache]; rewrite spans_width_app; cbn [spans_width]; lia|].
      exists (gl_spans pre), (gl_spans post). unfold gl_line at 1. cbn [sl_spans].
      split; [rewrite gl_spans_app, gl_spans_cons; reflexivity|]. split.
      - left. exists (gl_spans pre), (gl_span s ++ gl_spans post). split; [exact GLs|]. split; [unfold so in F1a; lia|reflexivity].
      - left. exists (gl_spans pre ++ gl_span s), (gl_spans post). split; [rewrite GLs, <- app_assoc; reflexivity|].
        split; [rewrite gwidth_app; unfold eo in F1b; lia|reflexivity]. }
    destruct ((sp_width ins0 =? n) && style_eqb (sp_sty s) (sp_sty ins0) && negb (is_text s) && negb (is_text ins0)
              && (sp_rune s =? sp_rune ins0)) eqn:F2.
    { (* repeat over the same repeat: nothing changes *)
      apply andb_prop in F2 as [F2 F2e]. apply andb_prop in F2 as [F2 F2d]. apply andb_prop in F2 as [F2 F2c].
      apply andb_prop in F2 as [F2a F2b]. apply Z.eqb_eq in F2a, F2e. apply style_eqb_eq in F2b.
      apply negb_true_iff in F2c, F2d.
      split; [exact Hall|]. split; [exact Hcache|].
      set (g := (encode_rune (sp_rune s), 1, sp_sty s)).
      assert (Hgs : gl_span s = zrepeat g (sp_width s)).
      { unfold SpanText.gl_span. destruct (Z.leb_spec (sp_width s) 0); [lia|]. rewrite F2c. reflexivity. }
      assert (Hgi : gl_span ins0 = zrepeat g n).
      { unfold SpanText.gl_span. destruct (Z.leb_spec (sp_width ins0) 0); [lia|]. rewrite F2d, <- F2b, <- F2e, F2a. reflexivity. }
      exists (gl_spans pre ++ zrepeat g so), (zrepeat g (sp_width s - eo) ++ gl_spans post).
      assert (Hso : 0 <= so) by (unfold so; lia).
      split.
      { rewrite GLs, Hgs, Hgi, <- !app_assoc. f_equal. rewrite !app_assoc. f_equal.
        rewrite <- !zrepeat_app by lia. f_equal. lia. }
      split.
      - left. exists (gl_spans pre ++ zrepeat g so), (zrepeat g (sp_width s - so) ++ gl_spans post).
        split; [rewrite GLs, Hgs, <- !app_assoc; f_equal; rewrite app_assoc; f_equal; rewrite <- zrepeat_app by lia; f_equal; lia|].
        split; [rewrite gwidth_app; unfold g; rewrite gwidth_zrepeat1 by lia; unfold so; lia|reflexivity].
      - left. exists (gl_spans pre ++ zrepeat g eo), (zrepeat g (sp_width s - eo) ++ gl_spans post).
        split; [rewrite GLs, Hgs, <- !app_assoc; f_equal; rewrite app_assoc; f_equal; rewrite <- zrepeat_app by lia; f_equal; lia|].
        split; [rewrite gwidth_app; unfold g; rewrite gwidth_zrepeat1 by lia; unfold eo; lia|reflexivity]. }
    destruct ((sp_width ins0 =? n) && style_eqb (sp_sty s) (sp_sty ins0) && is_text s && is_text ins0
              && (sp_width s =? zlen (sp_text s)) && (sp_width ins0 =? zlen (sp_text ins0))) eqn:F3.
    2:{ exact General. }
    (* one-cell-per-byte text spliced into one-cell-per-byte text *)
    apply andb_prop in F3 as [F3 F3f]. apply andb_prop in F3 as [F3 F3e]. apply andb_prop in F3 as [F3 F3d].
    apply andb_prop in F3 as [F3 F3c]. apply andb_prop in F3 as [F3a F3b].
    apply Z.eqb_eq in F3a, F3e, F3f. apply style_eqb_eq in F3b.
    assert (Gi : gspan ins0) by (destruct Hins as [[H|H] _]; [lia|exact H]).
    destruct (gspan_text_gl s Gs1 F3c) as (cls & Hc & Hb & Hcw & Gls).
    destruct (gspan_text_gl ins0 Gi F3d) as (cli & Hci & Hbi & Hcwi & Gli).
    assert (Ss : Forall (fun p : list Z * Z => zlen (fst p) = 1 /\ snd p = 1) cls).
    { apply (cls_width_le_bytes wc Hmb); [exact Hc|]. rewrite <- Hb. lia. }
    destruct (singles_split cls so Hc Ss ltac:(unfold so; lia)) as (c1 & c23 & -> & Hw1 & Hl1).
    apply Forall_app in Hc as [Hc1 Hc23]. apply Forall_app in Ss as [Ss1 Ss23]. rewrite cls_width_app in Hcw.
    destruct (singles_split c23 n Hc23 Ss23 ltac:(unfold so in *; lia)) as (c2 & c3 & -> & Hw2 & Hl2).
    apply Forall_app in Hc23 as [Hc2 Hc3]. rewrite cls_width_app in Hcw.
    assert (Ht : zfirstn so (sp_text s) ++ sp_text ins0 ++ zskipn (so + n) (sp_text s) = bytes (c1 ++ cli ++ c3)).
    { rewrite Hb, !bytes_app, Hbi. f_equal; [rewrite <- Hl1; apply zfirstn_app_len|]. f_equal.
      rewrite app_assoc, <- Hl1, <- Hl2, <- zlen_app. apply zskipn_app_len. }
    rewrite Ht.
    assert (Hcn : Forall gcl (c1 ++ cli ++ c3)) by (repeat (apply Forall_app; split); auto).
    destruct (set_text_good wc s (c1 ++ cli ++ c3) (sp_width s) Hcn ltac:(rewrite !cls_width_app; lia)) as [T1 T2].
    destruct T2 as [T2|T2]; [cbn in T2; lia|].
    split; [unfold good_line; cbn [sl_spans]; apply Forall_app; split; [exact Gpre|constructor; auto]|].
    split; [cbn [sl_spans sl_cache]; rewrite spans_width_app; cbn [spans_width set_text mk_span sp_width]; lia|].
    exists (gl_spans pre ++ gl_text (sp_sty s) c1), (gl_text (sp_sty s) c3 ++ gl_spans post).
    unfold gl_line at 1. cbn [sl_spans]. rewrite gl_spans_app, gl_spans_cons, T1, !gl_text_app, Gli, <- F3b.
    split; [rewrite <- !app_assoc; reflexivity|]. rewrite !gl_text_app in Gls. split.
    - left. exists (gl_spans pre ++ gl_text (sp_sty s) c1), ((gl_text (sp_sty s) c2 ++ gl_text (sp_sty s) c3) ++ gl_spans post).
      split; [rewrite GLs, Gls, <- !app_assoc; reflexivity|].
      split; [rewrite gwidth_app, gwidth_gl_text; unfold so in Hw1; lia|reflexivity].
    - left. exists (gl_spans pre ++ gl_text (sp_sty s) c1 ++ gl_text (sp_sty s) c2), (gl_text (sp_sty s) c3 ++ gl_spans post).
      split; [rewrite GLs, Gls, <- !app_assoc; reflexivity|].
      split; [rewrite !gwidth_app, !gwidth_gl_text; unfold so in Hw1; lia|reflexivity].
  Qed.
  Lemma nonempty_false {A} (l : list A) : nonempty l = false -> l = [].
  Proof. destruct l; [reflexivity|discriminate]. Qed.

  Lemma spans_width_pos spans : Forall (fun sp => 1 <= sp_width sp) spans -> nonempty spans = true -> 0 < spans_width spans.
  Proof.
    intros H Hne. destruct H as [|sp r H1 H2]; [discriminate|]. cbn [spans_width].
    assert (0 <= spans_width r) by (clear -H2; induction H2; cbn [spans_width]; lia). lia.
  Qed.

  Theorem replace_range_spec l x n ins0 :
    good_line l -> sl_cache l = spans_width (sl_spans l) ->
    0 <= x -> 0 <= n -> x + n <= spans_width (sl_spans l) ->
    ~ (n = 0 /\ sp_width ins0 = 0) -> ins_ok ins0 ->
    rr_post l x n ins0 (replace_range wc l x n ins0).
  Proof.
    intros Hgood Hcache Hx Hn Hxn Hnz Hins. unfold replace_range.
    destruct ((n =? 0) && (sp_width ins0 =? 0)) eqn:E0.
    { apply andb_prop in E0 as [E1 E2]. apply Z.eqb_eq in E1, E2. exfalso. auto. }
    set (W := spans_width (sl_spans l)) in *.
    assert (Gi0 : gspan0 ins0) by apply Hins.
    destruct (nonempty (sl_spans l)) eqn:Ene; cbn [negb].
    2:{ apply nonempty_false in Ene. unfold W in *. rewrite Ene in *. cbn [spans_width] in *.
        assert (x = 0 /\ n = 0) as [-> ->] by lia.
        assert (Gi : gspan ins0) by (destruct Gi0 as [H|H]; [exfalso; auto|exact H]).
        split; [constructor; [exact Gi|constructor]|]. split; [cbn; lia|].
        exists [], []. unfold gl_line. rewrite Ene. cbn [sl_spans SpanText.gl_spans flat_map]. rewrite !app_nil_r.
        split; [reflexivity|]. split; left; exists [], []; repeat split. }
    destruct (Z.ltb_spec x 0); [lia|]. destruct (Z.ltb_spec n 0); [lia|].
    pose proof (good_widths _ Hgood) as Hnn. pose proof (good_widths1 _ Hgood) as Hpos.
    assert (Wpos : 0 < W) by (apply spans_width_pos; auto).
    destruct (Z_lt_ge_dec x W) as [Hlt|Hge].
    - (* the window starts inside the row *)
      destruct (scan_start_found (sl_spans l) 0 0 x ltac:(fold W; lia)) as (pre & s & post & Hsp & Es & Bs).
      rewrite Es. rewrite !Z.add_0_l in *.
      assert (HW1 : W = spans_width pre + sp_width s + spans_width post).
      { unfold W. rewrite Hsp, !spans_width_app. cbn [spans_width]. lia. }
      destruct (scan_end_found (s :: post) ltac:(discriminate) (zlen pre) (spans_width pre) (x + n)
                  ltac:(cbn [spans_width]; lia)) as (mid & e & post' & Hrem & Ee & Be1 & Be2).
      rewrite Ee.
      assert (HW : W = spans_width pre + spans_width mid + sp_width e + spans_width post').
      { rewrite HW1. assert (Q : spans_width (s :: post) = spans_width (mid ++ e :: post')) by (rewrite Hrem; reflexivity).
        rewrite spans_width_app in Q. cbn [spans_width] in Q. lia. }
      replace (spans_width pre + spans_width mid + sp_width e + spans_width post') with W by lia.
      destruct (Z.ltb_spec W x); [lia|]. destruct (Z.ltb_spec W (x + n)); [lia|].
      destruct ((x =? 0) && (W <=? n)) eqn:Eall.
      { (* the whole row is replaced *)
        apply andb_prop in Eall as [E1 E2]. apply Z.eqb_eq in E1. apply Z.leb_le in E2. subst x.
        destruct (gl_spans_opt (0 <? sp_width ins0) ins0 Gi0 eq_refl) as [G1 G2].
        split; [exact G2|]. split; [cbn [sl_spans sl_cache]; rewrite spans_width_opt by auto; reflexivity|].
        exists [], []. unfold gl_line at 1. cbn [sl_spans]. rewrite G1, app_nil_r. split; [reflexivity|]. split.
        - left. exists [], (gl_line l). repeat split.
        - left. exists (gl_line l), []. rewrite app_nil_r. split; [reflexivity|]. split; [|reflexivity].
          unfold gl_line. rewrite gwidth_good by exact Hgood. fold W. lia. }
      assert (Hlen : (zlen pre =? zlen (sl_spans l)) = false).
      { apply Z.eqb_neq. rewrite Hsp, zlen_app, zlen_cons. pose proof (zlen_nonneg post). lia. }
      rewrite Hlen.
      apply (rr_splice_spec l pre s post mid e post'); auto.
    - (* x is the end of the row: append *)
      assert (x = W) by lia. subst x. assert (n = 0) by lia. subst n.
      rewrite (scan_start_notfound _ Hnn) by (fold W; lia). cbn [scan_end spans_width]. fold W.
      rewrite !Z.add_0_l, !Z.add_0_r. destruct (Z.ltb_spec W W); [lia|].
      destruct (Z.eqb_spec W 0); [lia|]. cbn [andb]. rewrite Z.eqb_refl.
      assert (Gi : gspan ins0) by (destruct Gi0 as [Hz|Hz]; [exfalso; auto|exact Hz]).
      pose proof (gspan_width _ Gi). destruct (Z.ltb_spec 0 (sp_width ins0)); [|lia].
      split; [unfold good_line; cbn [sl_spans]; apply Forall_app; split; [exact Hgood|constructor; [exact Gi|constructor]]|].
      split; [cbn [sl_spans sl_cache]; rewrite spans_width_app; cbn [spans_width]; fold W; lia|].
      exists (gl_line l), []. unfold gl_line at 1. cbn [sl_spans]. rewrite gl_spans_app. cbn [SpanText.gl_spans flat_map].
      rewrite !app_nil_r. split; [reflexivity|].
      assert (gwidth (gl_line l) = W) by (unfold gl_line; rewrite gwidth_good by exact Hgood; reflexivity).
      split; left; exists (gl_line l), []; rewrite app_nil_r; repeat split; lia.
  Qed.
End WithOracle.
