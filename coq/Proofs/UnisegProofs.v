(* Facts about the width function of the uniseg model, proved over the tables
   generated from the library's source (Gen/Gen_Uniseg.v): bounds, the width of
   ASCII, and the hypothesis the span buffer's rune-mode fast path relies on
   (a character of n cells has more than n bytes) with its exact exception set. *)
From Coq Require Import List ZArith Bool Lia.
From Termemu Require Import Base Style Screen Parser BaseLemmas ParserProofs Span SgrProofs Gen_Uniseg Uniseg.
Import ListNotations.
Open Scope Z_scope.

(* runeWidth returns one of 0, 1, 2, 3, 4; 3 and 4 only for U+2E3A and U+2E3B *)
Lemma rune_width_range r gp : 0 <= rune_width r gp <= 4.
Proof.
  unfold rune_width.
  repeat match goal with |- context [if ?c then _ else _] => destruct c end; lia.
Qed.

Lemma rune_width_le2 r gp : r <> 11834 -> r <> 11835 -> rune_width r gp <= 2.
Proof.
  intros H1 H2. unfold rune_width.
  destruct (_ || _); [lia|]. destruct (gp =? u_prRegionalIndicator); [lia|].
  destruct (gp =? u_prExtendedPictographic); [destruct (_ =? _); lia|].
  destruct (Z.eqb_spec r 11834); [contradiction|]. destruct (Z.eqb_spec r 11835); [contradiction|].
  destruct (_ || _); lia.
Qed.

Theorem uwc_range r : 0 <= uwc r <= 4.
Proof. apply rune_width_range. Qed.

Theorem uwc_two_wide : uwc 11834 = 3 /\ uwc 11835 = 4.
Proof. split; vm_compute; reflexivity. Qed.

(* every code point below U+0800 (at most two bytes) is at most one cell wide: finite sweep over the tables *)
Definition small_check (r : Z) : bool := uwc r <=? 1.
Lemma small_all : forallb small_check (zseq 0 2048) = true.
Proof. vm_compute. reflexivity. Qed.

Lemma uwc_small r : 0 <= r < 2048 -> uwc r <= 1.
Proof.
  intros H. pose proof small_all as A. rewrite forallb_forall in A.
  specialize (A r (In_zseq 0 2048 r H)). unfold small_check in A. lia.
Qed.

(* ASCII is one cell wide, controls none *)
Definition ascii_check (r : Z) : bool := uwc r =? (if (32 <=? r) && (r <=? 126) then 1 else 0).
Lemma ascii_all : forallb ascii_check (zseq 0 128) = true.
Proof. vm_compute. reflexivity. Qed.
Theorem uwc_ascii r : 32 <= r <= 126 -> uwc r = 1.
Proof.
  intros H. pose proof ascii_all as A. rewrite forallb_forall in A.
  specialize (A r (In_zseq 0 128 r ltac:(lia))). unfold ascii_check in A.
  destruct (Z.leb_spec 32 r); [|lia]. destruct (Z.leb_spec r 126); [|lia]. cbn [andb] in A. lia.
Qed.

(* negative arguments (never produced by the decoder for real bytes) fall outside every table *)
Lemma tbl3_below t : forallb (fun e => 0 <=? fst (fst e)) t = true -> forall r, r < 0 -> tbl3 t r = 0.
Proof.
  induction t as [|[[lo hi] p] t IH]; intros H r Hr; [reflexivity|].
  cbn [forallb fst] in H. apply andb_true_iff in H. destruct H as (H1 & H2).
  cbn [tbl3]. destruct (Z.leb_spec lo r); [lia|]. cbn [andb]. apply IH; assumption.
Qed.

Lemma uwc_negative r : r < 0 -> uwc r = 1.
Proof.
  intros H. unfold uwc, prop_graphemes.
  destruct (Z.leb_spec 32 r); [lia|]. cbn [andb].
  destruct (Z.eqb_spec r 10); [lia|]. destruct (Z.eqb_spec r 13); [lia|].
  destruct (Z.leb_spec 0 r); [lia|]. cbn [andb orb]. destruct (Z.eqb_spec r 127); [lia|].
  rewrite (tbl3_below u_graphemeCodePoints) by (try (vm_compute; reflexivity); exact H).
  unfold rune_width. change (0 =? u_prControl) with false. change (0 =? u_prCR) with false.
  change (0 =? u_prLF) with false. change (0 =? u_prExtend) with false. change (0 =? u_prZWJ) with false.
  cbn [orb]. change (0 =? u_prRegionalIndicator) with false. change (0 =? u_prExtendedPictographic) with false.
  destruct (Z.eqb_spec r 11834); [lia|]. destruct (Z.eqb_spec r 11835); [lia|].
  unfold prop_eaw. destruct (Z.leb_spec 32 r); [lia|]. cbn [andb].
  destruct (Z.leb_spec 0 r); [lia|]. cbn [andb orb]. destruct (Z.eqb_spec r 127); [lia|].
  rewrite (tbl3_below u_eastAsianWidth) by (try (vm_compute; reflexivity); exact H).
  reflexivity.
Qed.

(* the first byte decides the size class *)
Lemma utf8_first_cases b : 
  let '(sz, lo, hi) := utf8_first b in
  (sz = 0) \/ (sz = 1 /\ b < 128) \/ (sz = 2 /\ 194 <= b < 224 /\ lo = 128 /\ hi = 191) \/ sz = 3 \/ sz = 4.
Proof.
  unfold utf8_first.
  repeat match goal with |- context [if ?a <? ?b then _ else _] => destruct (Z.ltb_spec a b)
                       | |- context [if ?a =? ?b then _ else _] => destruct (Z.eqb_spec a b) end;
    first [ left; reflexivity | right; left; split; [reflexivity|lia]
          | right; right; left; repeat split; lia | right; right; right; left; reflexivity
          | right; right; right; right; reflexivity ].
Qed.

(* a decoded rune of at most two bytes is below U+0800 or the replacement of an invalid byte *)
Lemma decode_rune_short inp r size v : decode_rune inp = Some (r, size, v) -> size <= 2 ->
  r < 2048 \/ (r = runeError /\ size = 1).
Proof.
  unfold decode_rune. destruct inp as [|b0 r0]; [discriminate|].
  pose proof (utf8_first_cases b0) as C. destruct (utf8_first b0) as [[sz lo] hi].
  destruct C as [E|[(E & Hb)|[(E & Hb & E1 & E2)|[E|E]]]]; subst; cbn [Z.eqb Pos.eqb].
  - intros H _; inversion H; subst. right; split; reflexivity.
  - intros H _; inversion H; subst. left; lia.
  - destruct r0 as [|b1 r1]; [discriminate|].
    destruct (Z.ltb_spec b1 128) as [L1|L1]; cbn [orb].
    + intros H _; inversion H; subst. right; split; reflexivity.
    + destruct (Z.ltb_spec 191 b1) as [L2|L2].
      * intros H _; inversion H; subst. right; split; reflexivity.
      * intros H _; inversion H; subst. left; lia.
  - destruct r0 as [|b1 r1]; [discriminate|]. destruct (_ || _).
    + intros H _; inversion H; subst. right; split; reflexivity.
    + destruct r1 as [|b2 r2]; [discriminate|]. destruct (_ || _).
      * intros H _; inversion H; subst. right; split; reflexivity.
      * intros H Hs; inversion H; subst. lia.
  - destruct r0 as [|b1 r1]; [discriminate|]. destruct (_ || _).
    + intros H _; inversion H; subst. right; split; reflexivity.
    + destruct r1 as [|b2 r2]; [discriminate|]. destruct (_ || _).
      * intros H _; inversion H; subst. right; split; reflexivity.
      * destruct r2 as [|b3 r3]; [discriminate|]. destruct (_ || _).
        -- intros H _; inversion H; subst. right; split; reflexivity.
        -- intros H Hs; inversion H; subst. lia.
Qed.

(* The hypothesis of the span theorems, for the real width function: a character occupies at most
   max(1, bytes - 1) cells - except U+2E3A and U+2E3B (3 and 4 cells in 3 bytes: known finding KF-D40),
   and these are the only exceptions. *)
Theorem uwc_multibyte_except : forall buf r size v, decode_rune buf = Some (r, size, v) ->
  r <> 11834 -> r <> 11835 -> cluster_width uwc r <= Z.max 1 (size - 1).
Proof.
  intros buf r size v Hd H1 H2. unfold cluster_width.
  pose proof (ParserProofs.decode_rune_size _ _ _ _ Hd) as (Hs & _).
  pose proof (rune_width_le2 r (prop_graphemes r) H1 H2) as W2. fold (uwc r) in W2.
  destruct (Z.leb_spec (uwc r) 0); [lia|].
  destruct (Z_le_gt_dec size 2) as [Hle|Hgt]; [|lia].
  destruct (decode_rune_short _ _ _ _ Hd Hle) as [Hr|(-> & ->)].
  - destruct (Z_lt_ge_dec r 0) as [Hn|Hp].
    + rewrite (uwc_negative r Hn). lia.
    + pose proof (uwc_small r ltac:(lia)). lia.
  - change (uwc runeError) with (uwc 65533). assert (E : uwc 65533 = 1) by (vm_compute; reflexivity). rewrite E. lia.
Qed.

Theorem uwc_multibyte_refuted : ~ wc_multibyte uwc.
Proof.
  intros H. specialize (H [226; 184; 186] 11834 3 true eq_refl).
  unfold cluster_width in H. assert (E : uwc 11834 = 3) by (vm_compute; reflexivity). rewrite E in H.
  cbn in H. lia.
Qed.
