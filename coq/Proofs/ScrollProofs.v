(* C06: scroll moves whole rows; SU / SD / IL / DL, DECSTBM and the implicit
   scroll of IND / LF / RI / autowrap. *)
From Coq Require Import List ZArith Bool Lia.
From Termemu Require Import Base Style Screen Kbd Parser Term BaseLemmas ScreenInv TermInv ScreenSpec RowLemmas EraseProofs.
Import ListNotations.
Open Scope Z_scope.

(* ---------- scroll ---------- *)
Lemma scroll_unfold y1 y2 dy s :
  scroll y1 y2 dy s =
    let a := clamp y1 0 (sH s - 1) in
    let b := clamp y2 0 (sH s - 1) in
    if b <? a then s else
    let h := b - a + 1 in
    let d := clamp_dy h dy in
    let R := rows s in
    let br := blank_row (sW s) (sty s) in
    if 0 <? d then
      emit (ERegion 0 a (sW s) (a + d) crScroll)
        (emit (ERegion 0 (a + d) (sW s) (b + 1) crScroll)
          (set_rows (zfirstn a R ++ zrepeat br d ++ zfirstn (h - d) (zskipn a R) ++ zskipn (b + 1) R) s))
    else
      emit (ERegion 0 (b - - d + 1) (sW s) (b + 1) crScroll)
        (emit (ERegion 0 a (sW s) (b - - d + 1) crScroll)
          (set_rows (zfirstn a R ++ zfirstn (h - - d) (zskipn (a + - d) R) ++ zrepeat br (- d) ++ zskipn (b + 1) R) s)).
Proof. reflexivity. Qed.

Lemma scroll_frame y1 y2 dy s : scr_frame s (scroll y1 y2 dy s).
Proof.
  rewrite scroll_unfold. cbv zeta.
  destruct (_ <? _); [apply scr_frame_refl|]. destruct (0 <? _); constructor; reflexivity.
Qed.

Lemma clamp_dy_range h dy : 0 <= h -> - h <= clamp_dy h dy <= h.
Proof.
  intros Hh. unfold clamp_dy. destruct (Z.ltb_spec h dy); [lia|]. destruct (Z.ltb_spec dy (- h)); lia.
Qed.

(* every row after scroll, for arbitrary (clamped) arguments; when the clamped
   range is empty (b < a) the condition is never true and nothing changes *)
Lemma scroll_row_gen y1 y2 dy s : Inv s ->
  let a := clamp y1 0 (sH s - 1) in
  let b := clamp y2 0 (sH s - 1) in
  forall y,
  row_at (scroll y1 y2 dy s) y =
    if zin a (b + 1) y then
      let d := clamp_dy (b - a + 1) dy in
      if zin a (b + 1) (y - d) then row_at s (y - d) else blank_row (sW s) (sty s)
    else row_at s y.
Proof.
  intros Hs a b y. rewrite scroll_unfold. cbv zeta. fold a b.
  pose proof (inv_h s Hs) as HH. pose proof (inv_rows s Hs) as HR.
  pose proof (clamp_range y1 0 (sH s - 1) ltac:(lia)) as Ha. fold a in Ha.
  pose proof (clamp_range y2 0 (sH s - 1) ltac:(lia)) as Hb. fold b in Hb.
  unfold zin.
  destruct (Z.ltb_spec b a) as [Hba|Hab].
  { destruct (Z.lt_ge_cases y a); zbool; reflexivity. }
  pose proof (clamp_dy_range (b - a + 1) dy ltac:(lia)) as Hd.
  set (h := b - a + 1) in *. set (d := clamp_dy h dy) in *.
  set (R := rows s) in *. set (br := blank_row (sW s) (sty s)).
  assert (L1 : zlen (zfirstn a R) = a) by zlens.
  destruct (Z.lt_ge_cases y 0) as [Hy0|Hy0].
  { zbool. unfold row_at. rewrite !znth_neg by lia. reflexivity. }
  destruct (Z.ltb_spec 0 d) as [Hpos|Hneg]; ss; unfold row_at; cbn [rows]; fold R.
  - assert (L2 : zlen (zrepeat br d) = d) by zlens.
    assert (L3 : zlen (zfirstn (h - d) (zskipn a R)) = h - d) by (subst h; zlens).
    destruct (Z.lt_ge_cases y a) as [H1|H1].
    { rewrite znth_app_l by lia. rewrite znth_zfirstn by lia. zbool. reflexivity. }
    rewrite znth_app_r by lia. rewrite L1.
    destruct (Z.lt_ge_cases y (a + d)) as [H2|H2].
    { rewrite znth_app_l by lia. rewrite znth_zrepeat by lia. subst h. zbool. reflexivity. }
    rewrite znth_app_r by lia. rewrite L2.
    destruct (Z.lt_ge_cases y (b + 1)) as [H3|H3].
    { rewrite znth_app_l by (subst h; lia). rewrite znth_zfirstn by (subst h; lia). rewrite znth_zskipn by lia.
      subst h. zbool. f_equal. lia. }
    rewrite znth_app_r by (subst h; lia). rewrite L3. rewrite znth_zskipn by (subst h; lia).
    zbool. f_equal. subst h. lia.
  - assert (L2 : zlen (zfirstn (h - - d) (zskipn (a + - d) R)) = h - - d) by (subst h; zlens).
    assert (L3 : zlen (zrepeat br (- d)) = - d) by zlens.
    destruct (Z.lt_ge_cases y a) as [H1|H1].
    { rewrite znth_app_l by lia. rewrite znth_zfirstn by lia. zbool. reflexivity. }
    rewrite znth_app_r by lia. rewrite L1.
    destruct (Z.lt_ge_cases y (b + 1 + d)) as [H2|H2].
    { rewrite znth_app_l by (subst h; lia). rewrite znth_zfirstn by (subst h; lia). rewrite znth_zskipn by lia.
      subst h. zbool. f_equal. lia. }
    rewrite znth_app_r by (subst h; lia). rewrite L2.
    destruct (Z.lt_ge_cases y (b + 1)) as [H3|H3].
    { rewrite znth_app_l by (subst h; lia). rewrite znth_zrepeat by (subst h; lia). subst h. zbool. reflexivity. }
    rewrite znth_app_r by (subst h; lia). rewrite L3. rewrite znth_zskipn by (subst h; lia).
    zbool. f_equal. subst h. lia.
Qed.

(* arguments inside the screen *)
Lemma scroll_row y1 y2 dy s : Inv s -> 0 <= y1 -> y1 <= y2 -> y2 < sH s -> forall y,
  row_at (scroll y1 y2 dy s) y =
    if zin y1 (y2 + 1) y then
      let d := clamp_dy (y2 - y1 + 1) dy in
      if zin y1 (y2 + 1) (y - d) then row_at s (y - d) else blank_row (sW s) (sty s)
    else row_at s y.
Proof.
  intros Hs H1 H12 H2 y. rewrite scroll_row_gen by exact Hs. cbv zeta.
  rewrite (clamp_id y1) by lia. rewrite (clamp_id y2) by lia. reflexivity.
Qed.

(* an inverted (after clamping) range is ignored *)
Lemma scroll_inverted y1 y2 dy s :
  clamp y2 0 (sH s - 1) < clamp y1 0 (sH s - 1) -> scroll y1 y2 dy s = s.
Proof. intros H. rewrite scroll_unfold. cbv zeta. destruct (Z.ltb_spec (clamp y2 0 (sH s - 1)) (clamp y1 0 (sH s - 1))); [reflexivity|lia]. Qed.

(* up by n >= 0 (rows move towards the top), down by n >= 0 *)
Lemma scroll_up_row y1 y2 n s : Inv s -> 0 <= y1 -> y1 <= y2 -> y2 < sH s -> 0 <= n -> forall y,
  row_at (scroll y1 y2 (- n) s) y =
    if zin y1 (y2 + 1) y then
      if y + n <=? y2 then row_at s (y + n) else blank_row (sW s) (sty s)
    else row_at s y.
Proof.
  intros Hs H1 H12 H2 Hn y. rewrite scroll_row by assumption. cbv zeta. unfold zin, clamp_dy.
  destruct (Z.lt_ge_cases y y1); [zbool; reflexivity|].
  destruct (Z.lt_ge_cases y (y2 + 1)); [|zbool; reflexivity]. zbool.
  destruct (Z.ltb_spec (- n) (- (y2 - y1 + 1))).
  - zbool. reflexivity.
  - destruct (Z.le_gt_cases (y + n) y2); zbool; [f_equal; lia|reflexivity].
Qed.

Lemma scroll_down_row y1 y2 n s : Inv s -> 0 <= y1 -> y1 <= y2 -> y2 < sH s -> 0 <= n -> forall y,
  row_at (scroll y1 y2 n s) y =
    if zin y1 (y2 + 1) y then
      if y1 <=? y - n then row_at s (y - n) else blank_row (sW s) (sty s)
    else row_at s y.
Proof.
  intros Hs H1 H12 H2 Hn y. rewrite scroll_row by assumption. cbv zeta. unfold zin, clamp_dy.
  destruct (Z.lt_ge_cases y y1); [zbool; reflexivity|].
  destruct (Z.lt_ge_cases y (y2 + 1)); [|zbool; reflexivity]. zbool.
  destruct (Z.ltb_spec (y2 - y1 + 1) n).
  - zbool. reflexivity.
  - destruct (Z.le_gt_cases y1 (y - n)); zbool; reflexivity.
Qed.

(* ---------- SU / SD / IL / DL ---------- *)
Lemma csi_S ps t : exec_csi_plain ps 83 t = on_screen (fun s => scroll (top s) (bot s) (- p0 ps 1) s) t.
Proof. reflexivity. Qed.
Lemma csi_T ps t : exec_csi_plain ps 84 t = on_screen (fun s => scroll (top s) (bot s) (p0 ps 1) s) t.
Proof. reflexivity. Qed.
Lemma csi_L ps t : exec_csi_plain ps 76 t =
  on_screen (fun s => if (top s <=? cy s) && (cy s <=? bot s) then scroll (cy s) (bot s) (p0 ps 1) s else s) t.
Proof. reflexivity. Qed.
Lemma csi_M ps t : exec_csi_plain ps 77 t =
  on_screen (fun s => if (top s <=? cy s) && (cy s <=? bot s) then scroll (cy s) (bot s) (- p0 ps 1) s else s) t.
Proof. reflexivity. Qed.

Theorem su_cmd t ps : TInv t -> 0 <= p0 ps 1 ->
  let s := active t in let n := p0 ps 1 in
  cmd_rows t (exec_csi_plain ps 83 t) (fun y =>
    if zin (top s) (bot s + 1) y then
      if y + n <=? bot s then row_at s (y + n) else blank_row (sW s) (sty s)
    else row_at s y).
Proof.
  intros Ht Hp s n. rewrite csi_S. pose proof (Inv_active0 t Ht) as I0.
  pose proof (inv_top _ I0) as HT. pose proof (inv_bot _ I0) as HB.
  split; [|split; [|apply on_screen_term_frame]].
  - intros y _. rewrite on_screen_active_eq. exact (scroll_up_row _ _ _ _ I0 (proj1 HT) (proj2 HT) HB Hp y).
  - rewrite on_screen_active_eq. apply (scr_frame_evs [] []). apply scroll_frame.
Qed.

Theorem sd_cmd t ps : TInv t -> 0 <= p0 ps 1 ->
  let s := active t in let n := p0 ps 1 in
  cmd_rows t (exec_csi_plain ps 84 t) (fun y =>
    if zin (top s) (bot s + 1) y then
      if top s <=? y - n then row_at s (y - n) else blank_row (sW s) (sty s)
    else row_at s y).
Proof.
  intros Ht Hp s n. rewrite csi_T. pose proof (Inv_active0 t Ht) as I0.
  pose proof (inv_top _ I0) as HT. pose proof (inv_bot _ I0) as HB.
  split; [|split; [|apply on_screen_term_frame]].
  - intros y _. rewrite on_screen_active_eq. exact (scroll_down_row _ _ _ _ I0 (proj1 HT) (proj2 HT) HB Hp y).
  - rewrite on_screen_active_eq. apply (scr_frame_evs [] []). apply scroll_frame.
Qed.

(* IL n: rows cy..bot move down by n, blanks appear at the cursor row *)
Theorem il_cmd t ps : TInv t -> 0 <= p0 ps 1 ->
  let s := active t in let n := p0 ps 1 in
  top s <= cy s <= bot s ->
  cmd_rows t (exec_csi_plain ps 76 t) (fun y =>
    if zin (cy s) (bot s + 1) y then
      if cy s <=? y - n then row_at s (y - n) else blank_row (sW s) (sty s)
    else row_at s y).
Proof.
  intros Ht Hp s n Hin. rewrite csi_L. pose proof (Inv_active0 t Ht) as I0.
  pose proof (inv_top _ I0) as HT. pose proof (inv_bot _ I0) as HB. pose proof (inv_cy _ I0) as HC.
  assert (E : (top s <=? cy s) && (cy s <=? bot s) = true) by (zbool; reflexivity).
  split; [|split; [|apply on_screen_term_frame]]; rewrite on_screen_active_eq; cbv beta;
    change (top (set_evs [] (active t))) with (top s); change (bot (set_evs [] (active t))) with (bot s);
    change (cy (set_evs [] (active t))) with (cy s); rewrite E.
  - intros y _. exact (scroll_down_row _ _ _ _ I0 (proj1 HC) (proj2 Hin) HB Hp y).
  - apply (scr_frame_evs [] []). apply scroll_frame.
Qed.

(* DL n: rows below the deleted ones move up, blanks appear at the bottom margin *)
Theorem dl_cmd t ps : TInv t -> 0 <= p0 ps 1 ->
  let s := active t in let n := p0 ps 1 in
  top s <= cy s <= bot s ->
  cmd_rows t (exec_csi_plain ps 77 t) (fun y =>
    if zin (cy s) (bot s + 1) y then
      if y + n <=? bot s then row_at s (y + n) else blank_row (sW s) (sty s)
    else row_at s y).
Proof.
  intros Ht Hp s n Hin. rewrite csi_M. pose proof (Inv_active0 t Ht) as I0.
  pose proof (inv_top _ I0) as HT. pose proof (inv_bot _ I0) as HB. pose proof (inv_cy _ I0) as HC.
  assert (E : (top s <=? cy s) && (cy s <=? bot s) = true) by (zbool; reflexivity).
  split; [|split; [|apply on_screen_term_frame]]; rewrite on_screen_active_eq; cbv beta;
    change (top (set_evs [] (active t))) with (top s); change (bot (set_evs [] (active t))) with (bot s);
    change (cy (set_evs [] (active t))) with (cy s); rewrite E.
  - intros y _. exact (scroll_up_row _ _ _ _ I0 (proj1 HC) (proj2 Hin) HB Hp y).
  - apply (scr_frame_evs [] []). apply scroll_frame.
Qed.

(* cursor outside the scroll region: IL and DL do nothing *)
Theorem il_dl_outside_cmd t ps f : TInv t -> f = 76 \/ f = 77 ->
  let s := active t in
  cy s < top s \/ bot s < cy s ->
  cmd_noop t (exec_csi_plain ps f t).
Proof.
  intros Ht Hf s Hout.
  assert (E : (top s <=? cy s) && (cy s <=? bot s) = false).
  { destruct Hout; [zbool; reflexivity|]. destruct (Z.le_gt_cases (top s) (cy s)); zbool; reflexivity. }
  destruct Hf as [-> | ->]; [rewrite csi_L|rewrite csi_M];
  (split; [|split; [|apply on_screen_term_frame]]; rewrite on_screen_active_eq; cbv beta;
    change (top (set_evs [] (active t))) with (top s); change (bot (set_evs [] (active t))) with (bot s);
    change (cy (set_evs [] (active t))) with (cy s); rewrite E;
    [intros y _; reflexivity|constructor; reflexivity]).
Qed.

(* consequences of the row formulas: a count of at least the height of the
   affected range clears it, a count of 0 changes nothing *)
Lemma shift_up_clears (y1 y2 n y : Z) (f : Z -> list cell) (br : list cell) :
  y2 - y1 + 1 <= n ->
  (if zin y1 (y2 + 1) y then if y + n <=? y2 then f (y + n) else br else f y)
  = if zin y1 (y2 + 1) y then br else f y.
Proof.
  intros Hn. unfold zin. destruct (Z.lt_ge_cases y y1); [zbool; reflexivity|].
  destruct (Z.lt_ge_cases y (y2 + 1)); zbool; reflexivity.
Qed.
Lemma shift_down_clears (y1 y2 n y : Z) (f : Z -> list cell) (br : list cell) :
  y2 - y1 + 1 <= n ->
  (if zin y1 (y2 + 1) y then if y1 <=? y - n then f (y - n) else br else f y)
  = if zin y1 (y2 + 1) y then br else f y.
Proof.
  intros Hn. unfold zin. destruct (Z.lt_ge_cases y y1); [zbool; reflexivity|].
  destruct (Z.lt_ge_cases y (y2 + 1)); zbool; reflexivity.
Qed.
Lemma shift_up_zero (y1 y2 y : Z) (f : Z -> list cell) (br : list cell) :
  (if zin y1 (y2 + 1) y then if y + 0 <=? y2 then f (y + 0) else br else f y) = f y.
Proof.
  unfold zin. rewrite Z.add_0_r. destruct (Z.lt_ge_cases y y1); [zbool; reflexivity|].
  destruct (Z.lt_ge_cases y (y2 + 1)); zbool; reflexivity.
Qed.
Lemma shift_down_zero (y1 y2 y : Z) (f : Z -> list cell) (br : list cell) :
  (if zin y1 (y2 + 1) y then if y1 <=? y - 0 then f (y - 0) else br else f y) = f y.
Proof.
  unfold zin. rewrite Z.sub_0_r. destruct (Z.lt_ge_cases y y1); [zbool; reflexivity|].
  destruct (Z.lt_ge_cases y (y2 + 1)); zbool; reflexivity.
Qed.

Lemma cmd_rows_ext t t' f g :
  (forall y', 0 <= y' < sH (active t) -> f y' = g y') -> cmd_rows t t' f -> cmd_rows t t' g.
Proof. intros E (C & F). split; [|exact F]. intros y' Hy'. rewrite C by assumption. apply E; assumption. Qed.

Theorem scroll_cmd_clears t ps f : TInv t -> f = 83 \/ f = 84 \/ f = 76 \/ f = 77 ->
  let s := active t in let y1 := scroll_cmd_start f s in
  top s <= cy s <= bot s \/ f = 83 \/ f = 84 ->
  bot s - y1 + 1 <= p0 ps 1 ->
  cmd_rows t (exec_csi_plain ps f t) (fun y =>
    if zin y1 (bot s + 1) y then blank_row (sW s) (sty s) else row_at s y).
Proof.
  intros Ht Hf s y1 Hin Hn.
  pose proof (inv_top _ (Inv_active t Ht)) as HT. fold s in HT.
  assert (Hy1 : y1 <= bot s).
  { subst y1. unfold scroll_cmd_start. destruct Hf as [->| [->| [->| ->]]]; cbn [Z.eqb Pos.eqb orb]; lia. }
  assert (Hp : 0 <= p0 ps 1) by lia.
  destruct Hf as [->| [->| [->| ->]]]; subst y1; unfold scroll_cmd_start in *; cbn [Z.eqb Pos.eqb orb] in *.
  - eapply cmd_rows_ext; [|apply su_cmd; assumption]. intros y _. cbv beta. fold s. apply shift_up_clears. lia.
  - eapply cmd_rows_ext; [|apply sd_cmd; assumption]. intros y _. cbv beta. fold s.
    apply (shift_down_clears (top s) (bot s) (p0 ps 1) y (row_at s)). lia.
  - assert (Hin' : top s <= cy s <= bot s) by (destruct Hin as [H|[H|H]]; [exact H|discriminate H|discriminate H]).
    eapply cmd_rows_ext; [|apply il_cmd; assumption]. intros y _. cbv beta. fold s.
    apply (shift_down_clears (cy s) (bot s) (p0 ps 1) y (row_at s)). lia.
  - assert (Hin' : top s <= cy s <= bot s) by (destruct Hin as [H|[H|H]]; [exact H|discriminate H|discriminate H]).
    eapply cmd_rows_ext; [|apply dl_cmd; assumption]. intros y _. cbv beta. fold s. apply shift_up_clears. lia.
Qed.

Theorem scroll_cmd_zero t ps f : TInv t -> f = 83 \/ f = 84 \/ f = 76 \/ f = 77 -> p0 ps 1 = 0 ->
  cmd_noop t (exec_csi_plain ps f t).
Proof.
  intros Ht Hf Hp. set (s := active t). unfold cmd_noop.
  assert (Hp' : 0 <= p0 ps 1) by lia.
  destruct Hf as [->| [->| [->| ->]]].
  - eapply cmd_rows_ext; [|apply su_cmd; assumption]. intros y _. cbv beta. rewrite Hp.
    apply (shift_up_zero (top s) (bot s) y (row_at s)).
  - eapply cmd_rows_ext; [|apply sd_cmd; assumption]. intros y _. cbv beta. rewrite Hp.
    apply (shift_down_zero (top s) (bot s) y (row_at s)).
  - destruct (Z.le_gt_cases (top s) (cy s)); [destruct (Z.le_gt_cases (cy s) (bot s))|].
    + eapply cmd_rows_ext; [|apply il_cmd; [exact Ht|exact Hp'|fold s; lia]]. intros y _. cbv beta. rewrite Hp.
      apply (shift_down_zero (cy s) (bot s) y (row_at s)).
    + apply il_dl_outside_cmd; [exact Ht|auto|fold s; lia].
    + apply il_dl_outside_cmd; [exact Ht|auto|fold s; lia].
  - destruct (Z.le_gt_cases (top s) (cy s)); [destruct (Z.le_gt_cases (cy s) (bot s))|].
    + eapply cmd_rows_ext; [|apply dl_cmd; [exact Ht|exact Hp'|fold s; lia]]. intros y _. cbv beta. rewrite Hp.
      apply (shift_up_zero (cy s) (bot s) y (row_at s)).
    + apply il_dl_outside_cmd; [exact Ht|auto|fold s; lia].
    + apply il_dl_outside_cmd; [exact Ht|auto|fold s; lia].
Qed.

(* ---------- DECSTBM ---------- *)
Lemma csi_r ps t :
  exec_csi_plain ps 114 t = on_screen (fun s => set_scroll_margins (p0 ps 1 - 1) (p1 ps (sH s) - 1) s) t.
Proof. reflexivity. Qed.

Theorem decstbm_cmd t ps :
  let s := active t in let t' := exec_csi_plain ps 114 t in let s' := active t' in
  let t0 := p0 ps 1 - 1 in let b0 := p1 ps (sH s) - 1 in
  (top s', bot s') = (if b0 <? t0 then (top s, bot s) else (clamp t0 0 (sH s - 1), clamp b0 0 (sH s - 1)))
  /\ (forall y, row_at s' y = row_at s y) /\ scr_frame_nomargins s s' /\ term_frame t t'.
Proof.
  cbv zeta. rewrite csi_r. rewrite on_screen_active_eq. unfold set_scroll_margins. cbv beta.
  change (sH (set_evs [] (active t))) with (sH (active t)).
  destruct (p1 ps (sH (active t)) - 1 <? p0 ps 1 - 1);
    (split; [reflexivity|]; split; [intros y; reflexivity|]; split; [constructor; reflexivity|apply on_screen_term_frame]).
Qed.

(* a well-ordered in-range request is taken as is; the bottom defaults to the last row *)
Corollary decstbm_in_range t ps pt pb : TInv t ->
  p0 ps 1 = pt -> p1 ps (sH (active t)) = pb -> 1 <= pt -> pt <= pb -> pb <= sH (active t) ->
  top (active (exec_csi_plain ps 114 t)) = pt - 1 /\ bot (active (exec_csi_plain ps 114 t)) = pb - 1.
Proof.
  intros Ht Hpt Hpb H1 H2 H3. destruct (decstbm_cmd t ps) as (E & _). cbv zeta in E.
  rewrite Hpt, Hpb in E. destruct (Z.ltb_spec (pb - 1) (pt - 1)); [lia|].
  rewrite !clamp_id in E by lia. inversion E. auto.
Qed.

Corollary decstbm_inverted t ps :
  p1 ps (sH (active t)) < p0 ps 1 ->
  top (active (exec_csi_plain ps 114 t)) = top (active t) /\ bot (active (exec_csi_plain ps 114 t)) = bot (active t).
Proof.
  intros H. destruct (decstbm_cmd t ps) as (E & _). cbv zeta in E.
  destruct (Z.ltb_spec (p1 ps (sH (active t)) - 1) (p0 ps 1 - 1)); [|lia]. inversion E. auto.
Qed.

Corollary decstbm_default t : TInv t ->
  top (active (exec_csi_plain [] 114 t)) = 0 /\ bot (active (exec_csi_plain [] 114 t)) = sH (active t) - 1.
Proof.
  intros Ht. pose proof (inv_h _ (Inv_active t Ht)).
  destruct (decstbm_in_range t [] 1 (sH (active t)) Ht eq_refl eq_refl ltac:(lia) ltac:(lia) ltac:(lia)) as (A & B).
  split; [rewrite A; reflexivity|exact B].
Qed.

(* ---------- implicit scroll: IND / LF / RI ---------- *)
Lemma move_cursor_vert dy wrap s : Inv s ->
  move_cursor 0 dy wrap true s =
    let y2 := cy s + dy in
    let inreg := (top s <=? cy s) && (cy s <=? bot s) in
    let '(s1, y3) :=
      if inreg then
        if y2 <? top s then (scroll (top s) (bot s) (top s - y2) s, top s)
        else if bot s <? y2 then (scroll (top s) (bot s) (bot s - y2) s, bot s)
        else (s, y2)
      else (s, y2) in
    let y4 := clamp y3 0 (sH s - 1) in
    emit (ECursor (cx s) y4) (set_cur (cx s) y4 s1).
Proof.
  intros Hs. pose proof (inv_cx s Hs) as HC. unfold move_cursor.
  assert (E : (if wrap && awrap s then ((cx s + 0) mod sW s, cy s + (cx s + 0) / sW s)
               else (clamp (cx s + 0) 0 (sW s - 1), cy s)) = (cx s, cy s)).
  { rewrite Z.add_0_r. destruct (wrap && awrap s).
    - rewrite Z.mod_small by lia. rewrite Z.div_small by lia. rewrite Z.add_0_r. reflexivity.
    - rewrite clamp_id by lia. reflexivity. }
  rewrite E. reflexivity.
Qed.

Lemma nocur_set_cur e x y s s1 : scr_frame s s1 -> scr_frame_nocur s (emit e (set_cur x y s1)).
Proof. intros []; constructor; assumption. Qed.

(* index (cursor down with scroll): at the bottom margin the region scrolls up
   and the cursor stays; anywhere else the cursor moves down, stopping at the
   last row, and no cell changes *)
Lemma ind_screen wrap s : Inv s ->
  let s' := move_cursor 0 1 wrap true s in
  (forall y, row_at s' y = if cy s =? bot s then region_up1 s y else row_at s y)
  /\ cx s' = cx s
  /\ cy s' = (if cy s =? bot s then bot s else Z.min (cy s + 1) (sH s - 1))
  /\ scr_frame_nocur s s'.
Proof.
  intros Hs s'. subst s'. rewrite move_cursor_vert by exact Hs. cbv zeta.
  pose proof (inv_top s Hs) as HT. pose proof (inv_bot s Hs) as HB. pose proof (inv_cy s Hs) as HC.
  pose proof (inv_h s Hs) as HH.
  destruct (Z.eqb_spec (cy s) (bot s)) as [E|NE].
  - rewrite E. zbool. replace (bot s - (bot s + 1)) with (- (1)) by lia.
    rewrite (clamp_id (bot s)) by lia.
    split; [|split; [reflexivity|split; [reflexivity|apply nocur_set_cur, scroll_frame]]].
    intros y. exact (scroll_up_row (top s) (bot s) 1 s Hs (proj1 HT) (proj2 HT) HB ltac:(lia) y).
  - assert (Ecl : clamp (cy s + 1) 0 (sH s - 1) = Z.min (cy s + 1) (sH s - 1)) by (rewrite clamp_spec by lia; lia).
    destruct (Z.leb_spec (top s) (cy s)); [destruct (Z.leb_spec (cy s) (bot s))|]; cbn [andb]; zbool; rewrite Ecl;
      (split; [intros y; reflexivity|split; [reflexivity|split; [reflexivity|apply nocur_set_cur, scr_frame_refl]]]).
Qed.

(* reverse index *)
Lemma ri_screen s : Inv s ->
  let s' := move_cursor 0 (-1) false true s in
  (forall y, row_at s' y = if cy s =? top s then region_down1 s y else row_at s y)
  /\ cx s' = cx s
  /\ cy s' = (if cy s =? top s then top s else Z.max (cy s - 1) 0)
  /\ scr_frame_nocur s s'.
Proof.
  intros Hs s'. subst s'. rewrite move_cursor_vert by exact Hs. cbv zeta.
  pose proof (inv_top s Hs) as HT. pose proof (inv_bot s Hs) as HB. pose proof (inv_cy s Hs) as HC.
  pose proof (inv_h s Hs) as HH.
  destruct (Z.eqb_spec (cy s) (top s)) as [E|NE].
  - rewrite E. zbool. replace (top s - (top s + -1)) with 1 by lia.
    rewrite (clamp_id (top s)) by lia.
    split; [|split; [reflexivity|split; [reflexivity|apply nocur_set_cur, scroll_frame]]].
    intros y. exact (scroll_down_row (top s) (bot s) 1 s Hs (proj1 HT) (proj2 HT) HB ltac:(lia) y).
  - assert (Ecl : clamp (cy s + -1) 0 (sH s - 1) = Z.max (cy s - 1) 0) by (rewrite clamp_spec by lia; lia).
    destruct (Z.leb_spec (top s) (cy s)); [destruct (Z.leb_spec (cy s) (bot s))|]; cbn [andb]; zbool; rewrite Ecl;
      (split; [intros y; reflexivity|split; [reflexivity|split; [reflexivity|apply nocur_set_cur, scr_frame_refl]]]).
Qed.

(* LF = carriage return + index in this emulator *)
Lemma lf_screen s : Inv s ->
  let s' := move_cursor 0 1 true true (set_cursor_pos 0 (cy s) s) in
  (forall y, row_at s' y = if cy s =? bot s then region_up1 s y else row_at s y)
  /\ cx s' = 0
  /\ cy s' = (if cy s =? bot s then bot s else Z.min (cy s + 1) (sH s - 1))
  /\ scr_frame_nocur s s'.
Proof.
  intros Hs. pose proof (inv_cy s Hs) as HC. pose proof (inv_w s Hs) as HW.
  assert (E : set_cursor_pos 0 (cy s) s = emit (ECursor 0 (cy s)) (set_cur 0 (cy s) s)).
  { unfold set_cursor_pos. rewrite !clamp_id by lia. reflexivity. }
  rewrite E. set (s0 := emit (ECursor 0 (cy s)) (set_cur 0 (cy s) s)).
  assert (I0 : Inv s0) by (subst s0; apply Inv_emit, Inv_set_cur; [exact Hs|lia|lia]).
  destruct (ind_screen true s0 I0) as (R & X & Y & F). cbv zeta.
  split; [exact R|]. split; [exact X|]. split; [exact Y|]. destruct F; constructor; assumption.
Qed.

Theorem ind_cmd t t' : TInv t -> t' = exec_esc 68 t \/ t' = exec_c0 12 t ->
  let s := active t in
  cmd_rows_nocur t t' (fun y => if cy s =? bot s then region_up1 s y else row_at s y)
  /\ cursor_of (active t') = (cx s, if cy s =? bot s then bot s else Z.min (cy s + 1) (sH s - 1)).
Proof.
  intros Ht Ht' s. pose proof (Inv_active0 t Ht) as I0.
  assert (E : t' = on_screen (move_cursor 0 1 false true) t) by (destruct Ht' as [-> | ->]; reflexivity).
  rewrite E. destruct (ind_screen false _ I0) as (R & X & Y & F).
  split; [split; [|split; [|apply on_screen_term_frame]]|]; rewrite on_screen_active_eq.
  - intros y _. exact (R y).
  - apply (scr_frame_nocur_evs [] []). exact F.
  - unfold cursor_of. f_equal; [exact X|exact Y].
Qed.

Theorem lf_cmd t : TInv t ->
  let s := active t in let t' := exec_c0 10 t in
  cmd_rows_nocur t t' (fun y => if cy s =? bot s then region_up1 s y else row_at s y)
  /\ cursor_of (active t') = (0, if cy s =? bot s then bot s else Z.min (cy s + 1) (sH s - 1)).
Proof.
  intros Ht s t'. pose proof (Inv_active0 t Ht) as I0.
  assert (E : t' = on_screen (fun s => move_cursor 0 1 true true (set_cursor_pos 0 (cy s) s)) t) by reflexivity.
  rewrite E. destruct (lf_screen _ I0) as (R & X & Y & F).
  split; [split; [|split; [|apply on_screen_term_frame]]|]; rewrite on_screen_active_eq.
  - intros y _. exact (R y).
  - apply (scr_frame_nocur_evs [] []). exact F.
  - unfold cursor_of. f_equal; [exact X|exact Y].
Qed.

Theorem ri_cmd t : TInv t ->
  let s := active t in let t' := exec_esc 77 t in
  cmd_rows_nocur t t' (fun y => if cy s =? top s then region_down1 s y else row_at s y)
  /\ cursor_of (active t') = (cx s, if cy s =? top s then top s else Z.max (cy s - 1) 0).
Proof.
  intros Ht s t'. pose proof (Inv_active0 t Ht) as I0.
  assert (E : t' = on_screen (move_cursor 0 (-1) false true) t) by reflexivity.
  rewrite E. destruct (ri_screen _ I0) as (R & X & Y & F).
  split; [split; [|split; [|apply on_screen_term_frame]]|]; rewrite on_screen_active_eq.
  - intros y _. exact (R y).
  - apply (scr_frame_nocur_evs [] []). exact F.
  - unfold cursor_of. f_equal; [exact X|exact Y].
Qed.

(* ---------- autowrap at the bottom margin ---------- *)
(* A narrow glyph written in the last column of the bottom-margin row: the cell
   is written, then the cursor wraps at once (there is no deferred-wrap state),
   which scrolls the region up by one and leaves the cursor at column 0 of the
   bottom-margin row. *)
Lemma write_glyph_autowrap txt w0 s : Inv s ->
  awrap s = true -> w0 <= 1 -> cx s = sW s - 1 -> cy s = bot s ->
  let s' := write_glyph txt w0 s in
  let written := overwrite (sty s) (sW s - 1) [mkCell txt 1 (sty s)] (row_at s (bot s)) in
  (forall y, row_at s' y =
     if zin (top s) (bot s + 1) y then
       if y =? bot s then blank_row (sW s) (sty s)
       else if y + 1 =? bot s then written else row_at s (y + 1)
     else row_at s y)
  /\ cx s' = 0 /\ cy s' = bot s /\ scr_frame_nocur s s'.
Proof.
  intros Hs Haw Hw0 Hcx Hcy. cbv zeta.
  pose proof (inv_w s Hs) as HW. pose proof (inv_h s Hs) as HH.
  pose proof (inv_top s Hs) as HT. pose proof (inv_bot s Hs) as HB.
  unfold write_glyph. cbv zeta. rewrite (inv_crash s Hs). cbn [Z.eqb negb].
  assert (E1 : (if w0 <? 1 then 1 else w0) = 1) by (destruct (Z.ltb_spec w0 1); lia).
  rewrite E1.
  assert (E2 : (sW s <? 1) = false) by (apply Z.ltb_ge; lia).
  assert (E3 : (sW s <? cx s + 1) = false) by (apply Z.ltb_ge; lia).
  repeat (rewrite E2; cbv iota). repeat (rewrite E3; cbv iota).
  change (glyph_cells txt 1 (sty s)) with [mkCell txt 1 (sty s)].
  set (new := [mkCell txt 1 (sty s)]).
  assert (Ln : zlen new = 1) by reflexivity.
  assert (Hy : 0 <= cy s < sH s) by lia.
  destruct (write_row_cells_ok crText (cx s) (cy s) new s Hs Hy ltac:(lia) ltac:(lia)) as (I2 & W2 & H2).
  pose proof (write_row_cells_frame crText (cx s) (cy s) new s Hy ltac:(lia) ltac:(lia)) as F2.
  pose proof (fun y' => write_row_cells_row crText (cx s) (cy s) new s y' Hs Hy ltac:(lia) ltac:(lia) ltac:(lia)) as R2.
  set (s2 := write_row_cells crText (cx s) (cy s) new s) in *.
  rewrite (inv_crash s2 I2). cbn [Z.eqb negb].
  unfold move_cursor.
  rewrite (sf_awrap _ _ F2), (sf_cx _ _ F2), (sf_cy _ _ F2), (sf_w _ _ F2), (sf_h _ _ F2), (sf_top _ _ F2), (sf_bot _ _ F2).
  rewrite Haw, Hcx, Hcy. cbn [andb].
  replace (sW s - 1 + 1) with (sW s) by lia.
  rewrite Z_mod_same_full. rewrite Z_div_same_full by lia.
  cbv beta iota zeta. zbool. cbv beta iota zeta.
  replace (bot s - (bot s + 1 + 0)) with (- (1)) by lia.
  rewrite (clamp_id (bot s)) by lia.
  split; [|split; [reflexivity|split; [reflexivity|]]].
  - intros y.
    change (row_at (emit ?e (set_cur ?a ?b ?z)) y) with (row_at z y).
    rewrite <- (sf_top _ _ F2), <- (sf_bot _ _ F2).
    rewrite (scroll_up_row (top s2) (bot s2) 1 s2 I2) by (rewrite ?(sf_top _ _ F2), ?(sf_bot _ _ F2), ?H2; lia).
    rewrite (sf_top _ _ F2), (sf_bot _ _ F2), (sf_w _ _ F2), (sf_sty _ _ F2).
    rewrite !R2. rewrite Hcx, Hcy. unfold zin.
    destruct (Z.lt_ge_cases y (top s)); [zbool; reflexivity|].
    destruct (Z.lt_ge_cases y (bot s + 1)); [|zbool; reflexivity].
    destruct (Z.eqb_spec y (bot s)) as [->|]; [zbool; reflexivity|].
    destruct (Z.eqb_spec (y + 1) (bot s)); zbool; reflexivity.
  - apply nocur_set_cur. eapply scr_frame_trans; [exact F2|apply scroll_frame].
Qed.

(* A wide glyph that does not fit at the end of the bottom-margin row (autowrap
   on, W >= 3): the cursor wraps BEFORE the write, so the region scrolls first
   (the old rows, including the unused last cell, move up unchanged) and the
   glyph is written at column 0 of the fresh bottom-margin row. *)
Lemma write_glyph_wide_autowrap txt s : Inv s ->
  awrap s = true -> 3 <= sW s -> cx s = sW s - 1 -> cy s = bot s ->
  let s' := write_glyph txt 2 s in
  (forall y, row_at s' y =
     if y =? bot s then overwrite (sty s) 0 (glyph_cells txt 2 (sty s)) (blank_row (sW s) (sty s))
     else region_up1 s y)
  /\ cx s' = 2 /\ cy s' = bot s /\ scr_frame_nocur s s'.
Proof.
  intros Hs Haw HW Hcx Hcy. cbv zeta.
  pose proof (inv_h s Hs) as HH. pose proof (inv_top s Hs) as HT. pose proof (inv_bot s Hs) as HB.
  unfold write_glyph. cbv zeta. rewrite (inv_crash s Hs). cbn [Z.eqb negb].
  change (if 2 <? 1 then 1 else 2) with 2.
  assert (E2 : (sW s <? 2) = false) by (apply Z.ltb_ge; lia).
  assert (E3 : (sW s <? cx s + 2) = true) by (apply Z.ltb_lt; lia).
  repeat (rewrite E2; cbv iota). repeat (rewrite E3; cbv iota). repeat (rewrite Haw; cbv iota).
  (* the wrap before the write *)
  set (sc := scroll (top s) (bot s) (- (1)) s).
  assert (E1 : move_cursor (- cx s) 1 false true s = emit (ECursor 0 (bot s)) (set_cur 0 (bot s) sc)).
  { unfold move_cursor. cbn [andb]. rewrite Hcy.
    replace (cx s + - cx s) with 0 by lia. rewrite (clamp_id 0) by lia.
    zbool. cbv beta iota zeta. zbool. cbv beta iota zeta.
    replace (bot s - (bot s + 1)) with (- (1)) by lia. rewrite (clamp_id (bot s)) by lia. reflexivity. }
  rewrite E1. set (s1 := emit (ECursor 0 (bot s)) (set_cur 0 (bot s) sc)).
  assert (Fc : scr_frame s sc) by apply scroll_frame.
  destruct (Pres_scroll (top s) (bot s) (- (1)) s Hs) as (Ic & Wc & Hc). fold sc in Ic, Wc, Hc.
  assert (I1 : Inv s1) by (subst s1; apply Inv_emit, Inv_set_cur; [exact Ic|lia|lia]).
  assert (R1 : forall y, row_at s1 y = region_up1 s y).
  { intros y. exact (scroll_up_row (top s) (bot s) 1 s Hs (proj1 HT) (proj2 HT) HB ltac:(lia) y). }
  change (cx s1) with 0. change (cy s1) with (bot s). change (sty s1) with (sty sc).
  rewrite (sf_sty _ _ Fc).
  set (new := glyph_cells txt 2 (sty s)).
  assert (Ln : zlen new = 2) by reflexivity.
  assert (Hy : 0 <= bot s < sH s1) by (change (sH s1) with (sH sc); lia).
  assert (Hl : 0 + zlen new <= sW s1) by (change (sW s1) with (sW sc); lia).
  destruct (write_row_cells_ok crText 0 (bot s) new s1 I1 Hy ltac:(lia) Hl) as (I2 & W2 & H2).
  pose proof (write_row_cells_frame crText 0 (bot s) new s1 Hy ltac:(lia) Hl) as F2.
  pose proof (fun y' => write_row_cells_row crText 0 (bot s) new s1 y' I1 Hy ltac:(lia) ltac:(lia) Hl) as R2.
  set (s2 := write_row_cells crText 0 (bot s) new s1) in *.
  rewrite (inv_crash s2 I2). cbn [Z.eqb negb].
  assert (F12 : scr_frame_nocur s s2 /\ cx s2 = 0 /\ cy s2 = bot s).
  { destruct F2, Fc. split; [constructor; cbn in *; congruence|]. split; assumption. }
  destruct F12 as (F12 & X2 & Y2).
  unfold move_cursor.
  rewrite (sn_awrap _ _ F12), X2, Y2, (sn_w _ _ F12), (sn_h _ _ F12), (sn_top _ _ F12), (sn_bot _ _ F12).
  rewrite Haw. cbn [andb].
  rewrite (Z.mod_small (0 + 2)) by lia. rewrite (Z.div_small (0 + 2)) by lia.
  cbv beta iota zeta. zbool. cbv beta iota zeta. zbool. cbv beta iota zeta.
  replace (bot s + 0 + 0) with (bot s) by lia. rewrite (clamp_id (bot s)) by lia.
  split; [|split; [reflexivity|split; [reflexivity|]]].
  - intros y. change (row_at (emit ?e (set_cur ?a ?b ?z)) y) with (row_at z y).
    rewrite R2. destruct (Z.eqb_spec y (bot s)) as [->|Hne]; [|apply R1].
    rewrite R1. unfold region_up1, zin. zbool.
    change (sty s1) with (sty sc). rewrite (sf_sty _ _ Fc). reflexivity.
  - destruct F12. constructor; assumption.
Qed.

(* ---------- examples on the 5x7 screen (region rows 1..5) ---------- *)
Example su_example :
  rows_after [2] 83 ex_scr = [znth 0 ex_rows []; znth 3 ex_rows []; znth 4 ex_rows []; znth 5 ex_rows [];
                               blank_row 5 stB; blank_row 5 stB; znth 6 ex_rows []].
Proof. vm_compute. reflexivity. Qed.

Example sd_example :
  rows_after [] 84 ex_scr = [znth 0 ex_rows []; blank_row 5 stB; znth 1 ex_rows []; znth 2 ex_rows [];
                              znth 3 ex_rows []; znth 4 ex_rows []; znth 6 ex_rows []]
  /\ rows_after [99] 84 ex_scr = [znth 0 ex_rows []; blank_row 5 stB; blank_row 5 stB; blank_row 5 stB;
                                   blank_row 5 stB; blank_row 5 stB; znth 6 ex_rows []]
  /\ rows_after [0] 84 ex_scr = ex_rows.
Proof. vm_compute. auto. Qed.

(* IL 2 with the cursor on row 3; DL 1 there; cursor on row 6 (outside the region): nothing *)
Example il_dl_example :
  rows_after [2] 76 (ex_scr_at 2 3) = [znth 0 ex_rows []; znth 1 ex_rows []; znth 2 ex_rows [];
                                        blank_row 5 stB; blank_row 5 stB; znth 3 ex_rows []; znth 6 ex_rows []]
  /\ rows_after [] 77 (ex_scr_at 2 3) = [znth 0 ex_rows []; znth 1 ex_rows []; znth 2 ex_rows [];
                                        znth 4 ex_rows []; znth 5 ex_rows []; blank_row 5 stB; znth 6 ex_rows []]
  /\ rows_after [2] 76 (ex_scr_at 2 6) = ex_rows /\ rows_after [2] 77 (ex_scr_at 2 0) = ex_rows.
Proof. vm_compute. auto. Qed.

Example decstbm_example :
  margins_after [2; 4] ex_scr = (1, 3) /\ margins_after [5; 3] ex_scr = (1, 5) /\ margins_after [] ex_scr = (0, 6)
  /\ margins_after [3] ex_scr = (2, 6) /\ margins_after [4; 99] ex_scr = (3, 6) /\ margins_after [3; 3] ex_scr = (2, 2)
  /\ cursor_of (active (exec_csi_plain [2; 4] 114 ex_term)) = (4, 1).
Proof. vm_compute. repeat split. Qed.

(* LF on the bottom margin (row 5) scrolls rows 1..5; on row 6 (below the region,
   last row) nothing moves; RI on the top margin scrolls down *)
Example lf_ri_example :
  (let t' := exec_c0 10 (term_of (ex_scr_at 3 5)) in
   rows (active t') = [znth 0 ex_rows []; znth 2 ex_rows []; znth 3 ex_rows []; znth 4 ex_rows []; znth 5 ex_rows [];
                       blank_row 5 stB; znth 6 ex_rows []] /\ cursor_of (active t') = (0, 5))
  /\ (let t' := exec_c0 10 (term_of (ex_scr_at 3 6)) in rows (active t') = ex_rows /\ cursor_of (active t') = (0, 6))
  /\ (let t' := exec_esc 68 (term_of (ex_scr_at 3 2)) in rows (active t') = ex_rows /\ cursor_of (active t') = (3, 3))
  /\ (let t' := exec_esc 77 (term_of (ex_scr_at 3 1)) in
      rows (active t') = [znth 0 ex_rows []; blank_row 5 stB; znth 1 ex_rows []; znth 2 ex_rows []; znth 3 ex_rows [];
                          znth 4 ex_rows []; znth 6 ex_rows []] /\ cursor_of (active t') = (3, 1))
  /\ (let t' := exec_esc 77 (term_of (ex_scr_at 3 0)) in rows (active t') = ex_rows /\ cursor_of (active t') = (3, 0)).
Proof. vm_compute. repeat split. Qed.

(* 'x' typed at (4,5), the last column of the bottom-margin row, onto the lone cell after two wide glyphs *)
Example wide_autowrap_example :
  let s' := write_glyph [19977] 2 (ex_scr_at 4 5) in
  rows s' = [znth 0 ex_rows []; znth 2 ex_rows []; znth 3 ex_rows []; znth 4 ex_rows []; znth 5 ex_rows [];
             wide 19977 stB ++ [blank stB; blank stB; blank stB]; znth 6 ex_rows []]
  /\ cursor_of s' = (2, 5).
Proof. vm_compute. auto. Qed.

Example autowrap_example :
  let s' := write_glyph [120] 1 (ex_scr_at 4 5) in
  rows s' = [znth 0 ex_rows []; znth 2 ex_rows []; znth 3 ex_rows []; znth 4 ex_rows [];
             wide 19968 stC ++ wide 20108 stA ++ [ch 120 stB]; blank_row 5 stB; znth 6 ex_rows []]
  /\ cursor_of s' = (0, 5).
Proof. vm_compute. auto. Qed.
