(* Rows that are the cells of a glyph list: where [left_edge], [cont_run] and
   [glyph_start] of Model/Screen.v land, and what the cell-level row operations
   compute on them. *)
From Coq Require Import List ZArith Bool Lia.
From Termemu Require Import Base Style Screen Parser BaseLemmas ScreenInv Span SpanText.
Import ListNotations.
Open Scope Z_scope.

Lemma cont_prefix_conts st n rest :
  (match rest with [] => True | c :: _ => is_cont c = false end) ->
  cont_prefix (repeat (contc st) n ++ rest) = n.
Proof.
  intros H. induction n as [|n IH]; cbn [repeat app cont_prefix].
  - destruct rest as [|c r]; [reflexivity|]. cbn [cont_prefix]. rewrite H. reflexivity.
  - change (is_cont (contc st)) with true. cbn iota. rewrite IH. reflexivity.
Qed.

Lemma gcells_head gl : glyphs_ok gl ->
  match gcells gl with [] => True | c :: _ => is_cont c = false end.
Proof.
  intros H. destruct H as [|g gl Hg _]; [exact I|]. cbn [gcells flat_map]. unfold gcs at 1, glyph_cells.
  cbn [app]. unfold is_cont. cbn [cwid]. unfold gw in Hg. apply Z.eqb_neq. lia.
Qed.
Lemma gcells_head_app gl rest : glyphs_ok gl ->
  (match rest with [] => True | c :: _ => is_cont c = false end) ->
  match gcells gl ++ rest with [] => True | c :: _ => is_cont c = false end.
Proof.
  intros H Hr. pose proof (gcells_head gl H) as Hh. destruct (gcells gl); [exact Hr|exact Hh].
Qed.

(* ---- an offset on a glyph boundary ---- *)
Lemma cut_boundary g1 g2 : glyphs_ok g1 -> glyphs_ok g2 ->
  let row := gcells (g1 ++ g2) in let x := gwidth g1 in
  zfirstn x row = gcells g1 /\ zskipn x row = gcells g2 /\
  is_cont (znth x row dcell) = false /\ left_edge row x = x /\ cont_run row x = 0.
Proof.
  intros H1 H2 row x. subst row x. rewrite gcells_app. rewrite <- (zlen_gcells g1 H1).
  rewrite zfirstn_app_len, zskipn_app_len.
  assert (C : is_cont (znth (zlen (gcells g1)) (gcells g1 ++ gcells g2) dcell) = false).
  { rewrite znth_app_r by lia. rewrite Z.sub_diag. pose proof (gcells_head g2 H2) as Hh.
    destruct (gcells g2) as [|c r]; [reflexivity|exact Hh]. }
  split; [reflexivity|]. split; [reflexivity|]. split; [exact C|].
  split; [unfold left_edge; rewrite C; reflexivity|].
  unfold cont_run. rewrite zskipn_app_len. pose proof (gcells_head g2 H2) as Hh.
  destruct (gcells g2) as [|c r]; [reflexivity|]. cbn [cont_prefix]. rewrite Hh. reflexivity.
Qed.

(* ---- an offset inside a wide glyph ---- *)
Lemma glyph_start_nat_head row p : is_cont (nth p row dcell) = false -> glyph_start_nat row p = p.
Proof. intros H. destruct p as [|p]; [reflexivity|]. cbn [glyph_start_nat]. rewrite H. reflexivity. Qed.
Lemma glyph_start_nat_run row p k :
  is_cont (nth p row dcell) = false ->
  (forall j, (1 <= j <= k)%nat -> is_cont (nth (p + j) row dcell) = true) ->
  glyph_start_nat row (p + k) = p.
Proof.
  intros Hp Hk. induction k as [|k IH]; [rewrite Nat.add_0_r; apply glyph_start_nat_head, Hp|].
  replace (p + S k)%nat with (S (p + k)) by lia. cbn [glyph_start_nat].
  replace (S (p + k)) with (p + S k)%nat by lia. rewrite Hk by lia. apply IH. intros j Hj. apply Hk. lia.
Qed.

Lemma cut_inside g1 g g2 k : glyphs_ok g1 -> 1 <= gw g -> glyphs_ok g2 -> 0 < k < gw g ->
  let row := gcells (g1 ++ g :: g2) in let x := gwidth g1 + k in
  zfirstn (gwidth g1) row = gcells g1 /\ zskipn (gwidth g1 + gw g) row = gcells g2 /\
  zfirstn k (zskipn (gwidth g1) row) = zfirstn k (gcs g) /\
  is_cont (znth x row dcell) = true /\ glyph_start row x = gwidth g1 /\ left_edge row x = gwidth g1 /\
  cont_run row x = gw g - k.
Proof.
  intros H1 Hg H2 Hk row x. subst row x. rewrite gcells_app. cbn [gcells flat_map]. fold (gcells g2).
  pose proof (zlen_gcells g1 H1) as L1. pose proof (zlen_gcs g Hg) as Lg. rewrite <- L1.
  set (P := gcells g1) in *. set (Q := gcells g2) in *.
  assert (F1 : zfirstn (zlen P) (P ++ gcs g ++ Q) = P) by apply zfirstn_app_len.
  assert (F2 : zskipn (zlen P + gw g) (P ++ gcs g ++ Q) = Q).
  { rewrite zskipn_app_add by lia. rewrite <- Lg. apply zskipn_app_len. }
  assert (F3 : zfirstn k (zskipn (zlen P) (P ++ gcs g ++ Q)) = zfirstn k (gcs g)).
  { rewrite zskipn_app_len. unfold zfirstn. rewrite firstn_app.
    replace (Z.to_nat k - length (gcs g))%nat with O by (unfold zlen in Lg; lia). cbn [firstn]. apply app_nil_r. }
  (* the cells of g: a head and gw g - 1 continuation cells *)
  assert (G : gcs g = mkCell (fst (fst g)) (gw g) (snd g) :: zrepeat (contc (snd g)) (gw g - 1)) by reflexivity.
  assert (Cj : forall j, 0 < j < gw g -> is_cont (znth (zlen P + j) (P ++ gcs g ++ Q) dcell) = true).
  { intros j Hj. rewrite znth_app_r by lia. replace (zlen P + j - zlen P) with j by lia.
    rewrite znth_app_l by lia. rewrite G. rewrite znth_cons_S by lia. rewrite znth_zrepeat by lia. reflexivity. }
  assert (C0 : is_cont (znth (zlen P) (P ++ gcs g ++ Q) dcell) = false).
  { rewrite znth_app_r by lia. rewrite Z.sub_diag. rewrite G. cbn [app]. rewrite znth_cons_0.
    unfold is_cont; cbn [cwid]. apply Z.eqb_neq. lia. }
  assert (GS : glyph_start (P ++ gcs g ++ Q) (zlen P + k) = zlen P).
  { unfold glyph_start. pose proof (zlen_nonneg P).
    replace (Z.to_nat (zlen P + k)) with (Z.to_nat (zlen P) + Z.to_nat k)%nat by lia.
    rewrite glyph_start_nat_run; [lia| |].
    - unfold znth in C0. destruct (Z.ltb_spec (zlen P) 0); [lia|exact C0].
    - intros j Hj. specialize (Cj (Z.of_nat j) ltac:(lia)). unfold znth in Cj.
      destruct (Z.ltb_spec (zlen P + Z.of_nat j) 0); [lia|].
      replace (Z.to_nat (zlen P + Z.of_nat j)) with (Z.to_nat (zlen P) + j)%nat in Cj by lia. exact Cj. }
  split; [exact F1|]. split; [exact F2|]. split; [exact F3|]. split; [apply Cj; lia|]. split; [exact GS|].
  split; [unfold left_edge; rewrite Cj by lia; exact GS|].
  unfold cont_run. rewrite zskipn_app_add by lia. rewrite G. rewrite <- app_comm_cons.
  unfold zskipn. replace (Z.to_nat k) with (S (Z.to_nat (k - 1))) by lia. cbn [skipn].
  rewrite skipn_app. unfold zrepeat. rewrite skipn_repeat_ by lia. rewrite repeat_length.
  replace (Z.to_nat (k - 1) - Z.to_nat (gw g - 1))%nat with O by lia. cbn [skipn].
  rewrite cont_prefix_conts; [lia|]. apply gcells_head, H2.
Qed.

(* the first k cells of a glyph, blanked, are k blanks in its style *)
Lemma unglyph_prefix g k : 0 <= k <= gw g -> map unglyph (zfirstn k (gcs g)) = zrepeat (blank (snd g)) k.
Proof.
  intros Hk. destruct (Z.eq_dec k 0) as [->|Hne]; [reflexivity|].
  unfold gcs, glyph_cells. fold (gw g). unfold zfirstn. replace (Z.to_nat k) with (S (Z.to_nat (k - 1))) by lia.
  cbn [firstn map]. unfold zrepeat at 1. rewrite firstn_repeat_ by lia.
  fold (zrepeat (contc (snd g)) (k - 1)). rewrite map_zrepeat. replace k with (1 + (k - 1)) at 2 by lia. rewrite zrepeat_S by lia. reflexivity.
Qed.

Lemma cut_inside_cells g1 g g2 k : glyphs_ok g1 -> 1 <= gw g -> glyphs_ok g2 -> 0 < k < gw g ->
  let row := gcells (g1 ++ g :: g2) in let x := gwidth g1 + k in
  znth x row dcell = contc (snd g) /\
  zfirstn (gw g - k) (zskipn x row) = zrepeat (contc (snd g)) (gw g - k).
Proof.
  intros H1 Hg H2 Hk row x. subst row x. rewrite gcells_app. cbn [gcells flat_map]. fold (gcells g2).
  pose proof (zlen_gcells g1 H1) as L1. pose proof (zlen_gcs g Hg) as Lg. rewrite <- L1.
  set (P := gcells g1) in *. set (Q := gcells g2) in *.
  assert (G : gcs g = mkCell (fst (fst g)) (gw g) (snd g) :: zrepeat (contc (snd g)) (gw g - 1)) by reflexivity.
  split.
  - rewrite znth_app_r by lia. replace (zlen P + k - zlen P) with k by lia.
    rewrite znth_app_l by lia. rewrite G. rewrite znth_cons_S by lia. rewrite znth_zrepeat by lia. reflexivity.
  - rewrite zskipn_app_add by lia. rewrite G. rewrite <- app_comm_cons.
    assert (S : zskipn k (mkCell (fst (fst g)) (gw g) (snd g) :: zrepeat (contc (snd g)) (gw g - 1) ++ Q)
                = zrepeat (contc (snd g)) (gw g - k) ++ Q).
    { unfold zskipn. replace (Z.to_nat k) with (S (Z.to_nat (k - 1))) by lia. cbn [skipn].
      rewrite skipn_app. unfold zrepeat. rewrite skipn_repeat_ by lia. rewrite repeat_length.
      replace (Z.to_nat (k - 1) - Z.to_nat (gw g - 1))%nat with O by lia. cbn [skipn]. f_equal. f_equal. lia. }
    rewrite S. rewrite <- (zlen_zrepeat_nn (contc (snd g)) (gw g - k)) at 1 by lia. apply zfirstn_app_len.
Qed.

Lemma unglyph_conts st k : map unglyph (zrepeat (contc st) k) = zrepeat (blank st) k.
Proof. rewrite map_zrepeat. reflexivity. Qed.
